#!/usr/bin/env python3
"""Regenerates /verif/MANIFEST.json from props/*.json (one file per claimed property) and properties.jsonl."""
import json, os, subprocess
ROOT = os.path.dirname(os.path.dirname(os.path.abspath(__file__)))
props = [json.loads(l) for l in open(os.path.join(ROOT, "properties.jsonl")) if l.strip()]
checks, na = [], []
hooks_commits = []
for p in props:
    pid = p["id"]
    path = os.path.join(ROOT, "props", pid + ".json")
    if not os.path.exists(path):
        na.append(dict(property_id=pid, reason="check not built yet (construction order: DESIGN.md §9); the Lean technique applies to it"))
        continue
    c = json.load(open(path))
    if c.get("not_applicable"):
        na.append(dict(property_id=pid, reason=c["not_applicable"]))
        continue
    checks.append(dict(
        property_id=pid,
        quick_cmd=f"./check {pid} quick",
        thorough_cmd=f"./check {pid} thorough",
        evidence_file=f"evidence/{pid}.json",
        replay_cmd_template=f"./check {pid} --replay {{path}}",
        engine="lean4+correspondence",
        level_claimed=dict(category="proof", text=c["level_text"], design_ref=c.get("design_ref", "DESIGN.md §6 " + pid)),
        level_note=c["level_note"],
        technique=c.get("technique", "Lean 4 theorems about an executable model + differential correspondence of model and Rust code"),
    ))
m = dict(
    version=1,
    setup_cmd="./check --setup",
    hooks=dict(guard="trion_verif", enable="RUSTFLAGS=--cfg trion_verif (no hook is needed so far: every entry point used is already pub)",
               baseline_off_cmd="cd /repo && cargo test --workspace --no-fail-fast --offline", source_commits=hooks_commits, add_only=True),
    engines=[dict(name="lean4+correspondence", path="/verif/lean + /verif/harness + /verif/check",
                  serves_properties=[c["property_id"] for c in checks],
                  kind_free_text="Lean 4 model and theorems (lake project TrionModel); Rust differential harness driving the real code and the compiled model; python driver")],
    checks=checks,
    notes="Every check: (1) lake build of the property's theorem module + axiom audit, (2) rebuild of the harness against /repo's working tree, (3) correspondence model vs implementation + property oracle on the implementation, (4) verdict per DESIGN.md §2.4, (5) evidence. Known findings: known_findings.json.",
    not_applicable=na,
)
json.dump(m, open(os.path.join(ROOT, "MANIFEST.json"), "w"), indent=1)
print(f"{len(checks)} checks, {len(na)} not claimed")
