#!/bin/bash
# Line coverage of /repo/src under the quick harnesses (auxiliary tool; not part of any registered check).
# Builds an instrumented copy of the harness and of trias/tridas with the nightly toolchain (its llvm-tools carry
# llvm-profdata / llvm-cov), runs `harness run <id> <tier>` for the given properties, and prints the lines of
# /repo/src that no harness executed. Generator blind spots show up here before a seeded change finds them.
#   usage: tools/coverage.sh [-t quick|thorough] [-d scratchdir] [ids...]        (default: all 20, quick, /tmp/cov)
set -e
VERIF=$(cd "$(dirname "$0")/.." && pwd)
TIER=quick; D=/tmp/cov
while getopts "t:d:" o; do case $o in t) TIER=$OPTARG;; d) D=$OPTARG;; esac; done; shift $((OPTIND-1))
IDS=${@:-C01 C02 C03 C04 C05 C06 C07 C08 C09 C10 C11 C12 C13 C14 C15 C16 C17 C18 C19 C20}
B=$(dirname "$(rustup which --toolchain nightly rustc)")/../lib/rustlib/x86_64-unknown-linux-gnu/bin
mkdir -p $D/prof $D/rep $D/work $D/bin; rm -f $D/prof/*.profraw
rm -rf $D/harness; mkdir $D/harness; cp -r $VERIF/harness/Cargo.toml $VERIF/harness/Cargo.lock $VERIF/harness/src $D/harness/
[ -d $VERIF/harness/.cargo ] && cp -r $VERIF/harness/.cargo $D/harness/
export CARGO_NET_OFFLINE=true RUSTFLAGS="-C instrument-coverage"
(cd $D/harness && CARGO_TARGET_DIR=$D/target timeout 1800 cargo +nightly build --release --offline 2>&1 | tail -1)
CARGO_PROFILE_RELEASE_OVERFLOW_CHECKS=true CARGO_PROFILE_RELEASE_DEBUG_ASSERTIONS=true timeout 1800 cargo +nightly build --release --offline --bins \
  --manifest-path /repo/Cargo.toml --target-dir $D/bins 2>&1 | tail -1
cp $D/bins/release/trias $D/bins/release/tridas $D/bin/
unset RUSTFLAGS
(cd $VERIF/lean && timeout 3000 lake build trion-model 2>&1 | tail -1)
run1() { P=$1
  LLVM_PROFILE_FILE=$D/prof/$P-%p-%m.profraw TRION_MODEL_EXE=$VERIF/lean/.lake/build/bin/trion-model TRION_BIN_DIR=$D/bin VERIF_ROOT=$D LC_ALL=C \
    timeout 3000 $D/target/release/harness run $P $TIER 20260930 $D/rep/$P.json $D/work/$P > $D/rep/$P.log 2>&1; echo "$P rc=$?"; }
export -f run1; export D TIER VERIF
for p in $IDS; do mkdir -p $D/work/$p; echo $p; done | xargs -P 5 -n 1 bash -c 'run1 $0'
ls $D/prof/*.profraw > $D/files.txt
$B/llvm-profdata merge -sparse -f $D/files.txt -o $D/all.profdata 2>/dev/null
IGN='(harness/src|\.cargo|rustc|library/)'
$B/llvm-cov report -instr-profile=$D/all.profdata $D/target/release/harness -object $D/bin/trias -object $D/bin/tridas --ignore-filename-regex="$IGN" 2>/dev/null | cut -c1-30,100-140
$B/llvm-cov export -format=lcov -instr-profile=$D/all.profdata $D/target/release/harness -object $D/bin/trias -object $D/bin/tridas --ignore-filename-regex="$IGN" > $D/all.lcov 2>/dev/null
python3 - $D/all.lcov <<'PY'
import sys, collections
cur = None; miss = collections.defaultdict(list)
for l in open(sys.argv[1]):
    l = l.strip()
    if l.startswith('SF:'): cur = l[3:]
    elif l.startswith('DA:'):
        n, c = l[3:].split(',')[:2]
        if int(c) == 0: miss[cur].append(int(n))
for f in sorted(miss):
    src = open(f).read().split('\n')
    print('=====', f)
    prev = None
    for n in miss[f]:
        if prev is not None and n != prev + 1: print('   --')
        print(f'{n:5d}: {src[n-1]}'); prev = n
PY
rm -rf $D/prof $D/work
