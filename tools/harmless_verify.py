#!/usr/bin/env python3
"""Run the checks against a behaviour-preserving change: every check must stay quiet.

usage: tools/harmless_verify.py <name> <srcdir with patch.diff, meta.md> [property ids, default all]

Applies the patch to /repo (call this inside a private mount namespace where /repo is a scratch clone, or on a
/repo nobody else is using), runs ./check <id> quick for each id, records exit codes and VIOLATION lines, undoes the
patch, and writes <verif>/seeded/harmless-<name>/{patch.diff, meta.json}.
"""
import json, os, re, shutil, subprocess, sys
ROOT = os.path.dirname(os.path.dirname(os.path.abspath(__file__)))
ENV = dict(os.environ, CARGO_NET_OFFLINE="true")

def sh(cmd, cwd=None, timeout=2400):
    p = subprocess.run(cmd, cwd=cwd, shell=True, env=ENV, stdout=subprocess.PIPE, stderr=subprocess.STDOUT, text=True, timeout=timeout)
    return p.returncode, p.stdout

def main():
    name, src = sys.argv[1:3]
    ids = sys.argv[3:] or ["C%02d" % i for i in range(1, 21)]
    patch = os.path.abspath(os.path.join(src, "patch.diff"))
    rc, out = sh(f"git -C /repo apply --check {patch}")
    if rc != 0:
        print(f"[{name}] PATCH DOES NOT APPLY:\n{out}"); return 1
    sh(f"git -C /repo apply {patch}")
    results = {}
    try:
        for pid in ids:
            rc, out = sh(f"timeout 1800 ./check {pid} quick", cwd=ROOT)
            viol = [l for l in out.split("\n") if l.startswith("VIOLATION")]
            replay = None
            if viol:
                m = re.search(r"replay=(\S+)", viol[0])
                if m and os.path.exists(m.group(1)):
                    replay = json.load(open(m.group(1)))
                    for k in list(replay):
                        if isinstance(replay[k], str) and len(replay[k]) > 1500: replay[k] = replay[k][:1500] + "…"
            results[pid] = dict(exit=rc, violation_lines=viol[:3], first_replay=replay)
            print(f"[{name}] ./check {pid} quick -> exit {rc}; {viol[:1]}", flush=True)
    finally:
        sh("git -C /repo checkout -- . && git -C /repo clean -fdq src")
    dst = os.path.join(ROOT, "seeded", "harmless-" + name)
    os.makedirs(dst, exist_ok=True)
    shutil.copy(patch, os.path.join(dst, "patch.diff"))
    meta_md = open(os.path.join(src, "meta.md")).read() if os.path.exists(os.path.join(src, "meta.md")) else ""
    json.dump(dict(name=name, kind="behaviour-preserving change: every check must stay quiet", description=meta_md[:3000],
                   repo_head=subprocess.check_output("git -C /repo rev-parse --short HEAD", shell=True, text=True).strip(),
                   ran=[f"./check {p} quick" for p in ids], results=results,
                   alarms=[p for p, r in results.items() if r["exit"] != 0]),
              open(os.path.join(dst, "meta.json"), "w"), indent=1)
    return 0

if __name__ == "__main__":
    sys.exit(main())
