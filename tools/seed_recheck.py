#!/usr/bin/env python3
"""Re-run the quick check(s) of stored seeded changes against the current machinery.

usage: tools/seed_recheck.py <name>...      (names under /verif/seeded)

Applies seeded/<name>/patch.diff to /repo, runs ./check <property> quick, undoes the patch, and records the
outcome in meta.json: `first_pass` keeps what the first run (before strengthening) saw, `results` /
`detected_by` are replaced by this run's, `rechecked_at` names the /verif commit."""
import json, os, re, subprocess, sys
ROOT = os.path.dirname(os.path.dirname(os.path.abspath(__file__)))
ENV = dict(os.environ, CARGO_NET_OFFLINE="true")

def sh(cmd, cwd=None, timeout=1800):
    p = subprocess.run(cmd, cwd=cwd, shell=True, env=ENV, stdout=subprocess.PIPE, stderr=subprocess.STDOUT, text=True, timeout=timeout)
    return p.returncode, p.stdout

for name in sys.argv[1:]:
    d = os.path.join(ROOT, "seeded", name)
    mp = os.path.join(d, "meta.json")
    m = json.load(open(mp))
    props = [m["breaks_property"]]
    rc, out = sh(f"git -C /repo status --porcelain")
    assert out.strip() == "", "/repo is not clean: " + out
    rc, out = sh(f"git -C /repo apply {os.path.join(d, 'patch.diff')}")
    if rc != 0:
        print(f"[{name}] patch no longer applies: {out}"); continue
    results = {}
    try:
        for pid in props:
            rc, out = sh(f"timeout 1500 ./check {pid} quick", cwd=ROOT)
            viol = [l for l in out.split("\n") if l.startswith("VIOLATION")]
            replay = None
            if viol:
                mm = re.search(r"replay=(\S+)", viol[0])
                if mm and os.path.exists(mm.group(1)): replay = json.load(open(mm.group(1)))
            results[pid] = dict(exit=rc, violation_lines=viol[:3], first_replay=replay)
            print(f"[{name}] ./check {pid} quick -> exit {rc}; {viol[:1]}", flush=True)
    finally:
        sh("git -C /repo checkout -- . && git -C /repo clean -fdq src")
        sh("rm -rf /verif/replays")
        sh("git -C /verif checkout -- evidence")
    if "first_pass" not in m:
        m["first_pass"] = dict(results=m.get("results"), detected_by=m.get("detected_by"))
    m["results"] = results
    m["detected_by"] = [p for p, r in results.items() if r["exit"] == 1 and r["violation_lines"]]
    m["rechecked_at"] = subprocess.check_output("git -C /verif rev-parse --short HEAD", shell=True, text=True).strip()
    json.dump(m, open(mp, "w"), indent=1)
