#!/usr/bin/env python3
"""For every `fix:` commit of /repo: reverse-apply it (= the original defective code), run the quick checks of the
properties it was recorded against (known_findings.json), record which checks report a VIOLATION, undo.
Writes /verif/seeded/revert-<Fid>/{patch.diff, meta.json}."""
import json, os, re, subprocess, sys
ROOT = os.path.dirname(os.path.dirname(os.path.abspath(__file__)))
kf = json.load(open(os.path.join(ROOT, "known_findings.json")))["findings"]
byid = {}
for f in kf:
    if f["status"] == "fixed":
        byid.setdefault(f["id"], dict(commit=f["commit"], props=[], what=f["what"]))["props"].append(f["property"])
only = sys.argv[1:]
claimed = {c["property_id"] for c in json.load(open(os.path.join(ROOT, "MANIFEST.json")))["checks"]}
for fid, info in sorted(byid.items(), key=lambda kv: int(kv[0][1:])):
    if only and fid not in only: continue
    diff = subprocess.check_output(["git", "-C", "/repo", "show", "--format=", info["commit"]], text=True)
    rev = subprocess.run(["git", "-C", "/repo", "apply", "-R", "--check"], input=diff, text=True, capture_output=True)
    dst = os.path.join(ROOT, "seeded", f"revert-{fid}")
    os.makedirs(dst, exist_ok=True)
    meta = dict(name=f"revert-{fid}", kind="revert of a fix: commit (the original defect)", commit=info["commit"], breaks_properties=info["props"], what=info["what"], results={})
    if rev.returncode != 0:
        meta["note"] = "does not reverse-apply on top of later fixes (the same lines were changed again): " + rev.stderr.strip()[:200]
        print(fid, "cannot reverse-apply alone")
    else:
        # the reverse patch as a forward patch
        open(os.path.join(dst, "patch.diff"), "w").write(subprocess.run(["git", "-C", "/repo", "show", "-R", "--format=", info["commit"]], text=True, capture_output=True).stdout)
        subprocess.run(["git", "-C", "/repo", "apply", "-R"], input=diff, text=True, check=True)
        try:
            for pid in info["props"]:
                if pid not in claimed:
                    meta["results"][pid] = "not claimed yet"; continue
                p = subprocess.run(["timeout", "1500", "./check", pid, "quick"], cwd=ROOT, text=True, capture_output=True)
                viol = [l for l in p.stdout.split("\n") if l.startswith("VIOLATION")]
                first = None
                m = re.search(r"replay=(\S+)", viol[0]) if viol else None
                if m and os.path.exists(m.group(1)):
                    r = json.load(open(m.group(1))); first = {k: (str(v)[:400]) for k, v in r.items() if k in ("kind", "input", "what", "correspondence")}
                meta["results"][pid] = dict(exit=p.returncode, violation=viol[:1], first_replay=first)
                print(fid, pid, "exit", p.returncode, (viol[:1] or ["-"])[0][:110])
        finally:
            subprocess.run(["git", "-C", "/repo", "checkout", "--", "."], check=True)
            subprocess.run(["rm", "-rf", os.path.join(ROOT, "replays")])
    meta["detected_by"] = [p for p, r in meta["results"].items() if isinstance(r, dict) and r["exit"] == 1 and r["violation"]]
    json.dump(meta, open(os.path.join(dst, "meta.json"), "w"), indent=1)
