#!/usr/bin/env python3
"""Rewrites the generated blocks of DESIGN.md (between <!-- BEGIN name --> / <!-- END name -->):
   status  : per-property table from props/*.json and evidence/*.json
   seeded  : table from seeded/*/meta.json
   fixes   : table from known_findings.json"""
import glob, json, os, re
ROOT = os.path.dirname(os.path.dirname(os.path.abspath(__file__)))
props = [json.loads(l) for l in open(os.path.join(ROOT, "properties.jsonl")) if l.strip()]

def status():
    out = ["| Id | Title | Theorems audited | Still partial / outside the theorems | Correspondence cases (quick) |", "|----|-------|------------------|--------------------------------------|------------------------------|"]
    for p in props:
        pid = p["id"]
        c = json.load(open(os.path.join(ROOT, "props", pid + ".json")))
        ev = os.path.join(ROOT, "evidence", pid + ".json")
        cases = json.load(open(ev))["coverage"].get("evaluations", "?") if os.path.exists(ev) else "?"
        part = "; ".join(x.split(":")[0][:110] for x in c.get("partial", [])) or "—"
        out.append(f"| {pid} | {p['title'][:60]} | {len(c['theorems'])} (`Props/{', '.join(m.split('.')[-1] for m in c['lean_modules'])}`) | {part} | {cases} |")
    return "\n".join(out)

def seeded():
    out = ["| Change | Breaks | What it needs to manifest (short) | Detected by (quick tier) |", "|--------|--------|-----------------------------------|--------------------------|"]
    for path in sorted(glob.glob(os.path.join(ROOT, "seeded", "*", "meta.json"))):
        m = json.load(open(path))
        if m["name"].startswith("revert") or "breaks_property" not in m: continue
        need = re.sub(r"\s+", " ", m.get("needs_to_manifest", ""))
        need = re.sub(r"[|`*#]", "", need)[:140]
        det = ", ".join(m.get("detected_by", [])) or "**missed**"
        out.append(f"| {m['name']} | {m['breaks_property']} | {need} | {det} |")
    out.append("")
    out.append("| Reverted fix | Properties | Detected by (quick tier) | Note |")
    out.append("|--------------|------------|--------------------------|------|")
    for path in sorted(glob.glob(os.path.join(ROOT, "seeded", "revert-*", "meta.json")), key=lambda s: int(re.search(r"F(\d+)", s).group(1))):
        m = json.load(open(path))
        det = ", ".join(m.get("detected_by", [])) or "—"
        out.append(f"| {m['name']} | {', '.join(m['breaks_properties'])} | {det} | {m.get('note', '')[:120]} |")
    harmless = sorted(glob.glob(os.path.join(ROOT, "seeded", "harmless-*", "meta.json")))
    if harmless:
        out.append("")
        out.append("| Behaviour-preserving change | What it is (short) | Checks run (quick) | Alarms |")
        out.append("|-----------------------------|--------------------|--------------------|--------|")
        for path in harmless:
            m = json.load(open(path))
            d = re.sub(r"[|`*#]", "", re.sub(r"\s+", " ", m.get("description", "")))[:150]
            out.append(f"| {m['name']} | {d} | {len(m.get('results', {}))} | {', '.join(m.get('alarms', [])) or 'none'} |")
    return "\n".join(out)

def fixes():
    kf = json.load(open(os.path.join(ROOT, "known_findings.json")))["findings"]
    seen, out = {}, ["| # | Commit | Properties | What failed |", "|---|--------|------------|-------------|"]
    for f in kf:
        seen.setdefault(f["id"], dict(c=f.get("commit", "—"), p=[], w=f["what"], s=f["status"]))["p"].append(f["property"])
    for fid, v in sorted(seen.items(), key=lambda kv: (kv[0][0] != "F", int(kv[0][1:]))):
        w = re.sub(r"^fixed: property=\S+ \S+ ", "", v["w"]).replace("|", "\\|")[:260]
        out.append(f"| {fid} ({v['s']}) | {v['c']} | {', '.join(v['p'])} | {w} |")
    return "\n".join(out)

path = os.path.join(ROOT, "DESIGN.md")
s = open(path).read()
for name, fn in (("status", status), ("seeded", seeded), ("fixes", fixes)):
    b, e = f"<!-- BEGIN {name} -->", f"<!-- END {name} -->"
    if b in s:
        s = s[:s.index(b) + len(b)] + "\n" + fn() + "\n" + s[s.index(e):]
open(path, "w").write(s)
print("DESIGN.md blocks regenerated")
