#!/usr/bin/env python3
"""Confirm a seeded change and run the checks against it.

usage: tools/seed_verify.py <name> <property> <srcdir with patch.diff, demo.rs, meta.md> <scratch worktree of /repo> [extra property ids to run...]

1. in the scratch worktree: patch applies; the 33 existing tests pass with it; the demo fails with it and passes without it
2. applies the patch to /repo, runs ./check <property> quick (and the extra ids), records VIOLATION lines, undoes it
3. writes /verif/seeded/<name>/{patch.diff, demo.rs, meta.json}
"""
import json, os, re, shutil, subprocess, sys
ROOT = os.path.dirname(os.path.dirname(os.path.abspath(__file__)))
ENV = dict(os.environ, CARGO_NET_OFFLINE="true")

def sh(cmd, cwd=None, timeout=1800):
    p = subprocess.run(cmd, cwd=cwd, shell=True, env=ENV, stdout=subprocess.PIPE, stderr=subprocess.STDOUT, text=True, timeout=timeout)
    return p.returncode, p.stdout

def test_counts(out):
    m = re.findall(r"test result: (\w+)\. (\d+) passed; (\d+) failed", out)
    return m

def main():
    name, prop, src, wt = sys.argv[1:5]
    extra = sys.argv[5:]
    patch = os.path.abspath(os.path.join(src, "patch.diff"))
    demo = os.path.join(src, "demo.rs")
    notes = {}
    sh("git checkout -q -- . && git clean -qfd", cwd=wt)
    sh(f"git checkout -q --detach $(git -C /repo rev-parse HEAD)", cwd=wt)
    rc, out = sh(f"git apply --check {patch}", cwd=wt)
    if rc != 0:
        print("PATCH DOES NOT APPLY to current /repo HEAD:\n" + out); return 1
    # with patch, without demo: the 33 tests
    sh(f"git apply {patch}", cwd=wt)
    rc, out = sh("cargo test --offline --lib 2>&1", cwd=wt)
    notes["suite_with_patch"] = test_counts(out)
    suite_ok = any(r[0] == "ok" and r[1] == "33" for r in notes["suite_with_patch"])
    os.makedirs(os.path.join(wt, "tests"), exist_ok=True)
    shutil.copy(demo, os.path.join(wt, "tests", "demo.rs"))
    rc, out = sh("cargo test --offline --test demo 2>&1", cwd=wt)
    notes["demo_with_patch"] = test_counts(out)
    demo_fails = rc != 0
    sh(f"git apply -R {patch}", cwd=wt)
    rc, out = sh("cargo test --offline --test demo 2>&1", cwd=wt)
    notes["demo_without_patch"] = test_counts(out)
    demo_passes = rc == 0
    sh("rm -rf tests && git checkout -q -- .", cwd=wt)
    confirmed = suite_ok and demo_fails and demo_passes
    print(f"[{name}] suite_ok={suite_ok} demo_fails_with_patch={demo_fails} demo_passes_without={demo_passes}")
    # checks against /repo with the patch
    results = {}
    if confirmed:
        rc, out = sh(f"git -C /repo apply {patch}")
        assert rc == 0, out
        try:
            for pid in [prop] + extra:
                rc, out = sh(f"timeout 1500 ./check {pid} quick", cwd=ROOT)
                viol = [l for l in out.split("\n") if l.startswith("VIOLATION")]
                replay = None
                if viol:
                    m = re.search(r"replay=(\S+)", viol[0])
                    if m and os.path.exists(m.group(1)):
                        replay = json.load(open(m.group(1)))
                results[pid] = dict(exit=rc, violation_lines=viol[:3], first_replay=replay)
                print(f"[{name}] ./check {pid} quick -> exit {rc}; {viol[:1]}")
        finally:
            sh("git -C /repo checkout -- . && git -C /repo clean -fdq src")
            sh("rm -rf /verif/replays")
    dst = os.path.join(ROOT, "seeded", name)
    os.makedirs(dst, exist_ok=True)
    shutil.copy(patch, os.path.join(dst, "patch.diff"))
    shutil.copy(demo, os.path.join(dst, "demo.rs"))
    meta_md = open(os.path.join(src, "meta.md")).read() if os.path.exists(os.path.join(src, "meta.md")) else ""
    json.dump(dict(name=name, breaks_property=prop, confirmed=confirmed, confirmation=notes,
                   needs_to_manifest=meta_md[:3000], repo_head=subprocess.check_output("git -C /repo rev-parse --short HEAD", shell=True, text=True).strip(),
                   ran=[f"./check {p} quick" for p in [prop] + extra], results=results,
                   detected_by=[p for p, r in results.items() if r["exit"] == 1 and r["violation_lines"]]),
              open(os.path.join(dst, "meta.json"), "w"), indent=1)
    return 0

sys.exit(main())
