import TrionModel.Driver.Crc
import TrionModel.Driver.Codec
/-! `trion-model`: one request per line on stdin, one reply per line on stdout.
The first word selects the component; every request is self-contained (pure). -/
open Trion.Driver

def dispatch : List String → String
  | "crc" :: r => Crc.handle r
  | "codec" :: r => Codec.handle r
  | ["ping"] => "pong"
  | _ => "bad-op"

partial def loop (hin hout : IO.FS.Stream) : IO Unit := do
  let line ← hin.getLine
  if line.isEmpty then return ()
  let words := (line.trimAscii.toString.splitOn " ").filter (· ≠ "")
  hout.putStrLn (dispatch words)
  hout.flush
  loop hin hout

def main : IO Unit := do
  let hin ← IO.getStdin
  let hout ← IO.getStdout
  loop hin hout
  hout.flush
