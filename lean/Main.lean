import TrionModel.Driver.Crc
import TrionModel.Driver.Layout
import TrionModel.Driver.Parse
import TrionModel.Driver.Uf2
import TrionModel.Driver.Trias
import TrionModel.Driver.Lex
import TrionModel.Driver.Map
import TrionModel.Driver.Seg
import TrionModel.Driver.Scope
import TrionModel.Driver.Tridas
import TrionModel.Driver.Front
import TrionModel.Driver.Simp
import TrionModel.Driver.Asm
import TrionModel.Driver.Codec
/-! `trion-model`: one request per line on stdin, one reply per line on stdout.
The first word selects the component; every request is self-contained (pure). -/
open Trion.Driver

def dispatch : List String → String
  | "crc" :: r => Crc.handle r
  | "layout" :: r => Layout.handle r
  | "parse" :: r => Parse.handle r
  | "uf2" :: r => Uf2.handle r
  | "trias" :: r => Trias.handle r
  | "lex" :: r => Lex.handle r
  | "map" :: r => Map.handle r
  | "seg" :: r => Seg.handle r
  | "scope" :: r => Scope.handle r
  | "tridas" :: r => Tridas.handle r
  | "front" :: r => Front.handle r
  | "simp" :: r => Simp.handle r
  | "asm" :: r => Asm.handle r
  | "codec" :: r => Codec.handle r
  | ["ping"] => "pong"
  | _ => "bad-op"

partial def loop (hin hout : IO.FS.Stream) : IO Unit := do
  let line ← hin.getLine
  if line.isEmpty then return ()
  let words := (line.trimAscii.toString.splitOn " ").filter (· ≠ "")
  hout.putStrLn (dispatch words)
  hout.flush
  loop hin hout

def main : IO Unit := do
  let hin ← IO.getStdin
  let hout ← IO.getStdout
  loop hin hout
  hout.flush
