-- Root of the `TrionModel` library: everything that `lake build` must check.
import TrionModel.Props.C17
import TrionModel.Props.C07
import TrionModel.Props.C08
