-- Root of the `TrionModel` library: everything that `lake build` must check.
import TrionModel.Props.C17
import TrionModel.Props.C01
import TrionModel.Props.C02
import TrionModel.Props.C03
