-- Root of the `TrionModel` library: everything that `lake build` must check.
import TrionModel.Props.C17
import TrionModel.Props.C09
import TrionModel.Props.C10Parse
import TrionModel.Props.C12Parse
import TrionModel.Props.C16
import TrionModel.Props.C18
import TrionModel.Props.C10
import TrionModel.Props.C11
import TrionModel.Props.C12
import TrionModel.Props.C15
import TrionModel.Props.C13
import TrionModel.Props.C14
import TrionModel.Props.C20
import TrionModel.Props.C04
import TrionModel.Props.C19
import TrionModel.Props.C07
import TrionModel.Props.C08
