import TrionModel.Model.Parse
/-!
# Basic lemmas about the parser model: `Res.bind`, the precedence-climbing invariant (no panic)
-/
namespace Trion.Parse

variable {α β : Type}

@[simp] theorem bind_ok (a : α) (f : α → Res β) : (Res.ok a).bind f = f a := rfl
@[simp] theorem bind_err (e : ParseErr) (f : α → Res β) : (Res.err e : Res α).bind f = .err e := rfl
@[simp] theorem bind_panic (f : α → Res β) : (Res.panic : Res α).bind f = .panic := rfl
@[simp] theorem bind_fuel (f : α → Res β) : (Res.fuel : Res α).bind f = .fuel := rfl

theorem bind_eq_ok {x : Res α} {f : α → Res β} {b : β} :
    x.bind f = .ok b ↔ ∃ a, x = .ok a ∧ f a = .ok b := by
  cases x <;> simp

theorem bind_ne_panic {x : Res α} {f : α → Res β} :
    x.bind f ≠ .panic ↔ x ≠ .panic ∧ ∀ a, x = .ok a → f a ≠ .panic := by
  cases x <;> simp

theorem bind_ne_fuel {x : Res α} {f : α → Res β} :
    x.bind f ≠ .fuel ↔ x ≠ .fuel ∧ ∀ a, x = .ok a → f a ≠ .fuel := by
  cases x <;> simp

/-- the head of `ts` is not an operator of a group higher than `g` (what the loop of
`parse_binary(g)` needs in order not to panic) -/
def noHigher (g : BinOpGroup) : List Token → Prop
  | [] => True
  | t :: _ => ∀ op, t.val.binOp = some op → op.group.toNat ≤ g.toNat

/-- the head of `ts` ends an expression of group `g`: nothing left, a stop token, or an operator of a
lower group (what `parse_binary(g)` leaves behind when it succeeds) -/
def ended (g : BinOpGroup) : List Token → Prop
  | [] => True
  | t :: _ => t.val.isStop = true ∨ ∃ op, t.val.binOp = some op ∧ op.group.toNat < g.toNat

theorem group_le_five (op : BinOp) : op.group.toNat ≤ 5 := by cases op <;> decide

theorem stop_not_binOp {t : Tok} (h : t.isStop = true) : t.binOp = none := by
  cases t <;> simp_all [Tok.isStop, Tok.binOp]

theorem ended_noHigher {h g : BinOpGroup} {ts : List Token} (hg : h.toNat ≤ g.toNat + 1)
    (he : ended h ts) : noHigher g ts := by
  cases ts with
  | nil => trivial
  | cons t r =>
    intro op hop
    rcases he with hs | ⟨op', hop', hlt⟩
    · rw [stop_not_binOp hs] at hop; cases hop
    · rw [hop] at hop'; cases hop'; omega

theorem higher_toNat {g h : BinOpGroup} (hh : g.higher = some h) : h.toNat = g.toNat + 1 := by
  cases g <;> cases h <;> simp_all [BinOpGroup.higher, BinOpGroup.toNat]

theorem higher_none {g : BinOpGroup} (hh : g.higher = none) : g.toNat = 5 := by
  cases g <;> simp_all [BinOpGroup.higher, BinOpGroup.toNat]

/-- the invariant of one fuel level, for all five functions -/
structure NoPanicAt (lo : LexOut) (n : Nat) : Prop where
  unary : ∀ ts, unaryF lo n ts ≠ .panic
  binary : ∀ g st ts, binaryF lo n g st ts ≠ .panic ∧
    ∀ a r, binaryF lo n g st ts = .ok (a, r) → ended g r
  loop : ∀ g st lhs ts, noHigher g ts → binLoopF lo n g st lhs ts ≠ .panic ∧
    ∀ a r, binLoopF lo n g st lhs ts = .ok (a, r) → ended g r
  args : ∀ ts, argsF lo n ts ≠ .panic
  argsLoop : ∀ ts, argsLoopF lo n ts ≠ .panic

theorem close_ne_panic (lo : LexOut) (e : String) (w : Tok) (ts : List Token) : close lo e w ts ≠ .panic := by
  cases ts with
  | nil => simp [close]
  | cons t r => simp only [close]; split <;> simp

/-- the operand of group `g` (the `match group.higher()` of `parse_binary`) -/
theorem operand_ok {lo : LexOut} {n : Nat} (ih : NoPanicAt lo n) (g : BinOpGroup) (st : Nat × Nat) (ts : List Token) :
    (match g.higher with
      | none => unaryF lo n ts
      | some h => binaryF lo n h st ts) ≠ .panic ∧
    ∀ a r, (match g.higher with
      | none => unaryF lo n ts
      | some h => binaryF lo n h st ts) = .ok (a, r) → noHigher g r := by
  cases hh : g.higher with
  | none =>
    refine ⟨ih.unary ts, ?_⟩
    intro a r _
    cases r with
    | nil => trivial
    | cons t r =>
      intro op _
      have := group_le_five op
      have := higher_none hh
      omega
  | some h =>
    refine ⟨(ih.binary h st ts).1, ?_⟩
    intro a r hr
    exact ended_noHigher (by have := higher_toNat hh; omega) ((ih.binary h st ts).2 a r hr)

theorem noPanicAt (lo : LexOut) : ∀ n, NoPanicAt lo n := by
  intro n
  induction n with
  | zero =>
    constructor
    · intro ts; simp [unaryF]
    · intro g st ts; simp [binaryF]
    · intro g st lhs ts _; simp [binLoopF]
    · intro ts; simp [argsF]
    · intro ts; simp [argsLoopF]
  | succ n ih =>
    constructor
    · -- unary
      intro ts
      cases ts with
      | nil => simp [unaryF]
      | cons t r =>
        rw [unaryF]
        split <;> simp only [ne_eq, reduceCtorEq, not_false_eq_true]
        · rw [← ne_eq, bind_ne_panic]; exact ⟨ih.unary _, by intros; simp⟩
        · rw [← ne_eq, bind_ne_panic]; exact ⟨ih.unary _, by intros; simp⟩
        · split
          · rw [← ne_eq, bind_ne_panic]
            refine ⟨ih.args _, ?_⟩
            intro p _
            rw [bind_ne_panic]
            exact ⟨close_ne_panic _ _ _ _, by intros; simp⟩
          · simp
        · rw [← ne_eq, bind_ne_panic]
          refine ⟨(ih.binary ..).1, ?_⟩
          intro p _
          rw [bind_ne_panic]
          exact ⟨close_ne_panic _ _ _ _, by intros; simp⟩
        · rw [← ne_eq, bind_ne_panic]
          refine ⟨(ih.binary ..).1, ?_⟩
          intro p _
          rw [bind_ne_panic]
          exact ⟨close_ne_panic _ _ _ _, by intros; simp⟩
        · rw [← ne_eq, bind_ne_panic]
          refine ⟨ih.args _, ?_⟩
          intro p _
          rw [bind_ne_panic]
          exact ⟨close_ne_panic _ _ _ _, by intros; simp⟩
    · -- binary
      intro g st ts
      rw [binaryF]
      have hop := operand_ok ih g st ts
      constructor
      · rw [bind_ne_panic]
        refine ⟨hop.1, ?_⟩
        intro p hp
        exact (ih.loop g st p.1 p.2 (hop.2 p.1 p.2 hp)).1
      · intro a r hr
        rw [bind_eq_ok] at hr
        obtain ⟨p, hp, hl⟩ := hr
        exact (ih.loop g st p.1 p.2 (hop.2 p.1 p.2 hp)).2 a r hl
    · -- loop
      intro g st lhs ts hpre
      cases ts with
      | nil =>
        rw [binLoopF]
        split
        · exact ⟨by simp, by intro a r h; cases h; trivial⟩
        · exact ⟨by simp, by intro a r h; cases h⟩
      | cons t r =>
        rw [binLoopF]
        split
        · rename_i hstop
          exact ⟨by simp, by intro a r' h; cases h; exact Or.inl hstop⟩
        · split
          · exact ⟨by simp, by intro a r' h; cases h⟩
          · rename_i op hop
            split
            · rename_i hlt
              exact ⟨by simp, by intro a r' h; cases h; exact Or.inr ⟨op, hop, hlt⟩⟩
            · split
              · rename_i hgt
                have := hpre op hop
                omega
              · have hopd := operand_ok ih g st r
                constructor
                · rw [bind_ne_panic]
                  refine ⟨hopd.1, ?_⟩
                  intro p hp
                  exact (ih.loop g st _ p.2 (hopd.2 p.1 p.2 hp)).1
                · intro a r' hr
                  rw [bind_eq_ok] at hr
                  obtain ⟨p, hp, hl⟩ := hr
                  exact (ih.loop g st _ p.2 (hopd.2 p.1 p.2 hp)).2 a r' hl
    · -- args
      intro ts
      cases ts with
      | nil => rw [argsF]; split <;> simp
      | cons t r =>
        rw [argsF]
        split
        · simp
        · exact ih.argsLoop _
    · -- argsLoop
      intro ts
      rw [argsLoopF, bind_ne_panic]
      refine ⟨(ih.binary ..).1, ?_⟩
      intro p _
      split
      · split <;> simp
      · split
        · rw [bind_ne_panic]; exact ⟨ih.argsLoop _, by intros; simp⟩
        · split <;> simp

end Trion.Parse
