import TrionModel.Model.SimpE
import TrionModel.Lemmas.SimpSound7
/-!
# `Simp.evaluateE` agrees with `Simp.evaluateT` (hence with `Simp.evaluate`) once the error tree is forgotten
-/
namespace Trion.Simp
open Trion

theorem neutralizeBinE_proj (op : BinOp) (l r : Arg) : (neutralizeBinE op l r).toRes = neutralizeBin op l r := by
    simp only [neutralizeBinE, neutralizeBin, normAddSub, neutralTail, opOf]
    by_cases hop : op = .add ∨ op = .sub
    · simp only [hop, if_true]
      generalize stripNeg (decide (op = .sub)) r = s
      cases hc : cval s.2.1 with
      | none =>
        simp only
        by_cases h1 : isBad l = true
        · simp [h1, ResE.toRes]
        · by_cases h2 : isBad s.2.1 = true
          · simp [h1, h2, ResE.toRes]
          · simp [h1, h2, ResE.toRes]
      | some v =>
        simp only
        by_cases hv : v < 0
        · simp only [hv, if_true]
          cases hn : checkedNeg v with
          | none => simp [ResE.toRes]
          | some nv =>
            simp only
            by_cases h1 : isBad l = true
            · simp [h1, ResE.toRes]
            · have h2 : isBad (Arg.const nv) = false := rfl
              simp [h1, h2, ResE.toRes]
        · simp only [hv, if_false]
          by_cases h1 : isBad l = true
          · simp [h1, ResE.toRes]
          · by_cases h2 : isBad s.2.1 = true
            · simp [h1, h2, ResE.toRes]
            · simp [h1, h2, ResE.toRes]
    · simp only [hop, if_false]
      by_cases h1 : isBad l = true
      · simp [h1, ResE.toRes]
      · by_cases h2 : isBad r = true
        · simp [h1, h2, ResE.toRes]
        · simp [h1, h2, ResE.toRes]

theorem swappedE_proj (x : ResE (Bool × Arg) Arg) : (swappedE x).toRes = swapped x.toRes := by
  cases x with
  | ok p => rfl
  | err e t => rfl
  | panic => rfl

theorem neutralizeRawE_proj : ∀ a : Arg, (neutralizeRawE a).toRes = neutralizeRaw a := by
  apply Arg.negNegInd
  rotate_left
  · intro w ih
    simp only [neutralizeRawE, neutralizeRaw]
    rw [swappedE_proj, ih]
  intro a hnn
  cases a with
  | bin op l r =>
    cases op <;> try (simp only [neutralizeRawE, neutralizeRaw]; exact neutralizeBinE_proj _ _ _)
    cases l <;> try (simp only [neutralizeRawE, neutralizeRaw]; exact neutralizeBinE_proj _ _ _)
    cases r <;> try (simp only [neutralizeRawE, neutralizeRaw]; exact neutralizeBinE_proj _ _ _)
    rename_i c op2 x y
    cases op2 <;> try (simp only [neutralizeRawE, neutralizeRaw]; exact neutralizeBinE_proj _ _ _)
    simp only [neutralizeRawE, neutralizeRaw]
    split
    · rw [swappedE_proj, neutralizeBinE_proj]
    · exact neutralizeBinE_proj _ _ _
  | neg v =>
    cases v with
    | bin op x y =>
      cases op <;> try rfl
      simp only [neutralizeRawE, neutralizeRaw]
      rw [swappedE_proj, neutralizeBinE_proj]
    | neg w => exact absurd rfl (hnn w)
    | _ => rfl
  | _ => rfl

theorem neutralizeE_proj_both :
    (∀ a, (neutralizeE a).toRes = neutralize a) ∧ (∀ as, (neutralizeArgsE as).toRes = neutralizeArgs as) := by
  apply Arg.ind2
  case const => intro v; rfl
  case ident => intro s; rfl
  case str => intro s; rfl
  case bin =>
    intro op l r ihl ihr
    simp only [neutralizeE, neutralize]
    rw [← ihl, ← ihr]
    cases h1 : neutralizeE l with
    | ok p =>
      obtain ⟨c1, l'⟩ := p
      cases h2 : neutralizeE r with
      | ok q =>
        obtain ⟨c2, r'⟩ := q
        simp only [ResE.toRes]
        rw [← neutralizeRawE_proj]
        cases neutralizeRawE (.bin op l' r') with
        | ok x => rfl
        | err e t => rfl
        | panic => rfl
      | err e t => rfl
      | panic => rfl
    | err e t => rfl
    | panic => rfl
  case neg =>
    intro v ih
    simp only [neutralizeE, neutralize]
    rw [← ih]
    cases neutralizeE v with
    | ok p =>
      obtain ⟨c1, v'⟩ := p
      simp only [ResE.toRes]
      rw [← neutralizeRawE_proj]
      cases neutralizeRawE (.neg v') with
      | ok x => rfl
      | err e t => rfl
      | panic => rfl
    | err e t => rfl
    | panic => rfl
  case not =>
    intro v ih
    simp only [neutralizeE, neutralize]
    rw [← ih]
    cases neutralizeE v with
    | ok p => rfl
    | err e t => rfl
    | panic => rfl
  case addr =>
    intro v ih
    simp only [neutralizeE, neutralize]
    rw [← ih]
    cases neutralizeE v with
    | ok p => rfl
    | err e t => rfl
    | panic => rfl
  case seq =>
    intro as ih
    simp only [neutralizeE, neutralize]
    rw [← ih]
    cases neutralizeArgsE as with
    | ok p => rfl
    | err e t => rfl
    | panic => rfl
  case func =>
    intro n as ih
    simp only [neutralizeE, neutralize]
    rw [← ih]
    cases neutralizeArgsE as with
    | ok p => rfl
    | err e t => rfl
    | panic => rfl
  case nil => rfl
  case cons =>
    intro a as iha ihas
    simp only [neutralizeArgsE, neutralizeArgs]
    rw [← iha, ← ihas]
    cases neutralizeE a with
    | ok p =>
      cases neutralizeArgsE as with
      | ok q => rfl
      | err e t => rfl
      | panic => rfl
    | err e t => rfl
    | panic => rfl

theorem neutralizeE_proj (a : Arg) : (neutralizeE a).toRes = neutralize a := neutralizeE_proj_both.1 a

theorem mergeE_proj (op : BinOp) (l r : Arg) : (mergeE op l r).toRes = merge op l r := by
  unfold mergeE merge
  generalize mergeL op l = L
  generalize mergeR op r = Rr
  cases L with
  | panic => cases Rr <;> rfl
  | none => cases Rr <;> first | rfl | exact neutralizeRawE_proj _
  | found c1 s1 =>
    cases Rr with
    | panic => rfl
    | none => exact neutralizeRawE_proj _
    | found c2 s2 =>
      simp only
      cases hc : combine op s1 s2 c1 c2 with
      | error k => rfl
      | ok c =>
        simp only
        rw [← neutralizeE_proj]
        cases neutralizeE (mergeTree op l r c) with
        | ok p => rfl
        | err e t => rfl
        | panic => rfl

theorem simplifyRawE_proj (a : Arg) : (simplifyRawE a).toRes = simplifyRaw a := by
  cases a with
  | bin op l r =>
    simp only [simplifyRawE, simplifyRaw]
    by_cases h1 : isBad l = true
    · simp [h1, ResE.toRes]
    · by_cases h2 : isBad r = true
      · simp [h1, h2, ResE.toRes]
      · simp only [h1, h2, Bool.false_eq_true, if_false]
        cases hl : cval l with
        | some x =>
          cases hr : cval r with
          | some y =>
            simp only
            cases hf : foldBin op x y with
            | ok v => rfl
            | error k => rfl
          | none =>
            simp only
            cases op <;> simp only <;> first
              | exact mergeE_proj _ _ _
              | exact neutralizeRawE_proj _
              | (split
                 · rfl
                 · exact neutralizeRawE_proj _)
        | none =>
          simp only
          cases op <;> simp only <;> first
            | exact mergeE_proj _ _ _
            | exact neutralizeRawE_proj _
            | (split
               · rfl
               · exact neutralizeRawE_proj _)
  | neg v =>
    simp only [simplifyRawE, simplifyRaw]
    cases v with
    | const c => simp only; split <;> rfl
    | bin op l r =>
      cases op
      case sub =>
        simp only
        rw [← neutralizeRawE_proj (.bin .sub r l)]
        cases neutralizeRawE (.bin .sub r l) with
        | ok p => rfl
        | err e t => rfl
        | panic => rfl
      all_goals rfl
    | neg w =>
      simp only
      rw [← neutralizeRawE_proj (.neg (.neg w))]
      cases neutralizeRawE (.neg (.neg w)) with
      | ok p => rfl
      | err e t => rfl
      | panic => rfl
    | _ => rfl
  | not v =>
    simp only [simplifyRawE, simplifyRaw]
    cases v <;> rfl
  | addr v =>
    simp only [simplifyRawE, simplifyRaw]
    split <;> rfl
  | _ => rfl

theorem afterRawE_proj (ev : Ev) (a : Arg) : (afterRawE ev a).toT = afterRawT ev a := by
  unfold afterRawE afterRawT
  rw [← simplifyRawE_proj]
  cases simplifyRawE a with
  | ok p => rfl
  | err e t => rfl
  | panic => rfl

/-- `evaluateE` is `evaluateT` plus the tree left behind on an error -/
theorem evaluateE_proj_both (lk : Bytes → Lookup) (isReg : Bytes → Bool) :
    (∀ a, (evaluateE lk isReg a).toT = evaluateT lk isReg a) ∧
    (∀ as, (evaluateArgsE lk isReg as).toT = evaluateArgsT lk isReg as) := by
  apply Arg.ind2
  case const => intro v; rfl
  case ident =>
    intro s
    simp only [evaluateE, evaluateT]
    split
    · rfl
    · cases lk s <;> rfl
  case str => intro v; rfl
  case bin =>
    intro op l r ihl ihr
    simp only [evaluateE, evaluateT]
    rw [← ihl, ← ihr]
    cases h1 : evaluateE lk isReg l with
    | ok e1 l' =>
      cases h2 : evaluateE lk isReg r with
      | ok e2 r' => simp only [EvE.toT]; exact afterRawE_proj _ _
      | nosuch n r' => rfl
      | err e t => rfl
      | panic => rfl
    | nosuch n l' => rfl
    | err e t => rfl
    | panic => rfl
  case neg =>
    intro v ih
    simp only [evaluateE, evaluateT]
    rw [← ih]
    cases evaluateE lk isReg v with
    | ok e1 l' => simp only [EvE.toT]; exact afterRawE_proj _ _
    | nosuch n l' => rfl
    | err e t => rfl
    | panic => rfl
  case not =>
    intro v ih
    simp only [evaluateE, evaluateT]
    rw [← ih]
    cases evaluateE lk isReg v with
    | ok e1 l' => simp only [EvE.toT]; exact afterRawE_proj _ _
    | nosuch n l' => rfl
    | err e t => rfl
    | panic => rfl
  case addr =>
    intro v ih
    simp only [evaluateE, evaluateT]
    rw [← ih]
    cases evaluateE lk isReg v with
    | ok e1 l' => simp only [EvE.toT]; exact afterRawE_proj _ _
    | nosuch n l' => rfl
    | err e t => rfl
    | panic => rfl
  case seq =>
    intro as ih
    simp only [evaluateE, evaluateT]
    rw [← ih]
    cases evaluateArgsE lk isReg as with
    | ok e1 l' => rfl
    | nosuch n l' => rfl
    | err e t => rfl
    | panic => rfl
  case func =>
    intro n as ih
    simp only [evaluateE, evaluateT]
    rw [← ih]
    cases evaluateArgsE lk isReg as with
    | ok e1 l' => rfl
    | nosuch n l' => rfl
    | err e t => rfl
    | panic => rfl
  case nil => rfl
  case cons =>
    intro a as iha ihas
    simp only [evaluateArgsE, evaluateArgsT]
    rw [← iha, ← ihas]
    cases evaluateE lk isReg a with
    | ok e1 a' =>
      cases evaluateArgsE lk isReg as with
      | ok e2 as' => rfl
      | nosuch n as' => rfl
      | err e t => rfl
      | panic => rfl
    | nosuch n a' => rfl
    | err e t => rfl
    | panic => rfl

/-- forgetting the error tree, `evaluateE` is `evaluateT`; with `evaluateT_is_evaluate`, it is `evaluate` -/
theorem evaluateE_is_evaluateT (lk : Bytes → Lookup) (isReg : Bytes → Bool) (a : Arg) :
    (evaluateE lk isReg a).toT = evaluateT lk isReg a := (evaluateE_proj_both lk isReg).1 a

end Trion.Simp
