import TrionModel.Lemmas.Scope
/-! Helper lemmas for C14: the exact effect of `.export`, `.global` and the `.global` closure on the two visible tables
(proofs of the per-statement `frame_*` theorems of `Props/C14.lean`; core Lean only). -/
namespace Trion.Scope

theorem set_change (l : Table) (n : Bytes) (v : Option Int) (m : Bytes) :
    (l.set n v).find m = l.find m ∨ (m = n ∧ (l.set n v).find m = some v) := by
  by_cases h : n = m
  · subst h; exact .inr ⟨rfl, Table.find_set_same _ _ _⟩
  · exact .inl (Table.find_set_other _ _ _ _ h)

theorem frame_export_lem {s s' : State} {l : Table} {n : Bytes} {tag : Nat} {r : Option Level}
    (hl : s.locals = some l) (h : stmt s (.export n tag) = .ok (s', r)) :
    s'.locals = s.locals ∧ ∀ m, s'.globals.find m = s.globals.find m ∨
      (m = n ∧ (∀ w, s.globals.find n ≠ some (some w)) ∧
        ∃ v, l.find n = some (some v) ∧ s'.globals.find m = some (some v)) := by
  simp only [stmt] at h
  unfold doExport at h
  split at h
  · cases h
  · cases h; exact ⟨rfl, fun m => .inl rfl⟩
  · cases h; exact ⟨rfl, fun m => .inl rfl⟩
  · rename_i v hg
    have hlf : l.find n = some (some v) := by
      rw [getConstant_loc hl] at hg
      exact get_found (Except.ok.inj hg)
    have key : ∀ {s1 : State} {res : Except CErr Bool}, insertConstant s n v .global = .ok (s1, res) →
        s1.locals = s.locals ∧ ∀ m, s1.globals.find m = s.globals.find m ∨
          (m = n ∧ (∀ w, s.globals.find n ≠ some (some w)) ∧
            ∃ v, l.find n = some (some v) ∧ s1.globals.find m = some (some v)) := by
      intro s1 res hi
      obtain ⟨hlo, hc⟩ := insertConstant_glob_char hi
      refine ⟨hlo, fun m => ?_⟩
      rcases hc with hc | ⟨hun, hc⟩
      · rw [hc]; exact .inl rfl
      · rw [hc]
        rcases set_change s.globals n (some v) m with h1 | ⟨h1, h2⟩
        · exact .inl h1
        · exact .inr ⟨h1, hun, v, hlf, h2⟩
    split at h
    · cases h
    · rename_i hi; cases h; have hk := key hi; exact hk
    · rename_i hi; cases h; have hk := key hi; exact hk
    · cases h

theorem frame_global_task_lem {s s' : State} {l : Table} {n : Bytes} {tag : Nat} {r : Option Level}
    (hl : s.locals = some l) (h : runTask s (.globalCopy n tag) = .ok (s', r)) :
    s'.locals = s.locals ∧ ∀ m, s'.globals.find m = s.globals.find m ∨
      (m = n ∧ (∀ w, s.globals.find n ≠ some (some w)) ∧
        ∃ v, l.find n = some (some v) ∧ s'.globals.find m = some (some v)) := by
  simp only [runTask] at h
  unfold runGlobalCopy at h
  split at h
  · cases h
  · cases h; exact ⟨rfl, fun m => .inl rfl⟩
  · cases h; exact ⟨rfl, fun m => .inl rfl⟩
  · rename_i v hg
    have hlf : l.find n = some (some v) := by
      rw [getConstant_loc hl] at hg
      exact get_found (Except.ok.inj hg)
    have key : ∀ {s1 : State} {res : Except CErr Bool}, insertConstant s n v .global = .ok (s1, res) →
        s1.locals = s.locals ∧ ∀ m, s1.globals.find m = s.globals.find m ∨
          (m = n ∧ (∀ w, s.globals.find n ≠ some (some w)) ∧
            ∃ v, l.find n = some (some v) ∧ s1.globals.find m = some (some v)) := by
      intro s1 res hi
      obtain ⟨hlo, hc⟩ := insertConstant_glob_char hi
      refine ⟨hlo, fun m => ?_⟩
      rcases hc with hc | ⟨hun, hc⟩
      · rw [hc]; exact .inl rfl
      · rw [hc]
        rcases set_change s.globals n (some v) m with h1 | ⟨h1, h2⟩
        · exact .inl h1
        · exact .inr ⟨h1, hun, v, hlf, h2⟩
    split at h
    · cases h
    · rename_i hi; cases h; have hk := key hi; exact hk
    · rename_i hi; cases h; have hk := key hi; exact hk
    · cases h

theorem frame_global_lem {s s' : State} {l : Table} {n : Bytes} {tag : Nat} {r : Option Level}
    (hl : s.locals = some l) (h : stmt s (.global n tag) = .ok (s', r)) :
    (∃ l', s'.locals = some l' ∧ ∀ m, l'.find m = l.find m ∨ (m = n ∧ l.find n = none ∧ l'.find m = some none)) ∧
    (∀ m, s'.globals.find m = s.globals.find m ∨ (m = n ∧ s.globals.find n = none ∧
      (s'.globals.find m = some none ∨ ∃ v, l.find n = some (some v) ∧ s'.globals.find m = some (some v)))) := by
  simp only [stmt] at h
  unfold doGlobal at h
  split at h
  · cases h
  · rename_i hd; cases h
    have := deferConstant_error hd; subst this
    exact ⟨⟨l, hl, fun m => .inl rfl⟩, fun m => .inl rfl⟩
  · rename_i hd; cases h
    have := deferConstant_error hd; subst this
    exact ⟨⟨l, hl, fun m => .inl rfl⟩, fun m => .inl rfl⟩
  · rename_i s1 hd
    obtain ⟨h1, h2⟩ := deferConstant_glob_char hd
    have hl1 : s1.locals = some l := by rw [h1, hl]
    -- the includer's table after the announcement
    have hg1 : ∀ m, s1.globals.find m = s.globals.find m ∨
        (m = n ∧ s.globals.find n = none ∧ s1.globals.find m = some none) := by
      intro m
      rcases h2 with h2 | ⟨hn, h2⟩
      · rw [h2]; exact .inl rfl
      · rw [h2]
        rcases set_change s.globals n none m with h3 | ⟨h3, h4⟩
        · exact .inl h3
        · exact .inr ⟨h3, hn, h4⟩
    have hg1n : s.globals.find n = none ∨ s1.globals = s.globals := by
      rcases h2 with h2 | ⟨hn, _⟩
      · exact .inr h2
      · exact .inl hn
    split at h
    · cases h
    · -- the file already has a value: exported at once
      rename_i v hgc
      have hlf : l.find n = some (some v) := by
        rw [getConstant_loc hl1] at hgc
        exact get_found (Except.ok.inj hgc)
      split at h
      · cases h
      · cases h
      · cases h
      · rename_i s2 hi; cases h
        obtain ⟨h3, h4⟩ := insertConstant_glob_char hi
        refine ⟨⟨l, by rw [h3, hl1], fun m => .inl rfl⟩, fun m => ?_⟩
        rcases h4 with h4 | ⟨_, h4⟩
        · rw [h4]
          rcases hg1 m with h5 | ⟨h5, h6, h7⟩
          · exact .inl h5
          · exact .inr ⟨h5, h6, .inl h7⟩
        · rw [h4]
          rcases set_change s1.globals n (some v) m with h5 | ⟨h5, h6⟩
          · rw [h5]
            rcases hg1 m with h7 | ⟨h7, h8, h9⟩
            · exact .inl h7
            · exact .inr ⟨h7, h8, .inl h9⟩
          · rcases hg1n with hn | hsame
            · exact .inr ⟨h5, hn, .inr ⟨v, hlf, h6⟩⟩
            · -- the announcement failed to change the table only if it errored, which is not this branch
              unfold deferConstant at hd
              split at hd
              · cases hd
              · simp only at hd
                split at hd
                · cases hd
                · rename_i hfn; exact .inr ⟨h5, hfn, .inr ⟨v, hlf, h6⟩⟩
    · -- no entry yet: announce locally, schedule the copy
      rename_i hgc
      have hlf : l.find n = none := by
        rw [getConstant_loc hl1] at hgc
        exact get_notFound (Except.ok.inj hgc)
      split at h
      · cases h
      · cases h
      · rename_i s2 hd2
        obtain ⟨h3, h4⟩ := deferConstant_loc_char hd2
        split at h
        · cases h
        · rename_i s3 ha; cases h
          obtain ⟨h5, h6⟩ := addTask_tables ha
          constructor
          · rcases h4 with h4 | ⟨l0, hl0, _, h4⟩
            · exact ⟨l, by rw [h5, h4, hl1], fun m => .inl rfl⟩
            · rw [hl1] at hl0; cases hl0
              refine ⟨_, by rw [h5, h4], fun m => ?_⟩
              rcases set_change l n none m with h7 | ⟨h7, h8⟩
              · exact .inl h7
              · exact .inr ⟨h7, hlf, h8⟩
          · intro m
            rw [h6, h3]
            rcases hg1 m with h7 | ⟨h7, h8, h9⟩
            · exact .inl h7
            · exact .inr ⟨h7, h8, .inl h9⟩
    · -- already announced locally: schedule the copy
      split at h
      · cases h
      · rename_i s3 ha; cases h
        obtain ⟨h5, h6⟩ := addTask_tables ha
        refine ⟨⟨l, by rw [h5, hl1], fun m => .inl rfl⟩, fun m => ?_⟩
        rw [h6]
        rcases hg1 m with h7 | ⟨h7, h8, h9⟩
        · exact .inl h7
        · exact .inr ⟨h7, h8, .inl h9⟩

theorem isolation_define_lem {s s' : State} {l : Table} {n : Bytes} {v : Int} {tag : Nat} {r : Option Level}
    (hl : s.locals = some l) (h : stmt s (.const n v tag) = .ok (s', r) ∨ stmt s (.label n v tag) = .ok (s', r)) :
    s'.globals = s.globals ∧
    ∃ l', s'.locals = some l' ∧ ∀ m, l'.find m = l.find m ∨ (m = n ∧ l'.find m = some (some v)) := by
  have key : ∀ {s1 : State} {res : Except CErr Bool}, insertConstant s n v .loc = .ok (s1, res) →
      s1.globals = s.globals ∧
      ∃ l', s1.locals = some l' ∧ ∀ m, l'.find m = l.find m ∨ (m = n ∧ l'.find m = some (some v)) := by
    intro s1 res hi
    obtain ⟨hg, hc⟩ := insertConstant_loc_char hi
    refine ⟨hg, ?_⟩
    rcases hc with hc | ⟨l0, hl0, _, hc⟩
    · exact ⟨l, by rw [hc, hl], fun m => .inl rfl⟩
    · rw [hl] at hl0; cases hl0
      exact ⟨_, hc, set_change l n (some v)⟩
  rcases h with h | h
  · simp only [stmt] at h
    unfold doConst at h
    split at h
    · cases h
    all_goals (rename_i hi; cases h; have hk := key hi; exact hk)
  · simp only [stmt] at h
    unfold doLabel at h
    split at h
    · cases h
    all_goals (rename_i hi; cases h; have hk := key hi; exact hk)

theorem isolation_import_lem {s s' : State} {l : Table} {n : Bytes} {tag : Nat} {r : Option Level}
    (hl : s.locals = some l) (h : stmt s (.import n tag) = .ok (s', r)) :
    s'.globals = s.globals ∧
    ∃ l', s'.locals = some l' ∧ ∀ m, l'.find m = l.find m ∨ (m = n ∧ l'.find m = s.globals.find n) := by
  simp only [stmt] at h
  unfold doImport at h
  split at h
  · cases h
  · cases h; exact ⟨rfl, l, hl, fun m => .inl rfl⟩
  · rename_i hg
    have hgf : s.globals.find n = some none := by
      simp only [getConstant] at hg
      exact get_deferred (Except.ok.inj hg)
    have key : ∀ {s1 : State} {res : Except CErr Unit}, deferConstant s n .loc = .ok (s1, res) →
        s1.globals = s.globals ∧
        ∃ l', s1.locals = some l' ∧ ∀ m, l'.find m = l.find m ∨ (m = n ∧ l'.find m = s.globals.find n) := by
      intro s1 res hd
      obtain ⟨hgl, hc⟩ := deferConstant_loc_char hd
      refine ⟨hgl, ?_⟩
      rcases hc with hc | ⟨l0, hl0, _, hc⟩
      · exact ⟨l, by rw [hc, hl], fun m => .inl rfl⟩
      · rw [hl] at hl0; cases hl0
        exact ⟨_, hc, fun m => by rw [hgf]; exact set_change l n none m⟩
    split at h
    · cases h
    · rename_i hd; cases h; have hk := key hd; exact hk
    · rename_i hd; cases h; have hk := key hd; exact hk
    · cases h
  · rename_i v hg
    have hgf : s.globals.find n = some (some v) := by
      simp only [getConstant] at hg
      exact get_found (Except.ok.inj hg)
    have key : ∀ {s1 : State} {res : Except CErr Bool}, insertConstant s n v .loc = .ok (s1, res) →
        s1.globals = s.globals ∧
        ∃ l', s1.locals = some l' ∧ ∀ m, l'.find m = l.find m ∨ (m = n ∧ l'.find m = s.globals.find n) := by
      intro s1 res hi
      obtain ⟨hgl, hc⟩ := insertConstant_loc_char hi
      refine ⟨hgl, ?_⟩
      rcases hc with hc | ⟨l0, hl0, _, hc⟩
      · exact ⟨l, by rw [hc, hl], fun m => .inl rfl⟩
      · rw [hl] at hl0; cases hl0
        exact ⟨_, hc, fun m => by rw [hgf]; exact set_change l n (some v) m⟩
    split at h
    · cases h
    · rename_i hi; cases h; have hk := key hi; exact hk
    · rename_i hi; cases h; have hk := key hi; exact hk
    · cases h

end Trion.Scope
