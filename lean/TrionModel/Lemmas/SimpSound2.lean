import TrionModel.Lemmas.SimpSound1
import TrionModel.Lemmas.SimpInv
/-!
# Soundness of the simplifier, part 2: `neutralize_raw` and `neutralize` preserve the ideal value
-/
namespace Trion.Simp
open Trion

theorem valZ_bin {ρ : Env} {op : BinOp} {l r : Arg} {v : Int} (h : valZ ρ (.bin op l r) = some v) :
    ∃ a b, valZ ρ l = some a ∧ valZ ρ r = some b ∧ opZ op a b = some v := by
  simp only [valZ] at h; exact liftBin_eq_some h

theorem valZ_bin_mk {ρ : Env} {op : BinOp} {l r : Arg} {a b : Int} (hl : valZ ρ l = some a)
    (hr : valZ ρ r = some b) : valZ ρ (.bin op l r) = opZ op a b := by
  simp [valZ, hl, hr, liftBin]

theorem valZ_neg {ρ : Env} {a : Arg} {v : Int} (h : valZ ρ (.neg a) = some v) :
    ∃ w, valZ ρ a = some w ∧ v = -w := by
  simp only [valZ] at h
  cases ha : valZ ρ a with
  | none => simp [ha] at h
  | some w => simp only [ha, Option.map_some, Option.some.injEq] at h; exact ⟨w, rfl, h.symm⟩

theorem cval_valZ {ρ : Env} {a : Arg} {c : Int} (h : cval a = some c) : valZ ρ a = some c := by
  cases a <;> simp_all [cval, valZ]

/-- value of `x + y` / `x - y` -/
def asZ (isSub : Bool) (x y : Int) : Int := if isSub then x - y else x + y

theorem stripNeg_val (ρ : Env) (r : Arg) (s : Bool) (vr : Int) (h : valZ ρ r = some vr) :
    ∃ vr', valZ ρ (stripNeg s r).2.1 = some vr' ∧ ∀ x, asZ s x vr = asZ (stripNeg s r).1 x vr' := by
  induction r using Arg.ind generalizing s vr with
  | neg n ih =>
    obtain ⟨w, hw, rfl⟩ := valZ_neg h
    obtain ⟨vr', h1, h2⟩ := ih (!s) w hw
    refine ⟨vr', by simpa [stripNeg] using h1, fun x => ?_⟩
    have := h2 x
    simp only [stripNeg]
    rw [← this]
    cases s <;> simp [asZ] <;> omega
  | _ => exact ⟨vr, by simpa [stripNeg] using h, fun x => by simp [stripNeg]⟩

theorem normAddSub_val (ρ : Env) {s : Bool} {r : Arg} {ch s' : Bool} {r' : Arg} {vr : Int}
    (he : normAddSub s r = .ok (ch, s', r')) (h : valZ ρ r = some vr) :
    ∃ vr', valZ ρ r' = some vr' ∧ ∀ x, asZ s x vr = asZ s' x vr' := by
  unfold normAddSub at he
  obtain ⟨w, hw, hx⟩ := stripNeg_val ρ r s vr h
  cases hc : cval (stripNeg s r).2.1 with
  | none =>
    simp only [hc, Res.ok.injEq, Prod.mk.injEq] at he
    obtain ⟨_, rfl, rfl⟩ := he
    exact ⟨w, hw, hx⟩
  | some v =>
    simp only [hc] at he
    have hwv : w = v := by
      have := cval_valZ (ρ := ρ) hc
      rw [hw] at this; exact Option.some.inj this
    subst hwv
    by_cases hv : w < 0
    · simp only [hv, if_true] at he
      cases hn : checkedNeg w with
      | none => simp [hn] at he
      | some nv =>
        simp only [hn, Res.ok.injEq, Prod.mk.injEq] at he
        obtain ⟨_, rfl, rfl⟩ := he
        have : nv = -w := (checked_eq_some.1 hn).2
        subst this
        refine ⟨-w, rfl, fun x => ?_⟩
        rw [hx x]
        cases (stripNeg s r).1 <;> simp [asZ] <;> omega
    · simp only [hv, if_false, Res.ok.injEq, Prod.mk.injEq] at he
      obtain ⟨_, rfl, rfl⟩ := he
      exact ⟨w, hw, hx⟩

theorem neutralMain_val (ρ : Env) (op : BinOp) (l r : Arg) (v : Int)
    (h : valZ ρ (.bin op l r) = some v) : valZ ρ (neutralMain op l r) = some v := by
  obtain ⟨a, b, hl, hr, ho⟩ := valZ_bin h
  unfold neutralMain
  cases hcl : cval l with
  | some c =>
    have hac : a = c := by
      have := cval_valZ (ρ := ρ) hcl; rw [hl] at this; exact Option.some.inj this
    subst hac
    simp only
    split
    · rename_i hn
      rw [hr]
      cases op <;> simp only [neutralL, Option.some.injEq, reduceCtorEq] at hn <;> subst hn <;>
        simp only [opZ] at ho
      · simpa using ho
      · simpa using ho
      · split at ho
        · rename_i hh; rw [band_comm, band_neg_one hh.2] at ho; exact ho
        · simp at ho
      · split at ho
        · rename_i hh; rw [bor_comm, bor_zero hh.2] at ho; exact ho
        · simp at ho
      · split at ho
        · rename_i hh; rw [bxor_comm, bxor_zero hh.2] at ho; exact ho
        · simp at ho
    · split
      · rename_i _ hs
        obtain ⟨rfl, rfl⟩ := hs
        simp only [opZ, Option.some.injEq] at ho
        simp only [valZ, hr, Option.map_some]; congr 1; omega
      · exact h
  | none =>
    simp only
    cases hcr : cval r with
    | none => exact h
    | some c =>
      have hbc : b = c := by
        have := cval_valZ (ρ := ρ) hcr; rw [hr] at this; exact Option.some.inj this
      subst hbc
      simp only
      split
      · rename_i hn
        rw [hl]
        cases op <;> simp only [neutralR, Option.some.injEq, reduceCtorEq] at hn <;> subst hn <;>
          simp only [opZ] at ho
        · simpa using ho
        · simpa using ho
        · simpa using ho
        · simpa [Int.tdiv_one] using ho
        · split at ho
          · rename_i hh; rw [band_neg_one hh.1] at ho; exact ho
          · simp at ho
        · split at ho
          · rename_i hh; rw [bor_zero hh.1] at ho; exact ho
          · simp at ho
        · split at ho
          · rename_i hh; rw [bxor_zero hh.1] at ho; exact ho
          · simp at ho
        · split at ho
          · rename_i hh
            simp only [checkedShl] at ho
            simpa [wrap_of_range hh] using ho
          · simp at ho
        · split at ho
          · simpa [checkedShr] using ho
          · simp at ho
      · exact h

theorem neutralTail_val (ρ : Env) {ch : Bool} {op : BinOp} {l r : Arg} {c : Bool} {a' : Arg} {v : Int}
    (he : neutralTail ch op l r = .ok (c, a')) (h : valZ ρ (.bin op l r) = some v) :
    valZ ρ a' = some v := by
  unfold neutralTail at he
  split at he
  · simp at he
  · split at he
    · simp at he
    · simp only [Res.ok.injEq, Prod.mk.injEq] at he
      obtain ⟨_, rfl⟩ := he
      exact neutralMain_val ρ op l r v h

theorem neutralizeBin_val (ρ : Env) {op : BinOp} {l r : Arg} {c : Bool} {a' : Arg} {v : Int}
    (he : neutralizeBin op l r = .ok (c, a')) (h : valZ ρ (.bin op l r) = some v) : valZ ρ a' = some v := by
  simp only [neutralizeBin] at he
  split at he
  · rename_i hop
    cases hn : normAddSub (decide (op = .sub)) r with
    | ok p =>
      obtain ⟨ch, s', r'⟩ := p
      simp only [hn] at he
      obtain ⟨x, y, hl, hr, ho⟩ := valZ_bin h
      obtain ⟨y', hr', hxy⟩ := normAddSub_val ρ hn hr
      refine neutralTail_val ρ he ?_
      rw [valZ_bin_mk hl hr', ← ho]
      have := hxy x
      rcases hop with rfl | rfl <;> cases s' <;> simp [asZ, opZ] at this ⊢ <;> omega
    | err e => simp [hn] at he
    | panic => simp [hn] at he
  · exact neutralTail_val ρ he h

theorem neutralizeRaw_val_all (ρ : Env) : ∀ (a : Arg) (c : Bool) (a' : Arg) (v : Int),
    neutralizeRaw a = .ok (c, a') → valZ ρ a = some v → valZ ρ a' = some v := by
  apply Arg.negNegInd
  · intro a hnn c a' v he h
    cases a with
    | bin op l r =>
      rcases neutralizeRaw_bin_cases op l r with h0 | ⟨x, y, rfl, rfl, rfl, h0⟩
      · rw [h0] at he; exact neutralizeBin_val ρ he h
      · rw [h0] at he
        obtain ⟨_, c', he'⟩ := swapped_ok he
        refine neutralizeBin_val ρ he' ?_
        obtain ⟨p, q, hp, hq, ho⟩ := valZ_bin h
        obtain ⟨a, b, ha, hb, ho2⟩ := valZ_bin hq
        simp only [valZ, Option.some.injEq] at hp
        simp only [opZ, Option.some.injEq] at ho ho2
        rw [valZ_bin_mk hb ha]; simp only [opZ, Option.some.injEq]; omega
    | neg w =>
      rcases neutralizeRaw_neg_cases w with h0 | ⟨x, y, rfl, h0⟩ | ⟨u, rfl, _⟩
      · rw [h0] at he
        simp only [Res.ok.injEq, Prod.mk.injEq] at he
        obtain ⟨_, rfl⟩ := he; exact h
      · rw [h0] at he
        obtain ⟨_, c', he'⟩ := swapped_ok he
        refine neutralizeBin_val ρ he' ?_
        obtain ⟨q, hq, rfl⟩ := valZ_neg h
        obtain ⟨a, b, ha, hb, ho2⟩ := valZ_bin hq
        simp only [opZ, Option.some.injEq] at ho2
        rw [valZ_bin_mk hb ha]; simp only [opZ, Option.some.injEq]; omega
      · exact absurd rfl (hnn u)
    | _ =>
      simp only [neutralizeRaw, Res.ok.injEq, Prod.mk.injEq] at he
      obtain ⟨_, rfl⟩ := he; exact h
  · intro w ih c a' v he h
    rw [neutralizeRaw_neg_neg] at he
    obtain ⟨_, c', he'⟩ := swapped_ok he
    obtain ⟨q, hq, rfl⟩ := valZ_neg h
    obtain ⟨q2, hq2, rfl⟩ := valZ_neg hq
    have : - -q2 = q2 := by omega
    rw [this]
    exact ih c' a' q2 he' hq2

theorem neutralizeRaw_val (ρ : Env) {a : Arg} {c : Bool} {a' : Arg} {v : Int}
    (he : neutralizeRaw a = .ok (c, a')) (h : valZ ρ a = some v) : valZ ρ a' = some v :=
  neutralizeRaw_val_all ρ a c a' v he h

/-- `neutralize` preserves the ideal value of every expression that has one -/
theorem neutralize_val (ρ : Env) (a : Arg) : ∀ (c : Bool) (a' : Arg) (v : Int),
    neutralize a = .ok (c, a') → valZ ρ a = some v → valZ ρ a' = some v := by
  induction a using Arg.ind with
  | const w => intro c a' v he h; simp only [neutralize, Res.ok.injEq, Prod.mk.injEq] at he; obtain ⟨_, rfl⟩ := he; exact h
  | ident s => intro c a' v he h; simp only [neutralize, Res.ok.injEq, Prod.mk.injEq] at he; obtain ⟨_, rfl⟩ := he; exact h
  | str s => intro c a' v he h; simp [valZ] at h
  | bin op l r ihl ihr =>
    intro c a' v he h
    obtain ⟨x, y, hl, hr, ho⟩ := valZ_bin h
    simp only [neutralize] at he
    cases h1 : neutralize l with
    | panic => simp [h1] at he
    | err e => simp [h1] at he
    | ok p =>
      obtain ⟨c1, l'⟩ := p
      cases h2 : neutralize r with
      | panic => simp [h1, h2] at he
      | err e => simp [h1, h2] at he
      | ok q =>
        obtain ⟨c2, r'⟩ := q
        simp only [h1, h2] at he
        cases h3 : neutralizeRaw (.bin op l' r') with
        | panic => simp [h3] at he
        | err e => simp [h3] at he
        | ok w =>
          obtain ⟨c3, a3⟩ := w
          simp only [h3, Res.ok.injEq, Prod.mk.injEq] at he
          obtain ⟨_, rfl⟩ := he
          refine neutralizeRaw_val ρ h3 ?_
          rw [valZ_bin_mk (ihl c1 l' x h1 hl) (ihr c2 r' y h2 hr)]; exact ho
  | neg a ih =>
    intro c a' v he h
    obtain ⟨w, hw, rfl⟩ := valZ_neg h
    simp only [neutralize] at he
    cases h1 : neutralize a with
    | panic => simp [h1] at he
    | err e => simp [h1] at he
    | ok p =>
      obtain ⟨c1, v'⟩ := p
      simp only [h1] at he
      cases h3 : neutralizeRaw (.neg v') with
      | panic => simp [h3] at he
      | err e => simp [h3] at he
      | ok q =>
        obtain ⟨c3, a3⟩ := q
        simp only [h3, Res.ok.injEq, Prod.mk.injEq] at he
        obtain ⟨_, rfl⟩ := he
        refine neutralizeRaw_val ρ h3 ?_
        simp [valZ, ih c1 v' w h1 hw]
  | not a ih =>
    intro c a' v he h
    simp only [valZ] at h
    cases hw : valZ ρ a with
    | none => simp [hw] at h
    | some w =>
      simp only [neutralize] at he
      cases h1 : neutralize a with
      | panic => simp [h1] at he
      | err e => simp [h1] at he
      | ok p =>
        obtain ⟨c1, v'⟩ := p
        simp only [h1, Res.ok.injEq, Prod.mk.injEq] at he
        obtain ⟨_, rfl⟩ := he
        simpa [valZ, ih c1 v' w h1 hw, hw] using h
  | addr a _ => intro c a' v he h; simp [valZ] at h
  | seq as => intro c a' v he h; simp [valZ] at h
  | func n as => intro c a' v he h; simp [valZ] at h

end Trion.Simp
