import TrionModel.Spec.C04Mix
import TrionModel.Lemmas.C04Get
/-!
# C04 closed, extension: sums of one register name and numbers (`R1 + 0`, `[R1 + 2 + 3]`, `[4 + R1 + 4]`)

The argument is semantic: `evaluate` preserves the ideal value of a tree under EVERY assignment of integers to the
register names (C08 `evaluate_val`); a sum with one register name has the value `g Rn + c`; the trees the operand reader
accepts have the values `g Rn' + c'`; equality for all `g` forces `Rn' = Rn`, `c' = c`.
-/
namespace Trion.C04
open Trion Trion.Front Trion.Simp

/-- the environment in which the register names have the values `g` -/
def envR (T : SymTable) (g : Bytes → Int) : Simp.Env := fun s => if isRegister s then some (g s) else T s

theorem consistent_envR (lk : Bytes → Lookup) (g : Bytes → Int) : consistent lk isRegister (envR (tab lk) g) := by
  intro s v hr hl
  simp [envR, hr, tab, envOf, hl]

theorem valZ_expr (T : SymTable) (g : Bytes → Int) : ∀ x, expr x = true → valZ (envR T g) x = valZ (env T) x := by
  apply Arg.ind
  case const => intro v _; rfl
  case ident => intro s h; simp only [expr, Bool.not_eq_true'] at h; simp [valZ, envR, env, h]
  case str => intro s _; rfl
  case bin => intro op l r ihl ihr h; simp only [expr, Bool.and_eq_true] at h; simp [valZ, ihl h.1, ihr h.2]
  case neg => intro a ih h; simp only [expr] at h; simp [valZ, ih h]
  case not => intro a ih h; simp only [expr] at h; simp [valZ, ih h]
  case addr => intro a _ h; simp [expr] at h
  case seq => intro as h; simp [expr] at h
  case func => intro n as h; simp [expr] at h

theorem value_valZ (T : SymTable) (g : Bytes → Int) {x : Arg} {v : Int} (h : value T x = some v) :
    valZ (envR T g) x = some v := by
  rw [valZ_expr T g x (value_expr T x v h)]
  exact valC_sub_valZ _ _ h

theorem sumForm_expr (T : SymTable) {x : Arg} (h : expr x = true) : sumForm T x = (value T x).map fun v => ([], v) := by
  cases x with
  | ident s => simp only [expr, Bool.not_eq_true'] at h; simp [sumForm, h]
  | bin op l r => cases op <;> simp [sumForm, h]
  | _ => simp [sumForm, h]

theorem sumForm_val (T : SymTable) (g : Bytes → Int) : ∀ (x : Arg) (rs : List Bytes) (c : Int),
    sumForm T x = some (rs, c) → valZ (envR T g) x = some ((rs.map g).sum + c) := by
  have hexpr : ∀ (x : Arg) (rs : List Bytes) (c : Int), expr x = true → sumForm T x = some (rs, c) →
      valZ (envR T g) x = some ((rs.map g).sum + c) := by
    intro x rs c he h
    rw [sumForm_expr T he] at h
    simp only [Option.map_eq_some_iff, Prod.mk.injEq] at h
    obtain ⟨v, hv, rfl, rfl⟩ := h
    simp [value_valZ T g hv]
  apply Arg.ind
  case const => intro v rs c h; exact hexpr _ _ _ rfl h
  case ident =>
    intro s rs c h
    by_cases hr : isRegister s = true
    · simp only [sumForm, hr, if_true, Option.some.injEq, Prod.mk.injEq] at h
      obtain ⟨rfl, rfl⟩ := h
      simp [valZ, envR, hr]
    · exact hexpr _ _ _ (by simp [expr, hr]) h
  case str => intro s rs c h; simp [sumForm, expr] at h
  case bin =>
    intro op l r ihl ihr rs c h
    by_cases he : expr (.bin op l r) = true
    · exact hexpr _ _ _ he h
    · cases op
      case add =>
        simp only [sumForm, he, Bool.false_eq_true, if_false] at h
        cases h1 : sumForm T l with
        | none => simp [h1] at h
        | some p =>
          obtain ⟨a, c1⟩ := p
          cases h2 : sumForm T r with
          | none => simp [h1, h2] at h
          | some q =>
            obtain ⟨b, d⟩ := q
            simp only [h1, h2, Option.some.injEq, Prod.mk.injEq] at h
            obtain ⟨rfl, rfl⟩ := h
            simp only [valZ, ihl a c1 h1, ihr b d h2, liftBin, opZ, List.map_append, List.sum_append]
            congr 1; omega
      case sub =>
        simp only [sumForm, he, Bool.false_eq_true, if_false] at h
        cases h1 : sumForm T l with
        | none => simp [h1] at h
        | some p =>
          obtain ⟨a, c1⟩ := p
          cases h2 : sumForm T r with
          | none => simp [h1, h2] at h
          | some q =>
            obtain ⟨b, d⟩ := q
            cases b with
            | cons b0 bs => simp [h1, h2] at h
            | nil =>
              simp only [h1, h2, Option.some.injEq, Prod.mk.injEq] at h
              obtain ⟨rfl, rfl⟩ := h
              have := ihr [] d h2
              simp only [List.map_nil, List.sum_nil, Int.zero_add] at this
              simp only [valZ, ihl a c1 h1, this, liftBin, opZ]
              congr 1; omega
      all_goals (simp [sumForm, he] at h)
  case neg => intro a _ rs c h; by_cases he : expr (.neg a) = true; exact hexpr _ _ _ he h; simp [sumForm, he] at h
  case not => intro a _ rs c h; by_cases he : expr (.not a) = true; exact hexpr _ _ _ he h; simp [sumForm, he] at h
  case addr => intro a _ rs c h; simp [sumForm, expr] at h
  case seq => intro as rs c h; simp [sumForm, expr] at h
  case func => intro n as rs c h; simp [sumForm, expr] at h

theorem sumForm_len (T : SymTable) : ∀ (x : Arg) (rs : List Bytes) (c : Int),
    sumForm T x = some (rs, c) → rs.length = regCount x := by
  have hexpr : ∀ (x : Arg) (rs : List Bytes) (c : Int), expr x = true → sumForm T x = some (rs, c) → rs = [] := by
    intro x rs c he h
    rw [sumForm_expr T he] at h
    simp only [Option.map_eq_some_iff, Prod.mk.injEq] at h
    obtain ⟨v, _, rfl, _⟩ := h; rfl
  apply Arg.ind
  case const => intro v rs c h; rw [hexpr _ _ _ rfl h]; rfl
  case ident =>
    intro s rs c h
    by_cases hr : isRegister s = true
    · simp only [sumForm, hr, if_true, Option.some.injEq, Prod.mk.injEq] at h
      obtain ⟨rfl, rfl⟩ := h
      simp [regCount, hr]
    · rw [hexpr _ _ _ (by simp [expr, hr]) h]; simp [regCount, hr]
  case str => intro s rs c h; simp [sumForm, expr] at h
  case bin =>
    intro op l r ihl ihr rs c h
    by_cases he : expr (.bin op l r) = true
    · rw [hexpr _ _ _ he h]; cases op <;> simp [regCount, he]
    · cases op
      case add =>
        simp only [sumForm, he, Bool.false_eq_true, if_false] at h
        cases h1 : sumForm T l with
        | none => simp [h1] at h
        | some p =>
          obtain ⟨a, c1⟩ := p
          cases h2 : sumForm T r with
          | none => simp [h1, h2] at h
          | some q =>
            obtain ⟨b, d⟩ := q
            simp only [h1, h2, Option.some.injEq, Prod.mk.injEq] at h
            obtain ⟨rfl, rfl⟩ := h
            simp [regCount, he, ihl a c1 h1, ihr b d h2]
      case sub =>
        simp only [sumForm, he, Bool.false_eq_true, if_false] at h
        cases h1 : sumForm T l with
        | none => simp [h1] at h
        | some p =>
          obtain ⟨a, c1⟩ := p
          cases h2 : sumForm T r with
          | none => simp [h1, h2] at h
          | some q =>
            obtain ⟨b, d⟩ := q
            cases b with
            | cons b0 bs => simp [h1, h2] at h
            | nil =>
              simp only [h1, h2, Option.some.injEq, Prod.mk.injEq] at h
              obtain ⟨rfl, rfl⟩ := h
              simp [regCount, he, ihl a c1 h1]
      all_goals (simp [sumForm, he] at h)
  case neg => intro a _ rs c h; by_cases he : expr (.neg a) = true; rw [hexpr _ _ _ he h]; rfl; simp [sumForm, he] at h
  case not => intro a _ rs c h; by_cases he : expr (.not a) = true; rw [hexpr _ _ _ he h]; rfl; simp [sumForm, he] at h
  case addr => intro a _ rs c h; simp [sumForm, expr] at h
  case seq => intro as rs c h; simp [sumForm, expr] at h
  case func => intro n as rs c h; simp [sumForm, expr] at h

/-- a sum that evaluates has a `sumForm` -/
theorem sumForm_defined {lk : Bytes → Lookup} (hn : NoDef lk) (hT : Simp.tableOk lk) : ∀ (x : Arg), sumShaped x = true →
    lits x = true → ∀ ev x', evaluate lk isRegister x = .ok (ev, x') → ∃ rs c, sumForm (tab lk) x = some (rs, c) := by
  have hexpr : ∀ (x : Arg), expr x = true → lits x = true → ∀ ev x', evaluate lk isRegister x = .ok (ev, x') →
      ∃ rs c, sumForm (tab lk) x = some (rs, c) := by
    intro x he hl ev x' h
    obtain ⟨v, rfl⟩ := expr_const hn he h
    exact ⟨[], v, by rw [sumForm_expr _ he, evaluate_value hT hl h]; rfl⟩
  apply Arg.ind
  case const => intro v _ hl ev x' h; exact hexpr _ rfl hl ev x' h
  case ident =>
    intro s _ hl ev x' h
    by_cases hr : isRegister s = true
    · exact ⟨[s], 0, by simp [sumForm, hr]⟩
    · exact hexpr _ (by simp [expr, hr]) hl ev x' h
  case str => intro s hs; simp [sumShaped, expr] at hs
  case bin =>
    intro op l r ihl ihr hs hl ev x' h
    by_cases he : expr (.bin op l r) = true
    · exact hexpr _ he hl ev x' h
    · simp only [lits, Bool.and_eq_true] at hl
      rw [evaluate_bin] at h
      cases h1 : evaluate lk isRegister l with
      | ok p =>
        obtain ⟨e1, l'⟩ := p
        cases h2 : evaluate lk isRegister r with
        | ok q =>
          obtain ⟨e2, r'⟩ := q
          cases op
          case add =>
            simp only [sumShaped, he, Bool.false_or, Bool.and_eq_true] at hs
            obtain ⟨a, c1, ha⟩ := ihl hs.1 hl.1 _ _ h1
            obtain ⟨b, d, hb⟩ := ihr hs.2 hl.2 _ _ h2
            exact ⟨a ++ b, c1 + d, by simp [sumForm, he, ha, hb]⟩
          case sub =>
            simp only [sumShaped, he, Bool.false_or, Bool.and_eq_true] at hs
            obtain ⟨a, c1, ha⟩ := ihl hs.1 hl.1 _ _ h1
            obtain ⟨b, d, hb⟩ := hexpr r hs.2 hl.2 _ _ h2
            have hb0 : b = [] := by
              rw [sumForm_expr _ hs.2] at hb
              simp only [Option.map_eq_some_iff, Prod.mk.injEq] at hb
              obtain ⟨v, _, rfl, _⟩ := hb; rfl
            subst hb0
            exact ⟨a, c1 - d, by simp [sumForm, he, ha, hb]⟩
          all_goals (simp [sumShaped, he] at hs)
        | err e => rw [h1, h2] at h; cases h
        | panic => rw [h1, h2] at h; cases h
      | err e => rw [h1] at h; cases h
      | panic => rw [h1] at h; cases h
  case neg => intro a _ hs hl ev x' h; exact hexpr _ (by simpa [sumShaped] using hs) hl ev x' h
  case not => intro a _ hs hl ev x' h; exact hexpr _ (by simpa [sumShaped] using hs) hl ev x' h
  case addr => intro a _ hs; simp [sumShaped, expr] at hs
  case seq => intro as hs; simp [sumShaped, expr] at hs
  case func => intro n as hs; simp [sumShaped, expr] at hs

end Trion.C04

namespace Trion.C04
open Trion Trion.Front Trion.Simp

theorem isRegister_of_regl {s : Bytes} {r : Reg} (h : regl s = some r) : isRegister s = true := by
  simp only [regl] at h
  split at h
  · rename_i h4
    have h8 : s.length ≤ 8 := by omega
    simp [isRegister, h, h8]
  · cases h

/-- the value of the evaluated tree of a one-register sum, under every assignment -/
theorem sum_result {lk : Bytes → Lookup} {x x' : Arg} {ev : Ev} {b : Bytes} {c : Int}
    (he : evaluate lk isRegister x = .ok (ev, x')) (hs : sumForm (tab lk) x = some ([b], c)) (g : Bytes → Int) :
    valZ (envR (tab lk) g) x' = some (g b + c) := by
  have h1 := sumForm_val (tab lk) g x [b] c hs
  simp only [List.map_cons, List.map_nil, List.sum_cons, List.sum_nil, Int.add_zero] at h1
  exact evaluate_val lk isRegister _ (consistent_envR lk g) x ev x' _ he h1

def g0 : Bytes → Int := fun _ => 0
def g1 : Bytes → Int := fun _ => 1
def gI (b : Bytes) : Bytes → Int := fun s => if s = b then 1 else 0

theorem envR_reg (T : SymTable) (g : Bytes → Int) {s : Bytes} (h : isRegister s = true) : envR T g s = some (g s) := by
  simp [envR, h]

theorem valZ_regIdent (T : SymTable) (g : Bytes → Int) {s : Bytes} (h : isRegister s = true) :
    valZ (envR T g) (.ident s) = some (g s) := by simp [valZ, envR, h]

/-- what the operand reader can have accepted from a one-register sum inside `[ ]` -/
theorem accept_mem {lk : Bytes → Lookup} {x x' : Arg} {ev : Ev} {b : Bytes} {c : Int}
    (he : evaluate lk isRegister x = .ok (ev, x')) (hs : sumForm (tab lk) x = some ([b], c))
    {idx : Nat} {r : Reg} {o : Option ImmReg} (ha : addrOff idx x' = .ok (r, o)) :
    regl b = some r ∧ o = some (.imm c) ∧ inI32 c := by
  have hv := sum_result he hs
  unfold addrOff at ha
  split at ha
  · -- ident
    rename_i s
    split at ha
    · rename_i r' hr
      simp only [Except.ok.injEq, Prod.mk.injEq] at ha
      obtain ⟨rfl, rfl⟩ := ha
      have hreg := isRegister_of_regl hr
      have e0 := hv g0; have eb := hv (gI b)
      rw [valZ_regIdent _ _ hreg] at e0 eb
      simp only [g0, gI, Option.some.injEq, if_true] at e0 eb
      have hc : c = 0 := by omega
      subst hc
      have : s = b := by
        by_cases hne : s = b
        · exact hne
        · simp [hne] at eb
      subst this
      exact ⟨hr, rfl, by decide⟩
    · cases ha
  · -- ident + ident
    rename_i a o'
    split at ha
    · cases ha
    · rename_i ra hra
      split at ha
      · cases ha
      · rename_i ro hro
        exfalso
        have e0 := hv g0; have e1 := hv g1
        simp only [valZ, liftBin, opZ, envR_reg _ _ (isRegister_of_regl hra), envR_reg _ _ (isRegister_of_regl hro)] at e0 e1
        simp only [g0, g1, Option.some.injEq] at e0 e1
        omega
  · -- ident + const
    rename_i a k
    split at ha
    · cases ha
    · rename_i k' hk
      split at ha
      · cases ha
      · rename_i ra hra
        simp only [Except.ok.injEq, Prod.mk.injEq] at ha
        obtain ⟨rfl, rfl⟩ := ha
        obtain ⟨hkk, hin⟩ := narrowI32_eq hk
        have e0 := hv g0; have eb := hv (gI b)
        simp only [valZ, liftBin, opZ, envR_reg _ _ (isRegister_of_regl hra)] at e0 eb
        simp only [g0, gI, Option.some.injEq, if_true] at e0 eb
        have hc : k = c := by omega
        have hab : a = b := by
          by_cases hne : a = b
          · exact hne
          · rw [if_neg hne] at eb; omega
        subst hab
        exact ⟨hra, by rw [hkk, hc], by rw [← hc]; exact hin⟩
  · -- const + ident
    rename_i k a
    split at ha
    · cases ha
    · rename_i k' hk
      split at ha
      · cases ha
      · rename_i ra hra
        simp only [Except.ok.injEq, Prod.mk.injEq] at ha
        obtain ⟨rfl, rfl⟩ := ha
        obtain ⟨hkk, hin⟩ := narrowI32_eq hk
        have e0 := hv g0; have eb := hv (gI b)
        simp only [valZ, liftBin, opZ, envR_reg _ _ (isRegister_of_regl hra)] at e0 eb
        simp only [g0, gI, Option.some.injEq, if_true] at e0 eb
        have hc : k = c := by omega
        have hab : a = b := by
          by_cases hne : a = b
          · exact hne
          · rw [if_neg hne] at eb; omega
        subst hab
        exact ⟨hra, by rw [hkk, hc], by rw [← hc]; exact hin⟩
  · cases ha

/-- what a register-or-integer reader can have got from a one-register sum -/
theorem accept_reg {lk : Bytes → Lookup} {a a1 : Arg} {ev : Ev} {b : Bytes} {c : Int}
    (he : evaluate lk isRegister a = .ok (ev, a1)) (hs : sumForm (tab lk) a = some ([b], c)) :
    (∀ v, a1 ≠ .const v) ∧ (∀ x1, a1 ≠ .addr x1) ∧
    (∀ s r, a1 = .ident s → regl s = some r → regl b = some r ∧ c = 0) := by
  have hv := sum_result he hs
  refine ⟨fun v h => ?_, fun x1 h => ?_, fun s r h hr => ?_⟩
  · subst h
    have e0 := hv g0; have e1 := hv g1
    simp only [valZ, g0, g1, Option.some.injEq] at e0 e1
    omega
  · subst h
    have e0 := hv g0
    simp [valZ] at e0
  · subst h
    have e0 := hv g0; have eb := hv (gI b)
    rw [valZ_regIdent _ _ (isRegister_of_regl hr)] at e0 eb
    simp only [g0, gI, Option.some.injEq, if_true] at e0 eb
    have hc : c = 0 := by omega
    subst hc
    have : s = b := by
      by_cases hne : s = b
      · exact hne
      · simp [hne] at eb
    subst this
    exact ⟨hr, rfl⟩

end Trion.C04
