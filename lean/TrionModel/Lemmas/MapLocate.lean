import TrionModel.Lemmas.Map
namespace Trion.Map

/-- linear-scan characterisation of `locate` -/
def locLin (a : Nat) (m : Search) : Segs → Nat → Loc
  | [], i => match m with
    | .below => if i > 0 then .idx (i - 1) else .none
    | _ => .none
  | s :: r, i =>
    if a < s.1 then
      match m with
      | .exact => .none
      | .below => if i > 0 then .idx (i - 1) else .none
      | .above => .idx i
    else if a > segLast s then locLin a m r (i + 1)
    else .idx i

theorem locLin_nil (a : Nat) (m : Search) (i : Nat) :
    locLin a m [] i = (match m with
      | .below => if i > 0 then .idx (i - 1) else .none
      | _ => .none) := by
  cases m <;> rfl

theorem locLin_cons (a : Nat) (m : Search) (s : Seg) (r : Segs) (i : Nat) :
    locLin a m (s :: r) i =
      (if a < s.1 then
        match m with
        | .exact => .none
        | .below => if i > 0 then .idx (i - 1) else .none
        | .above => .idx i
      else if a > segLast s then locLin a m r (i + 1)
      else .idx i) := by
  cases m <;> rfl

theorem locateLoop_succ (ps : Segs) (addr : Nat) (mode : Search) (fuel first last : Nat) :
    locateLoop ps addr mode (fuel + 1) first last =
      (if last < first then .panic else
      match ps[first + (last - first) / 2]? with
      | none => .panic
      | some seg =>
        if addr < seg.1 then
          if first + (last - first) / 2 = first then
            match mode with
            | .exact => .none
            | .below => if first > 0 then .idx (first - 1) else .none
            | .above => .idx first
          else locateLoop ps addr mode fuel first (first + (last - first) / 2 - 1)
        else if addr > segLast seg then
          if first + (last - first) / 2 = last then
            match mode with
            | .exact => .none
            | .below => .idx last
            | .above => if last < ps.length - 1 then .idx (last + 1) else .none
          else locateLoop ps addr mode fuel (first + (last - first) / 2 + 1) last
        else .idx (first + (last - first) / 2)) := by
  cases mode <;> rfl

/-- every segment of an `Ok lo` list starts at or above `lo` -/
theorem Ok_lb {lo : Nat} {ps : Segs} (ok : Ok lo ps) {j : Nat} {t : Seg} (h : ps[j]? = some t) :
    lo ≤ t.1 := by
  induction ps generalizing lo j with
  | nil => simp at h
  | cons s r ih =>
    obtain ⟨f, x⟩ := s
    obtain ⟨h1, _, _, h4⟩ := ok
    cases j with
    | zero =>
      simp at h; subst h; exact h1
    | succ j =>
      rw [List.getElem?_cons_succ] at h
      have := ih h4 h
      omega

/-- index-based sortedness (with gap) of an `Ok` list -/
theorem Ok_sorted {lo : Nat} {ps : Segs} (ok : Ok lo ps) {i j : Nat} {s t : Seg} (hij : i < j)
    (hi : ps[i]? = some s) (hj : ps[j]? = some t) : s.1 + s.2.length < t.1 := by
  induction ps generalizing lo i j with
  | nil => simp at hi
  | cons u r ih =>
    obtain ⟨f, x⟩ := u
    obtain ⟨h1, _, _, h4⟩ := ok
    cases j with
    | zero => omega
    | succ j =>
      rw [List.getElem?_cons_succ] at hj
      cases i with
      | zero =>
        simp at hi; subst hi
        have := Ok_lb h4 hj
        show f + x.length < t.1
        omega
      | succ i =>
        rw [List.getElem?_cons_succ] at hi
        exact ih h4 (by omega) hi hj

/-- the linear scan skips every leading segment that lies entirely below `a` -/
theorem locLin_skip (a : Nat) (m : Search) : ∀ (k : Nat) (ps : Segs) (i : Nat), k ≤ ps.length →
    (∀ j t, j < k → ps[j]? = some t → segLast t < a) →
    locLin a m ps i = locLin a m (ps.drop k) (i + k)
  | 0, ps, i, _, _ => by simp
  | k+1, [], i, h, _ => by simp at h
  | k+1, s :: r, i, h, hl => by
    have h0 : segLast s < a := hl 0 s (by omega) (by simp)
    have n1 : ¬ a < s.1 := by unfold segLast at h0; omega
    have ih := locLin_skip a m k r (i+1) (by simpa using h)
      (fun j t hj hjt => hl (j+1) t (by omega) (by simpa using hjt))
    rw [List.drop_succ_cons, ← (show i + 1 + k = i + (k+1) by omega), ← ih]
    rw [locLin_cons, if_neg n1, if_pos h0]

/-- answer of the linear scan when segment `k` is the first one not entirely below `a` and starts above `a` -/
theorem locLin_at_lt {a : Nat} {m : Search} {ps : Segs} {k : Nat} {s : Seg} (hk : ps[k]? = some s)
    (hlow : ∀ j t, j < k → ps[j]? = some t → segLast t < a) (h : a < s.1) :
    locLin a m ps 0 = (match m with
      | .exact => .none
      | .below => if k > 0 then .idx (k - 1) else .none
      | .above => .idx k) := by
  obtain ⟨hlt, rfl⟩ := List.getElem?_eq_some_iff.mp hk
  rw [locLin_skip a m k ps 0 (by omega) hlow, List.drop_eq_getElem_cons hlt, locLin_cons, if_pos h]
  simp

/-- answer of the linear scan when segment `k` contains `a` -/
theorem locLin_at_mid {a : Nat} {m : Search} {ps : Segs} {k : Nat} {s : Seg} (hk : ps[k]? = some s)
    (hlow : ∀ j t, j < k → ps[j]? = some t → segLast t < a) (h1 : ¬ a < s.1) (h2 : ¬ a > segLast s) :
    locLin a m ps 0 = .idx k := by
  obtain ⟨hlt, rfl⟩ := List.getElem?_eq_some_iff.mp hk
  rw [locLin_skip a m k ps 0 (by omega) hlow, List.drop_eq_getElem_cons hlt, locLin_cons, if_neg h1, if_neg h2]
  simp

/-- answer of the linear scan when segments `0..=last` lie below `a` and all later ones start above `a` -/
theorem locLin_at_end {a : Nat} {m : Search} {ps : Segs} {last : Nat} (hlast : last < ps.length)
    (hlow : ∀ j t, j < last + 1 → ps[j]? = some t → segLast t < a)
    (hhigh : ∀ j t, last < j → ps[j]? = some t → a < t.1) :
    locLin a m ps 0 = (match m with
      | .exact => .none
      | .below => .idx last
      | .above => if last < ps.length - 1 then .idx (last + 1) else .none) := by
  rw [locLin_skip a m (last + 1) ps 0 (by omega) hlow]
  by_cases c : last + 1 < ps.length
  · have h := hhigh (last + 1) ps[last + 1] (by omega) (by simp)
    have hc : last < ps.length - 1 := by omega
    rw [List.drop_eq_getElem_cons c, locLin_cons, if_pos h]
    cases m <;> simp [hc]
  · have : ps.drop (last + 1) = [] := List.drop_eq_nil_of_le (by omega)
    have hc : ¬ last < ps.length - 1 := by omega
    rw [this, locLin_nil]
    cases m <;> simp [hc]

/-- the binary-search loop computes the linear scan's answer -/
theorem locateLoop_eq_locLin {ps : Segs} {a : Nat} {m : Search}
    (sorted : ∀ (i j : Nat) (s t : Seg), i < j → ps[i]? = some s → ps[j]? = some t → s.1 + s.2.length < t.1) :
    ∀ (fuel first last : Nat), first ≤ last → last < ps.length → last - first < fuel →
      (∀ j t, j < first → ps[j]? = some t → segLast t < a) →
      (∀ j t, last < j → ps[j]? = some t → a < t.1) →
      locateLoop ps a m fuel first last = locLin a m ps 0
  | 0, _, _, _, _, hf, _, _ => by omega
  | fuel + 1, first, last, hfl, hll, hf, hlow, hhigh => by
    have hmidlt : first + (last - first) / 2 < ps.length := by omega
    have hmid : ps[first + (last - first) / 2]? = some ps[first + (last - first) / 2] :=
      List.getElem?_eq_getElem hmidlt
    generalize hseg : ps[first + (last - first) / 2] = seg at hmid
    rw [locateLoop_succ, if_neg (by omega)]
    simp only [hmid]
    have hlowmid : ∀ j t, j < first + (last - first) / 2 → ps[j]? = some t → segLast t < seg.1 := by
      intro j t hj hjt
      have := sorted j _ t seg hj hjt hmid
      unfold segLast; omega
    by_cases c1 : a < seg.1
    · rw [if_pos c1]
      by_cases e : first + (last - first) / 2 = first
      · rw [if_pos e]
        rw [e] at hmid
        rw [locLin_at_lt hmid hlow c1]
      · rw [if_neg e]
        refine locateLoop_eq_locLin sorted fuel first _ (by omega) (by omega) (by omega) hlow ?_
        intro j t hj hjt
        by_cases ej : j = first + (last - first) / 2
        · subst ej; rw [hmid] at hjt; cases hjt; exact c1
        · have := sorted _ j seg t (by omega) hmid hjt
          omega
    · rw [if_neg c1]
      by_cases c2 : a > segLast seg
      · rw [if_pos c2]
        have hlow' : ∀ j t, j < first + (last - first) / 2 + 1 → ps[j]? = some t → segLast t < a := by
          intro j t hj hjt
          by_cases ej : j = first + (last - first) / 2
          · subst ej; rw [hmid] at hjt; cases hjt; exact c2
          · have := hlowmid j t (by omega) hjt
            omega
        by_cases e : first + (last - first) / 2 = last
        · rw [if_pos e]
          rw [e] at hlow'
          rw [locLin_at_end hll hlow' hhigh]
        · rw [if_neg e]
          exact locateLoop_eq_locLin sorted fuel _ last (by omega) hll (by omega) hlow' hhigh
      · rw [if_neg c2]
        refine (locLin_at_mid hmid ?_ c1 c2).symm
        intro j t hj hjt
        have := hlowmid j t hj hjt
        omega

theorem locate_eq_locLin {lo : Nat} {ps : Segs} (ok : Ok lo ps) (a : Nat) (m : Search) :
    locate ps a m = locLin a m ps 0 := by
  unfold locate
  cases ps with
  | nil => cases m <;> simp [locLin_nil]
  | cons s r =>
    rw [if_neg (by simp)]
    exact locateLoop_eq_locLin (fun i j s t hij hi hj => Ok_sorted ok hij hi hj) _ 0 _
      (by omega) (by simp) (by simp) (fun j t hj => by omega) (fun j t hj hjt => by
        have := (List.getElem?_eq_some_iff.mp hjt).1
        simp at this hj; omega)

end Trion.Map
