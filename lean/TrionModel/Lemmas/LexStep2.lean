import TrionModel.Lemmas.LexStep
/-!
# Helper lemmas for the tokenizer model, part 4: character literals, strings, `do_next`
-/
namespace Trion.Lex
open Trion.Pos (isCont adv)

/-! ### character literals -/

/-- an ASCII scalar value is decoded from a single byte with that value -/
theorem decodeChar_ascii {d : Bytes} {c m : Nat} (h : decodeChar d = some (c, m)) (hc : c < 128) :
    ∃ b tl, d = b :: tl ∧ b.toNat = c ∧ m = 1 := by
  obtain ⟨_, _, ⟨b0, hb0, _, h1, _, h3⟩, _⟩ := decodeChar_some h
  have hlt : b0.toNat < 128 := by
    by_cases hh : b0.toNat < 128
    · exact hh
    · have := h3 (by omega); omega
  obtain ⟨hm, hcb⟩ := h1 hlt
  cases d with
  | nil => simp at hb0
  | cons b tl =>
    simp at hb0; subst hb0
    exact ⟨b, tl, rfl, hcb.symm, hm⟩

theorem lexCharFirst_ok {u : Bool} {rest : Bytes} {n c : Nat} (h : lexCharFirst u rest = .ok n c) :
    ∃ body tail, rest = body ++ tail ∧ body.length = n ∧ (c < 128 → ∀ b ∈ body, b.toNat < 128 ∧ b.toNat ≠ 10) := by
  unfold lexCharFirst at h
  cases hd : decodeChar rest with
  | none => simp [hd] at h
  | some cn =>
    obtain ⟨c0, n0⟩ := cn
    simp only [hd] at h
    by_cases h92 : c0 = 92
    · subst h92
      obtain ⟨b, tl, rfl, hb, rfl⟩ := decodeChar_ascii hd (by omega)
      simp only [beq_self_eq_true, if_true, List.drop_succ_cons, List.drop_zero] at h
      cases hd2 : decodeChar tl with
      | none => simp [hd2] at h
      | some em =>
        obtain ⟨e, m⟩ := em
        simp only [hd2] at h
        have key : ∀ (x : Nat), (e = 116 ∨ e = 110 ∨ e = 114 ∨ e = 34 ∨ e = 39 ∨ e = 92) → CharRes.ok 2 x = CharRes.ok n c →
            ∃ body tail, b :: tl = body ++ tail ∧ body.length = n ∧ (c < 128 → ∀ y ∈ body, y.toNat < 128 ∧ y.toNat ≠ 10) := by
          intro x he hx
          cases hx
          obtain ⟨eb, tl', rfl, heb, _⟩ := decodeChar_ascii hd2 (by omega)
          refine ⟨[b, eb], tl', rfl, rfl, ?_⟩
          intro _ y hy
          simp at hy
          rcases hy with rfl | rfl <;> omega
        by_cases e1 : e = 116
        · simp [e1] at h; exact key 9 (by omega) (by simp [h])
        · by_cases e2 : e = 110
          · simp [e2] at h; exact key 10 (by omega) (by simp [h])
          · by_cases e3 : e = 114
            · simp [e3] at h; exact key 13 (by omega) (by simp [h])
            · by_cases e4 : e = 34 ∨ e = 39 ∨ e = 92
              · have : (e == 34 || e == 39 || e == 92) = true := by
                  simp only [Bool.or_eq_true, beq_iff_eq]; omega
                simp only [e1, e2, e3, this, beq_iff_eq, if_false, if_true] at h
                exact key e (by omega) (by rw [h])
              · have : (e == 34 || e == 39 || e == 92) = false := by
                  simp; omega
                simp [e1, e2, e3, this] at h
    · have hne : (c0 == 92) = false := by simpa using h92
      simp only [hne, Bool.false_eq_true, if_false] at h
      split at h
      · rename_i hcond
        cases h
        obtain ⟨hn1, hnl, _, _⟩ := decodeChar_some hd
        refine ⟨rest.take n, rest.drop n, (List.take_append_drop n rest).symm, by simp; omega, ?_⟩
        intro hc
        obtain ⟨b, tl, rfl, hb, rfl⟩ := decodeChar_ascii hd hc
        intro y hy
        simp at hy; subst hy
        simp at hcond
        omega
      · simp at h

theorem lexCharBody_ok {u : Bool} {rest : Bytes} {n c : Nat} (h : lexCharBody u rest = .ok n c) :
    ∃ body q post, rest = body ++ q :: post ∧ body.length = n ∧ q.toNat = 39 ∧
      (c < 128 → ∀ b ∈ body, b.toNat < 128 ∧ b.toNat ≠ 10) := by
  unfold lexCharBody at h
  cases hf : lexCharFirst u rest with
  | err u' => simp [hf] at h
  | ok n' c' =>
    simp only [hf] at h
    cases hd : decodeChar (rest.drop n') with
    | none => simp [hd] at h
    | some qm =>
      obtain ⟨q, m⟩ := qm
      simp only [hd] at h
      by_cases hq : q = 39
      · simp only [hq, beq_self_eq_true, if_true] at h
        cases h
        obtain ⟨body, tail, hrest, hlen, hasc⟩ := lexCharFirst_ok hf
        subst hq
        have htail : rest.drop n = tail := by rw [hrest, ← hlen]; simp
        rw [htail] at hd
        obtain ⟨qb, post, rfl, hqb, _⟩ := decodeChar_ascii hd (by omega)
        exact ⟨body, qb, post, hrest, hlen, hqb, hasc⟩
      · have : (q == 39) = false := by simpa using hq
        simp [this] at h

theorem doSpec_char (s : State) (b0 : UInt8) (tl : Bytes) (hd : s.data = b0 :: tl) (hu : Utf8 s.data)
    (h0 : b0.toNat = 39) : DoSpec s (lexChar s) := by
  unfold lexChar
  have hr : Utf8 tl := utf8_tail_of_ascii (hd ▸ hu) (by omega)
  have hsl : sliceFrom s.data 1 = some tl := by
    have := sliceFrom_split [b0] tl (utf8_head? hr)
    simpa [hd] using this
  rw [hsl]
  simp only
  cases hb : lexCharBody s.utfErr tl with
  | ok n c =>
    simp only
    obtain ⟨body, q, post, hrest, hlen, hq, hasc⟩ := lexCharBody_ok hb
    have hpost : Utf8 post := utf8_split_after_ascii (pre := body) (hrest ▸ hr) (by omega)
    have hmid : s.data = (b0 :: body ++ [q]) ++ post := by rw [hd, hrest]; simp
    have hl : 1 + n + 1 = (b0 :: body ++ [q]).length := by simp [hlen]; omega
    rw [hl]
    refine doSpec_emit s _ post _ _ hmid hu hpost ?_ ⟨b0, rfl, ?_⟩
    · intro hc y hy
      simp at hc
      simp at hy
      rcases hy with rfl | hy | rfl
      · omega
      · exact hasc hc y hy
      · omega
    · simp [startsTok, h0]
  | err utf =>
    simp only
    split
    · rw [updatePos_eq (good_of_utf8 hu)]
      simp [DoSpec, State.pos]
    · exact doSpec_fail s _

/-! ### strings -/

/-- the scanner's position is a split point of the text whose right part is well-formed -/
def StrInv (d : Bytes) (pos : Nat) : Prop := ∃ a r, d = a ++ r ∧ a.length = pos ∧ Utf8 r

theorem isStrStop_ascii {b : UInt8} (h : isStrStop b = true) : b.toNat < 128 := by
  simp [isStrStop] at h
  omega

theorem getElem?_append_length (a : Bytes) (b : UInt8) (r : Bytes) : (a ++ b :: r)[a.length]? = some b := by
  simp

theorem getElem?_append_length_add (a r : Bytes) (i : Nat) : (a ++ r)[a.length + i]? = r[i]? := by
  rw [List.getElem?_append_right (by omega)]
  congr 1; omega

/-- what one escape sequence guarantees -/
def EscOk (d : Bytes) (n : Nat) : EscRes → Prop
  | .next p _ => n < p ∧ StrInv d p
  | .bad => True
  | .eof => True
  | .panic => False

/-- what the string scanner guarantees -/
def StrOk (d : Bytes) (pos : Nat) : StrRes → Prop
  | .ok p _ => pos < p ∧ ∃ a q r, d = a ++ q :: r ∧ a.length + 1 = p ∧ q.toNat = 34 ∧ Utf8 r
  | .bad => True
  | .eof => True
  | .panic => False
  | .fuel => False

theorem strEscape_spec (d a : Bytes) (cb : UInt8) (post : Bytes) (esc1 : Bytes)
    (hd : d = a ++ cb :: post) (hcb : cb.toNat = 92) (hu : Utf8 (cb :: post)) (hlen : 2 ≤ post.length) :
    EscOk d a.length (strEscape d a.length esc1) := by
  have hpost : Utf8 post := utf8_tail_of_ascii hu (by omega)
  obtain ⟨eb, post1, rfl⟩ : ∃ eb post1, post = eb :: post1 := by
    cases post with
    | nil => simp at hlen
    | cons x y => exact ⟨x, y, rfl⟩
  obtain ⟨gb, post2, rfl⟩ : ∃ gb post2, post1 = gb :: post2 := by
    cases post1 with
    | nil => simp at hlen
    | cons x y => exact ⟨x, y, rfl⟩
  have e1 : d[a.length + 1]? = some eb := by
    rw [hd, getElem?_append_length_add]; rfl
  have e2 : d[a.length + 2]? = some gb := by
    rw [hd, getElem?_append_length_add]; rfl
  -- after a simple escape the scanner stands two bytes further
  have simple : eb.toNat < 128 → a.length < a.length + 2 ∧ StrInv d (a.length + 2) := by
    intro hlt
    refine ⟨by omega, a ++ [cb, eb], gb :: post2, by rw [hd]; simp, by simp, ?_⟩
    exact utf8_tail_of_ascii hpost hlt
  unfold strEscape
  rw [e1]
  simp only
  split
  · rename_i h; simp at h; exact simple (by omega)
  · split
    · rename_i h; simp at h; exact simple (by omega)
    · split
      · rename_i h; simp at h; exact simple (by omega)
      · split
        · rename_i h; simp at h; exact simple (by omega)
        · split
          · rename_i h; simp at h; exact simple (by omega)
          · split
            · rename_i hu117
              simp at hu117
              rw [e2]
              simp only
              split
              · rename_i hg
                simp at hg
                have hp2 : Utf8 post2 := utf8_tail_of_ascii (utf8_tail_of_ascii hpost (by omega)) (by omega)
                have hsl : sliceFrom d (a.length + 3) = some post2 := by
                  have := sliceFrom_split (a ++ [cb, eb, gb]) post2 (utf8_head? hp2)
                  rw [hd]; simpa using this
                rw [hsl]
                simp only
                cases hpos : position (fun b => b.toNat == 125) (post2.take 7) with
                | none => trivial
                | some end_ =>
                  simp only
                  obtain ⟨hx, cl, t, htake, hxl, hcl, _⟩ := position_some hpos
                  simp at hcl
                  have hp2' : post2 = hx ++ cl :: (t ++ post2.drop 7) := by
                    have := (List.take_append_drop 7 post2).symm
                    rw [htake] at this
                    simpa using this
                  have hcu : Utf8 (cl :: (t ++ post2.drop 7)) :=
                    utf8_split_noncont (hp2' ▸ hp2) (by rw [isCont_false_iff]; omega)
                  have hd' : d = (a ++ [cb, eb, gb]) ++ hx ++ (cl :: (t ++ post2.drop 7)) := by
                    rw [hd]; simp; exact hp2'
                  have hsl2 : slice d (a.length + 3) (a.length + 3 + end_) = some hx := by
                    have := slice_split (a ++ [cb, eb, gb]) hx (cl :: (t ++ post2.drop 7))
                      (by rw [← hp2']; exact utf8_head? hp2) (utf8_head? hcu)
                    rw [← hd'] at this
                    simpa [hxl] using this
                  rw [hsl2]
                  simp only
                  cases u32FromHex hx with
                  | none => trivial
                  | some v =>
                    simp only
                    have e3 : d[a.length + 3]? = (hx ++ cl :: (t ++ post2.drop 7))[0]? := by
                      rw [hd, getElem?_append_length_add, ← hp2']; rfl
                    have : ∃ pb, d[a.length + 3]? = some pb := by
                      rw [e3]
                      cases hx with
                      | nil => exact ⟨cl, rfl⟩
                      | cons x y => exact ⟨x, rfl⟩
                    obtain ⟨pb, hpb⟩ := this
                    rw [hpb]
                    simp only
                    split
                    · trivial
                    · split
                      · refine ⟨by omega, (a ++ [cb, eb, gb]) ++ hx ++ [cl], t ++ post2.drop 7, ?_, ?_, ?_⟩
                        · rw [hd']; simp
                        · simp [hxl]; omega
                        · exact utf8_tail_of_ascii hcu (by omega)
                      · trivial
              · trivial
            · trivial

theorem strLoop_spec (d : Bytes) (f pos : Nat) (esc : Bytes) (hinv : StrInv d pos) (hf : d.length - pos < f) :
    StrOk d pos (strLoop d f pos esc) := by
  induction f generalizing pos esc with
  | zero => omega
  | succ f ih =>
    obtain ⟨a, r, hd, hal, hr⟩ := hinv
    unfold strLoop
    have hsl : sliceFrom d pos = some r := by
      rw [hd, ← hal]; exact sliceFrom_split a r (utf8_head? hr)
    rw [hsl]
    simp only
    cases hpos : position isStrStop r with
    | none => trivial
    | some off =>
      simp only
      obtain ⟨run, cb, post, hrsplit, hrl, hcb, _⟩ := position_some hpos
      have hcba := isStrStop_ascii hcb
      have hd2 : d = (a ++ run) ++ cb :: post := by rw [hd, hrsplit]; simp
      have hidx : d[pos + off]? = some cb := by
        rw [hd2, ← hal, ← hrl, ← List.length_append]; exact getElem?_append_length _ _ _
      rw [hidx]
      simp only
      have hcu : Utf8 (cb :: post) := utf8_split_noncont (hrsplit ▸ hr) (by rw [isCont_false_iff]; omega)
      have hpush : ∀ e : Bytes, pushSlice d e pos (pos + off) = some (e ++ run) := by
        intro e
        unfold pushSlice
        have := slice_split a run (cb :: post) (by rw [← hrsplit]; exact utf8_head? hr) (utf8_head? hcu)
        rw [← hd2] at this
        rw [← hal, ← hrl, this]
      split
      · trivial
      · split
        · rename_i h92
          simp at h92
          have hesc : (if off > 0 then pushSlice d esc pos (pos + off) else some esc) =
              some (if off > 0 then esc ++ run else esc) := by
            split <;> simp [hpush]
          rw [hesc]
          simp only
          have hlen : d.length = pos + off + 1 + post.length := by rw [hd2]; simp; omega
          have : ¬ d.length < pos + off := by omega
          simp only [this, if_false]
          split
          · trivial
          · rename_i h3
            have hpl : 2 ≤ post.length := by omega
            have hspec := strEscape_spec d (a ++ run) cb post (if off > 0 then esc ++ run else esc) hd2 h92 hcu hpl
            have hal2 : (a ++ run).length = pos + off := by simp [hal, hrl]
            rw [hal2] at hspec
            cases hes : strEscape d (pos + off) (if off > 0 then esc ++ run else esc) with
            | next p2 e2 =>
              rw [hes] at hspec
              simp only
              obtain ⟨hlt, hinv2⟩ := hspec
              have hle : p2 ≤ d.length := by
                obtain ⟨a2, r2, hd3, ha2, _⟩ := hinv2
                rw [hd3, ← ha2]; simp
              have := ih p2 e2 hinv2 (by omega)
              cases hres : strLoop d f p2 e2 with
              | ok p e =>
                rw [hres] at this
                obtain ⟨h1, h2⟩ := this
                exact ⟨by omega, h2⟩
              | bad => trivial
              | eof => trivial
              | panic => rw [hres] at this; exact this
              | fuel => rw [hres] at this; exact this
            | bad => trivial
            | eof => trivial
            | panic => rw [hes] at hspec; exact hspec
        · rename_i hn32 hn92
          have hc34 : cb.toNat = 34 := by
            simp [isStrStop] at hcb
            simp at hn32 hn92
            omega
          have : (cb.toNat != 34) = false := by simp [hc34]
          simp only [this, Bool.false_eq_true, if_false]
          have hesc : (if (!esc.isEmpty && decide (off > 0)) = true then pushSlice d esc pos (pos + off) else some esc) =
              some (if (!esc.isEmpty && decide (off > 0)) = true then esc ++ run else esc) := by
            split <;> simp [hpush]
          rw [hesc]
          simp only
          refine ⟨by omega, a ++ run, cb, post, hd2, by simp [hal, hrl], hc34, ?_⟩
          exact utf8_tail_of_ascii hcu (by omega)

theorem doSpec_string (s : State) (b0 : UInt8) (tl : Bytes) (hd : s.data = b0 :: tl) (hu : Utf8 s.data)
    (h0 : b0.toNat = 34) : DoSpec s (lexString s) := by
  unfold lexString
  have htl : Utf8 tl := utf8_tail_of_ascii (hd ▸ hu) (by omega)
  have hinv : StrInv s.data 1 := ⟨[b0], tl, by simpa using hd, rfl, htl⟩
  have hspec := strLoop_spec s.data s.data.length 1 [] hinv (by rw [hd]; simp)
  cases hres : strLoop s.data s.data.length 1 [] with
  | fuel => rw [hres] at hspec; exact hspec
  | panic => rw [hres] at hspec; exact hspec
  | bad => exact doSpec_fail s _
  | eof => exact doSpec_failEof s _ hu
  | ok p esc =>
    rw [hres] at hspec
    obtain ⟨hp1, a, q, r, hsplit, hal, hq, hr⟩ := hspec
    simp only
    have hmid : s.data = (a ++ [q]) ++ r := by rw [hsplit]; simp
    have hpl : p = (a ++ [q]).length := by simp; omega
    have hane : a ≠ [] := by intro h; subst h; simp at hal; omega
    have hhead : (a ++ [q]).head? = some b0 := by
      have h1 : (a ++ [q]) ≠ [] := by simp
      rw [← head?_append_of_ne_nil (rest := r) h1, ← hmid, hd]; rfl
    have hst : ∀ x, startsTok (.str x) b0 = true := by intro x; simp [startsTok, h0]
    split
    · rw [hpl]
      exact doSpec_emit s (a ++ [q]) r _ false hmid hu hr (by simp) ⟨b0, hhead, hst _⟩
    · have : ¬ p < 1 := by omega
      simp only [this, if_false]
      -- the borrowed body `&self.data[1..pos - 1]`
      obtain ⟨body, rfl⟩ : ∃ body, a = b0 :: body := by
        cases a with
        | nil => exact absurd rfl hane
        | cons x y =>
          rw [hd] at hsplit
          simp at hsplit
          exact ⟨y, by rw [hsplit.1]⟩
      have hqu : Utf8 (q :: r) := utf8_split_noncont (hsplit ▸ hu) (by rw [isCont_false_iff]; omega)
      have hbu : Utf8 (body ++ q :: r) := by
        have : tl = body ++ q :: r := by rw [hd] at hsplit; simpa using hsplit
        rw [← this]; exact htl
      have hsl : slice s.data 1 (p - 1) = some body := by
        have := slice_split [b0] body (q :: r) (utf8_head? hbu) (utf8_head? hqu)
        have e : [b0] ++ body ++ q :: r = s.data := by rw [hsplit]; simp
        rw [e] at this
        have e2 : p - 1 = [b0].length + body.length := by simp at hal ⊢; omega
        rw [e2]; exact this
      rw [hsl]
      simp only
      rw [hpl]
      exact doSpec_emit s ((b0 :: body) ++ [q]) r _ false hmid hu hr (by simp) ⟨b0, hhead, hst _⟩

/-! ### `do_next` -/

theorem doSpec_doNext (s : State) (hu : Utf8 s.data) (hne : s.data ≠ []) : DoSpec s (doNext s) := by
  obtain ⟨b0, tl, hd⟩ : ∃ b0 tl, s.data = b0 :: tl := by
    cases h : s.data with
    | nil => exact absurd h hne
    | cons x y => exact ⟨x, y, rfl⟩
  unfold doNext
  have h0 : s.data[0]? = some b0 := by rw [hd]; rfl
  rw [h0]
  simp only
  cases hp : punct b0.toNat with
  | some t => exact doSpec_punct s b0 tl t hd hu hp
  | none =>
    simp only
    have hs1 : ∀ x : Nat, secondIs s.data x = true → ∃ b1 tl', tl = b1 :: tl' ∧ b1.toNat = x := by
      intro x hx
      unfold secondIs at hx
      cases tl with
      | nil => simp [hd] at hx
      | cons b1 tl' => exact ⟨b1, tl', rfl, by simpa [hd] using hx⟩
    by_cases c1 : (b0.toNat == 60 && decide (s.data.length ≥ 2) &&
        secondIs s.data 60) = true
    · rw [if_pos c1]
      simp only [Bool.and_eq_true, beq_iff_eq] at c1
      obtain ⟨b1, tl', rfl, hb1⟩ := hs1 60 c1.2
      exact doSpec_two s b0 b1 tl' .shl hd hu (by omega) (by omega) (by simp [startsTok, c1.1.1])
    · rw [if_neg c1]
      by_cases c2 : (b0.toNat == 62 && decide (s.data.length ≥ 2) &&
          secondIs s.data 62) = true
      · rw [if_pos c2]
        simp only [Bool.and_eq_true, beq_iff_eq] at c2
        obtain ⟨b1, tl', rfl, hb1⟩ := hs1 62 c2.2
        exact doSpec_two s b0 b1 tl' .shr hd hu (by omega) (by omega) (by simp [startsTok, c2.1.1])
      · rw [if_neg c2]
        by_cases c3 : (decide (48 ≤ b0.toNat) && decide (b0.toNat ≤ 57)) = true
        · rw [if_pos c3]
          simp at c3
          exact doSpec_number s b0 tl hd hu c3
        · rw [if_neg c3]
          by_cases c4 : (b0.toNat == 39) = true
          · rw [if_pos c4]
            simp at c4
            exact doSpec_char s b0 tl hd hu c4
          · rw [if_neg c4]
            by_cases c5 : ((decide (65 ≤ b0.toNat) && decide (b0.toNat ≤ 90)) || b0.toNat == 95 ||
                (decide (97 ≤ b0.toNat) && decide (b0.toNat ≤ 122))) = true
            · rw [if_pos c5]
              refine doSpec_ident s b0 tl hd hu ?_
              simp at c5
              simp [isIdentByte]
              omega
            · rw [if_neg c5]
              by_cases c6 : (b0.toNat == 34) = true
              · rw [if_pos c6]
                simp at c6
                exact doSpec_string s b0 tl hd hu c6
              · rw [if_neg c6]
                obtain ⟨c, n, hdec⟩ := utf8_decode hu hne
                rw [hdec]
                exact doSpec_fail s _

end Trion.Lex
