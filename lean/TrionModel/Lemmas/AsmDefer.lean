import TrionModel.Lemmas.AsmShow
import TrionModel.Lemmas.AsmNoLoop
import TrionModel.Lemmas.AsmFront
/-!
# The deferred path of `Asm`: placeholder, queued task, end-of-file rewrite

Exact results (in the style of Lemmas/AsmShow.lean) for a statement inside a file whose evaluation is deferred:
* `instr_deferred`: an instruction statement whose `Front.assemble` stops with `Deferred` is placed as 0xBE bytes of
  the length of the encoding of the partly filled instruction, recorded in `pending`, and queued as a local task
  that carries the front-end state (`args`, `args_done`, the instruction as far as it was filled);
* `instr_task_active` / `task_rewrites_range`: when the task runs over a table in which `Front.assemble` completes,
  it rewrites the placeholder with the final bytes — explicitly `take ++ bytes ++ drop` on the active buffer when the
  statement still lies in the active region, and in general exactly the range `[addr, addr + len)` of the image
  (`Seg.rewrite_spec`), nothing else;
* `localLoop_chain`, `run_of_statements_tasks`: the local task loop over a queue all of whose tasks complete, and the
  wrapper from the statements and tasks of the main file to the outcome of `run`.
-/
namespace Trion.Asm
open Trion

theorem paths_nonempty {env : Env} (henv : env.paths ≠ []) : env.paths.isEmpty = false := by
  cases h : env.paths with | nil => exact absurd h henv | cons => rfl

/-- **placeholder + queue**: an instruction statement whose operand evaluation is deferred -/
theorem instr_deferred (fs : Bytes → Option Bytes) (enc : Encoder) (inc : Inc) (env : Env) (st : St) (tbl : Table)
    (q : List Task) (henv : env.paths ≠ []) (hl : st.locals = some tbl) (hq : st.localTasks = some q)
    (l c : Nat) (name : Bytes) (args : Args) (map : Map.Segs) (seg : Seg.Active) (pending : List (Nat × Nat))
    (hs : st.seg = ⟨map, some seg, pending⟩) (t : Instr) (hm : Front.mnemonic name = some t)
    (fs1 : Front.St) (cause : Bytes)
    (ha : Front.assemble ⟨seg.cur, t, 0, args.toList⟩ (frontEval tbl) true = (fs1, .deferred cause))
    (ph : Bytes) (he : enc fs1.instr = .ok ph) (hfit : seg.buf.length + ph.length ≤ seg.maxLen) :
    statement fs enc inc env st ⟨l, c, .instruction name args⟩ =
      .ok ({ st with
              seg := ⟨map, some { seg with buf := seg.buf ++ List.replicate ph.length 0xBE }, (seg.cur, ph.length) :: pending⟩,
              localTasks := some (q ++ [.instr ⟨env.curName, l, c, fs1, true⟩ false]) }, .ok) := by
  have hpaths := paths_nonempty henv
  have hrem : seg.remaining = some (seg.maxLen - seg.buf.length) := by
    simp [Seg.Active.remaining]; omega
  have hle : ph.length ≤ seg.maxLen - seg.buf.length := by omega
  simp only [statement, hs, Option.isNone_some, Bool.false_eq_true, if_false, instruction, currAddr, Option.map_some,
    hm, ArmInstr.assemble, evalTable, hpaths, hl, evalPanics_false, ha, ArmInstr.writeInstr, he, writeStmt,
    Bool.not_false, Option.isSome_some, Bool.and_self, if_true, segStep, Seg.step, Seg.Active.write, hrem,
    List.length_replicate, hle, ArmInstr.schedule, addTask, hq]

/-- `Seg.rewrite` of a range that lies in the active buffer, when the closed map does not hold the address -/
theorem rewrite_active (s : Seg.State) (seg : Seg.Active) (addr : Nat) (d : Bytes) (ha : s.active = some seg)
    (hf : Map.find s.map addr .exact = .ok none) (hb : seg.base ≤ addr) (hd : 0 < d.length)
    (he : addr + d.length ≤ seg.base + seg.buf.length) (h32 : seg.base + seg.buf.length ≤ 4294967296) :
    Seg.rewrite s addr d =
      ({ s with active := some { seg with buf := seg.buf.take (addr - seg.base) ++ d ++ seg.buf.drop (addr - seg.base + d.length) } }, .ok) := by
  have hc : addr ≤ seg.cur := by unfold Seg.Active.cur Map.u32Max; omega
  have hcond : (none : Option (Nat × Nat)).isNone = true ∧ addr ≥ seg.base ∧ addr ≤ seg.cur := ⟨rfl, hb, hc⟩
  have hw : seg.writeAt addr d =
      ({ seg with buf := seg.buf.take (addr - seg.base) ++ d ++ seg.buf.drop (addr - seg.base + d.length) }, .ok) := by
    unfold Seg.Active.writeAt
    rw [if_neg (fun h => h ⟨hb, hc⟩)]
    dsimp only
    rw [if_neg (by omega), if_neg (by omega), if_pos (by omega)]
  exact Seg.rewrite_writeAt hf ha hcond hw

/-- **the task of a deferred instruction, statement still in the active region**: over a table in which
`Front.assemble` completes, the final bytes replace the placeholder in the buffer; nothing else changes -/
theorem instr_task_active (enc : Encoder) (env : Env) (st : St) (tbl : Table) (henv : env.paths ≠ [])
    (hl : st.locals = some tbl) (file : Bytes) (l c : Nat) (fs1 fs2 : Front.St) (g : Bool)
    (map : Map.Segs) (seg : Seg.Active) (pending : List (Nat × Nat)) (hs : st.seg = ⟨map, some seg, pending⟩)
    (ha : Front.assemble fs1 (frontEval tbl) false = (fs2, .completed))
    (bytes : Bytes) (he : enc fs2.instr = .ok bytes)
    (hf : Map.find map fs1.addr .exact = .ok none) (hb : seg.base ≤ fs1.addr) (hd : 0 < bytes.length)
    (hin : fs1.addr + bytes.length ≤ seg.base + seg.buf.length) (h32 : seg.base + seg.buf.length ≤ 4294967296) :
    runTask enc env st (.instr ⟨file, l, c, fs1, true⟩ g) =
      .ok ({ st with seg := ⟨map, some { seg with buf := seg.buf.take (fs1.addr - seg.base) ++ bytes ++ seg.buf.drop (fs1.addr - seg.base + bytes.length) }, pending⟩ }, .ok) := by
  have hpaths := paths_nonempty henv
  have hadr : fs2.addr = fs1.addr := by
    have := (Front.assemble_keeps fs1 (frontEval tbl) false).1
    rw [ha] at this; exact this
  have hrw := rewrite_active ⟨map, some seg, pending⟩ seg fs1.addr bytes rfl hf hb hd hin h32
  simp only [runTask, runInstrTask, ArmInstr.assemble, evalTable, hpaths, hl, evalPanics_false, ha,
    Bool.false_eq_true, if_false, ArmInstr.writeInstr, he, writeStmt, Bool.not_true, Bool.false_and, hs, hadr,
    segStep, Seg.step, hrw]

/-- **the rewrite of a task, in general**: whatever the regions look like by now (the statement's region may
have been closed), a completing task changes the image exactly on the placeholder range, to the final bytes -/
theorem task_rewrites_range (enc : Encoder) (env : Env) (st : St) (tbl : Table) (henv : env.paths ≠ [])
    (hl : st.locals = some tbl) (file : Bytes) (l c : Nat) (fs1 fs2 : Front.St) (g : Bool) (inv : Seg.Inv st.seg)
    (ha : Front.assemble fs1 (frontEval tbl) false = (fs2, .completed))
    (bytes : Bytes) (he : enc fs2.instr = .ok bytes) (hp : (fs1.addr, bytes.length) ∈ st.seg.pending) :
    ∃ s', runTask enc env st (.instr ⟨file, l, c, fs1, true⟩ g) = .ok ({ st with seg := s' }, .ok) ∧ Seg.Inv s' ∧
      s'.pending = st.seg.pending ∧
      (∀ k, ¬ (fs1.addr ≤ k ∧ k < fs1.addr + bytes.length) → Seg.image s' k = Seg.image st.seg k) ∧
      (∀ j, j < bytes.length → Seg.image s' (fs1.addr + j) = bytes[j]?) := by
  have hpaths := paths_nonempty henv
  have hadr : fs2.addr = fs1.addr := by
    have := (Front.assemble_keeps fs1 (frontEval tbl) false).1
    rw [ha] at this; exact this
  obtain ⟨r1, r2, r3, r4, r5⟩ := Seg.rewrite_spec inv fs1.addr bytes hp
  refine ⟨(Seg.rewrite st.seg fs1.addr bytes).1, ?_, r2, r5, r3, r4⟩
  cases hr : Seg.rewrite st.seg fs1.addr bytes with
  | mk s' o =>
    rw [hr] at r1
    simp only at r1
    subst r1
    simp only [runTask, runInstrTask, ArmInstr.assemble, evalTable, hpaths, hl, evalPanics_false, ha,
      Bool.false_eq_true, if_false, ArmInstr.writeInstr, he, writeStmt, Bool.not_true, Bool.false_and, hadr,
      segStep, Seg.step, hr]

/-! ## the local task loop over a queue all of whose tasks complete -/

/-- every task of the list, run in order, returns `Ok` -/
inductive TaskChain (enc : Encoder) (env : Env) : List Task → St → St → Prop
  | nil (st : St) : TaskChain enc env [] st st
  | cons {t : Task} {ts : List Task} {st st1 st2 : St} :
      runTask enc env st t = .ok (st1, .ok) → TaskChain enc env ts st1 st2 → TaskChain enc env (t :: ts) st st2

theorem localRound_chain {enc : Encoder} {env : Env} {ts : List Task} {st st' : St} (h : TaskChain enc env ts st st')
    (res : Res) : localRound enc env ts st res = .ok (st', res) := by
  induction h with
  | nil st => rfl
  | cons h1 _ ih => simp only [localRound, h1]; exact ih

theorem chain_locals {enc : Encoder} {env : Env} {ts : List Task} {st st' : St} (h : TaskChain enc env ts st st') :
    st'.localTasks = st.localTasks := by
  induction h with
  | nil st => rfl
  | cons h1 _ ih => exact ih.trans (runTask_frame _ _ h1).1

theorem localLoop_chain {enc : Encoder} {env : Env} {ts : List Task} {st st' : St} (h : TaskChain enc env ts st st')
    (hl : st.localTasks = some []) (n : Nat) : localLoop enc env (n + 2) ts st .ok = .ok (st', .ok) := by
  have hl' : st'.localTasks = some [] := (chain_locals h).trans hl
  cases ts with
  | nil => cases h; simp [localLoop]
  | cons t ts =>
    simp only [localLoop, List.isEmpty_cons, Bool.false_eq_true, if_false, localRound_chain h, hl', Res.aborts]
    have : ({ st' with localTasks := some [] } : St) = st' := by
      cases st'; simp only at hl'; subst hl'; rfl
    simp [localLoop, this]

/-- from the statements AND the queued tasks of the main file to the outcome of `run` -/
theorem run_of_statements_tasks (fs : Bytes → Option Bytes) (main data : Bytes) (hfs : fs main = some data)
    (els : List Element) (hp : parseFile data = .ok (els, none))
    (tbl : Table) (seg0 seg : Seg.Active) (pending0 pending : List (Nat × Nat)) (q : List Task)
    (hd : doAssemble fs encoder (assembleFile fs encoder (maxDepth - 1)) ⟨[main], main⟩ els none
        ⟨Seg.init, [], some [], [], some [], []⟩ =
      .ok (⟨⟨[], some seg0, pending0⟩, [], some tbl, [], some q, []⟩, .ok))
    (hc : TaskChain encoder ⟨[main], main⟩ q ⟨⟨[], some seg0, pending0⟩, [], some tbl, [], some [], []⟩
      ⟨⟨[], some seg, pending⟩, [], some tbl, [], some [], []⟩)
    (hne : seg.buf ≠ []) (hfit : seg.base + seg.buf.length ≤ 4294967296) :
    run fs main = .done ⟨true, none, true, [], [(seg.base, seg.buf)]⟩ := by
  have hput : Map.put [] seg.base seg.buf = (.ok seg.buf.length, [(seg.base, seg.buf)]) := by
    have h1 : seg.buf.isEmpty = false := by cases h : seg.buf with | nil => exact absurd h hne | cons => rfl
    have h2 : ¬ (seg.buf.length - 1 > Map.u32Max - seg.base) := by simp [Map.u32Max]; omega
    simp [Map.put, h1, h2, Map.putGo]
  have hloop := localLoop_chain hc rfl 6
  have hA : assembleFile fs encoder maxDepth Env.init St.init data main =
      .ok (⟨⟨[], some seg, pending⟩, [], none, [], none, []⟩, .ok) := by
    show assembleFile fs encoder (63 + 1) Env.init St.init data main = _
    unfold assembleFile
    simp only [maxDepth] at hd
    simp only [rounds] at hloop ⊢
    simp [enterFile, St.init, Env.init, fileBody, hp, hd, rounds, hloop, leaveFile]
  unfold run runWith
  simp only [hfs, hA]
  simp [Seg.closeSegment, hput, finalize, globalLoop, rounds, St.hasErrored]

end Trion.Asm
