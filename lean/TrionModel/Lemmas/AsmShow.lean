import TrionModel.Lemmas.AsmPrim
import TrionModel.Lemmas.SimpE
import TrionModel.Lemmas.AsmEnc
import TrionModel.Lemmas.ShowEval
/-!
# Executing the whole-pipeline model `Asm` on simple statements (for C19 / C20 on text)

Exact results of `.addr <const>`, `.const <name>, <const>`, a label and an instruction statement whose
`Front.build` completes, in a state inside a file, and the wrapper from the main file's statements to `Asm.run`.
-/
namespace Trion.Asm
open Trion

theorem evalIn_const (t : Table) (v : Int) : evalIn t (.const v) = .ok (.complete (.const v)) := by
  simp [evalIn, Simp.evaluateE]

/-- on a completed evaluation the assembler's evaluator (`Simp.evaluateE`, which also keeps the tree an error leaves
behind) is `Simp.evaluateT` -/
theorem frontEval_complete (t : Table) (x : Arg) (ch : Bool) (a' : Arg)
    (h : Simp.evaluateT (fun n => t.get n) Front.isRegister x = .ok ⟨ch, none⟩ a') :
    frontEval t x = .complete a' := by
  have hE := Simp.evaluateE_is_evaluateT (fun n => t.get n) Front.isRegister x
  rw [h] at hE
  cases hev : Simp.evaluateE (fun n => t.get n) Front.isRegister x with
  | ok ev a'' =>
    rw [hev] at hE
    simp only [Simp.EvE.toT, Simp.EvT.ok.injEq] at hE
    obtain ⟨h1, h2⟩ := hE
    subst h1 h2
    simp [frontEval, evalIn, hev]
  | nosuch n a'' => rw [hev] at hE; simp [Simp.EvE.toT] at hE
  | err e a'' => rw [hev] at hE; simp [Simp.EvE.toT] at hE
  | panic => rw [hev] at hE; simp [Simp.EvE.toT] at hE

theorem evalArg_const (env : Env) (st : St) (tbl : Table) (henv : env.paths ≠ []) (hl : st.locals = some tbl) (v : Int) :
    evalArg env st (.const v) = .ok (.complete (.const v)) := by
  have : env.paths.isEmpty = false := by cases h : env.paths with | nil => exact absurd h henv | cons => rfl
  simp [evalArg, evalTable, this, hl, evalIn_const]

/-- `.addr v;` from the initial regions -/
theorem addr_ok (fs : Bytes → Option Bytes) (inc : Inc) (env : Env) (st : St) (tbl : Table) (henv : env.paths ≠ [])
    (hl : st.locals = some tbl) (hseg : st.seg = Seg.init) (l c : Nat) (v : Int) (h0 : 0 ≤ v) (h1 : v ≤ 4294967295) :
    directive fs inc env st l c (bytesOf "addr") [.const v] =
      .ok ({ st with seg := ⟨[], some ⟨v.toNat, [], Map.u32Max - v.toNat + 1⟩, []⟩ }, .ok) := by
  have e : directive fs inc env st l c (bytesOf "addr") [.const v] = addrDirective env st l c [.const v] := by
    simp [directive]
  rw [e]
  simp only [addrDirective, arity, List.length_cons, List.length_nil, Nat.zero_add, if_true, evalStrict,
    evalArg_const env st tbl henv hl]
  simp only [h0, h1, and_self, if_true, hseg]
  rfl

/-- `.const name, v;` for a fresh, non-register name -/
theorem const_ok (fs : Bytes → Option Bytes) (inc : Inc) (env : Env) (st : St) (tbl : Table) (henv : env.paths ≠ [])
    (hl : st.locals = some tbl) (l c : Nat) (name : Bytes) (v : Int) (hr : Front.isRegister name = false)
    (hf : tbl.find name = none) :
    directive fs inc env st l c (bytesOf "const") [.ident name, .const v] =
      .ok ({ st with locals := some (tbl.set name (some v)) }, .ok) := by
  have e : directive fs inc env st l c (bytesOf "const") [.ident name, .const v] =
      constDirective env st l c [.ident name, .const v] := by
    have h1 : ¬ (bytesOf "const" = bytesOf "addr") := by decide
    have h2 : ¬ (bytesOf "const" = bytesOf "align") := by decide
    simp [directive, h1, h2]
  rw [e]
  simp only [constDirective, arity, List.length_cons, List.length_nil, Nat.zero_add, if_true, evalStrict,
    evalArg_const env st tbl henv hl]
  simp [insertConstant, hr, hl, hf]

/-- a label statement for a fresh, non-register name, in an active region -/
theorem label_ok (fs : Bytes → Option Bytes) (enc : Encoder) (inc : Inc) (env : Env) (st : St) (tbl : Table)
    (hl : st.locals = some tbl) (l c : Nat) (name : Bytes) (seg : Seg.Active) (ha : st.seg.active = some seg)
    (hr : Front.isRegister name = false) (hf : tbl.find name = none) :
    statement fs enc inc env st ⟨l, c, .label name⟩ =
      .ok ({ st with locals := some (tbl.set name (some (seg.cur : Int))) }, .ok) := by
  simp [statement, currAddr, ha, insertConstant, hr, hl, hf]

theorem encoder_ok (i : Instr) (hws : List Nat) (he : Codec.encode i = .ok hws) (hlen : hws.length ≤ 2) :
    encoder i = .ok ((Codec.toBytes hws).map (·.toUInt8)) := by
  have : ¬ (4 < 2 * hws.length) := by omega
  simp [encoder, Codec.encodeInto, he, this]

/-- an instruction statement whose operands are all known: `Front.build` completes, the encoder accepts, the
bytes fit — they are appended to the active region and the statement is recorded as placed -/
theorem instr_ok (fs : Bytes → Option Bytes) (enc : Encoder) (inc : Inc) (env : Env) (st : St) (tbl : Table)
    (henv : env.paths ≠ []) (hl : st.locals = some tbl) (l c : Nat) (name : Bytes) (args : Args)
    (map : Map.Segs) (seg : Seg.Active) (pending : List (Nat × Nat)) (hs : st.seg = ⟨map, some seg, pending⟩)
    (i : Instr) (hb : Front.build seg.cur name args.toList (frontEval tbl) true = .completed i)
    (bytes : Bytes) (he : enc i = .ok bytes) (hfit : seg.buf.length + bytes.length ≤ seg.maxLen) :
    statement fs enc inc env st ⟨l, c, .instruction name args⟩ =
      .ok ({ st with seg := ⟨map, some { seg with buf := seg.buf ++ bytes }, (seg.cur, bytes.length) :: pending⟩ }, .ok) := by
  have hpaths : env.paths.isEmpty = false := by cases h : env.paths with | nil => exact absurd h henv | cons => rfl
  unfold Front.build at hb
  cases hm : Front.mnemonic name with
  | none => simp [hm] at hb
  | some t =>
    simp only [hm] at hb
    cases ha : Front.assemble { addr := seg.cur, instr := t, argsDone := 0, args := args.toList } (frontEval tbl) true with
    | mk fst out =>
      rw [ha] at hb
      cases out with
      | completed =>
        simp only at hb
        have hi : fst.instr = i := by injection hb
        have hrem : seg.remaining = some (seg.maxLen - seg.buf.length) := by
          simp [Seg.Active.remaining]; omega
        have hle : bytes.length ≤ seg.maxLen - seg.buf.length := by omega
        simp only [statement, hs, Option.isNone_some, Bool.false_eq_true, if_false, instruction, currAddr, Option.map_some,
          hm, ArmInstr.assemble, evalTable, hpaths, hl, evalPanics_false, ha, ArmInstr.writeInstr, hi, he, writeStmt,
          Bool.not_false, Option.isSome_some, Bool.and_self, if_true, segStep, Seg.step, Seg.Active.write, hrem, hle]
      | deferred c => simp at hb
      | error d => simp at hb
      | panic => simp at hb

/-- from the statements of the main file to the outcome of `run`: all statements succeed without leaving tasks or
diagnostics, the open region `seg` is then written to the (empty) output map -/
theorem run_of_statements (fs : Bytes → Option Bytes) (main data : Bytes) (hfs : fs main = some data)
    (els : List Element) (hp : parseFile data = .ok (els, none))
    (tbl : Table) (seg : Seg.Active) (pending : List (Nat × Nat))
    (hd : doAssemble fs encoder (assembleFile fs encoder (maxDepth - 1)) ⟨[main], main⟩ els none
        ⟨Seg.init, [], some [], [], some [], []⟩ =
      .ok (⟨⟨[], some seg, pending⟩, [], some tbl, [], some [], []⟩, .ok))
    (hne : seg.buf ≠ []) (hfit : seg.base + seg.buf.length ≤ 4294967296) :
    run fs main = .done ⟨true, none, true, [], [(seg.base, seg.buf)]⟩ := by
  have hput : Map.put [] seg.base seg.buf = (.ok seg.buf.length, [(seg.base, seg.buf)]) := by
    have h1 : seg.buf.isEmpty = false := by cases h : seg.buf with | nil => exact absurd h hne | cons => rfl
    have h2 : ¬ (seg.buf.length - 1 > Map.u32Max - seg.base) := by simp [Map.u32Max]; omega
    simp [Map.put, h1, h2, Map.putGo]
  have hA : assembleFile fs encoder maxDepth Env.init St.init data main =
      .ok (⟨⟨[], some seg, pending⟩, [], none, [], none, []⟩, .ok) := by
    show assembleFile fs encoder (63 + 1) Env.init St.init data main = _
    unfold assembleFile
    simp only [maxDepth] at hd
    simp [enterFile, St.init, Env.init, fileBody, hp, hd, localLoop, rounds, leaveFile]
  unfold run runWith
  simp only [hfs, hA]
  simp [Seg.closeSegment, hput, finalize, globalLoop, rounds, St.hasErrored]

end Trion.Asm
