import TrionModel.Lemmas.ParseMono
/-!
# Statement level: `element` and `all`
-/
namespace Trion.Parse

theorem nextInner_ne_panic (lo : LexOut) (e : String) (ts : List Token) : nextInner lo e ts ≠ .panic := by
  cases ts <;> simp [nextInner]
theorem nextInner_ne_fuel (lo : LexOut) (e : String) (ts : List Token) : nextInner lo e ts ≠ .fuel := by
  cases ts <;> simp [nextInner]
theorem nextInner_len {lo : LexOut} {e : String} {ts r : List Token} (h : nextInner lo e ts = .ok r) :
    r.length < ts.length := by
  cases ts with
  | nil => simp [nextInner] at h
  | cons t r' => simp only [nextInner] at h; cases h; simp

theorem stmtTail_ne_panic (lo : LexOut) (ts : List Token) (k : Args → ElemVal) (l c : Nat) :
    ((args lo ts).bind fun p => (nextInner lo "';'" p.2).bind fun r3 =>
      .ok ((⟨l, c, k p.1⟩ : Element), r3)) ≠ .panic := by
  rw [bind_ne_panic]
  refine ⟨args_ne_panic lo ts, fun p _ => ?_⟩
  rw [bind_ne_panic]
  exact ⟨nextInner_ne_panic _ _ _, by intros; simp⟩

theorem stmtTail_ne_fuel (lo : LexOut) (ts : List Token) (k : Args → ElemVal) (l c : Nat) :
    ((args lo ts).bind fun p => (nextInner lo "';'" p.2).bind fun r3 =>
      .ok ((⟨l, c, k p.1⟩ : Element), r3)) ≠ .fuel := by
  rw [bind_ne_fuel]
  refine ⟨args_ne_fuel lo ts, fun p _ => ?_⟩
  rw [bind_ne_fuel]
  exact ⟨nextInner_ne_fuel _ _ _, by intros; simp⟩

theorem stmtTail_ok {lo : LexOut} {ts : List Token} {k : Args → ElemVal} {l c : Nat} {el : Element} {r' : List Token}
    (h : ((args lo ts).bind fun p => (nextInner lo "';'" p.2).bind fun r3 =>
      .ok ((⟨l, c, k p.1⟩ : Element), r3)) = .ok (el, r')) :
    r'.length < ts.length ∧ el.line = l ∧ el.col = c := by
  obtain ⟨p, hp, h⟩ := bind_eq_ok.1 h
  obtain ⟨r3, hn, h⟩ := bind_eq_ok.1 h
  cases h
  have := args_len (a := p.1) (r := p.2) hp
  have := nextInner_len hn
  exact ⟨by omega, rfl, rfl⟩

theorem element_ne_panic (lo : LexOut) (t : Token) (r : List Token) : element lo t r ≠ .panic := by
  unfold element
  split
  · split
    · simp
    · split
      · exact stmtTail_ne_panic lo _ _ _ _
      · simp
  · split
    · split <;> simp
    · split
      · simp
      · exact stmtTail_ne_panic lo _ _ _ _
  · simp

theorem element_ne_fuel (lo : LexOut) (t : Token) (r : List Token) : element lo t r ≠ .fuel := by
  unfold element
  split
  · split
    · simp
    · split
      · exact stmtTail_ne_fuel lo _ _ _ _
      · simp
  · split
    · split <;> simp
    · split
      · simp
      · exact stmtTail_ne_fuel lo _ _ _ _
  · simp

/-- a successful statement consumes tokens and carries the position of its first token -/
theorem element_ok {lo : LexOut} {t : Token} {r : List Token} {el : Element} {r' : List Token}
    (h : element lo t r = .ok (el, r')) :
    r'.length ≤ r.length ∧ el.line = t.line ∧ el.col = t.col ∧ (t.val = .dirMark ∨ ∃ s, t.val = .ident s) := by
  unfold element at h
  split at h
  · rename_i hv
    split at h
    · cases h
    · split at h
      · have := stmtTail_ok h
        simp only [List.length_cons]
        exact ⟨by omega, this.2.1, this.2.2, Or.inl hv⟩
      · cases h
  · rename_i name hv
    split at h
    · split at h <;> cases h
    · split at h
      · cases h
        exact ⟨by simp, rfl, rfl, Or.inr ⟨name, hv⟩⟩
      · have := stmtTail_ok h
        exact ⟨by omega, this.2.1, this.2.2, Or.inr ⟨name, hv⟩⟩
  · cases h

theorem allLoop_ne_panic (lo : LexOut) : ∀ n ts, allLoop lo n ts ≠ .panic := by
  intro n
  induction n with
  | zero => intro ts; simp [allLoop]
  | succ n ih =>
    intro ts
    cases ts with
    | nil => simp only [allLoop]; split <;> simp
    | cons t r =>
      simp only [allLoop]
      split
      · rename_i el r' _
        have := ih r'
        split <;> simp_all
      · simp
      · rename_i h; exact absurd h (element_ne_panic lo t r)
      · simp

theorem allLoop_ne_fuel (lo : LexOut) : ∀ n ts, ts.length < n → allLoop lo n ts ≠ .fuel := by
  intro n
  induction n with
  | zero => intro ts h; omega
  | succ n ih =>
    intro ts hl
    cases ts with
    | nil => simp only [allLoop]; split <;> simp
    | cons t r =>
      simp only [allLoop]
      split
      · rename_i el r' he
        have hlen := (element_ok he).1
        have := ih r' (by simp only [List.length_cons] at hl; omega)
        split <;> simp_all
      · simp
      · simp
      · rename_i h; exact absurd h (element_ne_fuel lo t r)

/-- a run that ends without an error has consumed every token and the tokenizer reported no error -/
theorem allLoop_done_none (lo : LexOut) : ∀ n ts els, allLoop lo n ts = .done els none → lo.err = none := by
  intro n
  induction n with
  | zero => intro ts els h; simp [allLoop] at h
  | succ n ih =>
    intro ts els h
    cases ts with
    | nil =>
      simp only [allLoop] at h
      split at h
      · simp at h
      · assumption
    | cons t r =>
      simp only [allLoop] at h
      split at h
      · rename_i el r' _
        split at h
        · rename_i els' e' hrec
          simp only [Outcome.done.injEq] at h
          rw [h.2] at hrec
          exact ih r' els' hrec
        · cases h
        · cases h
      · simp at h
      · cases h
      · cases h

/-- the first element sits at the first token -/
theorem allLoop_first (lo : LexOut) (n : Nat) (ts : List Token) (el : Element) (els : List Element) (err : Option ParseErr)
    (h : allLoop lo n ts = .done (el :: els) err) :
    ∃ t r, ts = t :: r ∧ el.line = t.line ∧ el.col = t.col := by
  cases n with
  | zero => simp [allLoop] at h
  | succ n =>
    cases ts with
    | nil => simp only [allLoop] at h; split at h <;> simp at h
    | cons t r =>
      refine ⟨t, r, rfl, ?_⟩
      simp only [allLoop] at h
      split at h
      · rename_i el' r' he
        split at h
        · simp only [Outcome.done.injEq, List.cons.injEq] at h
          obtain ⟨⟨rfl, _⟩, _⟩ := h
          exact ⟨(element_ok he).2.1, (element_ok he).2.2.1⟩
        · cases h
        · cases h
      · simp at h
      · cases h
      · cases h

end Trion.Parse
