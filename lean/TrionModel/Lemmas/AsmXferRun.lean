import TrionModel.Lemmas.AsmGlobRun
import TrionModel.Lemmas.AsmQueue
/-!
# Projects with `.include`, `.global`, `.export` and `.import` (of a name the includer holds valued) against the reference

Continues Lemmas/AsmGlobRun.lean.  `.export x` publishes the file's `x` to the includer's table like `.global x` does when
`x` is valued (the table is left as `g.set x (some v)` instead of `(g.set x none).set x (some v)`: the includer's table
is therefore related to `pub Gt₀ A` by `TEq`, equality of all lookups, not literally).  `.import x` in a file whose
includer holds `x` valued makes the file's `x` an alias of the includer's symbol: the statement
`.const (file's x) [includer's x] v` at the position of the `.import`.
-/
namespace Trion.Asm.Xfer
open Trion Trion.SegLayout Trion.Asm Trion.Asm.Multi Trion.Asm.Glob
open Trion.Layout (MRun withTasks)

def isExport (el : Element) : Bool :=
  match el.val with
  | .directive name _ => name = bytesOf "export"
  | _ => false

def isImport (el : Element) : Bool :=
  match el.val with
  | .directive name _ => name = bytesOf "import"
  | _ => false

def exportName (el : Element) : Option Bytes :=
  match el.val with
  | .directive name args =>
    if name = bytesOf "export" then
      match args.toList with
      | [.ident x] => some x
      | _ => none
    else none
  | _ => none

def importName (el : Element) : Option Bytes :=
  match el.val with
  | .directive name args =>
    if name = bytesOf "import" then
      match args.toList with
      | [.ident x] => some x
      | _ => none
    else none
  | _ => none

/-- the name a `.global` or `.export` statement publishes -/
def pubName (el : Element) : Option Bytes :=
  match globalName el with
  | some x => some x
  | none => exportName el

theorem okEl_of4 {el : Element} (h1 : isInclude el = false) (h2 : isGlobal el = false) (h3 : isExport el = false)
    (h4 : isImport el = false) : okEl el = true := by
  unfold okEl
  unfold isInclude at h1; unfold isGlobal at h2; unfold isExport at h3; unfold isImport at h4
  split
  · rename_i name args hv
    rw [hv] at h1 h2 h3 h4
    simp only [decide_eq_false_iff_not] at h1 h2 h3 h4
    simp only [Bool.not_eq_true', Bool.or_eq_false_iff, decide_eq_false_iff_not]
    exact ⟨⟨⟨h1, h2⟩, h4⟩, h3⟩
  · rfl

theorem exportName_none {el : Element} (h : isExport el = false) : exportName el = none := by
  unfold exportName; unfold isExport at h
  split
  · rename_i name args hv
    rw [hv] at h
    simp only [decide_eq_false_iff_not] at h
    rw [if_neg h]
  · rfl

theorem importName_none {el : Element} (h : isImport el = false) : importName el = none := by
  unfold importName; unfold isImport at h
  split
  · rename_i name args hv
    rw [hv] at h
    simp only [decide_eq_false_iff_not] at h
    rw [if_neg h]
  · rfl

/-- two tables answer every lookup alike -/
def TEq (g g' : Table) : Prop := ∀ m, g.find m = g'.find m

theorem TEq.val {g g' : Table} (h : TEq g g') (m : Bytes) : g.val m = g'.val m := by
  unfold Table.val; rw [h m]

theorem TEq.nodef {g g' : Table} (h : TEq g g') (hn : Table.NoDef g') : Table.NoDef g := fun m hm => hn m (by rw [← h m]; exact hm)

theorem nodef_pub {g : Table} (hg : Table.NoDef g) : ∀ (A : List (Bytes × Int)), Table.NoDef (pub g A)
  | [] => hg
  | xv :: A => nodef_pub (nodef_pub1 hg xv.1 xv.2) A

theorem find_pub_notin : ∀ (A : List (Bytes × Int)) (g : Table) (x : Bytes), x ∉ A.map Prod.fst → (pub g A).find x = g.find x := by
  intro A
  induction A with
  | nil => intro g x _; rfl
  | cons xv A ih =>
    intro g x hx
    simp only [List.map_cons, List.mem_cons, not_or] at hx
    show (pub (pub1 g xv.1 xv.2) A).find x = _
    rw [ih _ x hx.2, find_pub1, if_neg (fun e => hx.1 e.symm)]

/-- a successful `.export x`: `x` is valued in the file's table, absent from the includer's table, which receives the value -/
theorem export_inv {fs : Bytes → Option Bytes} {enc : Encoder} {inc : Inc} {env : Env} {st st' : St} {el : Element}
    (hg : isExport el = true) (h : statement fs enc inc env st el = .ok (st', .ok)) {t : Table} (hl : st.locals = some t)
    (hnd : Table.NoDef st.globals) :
    ∃ x v, exportName el = some x ∧ t.find x = some (some v) ∧ st.globals.find x = none ∧
      st' = { st with globals := st.globals.set x (some v) } := by
  obtain ⟨line, col, val⟩ := el
  cases val with
  | label n => simp [isExport] at hg
  | instruction n a => simp [isExport] at hg
  | directive name args =>
    simp only [isExport, decide_eq_true_eq] at hg
    subst hg
    simp only [statement, directive_export] at h
    unfold globalDirective at h
    split at h
    · simp only [Out.ok.injEq, Prod.mk.injEq] at h; cases h.2
    · split at h
      · rename_i x hargs
        have hgn : exportName ⟨line, col, .directive (bytesOf "export") args⟩ = some x := by
          simp [exportName, hargs]
        simp only [show (GDir.export_ = GDir.export_) = True from by simp, if_true, getConstant, hl] at h
        cases hf : t.find x with
        | none =>
          simp only [Table.get, hf] at h
          simp only [Out.ok.injEq, Prod.mk.injEq] at h; cases h.2
        | some w =>
          cases w with
          | none =>
            simp [Table.get, hf] at h
          | some v =>
            simp only [Table.get, hf] at h
            unfold insertConstant at h
            by_cases hreg : Front.isRegister x = true
            · simp only [hreg, if_true] at h; cases h
            · simp only [hreg, Bool.false_eq_true, if_false] at h
              cases hgf : st.globals.find x with
              | none =>
                simp only [hgf] at h
                simp only [Out.ok.injEq, Prod.mk.injEq, and_true] at h
                exact ⟨x, v, hgn, hf, hgf, h.symm⟩
              | some w' =>
                cases w' with
                | none => exact absurd hgf (hnd x)
                | some v' =>
                  simp only [hgf] at h
                  simp only [Out.ok.injEq, Prod.mk.injEq] at h; cases h.2
      · simp only [Out.ok.injEq, Prod.mk.injEq] at h; cases h.2
      · cases h

/-- a successful `.import x` of a name the includer's table holds valued: `x` was absent from the file's table, which
receives the includer's value -/
theorem import_inv {fs : Bytes → Option Bytes} {enc : Encoder} {inc : Inc} {env : Env} {st st' : St} {el : Element}
    (hg : isImport el = true) (h : statement fs enc inc env st el = .ok (st', .ok)) {t : Table} (hl : st.locals = some t)
    (hnd : Table.NoDef t) (hav : ∀ x, importName el = some x → ∃ v, st.globals.find x = some (some v)) :
    ∃ x v, importName el = some x ∧ st.globals.find x = some (some v) ∧ t.find x = none ∧
      st' = { st with locals := some (t.set x (some v)) } := by
  obtain ⟨line, col, val⟩ := el
  cases val with
  | label n => simp [isImport] at hg
  | instruction n a => simp [isImport] at hg
  | directive name args =>
    simp only [isImport, decide_eq_true_eq] at hg
    subst hg
    simp only [statement, directive_import] at h
    unfold globalDirective at h
    split at h
    · simp only [Out.ok.injEq, Prod.mk.injEq] at h; cases h.2
    · split at h
      · rename_i x hargs
        have hgn : importName ⟨line, col, .directive (bytesOf "import") args⟩ = some x := by
          simp [importName, hargs]
        obtain ⟨v, hv⟩ := hav x hgn
        simp only [show (GDir.import_ = GDir.export_) = False from by simp, if_false, getConstant, Table.get, hv] at h
        unfold insertConstant at h
        by_cases hreg : Front.isRegister x = true
        · simp only [hreg, if_true] at h; cases h
        · simp only [hreg, Bool.false_eq_true, if_false, hl] at h
          cases hf : t.find x with
          | none =>
            simp only [hf] at h
            simp only [Out.ok.injEq, Prod.mk.injEq, and_true] at h
            exact ⟨x, v, hgn, hv, hf, h.symm⟩
          | some w =>
            cases w with
            | none => exact absurd hf (hnd x)
            | some v' =>
              simp only [hf] at h
              simp only [Out.ok.injEq, Prod.mk.injEq] at h; cases h.2
      · simp only [Out.ok.injEq, Prod.mk.injEq] at h; cases h.2
      · cases h

theorem notGlobal_of_include {el : Element} (hi : isInclude el = true) : isGlobal el = false := by
  unfold isInclude at hi; unfold isGlobal
  split
  · rename_i name args hv; rw [hv] at hi; simp only [decide_eq_true_eq] at hi; subst hi; decide
  · rfl

theorem notExport_of_include {el : Element} (hi : isInclude el = true) : isExport el = false := by
  unfold isInclude at hi; unfold isExport
  split
  · rename_i name args hv; rw [hv] at hi; simp only [decide_eq_true_eq] at hi; subst hi; decide
  · rfl

theorem notImport_of_include {el : Element} (hi : isInclude el = true) : isImport el = false := by
  unfold isInclude at hi; unfold isImport
  split
  · rename_i name args hv; rw [hv] at hi; simp only [decide_eq_true_eq] at hi; subst hi; decide
  · rfl

theorem notExport_of_global {el : Element} (hi : isGlobal el = true) : isExport el = false := by
  unfold isGlobal at hi; unfold isExport
  split
  · rename_i name args hv; rw [hv] at hi; simp only [decide_eq_true_eq] at hi; subst hi; decide
  · rfl

theorem notImport_of_global {el : Element} (hi : isGlobal el = true) : isImport el = false := by
  unfold isGlobal at hi; unfold isImport
  split
  · rename_i name args hv; rw [hv] at hi; simp only [decide_eq_true_eq] at hi; subst hi; decide
  · rfl

theorem notImport_of_export {el : Element} (hi : isExport el = true) : isImport el = false := by
  unfold isExport at hi; unfold isImport
  split
  · rename_i name args hv; rw [hv] at hi; simp only [decide_eq_true_eq] at hi; subst hi; decide
  · rfl


/-! ## the side condition -/

/-- the names an `.include` statement brings into the includer's table -/
def xincNames (fs : Bytes → Option Bytes) (path : Bytes) (el : Element) : List Bytes :=
  match incTarget fs path el with
  | some (_, d') =>
    match parseFile d' with
    | .ok (els', _) => els'.filterMap pubName
    | .stop _ => []
  | none => []

/-- the names a statement leaves valued in its file's table -/
def xNames (fs : Bytes → Option Bytes) (path : Bytes) (el : Element) : List Bytes :=
  (definedName el).toList ++ (importName el).toList ++ (exportName el).toList ++ xincNames fs path el

/-- every `.global x` stands below a definition / import / export / publishing include of `x` in its file; every
`.import x` names something the includer holds valued where it includes the file (`avail`); every included file satisfies
`proj` with the names valued at its `.include` statement -/
def ElsOk (fs : Bytes → Option Bytes) (path : Bytes) (proj : List Bytes → Bytes → Bytes → Prop) (avail : List Bytes) :
    List Bytes → List Element → Prop
  | _, [] => True
  | seen, el :: els =>
    (isGlobal el = true → ∃ x, globalName el = some x ∧ x ∈ seen) ∧
    (isImport el = true → ∃ x, importName el = some x ∧ x ∈ avail) ∧
    (∀ p' d', incTarget fs path el = some (p', d') → proj seen p' d') ∧
    ElsOk fs path proj avail (xNames fs path el ++ seen) els

/-! ## the flattened program -/

inductive XFlat (num : Nat → Bytes → Nat) (fs : Bytes → Option Bytes) (enc : Encoder) (E : Layout.Env) :
    Nat → Nat → Bytes → Table → Nat → Option Nat → List Element → List Layout.Stmt → Nat → Prop
  | nil (pid id : Nat) (path : Bytes) (t : Table) (nxt : Nat) (c : Option Nat) : XFlat num fs enc E pid id path t nxt c [] [] nxt
  | stmt {pid id : Nat} {path : Bytes} {t : Table} {nxt : Nat} {c : Option Nat} {el : Element} {els : List Element}
      {p : List Layout.Stmt} {nxt' : Nat} : isInclude el = false → isGlobal el = false → isExport el = false →
      isImport el = false →
      XFlat num fs enc E pid id path t nxt (Layout.Ref.next c (absStmt (num id) fs enc path t c el)) els p nxt' →
      XFlat num fs enc E pid id path t nxt c (el :: els) (absStmt (num id) fs enc path t c el :: p) nxt'
  | pubs {pid id : Nat} {path : Bytes} {t : Table} {nxt : Nat} {c : Option Nat} {el : Element} {els : List Element}
      {p : List Layout.Stmt} {nxt' : Nat} : (isGlobal el = true ∨ isExport el = true) →
      XFlat num fs enc E pid id path t nxt c els p nxt' → XFlat num fs enc E pid id path t nxt c (el :: els) p nxt'
  | imp {pid id : Nat} {path : Bytes} {t : Table} {nxt : Nat} {c : Option Nat} {el : Element} {els : List Element}
      {p : List Layout.Stmt} {nxt' : Nat} {x : Bytes} {v : Int} : importName el = some x → t.val x = some v →
      XFlat num fs enc E pid id path t nxt c els p nxt' →
      XFlat num fs enc E pid id path t nxt c (el :: els) (.const (num id x) [num pid x] v :: p) nxt'
  | inc {pid id : Nat} {path : Bytes} {t : Table} {nxt : Nat} {c : Option Nat} {el : Element} {els : List Element}
      {p : List Layout.Stmt} {nxt' : Nat} {path' data' : Bytes} {els' : List Element} {perr' : Option ParseErr}
      {t' : Table} {pc : List Layout.Stmt} {nxt1 : Nat} {A : List (Bytes × Int)} :
      incTarget fs path el = some (path', data') → parseFile data' = .ok (els', perr') →
      EnvRel (num nxt) t' E →
      XFlat num fs enc E id nxt path' t' (nxt + 1) c els' pc nxt1 →
      A.map Prod.fst = els'.filterMap pubName → (∀ xv ∈ A, t'.val xv.1 = some xv.2) →
      XFlat num fs enc E pid id path t nxt1 (Layout.Ref.cursorAfter c pc) els p nxt' →
      XFlat num fs enc E pid id path t nxt c (el :: els) (pc ++ (aliases (num id) (num nxt) A ++ p)) nxt'

/-- every statement of a flattened program is the abstraction of a source statement of some file instance over that
instance's table (which is `E` at the instance), or an alias `.const n [d] v` (an `.import`, or a publication) -/
theorem XFlat.source {num : Nat → Bytes → Nat} {fs : Bytes → Option Bytes} {enc : Encoder} {E : Layout.Env} {pid id : Nat}
    {path : Bytes} {t : Table} {nxt : Nat} {c : Option Nat} {els : List Element} {p : List Layout.Stmt} {nxt' : Nat}
    (h : XFlat num fs enc E pid id path t nxt c els p nxt') (ht : EnvRel (num id) t E) :
    ∀ s ∈ p, (∃ id' path' t' c' el, EnvRel (num id') t' E ∧ isInclude el = false ∧
      s = absStmt (num id') fs enc path' t' c' el) ∨ (∃ n d v, s = .const n [d] v) := by
  induction h with
  | nil => intro s hs; cases hs
  | stmt hi _ _ _ _ ih =>
    intro s hs
    rcases List.mem_cons.mp hs with rfl | hs
    · exact .inl ⟨_, _, _, _, _, ht, hi, rfl⟩
    · exact ih ht s hs
  | pubs _ _ ih => exact ih ht
  | imp _ _ _ ih =>
    intro s hs
    rcases List.mem_cons.mp hs with rfl | hs
    · exact .inr ⟨_, _, _, rfl⟩
    · exact ih ht s hs
  | inc _ _ er _ _ _ _ ih1 ih2 =>
    intro s hs
    rcases List.mem_append.mp hs with hs | hs
    · exact ih1 er s hs
    · rcases List.mem_append.mp hs with hs | hs
      · simp only [aliases, List.mem_map] at hs
        obtain ⟨xv, _, rfl⟩ := hs
        exact .inr ⟨_, _, _, rfl⟩
      · exact ih2 ht s hs

/-- `XFlat` in which every ordinary statement is GENUINE over its file's table (`ElGen`): its abstraction is no fallback,
the fresh assembly of an instruction over the table completes and is accepted by the encoder, a `.du*` operand evaluates to
a value in range, strings decode, files exist -/
inductive XFlatS (num : Nat → Bytes → Nat) (fs : Bytes → Option Bytes) (enc : Encoder) (E : Layout.Env) :
    Nat → Nat → Bytes → Table → Nat → Option Nat → List Element → List Layout.Stmt → Nat → Prop
  | nil (pid id : Nat) (path : Bytes) (t : Table) (nxt : Nat) (c : Option Nat) : XFlatS num fs enc E pid id path t nxt c [] [] nxt
  | stmt {pid id : Nat} {path : Bytes} {t : Table} {nxt : Nat} {c : Option Nat} {el : Element} {els : List Element}
      {p : List Layout.Stmt} {nxt' : Nat} : isInclude el = false → isGlobal el = false → isExport el = false →
      isImport el = false → ElGen fs enc path t c el →
      XFlatS num fs enc E pid id path t nxt (Layout.Ref.next c (absStmt (num id) fs enc path t c el)) els p nxt' →
      XFlatS num fs enc E pid id path t nxt c (el :: els) (absStmt (num id) fs enc path t c el :: p) nxt'
  | pubs {pid id : Nat} {path : Bytes} {t : Table} {nxt : Nat} {c : Option Nat} {el : Element} {els : List Element}
      {p : List Layout.Stmt} {nxt' : Nat} : (isGlobal el = true ∨ isExport el = true) →
      XFlatS num fs enc E pid id path t nxt c els p nxt' → XFlatS num fs enc E pid id path t nxt c (el :: els) p nxt'
  | imp {pid id : Nat} {path : Bytes} {t : Table} {nxt : Nat} {c : Option Nat} {el : Element} {els : List Element}
      {p : List Layout.Stmt} {nxt' : Nat} {x : Bytes} {v : Int} : importName el = some x → t.val x = some v →
      XFlatS num fs enc E pid id path t nxt c els p nxt' →
      XFlatS num fs enc E pid id path t nxt c (el :: els) (.const (num id x) [num pid x] v :: p) nxt'
  | inc {pid id : Nat} {path : Bytes} {t : Table} {nxt : Nat} {c : Option Nat} {el : Element} {els : List Element}
      {p : List Layout.Stmt} {nxt' : Nat} {path' data' : Bytes} {els' : List Element} {perr' : Option ParseErr}
      {t' : Table} {pc : List Layout.Stmt} {nxt1 : Nat} {A : List (Bytes × Int)} :
      incTarget fs path el = some (path', data') → parseFile data' = .ok (els', perr') →
      EnvRel (num nxt) t' E →
      XFlatS num fs enc E id nxt path' t' (nxt + 1) c els' pc nxt1 →
      A.map Prod.fst = els'.filterMap pubName → (∀ xv ∈ A, t'.val xv.1 = some xv.2) →
      XFlatS num fs enc E pid id path t nxt1 (Layout.Ref.cursorAfter c pc) els p nxt' →
      XFlatS num fs enc E pid id path t nxt c (el :: els) (pc ++ (aliases (num id) (num nxt) A ++ p)) nxt'

theorem XFlatS.toXFlat {num : Nat → Bytes → Nat} {fs : Bytes → Option Bytes} {enc : Encoder} {E : Layout.Env} {pid id : Nat}
    {path : Bytes} {t : Table} {nxt : Nat} {c : Option Nat} {els : List Element} {p : List Layout.Stmt} {nxt' : Nat}
    (h : XFlatS num fs enc E pid id path t nxt c els p nxt') : XFlat num fs enc E pid id path t nxt c els p nxt' := by
  induction h with
  | nil => exact .nil ..
  | stmt h1 h2 h3 h4 _ _ ih => exact .stmt h1 h2 h3 h4 ih
  | pubs h1 _ ih => exact .pubs h1 ih
  | imp h1 h2 _ ih => exact .imp h1 h2 ih
  | inc h1 h2 h3 _ h5 h6 _ ih1 ih2 => exact .inc h1 h2 h3 ih1 h5 h6 ih2

/-- every ordinary statement of a strong flattening, with the file instance it belongs to: genuine over that instance's
table, which is `E` at the instance -/
theorem XFlatS.source {num : Nat → Bytes → Nat} {fs : Bytes → Option Bytes} {enc : Encoder} {E : Layout.Env} {pid id : Nat}
    {path : Bytes} {t : Table} {nxt : Nat} {c : Option Nat} {els : List Element} {p : List Layout.Stmt} {nxt' : Nat}
    (h : XFlatS num fs enc E pid id path t nxt c els p nxt') (ht : EnvRel (num id) t E) :
    ∀ s ∈ p, (∃ id' path' t' c' el, EnvRel (num id') t' E ∧ isInclude el = false ∧ ElGen fs enc path' t' c' el ∧
      s = absStmt (num id') fs enc path' t' c' el) ∨ (∃ n d v, s = .const n [d] v) := by
  induction h with
  | nil => intro s hs; cases hs
  | stmt hi _ _ _ hg _ ih =>
    intro s hs
    rcases List.mem_cons.mp hs with rfl | hs
    · exact .inl ⟨_, _, _, _, _, ht, hi, hg, rfl⟩
    · exact ih ht s hs
  | pubs _ _ ih => exact ih ht
  | imp _ _ _ ih =>
    intro s hs
    rcases List.mem_cons.mp hs with rfl | hs
    · exact .inr ⟨_, _, _, rfl⟩
    · exact ih ht s hs
  | inc _ _ er _ _ _ _ ih1 ih2 =>
    intro s hs
    rcases List.mem_append.mp hs with hs | hs
    · exact ih1 er s hs
    · rcases List.mem_append.mp hs with hs | hs
      · simp only [aliases, List.mem_map] at hs
        obtain ⟨xv, _, rfl⟩ := hs
        exact .inr ⟨_, _, _, rfl⟩
      · exact ih2 ht s hs

/-! ## the recursive call -/

def XIncSim (num : Nat → Bytes → Nat) (enc : Encoder) (fs : Bytes → Option Bytes) (inc : Inc)
    (proj : List Bytes → Bytes → Bytes → Prop) : Prop :=
  ∀ (env : Env) (st st' : St) (data path : Bytes) (pid id : Nat) (l : Layout.State) (tP : Table) (avail : List Bytes),
    proj avail path data → Good true st → env.paths.isEmpty = false → R st.seg l →
    st.locals = some tP → Table.NoDef tP → EnvRel (num pid) tP l.env → pid < id →
    (∀ x ∈ avail, ∃ v, tP.find x = some (some v)) →
    (∀ j n, id ≤ j → l.env.get (num j n) = none) →
    inc env st data path = .ok (st', .ok) → st'.errors = [] →
    ∃ els perr t pc l1 l2 A la id' tP', parseFile data = .ok (els, perr) ∧ id < id' ∧
      MRun (withTasks [] l) pc l1 ∧ Layout.runTasks (withTasks [] l1) l1.tasks = .ok l2 ∧
      MRun (withTasks l.tasks l2) (aliases (num pid) (num id) A) la ∧ la.tasks = l.tasks ∧
      R st'.seg la ∧ st'.locals = some tP' ∧ TEq tP' (pub tP A) ∧ Table.NoDef tP' ∧ EnvRel (num pid) tP' la.env ∧
      st'.localTasks = st.localTasks ∧ st'.globals = st.globals ∧
      st'.globalTasks = st.globalTasks ∧ cursor st' = Layout.Ref.cursorAfter (cursor st) pc ∧
      (∀ s ∈ pc, s.wf = true) ∧
      (∀ j n, j ≠ pid → (j < id ∨ id' ≤ j) → la.env.get (num j n) = l.env.get (num j n)) ∧
      (∀ E : Layout.Env, (∀ j n, id ≤ j → j < id' → E.get (num j n) = la.env.get (num j n)) →
        EnvRel (num id) t E ∧ XFlatS num fs enc E pid id path t (id + 1) (cursor st) els pc id') ∧
      A.map Prod.fst = els.filterMap pubName ∧ (∀ xv ∈ A, t.val xv.1 = some xv.2)

section
variable {num : Nat → Bytes → Nat} {enc : Encoder} {t₂ : Table} {G : List Task}

/-! ## the statement loop -/

theorem doAssemble_sim (hinj : NumInj num) (henc : EncLen enc) (fs : Bytes → Option Bytes) (inc : Inc)
    (proj : List Bytes → Bytes → Bytes → Prop) (hincs : XIncSim num enc fs inc proj) (hinc : IncOk inc) (hincg : IncGrew inc)
    (hincr : IncRel inc) (env : Env) (path : Bytes) (rest : List Bytes) (henv : env.paths = path :: rest)
    (perr : Option ParseErr) (pid id : Nat) (hpid : pid < id) (Gt₀ : Table) (hGn : Table.NoDef Gt₀) (avail : List Bytes)
    (hav : ∀ x ∈ avail, ∃ v, Gt₀.find x = some (some v)) :
    ∀ (els : List Element) (st stf : St) (l : Layout.State) (nxt : Nat) (seen : List Bytes) (A : List (Bytes × Int)) (Gt : Table),
      ElsOk fs path proj avail seen els →
      Multi.Sim (num id) enc t₂ G Gt st l → TEq Gt (pub Gt₀ A) → PubOk Gt₀ A → (∀ xv ∈ A, xv.1 ∈ seen) →
      EnvRel (num pid) Gt₀ l.env →
      (∀ x ∈ seen, ∀ t, st.locals = some t → ∃ v, t.find x = some (some v)) →
      id < nxt → (∀ j n, nxt ≤ j → l.env.get (num j n) = none) →
      doAssemble fs enc inc env els perr st = .ok (stf, .ok) → stf.errors = [] → stf.locals = some t₂ →
      ∃ p lf nxt' A' Gt', nxt ≤ nxt' ∧ MRun l p lf ∧ Multi.Sim (num id) enc t₂ G Gt' stf lf ∧
        TEq Gt' (pub Gt₀ (A ++ A')) ∧ PubOk Gt₀ (A ++ A') ∧ (∀ xv ∈ A', t₂.val xv.1 = some xv.2) ∧
        A'.map Prod.fst = els.filterMap pubName ∧ EnvRel (num pid) Gt₀ lf.env ∧
        cursor stf = Layout.Ref.cursorAfter (cursor st) p ∧ (∀ s ∈ p, s.wf = true) ∧
        (∀ j n, j ≠ id → (j < nxt ∨ nxt' ≤ j) → lf.env.get (num j n) = l.env.get (num j n)) ∧
        QSub st stf ∧
        (∀ E : Layout.Env, (∀ j n, nxt ≤ j → j < nxt' → E.get (num j n) = lf.env.get (num j n)) →
          (∀ qf, stf.localTasks = some qf → ∀ task ∈ qf, GenTask enc t₂ task) →
          XFlatS num fs enc E pid id path t₂ nxt (cursor st) els p nxt') := by
  have henv' : env.paths.isEmpty = false := by rw [henv]; rfl
  intro els
  induction els with
  | nil =>
    intro st stf l nxt seen A Gt _ sim hte hpo _ hP _ _ _ h herr hfin
    cases perr with
    | none =>
      simp only [doAssemble] at h; cases h
      exact ⟨[], l, nxt, [], Gt, Nat.le_refl _, .nil l, sim, by rw [List.append_nil]; exact hte,
        by rw [List.append_nil]; exact hpo, fun _ hx => (by cases hx), rfl, hP, rfl, fun _ hs => (by cases hs),
        fun _ _ _ _ => rfl, QSub.refl _, fun E _ _ => .nil ..⟩
    | some e => simp only [doAssemble] at h; cases h
  | cons el els ih =>
    intro st stf l nxt seen A Gt hok sim hte hpo hAs hP hseen hid hfresh h herr hfin
    simp only [doAssemble] at h
    split at h
    · rename_i st1 hs
      obtain ⟨hokg, hoki, hokinc, hok'⟩ := hok
      have g1 := (doAssemble_grew hincg perr els st1 stf _ h)
      have herr1 : st1.errors = [] := (grew_nil g1 herr).1
      obtain ⟨t, hl, hnd, hsub, henvr⟩ := sim.tbl
      have hT : ∀ t', st1.locals = some t' → Table.Sub t' t₂ := by
        intro t' ht'
        obtain ⟨C, C', hC, hC', le, _⟩ := (doAssemble_rel hincr perr els st1 t' ht' _ _ h).tabs
        rw [ht'] at hC; cases hC
        rw [hfin] at hC'; cases hC'
        exact le
      have good1 := ((statement_safe henc hinc sim.good henv' fs el).2 _ _ hs).1
      obtain ⟨C0, C1, hC0, hC1, hle01, _⟩ := (statement_rel hincr hl _ _ hs).tabs
      rw [hl] at hC0; cases hC0
      have hGtn : Table.NoDef Gt := hte.nodef (nodef_pub hGn A)
      have hAs' : ∀ xv ∈ A, xv.1 ∈ xNames fs path el ++ seen := fun xv hxv => List.mem_append_right _ (hAs xv hxv)
      have hseen1 : (∀ x ∈ xincNames fs path el, ∃ v, C1.find x = some (some v)) →
          (∀ x ∈ (importName el).toList ++ (exportName el).toList, ∃ v, C1.find x = some (some v)) →
          ∀ x ∈ xNames fs path el ++ seen, ∀ t', st1.locals = some t' → ∃ v, t'.find x = some (some v) := by
        intro hincn hie x hx t' ht'
        rw [hC1] at ht'; cases ht'
        have hold : x ∈ seen → ∃ v, C1.find x = some (some v) := fun hxs => by
          obtain ⟨v, hv⟩ := hseen x hxs t hl
          exact ⟨v, hle01 x v hv⟩
        simp only [xNames, List.mem_append] at hx
        rcases hx with (((hx | hx) | hx) | hx) | hx
        · cases hdn : definedName el with
          | none => rw [hdn] at hx; cases hx
          | some y =>
            rw [hdn] at hx
            simp only [Option.toList_some, List.mem_singleton] at hx
            subst hx
            obtain ⟨l', v, e1, e2⟩ := defined_valued hdn hs
            rw [hC1] at e1; cases e1
            exact ⟨v, e2⟩
        · exact hie x (List.mem_append_left _ hx)
        · exact hie x (List.mem_append_right _ hx)
        · exact hincn x hx
        · exact hold hx
      have hnoinc : isInclude el = false → ∀ x ∈ xincNames fs path el, ∃ v, C1.find x = some (some v) := by
        intro hi' x hx
        simp only [xincNames, incTarget_none hi'] at hx
        cases hx
      have hnoie : isImport el = false → isExport el = false →
          ∀ x ∈ (importName el).toList ++ (exportName el).toList, ∃ v, C1.find x = some (some v) := by
        intro h1 h2 x hx
        simp only [importName_none h1, exportName_none h2, Option.toList_none, List.append_nil] at hx
        cases hx
      by_cases hi : isInclude el = true
      · -- a complete included file
        obtain ⟨p', d', htgt, hcall⟩ := include_inv henv hi hs
        obtain ⟨q, hq, hqr⟩ := sim.tasks
        have hig := notGlobal_of_include hi
        have hie := notExport_of_include hi
        have hii := notImport_of_include hi
        obtain ⟨els', perr', t', pc, l1, l2, Ac, la, id', tP', hparse, hlt, hm, hrt, hal, hlat, hR, e1, hte1, hnd1, henvr1, e2, e3,
            e4, hcur, hwf, hframe, hflat, hAn, hAv⟩ :=
          hincs env st st1 d' p' id nxt l t seen (hokinc _ _ htgt) sim.good henv' sim.r hl hnd henvr hid
            (fun x hx => hseen x hx t hl) hfresh hcall herr1
        have sim1 : Multi.Sim (num id) enc t₂ G Gt st1 la :=
          ⟨good1, hR, ⟨_, e1, hnd1, hT _ e1, henvr1⟩,
            ⟨q, by rw [e2]; exact hq, by rw [hlat]; exact hqr⟩, ⟨e4.trans sim.gl.1, e3.trans sim.gl.2⟩⟩
        have hfresh1 : ∀ j n, id' ≤ j → la.env.get (num j n) = none := fun j n hj => by
          rw [hframe j n (by omega) (.inr hj)]; exact hfresh j n (by omega)
        have hP1 : EnvRel (num pid) Gt₀ la.env := fun m => by
          rw [hframe pid m (by omega) (.inl (by omega))]; exact hP m
        obtain ⟨p, lf, nxt', A', Gt', hle, hm2, simf, hte', hpo', hAv', hAn', hPf, hcurf, hwf2, hframe2, hq2, hflat2⟩ :=
          ih st1 stf la id' _ A Gt hok' sim1 hte hpo hAs' hP1 (hseen1 (fun x hx => by
              simp only [xincNames, htgt, hparse] at hx
              rw [e1] at hC1; cases hC1
              obtain ⟨v, hv⟩ := pub_valued Ac t x (.inl (by rw [hAn]; exact hx))
              exact ⟨v, by rw [hte1 x]; exact hv⟩) (hnoie hii hie)) (by omega) hfresh1 h herr hfin
        refine ⟨pc ++ (aliases (num id) (num nxt) Ac ++ p), lf, nxt', A', Gt', by omega, .file hm hrt (MRun.append hal hm2), simf,
          hte', hpo', hAv', ?_, hPf, ?_, ?_, ?_, (QSub.of_eq e2).trans hq2, ?_⟩
        · simp only [List.filterMap_cons, pubName, globalName_none hig, exportName_none hie]; exact hAn'
        · rw [Layout.cursorAfter_append, Layout.cursorAfter_append, cursorAfter_aliases, ← hcur]; exact hcurf
        · intro s hs'
          rcases List.mem_append.mp hs' with hs' | hs'
          · exact hwf s hs'
          · rcases List.mem_append.mp hs' with hs' | hs'
            · exact aliases_wf _ _ _ s hs'
            · exact hwf2 s hs'
        · intro j n hj hjr
          rw [hframe2 j n hj (by omega)]
          exact hframe j n hj (by omega)
        · intro E hE hGen
          have hEc : ∀ j n, nxt ≤ j → j < id' → E.get (num j n) = la.env.get (num j n) := fun j n h1 h2 => by
            rw [hE j n h1 (by omega)]
            exact hframe2 j n (by omega) (.inl h2)
          obtain ⟨er, fl⟩ := hflat E hEc
          refine .inc htgt hparse er fl hAn hAv ?_
          rw [← hcur]
          exact hflat2 E (fun j n h1 h2 => hE j n (by omega) h2) hGen
      · have hi' : isInclude el = false := by simpa using hi
        by_cases hg : isGlobal el = true
        · -- `.global x` with `x` valued
          have hge := notExport_of_global hg
          have hgi := notImport_of_global hg
          obtain ⟨x, hx0, hx0s⟩ := hokg hg
          have hfound : ∀ y, globalName el = some y → ∃ v, t.find y = some (some v) := by
            intro y hy
            rw [hx0] at hy; cases hy
            exact hseen x hx0s t hl
          obtain ⟨x', v, hgn, hv, hgf, hst1⟩ := global_inv hg hs hl hfound
          have hxx : x = x' := by rw [hx0] at hgn; exact Option.some.inj hgn
          subst hxx
          have hgf' : (pub Gt₀ A).find x = none := by rw [← hte x, ← sim.gl.2]; exact hgf
          have hte1 : TEq (pub1 Gt x v) (pub Gt₀ (A ++ [(x, v)])) := fun m => by
            rw [pub_snoc, find_pub1, find_pub1, hte m]
          have hpo1 : PubOk Gt₀ (A ++ [(x, v)]) := pubOk_snoc _ _ _ _ hpo hgf'
          have sim1 : Multi.Sim (num id) enc t₂ G (pub1 Gt x v) st1 l :=
            ⟨good1, by rw [hst1]; exact sim.r, ⟨t, by rw [hst1]; exact hl, hnd, hsub, henvr⟩,
              by rw [hst1]; exact sim.tasks, ⟨by rw [hst1]; exact sim.gl.1, by rw [hst1, ← sim.gl.2]⟩⟩
          have hcur1 : cursor st1 = cursor st := by rw [hst1]; rfl
          have hAs1 : ∀ xv ∈ A ++ [(x, v)], xv.1 ∈ xNames fs path el ++ seen := by
            intro xv hxv
            rcases List.mem_append.mp hxv with hxv | hxv
            · exact hAs' xv hxv
            · simp only [List.mem_singleton] at hxv; subst hxv
              exact List.mem_append_right _ hx0s
          obtain ⟨p, lf, nxt', A', Gt', hle, hm2, simf, hte', hpo', hAv', hAn', hPf, hcurf, hwf2, hframe2, hq2, hflat2⟩ :=
            ih st1 stf l nxt _ (A ++ [(x, v)]) _ hok' sim1 hte1 hpo1 hAs1 hP (hseen1 (hnoinc hi') (hnoie hgi hge)) hid hfresh h herr hfin
          refine ⟨p, lf, nxt', (x, v) :: A', Gt', hle, hm2, simf, ?_, ?_, ?_, ?_, hPf, by rw [← hcur1]; exact hcurf, hwf2, hframe2,
            (QSub.of_eq (by rw [hst1])).trans hq2, ?_⟩
          · rw [show A ++ (x, v) :: A' = (A ++ [(x, v)]) ++ A' by simp]; exact hte'
          · rw [show A ++ (x, v) :: A' = (A ++ [(x, v)]) ++ A' by simp]; exact hpo'
          · intro xv hxv
            rcases List.mem_cons.mp hxv with rfl | hxv
            · simp only [Table.val, hsub x v hv]
            · exact hAv' xv hxv
          · simp only [List.filterMap_cons, pubName, hx0, List.map_cons, hAn']
          · intro E hE hGen
            refine .pubs (.inl hg) ?_
            rw [← hcur1]
            exact hflat2 E hE hGen
        · have hg' : isGlobal el = false := by simpa using hg
          by_cases hx : isExport el = true
          · -- `.export x`
            have hxi := notImport_of_export hx
            obtain ⟨x, v, hgn, hv, hgf, hst1⟩ := export_inv hx hs hl (by rw [sim.gl.2]; exact hGtn)
            have hgf' : (pub Gt₀ A).find x = none := by rw [← hte x, ← sim.gl.2]; exact hgf
            have hte1 : TEq (Gt.set x (some v)) (pub Gt₀ (A ++ [(x, v)])) := fun m => by
              rw [pub_snoc, find_pub1, find_set, hte m]
            have hpo1 : PubOk Gt₀ (A ++ [(x, v)]) := pubOk_snoc _ _ _ _ hpo hgf'
            have sim1 : Multi.Sim (num id) enc t₂ G (Gt.set x (some v)) st1 l :=
              ⟨good1, by rw [hst1]; exact sim.r, ⟨t, by rw [hst1]; exact hl, hnd, hsub, henvr⟩,
                by rw [hst1]; exact sim.tasks, ⟨by rw [hst1]; exact sim.gl.1, by rw [hst1, ← sim.gl.2]⟩⟩
            have hcur1 : cursor st1 = cursor st := by rw [hst1]; rfl
            have hC1t : C1 = t := by rw [hst1] at hC1; rw [hl] at hC1; cases hC1; rfl
            have hAs1 : ∀ xv ∈ A ++ [(x, v)], xv.1 ∈ xNames fs path el ++ seen := by
              intro xv hxv
              rcases List.mem_append.mp hxv with hxv | hxv
              · exact hAs' xv hxv
              · simp only [List.mem_singleton] at hxv; subst hxv
                refine List.mem_append_left _ ?_
                simp [xNames, hgn]
            obtain ⟨p, lf, nxt', A', Gt', hle, hm2, simf, hte', hpo', hAv', hAn', hPf, hcurf, hwf2, hframe2, hq2, hflat2⟩ :=
              ih st1 stf l nxt _ (A ++ [(x, v)]) _ hok' sim1 hte1 hpo1 hAs1 hP (hseen1 (hnoinc hi') (fun y hy => by
                  simp only [importName_none hxi, hgn, Option.toList_none, Option.toList_some, List.nil_append,
                    List.mem_singleton] at hy
                  subst hy; rw [hC1t]; exact ⟨v, hv⟩)) hid hfresh h herr hfin
            refine ⟨p, lf, nxt', (x, v) :: A', Gt', hle, hm2, simf, ?_, ?_, ?_, ?_, hPf, by rw [← hcur1]; exact hcurf, hwf2, hframe2,
              (QSub.of_eq (by rw [hst1])).trans hq2, ?_⟩
            · rw [show A ++ (x, v) :: A' = (A ++ [(x, v)]) ++ A' by simp]; exact hte'
            · rw [show A ++ (x, v) :: A' = (A ++ [(x, v)]) ++ A' by simp]; exact hpo'
            · intro xv hxv
              rcases List.mem_cons.mp hxv with rfl | hxv
              · simp only [Table.val, hsub x v hv]
              · exact hAv' xv hxv
            · simp only [List.filterMap_cons, pubName, globalName_none hg', hgn, List.map_cons, hAn']
            · intro E hE hGen
              refine .pubs (.inr hx) ?_
              rw [← hcur1]
              exact hflat2 E hE hGen
          · have hx' : isExport el = false := by simpa using hx
            by_cases hm : isImport el = true
            · -- `.import x` of a name the includer holds valued
              obtain ⟨x, hx0, hx0a⟩ := hoki hm
              obtain ⟨v0, hv0⟩ := hav x hx0a
              have havail : ∀ y, importName el = some y → ∃ v, st.globals.find y = some (some v) := by
                intro y hy
                rw [hx0] at hy; cases hy
                obtain ⟨w, hw⟩ := pub_valued A Gt₀ x (.inr ⟨v0, hv0⟩)
                exact ⟨w, by rw [sim.gl.2, hte x]; exact hw⟩
              obtain ⟨x', v, hgn, hgv, hf, hst1⟩ := import_inv hm hs hl hnd havail
              have hxx : x = x' := by rw [hx0] at hgn; exact Option.some.inj hgn
              subst hxx
              have hxA : x ∉ A.map Prod.fst := by
                intro hin
                obtain ⟨xv, hxv, hxe⟩ := List.mem_map.mp hin
                obtain ⟨w, hw⟩ := hseen xv.1 (hAs xv hxv) t hl
                rw [hxe, hf] at hw; cases hw
              have hG0 : Gt₀.find x = some (some v) := by
                rw [← find_pub_notin A Gt₀ x hxA, ← hte x, ← sim.gl.2]; exact hgv
              have hpx : l.env.get (num pid x) = some v := by rw [hP x]; simp [Table.val, hG0]
              have hget : l.env.get (num id x) = none := by rw [henvr x, val_none_of_find hf]
              have hdep : l.env.hasAll [num pid x] = true := by simp [Layout.Env.hasAll, hpx]
              let l1 : Layout.State := { l with env := (num id x, v) :: l.env }
              have hstep : Layout.step l (.const (num id x) [num pid x] v) = .ok l1 := by
                simp only [Layout.step, hdep, if_true, Layout.insertConst, hget]
                rfl
              have hne : ∀ j n, j ≠ id → num id x ≠ num j n := fun j n hj e => hj (hinj _ _ _ _ e).1.symm
              have henv1 : ∀ j n, j ≠ id → l1.env.get (num j n) = l.env.get (num j n) := fun j n hj => by
                show Layout.Env.get ((num id x, v) :: l.env) (num j n) = _
                simp only [Layout.Env.get, if_neg (hne j n hj)]
              have sim1 : Multi.Sim (num id) enc t₂ G Gt st1 l1 :=
                ⟨good1, by rw [hst1]; exact sim.r,
                  ⟨t.set x (some v), by rw [hst1], Table.nodef_set hnd x v, hT _ (by rw [hst1]),
                    envRel_insert (hinj.inj id) henvr x v⟩,
                  by rw [hst1]; exact sim.tasks, ⟨by rw [hst1]; exact sim.gl.1, by rw [hst1]; exact sim.gl.2⟩⟩
              have hcur1 : cursor st1 = cursor st := by rw [hst1]; rfl
              have hC1t : C1 = t.set x (some v) := by rw [hst1] at hC1; cases hC1; rfl
              obtain ⟨p, lf, nxt', A', Gt', hle, hm2, simf, hte', hpo', hAv', hAn', hPf, hcurf, hwf2, hframe2, hq2, hflat2⟩ :=
                ih st1 stf l1 nxt _ A Gt hok' sim1 hte hpo hAs' (fun m => by rw [henv1 pid m (by omega)]; exact hP m)
                  (hseen1 (hnoinc hi') (fun y hy => by
                    simp only [hx0, exportName_none hx', Option.toList_none, Option.toList_some, List.append_nil,
                      List.mem_singleton] at hy
                    subst hy; rw [hC1t]; exact ⟨v, by rw [find_set]; simp⟩)) hid
                  (fun j n hj => by rw [henv1 j n (by omega)]; exact hfresh j n hj) h herr hfin
              refine ⟨_ :: p, lf, nxt', A', Gt', hle, .step hstep hm2, simf, hte', hpo', hAv', ?_, hPf, ?_, ?_, ?_,
                (QSub.of_eq (by rw [hst1])).trans hq2, ?_⟩
              · simp only [List.filterMap_cons, pubName, globalName_none hg', exportName_none hx']; exact hAn'
              · simp only [Layout.Ref.cursorAfter, Layout.Ref.next]; rw [← hcur1]; exact hcurf
              · intro s hs'
                rcases List.mem_cons.mp hs' with rfl | hs'
                · rfl
                · exact hwf2 s hs'
              · intro j n hj hjr
                rw [hframe2 j n hj hjr, henv1 j n hj]
              · intro E hE hGen
                have hv2 : t₂.val x = some v := by
                  have := hT (t.set x (some v)) (by rw [hst1]) x v (by rw [find_set]; simp)
                  simp only [Table.val, this]
                refine .imp hx0 hv2 ?_
                rw [← hcur1]
                exact hflat2 E hE hGen
            · -- an ordinary statement
              have hm' : isImport el = false := by simpa using hm
              have hokel := okEl_of4 hi' hg' hx' hm'
              obtain ⟨l1, s1, s2, s3⟩ := Multi.statement_sim (hinj.inj id) henc sim fs inc env path henv el hokel hs herr1 hT
              have sim1 : Multi.Sim (num id) enc t₂ G Gt st1 l1 := ⟨good1, s2.r, s2.tbl, s2.tasks, s2.gl⟩
              have henv1 : ∀ j n, j ≠ id → l1.env.get (num j n) = l.env.get (num j n) := fun j n hj =>
                Layout.step_env_raw l l1 _ s1 _ (fun hd => by
                  obtain ⟨m, hm⟩ := defines_absStmt (num id) fs path t₂ (cursor st) el _ hd
                  exact hj (hinj _ _ _ _ hm).1)
              have hfate := Multi.statement_fate (hinj.inj id) henc sim fs inc env path henv el hokel hs herr1 hT
              have hq1 : QSub st st1 := statement_qsub hokel _ _ hs
              obtain ⟨p, lf, nxt', A', Gt', hle, hm2, simf, hte', hpo', hAv', hAn', hPf, hcurf, hwf2, hframe2, hq2, hflat2⟩ :=
                ih st1 stf l1 nxt _ A Gt hok' sim1 hte hpo hAs' (fun m => by rw [henv1 pid m (by omega)]; exact hP m)
                  (hseen1 (hnoinc hi') (hnoie hm' hx')) hid
                  (fun j n hj => by rw [henv1 j n (by omega)]; exact hfresh j n hj) h herr hfin
              refine ⟨_ :: p, lf, nxt', A', Gt', hle, .step s1 hm2, simf, hte', hpo', hAv', ?_, hPf, ?_, ?_, ?_, hq1.trans hq2, ?_⟩
              · simp only [List.filterMap_cons, pubName, globalName_none hg', exportName_none hx']; exact hAn'
              · simp only [Layout.Ref.cursorAfter]; rw [← s3]; exact hcurf
              · intro s hs'
                rcases List.mem_cons.mp hs' with rfl | hs'
                · exact absStmt_wf' henc ..
                · exact hwf2 s hs'
              · intro j n hj hjr
                rw [hframe2 j n hj hjr, henv1 j n hj]
              · intro E hE hGen
                -- the statement is genuine: now, or because the task it queued was run when the file ended
                have hmem : ∀ q task, st1.localTasks = some (q ++ [task]) → GenTask enc t₂ task := by
                  intro q task hq
                  obtain ⟨new, hnew⟩ := hq2 _ hq
                  exact hGen _ hnew task (by simp)
                have hgen : ElGen fs enc path t₂ (cursor st) el := by
                  refine ElGenW.mono (fun x tpl args hI => ?_) (fun du a hD => ?_) hfate
                  · rcases hI with hI | ⟨q, i, t₁, c, hq, haddr, hs', hn', hf⟩
                    · exact hI
                    · have := hmem q _ hq tpl args t₁ c hs' hn' (by rw [haddr]; exact hf)
                      rw [haddr] at this; exact this
                  · rcases hD with hD | ⟨q, d, t₁, n, hq, hdu, hs', hn', hf⟩
                    · exact hD
                    · have := hmem q _ hq a t₁ n hs' hn' hf
                      rw [hdu] at this; exact this
                refine .stmt hi' hg' hx' hm' hgen ?_
                rw [← s3]
                exact hflat2 E hE hGen
    · cases h
    · cases h

/-! ## a whole file -/

theorem fileBody_sim (hinj : NumInj num) (henc : EncLen enc) (fs : Bytes → Option Bytes) (inc : Inc)
    (proj : List Bytes → Bytes → Bytes → Prop) (hincs : XIncSim num enc fs inc proj) (hinc : IncOk inc) (hincg : IncGrew inc)
    (hincr : IncRel inc) (env1 : Env) (path : Bytes) (rest : List Bytes) (henv : env1.paths = path :: rest)
    (data : Bytes) (pid id : Nat) (hpid : pid < id) (st2 st4 : St) (res : Res) (l2 : Layout.State) (avail : List Bytes)
    (hproj : ∀ els perr, parseFile data = .ok (els, perr) → ElsOk fs path proj avail [] els)
    (good : Good true st2) (r : R st2.seg l2) (hloc : st2.locals = some []) (hlt : st2.localTasks = some [])
    (hlk : l2.tasks = []) (hfresh : ∀ j n, id ≤ j → l2.env.get (num j n) = none)
    (hgn : Table.NoDef st2.globals) (hgr : EnvRel (num pid) st2.globals l2.env)
    (hav : ∀ x ∈ avail, ∃ v, st2.globals.find x = some (some v))
    (h : fileBody fs enc inc env1 data st2 = .ok (st4, res)) (herr : st4.errors = []) :
    ∃ els perr t p l3 l4 A id', parseFile data = .ok (els, perr) ∧ id < id' ∧ res = .ok ∧
      MRun l2 p l3 ∧ Layout.runTasks (withTasks [] l3) l3.tasks = .ok l4 ∧
      Good true st4 ∧ TEq st4.globals (pub st2.globals A) ∧ Table.NoDef st4.globals ∧
      st4.globalTasks = st2.globalTasks ∧
      st4.localTasks = some [] ∧ st4.locals = some t ∧
      cursor st4 = Layout.Ref.cursorAfter (cursor st2) p ∧ (∀ s ∈ p, s.wf = true) ∧
      A.map Prod.fst = els.filterMap pubName ∧ (∀ xv ∈ A, t.val xv.1 = some xv.2) ∧
      (∀ T : List Layout.Task, ∃ la, MRun (withTasks T l4) (aliases (num pid) (num id) A) la ∧ la.tasks = T ∧
        R st4.seg la ∧ EnvRel (num pid) st4.globals la.env ∧
        (∀ j n, j ≠ pid → (j < id ∨ id' ≤ j) → la.env.get (num j n) = l2.env.get (num j n)) ∧
        (∀ E : Layout.Env, (∀ j n, id ≤ j → j < id' → E.get (num j n) = la.env.get (num j n)) →
          EnvRel (num id) t E ∧ XFlatS num fs enc E pid id path t (id + 1) (cursor st2) els p id')) ∧
      Table.NoDef t := by
  have henv' : env1.paths.isEmpty = false := by rw [henv]; rfl
  obtain ⟨els, perr, hparse⟩ := parseFile_cases data
  have hfb' := h
  unfold fileBody at hfb'
  rw [hparse] at hfb'
  simp only at hfb'
  cases hda : doAssemble fs enc inc env1 els perr st2 with
  | stop x => rw [hda] at hfb'; cases hfb'
  | ok w =>
    obtain ⟨st3, res3⟩ := w
    rw [hda] at hfb'
    simp only at hfb'
    have gda := doAssemble_grew hincg perr els _ st3 res3 hda
    by_cases hfat : res3 = .err .fatal
    · exfalso
      rw [if_pos hfat] at hfb'
      cases hfb'
      subst hfat
      exact absurd (grew_nil gda herr).2 (by simp)
    · rw [if_neg hfat] at hfb'
      cases htk : st3.localTasks with
      | none => rw [htk] at hfb'; cases hfb'
      | some tasks =>
        rw [htk] at hfb'
        simp only at hfb'
        have gll := (localLoop_grew _ _ _ _ _ _ hfb').1
        have herr3 : st3.errors = [] := by
          rw [herr] at gll
          exact List.eq_nil_of_length_eq_zero (by simpa using gll)
        have hres3 : res3 = .ok := by
          have := (grew_nil gda herr3).2
          cases res3 with
          | ok => rfl
          | err lv => simp at this
        subst hres3
        obtain ⟨C, t₂, hC, ht₂, _, _⟩ := (doAssemble_rel hincr perr els st2 [] hloc _ _ hda).tabs
        have sim2 : Multi.Sim (num id) enc t₂ st2.globalTasks st2.globals st2 l2 :=
          ⟨good, r, ⟨[], hloc, fun n hh => by simp [Table.find] at hh, fun n v hh => by simp [Table.find] at hh,
              fun n => by rw [hfresh id n (Nat.le_refl _)]; rfl⟩,
            ⟨[], hlt, by rw [hlk]; trivial⟩, ⟨rfl, rfl⟩⟩
        obtain ⟨p, lf, id', A, Gt', hle, hm, f2, hte, hpo, hAv, hAn, hPf, hcur, hwf, hframe, _, hflat⟩ :=
          doAssemble_sim (t₂ := t₂) hinj henc fs inc proj hincs hinc hincg hincr env1 path rest henv perr pid id hpid st2.globals
            hgn avail hav els st2 st3 l2 (id + 1) [] [] st2.globals (hproj els perr hparse) sim2 (fun _ => rfl) trivial
            (fun x hx => by cases hx) hgr (fun x hx => by cases hx) (Nat.lt_succ_self _)
            (fun j n hj => hfresh j n (by omega)) hda herr3 ht₂
        rw [List.nil_append] at hte hpo
        obtain ⟨t, e1, e2, _, e4⟩ := f2.tbl
        rw [ht₂] at e1; cases e1
        obtain ⟨qq, q1, q2⟩ := f2.tasks
        rw [htk] at q1; cases q1
        have gc := (good_clearLocal f2.good).1
        have tsim : Multi.TSim (num id) t₂ st2.globalTasks Gt' { st3 with localTasks := some [] } (withTasks [] lf) :=
          ⟨gc, f2.r, ht₂, e2, e4, rfl, f2.gl⟩
        have hrounds : rounds = 6 + 2 := rfl
        rw [hrounds] at hfb'
        obtain ⟨l4, g1, g2, g3, g5⟩ := Multi.localLoop_sim' henc env1 henv' 6 tasks lf.tasks _ st4 _ res tsim q2
          (fun t m => f2.good.lt tasks htk t m) hfb' herr
        have hres : res = .ok := by
          have := (localLoop_grew _ _ _ _ _ _ hfb').2
          cases res with
          | ok => rfl
          | err lv =>
            exfalso
            rcases this rfl with h1 | h1
            · simp [Res.isErr] at h1
            · rw [herr, herr3] at h1; simp at h1
        have he4 : l4.env = lf.env := Layout.runTasks_env _ (withTasks [] lf) l4 g1
        have hte4 : TEq st4.globals (pub st2.globals A) := by rw [g2.gl.2]; exact hte
        refine ⟨els, perr, t₂, p, lf, l4, A, id', hparse, by omega, hres, hm, g1, g2.good, hte4, hte4.nodef (nodef_pub hgn A),
          g2.gl.1, g2.lq, g2.loc, by rw [← hcur]; exact g3, hwf, hAn, hAv, fun T => ?_, g2.nodef⟩
        have hgr4 : EnvRel (num pid) st2.globals (withTasks T l4).env := by
          intro n
          show l4.env.get (num pid n) = _
          rw [he4]; exact hPf n
        obtain ⟨la, a1, a2, a3, a4, a5, _, a7⟩ := alias_steps (num pid) (num id) (hinj.inj pid) A st2.globals (withTasks T l4) hpo hgn
          hgr4 (fun xv hxv => by
            show l4.env.get (num id xv.1) = _
            rw [g2.env xv.1]; exact hAv xv hxv)
          (fun a b hab => by have := (hinj _ _ _ _ hab).1; omega)
        have hother : ∀ j n, j ≠ pid → la.env.get (num j n) = l4.env.get (num j n) := fun j n hj =>
          a7 _ (fun x hx => hj (hinj _ _ _ _ hx).1)
        refine ⟨la, a1, a4, ⟨fun k => by rw [a2]; exact g2.r.1 k, by rw [a3]; exact g2.r.2⟩,
          fun m => by rw [a5 m, hte4.val m], fun j n hj hjr => ?_, fun E hE => ?_⟩
        · rw [hother j n hj, he4]
          exact hframe j n (by omega) (by omega)
        · have hE' : ∀ j n, id ≤ j → j < id' → E.get (num j n) = l4.env.get (num j n) := fun j n h1 h2 => by
            rw [hE j n h1 h2, hother j n (by omega)]
          refine ⟨fun n => ?_, hflat E (fun j n h1 h2 => by rw [hE' j n (by omega) h2, he4])
            (fun qf hqf task htask => g5 task (by rw [htk] at hqf; cases hqf; exact htask))⟩
          rw [hE' id n (Nat.le_refl _) (by omega)]
          exact g2.env n

/-- every file of the include tree below (`path`, `data`), to depth `fuel`, given the names `avail` its includer holds
valued at the `.include` statement: `ElsOk` -/
def XferProject (fs : Bytes → Option Bytes) : Nat → List Bytes → Bytes → Bytes → Prop
  | 0, _, _, _ => True
  | fuel + 1, avail, path, data => ∀ els perr, parseFile data = .ok (els, perr) →
      ElsOk fs path (XferProject fs fuel) avail [] els

theorem assembleFile_sim (hinj : NumInj num) (henc : EncLen enc) (fs : Bytes → Option Bytes) :
    ∀ fuel, XIncSim num enc fs (assembleFile fs enc fuel) (XferProject fs fuel) := by
  intro fuel
  induction fuel with
  | zero => intro env st st' data path pid id l tP avail _ _ _ _ _ _ _ _ _ _ h _; simp [assembleFile] at h
  | succ fuel ih =>
    intro env st st' data path pid id l tP avail hproj good henv r hlP hndP hrP hpid havP hfresh h herr
    have hinc : IncOk (assembleFile fs enc fuel) := fun env st data path g => assembleFile_safe henc fs fuel true env st data path g
    simp only [assembleFile, List.length_cons, Nat.add_one_ne_zero, if_false, ne_eq, not_true_eq_false] at h
    obtain ⟨c, t, hc, ht, he⟩ := enterFile_true good
    rw [hlP] at hc; cases hc
    rw [he] at h
    simp only at h
    have g2 : Good true { st with locals := some [], globals := tP, localTasks := some [], globalTasks := t } :=
      ⟨good.inv, fun t' m => good.lt t ht t' m, fun l e t' m => (by cases e; simp at m), good.ltab tP hlP,
        fun l e => (by cases e; exact tableOk_nil), fun _ => ⟨rfl, rfl⟩, fun e => by cases e⟩
    split at h
    · rename_i st4 res hf
      simp only [Out.ok.injEq, Prod.mk.injEq] at h
      obtain ⟨hst, hres⟩ := h
      subst hres
      have herr4 : st4.errors = [] := by rw [← hst] at herr; exact herr
      obtain ⟨els, perr, tt, p, l3, l4, A, id', hparse, hlt, _, hm, hrt, g4, e1, hnd, e2, e3, e4, hcur, hwf, hAn, hAv, hal, _⟩ :=
        fileBody_sim hinj henc fs (assembleFile fs enc fuel) (XferProject fs fuel) ih hinc (assembleFile_grew fs enc fuel)
          (assembleFile_rel fs enc fuel) ⟨path :: env.paths, path⟩ path env.paths rfl data pid id hpid _ st4 _ (withTasks [] l)
          avail hproj g2 r rfl rfl rfl hfresh hndP hrP havP hf herr4
      obtain ⟨la, a1, a2, a3, a4, a5, a6⟩ := hal l.tasks
      refine ⟨els, perr, tt, p, l3, l4, A, la, id', st4.globals, hparse, hlt, hm, hrt, a1, a2, ?_, ?_, e1, hnd, a4, ?_, ?_, ?_, ?_,
        hwf, a5, a6, hAn, hAv⟩
      · rw [← hst]; exact a3
      · rw [← hst]; rfl
      · rw [← hst]; simp only [leaveFile]; rw [e2, ht]
      · rw [← hst]; rfl
      · rw [← hst]; rfl
      · rw [← hst]; exact hcur
    · cases h

end

end Trion.Asm.Xfer
