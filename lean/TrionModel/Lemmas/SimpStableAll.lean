import TrionModel.Lemmas.SimpNF
import TrionModel.Lemmas.AsmRetrySim
/-!
# The retry condition holds for EVERY operand tree

`evaluate` is idempotent (`Simp.evaluateE_idempotent`, Lemmas/SimpNF.lean), so every value a first attempt completes is a
fixed point of `evaluate`: the exact tree-level retry condition `LeftStable` (Lemmas/SimpStable.lean) holds for every
tree, and the retry theorems of Lemmas/SimpRetry.lean / AsmRetry.lean lose their side condition `plain`.
-/
namespace Trion.Simp
open Trion

theorem leftStable_all_both (lk₁ lk₂ : Bytes → Lookup) (isReg : Bytes → Bool) (hn : NoDef lk₁) :
    (∀ a, LeftStable lk₁ lk₂ isReg a) ∧ (∀ as, LeftStableArgs lk₁ lk₂ isReg as) := by
  have key : ∀ x e x', evaluateE lk₁ isReg x = .ok e x' → StableAt lk₂ isReg x' := fun x e x' h =>
    ⟨⟨false, none⟩, evaluateE_idempotent h (evaluateE_cause_none hn h) lk₂, rfl⟩
  apply Arg.ind2
  case const => intro v; simp [LeftStable]
  case ident => intro v; simp [LeftStable]
  case str => intro v; simp [LeftStable]
  case bin =>
    intro op l r ihl ihr
    simp only [LeftStable]
    exact ⟨ihl, ihr, fun e l' _ _ h1 _ => key l e l' h1⟩
  case neg => intro v ih; simp only [LeftStable]; exact ih
  case not => intro v ih; simp only [LeftStable]; exact ih
  case addr => intro v ih; simp only [LeftStable]; exact ih
  case seq => intro as ih; simp only [LeftStable]; exact ih
  case func => intro f as ih; simp only [LeftStable]; exact ih
  case nil => simp [LeftStableArgs]
  case cons =>
    intro a as iha ihas
    simp only [LeftStableArgs]
    exact ⟨iha, ihas, fun e a' _ _ h1 _ => key a e a' h1⟩

/-- every operand tree satisfies the exact retry condition -/
theorem leftStable_all {lk₁ : Bytes → Lookup} (lk₂ : Bytes → Lookup) {isReg : Bytes → Bool} (hn : NoDef lk₁) (a : Arg) :
    LeftStable lk₁ lk₂ isReg a := (leftStable_all_both lk₁ lk₂ isReg hn).1 a

/-- **the structural retry theorem, for every tree**: evaluating the tree that a stopped first attempt over `lk₁` left
behind over a larger table `lk₂` is (up to the `changed` flag) evaluating the original tree over `lk₂` -/
theorem resumes_all {lk₁ lk₂ : Bytes → Lookup} {isReg : Bytes → Bool} (hs : Sub lk₁ lk₂) (hn : NoDef lk₁) (a : Arg) :
    Resumes lk₁ lk₂ isReg a := leftStable_resumes hs hn (leftStable_all lk₂ hn a)

end Trion.Simp

namespace Trion.Asm
open Trion

theorem leftStableArg_all {t₁ : Table} (t₂ : Table) (hn : Table.NoDef t₁) (a : Arg) : LeftStableArg t₁ t₂ a :=
  Simp.leftStable_all _ (Table.nodef_get hn) a

/-- the retry of one operand, for every tree -/
theorem data_retry_all {t₁ t₂ : Table} (hs : Table.Sub t₁ t₂) (hn : Table.NoDef t₁) {a : Arg} {n : Bytes} {a₁ : Arg}
    (h : evalIn t₁ a = .ok (.noSuch n a₁)) : evalIn t₂ a₁ = evalIn t₂ a :=
  data_retry_stable hs hn (leftStableArg_all t₂ hn a) h

theorem grows_all {t₁ t₂ : Table} (hs : Table.Sub t₁ t₂) (hn : Table.NoDef t₁) (a : Arg) :
    Front.Grows (frontEval t₁) (frontEval t₂) a := grows_stable hs hn (leftStableArg_all t₂ hn a)

/-- `assemble_retry` for the evaluators of `Asm`, for every operand tree -/
theorem assemble_retry_tables_all {t₁ t₂ : Table} (hs : Table.Sub t₁ t₂) (hn : Table.NoDef t₁) (addr : Nat) (t : Instr)
    (args : List Arg) (fs1 : Front.St) (c : Bytes)
    (h1 : Front.assemble ⟨addr, t, 0, args⟩ (frontEval t₁) true = (fs1, .deferred c)) (loc : Bool) :
    Front.assemble fs1 (frontEval t₂) loc = Front.assemble ⟨addr, t, 0, args⟩ (frontEval t₂) loc :=
  Front.assemble_retry _ _ addr t args (fun a _ => grows_all hs hn a) fs1 c h1 loc

end Trion.Asm
