import TrionModel.Lemmas.CodecTab
namespace Trion.Codec
/-- halfwords 0x0000 … 0x1fff, evaluated by the kernel -/
theorem chkBlock0 : chkBlock 0 32 := by decide +kernel
end Trion.Codec
