import TrionModel.Lemmas.C06Undef
import TrionModel.Lemmas.SimpBasic
/-!
# an expression that mentions an undefined name never evaluates (syntactic criterion)

`mentions n a`: the identifier `n` occurs somewhere in the tree `a`.  If `n` is not a register name and the table has
no entry for it (`lookup n = NotFound`), then `evaluate` of any tree that mentions `n` does not return `Ok`: it stops
with `NoSuchVariable` (of the first undefined name met), leaving a tree that STILL mentions `n` — so every retry fails the
same way —, or with an evaluation error met before.
-/
namespace Trion.Simp
open Trion

mutual
/-- the identifier `n` occurs in the tree -/
def mentions (n : Bytes) : Arg → Bool
  | .const _ => false
  | .ident s => decide (s = n)
  | .str _ => false
  | .bin _ l r => mentions n l || mentions n r
  | .neg a => mentions n a
  | .not a => mentions n a
  | .addr a => mentions n a
  | .seq as => mentionsL n as
  | .func _ as => mentionsL n as
def mentionsL (n : Bytes) : Args → Bool
  | .nil => false
  | .cons a as => mentions n a || mentionsL n as
end

/-- the evaluation did not return `Ok`, and a `NoSuchVariable` leaves a tree that still mentions `n` -/
def StuckE (n : Bytes) : EvE Arg → Prop
  | .ok _ _ => False
  | .nosuch _ a' => mentions n a' = true
  | .err _ _ => True
  | .panic => True

def StuckEs (n : Bytes) : EvE Args → Prop
  | .ok _ _ => False
  | .nosuch _ a' => mentionsL n a' = true
  | .err _ _ => True
  | .panic => True

theorem stuck_unary (lk : Bytes → Lookup) (isReg : Bytes → Bool) (n : Bytes) (v : Arg) (f : Arg → Arg)
    (hf : ∀ x, mentions n (f x) = mentions n x) (ih : StuckE n (evaluateE lk isReg v)) :
    StuckE n (match evaluateE lk isReg v with
      | .ok e1 v' => afterRawE e1 (f v')
      | .nosuch m v' => .nosuch m (f v')
      | .err e v' => .err e (f v')
      | .panic => .panic) := by
  cases h1 : evaluateE lk isReg v with
  | ok e1 v' => rw [h1] at ih; exact ih.elim
  | nosuch m v' => rw [h1] at ih; simp only [StuckE, hf]; exact ih
  | err e t => trivial
  | panic => trivial

theorem evaluateE_mentions (lk : Bytes → Lookup) (isReg : Bytes → Bool) (n : Bytes) (hr : isReg n = false)
    (hl : lk n = .notFound) :
    (∀ a, mentions n a = true → StuckE n (evaluateE lk isReg a)) ∧
    (∀ as, mentionsL n as = true → StuckEs n (evaluateArgsE lk isReg as)) := by
  apply Arg.ind2
  case const => intro v h; simp [mentions] at h
  case str => intro v h; simp [mentions] at h
  case ident =>
    intro s h
    have : s = n := by simpa [mentions] using h
    subst this
    simp [evaluateE, hr, hl, StuckE, mentions]
  case bin =>
    intro op l r ihl ihr h
    simp only [mentions, Bool.or_eq_true] at h
    simp only [evaluateE]
    cases h1 : evaluateE lk isReg l with
    | ok e1 l' =>
      have hml : mentions n l = false := by
        cases hm : mentions n l with
        | false => rfl
        | true => have := ihl hm; rw [h1] at this; exact this.elim
      have hmr : mentions n r = true := by rcases h with h | h; (· rw [hml] at h; cases h); exact h
      have w := ihr hmr
      cases h2 : evaluateE lk isReg r with
      | ok e2 r' => rw [h2] at w; exact w.elim
      | nosuch m r' => rw [h2] at w; simp only [StuckE, mentions, Bool.or_eq_true]; exact .inr w
      | err e t => trivial
      | panic => trivial
    | nosuch m l' =>
      simp only [StuckE, mentions, Bool.or_eq_true]
      rcases h with h | h
      · have := ihl h; rw [h1] at this; exact .inl this
      · exact .inr h
    | err e t => trivial
    | panic => trivial
  case neg => intro v ih h; simp only [evaluateE]; exact stuck_unary lk isReg n v .neg (fun _ => by simp [mentions]) (ih (by simpa [mentions] using h))
  case not => intro v ih h; simp only [evaluateE]; exact stuck_unary lk isReg n v .not (fun _ => by simp [mentions]) (ih (by simpa [mentions] using h))
  case addr => intro v ih h; simp only [evaluateE]; exact stuck_unary lk isReg n v .addr (fun _ => by simp [mentions]) (ih (by simpa [mentions] using h))
  case seq =>
    intro as ih h
    have w := ih (by simpa [mentions] using h)
    simp only [evaluateE]
    cases h1 : evaluateArgsE lk isReg as with
    | ok ev as' => rw [h1] at w; exact w.elim
    | nosuch m as' => rw [h1] at w; simpa [StuckE, StuckEs, mentions] using w
    | err e t => trivial
    | panic => trivial
  case func =>
    intro f as ih h
    have w := ih (by simpa [mentions] using h)
    simp only [evaluateE]
    cases h1 : evaluateArgsE lk isReg as with
    | ok ev as' => rw [h1] at w; exact w.elim
    | nosuch m as' => rw [h1] at w; simpa [StuckE, StuckEs, mentions] using w
    | err e t => trivial
    | panic => trivial
  case nil => intro h; simp [mentionsL] at h
  case cons =>
    intro a as iha ihas h
    simp only [mentionsL, Bool.or_eq_true] at h
    simp only [evaluateArgsE]
    cases h1 : evaluateE lk isReg a with
    | ok e1 a' =>
      have hml : mentions n a = false := by
        cases hm : mentions n a with
        | false => rfl
        | true => have := iha hm; rw [h1] at this; exact this.elim
      have hmr : mentionsL n as = true := by rcases h with h | h; (· rw [hml] at h; cases h); exact h
      have w := ihas hmr
      cases h2 : evaluateArgsE lk isReg as with
      | ok e2 r' => rw [h2] at w; exact w.elim
      | nosuch m r' => rw [h2] at w; simp only [StuckEs, mentionsL, Bool.or_eq_true]; exact .inr w
      | err e t => trivial
      | panic => trivial
    | nosuch m a' =>
      simp only [StuckEs, mentionsL, Bool.or_eq_true]
      rcases h with h | h
      · have := iha h; rw [h1] at this; exact .inl this
      · exact .inr h
    | err e t => trivial
    | panic => trivial

end Trion.Simp
