import TrionModel.Lemmas.CodecTac
/-! Round trip `RT` of the 32-bit encoder arms (MSR, MRS, DSB, DMB, ISB, UDF.W, BL). -/
namespace Trion.Codec
open Trion

theorem rt_dmb : RT .dmb := by
  intro hws h _; simp only [encode] at h; cases h
  right; exact ⟨_, _, rfl, by omega, by omega, by omega, by omega, by rfl⟩

theorem rt_dsb : RT .dsb := by
  intro hws h _; simp only [encode] at h; cases h
  right; exact ⟨_, _, rfl, by omega, by omega, by omega, by omega, by rfl⟩

theorem rt_isb : RT .isb := by
  intro hws h _; simp only [encode] at h; cases h
  right; exact ⟨_, _, rfl, by omega, by omega, by omega, by omega, by rfl⟩

theorem rt_udfw (v : Int) : RT (.udfw v) := by
  intro hws h wf; simp only [Instr.wf] at wf; simp only [encode] at h; cases h
  right; refine ⟨_, _, rfl, by omega, by omega, by omega, by omega, ?_⟩
  dec32; fin_eq

theorem rt_msr (s : SysReg) (r : Reg) : RT (.msr s r) := by
  have := r.isLt; have := SysReg.toNat_le s
  intro hws h wf; simp only [encode, unrep] at h
  split at h
  · cases h
  · cases h
    right; refine ⟨_, _, rfl, by omega, by omega, by omega, by omega, ?_⟩
    have e : (0x8800 + s.toNat) % 256 = s.toNat := by omega
    dec32
    rw [e, SysReg.ofNat?_toNat]
    simp [Fin.ext_iff]; omega

theorem rt_mrs (r : Reg) (s : SysReg) : RT (.mrs r s) := by
  have := r.isLt; have := SysReg.toNat_le s
  intro hws h wf; simp only [encode, unrep] at h
  split at h
  · cases h
  · cases h
    right; refine ⟨_, _, rfl, by omega, by omega, by omega, by omega, ?_⟩
    have e : (0x8000 + r.val * 256 + s.toNat) % 256 = s.toNat := by omega
    dec32
    rw [e, SysReg.ofNat?_toNat]
    simp [Fin.ext_iff]; omega

/-- BL: decompose the offset once as `-2^24·s + 2^23·i1 + 2^22·i2 + 2^12·m + 2·l`, normalise the emitted
halfwords, then 8 Boolean cases of plain arithmetic. -/
theorem rt_bl (off : Int) : RT (.bl off) := by
  intro hws h _; simp only [encode, unrep] at h
  split at h
  · cases h
  · rename_i g
    obtain ⟨s, i1, i2, m, l, hs, hi1, hi2, hm, hl, rfl⟩ : ∃ s i1 i2 m l : Nat, s < 2 ∧ i1 < 2 ∧ i2 < 2 ∧ m < 1024 ∧ l < 2048 ∧
        off = -16777216*(s:Int) + 8388608*(i1:Int) + 4194304*(i2:Int) + 4096*(m:Int) + 2*(l:Int) := by
      refine ⟨if off < 0 then 1 else 0, ((off / 8388608) % 2).toNat, ((off / 4194304) % 2).toNat,
        ((off / 4096) % 1024).toNat, ((off / 2) % 2048).toNat, ?_, ?_, ?_, ?_, ?_, ?_⟩
      all_goals (first | omega | (split <;> omega))
    have e0 : (if -16777216*(s:Int) + 8388608*(i1:Int) + 4194304*(i2:Int) + 4096*(m:Int) + 2*(l:Int) < 0 then 1 else 0 : Nat) = s := by
      split <;> omega
    have e1 : ((-16777216*(s:Int) + 8388608*(i1:Int) + 4194304*(i2:Int) + 4096*(m:Int) + 2*(l:Int)) / 8388608 % 2).toNat = i1 := by omega
    have e2 : ((-16777216*(s:Int) + 8388608*(i1:Int) + 4194304*(i2:Int) + 4096*(m:Int) + 2*(l:Int)) / 4194304 % 2).toNat = i2 := by omega
    have e3 : ((-16777216*(s:Int) + 8388608*(i1:Int) + 4194304*(i2:Int) + 4096*(m:Int) + 2*(l:Int)) / 4096 % 1024).toNat = m := by omega
    have e4 : ((-16777216*(s:Int) + 8388608*(i1:Int) + 4194304*(i2:Int) + 4096*(m:Int) + 2*(l:Int)) / 2 % 2048).toNat = l := by omega
    simp only [e0, e1, e2, e3, e4] at h
    have hs' : s = 0 ∨ s = 1 := by omega
    have hi1' : i1 = 0 ∨ i1 = 1 := by omega
    have hi2' : i2 = 0 ∨ i2 = 1 := by omega
    rcases hs' with rfl | rfl <;> rcases hi1' with rfl | rfl <;> rcases hi2' with rfl | rfl <;>
    · simp (config := {decide := true}) at h
      cases h
      right; refine ⟨_, _, rfl, by omega, by omega, by omega, by omega, ?_⟩
      dec32
      simp <;> omega

end Trion.Codec
