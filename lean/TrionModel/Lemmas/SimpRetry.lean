import TrionModel.Lemmas.SimpE
import TrionModel.Lemmas.SimpBasic
/-!
# `evaluate` over a growing constant table: monotonicity and the structural retry lemma

`lk₁ ⊆ lk₂` (`Sub`): every name that has a value in `lk₁` has the same value in `lk₂`; `NoDef lk`: no name is
`Deferred` (inside one file without `.global/.import` no table entry is ever `None`).

* `evaluateE_mono`: an evaluation that completes over `lk₁` gives the same result over `lk₂`;
* `evaluateE_cause_none`: without deferred names an `Ok` is `Complete`;
* `Resumes lk₁ lk₂ a`: when `evaluate` over `lk₁` stops at an unknown name and leaves the tree `a₁`, evaluating `a₁`
  over `lk₂` has the same outcome (up to the `changed` flag, which no caller reads) as evaluating the original `a`
  over `lk₂`.  The two computations differ only in that the sub-trees left of the unknown name have already been
  evaluated — so the statement holds whenever these already evaluated results are fixed points of `evaluate`;
* `plain_resumes`: this is so for the syntactic class `plain` (every sub-tree that is completed before the stop is a
  leaf, register-free arithmetic — whose value is a constant —, or `Rn + c` / `c + Rn`);
* `resumes_old_witness`: the tree on which it used to fail (`0 - (r1 - r0)` ↦ `-(r1 - r0)` ↦ `r0 - r1`, before the repair K5);
  Lemmas/SimpNF.lean / SimpStableAll.lean now prove `Resumes` for every tree.
-/
namespace Trion.Simp
open Trion

def Sub (lk₁ lk₂ : Bytes → Lookup) : Prop := ∀ s v, lk₁ s = .found v → lk₂ s = .found v

def NoDef (lk : Bytes → Lookup) : Prop := ∀ s, lk s ≠ .deferred

/-- the outcome without the `changed` flag -/
def EvE.forget {α : Type} : EvE α → EvE α
  | .ok ev a => .ok ⟨false, ev.cause⟩ a
  | r => r

theorem afterRawE_forget (ev ev' : Ev) (a : Arg) (h : ev.cause = ev'.cause) :
    (afterRawE ev a).forget = (afterRawE ev' a).forget := by
  unfold afterRawE
  cases simplifyRawE a with
  | ok p => simp [EvE.forget, Ev.or, h]
  | err e t => rfl
  | panic => rfl

theorem afterRawE_cause (ev ev' : Ev) (a a' : Arg) (h : afterRawE ev a = .ok ev' a') : ev'.cause = ev.cause := by
  unfold afterRawE at h
  split at h
  · cases h; simp [Ev.or]
  · cases h
  · cases h

/-- the two outcomes agree up to the flag -/
theorem forget_eq_cases {α : Type} {r₁ r₂ : EvE α} (h : r₁.forget = r₂.forget) :
    (∃ e₁ e₂ a, r₁ = .ok e₁ a ∧ r₂ = .ok e₂ a ∧ e₁.cause = e₂.cause) ∨
    ((∀ e a, r₁ ≠ .ok e a) ∧ r₁ = r₂) := by
  cases r₁ with
  | ok e1 a1 =>
    cases r₂ with
    | ok e2 a2 =>
      simp only [EvE.forget, EvE.ok.injEq, Ev.mk.injEq, true_and] at h
      obtain ⟨h1, h2⟩ := h
      subst h2
      exact .inl ⟨e1, e2, a1, rfl, rfl, h1⟩
    | nosuch n a => simp [EvE.forget] at h
    | err e a => simp [EvE.forget] at h
    | panic => simp [EvE.forget] at h
  | nosuch n a =>
    cases r₂ with
    | ok e2 a2 => simp [EvE.forget] at h
    | _ => exact .inr ⟨fun _ _ => by simp, h⟩
  | err e a =>
    cases r₂ with
    | ok e2 a2 => simp [EvE.forget] at h
    | _ => exact .inr ⟨fun _ _ => by simp, h⟩
  | panic =>
    cases r₂ with
    | ok e2 a2 => simp [EvE.forget] at h
    | _ => exact .inr ⟨fun _ _ => by simp, h⟩

/-! ## monotonicity -/

theorem evaluateE_mono_both (lk₁ lk₂ : Bytes → Lookup) (isReg : Bytes → Bool) (hs : Sub lk₁ lk₂) (hn : NoDef lk₁) :
    (∀ a ev a', evaluateE lk₁ isReg a = .ok ev a' → evaluateE lk₂ isReg a = .ok ev a') ∧
    (∀ as ev as', evaluateArgsE lk₁ isReg as = .ok ev as' → evaluateArgsE lk₂ isReg as = .ok ev as') := by
  apply Arg.ind2
  case const => intro v ev a' h; exact h
  case ident =>
    intro s ev a' h
    simp only [evaluateE] at h ⊢
    split
    · rename_i hr; simp only [hr, if_true] at h; exact h
    · rename_i hr
      simp only [hr] at h
      cases hl : lk₁ s with
      | notFound => rw [hl] at h; cases h
      | deferred => exact absurd hl (hn s)
      | found v => rw [hl] at h; rw [hs s v hl]; exact h
  case str => intro v ev a' h; exact h
  case bin =>
    intro op l r ihl ihr ev a' h
    simp only [evaluateE] at h ⊢
    cases h1 : evaluateE lk₁ isReg l with
    | ok e1 l' =>
      rw [h1] at h
      cases h2 : evaluateE lk₁ isReg r with
      | ok e2 r' => rw [h2] at h; rw [ihl _ _ h1, ihr _ _ h2]; exact h
      | nosuch n r' => rw [h2] at h; cases h
      | err e t => rw [h2] at h; cases h
      | panic => rw [h2] at h; cases h
    | nosuch n l' => rw [h1] at h; cases h
    | err e t => rw [h1] at h; cases h
    | panic => rw [h1] at h; cases h
  case neg =>
    intro v ih ev a' h
    simp only [evaluateE] at h ⊢
    cases h1 : evaluateE lk₁ isReg v with
    | ok e1 l' => rw [h1] at h; rw [ih _ _ h1]; exact h
    | nosuch n l' => rw [h1] at h; cases h
    | err e t => rw [h1] at h; cases h
    | panic => rw [h1] at h; cases h
  case not =>
    intro v ih ev a' h
    simp only [evaluateE] at h ⊢
    cases h1 : evaluateE lk₁ isReg v with
    | ok e1 l' => rw [h1] at h; rw [ih _ _ h1]; exact h
    | nosuch n l' => rw [h1] at h; cases h
    | err e t => rw [h1] at h; cases h
    | panic => rw [h1] at h; cases h
  case addr =>
    intro v ih ev a' h
    simp only [evaluateE] at h ⊢
    cases h1 : evaluateE lk₁ isReg v with
    | ok e1 l' => rw [h1] at h; rw [ih _ _ h1]; exact h
    | nosuch n l' => rw [h1] at h; cases h
    | err e t => rw [h1] at h; cases h
    | panic => rw [h1] at h; cases h
  case seq =>
    intro as ih ev a' h
    simp only [evaluateE] at h ⊢
    cases h1 : evaluateArgsE lk₁ isReg as with
    | ok e1 l' => rw [h1] at h; rw [ih _ _ h1]; exact h
    | nosuch n l' => rw [h1] at h; cases h
    | err e t => rw [h1] at h; cases h
    | panic => rw [h1] at h; cases h
  case func =>
    intro f as ih ev a' h
    simp only [evaluateE] at h ⊢
    cases h1 : evaluateArgsE lk₁ isReg as with
    | ok e1 l' => rw [h1] at h; rw [ih _ _ h1]; exact h
    | nosuch n l' => rw [h1] at h; cases h
    | err e t => rw [h1] at h; cases h
    | panic => rw [h1] at h; cases h
  case nil => intro ev as' h; exact h
  case cons =>
    intro a as iha ihas ev as' h
    simp only [evaluateArgsE] at h ⊢
    cases h1 : evaluateE lk₁ isReg a with
    | ok e1 l' =>
      rw [h1] at h
      cases h2 : evaluateArgsE lk₁ isReg as with
      | ok e2 r' => rw [h2] at h; rw [iha _ _ h1, ihas _ _ h2]; exact h
      | nosuch n r' => rw [h2] at h; cases h
      | err e t => rw [h2] at h; cases h
      | panic => rw [h2] at h; cases h
    | nosuch n l' => rw [h1] at h; cases h
    | err e t => rw [h1] at h; cases h
    | panic => rw [h1] at h; cases h

/-- an evaluation that completes over a table completes, with the same tree, over every larger table -/
theorem evaluateE_mono {lk₁ lk₂ : Bytes → Lookup} {isReg : Bytes → Bool} (hs : Sub lk₁ lk₂) (hn : NoDef lk₁)
    {a : Arg} {ev : Ev} {a' : Arg} (h : evaluateE lk₁ isReg a = .ok ev a') : evaluateE lk₂ isReg a = .ok ev a' :=
  (evaluateE_mono_both lk₁ lk₂ isReg hs hn).1 a ev a' h

/-! ## without deferred names an `Ok` is `Complete` -/

theorem evaluateE_cause_both (lk : Bytes → Lookup) (isReg : Bytes → Bool) (hn : NoDef lk) :
    (∀ a ev a', evaluateE lk isReg a = .ok ev a' → ev.cause = none) ∧
    (∀ as ev as', evaluateArgsE lk isReg as = .ok ev as' → ev.cause = none) := by
  apply Arg.ind2
  case const => intro v ev a' h; simp only [evaluateE] at h; cases h; rfl
  case ident =>
    intro s ev a' h
    simp only [evaluateE] at h
    split at h
    · cases h; rfl
    · cases hl : lk s with
      | notFound => rw [hl] at h; cases h
      | deferred => exact absurd hl (hn s)
      | found v => rw [hl] at h; cases h; rfl
  case str => intro v ev a' h; simp only [evaluateE] at h; cases h; rfl
  case bin =>
    intro op l r ihl ihr ev a' h
    simp only [evaluateE] at h
    cases h1 : evaluateE lk isReg l with
    | ok e1 l' =>
      rw [h1] at h
      cases h2 : evaluateE lk isReg r with
      | ok e2 r' =>
        rw [h2] at h
        rw [afterRawE_cause _ _ _ _ h]
        simp [Ev.or, ihl _ _ h1, ihr _ _ h2]
      | nosuch n r' => rw [h2] at h; cases h
      | err e t => rw [h2] at h; cases h
      | panic => rw [h2] at h; cases h
    | nosuch n l' => rw [h1] at h; cases h
    | err e t => rw [h1] at h; cases h
    | panic => rw [h1] at h; cases h
  case neg =>
    intro v ih ev a' h
    simp only [evaluateE] at h
    cases h1 : evaluateE lk isReg v with
    | ok e1 l' => rw [h1] at h; rw [afterRawE_cause _ _ _ _ h]; exact ih _ _ h1
    | nosuch n l' => rw [h1] at h; cases h
    | err e t => rw [h1] at h; cases h
    | panic => rw [h1] at h; cases h
  case not =>
    intro v ih ev a' h
    simp only [evaluateE] at h
    cases h1 : evaluateE lk isReg v with
    | ok e1 l' => rw [h1] at h; rw [afterRawE_cause _ _ _ _ h]; exact ih _ _ h1
    | nosuch n l' => rw [h1] at h; cases h
    | err e t => rw [h1] at h; cases h
    | panic => rw [h1] at h; cases h
  case addr =>
    intro v ih ev a' h
    simp only [evaluateE] at h
    cases h1 : evaluateE lk isReg v with
    | ok e1 l' => rw [h1] at h; rw [afterRawE_cause _ _ _ _ h]; exact ih _ _ h1
    | nosuch n l' => rw [h1] at h; cases h
    | err e t => rw [h1] at h; cases h
    | panic => rw [h1] at h; cases h
  case seq =>
    intro as ih ev a' h
    simp only [evaluateE] at h
    cases h1 : evaluateArgsE lk isReg as with
    | ok e1 l' => rw [h1] at h; cases h; exact ih _ _ h1
    | nosuch n l' => rw [h1] at h; cases h
    | err e t => rw [h1] at h; cases h
    | panic => rw [h1] at h; cases h
  case func =>
    intro f as ih ev a' h
    simp only [evaluateE] at h
    cases h1 : evaluateArgsE lk isReg as with
    | ok e1 l' => rw [h1] at h; cases h; exact ih _ _ h1
    | nosuch n l' => rw [h1] at h; cases h
    | err e t => rw [h1] at h; cases h
    | panic => rw [h1] at h; cases h
  case nil => intro ev as' h; simp only [evaluateArgsE] at h; cases h; rfl
  case cons =>
    intro a as iha ihas ev as' h
    simp only [evaluateArgsE] at h
    cases h1 : evaluateE lk isReg a with
    | ok e1 l' =>
      rw [h1] at h
      cases h2 : evaluateArgsE lk isReg as with
      | ok e2 r' => rw [h2] at h; cases h; simp [Ev.or, iha _ _ h1, ihas _ _ h2]
      | nosuch n r' => rw [h2] at h; cases h
      | err e t => rw [h2] at h; cases h
      | panic => rw [h2] at h; cases h
    | nosuch n l' => rw [h1] at h; cases h
    | err e t => rw [h1] at h; cases h
    | panic => rw [h1] at h; cases h

theorem evaluateE_cause_none {lk : Bytes → Lookup} {isReg : Bytes → Bool} (hn : NoDef lk) {a : Arg} {ev : Ev} {a' : Arg}
    (h : evaluateE lk isReg a = .ok ev a') : ev.cause = none := (evaluateE_cause_both lk isReg hn).1 a ev a' h

/-! ## the class of operand trees for which the retry is the fresh evaluation -/

/-- register-free arithmetic: its complete value is a constant -/
def arith (isReg : Bytes → Bool) : Arg → Bool
  | .const _ => true
  | .ident s => !isReg s
  | .bin _ l r => arith isReg l && arith isReg r
  | .neg a => arith isReg a
  | .not a => arith isReg a
  | _ => false

def leaf : Arg → Bool
  | .const _ | .ident _ | .str _ => true
  | _ => false

/-- `Rn + c` (`c > 0`) and `c + Rn` (`c ≠ 0`): `evaluate` leaves them as they are -/
def regOff (isReg : Bytes → Bool) : Arg → Bool
  | .bin .add (.ident r) (.const c) => isReg r && decide (0 < c)
  | .bin .add (.const c) (.ident r) => isReg r && decide (c ≠ 0)
  | _ => false

/-- a sub-tree whose complete value is a fixed point of `evaluate`: a leaf, register-free arithmetic (a constant), or
a register plus a constant -/
def leafy (isReg : Bytes → Bool) (a : Arg) : Bool := leaf a || arith isReg a || regOff isReg a

theorem regOff_cases {isReg : Bytes → Bool} {a : Arg} (h : regOff isReg a = true) :
    (∃ r c, a = .bin .add (.ident r) (.const c) ∧ isReg r = true ∧ 0 < c) ∨
    (∃ r c, a = .bin .add (.const c) (.ident r) ∧ isReg r = true ∧ c ≠ 0) := by
  unfold regOff at h
  split at h
  · simp only [Bool.and_eq_true, decide_eq_true_eq] at h; exact .inl ⟨_, _, rfl, h.1, h.2⟩
  · simp only [Bool.and_eq_true, decide_eq_true_eq] at h; exact .inr ⟨_, _, rfl, h.1, h.2⟩
  · cases h

theorem regOff_eval1 (lk : Bytes → Lookup) (isReg : Bytes → Bool) (r : Bytes) (c : Int) (hr : isReg r = true) (hc : 0 < c) :
    evaluateE lk isReg (.bin .add (.ident r) (.const c)) = .ok ⟨false, none⟩ (.bin .add (.ident r) (.const c)) := by
  have h1 : ¬ c < 0 := by omega
  have h2 : c ≠ 0 := by omega
  simp [evaluateE, hr, afterRawE, simplifyRawE, isBad, cval, mergeE, mergeL, mergeR, findC, preInv, neutralizeRawE, neutralizeBinE,
    stripNeg, neutralMain, neutralR, Ev.or, h1, h2, opOf]

theorem regOff_eval2 (lk : Bytes → Lookup) (isReg : Bytes → Bool) (r : Bytes) (c : Int) (hr : isReg r = true) (hc : c ≠ 0) :
    evaluateE lk isReg (.bin .add (.const c) (.ident r)) = .ok ⟨false, none⟩ (.bin .add (.const c) (.ident r)) := by
  simp [evaluateE, hr, afterRawE, simplifyRawE, isBad, cval, mergeE, mergeL, mergeR, findC, neutralizeRawE, neutralizeBinE,
    stripNeg, neutralMain, neutralL, Ev.or, hc, opOf]

/-- a sub-tree whose evaluation cannot stop at an unknown name -/
def quiet (isReg : Bytes → Bool) : Arg → Bool
  | .const _ | .str _ => true
  | .ident s => isReg s
  | _ => false

mutual
/-- whenever the evaluation of `l ∘ r` can stop inside `r`, the value of `l` is a leaf -/
def plain (isReg : Bytes → Bool) : Arg → Bool
  | .bin _ l r => plain isReg l && plain isReg r && (leafy isReg l || quiet isReg r)
  | .neg a => plain isReg a
  | .not a => plain isReg a
  | .addr a => plain isReg a
  | .seq as => plainArgs isReg as
  | .func _ as => plainArgs isReg as
  | _ => true
def plainArgs (isReg : Bytes → Bool) : Args → Bool
  | .nil => true
  | .cons a as => plain isReg a && leafy isReg a && plainArgs isReg as
end

/-- the complete value of register-free arithmetic is a constant -/
theorem arith_const (lk : Bytes → Lookup) (isReg : Bytes → Bool) (hn : NoDef lk) :
    ∀ a, arith isReg a = true → ∀ ev a', evaluateE lk isReg a = .ok ev a' → ∃ v, a' = .const v := by
  apply Arg.ind
  case const => intro v _ ev a' h; simp only [evaluateE] at h; cases h; exact ⟨_, rfl⟩
  case ident =>
    intro s ha ev a' h
    simp only [arith, Bool.not_eq_true'] at ha
    simp only [evaluateE, ha, Bool.false_eq_true, if_false] at h
    cases hl : lk s with
    | notFound => rw [hl] at h; cases h
    | deferred => exact absurd hl (hn s)
    | found v => rw [hl] at h; cases h; exact ⟨_, rfl⟩
  case str => intro v ha; simp [arith] at ha
  case bin =>
    intro op l r ihl ihr ha ev a' h
    simp only [arith, Bool.and_eq_true] at ha
    simp only [evaluateE] at h
    cases h1 : evaluateE lk isReg l with
    | ok e1 l' =>
      rw [h1] at h
      cases h2 : evaluateE lk isReg r with
      | ok e2 r' =>
        rw [h2] at h
        obtain ⟨x, rfl⟩ := ihl ha.1 _ _ h1
        obtain ⟨y, rfl⟩ := ihr ha.2 _ _ h2
        simp only [afterRawE, simplifyRawE, isBad, Bool.false_eq_true, if_false, cval] at h
        cases hf : foldBin op x y with
        | ok v => rw [hf] at h; cases h; exact ⟨_, rfl⟩
        | error k => rw [hf] at h; cases h
      | nosuch n r' => rw [h2] at h; cases h
      | err e t => rw [h2] at h; cases h
      | panic => rw [h2] at h; cases h
    | nosuch n l' => rw [h1] at h; cases h
    | err e t => rw [h1] at h; cases h
    | panic => rw [h1] at h; cases h
  case neg =>
    intro v ih ha ev a' h
    simp only [arith] at ha
    simp only [evaluateE] at h
    cases h1 : evaluateE lk isReg v with
    | ok e1 l' =>
      rw [h1] at h
      obtain ⟨x, rfl⟩ := ih ha _ _ h1
      simp only [afterRawE, simplifyRawE] at h
      by_cases hx : x = i64Min
      · simp [hx] at h
      · simp only [hx, if_false] at h; cases h; exact ⟨_, rfl⟩
    | nosuch n l' => rw [h1] at h; cases h
    | err e t => rw [h1] at h; cases h
    | panic => rw [h1] at h; cases h
  case not =>
    intro v ih ha ev a' h
    simp only [arith] at ha
    simp only [evaluateE] at h
    cases h1 : evaluateE lk isReg v with
    | ok e1 l' =>
      rw [h1] at h
      obtain ⟨x, rfl⟩ := ih ha _ _ h1
      simp only [afterRawE, simplifyRawE] at h
      cases h; exact ⟨_, rfl⟩
    | nosuch n l' => rw [h1] at h; cases h
    | err e t => rw [h1] at h; cases h
    | panic => rw [h1] at h; cases h
  case addr => intro v _ ha; simp [arith] at ha
  case seq => intro as ha; simp [arith] at ha
  case func => intro n as ha; simp [arith] at ha

/-- `Resumes`: the retry on the tree left behind is the fresh evaluation -/
def Resumes (lk₁ lk₂ : Bytes → Lookup) (isReg : Bytes → Bool) (a : Arg) : Prop :=
  ∀ n a₁, evaluateE lk₁ isReg a = .nosuch n a₁ → (evaluateE lk₂ isReg a₁).forget = (evaluateE lk₂ isReg a).forget

/-- the complete value of a `leafy` tree is a fixed point of `evaluate`, over every table -/
theorem leafy_stable (lk : Bytes → Lookup) (isReg : Bytes → Bool) (hn : NoDef lk) (a : Arg) (ha : leafy isReg a = true)
    (ev : Ev) (a' : Arg) (h : evaluateE lk isReg a = .ok ev a') (lk₂ : Bytes → Lookup) :
    evaluateE lk₂ isReg a' = .ok ⟨false, none⟩ a' := by
  simp only [leafy, Bool.or_eq_true] at ha
  rcases ha with (ha | ha) | ha
  · cases a with
    | const v => simp only [evaluateE] at h; cases h; rfl
    | str s => simp only [evaluateE] at h; cases h; rfl
    | ident s =>
      simp only [evaluateE] at h
      split at h
      · rename_i hr; cases h; simp [evaluateE, hr]
      · cases hl : lk s with
        | notFound => rw [hl] at h; cases h
        | deferred => exact absurd hl (hn s)
        | found v => rw [hl] at h; cases h; rfl
    | _ => simp [leaf] at ha
  · obtain ⟨v, rfl⟩ := arith_const lk isReg hn a ha ev a' h
    rfl
  · rcases regOff_cases ha with ⟨r, c, rfl, hr, hc⟩ | ⟨r, c, rfl, hr, hc⟩
    · rw [regOff_eval1 lk isReg r c hr hc] at h; cases h; exact regOff_eval1 lk₂ isReg r c hr hc
    · rw [regOff_eval2 lk isReg r c hr hc] at h; cases h; exact regOff_eval2 lk₂ isReg r c hr hc

/-! ## the retry, node by node -/

section
variable {lk₂ : Bytes → Lookup} {isReg : Bytes → Bool}

theorem resume_right (op : BinOp) {l l' r r₁ : Arg} {e1 : Ev} (hl : evaluateE lk₂ isReg l = .ok e1 l')
    (hc : e1.cause = none) (hst : evaluateE lk₂ isReg l' = .ok ⟨false, none⟩ l')
    (hr : (evaluateE lk₂ isReg r₁).forget = (evaluateE lk₂ isReg r).forget) :
    (evaluateE lk₂ isReg (.bin op l' r₁)).forget = (evaluateE lk₂ isReg (.bin op l r)).forget := by
  simp only [evaluateE, hst, hl]
  rcases forget_eq_cases hr with ⟨e₁, e₂, x, h1, h2, hcc⟩ | ⟨hne, heq⟩
  · rw [h1, h2]
    exact afterRawE_forget _ _ _ (by simp [Ev.or, hcc, hc])
  · rw [← heq]
    cases h : evaluateE lk₂ isReg r₁ with
    | ok e a => exact absurd h (hne _ _)
    | nosuch n a => rfl
    | err e a => rfl
    | panic => rfl

theorem resume_left (op : BinOp) {l l₁ r : Arg}
    (hl : (evaluateE lk₂ isReg l₁).forget = (evaluateE lk₂ isReg l).forget) :
    (evaluateE lk₂ isReg (.bin op l₁ r)).forget = (evaluateE lk₂ isReg (.bin op l r)).forget := by
  simp only [evaluateE]
  rcases forget_eq_cases hl with ⟨e₁, e₂, x, h1, h2, hcc⟩ | ⟨hne, heq⟩
  · rw [h1, h2]
    cases evaluateE lk₂ isReg r with
    | ok e a => exact afterRawE_forget _ _ _ (by simp [Ev.or, hcc])
    | nosuch n a => rfl
    | err e a => rfl
    | panic => rfl
  · rw [← heq]

theorem resume_neg {v v₁ : Arg} (h : (evaluateE lk₂ isReg v₁).forget = (evaluateE lk₂ isReg v).forget) :
    (evaluateE lk₂ isReg (.neg v₁)).forget = (evaluateE lk₂ isReg (.neg v)).forget := by
  simp only [evaluateE]
  rcases forget_eq_cases h with ⟨e₁, e₂, x, h1, h2, hcc⟩ | ⟨hne, heq⟩
  · rw [h1, h2]; exact afterRawE_forget _ _ _ hcc
  · rw [← heq]

theorem resume_not {v v₁ : Arg} (h : (evaluateE lk₂ isReg v₁).forget = (evaluateE lk₂ isReg v).forget) :
    (evaluateE lk₂ isReg (.not v₁)).forget = (evaluateE lk₂ isReg (.not v)).forget := by
  simp only [evaluateE]
  rcases forget_eq_cases h with ⟨e₁, e₂, x, h1, h2, hcc⟩ | ⟨hne, heq⟩
  · rw [h1, h2]; exact afterRawE_forget _ _ _ hcc
  · rw [← heq]

theorem resume_addr {v v₁ : Arg} (h : (evaluateE lk₂ isReg v₁).forget = (evaluateE lk₂ isReg v).forget) :
    (evaluateE lk₂ isReg (.addr v₁)).forget = (evaluateE lk₂ isReg (.addr v)).forget := by
  simp only [evaluateE]
  rcases forget_eq_cases h with ⟨e₁, e₂, x, h1, h2, hcc⟩ | ⟨hne, heq⟩
  · rw [h1, h2]; exact afterRawE_forget _ _ _ hcc
  · rw [← heq]

theorem resume_seq {as as₁ : Args} (h : (evaluateArgsE lk₂ isReg as₁).forget = (evaluateArgsE lk₂ isReg as).forget) :
    (evaluateE lk₂ isReg (.seq as₁)).forget = (evaluateE lk₂ isReg (.seq as)).forget := by
  simp only [evaluateE]
  rcases forget_eq_cases h with ⟨e₁, e₂, x, h1, h2, hcc⟩ | ⟨hne, heq⟩
  · rw [h1, h2]; simp [EvE.forget, hcc]
  · rw [← heq]

theorem resume_func (f : Bytes) {as as₁ : Args}
    (h : (evaluateArgsE lk₂ isReg as₁).forget = (evaluateArgsE lk₂ isReg as).forget) :
    (evaluateE lk₂ isReg (.func f as₁)).forget = (evaluateE lk₂ isReg (.func f as)).forget := by
  simp only [evaluateE]
  rcases forget_eq_cases h with ⟨e₁, e₂, x, h1, h2, hcc⟩ | ⟨hne, heq⟩
  · rw [h1, h2]; simp [EvE.forget, hcc]
  · rw [← heq]

theorem resume_cons_right {a a' : Arg} {as as₁ : Args} {e1 : Ev} (hl : evaluateE lk₂ isReg a = .ok e1 a')
    (hc : e1.cause = none) (hst : evaluateE lk₂ isReg a' = .ok ⟨false, none⟩ a')
    (hr : (evaluateArgsE lk₂ isReg as₁).forget = (evaluateArgsE lk₂ isReg as).forget) :
    (evaluateArgsE lk₂ isReg (.cons a' as₁)).forget = (evaluateArgsE lk₂ isReg (.cons a as)).forget := by
  simp only [evaluateArgsE, hst, hl]
  rcases forget_eq_cases hr with ⟨e₁, e₂, x, h1, h2, hcc⟩ | ⟨hne, heq⟩
  · rw [h1, h2]
    simp [EvE.forget, Ev.or, hcc, hc]
  · rw [← heq]
    cases h : evaluateArgsE lk₂ isReg as₁ with
    | ok e a => exact absurd h (hne _ _)
    | nosuch n a => rfl
    | err e a => rfl
    | panic => rfl

theorem resume_cons_left {a a₁ : Arg} {as : Args}
    (hl : (evaluateE lk₂ isReg a₁).forget = (evaluateE lk₂ isReg a).forget) :
    (evaluateArgsE lk₂ isReg (.cons a₁ as)).forget = (evaluateArgsE lk₂ isReg (.cons a as)).forget := by
  simp only [evaluateArgsE]
  rcases forget_eq_cases hl with ⟨e₁, e₂, x, h1, h2, hcc⟩ | ⟨hne, heq⟩
  · rw [h1, h2]
    cases evaluateArgsE lk₂ isReg as with
    | ok e a => simp [EvE.forget, Ev.or, hcc]
    | nosuch n a => rfl
    | err e a => rfl
    | panic => rfl
  · rw [← heq]

end

/-- a sub-tree that cannot stop -/
theorem quiet_no_stop (lk : Bytes → Lookup) (isReg : Bytes → Bool) (a : Arg) (h : quiet isReg a = true) (n : Bytes)
    (a₁ : Arg) : evaluateE lk isReg a ≠ .nosuch n a₁ := by
  cases a <;> simp [quiet] at h <;> simp [evaluateE, h]

/-- register-free arithmetic resumes -/
theorem arith_resumes (lk₁ lk₂ : Bytes → Lookup) (isReg : Bytes → Bool) (hs : Sub lk₁ lk₂) (hn : NoDef lk₁) :
    ∀ a, arith isReg a = true → Resumes lk₁ lk₂ isReg a := by
  apply Arg.ind
  case const => intro v _ n a₁ h; simp [evaluateE] at h
  case ident =>
    intro s _ n a₁ h
    simp only [evaluateE] at h
    split at h
    · cases h
    · cases hl : lk₁ s with
      | notFound => rw [hl] at h; cases h; rfl
      | deferred => rw [hl] at h; cases h
      | found v => rw [hl] at h; cases h
  case str => intro v ha; simp [arith] at ha
  case bin =>
    intro op l r ihl ihr ha n a₁ h
    simp only [arith, Bool.and_eq_true] at ha
    simp only [evaluateE] at h
    cases h1 : evaluateE lk₁ isReg l with
    | ok e1 l' =>
      rw [h1] at h
      cases h2 : evaluateE lk₁ isReg r with
      | ok e2 r' =>
        rw [h2] at h
        simp only [afterRawE] at h
        split at h <;> cases h
      | nosuch m r₁ =>
        rw [h2] at h; cases h
        exact resume_right op (evaluateE_mono hs hn h1) (evaluateE_cause_none hn h1)
          (leafy_stable lk₁ isReg hn l (by simp [leafy, ha.1]) _ _ h1 lk₂) (ihr ha.2 _ _ h2)
      | err e t => rw [h2] at h; cases h
      | panic => rw [h2] at h; cases h
    | nosuch m l₁ => rw [h1] at h; cases h; exact resume_left op (ihl ha.1 _ _ h1)
    | err e t => rw [h1] at h; cases h
    | panic => rw [h1] at h; cases h
  case neg =>
    intro v ih ha n a₁ h
    simp only [arith] at ha
    simp only [evaluateE] at h
    cases h1 : evaluateE lk₁ isReg v with
    | ok e1 l' => rw [h1] at h; simp only [afterRawE] at h; split at h <;> cases h
    | nosuch m v₁ => rw [h1] at h; cases h; exact resume_neg (ih ha _ _ h1)
    | err e t => rw [h1] at h; cases h
    | panic => rw [h1] at h; cases h
  case not =>
    intro v ih ha n a₁ h
    simp only [arith] at ha
    simp only [evaluateE] at h
    cases h1 : evaluateE lk₁ isReg v with
    | ok e1 l' => rw [h1] at h; simp only [afterRawE] at h; split at h <;> cases h
    | nosuch m v₁ => rw [h1] at h; cases h; exact resume_not (ih ha _ _ h1)
    | err e t => rw [h1] at h; cases h
    | panic => rw [h1] at h; cases h
  case addr => intro v _ ha; simp [arith] at ha
  case seq => intro as ha; simp [arith] at ha
  case func => intro n as ha; simp [arith] at ha

theorem leafy_resumes (lk₁ lk₂ : Bytes → Lookup) (isReg : Bytes → Bool) (hs : Sub lk₁ lk₂) (hn : NoDef lk₁) (a : Arg)
    (ha : leafy isReg a = true) : Resumes lk₁ lk₂ isReg a := by
  simp only [leafy, Bool.or_eq_true] at ha
  rcases ha with (ha | ha) | ha
  rotate_left 2
  · intro n a₁ h
    rcases regOff_cases ha with ⟨r, c, rfl, hr, hc⟩ | ⟨r, c, rfl, hr, hc⟩
    · rw [regOff_eval1 lk₁ isReg r c hr hc] at h; cases h
    · rw [regOff_eval2 lk₁ isReg r c hr hc] at h; cases h
  · intro n a₁ h
    cases a with
    | const v => simp [evaluateE] at h
    | str s => simp [evaluateE] at h
    | ident s =>
      simp only [evaluateE] at h
      split at h
      · cases h
      · cases hl : lk₁ s with
        | notFound => rw [hl] at h; cases h; rfl
        | deferred => rw [hl] at h; cases h
        | found v => rw [hl] at h; cases h
    | _ => simp [leaf] at ha
  · exact arith_resumes lk₁ lk₂ isReg hs hn a ha

/-- **the structural retry theorem**: for a `plain` operand tree, evaluating the tree that a stopped first attempt
over `lk₁` left behind over a larger table `lk₂` is (up to the `changed` flag) evaluating the original tree over `lk₂` -/
theorem plain_resumes_both (lk₁ lk₂ : Bytes → Lookup) (isReg : Bytes → Bool) (hs : Sub lk₁ lk₂) (hn : NoDef lk₁) :
    (∀ a, plain isReg a = true → Resumes lk₁ lk₂ isReg a) ∧
    (∀ as, plainArgs isReg as = true → ∀ n as₁, evaluateArgsE lk₁ isReg as = .nosuch n as₁ →
      (evaluateArgsE lk₂ isReg as₁).forget = (evaluateArgsE lk₂ isReg as).forget) := by
  apply Arg.ind2
  case const => intro v _ n a₁ h; simp [evaluateE] at h
  case ident => intro s _; exact leafy_resumes lk₁ lk₂ isReg hs hn _ (by simp [leafy, leaf])
  case str => intro v _ n a₁ h; simp [evaluateE] at h
  case bin =>
    intro op l r ihl ihr ha n a₁ h
    simp only [plain, Bool.and_eq_true, Bool.or_eq_true] at ha
    obtain ⟨⟨hpl, hpr⟩, hlq⟩ := ha
    simp only [evaluateE] at h
    cases h1 : evaluateE lk₁ isReg l with
    | ok e1 l' =>
      rw [h1] at h
      cases h2 : evaluateE lk₁ isReg r with
      | ok e2 r' =>
        rw [h2] at h
        simp only [afterRawE] at h
        split at h <;> cases h
      | nosuch m r₁ =>
        rw [h2] at h; cases h
        rcases hlq with hl | hq
        · exact resume_right op (evaluateE_mono hs hn h1) (evaluateE_cause_none hn h1)
            (leafy_stable lk₁ isReg hn l hl _ _ h1 lk₂) (ihr hpr _ _ h2)
        · exact absurd h2 (quiet_no_stop lk₁ isReg r hq _ _)
      | err e t => rw [h2] at h; cases h
      | panic => rw [h2] at h; cases h
    | nosuch m l₁ => rw [h1] at h; cases h; exact resume_left op (ihl hpl _ _ h1)
    | err e t => rw [h1] at h; cases h
    | panic => rw [h1] at h; cases h
  case neg =>
    intro v ih ha n a₁ h
    simp only [plain] at ha
    simp only [evaluateE] at h
    cases h1 : evaluateE lk₁ isReg v with
    | ok e1 l' => rw [h1] at h; simp only [afterRawE] at h; split at h <;> cases h
    | nosuch m v₁ => rw [h1] at h; cases h; exact resume_neg (ih ha _ _ h1)
    | err e t => rw [h1] at h; cases h
    | panic => rw [h1] at h; cases h
  case not =>
    intro v ih ha n a₁ h
    simp only [plain] at ha
    simp only [evaluateE] at h
    cases h1 : evaluateE lk₁ isReg v with
    | ok e1 l' => rw [h1] at h; simp only [afterRawE] at h; split at h <;> cases h
    | nosuch m v₁ => rw [h1] at h; cases h; exact resume_not (ih ha _ _ h1)
    | err e t => rw [h1] at h; cases h
    | panic => rw [h1] at h; cases h
  case addr =>
    intro v ih ha n a₁ h
    simp only [plain] at ha
    simp only [evaluateE] at h
    cases h1 : evaluateE lk₁ isReg v with
    | ok e1 l' => rw [h1] at h; simp only [afterRawE] at h; split at h <;> cases h
    | nosuch m v₁ => rw [h1] at h; cases h; exact resume_addr (ih ha _ _ h1)
    | err e t => rw [h1] at h; cases h
    | panic => rw [h1] at h; cases h
  case seq =>
    intro as ih ha n a₁ h
    simp only [plain] at ha
    simp only [evaluateE] at h
    cases h1 : evaluateArgsE lk₁ isReg as with
    | ok e1 l' => rw [h1] at h; cases h
    | nosuch m as₁ => rw [h1] at h; cases h; exact resume_seq (ih ha _ _ h1)
    | err e t => rw [h1] at h; cases h
    | panic => rw [h1] at h; cases h
  case func =>
    intro f as ih ha n a₁ h
    simp only [plain] at ha
    simp only [evaluateE] at h
    cases h1 : evaluateArgsE lk₁ isReg as with
    | ok e1 l' => rw [h1] at h; cases h
    | nosuch m as₁ => rw [h1] at h; cases h; exact resume_func f (ih ha _ _ h1)
    | err e t => rw [h1] at h; cases h
    | panic => rw [h1] at h; cases h
  case nil => intro _ n as₁ h; simp [evaluateArgsE] at h
  case cons =>
    intro a as iha ihas ha n as₁ h
    simp only [plainArgs, Bool.and_eq_true] at ha
    obtain ⟨⟨hpa, hla⟩, hpas⟩ := ha
    simp only [evaluateArgsE] at h
    cases h1 : evaluateE lk₁ isReg a with
    | ok e1 a' =>
      rw [h1] at h
      cases h2 : evaluateArgsE lk₁ isReg as with
      | ok e2 r' => rw [h2] at h; cases h
      | nosuch m r₁ =>
        rw [h2] at h; cases h
        exact resume_cons_right (evaluateE_mono hs hn h1) (evaluateE_cause_none hn h1)
          (leafy_stable lk₁ isReg hn a hla _ _ h1 lk₂) (ihas hpas _ _ h2)
      | err e t => rw [h2] at h; cases h
      | panic => rw [h2] at h; cases h
    | nosuch m a₁ => rw [h1] at h; cases h; exact resume_cons_left (iha hpa _ _ h1)
    | err e t => rw [h1] at h; cases h
    | panic => rw [h1] at h; cases h

theorem plain_resumes {lk₁ lk₂ : Bytes → Lookup} {isReg : Bytes → Bool} (hs : Sub lk₁ lk₂) (hn : NoDef lk₁) {a : Arg}
    (ha : plain isReg a = true) : Resumes lk₁ lk₂ isReg a := (plain_resumes_both lk₁ lk₂ isReg hs hn).1 a ha

/-- (history: K5)  Before the swap `0 - (l - r) ↦ r - l` was added to `neutralize_raw`, `Resumes` failed for
`(0 - (r1 - r0)) + x` (`r0`, `r1` registers, `x` unknown): the first attempt left `-(r1 - r0) + x` and the retry turned the
already evaluated `-(r1 - r0)` into `r0 - r1`, which the fresh evaluation never did (`resumes_false`).  Now the first
attempt leaves `(r0 - r1) + x`, and retry and fresh evaluation end with the same tree. -/
theorem resumes_old_witness :
    let isReg : Bytes → Bool := fun s => s = [114, 48] || s = [114, 49]
    let lk₁ : Bytes → Lookup := fun _ => .notFound
    let lk₂ : Bytes → Lookup := fun s => if s = [120] then .found 1 else .notFound
    let a : Arg := .bin .add (.bin .sub (.const 0) (.bin .sub (.ident [114, 49]) (.ident [114, 48]))) (.ident [120])
    evaluateE lk₁ isReg a = .nosuch [120] (.bin .add (.bin .sub (.ident [114, 48]) (.ident [114, 49])) (.ident [120])) ∧
    evaluateE lk₂ isReg (.bin .add (.bin .sub (.ident [114, 48]) (.ident [114, 49])) (.ident [120])) =
      .ok ⟨true, none⟩ (.bin .add (.bin .sub (.ident [114, 48]) (.ident [114, 49])) (.const 1)) ∧
    evaluateE lk₂ isReg a = .ok ⟨true, none⟩ (.bin .add (.bin .sub (.ident [114, 48]) (.ident [114, 49])) (.const 1)) :=
  ⟨rfl, rfl, rfl⟩

end Trion.Simp
