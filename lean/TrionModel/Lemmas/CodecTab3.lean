import TrionModel.Lemmas.CodecTab
namespace Trion.Codec
/-- halfwords 0x6000 … 0x7fff, evaluated by the kernel -/
theorem chkBlock3 : chkBlock 3 32 := by decide +kernel
end Trion.Codec
