import TrionModel.Lemmas.SimpRetry
import TrionModel.Lemmas.AsmFront
import TrionModel.Lemmas.AsmPrim
/-!
# The general retry theorem for `Front.assemble` and for the data directives

A statement met inside a file when some symbol of its operands is not yet defined: the first `assemble` (evaluator
`e₁`, `local = true`) stops at operand `k` with `Deferred`, leaving the front-end state `fs1` (operands before `k`
replaced by their values, operand `k` partly evaluated, `args_done`, the instruction filled in as far as the stores
went).  The task re-runs `assemble` from `fs1` with the evaluator `e₂` of the final table.

`assemble_retry`: if `e₂` extends `e₁` operand by operand (`Grows`: what completed over `e₁` completes with the same
tree over `e₂`, and is not evaluated again; the tree left behind by the stop evaluates over `e₂` like the original
operand), then the re-run IS the fresh run: `assemble fs1 e₂ loc = assemble ⟨addr, t, 0, args⟩ e₂ loc` — same outcome,
same instruction, same argument list.

`grows_of_tables`: for the evaluators of `Asm` over two tables `T₁ ⊆ T₂` without deferred entries, `Grows` holds for
every `plain` operand (Lemmas/SimpRetry.lean).

`data_retry`: the same for the single operand of `.du8/.du16/.du32`.
-/
namespace Trion.Front
open Trion

/-- the getters that call `evaluate` -/
def Kind.evals : Kind → Bool
  | .immediate | .immReg | .address | .offset | .addrOffset => true
  | _ => false

/-- what `e₂` (the evaluator at retry time) has to satisfy relative to `e₁` (first attempt) on an operand -/
structure Grows (e₁ e₂ : Arg → EvalOut) (a : Arg) : Prop where
  complete : ∀ a', e₁ a = .complete a' → e₂ a = .complete a'
  stop : ∀ n a₁, e₁ a = .noSuchVariable n a₁ → e₂ a₁ = e₂ a
  nodef : ∀ c a₁, e₁ a ≠ .deferred c a₁

/-! ## `setOp`: the stores of the macro are idempotent, and position 0 is not disturbed by position 1 -/

theorem kinds_setOp (i : Instr) (pos : Nat) (v : Val) : kinds (setOp i pos v) = kinds i := by
  cases i <;> simp only [setOp] <;> (try rfl) <;> split <;> rfl

set_option maxHeartbeats 4000000 in
theorem setOp_idem (i : Instr) (p : Nat) (v : Val) : setOp (setOp i p v) p v = setOp i p v := by
  rcases p with _|_|_|p <;> cases v <;> cases i <;> rfl

set_option maxHeartbeats 8000000 in
theorem setOp_absorb (i : Instr) (v w : Val) : setOp (setOp (setOp i 0 v) 1 w) 0 v = setOp (setOp i 0 v) 1 w := by
  cases v <;> cases w <;> cases i <;> rfl

theorem kinds_le_three (i : Instr) : (kinds i).length ≤ 3 := by
  cases i <;> simp [kinds]

/-! ## the getters -/

/-- the part of an evaluating getter after the evaluation prologue -/
def post (k : Kind) (pos : Nat) (a' : Arg) (done' : Nat) : GetOut :=
  match k with
  | .immediate =>
    match a' with
    | .const v =>
      match narrowI32 v with
      | some w => .ok (.imm w) a' done'
      | none => .stop a' done' (.error (.valueRange (pos + 1)))
    | _ => .stop a' done' (.error (.argType pos [.const] a'.ty))
  | .immReg =>
    match a' with
    | .const v =>
      match narrowI32 v with
      | some w => .ok (.immReg (.imm w)) a' done'
      | none => .stop a' done' (.error (.valueRange (pos + 1)))
    | .ident s =>
      match regl s with
      | some r => .ok (.immReg (.reg r)) a' done'
      | none => .stop a' done' (.error (.noSuchRegister (pos + 1) s))
    | _ => .stop a' done' (.error (.argType pos [.const, .ident] a'.ty))
  | .address =>
    match a' with
    | .addr inner =>
      match addrOff (pos + 1) inner with
      | .ok (r, o) => .ok (.address r o) a' done'
      | .error d => .stop a' done' (.error d)
    | _ => .stop a' done' (.error (.argType pos [.addr] a'.ty))
  | .offset =>
    match a' with
    | .const v =>
      match narrowU32 v with
      | some w => .ok (.off w) a' done'
      | none => .stop a' done' (.error (.valueRange (pos + 1)))
    | _ => .stop a' done' (.error (.argType pos [.const] a'.ty))
  | .addrOffset =>
    match a' with
    | .const v =>
      match narrowU32 v with
      | some w => .ok (.off w) a' done'
      | none => .stop a' done' (.error (.valueRange (pos + 1)))
    | .addr inner =>
      match addrOff (pos + 1) inner with
      | .ok (r, o) => .ok (.address r o) a' done'
      | .error d => .stop a' done' (.error d)
    | _ => .stop a' done' (.error (.argType pos [.const, .addr] a'.ty))
  | _ => .stop a' done' .panic

theorem get_eq_post (k : Kind) (hk : k.evals = true) (e : Arg → EvalOut) (loc : Bool) (pos done : Nat) (a : Arg) :
    get k e loc pos done a =
      match evalArg e loc pos done a with
      | .error (a', r) => .stop a' done r
      | .ok (a', d') => post k pos a' d' := by
  cases k <;> first | rfl | simp [Kind.evals] at hk

theorem post_ok {k : Kind} {pos : Nat} {a : Arg} {d : Nat} {v : Val} {a' : Arg} {d' : Nat}
    (h : post k pos a d = .ok v a' d') : a' = a ∧ d' = d ∧ ∀ D, post k pos a D = .ok v a D := by
  cases k <;> simp only [post] at h ⊢
  all_goals (repeat' split at h)
  all_goals first | (cases h; done) | skip
  all_goals (cases h; simp_all)

theorem post_not_deferred {k : Kind} {pos : Nat} {a : Arg} {d : Nat} {a' : Arg} {d' : Nat} {c : Bytes} :
    post k pos a d ≠ .stop a' d' (.deferred c) := by
  intro h
  cases k <;> simp only [post] at h
  all_goals (repeat' split at h)
  all_goals cases h

theorem get_nonevals {k : Kind} (hk : k.evals = false) {e : Arg → EvalOut} {loc : Bool} {pos done : Nat} {a : Arg} :
    (∀ v a' d', get k e loc pos done a = .ok v a' d' →
      a' = a ∧ d' = done ∧ ∀ e' l' D, get k e' l' pos D a = .ok v a D) ∧
    (∀ a' d' c, get k e loc pos done a ≠ .stop a' d' (.deferred c)) := by
  cases k <;> simp [Kind.evals] at hk
  all_goals
    refine ⟨fun v a' d' h => ?_, fun a' d' c h => ?_⟩
    · simp only [get] at h ⊢
      repeat' split at h
      all_goals first | (cases h; done) | skip
      all_goals (cases h; simp_all)
    · simp only [get] at h
      repeat' split at h
      all_goals cases h

/-- the evaluation prologue on an operand that completed at the first attempt -/
theorem evalArg_ok_grows {e₁ e₂ : Arg → EvalOut} {a : Arg} (hg : Grows e₁ e₂ a) {pos done : Nat} {a' : Arg} {d' : Nat}
    (h : evalArg e₁ true pos done a = .ok (a', d')) (loc : Bool) :
    evalArg e₂ loc pos done a = .ok (a', d') ∧ pos < d' ∧ done ≤ d' ∧ ∀ D, d' ≤ D → evalArg e₂ loc pos D a' = .ok (a', D) := by
  unfold evalArg at h ⊢
  by_cases hd : done ≤ pos
  · simp only [hd, if_true] at h ⊢
    cases he : e₁ a with
    | complete x =>
      rw [he] at h
      cases h
      rw [hg.complete _ he]
      exact ⟨rfl, by omega, by omega, fun D hD => by rw [if_neg (by omega)]⟩
    | deferred c x => rw [he] at h; cases h
    | noSuchVariable n x => rw [he] at h; simp at h
    | error er x => rw [he] at h; cases h
  · simp only [hd, if_false] at h ⊢
    cases h
    exact ⟨rfl, by omega, by omega, fun D hD => by rw [if_neg (by omega)]⟩

/-- the evaluation prologue on the operand at which the first attempt stopped -/
theorem evalArg_stop_grows {e₁ e₂ : Arg → EvalOut} {a : Arg} (hg : Grows e₁ e₂ a) {pos done : Nat} {a' : Arg} {c : Bytes}
    (h : evalArg e₁ true pos done a = .error (a', .deferred c)) (loc : Bool) :
    evalArg e₂ loc pos done a' = evalArg e₂ loc pos done a := by
  unfold evalArg at h ⊢
  by_cases hd : done ≤ pos
  · simp only [hd, if_true] at h ⊢
    cases he : e₁ a with
    | complete x => rw [he] at h; cases h
    | deferred c x => exact absurd he (hg.nodef _ _)
    | noSuchVariable n x =>
      rw [he] at h
      simp only [Except.error.injEq, Prod.mk.injEq] at h
      obtain ⟨h1, _⟩ := h
      subst h1
      rw [hg.stop _ _ he]
    | error er x => rw [he] at h; cases h
  · simp only [hd, if_false] at h; cases h

/-- a getter that succeeded at the first attempt: the fresh run gets the same, and so does the re-run on the argument
it left (without evaluating again, since `args_done` is beyond the position) -/
theorem get_ok_grows {k : Kind} {e₁ e₂ : Arg → EvalOut} {a : Arg} (hg : Grows e₁ e₂ a) {pos done : Nat} {v : Val}
    {a' : Arg} {d' : Nat} (h : get k e₁ true pos done a = .ok v a' d') (loc : Bool) :
    get k e₂ loc pos done a = .ok v a' d' ∧ done ≤ d' ∧ ∀ D, d' ≤ D → get k e₂ loc pos D a' = .ok v a' D := by
  cases hk : k.evals with
  | false =>
    obtain ⟨h1, h2, h3⟩ := (get_nonevals hk).1 _ _ _ h
    subst h1; subst h2
    exact ⟨h3 _ _ _, Nat.le_refl _, fun D _ => h3 _ _ _⟩
  | true =>
    rw [get_eq_post k hk] at h
    cases he : evalArg e₁ true pos done a with
    | error p => rw [he] at h; cases h
    | ok p =>
      obtain ⟨x, d⟩ := p
      rw [he] at h
      simp only at h
      obtain ⟨p1, p2, p3⟩ := post_ok h
      subst p1; subst p2
      obtain ⟨q1, q2, q3, q4⟩ := evalArg_ok_grows hg he loc
      refine ⟨by rw [get_eq_post k hk, q1]; exact h, q3, fun D hD => ?_⟩
      rw [get_eq_post k hk, q4 D hD]
      exact p3 D

/-- the getter at which the first attempt stopped with `Deferred` -/
theorem get_stop_grows {k : Kind} {e₁ e₂ : Arg → EvalOut} {a : Arg} (hg : Grows e₁ e₂ a) {pos done : Nat}
    {a' : Arg} {d' : Nat} {c : Bytes} (h : get k e₁ true pos done a = .stop a' d' (.deferred c)) (loc : Bool) :
    d' = done ∧ get k e₂ loc pos done a' = get k e₂ loc pos done a := by
  cases hk : k.evals with
  | false => exact absurd h ((get_nonevals hk).2 _ _ _)
  | true =>
    rw [get_eq_post k hk] at h
    cases he : evalArg e₁ true pos done a with
    | error p =>
      obtain ⟨x, r⟩ := p
      rw [he] at h
      simp only [GetOut.stop.injEq] at h
      obtain ⟨h1, h2, h3⟩ := h
      subst h1; subst h2; subst h3
      refine ⟨rfl, ?_⟩
      rw [get_eq_post k hk, get_eq_post k hk, evalArg_stop_grows hg he loc]
    | ok p =>
      obtain ⟨x, d⟩ := p
      rw [he] at h
      exact absurd h post_not_deferred

/-! ## the stores of the first attempt, replayed -/

/-- the stores `(position, value)` the first attempt makes before it stops -/
def stores (e : Arg → EvalOut) : List Kind → Nat → List Arg → Nat → List (Nat × Val)
  | k :: ks, pos, a :: rest, done =>
    match get k e true pos done a with
    | .ok v _ d' => (pos, v) :: stores e ks (pos + 1) rest d'
    | .stop .. => []
  | _, _, _, _ => []

def replay (σ : List (Nat × Val)) (i : Instr) : Instr := σ.foldl (fun i pv => setOp i pv.1 pv.2) i

theorem kinds_replay (σ : List (Nat × Val)) (i : Instr) : kinds (replay σ i) = kinds i := by
  induction σ generalizing i with
  | nil => rfl
  | cons p σ ih => simp only [replay, List.foldl_cons] at ih ⊢; rw [ih, kinds_setOp]

/-- an attempt that ends in `Deferred` made fewer stores than there are operands, at consecutive positions -/
theorem stores_shape (e : Arg → EvalOut) : ∀ (ks : List Kind) (pos : Nat) (pre rest : List Arg) (done : Nat) (instr : Instr)
    (vals : List Val) (A : List Arg) (D : Nat) (I : Instr) (c : Bytes),
    conv e true ks pos pre rest done instr vals = .stop A D I (.deferred c) →
    (stores e ks pos rest done).length < ks.length ∧
    ∀ p ∈ (stores e ks pos rest done).head?, p.1 = pos := by
  intro ks
  induction ks with
  | nil => intro pos pre rest done instr vals A D I c h; simp [conv] at h
  | cons k ks ih =>
    intro pos pre rest done instr vals A D I c h
    cases rest with
    | nil => simp only [conv] at h; cases h
    | cons a rest =>
      simp only [conv] at h
      simp only [stores]
      cases hg : get k e true pos done a with
      | ok v a' d' =>
        rw [hg] at h
        simp only at h ⊢
        have := (ih _ _ _ _ _ _ _ _ _ _ h).1
        exact ⟨by simp only [List.length_cons]; omega, fun p hp => by simp at hp; subst hp; rfl⟩
      | stop a' d' r => simp

/-- replaying a store that has already been made, behind the later stores of the same attempt -/
theorem replay_absorb (σ : List (Nat × Val)) (pos : Nat) (v : Val) (F : Instr)
    (hlen : σ = [] ∨ (pos = 0 ∧ ∃ w, σ = [(1, w)])) :
    setOp (replay σ (setOp F pos v)) pos v = replay σ (setOp F pos v) := by
  rcases hlen with rfl | ⟨rfl, w, rfl⟩
  · exact setOp_idem ..
  · exact setOp_absorb ..

/-- **the retry, getter by getter**: from any point of the first attempt that goes on to stop with `Deferred`, the
re-run (on the arguments the attempt left, with its final `args_done`, and an instruction that already holds the
stores the attempt still made) continues exactly like the fresh run -/
theorem conv_retry (e₁ e₂ : Arg → EvalOut) (loc : Bool) : ∀ (ks : List Kind) (pos : Nat) (pre rest : List Arg) (done : Nat)
    (instr : Instr) (vals : List Val) (A : List Arg) (D : Nat) (I : Instr) (c : Bytes),
    (∀ a ∈ rest, Grows e₁ e₂ a) → pos + ks.length ≤ 3 →
    conv e₁ true ks pos pre rest done instr vals = .stop A D I (.deferred c) →
    ∃ restA, A = pre.reverse ++ restA ∧ restA.length = rest.length ∧ done ≤ D ∧
      I = replay (stores e₁ ks pos rest done) instr ∧
      conv e₂ loc ks pos pre restA D I vals = conv e₂ loc ks pos pre rest done instr vals := by
  intro ks
  induction ks with
  | nil => intro pos pre rest done instr vals A D I c _ _ h; simp [conv] at h
  | cons k ks ih =>
    intro pos pre rest done instr vals A D I c hgr hlen h
    cases rest with
    | nil => simp only [conv] at h; cases h
    | cons a rest =>
      have hga : Grows e₁ e₂ a := hgr a List.mem_cons_self
      simp only [conv] at h
      cases hg : get k e₁ true pos done a with
      | ok v a' d' =>
        rw [hg] at h
        simp only at h
        obtain ⟨g1, g2, g3⟩ := get_ok_grows hga hg loc
        have hlen' : pos + 1 + ks.length ≤ 3 := by simp only [List.length_cons] at hlen; omega
        obtain ⟨restA, r1, r2, r3, r4, r5⟩ :=
          ih (pos + 1) (a' :: pre) rest d' (setOp instr pos v) (v :: vals) A D I c
            (fun x hx => hgr x (List.mem_cons_of_mem _ hx)) hlen' h
        obtain ⟨s1, s2⟩ := stores_shape e₁ ks (pos + 1) (a' :: pre) rest d' (setOp instr pos v) (v :: vals) A D I c h
        have hσ : stores e₁ ks (pos + 1) rest d' = [] ∨ (pos = 0 ∧ ∃ w, stores e₁ ks (pos + 1) rest d' = [(1, w)]) := by
          cases hs : stores e₁ ks (pos + 1) rest d' with
          | nil => exact .inl rfl
          | cons p σ =>
            rw [hs] at s1 s2
            simp only [List.length_cons] at s1
            have hp0 : pos = 0 := by omega
            have hσ' : σ = [] := by
              cases σ with
              | nil => rfl
              | cons _ _ => simp only [List.length_cons] at s1; omega
            have hp1 := s2 p (by simp)
            subst hσ'
            subst hp0
            exact .inr ⟨rfl, p.2, by cases p; simp only at hp1; subst hp1; rfl⟩
        refine ⟨a' :: restA, by rw [r1]; simp, by simp [r2], Nat.le_trans g2 r3, ?_, ?_⟩
        · simp only [stores, hg, replay, List.foldl_cons]; exact r4
        · simp only [conv, g1, g3 D r3]
          rw [r4, replay_absorb _ _ _ _ hσ, ← r4]
          exact r5
      | stop a' d' r =>
        rw [hg] at h
        simp only [ConvOut.stop.injEq] at h
        obtain ⟨h1, h2, h3, h4⟩ := h
        subst h4
        obtain ⟨q1, q2⟩ := get_stop_grows hga hg loc
        subst q1
        subst h2
        subst h3
        refine ⟨a' :: rest, h1.symm, rfl, Nat.le_refl _, by simp [stores, hg, replay], ?_⟩
        simp only [conv, q2]

/-- **the general retry theorem for `Front.assemble`** -/
theorem assemble_retry (e₁ e₂ : Arg → EvalOut) (addr : Nat) (t : Instr) (args : List Arg)
    (hgr : ∀ a ∈ args, Grows e₁ e₂ a) (fs1 : St) (c : Bytes)
    (h1 : assemble ⟨addr, t, 0, args⟩ e₁ true = (fs1, .deferred c)) (loc : Bool) :
    assemble fs1 e₂ loc = assemble ⟨addr, t, 0, args⟩ e₂ loc := by
  unfold assemble at h1
  simp only at h1
  by_cases c1 : args.length > (kinds t).length
  · rw [if_pos c1] at h1; cases h1
  rw [if_neg c1] at h1
  by_cases c2 : args.length < (kinds t).length
  · rw [if_pos c2] at h1; cases h1
  rw [if_neg c2] at h1
  cases hc : conv e₁ true (kinds t) 0 [] args 0 t [] with
  | ok A D I vals =>
    rw [hc] at h1
    simp only at h1
    split at h1 <;> cases h1
  | stop A D I r =>
    rw [hc] at h1
    simp only [Prod.mk.injEq] at h1
    obtain ⟨hfs, hr⟩ := h1
    subst hr
    have hk3 := kinds_le_three t
    obtain ⟨restA, r1, r2, _, r4, r5⟩ := conv_retry e₁ e₂ loc (kinds t) 0 [] args 0 t [] A D I c hgr (by omega) hc
    simp only [List.reverse_nil, List.nil_append] at r1
    subst r1
    subst hfs
    have hkI : kinds I = kinds t := by rw [r4, kinds_replay]
    unfold assemble
    simp only [hkI, r2, c1, c2, if_false, r5]

end Trion.Front

namespace Trion.Asm
open Trion

/-- tables: every valued entry of `t₁` is in `t₂` -/
def Table.Sub (t₁ t₂ : Table) : Prop := ∀ n v, t₁.find n = some (some v) → t₂.find n = some (some v)

/-- no entry is `None` (deferred by `.global` / `.import`) -/
def Table.NoDef (t : Table) : Prop := ∀ n, t.find n ≠ some none

theorem Table.sub_get {t₁ t₂ : Table} (h : Table.Sub t₁ t₂) : Simp.Sub (fun n => t₁.get n) (fun n => t₂.get n) := by
  intro s v hs
  have := h s v (get_found hs)
  simp [Table.get, this]

theorem Table.nodef_get {t : Table} (h : Table.NoDef t) : Simp.NoDef (fun n => t.get n) := by
  intro s hs
  exact h s (get_deferred hs)

theorem Table.Sub.refl (t : Table) : Table.Sub t t := fun _ _ h => h

theorem Table.Sub.trans {a b c : Table} (h1 : Table.Sub a b) (h2 : Table.Sub b c) : Table.Sub a c :=
  fun n v h => h2 n v (h1 n v h)

/-- `evalIn` does not read the `changed` flag -/
theorem evalIn_forget (t : Table) (a b : Arg)
    (h : (Simp.evaluateE (fun n => t.get n) Front.isRegister a).forget =
      (Simp.evaluateE (fun n => t.get n) Front.isRegister b).forget) : evalIn t a = evalIn t b := by
  unfold evalIn
  rcases Simp.forget_eq_cases h with ⟨e₁, e₂, x, h1, h2, hc⟩ | ⟨_, heq⟩
  · rw [h1, h2]; simp only [hc]
  · rw [heq]

theorem frontEval_congr (t : Table) (a b : Arg) (h : evalIn t a = evalIn t b) : frontEval t a = frontEval t b := by
  obtain ⟨ev, hev⟩ := evalIn_ok t b
  unfold frontEval
  rw [h, hev]
  cases ev with
  | complete x => rfl
  | deferred c x => rfl
  | noSuch n x => rfl
  | err e x => cases e <;> rfl

/-- the operand trees for which the statement-level retry theorem is proved -/
def plainArg (a : Arg) : Bool := Simp.plain Front.isRegister a

theorem evalIn_complete_mono {t₁ t₂ : Table} (hs : Table.Sub t₁ t₂) (hn : Table.NoDef t₁) {a a' : Arg}
    (h : evalIn t₁ a = .ok (.complete a')) : evalIn t₂ a = .ok (.complete a') := by
  unfold evalIn at h ⊢
  cases he : Simp.evaluateE (fun n => t₁.get n) Front.isRegister a with
  | ok ev x =>
    rw [he] at h
    rw [Simp.evaluateE_mono (Table.sub_get hs) (Table.nodef_get hn) he]
    exact h
  | nosuch n x => rw [he] at h; cases h
  | err e x => rw [he] at h; cases h
  | panic => rw [he] at h; cases h

theorem evalIn_not_deferred {t : Table} (hn : Table.NoDef t) (a : Arg) (c : Bytes) (a' : Arg) :
    evalIn t a ≠ .ok (.deferred c a') := by
  unfold evalIn
  cases he : Simp.evaluateE (fun n => t.get n) Front.isRegister a with
  | ok ev x =>
    have := Simp.evaluateE_cause_none (Table.nodef_get hn) he
    simp [this]
  | nosuch n x => simp
  | err e x => simp
  | panic => simp

/-- **the retry of one operand** (`.du8/.du16/.du32`, and every evaluated operand of an instruction): the tree left by
a first `evaluate` that stopped at an unknown name evaluates over the final table like the original operand -/
theorem data_retry {t₁ t₂ : Table} (hs : Table.Sub t₁ t₂) (hn : Table.NoDef t₁) {a : Arg} (hp : plainArg a = true)
    {n : Bytes} {a₁ : Arg} (h : evalIn t₁ a = .ok (.noSuch n a₁)) : evalIn t₂ a₁ = evalIn t₂ a := by
  apply evalIn_forget
  apply Simp.plain_resumes (Table.sub_get hs) (Table.nodef_get hn) hp n a₁
  unfold evalIn at h
  cases he : Simp.evaluateE (fun n => t₁.get n) Front.isRegister a with
  | ok ev x => rw [he] at h; simp only at h; split at h <;> cases h
  | nosuch m x => rw [he] at h; cases h; rfl
  | err e x => rw [he] at h; cases h
  | panic => rw [he] at h; cases h

/-- the evaluators of `Asm` over a growing table satisfy `Grows` on plain operands -/
theorem grows_of_tables {t₁ t₂ : Table} (hs : Table.Sub t₁ t₂) (hn : Table.NoDef t₁) {a : Arg} (hp : plainArg a = true) :
    Front.Grows (frontEval t₁) (frontEval t₂) a := by
  obtain ⟨ev, hev⟩ := evalIn_ok t₁ a
  refine ⟨fun a' h => ?_, fun n a₁ h => ?_, fun c a₁ h => ?_⟩
  · have : evalIn t₁ a = .ok (.complete a') := by
      rw [hev]
      simp only [frontEval, hev] at h
      cases ev with
      | complete x => cases h; rfl
      | deferred c x => cases h
      | noSuch n x => cases h
      | err e x => cases e <;> cases h
    simp only [frontEval, evalIn_complete_mono hs hn this]
  · have : evalIn t₁ a = .ok (.noSuch n a₁) := by
      rw [hev]
      simp only [frontEval, hev] at h
      cases ev with
      | complete x => cases h
      | deferred c x => cases h
      | noSuch m x => cases h; rfl
      | err e x =>
        exfalso
        unfold evalIn at hev
        cases he : Simp.evaluateE (fun n => t₁.get n) Front.isRegister a with
        | ok ev x => rw [he] at hev; simp only at hev; split at hev <;> cases hev
        | nosuch m x => rw [he] at hev; cases hev
        | err e2 x => rw [he] at hev; cases hev; cases e2 <;> simp [evalE] at h
        | panic => rw [he] at hev; cases hev
    exact frontEval_congr t₂ _ _ (data_retry hs hn hp this)
  · simp only [frontEval, hev] at h
    cases ev with
    | complete x => cases h
    | deferred c' x => exact evalIn_not_deferred hn a c' x hev
    | noSuch n x => cases h
    | err e x => cases e <;> cases h

/-- **`assemble_retry` for the evaluators of `Asm`**: first attempt over `t₁` deferred, re-run over `t₂ ⊇ t₁` -/
theorem assemble_retry_tables {t₁ t₂ : Table} (hs : Table.Sub t₁ t₂) (hn : Table.NoDef t₁) (addr : Nat) (t : Instr)
    (args : List Arg) (hp : ∀ a ∈ args, plainArg a = true) (fs1 : Front.St) (c : Bytes)
    (h1 : Front.assemble ⟨addr, t, 0, args⟩ (frontEval t₁) true = (fs1, .deferred c)) (loc : Bool) :
    Front.assemble fs1 (frontEval t₂) loc = Front.assemble ⟨addr, t, 0, args⟩ (frontEval t₂) loc :=
  Front.assemble_retry _ _ addr t args (fun a ha => grows_of_tables hs hn (hp a ha)) fs1 c h1 loc

end Trion.Asm
