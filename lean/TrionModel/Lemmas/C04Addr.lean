import TrionModel.Lemmas.C04Eval
/-!
# C04 closed: memory operands `[Rn]`, `[Rn + Rm]`, `[Rn + e]`, `[e + Rn]` through the concrete evaluator

`mem_inv`: the shapes on which the specification `mem` gives a meaning.  `afterRaw_*`: what `simplify_raw` does to
`Rn + Rm`, `Rn + c`, `c + Rn` (`Rn + 0 ↦ Rn`, `Rn + -c ↦ Rn - c`, which `addr_off` refuses).  `mem_sound` /
`mem_complete`: `addr_off` of the evaluated tree against `mem`.
-/
namespace Trion.C04
open Trion Trion.Front Trion.Simp

/-! ## the specification `mem` by shape -/

theorem regIdent_ident (s : Bytes) : regIdent (.ident s) = isRegister s := rfl

theorem mem_regreg (T : SymTable) (b o : Bytes) (hb : isRegister b = true) (ho : isRegister o = true) :
    mem T (.bin .add (.ident b) (.ident o)) =
      match regl b, regl o with
      | some rb, some ro => some (rb, .reg ro)
      | _, _ => none := by
  simp only [mem, hb, ho, if_true]
  cases regl b <;> cases regl o <;> rfl

theorem mem_regexpr (T : SymTable) (b : Bytes) (e : Arg) (hb : isRegister b = true) (he : regIdent e = false) :
    mem T (.bin .add (.ident b) e) =
      match regl b, value T e with
      | some rb, some v => some (rb, .imm v)
      | _, _ => none := by
  cases e <;> simp_all [mem, regIdent] <;> (cases regl b <;> (try rfl) <;> (cases value T _ <;> rfl))

theorem mem_exprreg (T : SymTable) (b : Bytes) (e : Arg) (hb : isRegister b = true) (he : regIdent e = false) :
    mem T (.bin .add e (.ident b)) =
      match value T e, regl b with
      | some v, some rb => some (rb, .imm v)
      | _, _ => none := by
  cases e <;> simp_all [mem, regIdent] <;> (cases value T _ <;> (try rfl) <;> (cases regl b <;> rfl))

/-- the shapes on which `mem` is defined -/
theorem mem_inv {T : SymTable} {x : Arg} {r : Reg} {o : ImmReg} (h : mem T x = some (r, o)) :
    (∃ b, x = .ident b ∧ regl b = some r ∧ o = .imm 0) ∨
    (∃ b b', x = .bin .add (.ident b) (.ident b') ∧ isRegister b = true ∧ isRegister b' = true ∧ regl b = some r ∧
        ∃ ro, regl b' = some ro ∧ o = .reg ro) ∨
    (∃ b e v, x = .bin .add (.ident b) e ∧ isRegister b = true ∧ regIdent e = false ∧ regl b = some r ∧
        value T e = some v ∧ o = .imm v) ∨
    (∃ b e v, x = .bin .add e (.ident b) ∧ isRegister b = true ∧ regIdent e = false ∧ regl b = some r ∧
        value T e = some v ∧ o = .imm v) := by
  cases x with
  | ident b =>
    simp only [mem, Option.map_eq_some_iff, Prod.mk.injEq] at h
    obtain ⟨r0, h1, rfl, rfl⟩ := h
    exact .inl ⟨b, rfl, h1, rfl⟩
  | bin op l r' =>
    cases op <;> try (simp [mem] at h; done)
    by_cases hl : regIdent l = true
    · obtain ⟨b, rfl⟩ : ∃ b, l = .ident b := by cases l <;> simp [regIdent] at hl; exact ⟨_, rfl⟩
      have hb : isRegister b = true := hl
      by_cases hr : regIdent r' = true
      · obtain ⟨b', rfl⟩ : ∃ b', r' = .ident b' := by cases r' <;> simp [regIdent] at hr; exact ⟨_, rfl⟩
        have hb' : isRegister b' = true := hr
        rw [mem_regreg T b b' hb hb'] at h
        cases h1 : regl b with
        | none => simp [h1] at h
        | some rb =>
          cases h2 : regl b' with
          | none => simp [h1, h2] at h
          | some ro =>
            simp only [h1, h2, Option.some.injEq, Prod.mk.injEq] at h
            obtain ⟨rfl, rfl⟩ := h
            exact .inr (.inl ⟨b, b', rfl, hb, hb', h1, ro, h2, rfl⟩)
      · have hr' : regIdent r' = false := by simpa using hr
        rw [mem_regexpr T b r' hb hr'] at h
        cases h1 : regl b with
        | none => simp [h1] at h
        | some rb =>
          cases h2 : value T r' with
          | none => simp [h1, h2] at h
          | some v =>
            simp only [h1, h2, Option.some.injEq, Prod.mk.injEq] at h
            obtain ⟨rfl, rfl⟩ := h
            exact .inr (.inr (.inl ⟨b, r', v, rfl, hb, hr', h1, h2, rfl⟩))
    · have hl' : regIdent l = false := by simpa using hl
      by_cases hr : regIdent r' = true
      · obtain ⟨b, rfl⟩ : ∃ b, r' = .ident b := by cases r' <;> simp [regIdent] at hr; exact ⟨_, rfl⟩
        have hb : isRegister b = true := hr
        rw [mem_exprreg T b l hb hl'] at h
        cases h2 : value T l with
        | none => simp [h2] at h
        | some v =>
          cases h1 : regl b with
          | none => simp [h1, h2] at h
          | some rb =>
            simp only [h1, h2, Option.some.injEq, Prod.mk.injEq] at h
            obtain ⟨rfl, rfl⟩ := h
            exact .inr (.inr (.inr ⟨b, l, v, rfl, hb, hl', h1, h2, rfl⟩))
      · have hr' : regIdent r' = false := by simpa using hr
        exfalso
        cases l <;> cases r' <;> simp_all [mem, regIdent]
  | _ => simp [mem] at h

/-! ## `simplify_raw` on the three shapes -/

theorem afterRaw_regreg (ev : Ev) (b o : Bytes) :
    afterRaw ev (.bin .add (.ident b) (.ident o)) = .ok (ev.or ⟨false, none⟩, .bin .add (.ident b) (.ident o)) := by
  simp [afterRaw, simplifyRaw, isBad, cval, merge, mergeL, mergeR, findC, preInv, neutralizeRaw, neutralizeBin, normAddSub, stripNeg,
    neutralTail, neutralMain]

theorem afterRaw_regconst_pos (ev : Ev) (b : Bytes) (c : Int) (hc : 0 < c) :
    afterRaw ev (.bin .add (.ident b) (.const c)) = .ok (ev.or ⟨false, none⟩, .bin .add (.ident b) (.const c)) := by
  have h1 : ¬ c < 0 := by omega
  have h2 : c ≠ 0 := by omega
  simp [afterRaw, simplifyRaw, isBad, cval, merge, mergeL, mergeR, findC, preInv, neutralizeRaw, neutralizeBin, normAddSub, stripNeg,
    neutralTail, neutralMain, neutralR, h1, h2]

theorem afterRaw_regconst_zero (ev : Ev) (b : Bytes) :
    afterRaw ev (.bin .add (.ident b) (.const 0)) = .ok (ev.or ⟨false, none⟩, .ident b) := by
  simp [afterRaw, simplifyRaw, isBad, cval, merge, mergeL, mergeR, findC, preInv, neutralizeRaw, neutralizeBin, normAddSub, stripNeg,
    neutralTail, neutralMain, neutralR]

theorem afterRaw_regconst_neg (ev : Ev) (b : Bytes) (c : Int) (hc : c < 0) :
    (∃ e, afterRaw ev (.bin .add (.ident b) (.const c)) = .err e) ∨
    (∃ ev' y, afterRaw ev (.bin .add (.ident b) (.const c)) = .ok (ev', .bin .sub (.ident b) y)) := by
  by_cases hm : checkedNeg c = none
  · left
    simp [afterRaw, simplifyRaw, isBad, cval, merge, mergeL, mergeR, findC, preInv, neutralizeRaw, neutralizeBin, normAddSub, stripNeg, hc, hm]
  · right
    obtain ⟨nv, hnv⟩ := Option.ne_none_iff_exists'.1 hm
    have hnz : nv ≠ 0 := by
      simp only [checkedNeg] at hnv
      obtain ⟨_, rfl⟩ := checked_eq_some.1 hnv
      omega
    simp [afterRaw, simplifyRaw, isBad, cval, merge, mergeL, mergeR, findC, preInv, neutralizeRaw, neutralizeBin, normAddSub, stripNeg, hc, hnv,
      neutralTail, neutralMain, neutralR, hnz]

theorem afterRaw_constreg_zero (ev : Ev) (b : Bytes) :
    afterRaw ev (.bin .add (.const 0) (.ident b)) = .ok (ev.or ⟨false, none⟩, .ident b) := by
  simp [afterRaw, simplifyRaw, isBad, cval, merge, mergeL, mergeR, findC, preInv, neutralizeRaw, neutralizeBin, normAddSub, stripNeg,
    neutralTail, neutralMain, neutralL]

theorem afterRaw_constreg_nz (ev : Ev) (b : Bytes) (c : Int) (hc : c ≠ 0) :
    afterRaw ev (.bin .add (.const c) (.ident b)) = .ok (ev.or ⟨false, none⟩, .bin .add (.const c) (.ident b)) := by
  simp [afterRaw, simplifyRaw, isBad, cval, merge, mergeL, mergeR, findC, preInv, neutralizeRaw, neutralizeBin, normAddSub, stripNeg,
    neutralTail, neutralMain, neutralL, hc]

theorem evaluate_regIdent (lk : Bytes → Lookup) {x : Arg} (h : regIdent x = true) :
    evaluate lk isRegister x = .ok (⟨false, none⟩, x) := by
  cases x <;> simp [regIdent] at h
  simp [evaluate, h]

/-! ## soundness: what `addr_off` reads from the evaluated tree is what `mem` says -/

/-- an immediate offset the front end stores: an `i32`, and — because `Rn + -c` is rewritten to `Rn - c` — not negative
when written after the register -/
def immOk : ImmReg → Prop
  | .imm v => inI32 v
  | .reg _ => True

theorem addrOff_const (idx : Nat) (v : Int) : addrOff idx (.const v) = .error (.valueRange idx) := rfl

theorem mem_sound {lk : Bytes → Lookup} (hn : NoDef lk) (hT : Simp.tableOk lk) {x x' : Arg} {e1 : Ev}
    (hd : docMem x = true) (hl : lits x = true) (he : evaluate lk isRegister x = .ok (e1, x'))
    {idx : Nat} {r : Reg} {o : Option ImmReg} (ha : addrOff idx x' = .ok (r, o)) :
    ∃ o', o = some o' ∧ mem (tab lk) x = some (r, o') ∧ immOk o' := by
  -- a register-free expression evaluates to a constant, which `addr_off` refuses
  have hexpr : expr x = true → False := by
    intro hx
    obtain ⟨v, rfl⟩ := expr_const hn hx he
    simp [addrOff_const] at ha
  cases x with
  | ident s =>
    by_cases hr : isRegister s = true
    · rw [evaluate_regIdent lk (by simpa [regIdent] using hr)] at he
      cases he
      simp only [addrOff] at ha
      cases h1 : regl s with
      | none => simp [h1] at ha
      | some rb =>
        simp only [h1, Except.ok.injEq, Prod.mk.injEq] at ha
        obtain ⟨rfl, rfl⟩ := ha
        exact ⟨_, rfl, by simp [mem, h1], by simp [immOk, inI32]⟩
    · exact absurd (by simp [expr, hr]) hexpr
  | bin op l r' =>
    cases op
    case add =>
      simp only [docMem, Bool.and_eq_true, Bool.or_eq_true] at hd
      simp only [lits, Bool.and_eq_true] at hl
      rw [evaluate_bin] at he
      rcases hd with ⟨hdl, hdr⟩
      by_cases hl1 : regIdent l = true
      · obtain ⟨b, rfl⟩ : ∃ b, l = .ident b := by cases l <;> simp [regIdent] at hl1; exact ⟨_, rfl⟩
        have hb : isRegister b = true := hl1
        rw [evaluate_regIdent lk hl1] at he
        by_cases hr1 : regIdent r' = true
        · obtain ⟨b', rfl⟩ : ∃ b', r' = .ident b' := by cases r' <;> simp [regIdent] at hr1; exact ⟨_, rfl⟩
          have hb' : isRegister b' = true := hr1
          rw [evaluate_regIdent lk hr1] at he
          simp only [afterRaw_regreg] at he
          cases he
          simp only [addrOff] at ha
          rw [mem_regreg _ b b' hb hb']
          cases h1 : regl b with
          | none => simp [h1] at ha
          | some rb =>
            cases h2 : regl b' with
            | none => simp [h1, h2] at ha
            | some ro =>
              simp only [h1, h2, Except.ok.injEq, Prod.mk.injEq] at ha
              obtain ⟨rfl, rfl⟩ := ha
              exact ⟨_, rfl, rfl, trivial⟩
        · have hr1' : regIdent r' = false := by simpa using hr1
          have hre : expr r' = true := by rcases hdr with h | h; exact absurd h hr1; exact h
          cases h2 : evaluate lk isRegister r' with
          | ok q =>
            obtain ⟨e2, r2⟩ := q
            obtain ⟨c, rfl⟩ := expr_const hn hre h2
            have hv : value (tab lk) r' = some c := evaluate_value hT hl.2 h2
            rw [h2] at he
            simp only at he
            rw [mem_regexpr _ b r' hb hr1', hv]
            rcases Int.lt_trichotomy c 0 with hc | hc | hc
            · rcases afterRaw_regconst_neg (Ev.or ⟨false, none⟩ e2) b c hc with ⟨e, hE⟩ | ⟨ev', y, hE⟩
              · rw [hE] at he; cases he
              · rw [hE] at he; cases he
                cases y <;> simp [addrOff] at ha
            · subst hc
              rw [afterRaw_regconst_zero] at he
              cases he
              simp only [addrOff] at ha
              cases h1 : regl b with
              | none => simp [h1] at ha
              | some rb =>
                simp only [h1, Except.ok.injEq, Prod.mk.injEq] at ha
                obtain ⟨rfl, rfl⟩ := ha
                exact ⟨_, rfl, rfl, by simp [immOk, inI32]⟩
            · rw [afterRaw_regconst_pos _ _ _ hc] at he
              cases he
              simp only [addrOff] at ha
              cases h3 : narrowI32 c with
              | none => simp [h3] at ha
              | some w =>
                have hw : w = c ∧ inI32 c := by
                  unfold narrowI32 at h3
                  split at h3
                  · cases h3; exact ⟨rfl, by assumption⟩
                  · cases h3
                cases h1 : regl b with
                | none => simp [h3, h1] at ha
                | some rb =>
                  simp only [h3, h1, Except.ok.injEq, Prod.mk.injEq] at ha
                  obtain ⟨rfl, rfl⟩ := ha
                  exact ⟨_, rfl, by rw [hw.1], by rw [hw.1]; exact hw.2⟩
          | err e => rw [h2] at he; cases he
          | panic => rw [h2] at he; cases he
      · have hl1' : regIdent l = false := by simpa using hl1
        have hle : expr l = true := by rcases hdl with h | h; exact absurd h hl1; exact h
        by_cases hr1 : regIdent r' = true
        · obtain ⟨b, rfl⟩ : ∃ b, r' = .ident b := by cases r' <;> simp [regIdent] at hr1; exact ⟨_, rfl⟩
          have hb : isRegister b = true := hr1
          cases h2 : evaluate lk isRegister l with
          | ok q =>
            obtain ⟨e2, l2⟩ := q
            obtain ⟨c, rfl⟩ := expr_const hn hle h2
            have hv : value (tab lk) l = some c := evaluate_value hT hl.1 h2
            rw [h2, evaluate_regIdent lk hr1] at he
            simp only at he
            rw [mem_exprreg _ b l hb hl1', hv]
            by_cases hc : c = 0
            · subst hc
              rw [afterRaw_constreg_zero] at he
              cases he
              simp only [addrOff] at ha
              cases h1 : regl b with
              | none => simp [h1] at ha
              | some rb =>
                simp only [h1, Except.ok.injEq, Prod.mk.injEq] at ha
                obtain ⟨rfl, rfl⟩ := ha
                exact ⟨_, rfl, rfl, by simp [immOk, inI32]⟩
            · rw [afterRaw_constreg_nz _ _ _ hc] at he
              cases he
              simp only [addrOff] at ha
              cases h3 : narrowI32 c with
              | none => simp [h3] at ha
              | some w =>
                have hw : w = c ∧ inI32 c := by
                  unfold narrowI32 at h3
                  split at h3
                  · cases h3; exact ⟨rfl, by assumption⟩
                  · cases h3
                cases h1 : regl b with
                | none => simp [h3, h1] at ha
                | some rb =>
                  simp only [h3, h1, Except.ok.injEq, Prod.mk.injEq] at ha
                  obtain ⟨rfl, rfl⟩ := ha
                  exact ⟨_, rfl, by rw [hw.1], by rw [hw.1]; exact hw.2⟩
          | err e => rw [h2] at he; cases he
          | panic => rw [h2] at he; cases he
        · have hre : expr r' = true := by rcases hdr with h | h; exact absurd h hr1; exact h
          exact absurd (by simp [expr, hle, hre]) hexpr
    all_goals exact absurd hd hexpr
  | const v => exact absurd rfl hexpr
  | str s => simp [docMem, expr] at hd
  | neg a => exact absurd hd hexpr
  | not a => exact absurd hd hexpr
  | addr a => simp [docMem, expr] at hd
  | seq as => simp [docMem, expr] at hd
  | func n as => simp [docMem, expr] at hd

/-! ## completeness: a memory operand with a meaning (and an offset the instruction could hold) is read as that -/

/-- offsets the front end can accept after the register: an `i32` that is not negative -/
def immOkNonneg : ImmReg → Prop
  | .imm v => 0 ≤ v ∧ v ≤ 2147483647
  | .reg _ => True

theorem narrowI32_ok {v : Int} (h : inI32 v) : narrowI32 v = some v := by
  unfold narrowI32; exact if_pos h

theorem mem_complete (lk : Bytes → Lookup) {x : Arg} {r : Reg} {o : ImmReg}
    (hm : mem (tab lk) x = some (r, o)) (ho : immOkNonneg o) :
    ∃ e1 x', evaluate lk isRegister x = .ok (e1, x') ∧ isBad x' = false ∧ ∀ idx, addrOff idx x' = .ok (r, some o) := by
  rcases mem_inv hm with ⟨b, rfl, h1, rfl⟩ | ⟨b, b', rfl, hb, hb', h1, ro, h2, rfl⟩ |
      ⟨b, e, v, rfl, hb, hre, h1, hv, rfl⟩ | ⟨b, e, v, rfl, hb, hre, h1, hv, rfl⟩
  · have hb : isRegister b = true := by
      simp only [regl] at h1
      split at h1
      · rename_i h4
        have h8 : b.length ≤ 8 := by omega
        simp [isRegister, h1, h8]
      · cases h1
    exact ⟨_, .ident b, evaluate_regIdent lk (by simpa [regIdent] using hb), rfl, fun idx => by simp [addrOff, h1]⟩
  · have hev : ∃ e1, evaluate lk isRegister (.bin .add (.ident b) (.ident b')) = .ok (e1, .bin .add (.ident b) (.ident b')) :=
      ⟨_, by rw [evaluate_bin, evaluate_regIdent lk (show regIdent (.ident b) = true from hb),
        evaluate_regIdent lk (show regIdent (.ident b') = true from hb')]; simp only [afterRaw_regreg]; rfl⟩
    obtain ⟨e1, hev⟩ := hev
    exact ⟨e1, _, hev, rfl, fun idx => by simp [addrOff, h1, h2]⟩
  · obtain ⟨e2, h2⟩ := value_evaluate lk e v hv
    simp only [immOkNonneg] at ho
    rcases Int.lt_or_eq_of_le ho.1 with hc | hc
    · have hev : ∃ e1, evaluate lk isRegister (.bin .add (.ident b) e) = .ok (e1, .bin .add (.ident b) (.const v)) :=
        ⟨_, by rw [evaluate_bin, evaluate_regIdent lk (show regIdent (.ident b) = true from hb), h2]
               simp only [afterRaw_regconst_pos _ _ _ hc]; rfl⟩
      obtain ⟨e1, hev⟩ := hev
      exact ⟨e1, _, hev, rfl, fun idx => by simp [addrOff, h1, narrowI32_ok (show inI32 v from ⟨by omega, ho.2⟩)]⟩
    · subst hc
      have hev : ∃ e1, evaluate lk isRegister (.bin .add (.ident b) e) = .ok (e1, .ident b) :=
        ⟨_, by rw [evaluate_bin, evaluate_regIdent lk (show regIdent (.ident b) = true from hb), h2]
               simp only [afterRaw_regconst_zero]; rfl⟩
      obtain ⟨e1, hev⟩ := hev
      exact ⟨e1, _, hev, rfl, fun idx => by simp [addrOff, h1]⟩
  · obtain ⟨e2, h2⟩ := value_evaluate lk e v hv
    simp only [immOkNonneg] at ho
    by_cases hc : v = 0
    · subst hc
      have hev : ∃ e1, evaluate lk isRegister (.bin .add e (.ident b)) = .ok (e1, .ident b) :=
        ⟨_, by rw [evaluate_bin, h2, evaluate_regIdent lk (show regIdent (.ident b) = true from hb)]
               simp only [afterRaw_constreg_zero]; rfl⟩
      obtain ⟨e1, hev⟩ := hev
      exact ⟨e1, _, hev, rfl, fun idx => by simp [addrOff, h1]⟩
    · have hev : ∃ e1, evaluate lk isRegister (.bin .add e (.ident b)) = .ok (e1, .bin .add (.const v) (.ident b)) :=
        ⟨_, by rw [evaluate_bin, h2, evaluate_regIdent lk (show regIdent (.ident b) = true from hb)]
               simp only [afterRaw_constreg_nz _ _ _ hc]; rfl⟩
      obtain ⟨e1, hev⟩ := hev
      exact ⟨e1, _, hev, rfl, fun idx => by simp [addrOff, h1, narrowI32_ok (show inI32 v from ⟨by omega, ho.2⟩)]⟩

end Trion.C04
