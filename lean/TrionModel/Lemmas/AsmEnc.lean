import TrionModel.Lemmas.AsmBase
/-!
# The encoder's output length depends on the instruction's constructor only (`EncLen encoder`)
-/
namespace Trion.Asm
open Trion

theorem toBytes_length (l : List Nat) : (Codec.toBytes l).length = 2 * l.length := by
  induction l with
  | nil => rfl
  | cons h t ih => simp only [Codec.toBytes, List.length_cons, ih]; omega

set_option maxHeartbeats 1600000 in
theorem encode_len (i : Instr) (hws : List Nat) (h : Codec.encode i = .ok hws) : 2 * hws.length = ilen i := by
  unfold Codec.encode at h
  split at h
  all_goals (try simp only [Codec.lo2, Codec.lo3, Codec.unrep] at h)
  all_goals (repeat' split at h)
  all_goals (first | (cases h; done) | (cases h; rfl) | skip)

theorem encoder_len : EncLen encoder := by
  intro i bs h
  unfold encoder Codec.encodeInto at h
  cases he : Codec.encode i with
  | error e => rw [he] at h; cases e <;> simp at h
  | ok hws =>
    rw [he] at h
    simp only at h
    split at h
    · rename_i bs' hb
      split at hb
      · cases hb
      · cases hb
        cases h
        rw [List.length_map, toBytes_length]
        exact encode_len i hws he
    · cases h
    · cases h

end Trion.Asm
