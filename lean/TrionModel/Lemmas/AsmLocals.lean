import TrionModel.Lemmas.AsmLoud
import TrionModel.Lemmas.AsmAbs
/-!
# The symbol table of a file only grows (single file, no `.include/.global/.import/.export`)
-/
namespace Trion.Asm
open Trion

/-- the table of `st'` extends the table of `st` -/
def LocSub (st st' : St) : Prop := ∀ t, st.locals = some t → ∃ t', st'.locals = some t' ∧ Table.Sub t t'

theorem LocSub.refl (st : St) : LocSub st st := fun t h => ⟨t, h, Table.Sub.refl t⟩

theorem LocSub.trans {a b c : St} (h1 : LocSub a b) (h2 : LocSub b c) : LocSub a c := by
  intro t ht
  obtain ⟨t1, e1, s1⟩ := h1 t ht
  obtain ⟨t2, e2, s2⟩ := h2 t1 e1
  exact ⟨t2, e2, s1.trans s2⟩

theorem LocSub.of_eq {st st' : St} (h : st'.locals = st.locals) : LocSub st st' := fun t ht => ⟨t, by rw [h, ht], Table.Sub.refl t⟩

theorem Table.sub_set' {t : Table} {n : Bytes} (h : ∀ w, t.find n ≠ some (some w)) (v : Option Int) : Table.Sub t (t.set n v) := by
  intro m w hm
  rw [find_set]
  by_cases e : n = m
  · subst e; exact absurd hm (h w)
  · rw [if_neg e]; exact hm

theorem insertConstant_loc {st st' : St} {n : Bytes} {v : Int} {x : Except CErr Bool}
    (h : insertConstant st n v .loc = .ok (st', x)) : LocSub st st' := by
  unfold insertConstant at h
  split at h
  · cases h; exact LocSub.refl _
  · simp only at h
    cases hl : st.locals with
    | none => rw [hl] at h; cases h
    | some l =>
      rw [hl] at h
      simp only at h
      cases hf : l.find n with
      | none =>
        rw [hf] at h; cases h
        intro t ht; rw [hl] at ht; cases ht
        exact ⟨_, rfl, Table.sub_set' (by simp [hf]) _⟩
      | some o =>
        rw [hf] at h
        cases o with
        | none =>
          cases h
          intro t ht; rw [hl] at ht; cases ht
          exact ⟨_, rfl, Table.sub_set' (by simp [hf]) _⟩
        | some w => cases h; exact LocSub.refl _

theorem addTask_loc {st st' : St} {t : Task} {r : Realm} (h : addTask st t r = .ok st') : st'.locals = st.locals := by
  unfold addTask at h
  repeat' split at h
  all_goals (first | (cases h; done) | (cases h; rfl))

theorem writeData_loc {d d' : DataExpr} {st st' : St} {bytes : Bytes} {r : Res}
    (h : d.writeData st bytes = .ok (d', st', r)) : st'.locals = st.locals := by
  unfold DataExpr.writeData at h
  repeat' split at h
  all_goals (first | (cases h; done) | (cases h; rfl))

theorem writer_loc {d d' : DataExpr} {st st' : St} {r : Res}
    (h : d.writer st = .ok (d', st', r)) : st'.locals = st.locals := by
  unfold DataExpr.writer at h
  repeat' split at h
  all_goals (first | exact writeData_loc h | (cases h; rfl))

theorem apply_loc {d d' : DataExpr} {env : Env} {st st' : St} {loc : Bool} {op : Op}
    (h : d.apply env st loc = .ok (d', st', op)) : st'.locals = st.locals := by
  unfold DataExpr.apply at h
  repeat' split at h
  all_goals (first | (cases h; done) | skip)
  all_goals (try (have w := writer_loc ‹DataExpr.writer _ _ = _›))
  all_goals (cases h; first | rfl | assumption)

theorem duDirective_loc {du : DU} {env : Env} {st : St} {line col : Nat} {args : List Arg} :
    ∀ st' r, duDirective du env st line col args = .ok (st', r) → st'.locals = st.locals := by
  unfold duDirective
  splits
  all_goals (intro st' r h)
  all_goals (first | (cases h; done) | skip)
  all_goals (try (have w1 := apply_loc ‹DataExpr.apply _ _ _ _ = _›))
  all_goals (try (have w2 := writeData_loc ‹DataExpr.writeData _ _ _ = _›))
  all_goals (try (have w3 := addTask_loc ‹DataExpr.schedule _ _ _ = _›))
  all_goals (cases h; first | rfl | (simp_all; done))

theorem assembleI_loc {i : ArmInstr} {env : Env} {st : St} {loc : Bool} :
    ∀ i' st' op, i.assemble env st loc = .ok (i', st', op) → st'.locals = st.locals := by
  unfold ArmInstr.assemble
  splits
  all_goals (intro i' st' op h)
  all_goals (first | (cases h; done) | skip)
  all_goals (cases h; rfl)

theorem writeInstr_loc {enc : Encoder} {i : ArmInstr} {st : St} {df : Bool} :
    ∀ i' st' r, i.writeInstr enc st df = .ok (i', st', r) → st'.locals = st.locals := by
  unfold ArmInstr.writeInstr
  splits
  all_goals (intro i' st' r h)
  all_goals (first | (cases h; done) | skip)
  all_goals (cases h; rfl)

theorem instruction_loc {enc : Encoder} {env : Env} {st : St} {line col : Nat} {name : Bytes} {args : List Arg} :
    ∀ st' r, instruction enc env st line col name args = .ok (st', r) → st'.locals = st.locals := by
  unfold instruction
  splits
  all_goals (intro st' r h)
  all_goals (first | (cases h; done) | skip)
  all_goals (try (have w1 := assembleI_loc _ _ _ ‹ArmInstr.assemble _ _ _ _ = _›))
  all_goals (try (have w2 := writeInstr_loc _ _ _ ‹ArmInstr.writeInstr _ _ _ _ = _›))
  all_goals (try (have w3 := addTask_loc ‹ArmInstr.schedule _ _ _ = _›))
  all_goals (cases h; first | rfl | (simp_all; done))

theorem evalStrict_loc {dir : String} {env : Env} {st st' : St} {line col : Nat} {a : Arg} {r : Res}
    (h : evalStrict dir env st line col a = .ok (.error (st', r))) : st'.locals = st.locals := by
  unfold evalStrict at h
  repeat' split at h
  all_goals (first | (cases h; done) | skip)
  all_goals (cases h; rfl)

theorem addrDirective_loc {env : Env} {st : St} {line col : Nat} {args : List Arg} :
    ∀ st' r, addrDirective env st line col args = .ok (st', r) → st'.locals = st.locals := by
  unfold addrDirective
  splits
  all_goals (intro st' r h)
  all_goals (first | (cases h; done) | skip)
  all_goals (try (have w1 := evalStrict_loc ‹evalStrict _ _ _ _ _ _ = _›))
  all_goals (cases h; first | rfl | assumption)

theorem alignDirective_loc {env : Env} {st : St} {line col : Nat} {args : List Arg} :
    ∀ st' r, alignDirective env st line col args = .ok (st', r) → st'.locals = st.locals := by
  unfold alignDirective
  splits
  all_goals (intro st' r h)
  all_goals (first | (cases h; done) | skip)
  all_goals (try (have w1 := evalStrict_loc ‹evalStrict _ _ _ _ _ _ = _›))
  all_goals (cases h; first | rfl | assumption)

theorem constDirective_loc {env : Env} {st : St} {line col : Nat} {args : List Arg} :
    ∀ st' r, constDirective env st line col args = .ok (st', r) → LocSub st st' := by
  unfold constDirective
  splits
  all_goals (intro st' r h)
  all_goals (first | (cases h; done) | skip)
  all_goals (try (have w1 := evalStrict_loc ‹evalStrict _ _ _ _ _ _ = _›))
  all_goals (try (have w2 := insertConstant_loc ‹insertConstant _ _ _ _ = _›))
  all_goals (cases h; first | exact LocSub.refl _ | exact LocSub.of_eq (by assumption) | assumption | exact LocSub.of_eq rfl |
    exact w2.trans (LocSub.of_eq rfl))

theorem appendData_loc {dir : String} {env : Env} {st : St} {line col : Nat} {d : Bytes} :
    ∀ st' r, appendData dir env st line col d = .ok (st', r) → st'.locals = st.locals := by
  unfold appendData
  splits
  all_goals (intro st' r h)
  all_goals (first | (cases h; done) | skip)
  all_goals (cases h; rfl)

theorem stringDirective_loc {fs : Bytes → Option Bytes} {dir : String} {env : Env} {st : St} {line col : Nat}
    {args : List Arg} :
    ∀ st' r, stringDirective fs dir env st line col args = .ok (st', r) → st'.locals = st.locals := by
  unfold stringDirective
  splits
  all_goals (first | exact appendData_loc | skip)
  all_goals (intro st' r h)
  all_goals (first | (cases h; done) | skip)
  all_goals (cases h; rfl)

theorem statement_loc {fs : Bytes → Option Bytes} {enc : Encoder} {inc : Inc} {env : Env} {st : St} {el : Element}
    (hok : okEl el = true) : ∀ st' r, statement fs enc inc env st el = .ok (st', r) → LocSub st st' := by
  intro st' r h
  obtain ⟨line, col, val⟩ := el
  cases val with
  | label name =>
    simp only [statement] at h
    repeat' split at h
    all_goals (first | (cases h; done) | skip)
    all_goals (try (have w2 := insertConstant_loc ‹insertConstant _ _ _ _ = _›))
    all_goals (cases h; first | exact LocSub.refl _ | assumption | exact LocSub.of_eq rfl | exact w2.trans (LocSub.of_eq rfl))
  | instruction name args =>
    simp only [statement] at h
    split at h
    · cases h; exact LocSub.of_eq rfl
    · exact LocSub.of_eq (instruction_loc _ _ h)
  | directive name args =>
    simp only [okEl, Bool.not_eq_true', Bool.or_eq_false_iff, decide_eq_false_iff_not] at hok
    obtain ⟨⟨⟨hn1, hn2⟩, hn3⟩, hn4⟩ := hok
    simp only [statement] at h
    unfold directive at h
    by_cases h0 : name = bytesOf "addr"
    · rw [if_pos h0] at h; exact LocSub.of_eq (addrDirective_loc _ _ h)
    rw [if_neg h0] at h
    by_cases h1 : name = bytesOf "align"
    · rw [if_pos h1] at h; exact LocSub.of_eq (alignDirective_loc _ _ h)
    rw [if_neg h1] at h
    by_cases h2 : name = bytesOf "const"
    · rw [if_pos h2] at h; exact constDirective_loc _ _ h
    rw [if_neg h2] at h
    by_cases h3 : name = bytesOf "du8"
    · rw [if_pos h3] at h; exact LocSub.of_eq (duDirective_loc _ _ h)
    rw [if_neg h3] at h
    by_cases h4 : name = bytesOf "du16"
    · rw [if_pos h4] at h; exact LocSub.of_eq (duDirective_loc _ _ h)
    rw [if_neg h4] at h
    by_cases h5 : name = bytesOf "du32"
    · rw [if_pos h5] at h; exact LocSub.of_eq (duDirective_loc _ _ h)
    rw [if_neg h5] at h
    by_cases h6 : name = bytesOf "dhex"
    · rw [if_pos h6] at h; exact LocSub.of_eq (stringDirective_loc _ _ h)
    rw [if_neg h6] at h
    by_cases h7 : name = bytesOf "dstr"
    · rw [if_pos h7] at h; exact LocSub.of_eq (stringDirective_loc _ _ h)
    rw [if_neg h7] at h
    by_cases h8 : name = bytesOf "dfile"
    · rw [if_pos h8] at h; exact LocSub.of_eq (stringDirective_loc _ _ h)
    rw [if_neg h8] at h
    rw [if_neg hn2, if_neg hn3, if_neg hn4, if_neg hn1] at h
    cases h
    exact LocSub.of_eq rfl

theorem doAssemble_loc {fs : Bytes → Option Bytes} {enc : Encoder} {inc : Inc} {env : Env} (err : Option ParseErr) :
    ∀ (els : List Element) (st st' : St) (r : Res), (∀ el ∈ els, okEl el = true) →
      doAssemble fs enc inc env els err st = .ok (st', r) → LocSub st st' := by
  intro els
  induction els with
  | nil =>
    intro st st' r _ h
    cases err <;> simp only [doAssemble] at h <;> (cases h; first | exact LocSub.refl _ | exact LocSub.of_eq rfl)
  | cons el els ih =>
    intro st st' r hok h
    simp only [doAssemble] at h
    split at h
    · rename_i st1 hs
      exact (statement_loc (hok el List.mem_cons_self) _ _ hs).trans
        (ih _ _ _ (fun x hx => hok x (List.mem_cons_of_mem _ hx)) h)
    · rename_i st1 lv hs
      cases h
      exact statement_loc (hok el List.mem_cons_self) _ _ hs
    · cases h

end Trion.Asm
