import TrionModel.Lemmas.C04DiagRun
import TrionModel.Lemmas.AsmBlame1
/-!
# positions AND instruction kinds: `PAtK` (kind-aware `PAt`), through tasks, both loops, `finalize`, and `run`
-/
namespace Trion.C04
open Trion Trion.Front

structure PAtK (f : Bytes) (l c : Nat) (st : Asm.St) : Prop where
  errs : ∀ d ∈ st.errors, d.at f l c ∧ Asm.pushesC .ins d.kind = true
  gt : ∀ t ∈ st.globalTasks, t.at f l c ∧ Asm.taskC .ins t = true
  lt : ∀ q, st.localTasks = some q → ∀ t ∈ q, t.at f l c ∧ Asm.taskC .ins t = true

theorem patK_of_effK {f : Bytes} {l c : Nat} {st st' : Asm.St} (hp : PAtK f l c st) (he : Asm.EffK .ins f l c st st') :
    PAtK f l c st' := by
  refine ⟨fun d hd => ?_, fun t ht => ?_, fun q hq' t ht => ?_⟩
  · rcases he.1 d hd with h | h
    · exact hp.errs d h
    · exact h
  · rcases he.2.1 t ht with h | h
    · exact hp.gt t h
    · exact h
  · rcases he.2.2 q hq' t ht with ⟨q0, h0, h1⟩ | h
    · exact hp.lt q0 h0 t h1
    · exact h

theorem runTask_patK {enc : Asm.Encoder} {env : Asm.Env} {f : Bytes} {l c : Nat} {st st' : Asm.St} {t : Asm.Task} {r : Asm.Res}
    (ht : t.at f l c ∧ Asm.taskC .ins t = true) (hp : PAtK f l c st) (h : Asm.runTask enc env st t = .ok (st', r)) :
    PAtK f l c st' := by
  cases t with
  | data d g => exact absurd ht.2 (by simp [Asm.taskC])
  | instr i g =>
    obtain ⟨⟨rfl, rfl, rfl⟩, _⟩ := ht
    exact patK_of_effK hp (Asm.runInstrTask_effK _ _ h)
  | globalCopy n l' c' => exact absurd ht.2 (by simp [Asm.taskC])

theorem localRound_patK {enc : Asm.Encoder} {env : Asm.Env} {f : Bytes} {l c : Nat} :
    ∀ (ts : List Asm.Task) (st : Asm.St) (res : Asm.Res), (∀ t ∈ ts, t.at f l c ∧ Asm.taskC .ins t = true) → PAtK f l c st →
      ∀ st' r, Asm.localRound enc env ts st res = .ok (st', r) → PAtK f l c st' := by
  intro ts
  induction ts with
  | nil => intro st res _ hp st' r h; simp only [Asm.localRound] at h; cases h; exact hp
  | cons t ts ih =>
    intro st res hts hp st' r h
    simp only [Asm.localRound] at h
    have ht := hts t List.mem_cons_self
    have hts' : ∀ x ∈ ts, x.at f l c ∧ Asm.taskC .ins x = true := fun x hx => hts x (List.mem_cons_of_mem _ hx)
    split at h
    · rename_i st1 hr
      exact ih st1 res hts' (runTask_patK ht hp hr) _ _ h
    · rename_i st1 lv hr
      have p1 := runTask_patK ht hp hr
      split at h
      · cases h; exact p1
      · exact ih st1 _ hts' p1 _ _ h
    · cases h

theorem localLoop_patK {enc : Asm.Encoder} {env : Asm.Env} {f : Bytes} {l c : Nat} :
    ∀ (n : Nat) (ts : List Asm.Task) (st : Asm.St) (res : Asm.Res), (∀ t ∈ ts, t.at f l c ∧ Asm.taskC .ins t = true) → PAtK f l c st →
      ∀ st' r, Asm.localLoop enc env n ts st res = .ok (st', r) → PAtK f l c st' := by
  intro n
  induction n with
  | zero => intro ts st res _ _ st' r h; simp [Asm.localLoop] at h
  | succ n ih =>
    intro ts st res hts hp st' r h
    simp only [Asm.localLoop] at h
    split at h
    · cases h; exact hp
    · split at h
      · rename_i st1 res1 hr
        have p1 := localRound_patK ts st res hts hp _ _ hr
        split at h
        · cases h
        · rename_i new hnew
          have p2 : PAtK f l c { st1 with localTasks := some [] } :=
            ⟨p1.errs, p1.gt, (fun q hq t ht => by cases hq; cases ht)⟩
          split at h
          · cases h; exact p2
          · exact ih new _ res1 (p1.lt new hnew) p2 _ _ h
      · cases h

theorem globalRound_patK {enc : Asm.Encoder} {env : Asm.Env} {f : Bytes} {l c : Nat} : ∀ (ts : List Asm.Task) (st : Asm.St),
    (∀ t ∈ ts, t.at f l c ∧ Asm.taskC .ins t = true) → PAtK f l c st →
    ∀ st' ab, Asm.globalRound enc env ts st = .ok (st', ab) → PAtK f l c st' := by
  intro ts
  induction ts with
  | nil => intro st _ hp st' ab h; simp only [Asm.globalRound] at h; cases h; exact hp
  | cons t ts ih =>
    intro st hts hp st' ab h
    simp only [Asm.globalRound] at h
    split at h
    · rename_i st1 r1 hr
      have p1 := runTask_patK (hts t List.mem_cons_self) hp hr
      split at h
      · cases h; exact p1
      · exact ih st1 (fun x hx => hts x (List.mem_cons_of_mem _ hx)) p1 _ _ h
    · cases h

theorem globalLoop_patK {enc : Asm.Encoder} {env : Asm.Env} {f : Bytes} {l c : Nat} : ∀ (n : Nat) (ts : List Asm.Task) (st : Asm.St),
    (∀ t ∈ ts, t.at f l c ∧ Asm.taskC .ins t = true) → PAtK f l c st →
    ∀ st' ab, Asm.globalLoop enc env n ts st = .ok (st', ab) → PAtK f l c st' := by
  intro n
  induction n with
  | zero => intro ts st _ _ st' ab h; simp [Asm.globalLoop] at h
  | succ n ih =>
    intro ts st hts hp st' ab h
    simp only [Asm.globalLoop] at h
    split at h
    · cases h; exact hp
    · split at h
      · rename_i st1 ab1 hr
        have p1 := globalRound_patK ts st hts hp _ _ hr
        have p2 : PAtK f l c { st1 with globalTasks := [] } := ⟨p1.errs, (fun t ht => by cases ht), p1.lt⟩
        split at h
        · cases h; exact p2
        · exact ih st1.globalTasks _ p1.gt p2 _ _ h
      · cases h

theorem finalize_patK {enc : Asm.Encoder} {env : Asm.Env} {f : Bytes} {l c : Nat} {st st' : Asm.St} {ok : Bool}
    (hp : PAtK f l c st) (h : Asm.finalize enc env st = .ok (st', ok)) : PAtK f l c st' := by
  unfold Asm.finalize at h
  split at h
  · rename_i st2 ab hl
    cases h
    exact globalLoop_patK Asm.rounds st.globalTasks { st with globalTasks := [] } hp.gt
      ⟨hp.errs, (fun t ht => by cases ht), hp.lt⟩ _ _ hl
  · cases h


/-- **from the file body to the outcome of `run`**: if the body of the main file ends in a state that has recorded at
least one diagnostic, all diagnostics and queued tasks being at `(main, l, c)`, then `run` ends in an outcome that is not
a success, has at least one diagnostic, and all its diagnostics are at `(main, l, c)`. -/
theorem run_of_bodyK (fs : Bytes → Option Bytes) (main data : Bytes) (hfs : fs main = some data) (l c : Nat)
    (st4 : Asm.St) (r : Asm.Res)
    (hbody : Asm.fileBody fs Asm.encoder (Asm.assembleFile fs Asm.encoder (Asm.maxDepth - 1)) ⟨[main], main⟩ data init2 = .ok (st4, r))
    (herr : 1 ≤ st4.errors.length) (hpat : PAtK main l c st4) :
    ∃ o, Asm.run fs main = .done o ∧ o.success = false ∧ o.diags ≠ [] ∧ ∀ d ∈ o.diags, d.at main l c ∧ Asm.pushesC .ins d.kind = true := by
  have hA := assembleFile_main_eq fs data main
  rw [hbody] at hA
  simp only at hA
  have hnp := Asm.run_no_panic fs main
  have hnl := Asm.run_no_loop fs main
  unfold Asm.run Asm.runWith at hnp hnl ⊢
  simp only [hfs, hA] at hnp hnl ⊢
  have hpat' : PAtK main l c (Asm.leaveFile none none st4) :=
    ⟨hpat.errs, hpat.gt, fun q hq => by simp [leaveFile_lt] at hq⟩
  cases hc : Seg.closeSegment (Asm.leaveFile none none st4).seg with
  | mk s' out =>
    rw [hc] at hnp hnl
    cases out with
    | diag e =>
      simp only at hnp hnl ⊢
      refine ⟨_, rfl, by simp [Asm.Outcome.success], ?_, ?_⟩
      · simp only [leaveFile_errors, ne_eq, List.reverse_eq_nil_iff]
        intro h0; rw [h0] at herr; simp at herr
      · intro d hd
        exact hpat'.errs d (by simpa using hd)
    | panic => simp at hnp
    | ok =>
      simp only at hnp hnl ⊢
      cases hf : Asm.finalize Asm.encoder Asm.Env.init (⟨s', (Asm.leaveFile none none st4).globals, (Asm.leaveFile none none st4).locals, (Asm.leaveFile none none st4).globalTasks, (Asm.leaveFile none none st4).localTasks, (Asm.leaveFile none none st4).errors⟩ : Asm.St) with
      | stop s =>
        cases s with
        | panic => rw [hf] at hnp; simp at hnp
        | loop => rw [hf] at hnl; simp at hnl
        | fuel => exact absurd hf (Asm.finalize_nf _ _ _)
      | ok p =>
        obtain ⟨st', fin⟩ := p
        simp only
        obtain ⟨hlen, hfin⟩ := Asm.finalize_grew hf
        simp only [leaveFile_errors] at hlen
        have hne : st'.errors ≠ [] := by
          intro h0; rw [h0] at hlen; simp only [List.length_nil] at hlen; omega
        have hff : fin = false := by
          cases fin with
          | false => rfl
          | true => exact absurd (hfin.mp rfl) hne
        have hp2 : PAtK main l c st' := finalize_patK (st := (⟨s', (Asm.leaveFile none none st4).globals, (Asm.leaveFile none none st4).locals, (Asm.leaveFile none none st4).globalTasks, (Asm.leaveFile none none st4).localTasks, (Asm.leaveFile none none st4).errors⟩ : Asm.St))
          ⟨hpat'.errs, hpat'.gt, hpat'.lt⟩ hf
        refine ⟨_, rfl, by simp [Asm.Outcome.success, hff], by simpa using hne, ?_⟩
        intro d hd
        exact hp2.errs d (by simpa using hd)
    | placed => 
      simp only at hnp hnl ⊢
      cases hf : Asm.finalize Asm.encoder Asm.Env.init (⟨s', (Asm.leaveFile none none st4).globals, (Asm.leaveFile none none st4).locals, (Asm.leaveFile none none st4).globalTasks, (Asm.leaveFile none none st4).localTasks, (Asm.leaveFile none none st4).errors⟩ : Asm.St) with
      | stop s =>
        cases s with
        | panic => rw [hf] at hnp; simp at hnp
        | loop => rw [hf] at hnl; simp at hnl
        | fuel => exact absurd hf (Asm.finalize_nf _ _ _)
      | ok p =>
        obtain ⟨st', fin⟩ := p
        simp only
        obtain ⟨hlen, hfin⟩ := Asm.finalize_grew hf
        simp only [leaveFile_errors] at hlen
        have hne : st'.errors ≠ [] := by
          intro h0; rw [h0] at hlen; simp only [List.length_nil] at hlen; omega
        have hff : fin = false := by
          cases fin with
          | false => rfl
          | true => exact absurd (hfin.mp rfl) hne
        have hp2 : PAtK main l c st' := finalize_patK (st := (⟨s', (Asm.leaveFile none none st4).globals, (Asm.leaveFile none none st4).locals, (Asm.leaveFile none none st4).globalTasks, (Asm.leaveFile none none st4).localTasks, (Asm.leaveFile none none st4).errors⟩ : Asm.St))
          ⟨hpat'.errs, hpat'.gt, hpat'.lt⟩ hf
        refine ⟨_, rfl, by simp [Asm.Outcome.success, hff], by simpa using hne, ?_⟩
        intro d hd
        exact hp2.errs d (by simpa using hd)


end Trion.C04
