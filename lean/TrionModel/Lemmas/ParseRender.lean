import TrionModel.Lemmas.ParseMono
import TrionModel.Spec.Render
/-!
# Printer/parser induction: a rendered tree parses back to itself

Levels `0 … 5` are the operator groups (lowest precedence first), level `6` is `parse_unary`.
`Fits lo t m ts`: the token list `ts` may stand wherever an expression of binding strength `m` is
expected, and is then read as `t` — at every level `k ≤ m`, parsing `ts ++ cont` at level `k` is the
same as entering the operator loop of level `k` with `t` already parsed and `cont` remaining.
-/
namespace Trion.Parse

/-- the group of level `k` -/
def grp : Nat → BinOpGroup
  | 0 => .bitOr | 1 => .bitXor | 2 => .bitAnd | 3 => .shift | 4 => .addSub | _ => .divMul

theorem grp_toNat {k : Nat} (h : k < 6) : (grp k).toNat = k := by
  match k, h with
  | 0, _ | 1, _ | 2, _ | 3, _ | 4, _ | 5, _ => rfl

theorem grp_of (g : BinOpGroup) : grp g.toNat = g := by cases g <;> rfl
theorem toNat_lt (g : BinOpGroup) : g.toNat < 6 := by cases g <;> decide

/-- parse at level `k`: `parse_binary(group k)` below 6, `parse_unary` at 6 -/
def parseLvl (lo : LexOut) (k : Nat) (st : Nat × Nat) (ts : List Token) : Res (Arg × List Token) :=
  if k < 6 then binary lo (grp k) st ts else unary lo ts

/-- the operator loop of level `k` (nothing to do at level 6) -/
def loopLvl (lo : LexOut) (k : Nat) (st : Nat × Nat) (lhs : Arg) (cont : List Token) : Res (Arg × List Token) :=
  if k < 6 then binLoop lo (grp k) st lhs cont else .ok (lhs, cont)

theorem operand_grp (lo : LexOut) {k : Nat} (hk : k < 6) (st : Nat × Nat) (ts : List Token) :
    operand lo (grp k) st ts = parseLvl lo (k+1) st ts := by
  match k, hk with
  | 0, _ | 1, _ | 2, _ | 3, _ | 4, _ | 5, _ => simp [operand, parseLvl, grp, BinOpGroup.higher]

/-- the next token ends an expression of level `k`: a stop token or an operator of a group below `k` -/
def endsBelow (k : Nat) : List Token → Prop
  | [] => False
  | t :: _ => t.val.isStop = true ∨ ∃ op, t.val.binOp = some op ∧ op.group.toNat < k

theorem endsBelow_mono {a b : Nat} {cont : List Token} (h : endsBelow a cont) (hab : a ≤ b) : endsBelow b cont := by
  cases cont with
  | nil => exact h
  | cons t r =>
    rcases h with h | ⟨op, h1, h2⟩
    · exact Or.inl h
    · exact Or.inr ⟨op, h1, by omega⟩

theorem endsBelow_six {k : Nat} {cont : List Token} (h : endsBelow k cont) : endsBelow 6 cont := by
  cases cont with
  | nil => exact h
  | cons t r =>
    rcases h with h | ⟨op, h1, _⟩
    · exact Or.inl h
    · exact Or.inr ⟨op, h1, by have := group_le_five op; omega⟩

theorem endsBelow_stop {t : Token} (r : List Token) (k : Nat) (h : t.val.isStop = true) : endsBelow k (t :: r) :=
  Or.inl h

theorem binLoop_done (lo : LexOut) {k k' : Nat} (hk : k < 6) (st : Nat × Nat) (lhs : Arg) {cont : List Token}
    (h : endsBelow k' cont) (hk' : k' ≤ k) : binLoop lo (grp k) st lhs cont = .ok (lhs, cont) := by
  cases cont with
  | nil => exact h.elim
  | cons t r =>
    rw [binLoop_cons]
    rcases h with h | ⟨op, h1, h2⟩
    · simp only [h, if_true]
    · by_cases hs : t.val.isStop = true
      · simp only [hs, if_true]
      · simp only [if_neg hs, h1]
        rw [if_pos (by rw [grp_toNat hk]; omega)]

theorem loopLvl_done (lo : LexOut) {k k' : Nat} (st : Nat × Nat) (lhs : Arg) {cont : List Token}
    (h : endsBelow k' cont) (hk' : k' ≤ k) : loopLvl lo k st lhs cont = .ok (lhs, cont) := by
  unfold loopLvl
  split
  · rename_i hk; exact binLoop_done lo hk st lhs h hk'
  · rfl

theorem op_tok_isStop (op : BinOp) : op.tok.isStop = false := by cases op <;> rfl
theorem op_tok_binOp (op : BinOp) : op.tok.binOp = some op := by cases op <;> rfl

theorem binLoop_step (lo : LexOut) (op : BinOp) (st : Nat × Nat) (lhs : Arg) (t : Token) (r : List Token)
    (ht : t.val = op.tok) :
    binLoop lo op.group st lhs (t :: r) =
      (parseLvl lo (op.group.toNat + 1) st r).bind fun p => binLoop lo op.group st (.bin op lhs p.1) p.2 := by
  rw [binLoop_cons, ht, op_tok_isStop, op_tok_binOp]
  simp only [Bool.false_eq_true, if_false, Nat.lt_irrefl]
  have := operand_grp lo (toNat_lt op.group) st r
  rw [grp_of] at this
  rw [this]

theorem endsBelow_op {t : Token} (r : List Token) (op : BinOp) (k : Nat) (ht : t.val = op.tok)
    (h : op.group.toNat < k) : endsBelow k (t :: r) :=
  Or.inr ⟨op, by rw [ht, op_tok_binOp], h⟩

/-- stepping down from level `k'` to a lower level `k`: the levels in between see a continuation that
is none of their business -/
theorem up (lo : LexOut) (st : Nat × Nat) (X : List Token) (t : Arg) (cont : List Token) :
    ∀ d k k', k' = k + d → parseLvl lo k' st X = loopLvl lo k' st t cont → endsBelow (k+1) cont →
      parseLvl lo k st X = loopLvl lo k st t cont := by
  intro d
  induction d with
  | zero => intro k k' hk h _; subst hk; exact h
  | succ d ih =>
    intro k k' hk h he
    have h1 := ih (k+1) k' (by omega) h (endsBelow_mono he (by omega))
    rw [loopLvl_done lo st t he (Nat.le_refl _)] at h1
    by_cases hk6 : k < 6
    · unfold parseLvl loopLvl
      rw [if_pos hk6, if_pos hk6, binary_eq, operand_grp lo hk6, h1]
      rfl
    · -- both levels are `parse_unary`
      have e1 : parseLvl lo k st X = parseLvl lo (k+1) st X := by
        unfold parseLvl; rw [if_neg hk6, if_neg (by omega)]
      have e2 : loopLvl lo k st t cont = .ok (t, cont) := by
        unfold loopLvl; rw [if_neg hk6]
      rw [e1, e2, h1]

/-- `ts` can stand where strength `m` is required and is read as `t` -/
def Fits (lo : LexOut) (t : Arg) (m : Nat) (ts : List Token) : Prop :=
  ∀ k, k ≤ m → ∀ st cont, endsBelow (k+1) cont →
    parseLvl lo k st (ts ++ cont) = loopLvl lo k st t cont

theorem Fits.mono {lo : LexOut} {t : Arg} {m m' : Nat} {ts : List Token} (h : Fits lo t m ts) (hm : m' ≤ m) :
    Fits lo t m' ts := fun k hk => h k (by omega)

/-- from a unary-level parse to `Fits` at every strength -/
theorem fits_of_unary {lo : LexOut} {t : Arg} {ts : List Token}
    (h : ∀ cont, endsBelow 6 cont → unary lo (ts ++ cont) = .ok (t, cont)) (m : Nat) : Fits lo t m ts := by
  intro k _ st cont he
  by_cases hk : k ≤ 6
  · refine up lo st (ts ++ cont) t cont (6 - k) k 6 (by omega) ?_ he
    unfold parseLvl loopLvl
    rw [if_neg (by omega), if_neg (by omega)]
    exact h cont (endsBelow_six he)
  · unfold parseLvl loopLvl
    rw [if_neg (by omega), if_neg (by omega)]
    exact h cont (endsBelow_six he)

theorem close_ok (lo : LexOut) (e : String) (w : Tok) (t : Token) (r : List Token) (h : t.val = w) :
    close lo e w (t :: r) = .ok r := by
  simp [close, h]

/-- a stop token (here: the closing bracket) ends the expression at level 0 -/
theorem fits_inner {lo : LexOut} {t : Arg} {ts : List Token} (h : Fits lo t 0 ts) (st : Nat × Nat)
    (c : Token) (r : List Token) (hc : c.val.isStop = true) :
    binary lo .bitOr st (ts ++ c :: r) = .ok (t, c :: r) := by
  have h0 := h 0 (Nat.le_refl _) st (c :: r) (endsBelow_stop r 1 hc)
  unfold parseLvl loopLvl at h0
  rw [if_pos (by omega), if_pos (by omega)] at h0
  rw [show grp 0 = .bitOr from rfl] at h0
  rw [h0]
  exact binLoop_done lo (k := 0) (by omega) st t (endsBelow_stop r 0 hc) (Nat.le_refl _)

/-- redundant (or required) parentheses: `( ts )` fits everywhere if `ts` fits at strength 0 -/
theorem fits_paren {lo : LexOut} {t : Arg} {ts : List Token} (h : Fits lo t 0 ts)
    (lp rp : Token) (hl : lp.val = .lparen) (hr : rp.val = .rparen) (m : Nat) :
    Fits lo t m (lp :: ts ++ [rp]) := by
  apply fits_of_unary
  intro cont _
  show unary lo (lp :: (ts ++ [rp] ++ cont)) = _
  rw [unary_cons, hl]
  simp only [List.append_assoc, List.singleton_append]
  rw [fits_inner h _ rp cont (by rw [hr]; rfl)]
  simp only [bind_ok]
  rw [close_ok lo _ _ rp cont hr]
  rfl

/-- a binary operator node: left operand at the operator's group, right operand one above -/
theorem fits_bin {lo : LexOut} {op : BinOp} {l r : Arg} {tl tr : List Token} {to : Token}
    (hl : Fits lo l op.group.toNat tl) (hr : Fits lo r (op.group.toNat + 1) tr) (hto : to.val = op.tok) :
    Fits lo (.bin op l r) op.group.toNat (tl ++ to :: tr) := by
  intro k hk st cont he
  have hg := toNat_lt op.group
  -- at the operator's own level
  have hown : parseLvl lo op.group.toNat st ((tl ++ to :: tr) ++ cont) =
      loopLvl lo op.group.toNat st (.bin op l r) cont := by
    have e : (tl ++ to :: tr) ++ cont = tl ++ (to :: (tr ++ cont)) := by simp
    rw [e, hl _ (Nat.le_refl _) st _ (endsBelow_op _ op _ hto (Nat.lt_succ_self _))]
    unfold loopLvl
    rw [if_pos hg, if_pos hg, grp_of, binLoop_step lo op st l to _ hto,
      hr _ (Nat.le_refl _) st cont (endsBelow_mono he (by omega)),
      loopLvl_done lo st r he (by omega)]
    rfl
  exact up lo st _ _ cont (op.group.toNat - k) k _ (by omega) hown he

theorem paren_false (ts : List Tok) : Render.paren false ts = ts := rfl
theorem paren_true (ts : List Tok) : Render.paren true ts = .lparen :: ts ++ [.rparen] := rfl

/-- what the first token of a rendered expression can be -/
def Tok.startsExpr : Tok → Bool
  | .num _ | .ident _ | .str _ | .minus | .not | .lbrack | .lbrace | .lparen => true
  | _ => false

theorem op_tok_ne_nil : True := trivial

mutual
theorem parg_head (m : Nat) : (p : PArg) → ∃ v vs, Render.parg m p = v :: vs ∧ Tok.startsExpr v = true
  | .const v => ⟨.num v, [], by simp only [Render.parg], rfl⟩
  | .ident s => ⟨.ident s, [], by simp only [Render.parg], rfl⟩
  | .str s => ⟨.str s, [], by simp only [Render.parg], rfl⟩
  | .bin op l r => by
    obtain ⟨v, vs, h, hv⟩ := parg_head op.group.toNat l
    by_cases hp : op.group.toNat < m
    · exact ⟨.lparen, _, by simp only [Render.parg, hp, decide_true, paren_true]; rfl, rfl⟩
    · exact ⟨v, vs ++ op.tok :: Render.parg (op.group.toNat + 1) r,
        by simp only [Render.parg, hp, decide_false, paren_false, h, List.cons_append], hv⟩
  | .neg a => ⟨.minus, _, by simp only [Render.parg]; rfl, rfl⟩
  | .not a => ⟨.not, _, by simp only [Render.parg]; rfl, rfl⟩
  | .addr a => ⟨.lbrack, _, by simp only [Render.parg]; rfl, rfl⟩
  | .seq as => ⟨.lbrace, _, by simp only [Render.parg]; rfl, rfl⟩
  | .func name as => ⟨.ident name, _, by simp only [Render.parg]; rfl, rfl⟩
  | .paren a => ⟨.lparen, _, by simp only [Render.parg]; rfl, rfl⟩
end

theorem startsExpr_not_argsEnd {v : Tok} (h : Tok.startsExpr v = true) : v.isArgsEnd = false := by
  cases v <;> simp_all [Tok.startsExpr, Tok.isArgsEnd]

/-- the induction: every rendering of a tree with (possibly redundant) parentheses fits its context -/
structure ArgsFit (lo : LexOut) (as : Args) (ts : List Token) : Prop where
  args : ∀ c r, c.val.isArgsEnd = true → args lo (ts ++ c :: r) = .ok (as, c :: r)
  loop : as ≠ .nil → ∀ c r, c.val.isArgsEnd = true → argsLoop lo (ts ++ c :: r) = .ok (as, c :: r)

theorem argsEnd_stop {v : Tok} (h : v.isArgsEnd = true) : v.isStop = true := by
  cases v <;> simp_all [Tok.isStop, Tok.isArgsEnd]

theorem exists_of_map_eq_cons {ts : List Token} {v : Tok} {vs : List Tok} (h : ts.map (·.val) = v :: vs) :
    ∃ t ts', ts = t :: ts' ∧ t.val = v ∧ ts'.map (·.val) = vs := by
  cases ts with
  | nil => simp at h
  | cons t ts' => simp at h; exact ⟨t, ts', rfl, h.1, h.2⟩

theorem exists_of_map_eq_append {ts : List Token} {a b : List Tok} (h : ts.map (·.val) = a ++ b) :
    ∃ ta tb, ts = ta ++ tb ∧ ta.map (·.val) = a ∧ tb.map (·.val) = b := by
  rw [List.map_eq_append_iff] at h
  exact h

theorem map_eq_nil' {ts : List Token} (h : ts.map (·.val) = []) : ts = [] := by
  cases ts with
  | nil => rfl
  | cons => simp at h

/-- a single argument followed by an end token -/
theorem argsLoop_last {lo : LexOut} {a : Arg} {ts : List Token} (h : Fits lo a 0 ts) (c : Token) (r : List Token)
    (hc : c.val.isArgsEnd = true) : argsLoop lo (ts ++ c :: r) = .ok (.cons a .nil, c :: r) := by
  rw [argsLoop_eq, fits_inner h _ c r (argsEnd_stop hc)]
  simp only [bind_ok]
  have : c.val ≠ .sep := by intro e; rw [e] at hc; cases hc
  rw [if_neg this, if_pos hc]

/-- an argument, a comma, and more arguments -/
theorem argsLoop_more {lo : LexOut} {a : Arg} {as : Args} {ts ts2 : List Token} (h : Fits lo a 0 ts) (s : Token)
    (hs : s.val = .sep) (c : Token) (r : List Token)
    (h2 : argsLoop lo (ts2 ++ c :: r) = .ok (as, c :: r)) :
    argsLoop lo ((ts ++ s :: ts2) ++ c :: r) = .ok (.cons a as, c :: r) := by
  have e : (ts ++ s :: ts2) ++ c :: r = ts ++ s :: (ts2 ++ c :: r) := by simp
  rw [e, argsLoop_eq, fits_inner h _ s _ (by rw [hs]; rfl)]
  simp only [bind_ok]
  rw [if_pos hs, h2]
  rfl

theorem args_of_loop {lo : LexOut} {as : Args} {ts : List Token} {v : Tok} {vs : List Tok}
    (hts : ts.map (·.val) = v :: vs) (hv : Tok.startsExpr v = true) (c : Token) (r : List Token)
    (h : argsLoop lo (ts ++ c :: r) = .ok (as, c :: r)) : args lo (ts ++ c :: r) = .ok (as, c :: r) := by
  obtain ⟨t, ts', rfl, ht, _⟩ := exists_of_map_eq_cons hts
  rw [List.cons_append, args_cons, ht, startsExpr_not_argsEnd hv]
  simpa using h

mutual
theorem fits_parg (lo : LexOut) : (p : PArg) → p.wf → ∀ m ts, ts.map (·.val) = Render.parg m p → Fits lo p.erase m ts
  | .const v, _, m, ts, hts => by
    simp only [Render.parg] at hts
    obtain ⟨t, ts', rfl, ht, hn⟩ := exists_of_map_eq_cons hts
    rw [map_eq_nil' hn]
    apply fits_of_unary
    intro cont _
    rw [List.singleton_append, unary_cons, ht]
    rfl
  | .str s, _, m, ts, hts => by
    simp only [Render.parg] at hts
    obtain ⟨t, ts', rfl, ht, hn⟩ := exists_of_map_eq_cons hts
    rw [map_eq_nil' hn]
    apply fits_of_unary
    intro cont _
    rw [List.singleton_append, unary_cons, ht]
    rfl
  | .ident s, _, m, ts, hts => by
    simp only [Render.parg] at hts
    obtain ⟨t, ts', rfl, ht, hn⟩ := exists_of_map_eq_cons hts
    rw [map_eq_nil' hn]
    apply fits_of_unary
    intro cont he
    rw [List.singleton_append, unary_cons, ht]
    -- the next token is a stop token or an operator, hence not `(`
    cases cont with
    | nil => exact he.elim
    | cons c r =>
      obtain ⟨cl, cc, cv⟩ := c
      have : cv ≠ .lparen := by
        intro e
        subst e
        rcases he with h | ⟨op, h, _⟩
        · cases h
        · cases h
      cases cv <;> first | rfl | exact absurd rfl this
  | .neg a, hwf, m, ts, hts => by
    simp only [Render.parg] at hts
    obtain ⟨t, ts', rfl, ht, hts'⟩ := exists_of_map_eq_cons hts
    have ih := fits_parg lo a hwf 6 ts' hts'
    apply fits_of_unary
    intro cont he
    have h6 := ih 6 (Nat.le_refl _) (0, 0) cont (endsBelow_mono he (by omega))
    unfold parseLvl loopLvl at h6
    rw [if_neg (by omega), if_neg (by omega)] at h6
    rw [List.cons_append, unary_cons, ht]
    simp only []
    rw [h6]
    rfl
  | .not a, hwf, m, ts, hts => by
    simp only [Render.parg] at hts
    obtain ⟨t, ts', rfl, ht, hts'⟩ := exists_of_map_eq_cons hts
    have ih := fits_parg lo a hwf 6 ts' hts'
    apply fits_of_unary
    intro cont he
    have h6 := ih 6 (Nat.le_refl _) (0, 0) cont (endsBelow_mono he (by omega))
    unfold parseLvl loopLvl at h6
    rw [if_neg (by omega), if_neg (by omega)] at h6
    rw [List.cons_append, unary_cons, ht]
    simp only []
    rw [h6]
    rfl
  | .addr a, hwf, m, ts, hts => by
    simp only [Render.parg] at hts
    obtain ⟨t, ts1, rfl, ht, hts1⟩ := exists_of_map_eq_cons hts
    obtain ⟨ta, tb, rfl, hta, htb⟩ := exists_of_map_eq_append hts1
    obtain ⟨rb, tb', rfl, hrb, hn⟩ := exists_of_map_eq_cons htb
    rw [map_eq_nil' hn]
    have ih := fits_parg lo a hwf 0 ta hta
    apply fits_of_unary
    intro cont _
    rw [List.cons_append, unary_cons, ht]
    simp only [List.append_assoc, List.singleton_append]
    rw [fits_inner ih _ rb cont (by rw [hrb]; rfl)]
    simp only [bind_ok]
    rw [close_ok lo _ _ rb cont hrb]
    rfl
  | .paren a, hwf, m, ts, hts => by
    simp only [Render.parg] at hts
    obtain ⟨t, ts1, rfl, ht, hts1⟩ := exists_of_map_eq_cons hts
    obtain ⟨ta, tb, rfl, hta, htb⟩ := exists_of_map_eq_append hts1
    obtain ⟨rp, tb', rfl, hrp, hn⟩ := exists_of_map_eq_cons htb
    rw [map_eq_nil' hn]
    have ih := fits_parg lo a hwf 0 ta hta
    exact fits_paren ih t rp ht hrp m
  | .seq as, hwf, m, ts, hts => by
    simp only [Render.parg] at hts
    obtain ⟨t, ts1, rfl, ht, hts1⟩ := exists_of_map_eq_cons hts
    obtain ⟨ta, tb, rfl, hta, htb⟩ := exists_of_map_eq_append hts1
    obtain ⟨rb, tb', rfl, hrb, hn⟩ := exists_of_map_eq_cons htb
    rw [map_eq_nil' hn]
    have ih := fits_pargs lo as hwf ta hta
    apply fits_of_unary
    intro cont _
    rw [List.cons_append, unary_cons, ht]
    simp only [List.append_assoc, List.singleton_append]
    rw [ih.args rb cont (by rw [hrb]; rfl)]
    simp only [bind_ok]
    rw [close_ok lo _ _ rb cont hrb]
    rfl
  | .func name as, hwf, m, ts, hts => by
    simp only [Render.parg] at hts
    obtain ⟨t, ts0, rfl, ht, hts0⟩ := exists_of_map_eq_cons hts
    obtain ⟨lp, ts1, rfl, hlp, hts1⟩ := exists_of_map_eq_cons hts0
    obtain ⟨ta, tb, rfl, hta, htb⟩ := exists_of_map_eq_append hts1
    obtain ⟨rb, tb', rfl, hrb, hn⟩ := exists_of_map_eq_cons htb
    rw [map_eq_nil' hn]
    have ih := fits_pargs lo as hwf.2 ta hta
    apply fits_of_unary
    intro cont _
    obtain ⟨ll, lc, lv⟩ := lp
    simp only at hlp
    subst hlp
    rw [List.cons_append, List.cons_append, unary_cons, ht]
    simp only [List.append_assoc, List.singleton_append]
    rw [ih.args rb cont (by rw [hrb]; rfl)]
    simp only [bind_ok]
    rw [close_ok lo _ _ rb cont hrb]
    rfl
  | .bin op l r, hwf, m, ts, hts => by
    simp only [Render.parg] at hts
    -- the unparenthesised body
    have body : ∀ tb, tb.map (·.val) = Render.parg op.group.toNat l ++ op.tok :: Render.parg (op.group.toNat + 1) r →
        Fits lo (.bin op l.erase r.erase) op.group.toNat tb := by
      intro tb htb
      obtain ⟨tl, tr0, rfl, htl, htr0⟩ := exists_of_map_eq_append htb
      obtain ⟨to, tr, rfl, hto, htr⟩ := exists_of_map_eq_cons htr0
      exact fits_bin (fits_parg lo l hwf.1 _ tl htl) (fits_parg lo r hwf.2 _ tr htr) hto
    by_cases hp : op.group.toNat < m
    · simp only [hp, decide_true, paren_true] at hts
      obtain ⟨lp, ts1, rfl, hlp, hts1⟩ := exists_of_map_eq_cons hts
      obtain ⟨tb, te, rfl, htb, hte⟩ := exists_of_map_eq_append hts1
      obtain ⟨rp, te', rfl, hrp, hn⟩ := exists_of_map_eq_cons hte
      rw [map_eq_nil' hn]
      exact fits_paren ((body tb htb).mono (Nat.zero_le _)) lp rp hlp hrp m
    · simp only [hp, decide_false, paren_false] at hts
      exact (body ts hts).mono (by omega)

theorem fits_pargs (lo : LexOut) : (as : PArgs) → as.wf → ∀ ts, ts.map (·.val) = Render.pargs as → ArgsFit lo as.erase ts
  | .nil, _, ts, hts => by
    simp only [Render.pargs] at hts
    rw [map_eq_nil' hts]
    constructor
    · intro c r hc
      rw [List.nil_append, args_cons, hc]
      rfl
    · intro h; exact absurd rfl h
  | .cons a .nil, hwf, ts, hts => by
    simp only [Render.pargs] at hts
    have ih := fits_parg lo a hwf.1 0 ts hts
    obtain ⟨v, vs, hv, hstart⟩ := parg_head 0 a
    have hl : ∀ c r, c.val.isArgsEnd = true → argsLoop lo (ts ++ c :: r) = .ok (.cons a.erase .nil, c :: r) :=
      fun c r hc => argsLoop_last ih c r hc
    exact ⟨fun c r hc => args_of_loop (hts.trans hv) hstart c r (hl c r hc), fun _ => hl⟩
  | .cons a (.cons b bs), hwf, ts, hts => by
    simp only [Render.pargs] at hts
    obtain ⟨ta, t0, rfl, hta, ht0⟩ := exists_of_map_eq_append hts
    obtain ⟨s, tb, rfl, hs, htb⟩ := exists_of_map_eq_cons ht0
    have iha := fits_parg lo a hwf.1 0 ta hta
    have ihb := fits_pargs lo (.cons b bs) hwf.2 tb htb
    obtain ⟨v, vs, hv, hstart⟩ := parg_head 0 a
    have hl : ∀ c r, c.val.isArgsEnd = true →
        argsLoop lo ((ta ++ s :: tb) ++ c :: r) = .ok (.cons a.erase (PArgs.cons b bs).erase, c :: r) :=
      fun c r hc => argsLoop_more iha s hs c r (ihb.loop (by simp [PArgs.erase]) c r hc)
    refine ⟨fun c r hc => args_of_loop (v := v) (vs := vs ++ .sep :: Render.pargs (.cons b bs)) ?_ hstart c r (hl c r hc), fun _ => hl⟩
    rw [List.map_append, hta, hv]
    simp [hs, htb]
end

/-! ## trees without redundant parentheses -/

mutual
theorem erase_ofArg : (t : Arg) → (PArg.ofArg t).erase = t
  | .const _ | .ident _ | .str _ => rfl
  | .bin op l r => by simp only [PArg.ofArg, PArg.erase, erase_ofArg l, erase_ofArg r]
  | .neg a => by simp only [PArg.ofArg, PArg.erase, erase_ofArg a]
  | .not a => by simp only [PArg.ofArg, PArg.erase, erase_ofArg a]
  | .addr a => by simp only [PArg.ofArg, PArg.erase, erase_ofArg a]
  | .seq as => by simp only [PArg.ofArg, PArg.erase, erase_ofArgs as]
  | .func n as => by simp only [PArg.ofArg, PArg.erase, erase_ofArgs as]
theorem erase_ofArgs : (as : Args) → (PArgs.ofArgs as).erase = as
  | .nil => rfl
  | .cons a as => by simp only [PArgs.ofArgs, PArgs.erase, erase_ofArg a, erase_ofArgs as]
end

mutual
theorem wf_ofArg : (t : Arg) → t.wf → (PArg.ofArg t).wf
  | .const _, h => by simp only [Arg.wf] at h; simp only [PArg.ofArg, PArg.wf]; exact h
  | .ident _, h => by simp only [Arg.wf] at h; simp only [PArg.ofArg, PArg.wf]; exact h
  | .str _, _ => by simp only [PArg.ofArg, PArg.wf]
  | .bin op l r, h => by
    simp only [Arg.wf] at h
    simp only [PArg.ofArg, PArg.wf]
    exact ⟨wf_ofArg l h.1, wf_ofArg r h.2⟩
  | .neg a, h => by simp only [Arg.wf] at h; simp only [PArg.ofArg, PArg.wf]; exact wf_ofArg a h
  | .not a, h => by simp only [Arg.wf] at h; simp only [PArg.ofArg, PArg.wf]; exact wf_ofArg a h
  | .addr a, h => by simp only [Arg.wf] at h; simp only [PArg.ofArg, PArg.wf]; exact wf_ofArg a h
  | .seq as, h => by simp only [Arg.wf] at h; simp only [PArg.ofArg, PArg.wf]; exact wf_ofArgs as h
  | .func n as, h => by
    simp only [Arg.wf] at h
    simp only [PArg.ofArg, PArg.wf]
    exact ⟨h.1, wf_ofArgs as h.2⟩
theorem wf_ofArgs : (as : Args) → as.wf → (PArgs.ofArgs as).wf
  | .nil, _ => by simp only [PArgs.ofArgs, PArgs.wf]
  | .cons a as, h => by
    simp only [Args.wf] at h
    simp only [PArgs.ofArgs, PArgs.wf]
    exact ⟨wf_ofArg a h.1, wf_ofArgs as h.2⟩
end

mutual
theorem parg_ofArg : (t : Arg) → ∀ m, Render.parg m (PArg.ofArg t) = Render.arg m t
  | .const _, _ | .ident _, _ | .str _, _ => rfl
  | .bin op l r, m => by simp only [PArg.ofArg, Render.parg, Render.arg, parg_ofArg l, parg_ofArg r]
  | .neg a, m => by simp only [PArg.ofArg, Render.parg, Render.arg, parg_ofArg a]
  | .not a, m => by simp only [PArg.ofArg, Render.parg, Render.arg, parg_ofArg a]
  | .addr a, m => by simp only [PArg.ofArg, Render.parg, Render.arg, parg_ofArg a]
  | .seq as, m => by simp only [PArg.ofArg, Render.parg, Render.arg, pargs_ofArgs as]
  | .func n as, m => by simp only [PArg.ofArg, Render.parg, Render.arg, pargs_ofArgs as]
theorem pargs_ofArgs : (as : Args) → Render.pargs (PArgs.ofArgs as) = Render.args as
  | .nil => rfl
  | .cons a .nil => by simp only [PArgs.ofArgs, Render.pargs, Render.args, parg_ofArg a]
  | .cons a (.cons b bs) => by
    have := pargs_ofArgs (.cons b bs)
    simp only [PArgs.ofArgs] at this
    simp only [PArgs.ofArgs, Render.pargs, Render.args, parg_ofArg a, this]
end

/-- the argument list of a statement followed by its terminator -/
theorem stmt_args {lo : LexOut} (as : PArgs) (hwf : as.wf) {ts : List Token} (hts : ts.map (·.val) = Render.pargs as)
    (c : Token) (r : List Token) (hc : c.val.isArgsEnd = true) :
    (args lo (ts ++ c :: r)).bind (fun p => (nextInner lo "';'" p.2).bind fun r3 => .ok (p.1, r3)) = .ok (as.erase, r) := by
  rw [(fits_pargs lo as hwf ts hts).args c r hc]
  rfl

end Trion.Parse
