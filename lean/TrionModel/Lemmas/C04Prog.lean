import TrionModel.Lemmas.C04Inst
import TrionModel.Lemmas.ShowProg
import TrionModel.Lemmas.AsmRefine
/-!
# C04 closed: `.const` definitions ahead of the statement, through the pipeline model

`defsTable defs t`: the constant table the definitions `.const n₁, e₁; … ; .const n_k, e_k;` build from `t`, each value
being the specification's `value` of its expression over the table built so far (so a definition may use the earlier
ones); `none` when a name is a register name or already defined, or an expression has no value.
`doAssemble_defs`: `Asm.doAssemble` processes such a run of `.const` statements without a diagnostic and leaves exactly
that table.
-/
namespace Trion.C04
open Trion Trion.Front Trion.Simp

/-- the table built by a list of `.const name, expr` definitions, starting from `t` -/
def defsTable : List (Bytes × Arg) → Asm.Table → Option Asm.Table
  | [], t => some t
  | (n, e) :: ds, t =>
    if isRegister n = true then none
    else match t.find n with
      | some _ => none
      | none =>
        match value (tabOf t) e with
        | some v => defsTable ds (t.set n (some v))
        | none => none

/-- the statement `.const n, e` as an element value -/
def constStmt (d : Bytes × Arg) : ElemVal := .directive (bytesOf "const") (Args.ofList [.ident d.1, d.2])

theorem evalIn_of_value {t : Asm.Table} (hn : Asm.Table.NoDef t) {e : Arg} {v : Int} (hv : value (tabOf t) e = some v) :
    Asm.evalIn t e = .ok (.complete (.const v)) := by
  obtain ⟨ev, he⟩ := value_evaluate (fun n => t.get n) e v hv
  have hc := cause_none (Asm.Table.nodef_get hn) he
  have hE := (evaluate_iff_E _ e ev _).1 he
  simp [Asm.evalIn, hE, hc]

/-- `.const name, e;` for a fresh, non-register name and an expression with a value -/
theorem const_ok_expr (fs : Bytes → Option Bytes) (inc : Asm.Inc) (env : Asm.Env) (st : Asm.St) (tbl : Asm.Table)
    (hn : Asm.Table.NoDef tbl) (henv : env.paths ≠ []) (hl : st.locals = some tbl) (l c : Nat) (name : Bytes) (e : Arg) (v : Int)
    (hr : isRegister name = false) (hf : tbl.find name = none) (hv : value (tabOf tbl) e = some v) :
    Asm.directive fs inc env st l c (bytesOf "const") [.ident name, e] =
      .ok ({ st with locals := some (tbl.set name (some v)) }, .ok) := by
  have e1 : Asm.directive fs inc env st l c (bytesOf "const") [.ident name, e] =
      Asm.constDirective env st l c [.ident name, e] := by
    have h1 : ¬ (bytesOf "const" = bytesOf "addr") := by decide
    have h2 : ¬ (bytesOf "const" = bytesOf "align") := by decide
    simp [Asm.directive, h1, h2]
  have hp : env.paths.isEmpty = false := by cases h : env.paths with | nil => exact absurd h henv | cons => rfl
  have hev : Asm.evalArg env st e = .ok (.complete (.const v)) := by
    simp [Asm.evalArg, Asm.evalTable, hp, hl, evalIn_of_value hn hv]
  rw [e1]
  simp only [Asm.constDirective, Asm.arity, List.length_cons, List.length_nil, Nat.zero_add, if_true, Asm.evalStrict, hev]
  simp [Asm.insertConstant, hr, hl, hf]

/-- a run of `.const` statements: no diagnostic, the table is `defsTable` -/
theorem doAssemble_defs (fs : Bytes → Option Bytes) (enc : Asm.Encoder) (inc : Asm.Inc) (env : Asm.Env) (henv : env.paths ≠ []) :
    ∀ (defs : List (Bytes × Arg)) (mid rest : List Element) (err : Option ParseErr) (st : Asm.St) (t t' : Asm.Table),
    mid.map (·.val) = defs.map constStmt → st.locals = some t → Asm.Table.NoDef t → defsTable defs t = some t' →
    Asm.doAssemble fs enc inc env (mid ++ rest) err st = Asm.doAssemble fs enc inc env rest err { st with locals := some t' } ∧
      Asm.Table.NoDef t' := by
  intro defs
  induction defs with
  | nil =>
    intro mid rest err st t t' hm hl hn hd
    have : mid = [] := by simpa using hm
    subst this
    simp only [defsTable, Option.some.injEq] at hd
    subst hd
    refine ⟨?_, hn⟩
    have : ({ st with locals := some t } : Asm.St) = st := by cases st; simp_all
    rw [this]; rfl
  | cons d defs ih =>
    intro mid rest err st t t' hm hl hn hd
    obtain ⟨n, e⟩ := d
    obtain ⟨el, mid', rfl, hel, hm'⟩ := List.map_eq_cons_iff.mp hm
    simp only [defsTable] at hd
    by_cases hr : isRegister n = true
    · simp [hr] at hd
    · have hr' : isRegister n = false := by simpa using hr
      simp only [hr', Bool.false_eq_true, if_false] at hd
      cases hf : t.find n with
      | some x => simp [hf] at hd
      | none =>
        simp only [hf] at hd
        cases hv : value (tabOf t) e with
        | none => simp [hv] at hd
        | some v =>
          simp only [hv] at hd
          obtain ⟨l, c, val⟩ := el
          simp only [constStmt] at hel
          subst hel
          have hstep : Asm.statement fs enc inc env st ⟨l, c, .directive (bytesOf "const") (Args.ofList [.ident n, e])⟩ =
              .ok ({ st with locals := some (t.set n (some v)) }, .ok) := by
            simp only [Asm.statement, Show.toList_ofList]
            exact const_ok_expr fs inc env st t hn henv hl l c n e v hr' hf hv
          have := ih mid' rest err { st with locals := some (t.set n (some v)) } (t.set n (some v)) t' hm' rfl
            (Asm.Table.nodef_set hn n v) hd
          refine ⟨?_, this.2⟩
          simp only [List.cons_append, Asm.doAssemble, hstep]
          exact this.1

end Trion.C04
