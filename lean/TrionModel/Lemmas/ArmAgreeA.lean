import TrionModel.Lemmas.ArmTac
/-! Agreement of the ARMv6-M table with the decoder model on 16-bit patterns, group by group:
`decodeIn table16 h 16 = toOpt (decode16 h)`.  The decoder side is split into its branches (`dec_split`),
in every branch the few rows of the group are walked (`spec_leaf`). -/
set_option linter.unusedSimpArgs false
namespace Trion.Codec
open Trion Trion.Arm

theorem spec16_0 (h : Nat) (hlt : h < 65536) (hk : h / 2048 = 0) : decodeIn table16 h 16 = toOpt (decode16 h) := by
  rw [table16_at_0 h hlt hk]
  generalize hres : decode16 h = res
  unfold g00
  dec_split at hres
  all_goals (subst hres; spec_leaf)

theorem spec16_1 (h : Nat) (hlt : h < 65536) (hk : h / 2048 = 1) : decodeIn table16 h 16 = toOpt (decode16 h) := by
  rw [table16_at_1 h hlt hk]
  generalize hres : decode16 h = res
  unfold g01
  dec_split at hres
  all_goals (subst hres; spec_leaf)

theorem spec16_2 (h : Nat) (hlt : h < 65536) (hk : h / 2048 = 2) : decodeIn table16 h 16 = toOpt (decode16 h) := by
  rw [table16_at_2 h hlt hk]
  generalize hres : decode16 h = res
  unfold g02
  dec_split at hres
  all_goals (subst hres; spec_leaf)

theorem spec16_3 (h : Nat) (hlt : h < 65536) (hk : h / 2048 = 3) : decodeIn table16 h 16 = toOpt (decode16 h) := by
  rw [table16_at_3 h hlt hk]
  generalize hres : decode16 h = res
  unfold g03
  dec_split at hres
  all_goals (subst hres; spec_leaf)

theorem spec16_4 (h : Nat) (hlt : h < 65536) (hk : h / 2048 = 4) : decodeIn table16 h 16 = toOpt (decode16 h) := by
  rw [table16_at_4 h hlt hk]
  generalize hres : decode16 h = res
  unfold g04
  dec_split at hres
  all_goals (subst hres; spec_leaf)

theorem spec16_5 (h : Nat) (hlt : h < 65536) (hk : h / 2048 = 5) : decodeIn table16 h 16 = toOpt (decode16 h) := by
  rw [table16_at_5 h hlt hk]
  generalize hres : decode16 h = res
  unfold g05
  dec_split at hres
  all_goals (subst hres; spec_leaf)

theorem spec16_6 (h : Nat) (hlt : h < 65536) (hk : h / 2048 = 6) : decodeIn table16 h 16 = toOpt (decode16 h) := by
  rw [table16_at_6 h hlt hk]
  generalize hres : decode16 h = res
  unfold g06
  dec_split at hres
  all_goals (subst hres; spec_leaf)

theorem spec16_7 (h : Nat) (hlt : h < 65536) (hk : h / 2048 = 7) : decodeIn table16 h 16 = toOpt (decode16 h) := by
  rw [table16_at_7 h hlt hk]
  generalize hres : decode16 h = res
  unfold g07
  dec_split at hres
  all_goals (subst hres; spec_leaf)

theorem spec16_9 (h : Nat) (hlt : h < 65536) (hk : h / 2048 = 9) : decodeIn table16 h 16 = toOpt (decode16 h) := by
  rw [table16_at_9 h hlt hk]
  generalize hres : decode16 h = res
  unfold g09
  dec_split at hres
  all_goals (subst hres; spec_leaf)

end Trion.Codec
