import TrionModel.Model.Uf2
/-! Helper lemmas for C16 (UF2 writer) — byte layout, reader on encoded blocks, invariants. -/
namespace Trion.Uf2

/-! ### bytes -/

@[simp] theorem le32_length (n : Nat) : (le32 n).length = 4 := rfl
@[simp] theorem zeros_length (n : Nat) : (zeros n).length = n := by simp [zeros]

theorem toUInt8_toNat (k : Nat) (h : k < 256) : (k.toUInt8).toNat = k := by
  simp [Nat.toUInt8, UInt8.toNat_ofNat', Nat.mod_eq_of_lt h]

theorem rd32_le32 (n : Nat) (h : n < 4294967296) (r : List UInt8) : rd32 (le32 n ++ r) = n := by
  simp only [le32, List.cons_append, List.nil_append, rd32]
  rw [toUInt8_toNat _ (Nat.mod_lt _ (by decide)), toUInt8_toNat _ (Nat.mod_lt _ (by decide)),
    toUInt8_toNat _ (Nat.mod_lt _ (by decide)), toUInt8_toNat _ (Nat.mod_lt _ (by decide))]
  omega

theorem drop_append_len {α} (l₁ l₂ : List α) (n : Nat) (h : l₁.length = n) : (l₁ ++ l₂).drop n = l₂ := by
  subst h; simp
theorem take_append_len {α} (l₁ l₂ : List α) (n : Nat) (h : l₁.length = n) : (l₁ ++ l₂).take n = l₁ := by
  subst h; simp

@[simp] theorem blockHead_length (cfg : Cfg) (a bl c : Nat) (nf : Bool) : (blockHead cfg a bl c nf).length = 24 := by
  simp [blockHead]

theorem blockTail_length (cfg : Cfg) (b : List UInt8) (h : b.length ≤ 476) : (blockTail cfg b).length = 484 := by
  simp [blockTail]; omega

theorem encodeBlock_length (cfg : Cfg) (a : Nat) (b : List UInt8) (bl c t : Nat) (nf : Bool) (h : b.length ≤ 476) :
    (encodeBlock cfg a b bl c t nf).length = 512 := by
  simp [encodeBlock, blockTail_length cfg b h]

/-! ### abstract blocks -/

/-- what one call of `encode` stores: target address, the data chunk, declared payload size, flag, number -/
structure Blk where
  addr : Nat
  data : List UInt8
  blen : Nat
  nf : Bool
  no : Nat

def encBlk (cfg : Cfg) (total : Nat) (b : Blk) : List UInt8 :=
  encodeBlock cfg b.addr b.data b.blen b.no total b.nf

def Blk.ok (b : Blk) : Prop :=
  b.addr < 4294967296 ∧ b.data.length ≤ 476 ∧ b.blen ≤ 476 ∧ b.no < 4294967296

/-- the block an independent reader must see -/
def toBlock (cfg : Cfg) (total : Nat) (b : Blk) : Block :=
  { flags := flagsOf cfg b.nf, addr := b.addr, psize := b.blen, blockNo := b.no, numBlocks := total,
    fam := infoOf cfg, data := b.data ++ zeros (476 - b.data.length) }

def Cfg.famOk (cfg : Cfg) : Prop := ∀ f, cfg.fam = some f → f < 4294967296

theorem flagsOf_lt (cfg : Cfg) (nf : Bool) : flagsOf cfg nf < 4294967296 := by
  unfold flagsOf; split <;> split <;> omega

theorem infoOf_lt (cfg : Cfg) (h : cfg.famOk) : infoOf cfg < 4294967296 := by
  unfold infoOf; split
  · omega
  · exact h _ ‹_›

theorem encBlk_length (cfg : Cfg) (t : Nat) (b : Blk) (h : b.ok) : (encBlk cfg t b).length = 512 :=
  encodeBlock_length _ _ _ _ _ _ _ h.2.1

/-- a run of little-endian words followed by `tail` -/
def words (ws : List Nat) (tail : List UInt8) : List UInt8 := ws.foldr (fun w r => le32 w ++ r) tail

theorem drop_words (ws : List Nat) (tail : List UInt8) (k : Nat) (hk : k ≤ ws.length) :
    (words ws tail).drop (4 * k) = words (ws.drop k) tail := by
  induction ws generalizing k with
  | nil => simp at hk; subst hk; simp [words]
  | cons w ws ih =>
    cases k with
    | zero => simp
    | succ k =>
      have : 4 * (k + 1) = 4 + 4 * k := by omega
      rw [this, ← List.drop_drop]
      show ((le32 w ++ words ws tail).drop 4).drop (4 * k) = _
      rw [drop_append_len _ _ 4 rfl, ih k (by simpa using hk)]
      simp

theorem rd32_words (ws : List Nat) (tail : List UInt8) (k w : Nat) (h : ws[k]? = some w) (hw : w < 4294967296) :
    rd32 ((words ws tail).drop (4 * k)) = w := by
  have hk : k < ws.length := by
    rcases Nat.lt_or_ge k ws.length with h' | h'
    · exact h'
    · rw [List.getElem?_eq_none h'] at h; cases h
  rw [drop_words ws tail k (Nat.le_of_lt hk)]
  have : ws.drop k = w :: ws.drop (k + 1) := by
    rw [List.drop_eq_getElem_cons hk]
    congr 1
    rw [List.getElem?_eq_getElem hk] at h
    exact Option.some.inj h
  rw [this]
  exact rd32_le32 w hw _

theorem readBlock_encBlk (cfg : Cfg) (hc : cfg.famOk) (t : Nat) (ht : t < 4294967296) (b : Blk) (h : b.ok) :
    readBlock (encBlk cfg t b) = some (toBlock cfg t b) := by
  obtain ⟨ha, hd, hl, hn⟩ := h
  have hlen := encBlk_length cfg t b ⟨ha, hd, hl, hn⟩
  have hP : (b.data ++ zeros (476 - b.data.length)).length = 476 := by simp; omega
  have hshape : encBlk cfg t b =
      words [0x0A324655, 0x9E5D5157, flagsOf cfg b.nf, b.addr, b.blen, b.no, t, infoOf cfg]
        ((b.data ++ zeros (476 - b.data.length)) ++ le32 0x0AB16F30) := by
    simp [words, encBlk, encodeBlock, blockHead, blockTail, List.append_assoc]
  have e0 : rd32 (encBlk cfg t b) = 0x0A324655 := by
    have := rd32_words _ ((b.data ++ zeros (476 - b.data.length)) ++ le32 0x0AB16F30) 0 _
      (show [0x0A324655, 0x9E5D5157, flagsOf cfg b.nf, b.addr, b.blen, b.no, t, infoOf cfg][0]? = some _ from rfl) (by decide)
    rw [hshape]; simpa using this
  have e4 : rd32 ((encBlk cfg t b).drop 4) = 0x9E5D5157 := by
    rw [hshape]; exact rd32_words _ _ 1 _ rfl (by decide)
  have e8 : rd32 ((encBlk cfg t b).drop 8) = flagsOf cfg b.nf := by
    rw [hshape]; exact rd32_words _ _ 2 _ rfl (flagsOf_lt _ _)
  have e12 : rd32 ((encBlk cfg t b).drop 12) = b.addr := by
    rw [hshape]; exact rd32_words _ _ 3 _ rfl ha
  have e16 : rd32 ((encBlk cfg t b).drop 16) = b.blen := by
    rw [hshape]; exact rd32_words _ _ 4 _ rfl (by omega)
  have e20 : rd32 ((encBlk cfg t b).drop 20) = b.no := by
    rw [hshape]; exact rd32_words _ _ 5 _ rfl hn
  have e24 : rd32 ((encBlk cfg t b).drop 24) = t := by
    rw [hshape]; exact rd32_words _ _ 6 _ rfl ht
  have e28 : rd32 ((encBlk cfg t b).drop 28) = infoOf cfg := by
    rw [hshape]; exact rd32_words _ _ 7 _ rfl (infoOf_lt _ hc)
  have e32 : (encBlk cfg t b).drop 32 = (b.data ++ zeros (476 - b.data.length)) ++ le32 0x0AB16F30 := by
    rw [hshape]; exact drop_words _ _ 8 (by simp)
  have e508 : (encBlk cfg t b).drop 508 = le32 0x0AB16F30 := by
    rw [show 508 = 32 + 476 from rfl, ← List.drop_drop, e32, drop_append_len _ _ 476 hP]
  unfold readBlock
  rw [if_pos]
  · simp only [toBlock, e8, e12, e16, e20, e24, e28, e32, Option.some.injEq]
    rw [take_append_len _ _ 476 hP]
  · refine ⟨hlen, e0, e4, ?_, ?_⟩
    · rw [e508]; exact rd32_le32 _ (by decide) []
    · rw [e16]; exact hl

/-! ### sequences of blocks -/

def encAll (cfg : Cfg) (t : Nat) : List Blk → List UInt8
  | [] => []
  | b :: r => encBlk cfg t b ++ encAll cfg t r

def AllOk (bl : List Blk) : Prop := ∀ b ∈ bl, b.ok

theorem encAll_append (cfg : Cfg) (t : Nat) (xs ys : List Blk) :
    encAll cfg t (xs ++ ys) = encAll cfg t xs ++ encAll cfg t ys := by
  induction xs with
  | nil => rfl
  | cons b r ih => simp [encAll, ih]

theorem encAll_length (cfg : Cfg) (t : Nat) (bl : List Blk) (h : AllOk bl) :
    (encAll cfg t bl).length = 512 * bl.length := by
  induction bl with
  | nil => rfl
  | cons b r ih =>
    have hb := encBlk_length cfg t b (h b (by simp))
    have := ih (fun x hx => h x (by simp [hx]))
    simp [encAll, hb, this]; omega

theorem readN_encAll (cfg : Cfg) (hc : cfg.famOk) (t : Nat) (ht : t < 4294967296) (bl : List Blk) (h : AllOk bl)
    (rest : List UInt8) :
    readN bl.length (encAll cfg t bl ++ rest) = some (bl.map (toBlock cfg t)) := by
  induction bl with
  | nil => rfl
  | cons b r ih =>
    have hb := encBlk_length cfg t b (h b (by simp))
    have hr := ih (fun x hx => h x (by simp [hx]))
    simp only [encAll, List.length_cons, readN, List.append_assoc]
    rw [take_append_len _ _ 512 hb, drop_append_len _ _ 512 hb, readBlock_encBlk cfg hc t ht b (h b (by simp)), hr]
    rfl

theorem read_encAll (cfg : Cfg) (hc : cfg.famOk) (t : Nat) (ht : t < 4294967296) (bl : List Blk) (h : AllOk bl) :
    read (encAll cfg t bl) = some (bl.map (toBlock cfg t)) := by
  have hl := encAll_length cfg t bl h
  unfold read
  rw [if_pos (by omega), hl, Nat.mul_div_cancel_left _ (by decide : 0 < 512)]
  simpa using readN_encAll cfg hc t ht bl h []

theorem encBlk_split (cfg : Cfg) (t : Nat) (b : Blk) :
    encBlk cfg t b = blockHead cfg b.addr b.blen b.no b.nf ++ (le32 t ++ blockTail cfg b.data) := by
  simp [encBlk, encodeBlock]

/-- `Drop` turns the placeholder total of the last `bl.length` blocks into `t` -/
theorem finishLoop_encAll (cfg : Cfg) (t : Nat) (bl : List Blk) (h : AllOk bl) (X : List UInt8) :
    finishLoop t bl.length (X ++ encAll cfg 0 bl) = .ok (X ++ encAll cfg t bl) := by
  induction bl generalizing X with
  | nil => simp [finishLoop, encAll]
  | cons b r ih =>
    have hr : AllOk r := fun x hx => h x (by simp [hx])
    have hb0 := encBlk_length cfg 0 b (h b (by simp))
    have hlr := encAll_length cfg 0 r hr
    have hT := blockTail_length cfg b.data (h b (by simp)).2.1
    have hlen : (X ++ encAll cfg 0 (b :: r)).length = X.length + 512 * (r.length + 1) := by
      simp [encAll, hb0, hlr]; omega
    simp only [List.length_cons, finishLoop]
    rw [if_neg (by omega), if_neg (by omega), hlen]
    have hbase : X.length + 512 * (r.length + 1) - 512 * (r.length + 1) = X.length := by omega
    rw [hbase]
    have htake : (X ++ encAll cfg 0 (b :: r)).take (X.length + 24) = X ++ blockHead cfg b.addr b.blen b.no b.nf := by
      simp only [encAll, encBlk_split, List.append_assoc]
      rw [← List.append_assoc X, take_append_len _ _ _ (by simp)]
    have hdrop : (X ++ encAll cfg 0 (b :: r)).drop (X.length + 28) = blockTail cfg b.data ++ encAll cfg 0 r := by
      simp only [encAll, encBlk_split, List.append_assoc]
      rw [← List.append_assoc X, ← List.append_assoc (X ++ _), drop_append_len _ _ _ (by simp)]
    rw [htake, hdrop]
    have := ih hr (X ++ encBlk cfg t b)
    simp only [encAll, encBlk_split, List.append_assoc] at this ⊢
    exact this

/-! ### arithmetic of `write_all` -/

/-- `aligned` of `write_all` -/
def roundUp (n al : Nat) : Nat := if n % al ≠ 0 then n - n % al + al else n

/-- `block_cnt` of `write_all` -/
def ceilDiv (x p : Nat) : Nat := x / p + (if x % p > 0 then 1 else 0)

theorem lt_ceilDiv (x p k : Nat) (hp : 0 < p) : k < ceilDiv x p ↔ k * p < x := by
  unfold ceilDiv
  have hx := Nat.div_add_mod x p
  have hr := Nat.mod_lt x hp
  have hc : p * (x / p) = (x / p) * p := Nat.mul_comm _ _
  rcases Nat.lt_or_ge k (x / p) with h | h
  · have := Nat.mul_le_mul_right p (Nat.succ_le_of_lt h)
    rw [Nat.succ_mul] at this
    split <;> constructor <;> intro _ <;> omega
  · rcases Nat.eq_or_lt_of_le h with h | h
    · subst h
      split <;> constructor <;> intro _ <;> omega
    · have := Nat.mul_le_mul_right p (Nat.succ_le_of_lt h)
      rw [Nat.succ_mul] at this
      split <;> constructor <;> intro _ <;> omega

theorem lt_roundUp (n al m : Nat) (ha : 0 < al) (hm : m % al = 0) : m < roundUp n al ↔ m < n := by
  unfold roundUp
  have hn := Nat.div_add_mod n al
  have hr := Nat.mod_lt n ha
  have hmm := Nat.div_add_mod m al
  rw [hm] at hmm
  split
  · rcases Nat.lt_or_ge (m / al) (n / al + 1) with h | h
    · have := Nat.mul_le_mul_left al (Nat.le_of_lt_succ h)
      constructor <;> intro _ <;> omega
    · have := Nat.mul_le_mul_left al h
      rw [Nat.mul_add] at this
      constructor <;> intro _ <;> omega
  · rfl

theorem roundUp_add (q d al : Nat) (ha : 0 < al) (hq : q % al = 0) : roundUp (q + d) al = q + roundUp d al := by
  unfold roundUp
  have : (q + d) % al = d % al := by rw [Nat.add_mod, hq, Nat.zero_add, Nat.mod_mod]
  rw [this]
  have := Nat.mod_le d al
  split <;> omega

theorem roundUp_ge (n al : Nat) (ha : 0 < al) : n ≤ roundUp n al ∧ roundUp n al < n + al := by
  unfold roundUp
  have := Nat.mod_lt n ha
  have := Nat.mod_le n al
  split <;> omega

theorem roundUp_le_of_dvd (n al ps : Nat) (ha : 0 < al) (hps : ps % al = 0) (h : n ≤ ps) : roundUp n al ≤ ps := by
  rcases Nat.lt_or_ge ps (roundUp n al) with h' | h'
  · have := (lt_roundUp n al ps ha hps).mp h'
    omega
  · exact h'

/-! ### `encode`, the `write_all` loop -/

def Cfg.valid (cfg : Cfg) : Prop := 1 ≤ cfg.ps ∧ cfg.ps ≤ 476 ∧ 1 ≤ cfg.al ∧ cfg.ps % cfg.al = 0

theorem encode_ok (st : St) (a : Nat) (blk : List UInt8) (bl : Nat) (nf : Bool)
    (h1 : st.pos + 512 ≤ st.len) (h2 : st.len ≤ 9223372036854775807) (h3 : blk.length ≤ 476)
    (h4 : st.count + 1 ≤ 4294967295) :
    encode st a blk bl nf = .ok { st with
      out := st.out ++ encBlk st.cfg 0 ⟨a, blk, bl, nf, st.count⟩, pos := st.pos + 512, count := st.count + 1 } := by
  unfold encode
  rw [if_neg (by omega), if_neg (by omega), if_neg (by omega), if_neg (by omega)]
  rfl

/-- the blocks `write_all` appends, by recursion on the remaining data: target address `a`, number `no` -/
def allBlks (cfg : Cfg) (nf : Bool) : Nat → List UInt8 → Nat → Nat → List Blk
  | 0, _, _, _ => []
  | f + 1, d, a, no =>
    if d.isEmpty then []
    else ⟨a, d.take cfg.ps, if cfg.ps < d.length then cfg.ps else roundUp d.length cfg.al, nf, no⟩
      :: allBlks cfg nf f (d.drop cfg.ps) (a + cfg.ps) (no + 1)

theorem mul_mod_of_mod (k ps al : Nat) (h : ps % al = 0) : (k * ps) % al = 0 := by
  have : al ∣ ps := Nat.dvd_of_mod_eq_zero h
  exact Nat.mod_eq_zero_of_dvd (Nat.dvd_trans this (Nat.dvd_mul_left _ _))

/-- `k < block_cnt ↔ k * block_size < data.len()` -/
theorem lt_cnt (cfg : Cfg) (hv : cfg.valid) (len k : Nat) :
    k < ceilDiv (roundUp len cfg.al) cfg.ps ↔ k * cfg.ps < len := by
  rw [lt_ceilDiv _ _ _ (by have := hv.1; omega), lt_roundUp _ _ _ (by have := hv.2.2.1; omega) (mul_mod_of_mod _ _ _ hv.2.2.2)]

theorem writeLoop_ok (addr len : Nat) (nf : Bool) (fuel : Nat) :
    ∀ (d : List UInt8) (i q : Nat) (st : St), st.cfg.valid → q = i * st.cfg.ps → d.length = len - q →
      (d ≠ [] → q < len) → d.length ≤ fuel →
      addr + roundUp len st.cfg.al ≤ 4294967296 →
      st.pos + 512 * (ceilDiv (roundUp len st.cfg.al) st.cfg.ps - i) ≤ st.len → st.len ≤ 9223372036854775807 →
      st.count + (ceilDiv (roundUp len st.cfg.al) st.cfg.ps - i) ≤ 4294967295 →
      ∃ st', writeLoop addr (roundUp len st.cfg.al) (ceilDiv (roundUp len st.cfg.al) st.cfg.ps) nf i
                (chunksAux st.cfg.ps fuel d) st = .ok st' ∧
        st'.out = st.out ++ encAll st.cfg 0 (allBlks st.cfg nf fuel d (addr + q) st.count) ∧
        st'.cfg = st.cfg ∧ st'.pos = st.pos + 512 * (ceilDiv (roundUp len st.cfg.al) st.cfg.ps - i) ∧
        st'.count = st.count + (ceilDiv (roundUp len st.cfg.al) st.cfg.ps - i) ∧ st'.len = st.len ∧
        st'.isVec = st.isVec ∧
        (allBlks st.cfg nf fuel d (addr + q) st.count).length = ceilDiv (roundUp len st.cfg.al) st.cfg.ps - i := by
  induction fuel with
  | zero =>
    intro d i q st hv hq hd hne hf _ _ _ _
    have hd0 : d = [] := List.eq_nil_of_length_eq_zero (by omega)
    have hcnt : ¬ i < ceilDiv (roundUp len st.cfg.al) st.cfg.ps := by
      rw [lt_cnt st.cfg hv]; subst hd0; simp at hd; omega
    refine ⟨st, ?_⟩
    simp [chunksAux, writeLoop, allBlks, encAll]
    omega
  | succ fuel ih =>
    intro d i q st hv hq hd hne hf haddr hpos hlen hcount
    by_cases hd0 : d = []
    · have hcnt : ¬ i < ceilDiv (roundUp len st.cfg.al) st.cfg.ps := by
        rw [lt_cnt st.cfg hv]; subst hd0; simp at hd; omega
      refine ⟨st, ?_⟩
      subst hd0
      simp [chunksAux, writeLoop, allBlks, encAll]
      omega
    · have hql := hne hd0
      have hdl : 0 < d.length := List.length_pos_iff.mpr hd0
      have hemp : d.isEmpty = false := by simpa using hd0
      obtain ⟨hps1, hps2, hal1, hdiv⟩ := hv
      have hv : st.cfg.valid := ⟨hps1, hps2, hal1, hdiv⟩
      have hru := roundUp_ge len st.cfg.al (by omega)
      have hi : i < ceilDiv (roundUp len st.cfg.al) st.cfg.ps := by rw [lt_cnt st.cfg hv]; omega
      have hi1 : i + 1 < ceilDiv (roundUp len st.cfg.al) st.cfg.ps ↔ st.cfg.ps < d.length := by
        rw [lt_cnt st.cfg hv, Nat.succ_mul]; omega
      have hqal : q % st.cfg.al = 0 := by rw [hq]; exact mul_mod_of_mod _ _ _ hdiv
      have hlast : roundUp len st.cfg.al - q = roundUp d.length st.cfg.al := by
        have : len = q + d.length := by omega
        rw [this, roundUp_add _ _ _ (by omega) hqal]; omega
      simp only [chunksAux, hemp, Bool.false_eq_true, if_false, writeLoop, loopBody, allBlks]
      rw [if_neg (by simpa using hi), if_neg (by omega), if_neg (by omega), if_neg (by rw [← hq]; omega)]
      have hblen : (if i < ceilDiv (roundUp len st.cfg.al) st.cfg.ps - 1 then st.cfg.ps % 4294967296
            else (roundUp len st.cfg.al - i * st.cfg.ps) % 4294967296) =
          (if st.cfg.ps < d.length then st.cfg.ps else roundUp d.length st.cfg.al) := by
        have hle := roundUp_le_of_dvd d.length st.cfg.al st.cfg.ps (by omega) hdiv
        by_cases hc : st.cfg.ps < d.length
        · rw [if_pos (by omega), if_pos hc]; omega
        · rw [if_neg (by omega), if_neg hc, ← hq, hlast]
          have := hle (by omega); omega
      have hamod : addr + i * st.cfg.ps % 4294967296 = addr + q := by rw [← hq]; omega
      simp only [hblen, hamod]
      have htake : (d.take st.cfg.ps).length ≤ 476 := by simp; omega
      rw [encode_ok st _ _ _ _ (by omega) hlen htake (by omega)]
      simp only
      -- the state after this block
      have hcntpos : ceilDiv (roundUp len st.cfg.al) st.cfg.ps - i = (ceilDiv (roundUp len st.cfg.al) st.cfg.ps - (i + 1)) + 1 := by omega
      obtain ⟨st', h1, h2, h3, h4, h5, h6, h7, h8⟩ := ih (d.drop st.cfg.ps) (i + 1) (q + st.cfg.ps)
        { st with
          out := st.out ++ encBlk st.cfg 0 ⟨addr + q, d.take st.cfg.ps,
                      if st.cfg.ps < d.length then st.cfg.ps else roundUp d.length st.cfg.al, nf, st.count⟩,
          pos := st.pos + 512, count := st.count + 1 }
        hv (by simp only; rw [Nat.succ_mul, hq]) (by simp; omega) (by simp; intro _; omega) (by simp; omega)
        haddr (by simp only; omega) hlen (by simp only; omega)
      dsimp only at h1 h2 h3 h4 h5 h6 h7 h8
      have haa : addr + (q + st.cfg.ps) = addr + q + st.cfg.ps := by omega
      rw [haa] at h2 h8
      refine ⟨st', h1, ?_, h3, ?_, ?_, h6, h7, ?_⟩
      · rw [h2]; simp only [encAll, List.append_assoc]
      · rw [h4]; omega
      · rw [h5]; omega
      · simp only [List.length_cons]; rw [h8]; omega

/-! ### invariant and step specifications -/

structure Inv (st : St) : Prop where
  valid : st.cfg.valid
  famOk : st.cfg.famOk
  posLe : st.pos ≤ st.len
  lenLe : st.len ≤ 9223372036854775807
  vec : st.isVec = true → st.pos = st.len
  cnt : st.count ≤ 4294967295
  blocks : ∃ bl, AllOk bl ∧ st.out = encAll st.cfg 0 bl ∧ bl.length = st.count ∧
    ∀ k (h : k < bl.length), bl[k].no = k

/-- `st'` is `st` with the blocks `new` appended -/
structure Extends (st st' : St) (new : List Blk) : Prop where
  cfg : st'.cfg = st.cfg
  out : st'.out = st.out ++ encAll st.cfg 0 new
  count : st'.count = st.count + new.length
  isVec : st'.isVec = st.isVec
  ok : AllOk new
  no : ∀ k (h : k < new.length), new[k].no = st.count + k

theorem Inv.extend {st st' : St} {new : List Blk} (hI : Inv st) (hE : Extends st st' new)
    (hpos : st'.pos ≤ st'.len) (hlen : st'.len ≤ 9223372036854775807) (hvec : st'.isVec = true → st'.pos = st'.len)
    (hcnt : st'.count ≤ 4294967295) : Inv st' := by
  obtain ⟨bl, hbl, hout, hlenb, hno⟩ := hI.blocks
  refine ⟨by rw [hE.cfg]; exact hI.valid, by rw [hE.cfg]; exact hI.famOk, hpos, hlen, hvec, hcnt, bl ++ new, ?_, ?_, ?_, ?_⟩
  · intro b hb
    rcases List.mem_append.mp hb with h | h
    · exact hbl b h
    · exact hE.ok b h
  · rw [hE.out, hE.cfg, hout, encAll_append]
  · rw [List.length_append, hlenb, hE.count]
  · intro k hk
    rcases Nat.lt_or_ge k bl.length with h | h
    · rw [List.getElem_append_left h]; exact hno k h
    · rw [List.getElem_append_right h]
      have := hE.no (k - bl.length) (by rw [List.length_append] at hk; omega)
      rw [this, hlenb] ; omega

theorem checkWrite_cases (st : St) (n : Nat) (hpos : st.pos ≤ st.len) (hlen : st.len ≤ 9223372036854775807)
    (hvec : st.isVec = true → st.pos = st.len) :
    (∃ e, checkWrite st n = .err e ∧
        (if st.isVec then 9223372036854775807 - st.pos < n else st.len - st.pos < n)) ∨
    (∃ l, checkWrite st n = .ok { st with len := l } ∧ st.pos + n ≤ l ∧ l ≤ 9223372036854775807 ∧
        (st.isVec = true → l = st.pos + n) ∧ (st.isVec = false → l = st.len) ∧
        ¬ (if st.isVec then 9223372036854775807 - st.pos < n else st.len - st.pos < n)) := by
  unfold checkWrite
  rw [if_neg (by omega)]
  cases hv : st.isVec with
  | true =>
    have := hvec hv
    simp only [if_true]
    by_cases h1 : st.len - st.pos < n
    · rw [if_pos h1, if_neg (by omega)]
      by_cases h2 : 9223372036854775807 - st.pos < n
      · rw [if_pos h2]; exact .inl ⟨_, rfl, h2⟩
      · rw [if_neg h2]; exact .inr ⟨st.pos + n, rfl, by omega, by omega, fun _ => rfl, by simp, h2⟩
    · rw [if_neg h1]
      refine .inr ⟨st.len, ?_, by omega, hlen, fun _ => by omega, fun _ => rfl, by omega⟩
      cases st; simp only at hv; subst hv; rfl
  | false =>
    simp only [Bool.false_eq_true, if_false]
    by_cases h1 : st.len - st.pos < n
    · rw [if_pos h1]; exact .inl ⟨_, rfl, h1⟩
    · rw [if_neg h1]
      refine .inr ⟨st.len, ?_, by omega, hlen, by simp, fun _ => rfl, h1⟩
      cases st; simp only at hv; subst hv; rfl

/-- the block `write` appends -/
def writeBlks (st : St) (addr : Nat) (block : List UInt8) (nf : Bool) : List Blk :=
  if block.isEmpty then [] else [⟨addr, block, st.cfg.ps, nf, st.count⟩]

/-- why `write` rejects -/
def WriteRejects (st : St) (block : List UInt8) : Prop :=
  block ≠ [] ∧ (block.length % st.cfg.al ≠ 0 ∨ block.length > st.cfg.ps ∨ st.count = 4294967295 ∨
    (if st.isVec then 9223372036854775807 - st.pos < 512 else st.len - st.pos < 512))

theorem write_spec (st : St) (hI : Inv st) (addr : Nat) (ha : addr < 4294967296) (block : List UInt8) (nf : Bool) :
    (∃ st', write st addr block nf = (st', .ok ()) ∧ Inv st' ∧ Extends st st' (writeBlks st addr block nf) ∧
        ¬ WriteRejects st block) ∨
    (∃ e, write st addr block nf = (st, .err e) ∧ WriteRejects st block) := by
  obtain ⟨hps1, hps2, hal1, hdiv⟩ := hI.valid
  unfold write
  by_cases hb : block = []
  · subst hb
    refine .inl ⟨st, by simp, hI, ⟨rfl, by simp [writeBlks, encAll], by simp [writeBlks], rfl, by simp [writeBlks, AllOk], by simp [writeBlks]⟩, by simp [WriteRejects]⟩
  · have hemp : block.isEmpty = false := by simpa using hb
    rw [hemp]
    simp only [Bool.false_eq_true, if_false]
    rw [if_neg (by omega)]
    by_cases h1 : block.length % st.cfg.al ≠ 0
    · rw [if_pos h1]; exact .inr ⟨_, rfl, hb, .inl h1⟩
    rw [if_neg h1]
    by_cases h2 : block.length > st.cfg.ps
    · rw [if_pos h2]; exact .inr ⟨_, rfl, hb, .inr (.inl h2)⟩
    rw [if_neg h2]
    by_cases hcnt : st.count = 4294967295
    · rw [if_pos hcnt]; exact .inr ⟨_, rfl, hb, .inr (.inr (.inl hcnt))⟩
    rw [if_neg hcnt]
    rcases checkWrite_cases st 512 hI.posLe hI.lenLe hI.vec with ⟨e, he, hc⟩ | ⟨l, hl, hl1, hl2, hl3, hl4, hc⟩
    · rw [he]; exact .inr ⟨_, rfl, hb, .inr (.inr (.inr hc))⟩
    · rw [hl]
      dsimp only
      have hnr : ¬ WriteRejects st block := by
        intro ⟨_, h⟩; rcases h with h | h | h | h
        · exact h1 h
        · exact h2 h
        · exact hcnt h
        · exact hc h
      · have hcl := hI.cnt
        rw [encode_ok { st with len := l } addr block _ nf (by simp only; omega) (by simp only; omega) (by omega)
          (by simp only; omega)]
        dsimp only
        have hmod : st.cfg.ps % 4294967296 = st.cfg.ps := by omega
        rw [hmod]
        have hE : Extends st
            { st with
              len := l, out := st.out ++ encBlk st.cfg 0 ⟨addr, block, st.cfg.ps, nf, st.count⟩,
              pos := st.pos + 512, count := st.count + 1 } (writeBlks st addr block nf) := by
          refine ⟨rfl, ?_, ?_, rfl, ?_, ?_⟩
          · simp [writeBlks, hemp, encAll]
          · simp [writeBlks, hemp]
          · intro b hb'
            simp [writeBlks, hemp] at hb'
            subst hb'
            exact ⟨ha, by simp only; omega, by simp only; omega, by simp only; omega⟩
          · intro k hk
            simp [writeBlks, hemp] at hk ⊢
            exact hk
        refine .inl ⟨_, rfl, ?_, hE, hnr⟩
        refine hI.extend hE (by simp only; omega) (by simp only; omega) ?_ (by simp only; omega)
        simp only
        intro hv
        have := hl3 hv
        omega

theorem allBlks_nil (cfg : Cfg) (nf : Bool) (f a no : Nat) : allBlks cfg nf f [] a no = [] := by
  cases f <;> simp [allBlks]

theorem roundUp_zero (al : Nat) : roundUp 0 al = 0 := by simp [roundUp]

theorem allBlks_ok (cfg : Cfg) (hv : cfg.valid) (nf : Bool) (fuel : Nat) :
    ∀ (d : List UInt8) (a no : Nat), a + roundUp d.length cfg.al ≤ 4294967296 →
      no + (allBlks cfg nf fuel d a no).length ≤ 4294967296 →
      AllOk (allBlks cfg nf fuel d a no) ∧
      ∀ k (h : k < (allBlks cfg nf fuel d a no).length), (allBlks cfg nf fuel d a no)[k].no = no + k := by
  obtain ⟨hps1, hps2, hal1, hdiv⟩ := hv
  induction fuel with
  | zero => intro d a no _ _; simp [allBlks, AllOk]
  | succ f ih =>
    intro d a no ha hno
    by_cases hd : d = []
    · subst hd; simp [allBlks, AllOk]
    · have hemp : d.isEmpty = false := by simpa using hd
      have hdl : 0 < d.length := List.length_pos_iff.mpr hd
      have hru := roundUp_ge d.length cfg.al (by omega)
      have heq : allBlks cfg nf (f + 1) d a no =
          ⟨a, d.take cfg.ps, if cfg.ps < d.length then cfg.ps else roundUp d.length cfg.al, nf, no⟩ ::
            allBlks cfg nf f (d.drop cfg.ps) (a + cfg.ps) (no + 1) := by
        simp only [allBlks, hemp, Bool.false_eq_true, if_false]
      have hhead : Blk.ok ⟨a, d.take cfg.ps, if cfg.ps < d.length then cfg.ps else roundUp d.length cfg.al, nf, no⟩ := by
        rw [heq] at hno
        refine ⟨by simp only; omega, by simp; omega, ?_, by simp only [List.length_cons] at hno; simp only; omega⟩
        simp only
        split
        · omega
        · have := roundUp_le_of_dvd d.length cfg.al cfg.ps (by omega) hdiv (by omega); omega
      by_cases hc : cfg.ps < d.length
      · have hsplit : roundUp d.length cfg.al = cfg.ps + roundUp (d.drop cfg.ps).length cfg.al := by
          have : d.length = cfg.ps + (d.drop cfg.ps).length := by simp; omega
          rw [this, roundUp_add _ _ _ (by omega) hdiv]
        rw [heq] at hno ⊢
        obtain ⟨h1, h2⟩ := ih (d.drop cfg.ps) (a + cfg.ps) (no + 1) (by omega)
          (by simp only [List.length_cons] at hno; omega)
        refine ⟨?_, ?_⟩
        · intro b hb
          rcases List.mem_cons.mp hb with h | h
          · rw [h]; exact hhead
          · exact h1 b h
        · intro k hk
          cases k with
          | zero => rfl
          | succ k =>
            simp only [List.getElem_cons_succ]
            rw [h2 k (by simpa using hk)]; omega
      · have hnil : d.drop cfg.ps = [] := List.drop_eq_nil_of_le (by omega)
        rw [hnil, allBlks_nil] at heq
        rw [heq]
        refine ⟨?_, ?_⟩
        · intro b hb
          simp at hb
          rw [hb]; exact hhead
        · intro k hk
          simp at hk
          subst hk; rfl

/-- why `write_all` rejects -/
def WriteAllRejects (st : St) (addr : Nat) (data : List UInt8) : Prop :=
  data ≠ [] ∧
    ((data.length % st.cfg.al ≠ 0 ∧ 18446744073709551615 - data.length < st.cfg.al - data.length % st.cfg.al) ∨
     4294967296 < addr + roundUp data.length st.cfg.al ∨
     4294967295 - st.count < ceilDiv (roundUp data.length st.cfg.al) st.cfg.ps ∨
     (if st.isVec then 9223372036854775807 - st.pos < ceilDiv (roundUp data.length st.cfg.al) st.cfg.ps * 512
      else st.len - st.pos < ceilDiv (roundUp data.length st.cfg.al) st.cfg.ps * 512))

/-- the blocks `write_all` appends -/
def writeAllBlks (st : St) (addr : Nat) (data : List UInt8) (nf : Bool) : List Blk :=
  allBlks st.cfg nf data.length data addr st.count

theorem writeAll_spec (st : St) (hI : Inv st) (addr : Nat) (ha : addr < 4294967296) (data : List UInt8) (nf : Bool) :
    (∃ st', writeAll st addr data nf = (st', .ok (writeAllBlks st addr data nf).length) ∧ Inv st' ∧
        Extends st st' (writeAllBlks st addr data nf) ∧ ¬ WriteAllRejects st addr data) ∨
    (∃ e, writeAll st addr data nf = (st, .err e) ∧ WriteAllRejects st addr data) := by
  obtain ⟨hps1, hps2, hal1, hdiv⟩ := hI.valid
  have hv := hI.valid
  unfold writeAll
  by_cases hb : data = []
  · subst hb
    refine .inl ⟨st, by simp [writeAllBlks, allBlks], hI, ⟨rfl, by simp [writeAllBlks, allBlks, encAll], by simp [writeAllBlks, allBlks], rfl, by simp [writeAllBlks, allBlks, AllOk], by simp [writeAllBlks, allBlks]⟩, by simp [WriteAllRejects]⟩
  · have hemp : data.isEmpty = false := by simpa using hb
    have hdl : 0 < data.length := List.length_pos_iff.mpr hb
    rw [hemp]
    simp only [Bool.false_eq_true, if_false]
    rw [if_neg (by omega)]
    have hcl := hI.cnt
    have hal : (if data.length % st.cfg.al ≠ 0 then data.length - data.length % st.cfg.al + st.cfg.al else data.length)
        = roundUp data.length st.cfg.al := rfl
    have hcd : ∀ x p : Nat, x / p + (if x % p > 0 then 1 else 0) = ceilDiv x p := fun _ _ => rfl
    simp only [hal, hcd]
    by_cases h1 : data.length % st.cfg.al ≠ 0 ∧ 18446744073709551615 - data.length < st.cfg.al - data.length % st.cfg.al
    · rw [if_pos h1]; exact .inr ⟨_, rfl, hb, .inl h1⟩
    rw [if_neg h1]
    have hru := roundUp_ge data.length st.cfg.al (by omega)
    by_cases h2 : 4294967295 - addr < roundUp data.length st.cfg.al - 1
    · rw [if_pos h2]; exact .inr ⟨_, rfl, hb, .inr (.inl (by omega))⟩
    rw [if_neg h2, if_neg (by omega)]
    by_cases h3 : ceilDiv (roundUp data.length st.cfg.al) st.cfg.ps > 4294967295 ∨
        4294967295 - st.count < ceilDiv (roundUp data.length st.cfg.al) st.cfg.ps
    · rw [if_pos h3]; exact .inr ⟨_, rfl, hb, .inr (.inr (.inl (by omega)))⟩
    rw [if_neg h3, if_neg (by omega)]
    rcases checkWrite_cases st (ceilDiv (roundUp data.length st.cfg.al) st.cfg.ps * 512) hI.posLe hI.lenLe hI.vec with
      ⟨e, he, hc⟩ | ⟨l, hl, hl1, hl2, hl3, hl4, hc⟩
    · rw [he]; exact .inr ⟨_, rfl, hb, .inr (.inr (.inr hc))⟩
    · rw [hl]
      dsimp only
      have hnr : ¬ WriteAllRejects st addr data := by
        intro ⟨_, h⟩; rcases h with h | h | h | h
        · exact h1 h
        · omega
        · omega
        · exact hc h
      obtain ⟨st', w1, w2, w3, w4, w5, w6, w7, w8⟩ := writeLoop_ok addr data.length nf data.length data 0 0
        { st with len := l } hv (by simp) (by simp) (fun _ => hdl) (Nat.le_refl _) (by simp only; omega)
        (by simp only; omega) (by simp only; omega) (by simp only; omega)
      dsimp only at w1 w2 w3 w4 w5 w6 w7 w8
      simp only [Nat.add_zero, Nat.sub_zero] at w1 w2 w4 w5 w8
      unfold chunks
      rw [w1]
      dsimp only
      have hblk : writeAllBlks st addr data nf = allBlks st.cfg nf data.length data addr st.count := rfl
      rw [hblk, w8]
      obtain ⟨o1, o2⟩ := allBlks_ok st.cfg hv nf data.length data addr st.count (by omega) (by rw [w8]; omega)
      have hE : Extends st st' (allBlks st.cfg nf data.length data addr st.count) :=
        ⟨w3, w2, by rw [w5, w8], w7, o1, o2⟩
      refine .inl ⟨st', rfl, ?_, hE, hnr⟩
      refine hI.extend hE (by rw [w4, w6]; omega) (by rw [w6]; exact hl2) ?_ (by rw [w5]; omega)
      intro hvv
      rw [w7] at hvv
      have := hl3 hvv
      rw [w4, w6]; omega

/-! ### images -/

theorem getElem?_pad (d : List UInt8) (n j : Nat) :
    (d ++ zeros n)[j]? = if j < d.length then d[j]? else if j < d.length + n then some 0 else none := by
  by_cases h : j < d.length
  · rw [if_pos h, List.getElem?_append_left h]
  · rw [if_neg h, List.getElem?_append_right (by omega)]
    unfold zeros
    rw [List.getElem?_replicate]
    by_cases h2 : j < d.length + n
    · rw [if_pos h2, if_pos (by omega)]
    · rw [if_neg h2, if_neg (by omega)]

/-- the expected content of a write: the data followed by zero padding up to `padded` bytes -/
def padded (data : List UInt8) (n : Nat) : List UInt8 := data ++ zeros (n - data.length)

/-- what a loader must see for one write: `padded` at `addr`, nothing elsewhere -/
def expectImage (addr : Nat) (data : List UInt8) (n : Nat) (x : Nat) : Option UInt8 :=
  if addr ≤ x ∧ x < addr + n then (padded data n)[x - addr]? else none

theorem image_nil (x : Nat) : image [] x = none := rfl

theorem image_writeBlks (st : St) (hv : st.cfg.valid) (addr : Nat) (block : List UInt8) (nf : Bool) (t : Nat)
    (hb : block ≠ []) (hl : block.length ≤ st.cfg.ps) (x : Nat) :
    image ((writeBlks st addr block nf).map (toBlock st.cfg t)) x = expectImage addr block st.cfg.ps x := by
  have hemp : block.isEmpty = false := by simpa using hb
  obtain ⟨hps1, hps2, _, _⟩ := hv
  simp only [writeBlks, hemp, Bool.false_eq_true, if_false, List.map_cons, List.map_nil, image, toBlock, Block.at,
    expectImage, padded]
  by_cases hx : addr ≤ x ∧ x < addr + st.cfg.ps
  · rw [if_pos hx, if_pos hx, getElem?_pad, getElem?_pad]
    by_cases h1 : x - addr < block.length
    · rw [if_pos h1, if_pos h1]
    · rw [if_neg h1, if_neg h1, if_pos (by omega), if_pos (by omega)]
  · rw [if_neg hx, if_neg hx]

theorem image_cons (b : Block) (r : List Block) (x : Nat) :
    image (b :: r) x = match image r x with | some v => some v | none => b.at x := rfl

/-- canonical form of the expected image -/
theorem expectImage_val (a : Nat) (d : List UInt8) (n x : Nat) (h : d.length ≤ n) :
    expectImage a d n x =
      if a ≤ x ∧ x < a + n then (if x - a < d.length then d[x - a]? else some 0) else none := by
  unfold expectImage padded
  by_cases hx : a ≤ x ∧ x < a + n
  · rw [if_pos hx, if_pos hx, getElem?_pad]
    by_cases h1 : x - a < d.length
    · rw [if_pos h1, if_pos h1]
    · rw [if_neg h1, if_neg h1, if_pos (by omega)]
  · rw [if_neg hx, if_neg hx]

theorem toBlock_at (cfg : Cfg) (t a : Nat) (c : List UInt8) (bl : Nat) (nf : Bool) (no x : Nat)
    (hc : c.length ≤ 476) (hbl : bl ≤ 476) :
    (toBlock cfg t ⟨a, c, bl, nf, no⟩).at x =
      if a ≤ x ∧ x < a + bl then (if x - a < c.length then c[x - a]? else some 0) else none := by
  show (if a ≤ x ∧ x < a + bl then (c ++ zeros (476 - c.length))[x - a]? else none) = _
  by_cases hx : a ≤ x ∧ x < a + bl
  · rw [if_pos hx, if_pos hx, getElem?_pad]
    by_cases h1 : x - a < c.length
    · rw [if_pos h1, if_pos h1]
    · rw [if_neg h1, if_neg h1, if_pos (by omega)]
  · rw [if_neg hx, if_neg hx]

theorem image_allBlks (cfg : Cfg) (hv : cfg.valid) (nf : Bool) (t : Nat) (fuel : Nat) :
    ∀ (d : List UInt8) (a no : Nat), d.length ≤ fuel → ∀ x,
      image ((allBlks cfg nf fuel d a no).map (toBlock cfg t)) x = expectImage a d (roundUp d.length cfg.al) x := by
  obtain ⟨hps1, hps2, hal1, hdiv⟩ := hv
  have hnilcase : ∀ a x, expectImage a [] (roundUp 0 cfg.al) x = none := by
    intro a x
    rw [roundUp_zero, expectImage_val _ _ _ _ (by simp), if_neg (by omega)]
  induction fuel with
  | zero =>
    intro d a no hf x
    have : d = [] := List.eq_nil_of_length_eq_zero (by omega)
    subst this
    rw [show ([] : List UInt8).length = 0 from rfl, hnilcase]; rfl
  | succ f ih =>
    intro d a no hf x
    by_cases hd : d = []
    · subst hd
      rw [show ([] : List UInt8).length = 0 from rfl, hnilcase]; rfl
    · have hemp : d.isEmpty = false := by simpa using hd
      have hdl : 0 < d.length := List.length_pos_iff.mpr hd
      have hru := roundUp_ge d.length cfg.al (by omega)
      have hdrop : (d.drop cfg.ps).length = d.length - cfg.ps := List.length_drop
      have htk : (d.take cfg.ps).length = min cfg.ps d.length := List.length_take
      simp only [allBlks, hemp, Bool.false_eq_true, if_false, List.map_cons, image_cons]
      rw [expectImage_val a d _ x hru.1]
      by_cases hc : cfg.ps < d.length
      · have hsplit : roundUp d.length cfg.al = cfg.ps + roundUp (d.drop cfg.ps).length cfg.al := by
          have : d.length = cfg.ps + (d.drop cfg.ps).length := by omega
          rw [this, roundUp_add _ _ _ (by omega) hdiv]
        have hru2 := roundUp_ge (d.drop cfg.ps).length cfg.al (by omega)
        rw [ih (d.drop cfg.ps) (a + cfg.ps) (no + 1) (by omega) x, expectImage_val _ _ _ x hru2.1, if_pos hc,
          toBlock_at cfg t a _ _ nf no x (by omega) (by omega)]
        by_cases hx2 : a + cfg.ps ≤ x ∧ x < a + cfg.ps + roundUp (d.drop cfg.ps).length cfg.al
        · have hR : a ≤ x ∧ x < a + roundUp d.length cfg.al := by omega
          rw [if_pos hx2, if_pos hR]
          by_cases h1 : x - a < d.length
          · have h1' : x - (a + cfg.ps) < (d.drop cfg.ps).length := by omega
            rw [if_pos h1', if_pos h1, List.getElem?_drop,
              show cfg.ps + (x - (a + cfg.ps)) = x - a from by omega, List.getElem?_eq_getElem h1]
          · have h1' : ¬ x - (a + cfg.ps) < (d.drop cfg.ps).length := by omega
            rw [if_neg h1', if_neg h1]
        · rw [if_neg hx2]
          by_cases hx1 : a ≤ x ∧ x < a + cfg.ps
          · have hR : a ≤ x ∧ x < a + roundUp d.length cfg.al := by omega
            have h2 : x - a < (d.take cfg.ps).length := by omega
            have h3 : x - a < d.length := by omega
            rw [if_pos hx1, if_pos hR, if_pos h2, if_pos h3, List.getElem?_take_of_lt (by omega)]
          · have hR : ¬ (a ≤ x ∧ x < a + roundUp d.length cfg.al) := by omega
            rw [if_neg hx1, if_neg hR]
      · have hnil : d.drop cfg.ps = [] := List.drop_eq_nil_of_le (by omega)
        have htake : d.take cfg.ps = d := List.take_of_length_le (by omega)
        have hle := roundUp_le_of_dvd d.length cfg.al cfg.ps (by omega) hdiv (by omega)
        rw [hnil, allBlks_nil]
        simp only [List.map_nil, image_nil]
        rw [if_neg hc, htake, toBlock_at cfg t a d _ nf no x (by omega) (by omega)]

/-! ### no address twice within one write -/

theorem allBlks_addr_ge (cfg : Cfg) (nf : Bool) (fuel : Nat) :
    ∀ (d : List UInt8) (a no : Nat), ∀ b ∈ allBlks cfg nf fuel d a no, a ≤ b.addr := by
  induction fuel with
  | zero => intro d a no b hb; simp [allBlks] at hb
  | succ f ih =>
    intro d a no b hb
    by_cases hd : d = []
    · subst hd; simp [allBlks] at hb
    · have hemp : d.isEmpty = false := by simpa using hd
      simp only [allBlks, hemp, Bool.false_eq_true, if_false] at hb
      rcases List.mem_cons.mp hb with h | h
      · subst h; exact Nat.le_refl _
      · have := ih _ _ _ b h; omega

/-- the address ranges `[addr, addr + payload size)` of the blocks of one `write_all` are consecutive and
pairwise disjoint -/
theorem allBlks_disjoint (cfg : Cfg) (hv : cfg.valid) (nf : Bool) (fuel : Nat) :
    ∀ (d : List UInt8) (a no : Nat),
      List.Pairwise (fun b c : Blk => b.addr + b.blen ≤ c.addr) (allBlks cfg nf fuel d a no) := by
  obtain ⟨hps1, hps2, hal1, hdiv⟩ := hv
  induction fuel with
  | zero => intro d a no; simp [allBlks]
  | succ f ih =>
    intro d a no
    by_cases hd : d = []
    · subst hd; simp [allBlks]
    · have hemp : d.isEmpty = false := by simpa using hd
      simp only [allBlks, hemp, Bool.false_eq_true, if_false]
      refine List.Pairwise.cons ?_ (ih _ _ _)
      intro c hc
      have := allBlks_addr_ge cfg nf f _ _ _ c hc
      simp only
      split
      · omega
      · have := roundUp_le_of_dvd d.length cfg.al cfg.ps (by omega) hdiv (by omega); omega

/-! ### histories -/

/-- the blocks one operation appends (none when it is rejected) -/
def stepBlks (st : St) : Op → List Blk
  | .write a d nf => match (write st a d nf).2 with
    | .ok _ => writeBlks st a d nf
    | _ => []
  | .writeAll a d nf => match (writeAll st a d nf).2 with
    | .ok _ => writeAllBlks st a d nf
    | _ => []

def runBlks (st : St) : List Op → List (List Blk)
  | [] => []
  | op :: ops => stepBlks st op :: runBlks (step st op).1 ops

theorem run_cons (st : St) (op : Op) (ops : List Op) :
    run st (op :: ops) = ((run (step st op).1 ops).1, (step st op).2 :: (run (step st op).1 ops).2) := rfl

/-- one step from a state satisfying the invariant -/
theorem step_spec (st : St) (hI : Inv st) (op : Op) (ha : op.addr < 4294967296) :
    Inv (step st op).1 ∧ Extends st (step st op).1 (stepBlks st op) ∧
      ((∃ n, (step st op).2 = .ok n) ∨ ((∃ e, (step st op).2 = .err e) ∧ (step st op).1 = st)) := by
  have hnil : Extends st st [] := ⟨rfl, by simp [encAll], by simp, rfl, by simp [AllOk], by simp⟩
  cases op with
  | write a d nf =>
    rcases write_spec st hI a ha d nf with ⟨st', h, hI', hE, _⟩ | ⟨e, h, _⟩
    · simp only [step, stepBlks, h]; exact ⟨hI', hE, .inl ⟨0, rfl⟩⟩
    · simp only [step, stepBlks, h]; exact ⟨hI, hnil, .inr ⟨⟨e, rfl⟩, trivial⟩⟩
  | writeAll a d nf =>
    rcases writeAll_spec st hI a ha d nf with ⟨st', h, hI', hE, _⟩ | ⟨e, h, _⟩
    · simp only [step, stepBlks, h]; exact ⟨hI', hE, .inl ⟨_, rfl⟩⟩
    · simp only [step, stepBlks, h]; exact ⟨hI, hnil, .inr ⟨⟨e, rfl⟩, trivial⟩⟩

theorem run_spec (ops : List Op) : ∀ (st : St), Inv st → (∀ op ∈ ops, op.addr < 4294967296) →
    Inv (run st ops).1 ∧ Extends st (run st ops).1 (runBlks st ops).flatten ∧
      ∀ r ∈ (run st ops).2, ∀ s, r ≠ .panic s := by
  induction ops with
  | nil =>
    intro st hI _
    exact ⟨hI, ⟨rfl, by simp [run, runBlks, encAll], by simp [run, runBlks], rfl, by simp [runBlks, AllOk], by simp [runBlks]⟩,
      by simp [run]⟩
  | cons op ops ih =>
    intro st hI ha
    rw [run_cons]
    obtain ⟨hI1, hE1, hr1⟩ := step_spec st hI op (ha op (by simp))
    obtain ⟨hI2, hE2, hnp2⟩ := ih (step st op).1 hI1 (fun o ho => ha o (by simp [ho]))
    refine ⟨hI2, ?_, ?_⟩
    case refine_2 =>
      intro r hr s
      rcases List.mem_cons.mp hr with h | h
      · subst h
        rcases hr1 with ⟨n, h⟩ | ⟨⟨e, h⟩, _⟩ <;> rw [h] <;> simp
      · exact hnp2 r h s
    simp only [runBlks, List.flatten_cons]
    refine ⟨by rw [hE2.cfg, hE1.cfg], ?_, ?_, by rw [hE2.isVec, hE1.isVec], ?_, ?_⟩
    · rw [hE2.out, hE1.out, hE1.cfg, encAll_append, List.append_assoc]
    · rw [hE2.count, hE1.count, List.length_append]; omega
    · intro b hb
      rcases List.mem_append.mp hb with h | h
      · exact hE1.ok b h
      · exact hE2.ok b h
    · intro k hk
      rcases Nat.lt_or_ge k (stepBlks st op).length with h | h
      · rw [List.getElem_append_left h]; exact hE1.no k h
      · rw [List.getElem_append_right h]
        have := hE2.no (k - (stepBlks st op).length) (by rw [List.length_append] at hk; omega)
        rw [this, hE1.count]; omega

/-- what a loader must see of one operation: the data followed by zero padding (up to the payload size for
`write`, up to the alignment for `write_all`) at the target address and nothing else; nothing at all for a
rejected or empty write -/
def opImage (cfg : Cfg) (op : Op) (r : Res Nat) (x : Nat) : Option UInt8 :=
  match r with
  | .ok _ => (match op with
    | .write a d _ => if d = [] then none else expectImage a d cfg.ps x
    | .writeAll a d _ => expectImage a d (roundUp d.length cfg.al) x)
  | _ => none

theorem stepBlks_image (st : St) (hI : Inv st) (op : Op) (ha : op.addr < 4294967296) (t x : Nat) :
    image ((stepBlks st op).map (toBlock st.cfg t)) x = opImage st.cfg op (step st op).2 x := by
  cases op with
  | write a d nf =>
    rcases write_spec st hI a ha d nf with ⟨st', h, _, _, hnr⟩ | ⟨e, h, _⟩
    · simp only [step, stepBlks, h, opImage]
      by_cases hd : d = []
      · subst hd; simp [writeBlks, image]
      · rw [if_neg hd]
        refine image_writeBlks st hI.valid a d nf t hd ?_ x
        rcases Nat.lt_or_ge st.cfg.ps d.length with h' | h'
        · exact absurd ⟨hd, .inr (.inl h')⟩ hnr
        · exact h'
    · simp only [step, stepBlks, h, opImage]; rfl
  | writeAll a d nf =>
    rcases writeAll_spec st hI a ha d nf with ⟨st', h, _, _, _⟩ | ⟨e, h, _⟩
    · simp only [step, stepBlks, h, opImage, writeAllBlks]
      exact image_allBlks st.cfg hI.valid nf t d.length d a st.count (Nat.le_refl _) x
    · simp only [step, stepBlks, h, opImage]; rfl

theorem runBlks_length (ops : List Op) : ∀ st, (runBlks st ops).length = ops.length := by
  induction ops with
  | nil => intro _; rfl
  | cons op ops ih => intro st; simp [runBlks, ih]

theorem run_length (ops : List Op) : ∀ st, (run st ops).2.length = ops.length := by
  induction ops with
  | nil => intro _; rfl
  | cons op ops ih => intro st; rw [run_cons]; simp [ih]

theorem runBlks_image (ops : List Op) : ∀ (st : St), Inv st → (∀ op ∈ ops, op.addr < 4294967296) →
    ∀ (i : Nat) (h1 : i < (runBlks st ops).length) (h2 : i < ops.length) (h3 : i < (run st ops).2.length) (t x : Nat),
      image (((runBlks st ops)[i]).map (toBlock st.cfg t)) x = opImage st.cfg ops[i] ((run st ops).2[i]) x := by
  induction ops with
  | nil => intro st _ _ i h1; simp [runBlks] at h1
  | cons op ops ih =>
    intro st hI ha i h1 h2 h3 t x
    obtain ⟨hI1, hE1, _⟩ := step_spec st hI op (ha op (by simp))
    cases i with
    | zero =>
      simp only [runBlks, List.getElem_cons_zero, run_cons]
      exact stepBlks_image st hI op (ha op (by simp)) t x
    | succ i =>
      simp only [runBlks, List.getElem_cons_succ, run_cons]
      have := ih (step st op).1 hI1 (fun o ho => ha o (by simp [ho])) i
        (by simp [runBlks] at h1; omega) (by simp at h2; omega) (by rw [run_cons] at h3; simp at h3; omega) t x
      rw [hE1.cfg] at this
      exact this

theorem finish_spec (st : St) (hI : Inv st) (bl : List Blk) (hbl : AllOk bl) (hout : st.out = encAll st.cfg 0 bl)
    (hlen : bl.length = st.count) :
    finish st = .ok (encAll st.cfg st.count bl) ∧
      read (encAll st.cfg st.count bl) = some (bl.map (toBlock st.cfg st.count)) ∧
      (encAll st.cfg st.count bl).length = 512 * st.count := by
  refine ⟨?_, read_encAll st.cfg hI.famOk st.count (by have := hI.cnt; omega) bl hbl, by rw [encAll_length _ _ _ hbl, hlen]⟩
  unfold finish
  rw [hout, ← hlen]
  have := finishLoop_encAll st.cfg bl.length bl hbl []
  simpa using this

/-! ### the appended blocks, index by index (link between the ghost block lists and the reader's result) -/

/-- `runBlks` lists, per operation, the blocks appended from the state reached by the earlier operations -/
theorem runBlks_getElem (ops : List Op) : ∀ (st : St) (i : Nat) (h : i < ops.length) (h' : i < (runBlks st ops).length),
    (runBlks st ops)[i] = stepBlks (run st (ops.take i)).1 ops[i] := by
  induction ops with
  | nil => intro st i h; simp at h
  | cons op ops ih =>
    intro st i h h'
    cases i with
    | zero => rfl
    | succ i =>
      simp only [runBlks, List.getElem_cons_succ, List.take_succ_cons, run_cons]
      exact ih (step st op).1 i (by simpa using h) (by simpa [runBlks] using h')

/-- block `k` of a `write_all` exists iff `k * block_size` is inside the data -/
theorem allBlks_length_iff (cfg : Cfg) (hps : 1 ≤ cfg.ps) (nf : Bool) (fuel : Nat) :
    ∀ (d : List UInt8) (a no : Nat), d.length ≤ fuel → ∀ k,
      k < (allBlks cfg nf fuel d a no).length ↔ k * cfg.ps < d.length := by
  induction fuel with
  | zero =>
    intro d a no hf k
    have : d.length = 0 := by omega
    simp [allBlks, this]
  | succ f ih =>
    intro d a no hf k
    by_cases hd : d = []
    · subst hd; simp [allBlks]
    · have hemp : d.isEmpty = false := by simpa using hd
      have hdl : 0 < d.length := List.length_pos_iff.mpr hd
      have hdrop : (d.drop cfg.ps).length = d.length - cfg.ps := List.length_drop
      simp only [allBlks, hemp, Bool.false_eq_true, if_false, List.length_cons]
      cases k with
      | zero => simp; exact hdl
      | succ k =>
        have := ih (d.drop cfg.ps) (a + cfg.ps) (no + 1) (by omega) k
        rw [Nat.succ_mul]
        constructor
        · intro h; have := this.mp (by omega); omega
        · intro h; have := this.mpr (by omega); omega

/-- block `k` of a `write_all`: target `addr + k·ps`, the `k`-th chunk of the data, payload size `ps` except
for the last block, whose payload size is the remaining length rounded up to the alignment, number `no + k` -/
theorem allBlks_getElem (cfg : Cfg) (nf : Bool) (fuel : Nat) :
    ∀ (d : List UInt8) (a no : Nat) (k : Nat) (hk : k < (allBlks cfg nf fuel d a no).length),
      ((allBlks cfg nf fuel d a no)[k]).addr = a + k * cfg.ps ∧
      ((allBlks cfg nf fuel d a no)[k]).data = (d.drop (k * cfg.ps)).take cfg.ps ∧
      ((allBlks cfg nf fuel d a no)[k]).blen =
        (if cfg.ps < d.length - k * cfg.ps then cfg.ps else roundUp (d.length - k * cfg.ps) cfg.al) ∧
      ((allBlks cfg nf fuel d a no)[k]).nf = nf ∧
      ((allBlks cfg nf fuel d a no)[k]).no = no + k := by
  induction fuel with
  | zero => intro d a no k hk; simp [allBlks] at hk
  | succ f ih =>
    intro d a no k hk
    by_cases hd : d = []
    · subst hd; simp [allBlks] at hk
    · have hemp : d.isEmpty = false := by simpa using hd
      have heq : allBlks cfg nf (f + 1) d a no =
          ⟨a, d.take cfg.ps, if cfg.ps < d.length then cfg.ps else roundUp d.length cfg.al, nf, no⟩ ::
            allBlks cfg nf f (d.drop cfg.ps) (a + cfg.ps) (no + 1) := by
        simp only [allBlks, hemp, Bool.false_eq_true, if_false]
      have hdrop : (d.drop cfg.ps).length = d.length - cfg.ps := List.length_drop
      cases k with
      | zero =>
        simp [heq]
      | succ k =>
        have hk' : k < (allBlks cfg nf f (d.drop cfg.ps) (a + cfg.ps) (no + 1)).length := by
          rw [heq] at hk; simpa using hk
        obtain ⟨i1, i2, i3, i4, i5⟩ := ih (d.drop cfg.ps) (a + cfg.ps) (no + 1) k hk'
        simp only [heq, List.getElem_cons_succ]
        have e1 : (k + 1) * cfg.ps = cfg.ps + k * cfg.ps := by rw [Nat.succ_mul]; omega
        have e2 : d.length - cfg.ps - k * cfg.ps = d.length - (k + 1) * cfg.ps := by omega
        refine ⟨by rw [i1]; omega, ?_, ?_, i4, by rw [i5]; omega⟩
        · rw [i2, List.drop_drop, e1]
        · rw [i3, hdrop, e2]

theorem allBlks_blen_pos (cfg : Cfg) (hv : cfg.valid) (nf : Bool) (fuel : Nat) :
    ∀ (d : List UInt8) (a no : Nat), ∀ b ∈ allBlks cfg nf fuel d a no, 1 ≤ b.blen := by
  obtain ⟨hps1, _, hal1, _⟩ := hv
  induction fuel with
  | zero => intro d a no b hb; simp [allBlks] at hb
  | succ f ih =>
    intro d a no b hb
    by_cases hd : d = []
    · subst hd; simp [allBlks] at hb
    · have hemp : d.isEmpty = false := by simpa using hd
      have hdl : 0 < d.length := List.length_pos_iff.mpr hd
      simp only [allBlks, hemp, Bool.false_eq_true, if_false] at hb
      rcases List.mem_cons.mp hb with h | h
      · subst h
        simp only
        split
        · omega
        · have := roundUp_ge d.length cfg.al (by omega); omega
      · exact ih _ _ _ b h

/-- all blocks of an accepted `write_all` lie inside `[addr, addr + aligned length)` -/
theorem allBlks_range (cfg : Cfg) (hv : cfg.valid) (nf : Bool) (fuel : Nat) :
    ∀ (d : List UInt8) (a no : Nat), ∀ b ∈ allBlks cfg nf fuel d a no,
      a ≤ b.addr ∧ b.addr + b.blen ≤ a + roundUp d.length cfg.al := by
  obtain ⟨hps1, hps2, hal1, hdiv⟩ := hv
  induction fuel with
  | zero => intro d a no b hb; simp [allBlks] at hb
  | succ f ih =>
    intro d a no b hb
    by_cases hd : d = []
    · subst hd; simp [allBlks] at hb
    · have hemp : d.isEmpty = false := by simpa using hd
      have hru := roundUp_ge d.length cfg.al (by omega)
      simp only [allBlks, hemp, Bool.false_eq_true, if_false] at hb
      rcases List.mem_cons.mp hb with h | h
      · subst h
        simp only
        split <;> omega
      · by_cases hc : cfg.ps < d.length
        · have hsplit : roundUp d.length cfg.al = cfg.ps + roundUp (d.drop cfg.ps).length cfg.al := by
            have : d.length = cfg.ps + (d.drop cfg.ps).length := by simp; omega
            rw [this, roundUp_add _ _ _ (by omega) hdiv]
          have := ih _ _ _ b h
          omega
        · have hnil : d.drop cfg.ps = [] := List.drop_eq_nil_of_le (by omega)
          rw [hnil, allBlks_nil] at h
          simp at h

end Trion.Uf2
