import TrionModel.Lemmas.ScopePanic
import TrionModel.Lemmas.ScopeFrame
/-! Helper lemmas for C14: whole `enter … exit` runs over include trees (core Lean only). -/
namespace Trion.Scope

/-! ## include trees and their flattening -/

/-- a statement of a file (everything but the three structural ops) -/
def Op.isStmt : Op → Bool
  | .enter _ => false
  | .exit => false
  | .finalize => false
  | _ => true

/-- the body of one file: a sequence of statements and complete `.include`s (with the included file's body) -/
inductive Body where
  | nil
  | stmt (o : Op) (rest : Body)
  | incl (tag : Nat) (inner rest : Body)
deriving Repr

/-- the op sequence the harness feeds to the model for a file body: well bracketed by construction -/
def Body.flatten : Body → List Op
  | .nil => []
  | .stmt o r => o :: r.flatten
  | .incl tag i r => .enter tag :: (i.flatten ++ .exit :: r.flatten)

def Body.wf : Body → Prop
  | .nil => True
  | .stmt o r => o.isStmt = true ∧ r.wf
  | .incl _ i r => i.wf ∧ r.wf

/-- the name a statement can send upwards -/
def Op.names : Op → List Bytes
  | .export n _ => [n]
  | .global n _ => [n]
  | _ => []

/-- the names the file itself (not the files it includes) exports or declares global -/
def Body.names : Body → List Bytes
  | .nil => []
  | .stmt o r => o.names ++ r.names
  | .incl _ _ r => r.names

/-! ## runs -/

theorem run_append : ∀ (a b : List Op) {s s' : State},
    run s (a ++ b) = .ok s' ↔ ∃ m, run s a = .ok m ∧ run m b = .ok s'
  | [], b, s, s' => by simp [run]
  | op :: a, b, s, s' => by
    simp only [List.cons_append, run]
    cases h : step s op with
    | error p => simp
    | ok s1 => simp only; exact run_append a b

theorem run_single {s s' : State} {op : Op} : run s [op] = .ok s' ↔ step s op = .ok s' := by
  simp only [run]
  cases h : step s op <;> simp

theorem inv_run {ops : List Op} {s s' : State} (hi : Inv s) (h : run s ops = .ok s') : Inv s' := by
  obtain ⟨s2, h2, i2⟩ := run_ok ops hi
  rw [h] at h2; cases h2; exact i2

theorem inv_step {op : Op} {s s' : State} (hi : Inv s) (h : step s op = .ok s') : Inv s' := by
  obtain ⟨s2, h2, i2⟩ := step_ok op hi
  rw [h] at h2; cases h2; exact i2

theorem mode_eta (s : State) {m : Mode} (h : s.mode = m) : { s with mode := m } = s := by
  cases s; simp_all

/-- after `do_assemble` of the current file returned, the rest of its body is skipped: the state does not change -/
theorem skip_body : ∀ (b : Body), b.wf → ∀ {s : State} {l : Level} {k : Nat}, s.mode = .stopped l k →
    run s b.flatten = .ok s
  | .nil, _, s, l, k, _ => rfl
  | .stmt o r, hw, s, l, k, hm => by
    have h1 : step s o = .ok s := by
      have := hw.1
      cases o <;> cases k <;> simp_all [step, Op.isStmt]
    simp only [Body.flatten, run, h1]
    exact skip_body r hw.2 hm
  | .incl tag i r, hw, s, l, k, hm => by
    simp only [Body.flatten]
    have h1 : step s (.enter tag) = .ok { s with mode := .stopped l (k + 1) } := by simp [step, hm]
    have h2 := skip_body i hw.1 (s := { s with mode := .stopped l (k + 1) }) rfl
    have h3 : step { s with mode := .stopped l (k + 1) } .exit = .ok s := by
      simp only [step]
      rw [mode_eta s hm]
    have h4 := skip_body r hw.2 hm
    simp only [run, h1]
    rw [run_append]
    refine ⟨_, h2, ?_⟩
    simp only [run, h3]
    exact h4

/-! ## what an included file may do to its includer's table -/

/-- `G'` is `G` plus entries at `names`: each changed entry was absent or unvalued in `G` and now carries the value
the entry has in `C'` (the included file's own table) — or it was absent and is now "announced" (a `.global` whose value
never arrived) -/
def Upd (names : List Bytes) (G G' C' : Table) : Prop :=
  ∀ m, G'.find m = G.find m ∨ (m ∈ names ∧ (∀ w, G.find m ≠ some (some w)) ∧
    ((∃ v, C'.find m = some (some v) ∧ G'.find m = some (some v)) ∨ (G.find m = none ∧ G'.find m = some none)))

theorem Upd.refl (names : List Bytes) (G C : Table) : Upd names G G C := fun _ => .inl rfl

theorem Upd.mono {n n' : List Bytes} {G G' C C' : Table} (h : Upd n G G' C) (hn : ∀ m ∈ n, m ∈ n')
    (hc : C.le C') : Upd n' G G' C' := by
  intro m
  rcases h m with h | ⟨h1, h2, h3⟩
  · exact .inl h
  · refine .inr ⟨hn m h1, h2, ?_⟩
    rcases h3 with ⟨v, h4, h5⟩ | h3
    · exact .inl ⟨v, hc m v h4, h5⟩
    · exact .inr h3

theorem Upd.trans {n : List Bytes} {G G1 G' C1 C' : Table} (h1 : Upd n G G1 C1) (h2 : Upd n G1 G' C')
    (hc : C1.le C') : Upd n G G' C' := by
  intro m
  rcases h2 m with e2 | ⟨m2, u2, c2⟩
  · rw [e2]
    exact (h1.mono (fun _ h => h) hc) m
  · rcases h1 m with e1 | ⟨m1, u1, c1⟩
    · rw [e1] at u2 c2
      exact .inr ⟨m2, u2, c2⟩
    · refine .inr ⟨m2, u1, ?_⟩
      rcases c2 with ⟨v, h4, h5⟩ | ⟨h4, h5⟩
      · exact .inl ⟨v, h4, h5⟩
      · rcases c1 with ⟨v, _, h7⟩ | ⟨h6, _⟩
        · rw [h7] at h4; cases h4
        · exact .inr ⟨h6, h5⟩

theorem Upd.le {n : List Bytes} {G G' C : Table} (h : Upd n G G' C) : G.le G' := by
  intro m v hv
  rcases h m with e | ⟨_, u, _⟩
  · rw [e]; exact hv
  · exact absurd hv (u v)

/-- the closure came from a `.global` statement of the file itself -/
def Task.fromNames (names : List Bytes) : Task → Prop
  | .globalCopy n _ => n ∈ names
  | .use _ _ _ _ => True

theorem Task.fromNames_of_isGU {t : Task} (names : List Bytes) (h : t.isGU) : t.fromNames names := by
  cases t <;> simp_all [Task.isGU, Task.fromNames]

theorem Task.fromNames_mono {t : Task} {n n' : List Bytes} (h : t.fromNames n) (hn : ∀ m ∈ n, m ∈ n') :
    t.fromNames n' := by
  cases t with
  | globalCopy m tag => exact hn m h
  | use => trivial

/-! ## what a statement may do to the two visible task lists: `TEff` -/

/-- statements never touch `global_tasks`, and add to `local_tasks` only `.du32` retries and the `.global` closures of
the names in `names` -/
structure TEff (names : List Bytes) (s s' : State) : Prop where
  g : s'.globalTasks = s.globalTasks
  l : ∃ add, s'.localTasks = s.localTasks.map (· ++ add) ∧ ∀ x ∈ add, x.fromNames names

theorem TEff.refl (names : List Bytes) (s : State) : TEff names s s :=
  ⟨rfl, [], by cases s.localTasks <;> simp, by simp⟩

theorem TEff.trans {names : List Bytes} {a b c : State} (h1 : TEff names a b) (h2 : TEff names b c) :
    TEff names a c := by
  obtain ⟨g1, add1, l1, f1⟩ := h1
  obtain ⟨g2, add2, l2, f2⟩ := h2
  refine ⟨g2.trans g1, add1 ++ add2, ?_, ?_⟩
  · rw [l2, l1]; cases a.localTasks <;> simp
  · intro x hx
    rcases List.mem_append.1 hx with hx | hx
    · exact f1 x hx
    · exact f2 x hx

section
variable {names : List Bytes}

theorem teff_err (names : List Bytes) (s : State) (tag : Nat) (k : Kind) : TEff names s (s.err tag k) :=
  ⟨rfl, [], by show s.localTasks = _; cases s.localTasks <;> simp, by simp⟩

theorem teff_log (names : List Bytes) (s : State) (l : List Ev) : TEff names s { s with log := l } :=
  ⟨rfl, [], by show s.localTasks = _; cases s.localTasks <;> simp, by simp⟩

theorem teff_writeVal (names : List Bytes) (s : State) (tag : Nat) (v : Int) (stage : Nat) :
    TEff names s (writeVal s tag v stage).1 := by
  unfold writeVal
  split
  · exact teff_log names _ _
  · exact teff_err names _ _ _

theorem teff_insertConstant {s s' : State} {n : Bytes} {v : Int} {r : Realm} {res : Except CErr Bool}
    (h : insertConstant s n v r = .ok (s', res)) : TEff names s s' := by
  have := insertConstant_tasks h
  exact ⟨this.2, [], by rw [this.1]; cases s.localTasks <;> simp, by simp⟩

theorem teff_deferConstant {s s' : State} {n : Bytes} {r : Realm} {res : Except CErr Unit}
    (h : deferConstant s n r = .ok (s', res)) : TEff names s s' := by
  have : s'.localTasks = s.localTasks ∧ s'.globalTasks = s.globalTasks := by
    unfold deferConstant at h
    split at h
    · cases h; exact ⟨rfl, rfl⟩
    · cases r with
      | global => simp only at h; split at h <;> cases h <;> exact ⟨rfl, rfl⟩
      | loc =>
        simp only at h
        split at h
        · cases h
        · split at h <;> cases h <;> exact ⟨rfl, rfl⟩
  exact ⟨this.2, [], by rw [this.1]; cases s.localTasks <;> simp, by simp⟩

theorem teff_addTask {s s' : State} {t : Task} (ht : t.fromNames names) (h : addTask s t .loc = .ok s') :
    TEff names s s' := by
  unfold addTask at h
  simp only at h
  split at h
  · cases h
  · rename_i l hl
    cases h
    exact ⟨rfl, [t], by simp [hl], by simpa using ht⟩

theorem teff_doLabel {s s' : State} {n : Bytes} {v : Int} {tag : Nat} {r : Option Level}
    (h : doLabel s n v tag = .ok (s', r)) : TEff names s s' := by
  unfold doLabel at h
  split at h
  · cases h
  all_goals
    rename_i hi; cases h
    first | exact teff_insertConstant hi | exact (teff_insertConstant hi).trans (teff_err names _ _ _)

theorem teff_doConst {s s' : State} {n : Bytes} {v : Int} {tag : Nat} {r : Option Level}
    (h : doConst s n v tag = .ok (s', r)) : TEff names s s' := by
  unfold doConst at h
  split at h
  · cases h
  all_goals
    rename_i hi; cases h
    first | exact teff_insertConstant hi | exact (teff_insertConstant hi).trans (teff_err names _ _ _)

theorem teff_doGlobal {s s' : State} {n : Bytes} {tag : Nat} {r : Option Level}
    (hn : n ∈ names) (h : doGlobal s n tag = .ok (s', r)) : TEff names s s' := by
  unfold doGlobal at h
  split at h
  · cases h
  · rename_i hd; cases h; exact (teff_deferConstant hd).trans (teff_err names _ _ _)
  · rename_i hd; cases h; exact (teff_deferConstant hd).trans (teff_err names _ _ _)
  · rename_i s1 hd
    have e1 : TEff names s s1 := teff_deferConstant hd
    split at h
    · cases h
    · split at h
      · cases h
      · cases h
      · cases h
      · rename_i hi; cases h; exact e1.trans (teff_insertConstant hi)
    · split at h
      · cases h
      · cases h
      · rename_i s2 hd2
        split at h
        · cases h
        · rename_i ha; cases h; exact e1.trans ((teff_deferConstant hd2).trans (teff_addTask (t := .globalCopy n tag) hn ha))
    · split at h
      · cases h
      · rename_i ha; cases h; exact e1.trans (teff_addTask (t := .globalCopy n tag) hn ha)

theorem teff_doImport {s s' : State} {n : Bytes} {tag : Nat} {r : Option Level}
    (h : doImport s n tag = .ok (s', r)) : TEff names s s' := by
  unfold doImport at h
  split at h
  · cases h
  · cases h; exact teff_err names _ _ _
  · split at h
    · cases h
    · rename_i hd; cases h; exact teff_deferConstant hd
    · rename_i hd; cases h; exact (teff_deferConstant hd).trans (teff_err names _ _ _)
    · cases h
  · split at h
    · cases h
    · rename_i hi; cases h; exact teff_insertConstant hi
    · rename_i hi; cases h; exact (teff_insertConstant hi).trans (teff_err names _ _ _)
    · cases h

theorem teff_doExport {s s' : State} {n : Bytes} {tag : Nat} {r : Option Level}
    (h : doExport s n tag = .ok (s', r)) : TEff names s s' := by
  unfold doExport at h
  split at h
  · cases h
  · cases h; exact teff_err names _ _ _
  · cases h; exact teff_err names _ _ _
  · split at h
    · cases h
    · rename_i hi; cases h; exact teff_insertConstant hi
    · rename_i hi; cases h; exact (teff_insertConstant hi).trans (teff_err names _ _ _)
    · cases h

theorem teff_applyUse {s s' : State} {n : Bytes} {c c' : Option Int} {tag stage : Nat} {b : Bool}
    {r : Except Level DataOp} (h : applyUse s n c tag stage b = .ok (s', r, c')) : TEff names s s' := by
  unfold applyUse at h
  split at h
  · rename_i v
    have e := teff_writeVal names s tag v stage
    split at h <;> (rename_i hw; cases h; rw [hw] at e; exact e)
  · split at h
    · cases h; exact teff_err names _ _ _
    · split at h
      · cases h
      · split at h <;> cases h
        · exact TEff.refl names _
        · exact teff_err names _ _ _
      · cases h; exact TEff.refl names _
      · rename_i v _
        have e := teff_writeVal names s tag v stage
        split at h <;> (rename_i hw; cases h; rw [hw] at e; exact e)

theorem teff_doUse {s s' : State} {n : Bytes} {tag : Nat} {r : Option Level}
    (h : doUse s n tag = .ok (s', r)) : TEff names s s' := by
  unfold doUse at h
  split at h
  · cases h
  · rename_i ha; cases h; exact teff_applyUse ha
  · rename_i ha
    split at h
    · cases h
    · rename_i hadd; cases h; exact (teff_applyUse ha).trans (teff_addTask (names := names) (t := .use n _ tag false) trivial hadd)

theorem teff_stmt {s s' : State} {op : Op} {r : Option Level} (h : stmt s op = .ok (s', r)) :
    TEff op.names s s' := by
  cases op <;> simp only [stmt] at h
  case label => exact teff_doLabel h
  case const => exact teff_doConst h
  case global n tag => exact teff_doGlobal (by simp [Op.names]) h
  case «import» => exact teff_doImport h
  case «export» => exact teff_doExport h
  case use => exact teff_doUse h
  all_goals (cases h; exact TEff.refl _ _)

end

/-! ## what a statement may do to the two visible tables -/

theorem doLabel_globals {s s' : State} {n : Bytes} {v : Int} {tag : Nat} {r : Option Level}
    (h : doLabel s n v tag = .ok (s', r)) : s'.globals = s.globals := by
  unfold doLabel at h
  split at h
  · cases h
  all_goals (rename_i hi; cases h; exact (insertConstant_loc_char hi).1)

theorem doConst_globals {s s' : State} {n : Bytes} {v : Int} {tag : Nat} {r : Option Level}
    (h : doConst s n v tag = .ok (s', r)) : s'.globals = s.globals := by
  unfold doConst at h
  split at h
  · cases h
  all_goals (rename_i hi; cases h; exact (insertConstant_loc_char hi).1)

theorem doImport_globals {s s' : State} {n : Bytes} {tag : Nat} {r : Option Level}
    (h : doImport s n tag = .ok (s', r)) : s'.globals = s.globals := by
  unfold doImport at h
  split at h
  · cases h
  · cases h; rfl
  · split at h
    · cases h
    · rename_i hd; cases h; exact (deferConstant_loc_char hd).1
    · rename_i hd; cases h; exact (deferConstant_loc_char hd).1
    · cases h
  · split at h
    · cases h
    · rename_i hi; cases h; exact (insertConstant_loc_char hi).1
    · rename_i hi; cases h; exact (insertConstant_loc_char hi).1
    · cases h

/-- one statement of a file: its own table only grows, and the includer's table changes at most at the name the
statement exports / declares global, from absent or unvalued, to the file's own value or to "announced" -/
theorem stmt_upd {s s' : State} {op : Op} {r : Option Level} {C : Table} (hl : s.locals = some C)
    (h : stmt s op = .ok (s', r)) :
    ∃ C', s'.locals = some C' ∧ C.le C' ∧ Upd op.names s.globals s'.globals C' := by
  have e := eff_stmt h
  have hle := e.locals
  rw [hl] at hle
  cases hl' : s'.locals with
  | none => rw [hl'] at hle; exact hle.elim
  | some C' =>
    rw [hl'] at hle
    have hle : C.le C' := hle
    refine ⟨C', rfl, hle, ?_⟩
    have same : s'.globals = s.globals → Upd op.names s.globals s'.globals C' := by
      intro hg; rw [hg]; exact Upd.refl _ _ _
    cases op with
    | label n v tag => exact same (doLabel_globals h)
    | const n v tag => exact same (doConst_globals h)
    | «import» n tag => exact same (doImport_globals h)
    | use n tag => exact same (doUse_tables h).2
    | enter tag => simp only [stmt] at h; cases h; exact Upd.refl _ _ _
    | exit => simp only [stmt] at h; cases h; exact Upd.refl _ _ _
    | finalize => simp only [stmt] at h; cases h; exact Upd.refl _ _ _
    | «export» n tag =>
      obtain ⟨_, hx⟩ := frame_export_lem hl h
      intro m
      rcases hx m with hx | ⟨rfl, hu, v, hv, hg⟩
      · exact .inl hx
      · exact .inr ⟨by simp [Op.names], hu, .inl ⟨v, hle _ _ hv, hg⟩⟩
    | global n tag =>
      obtain ⟨_, hx⟩ := frame_global_lem hl h
      intro m
      rcases hx m with hx | ⟨rfl, hn, hg⟩
      · exact .inl hx
      · refine .inr ⟨by simp [Op.names], by simp [hn], ?_⟩
        rcases hg with hg | ⟨v, hv, hg⟩
        · exact .inr ⟨hn, hg⟩
        · exact .inl ⟨v, hle _ _ hv, hg⟩


/-! ## the body of one file, seen from that file's level -/

/-- what running (part of) the body of the current file — statements and complete includes — does to the state: the
frame stack, the depth and `global_tasks` are as before, the file's own table only grows, the includer's table is updated
at `names` only, and `local_tasks` only grows, by `.du32` retries and by `.global` closures for `names` -/
structure BodyRel (names : List Bytes) (t t' : State) : Prop where
  frames : t'.frames = t.frames
  depth : t'.depth = t.depth
  gtasks : t'.globalTasks = t.globalTasks
  mode : t'.mode = .running ∨ ∃ l, t'.mode = .stopped l 0
  tabs : ∃ C C', t.locals = some C ∧ t'.locals = some C' ∧ C.le C' ∧ Upd names t.globals t'.globals C'
  ltasks : ∃ lt add, t.localTasks = some lt ∧ t'.localTasks = some (lt ++ add) ∧ ∀ x ∈ add, x.fromNames names

theorem BodyRel.refl (names : List Bytes) {t : State} (hin : InFile t)
    (hm : t.mode = .running ∨ ∃ l, t.mode = .stopped l 0) : BodyRel names t t := by
  obtain ⟨C, hC⟩ := Option.isSome_iff_exists.1 hin.locals
  obtain ⟨lt, hlt⟩ := Option.isSome_iff_exists.1 hin.ltasks
  exact ⟨rfl, rfl, rfl, hm, ⟨C, C, hC, hC, Table.le_refl _, Upd.refl _ _ _⟩, ⟨lt, [], hlt, by simp [hlt], by simp⟩⟩

theorem BodyRel.trans {n1 n2 : List Bytes} {a b c : State} (h1 : BodyRel n1 a b) (h2 : BodyRel n2 b c) :
    BodyRel (n1 ++ n2) a c := by
  obtain ⟨f1, d1, g1, _, ⟨C, C1, hC, hC1, le1, u1⟩, ⟨lt, add1, hlt, hlt1, fa1⟩⟩ := h1
  obtain ⟨f2, d2, g2, m2, ⟨C1', C2, hC1', hC2, le2, u2⟩, ⟨lt1, add2, hlt1', hlt2, fa2⟩⟩ := h2
  rw [hC1] at hC1'; cases hC1'
  rw [hlt1] at hlt1'; cases hlt1'
  refine ⟨f2.trans f1, d2.trans d1, g2.trans g1, m2, ⟨C, C2, hC, hC2, Table.le_trans le1 le2, ?_⟩,
    ⟨lt, add1 ++ add2, hlt, by rw [hlt2, List.append_assoc], ?_⟩⟩
  · exact (u1.mono (fun m h => List.mem_append.2 (.inl h)) (Table.le_refl _)).trans
      (u2.mono (fun m h => List.mem_append.2 (.inr h)) (Table.le_refl _)) le2
  · intro x hx
    rcases List.mem_append.1 hx with hx | hx
    · exact Task.fromNames_mono (fa1 x hx) (fun m h => List.mem_append.2 (.inl h))
    · exact Task.fromNames_mono (fa2 x hx) (fun m h => List.mem_append.2 (.inr h))

theorem BodyRel.mono {n n' : List Bytes} {a b : State} (h : BodyRel n a b) (hn : ∀ m ∈ n, m ∈ n') :
    BodyRel n' a b := by
  obtain ⟨f1, d1, g1, m1, ⟨C, C1, hC, hC1, le1, u1⟩, ⟨lt, add1, hlt, hlt1, fa1⟩⟩ := h
  exact ⟨f1, d1, g1, m1, ⟨C, C1, hC, hC1, le1, u1.mono hn (Table.le_refl _)⟩,
    ⟨lt, add1, hlt, hlt1, fun x hx => Task.fromNames_mono (fa1 x hx) hn⟩⟩

/-- one statement of the current file -/
theorem step_stmt_rel {t t' : State} {o : Op} (hin : InFile t) (hf : t.frames ≠ []) (hm : t.mode = .running)
    (ho : o.isStmt = true) (h : step t o = .ok t') : BodyRel o.names t t' := by
  obtain ⟨C, hC⟩ := Option.isSome_iff_exists.1 hin.locals
  obtain ⟨lt, hlt⟩ := Option.isSome_iff_exists.1 hin.ltasks
  have key : ∀ (h' : (match t.frames with
      | [] => Except.ok t
      | _ :: _ =>
        match stmt t o with
        | .error p => .error p
        | .ok (s, none) => .ok s
        | .ok (s, some l) => .ok { s with mode := .stopped l 0 }) = Except.ok t'), BodyRel o.names t t' := by
    intro h'
    have main : ∀ {s1 : State} {r : Option Level}, stmt t o = .ok (s1, r) →
        (t'.frames = s1.frames ∧ t'.depth = s1.depth ∧ t'.globalTasks = s1.globalTasks ∧ t'.locals = s1.locals ∧
         t'.globals = s1.globals ∧ t'.localTasks = s1.localTasks) →
        (t'.mode = .running ∨ ∃ l, t'.mode = .stopped l 0) → BodyRel o.names t t' := by
      intro s1 r hs ⟨e1, e2, e3, e4, e5, e6⟩ hmode
      have e := eff_stmt hs
      have te := teff_stmt hs
      obtain ⟨C', hC', hle, hu⟩ := stmt_upd hC hs
      obtain ⟨add, hadd, hfa⟩ := te.l
      refine ⟨e1.trans e.frames, e2.trans e.depth, e3.trans te.g, hmode,
        ⟨C, C', hC, e4.trans hC', hle, by rw [e5]; exact hu⟩, ⟨lt, add, hlt, ?_, hfa⟩⟩
      rw [e6, hadd, hlt]; rfl
    split at h'
    · rename_i hnil; exact absurd hnil hf
    · split at h'
      · cases h'
      · rename_i s1 hs; cases h'
        exact main hs ⟨rfl, rfl, rfl, rfl, rfl, rfl⟩ (.inl (by rw [(eff_stmt hs).mode, hm]))
      · rename_i s1 l hs; cases h'
        exact main hs ⟨rfl, rfl, rfl, rfl, rfl, rfl⟩ (.inr ⟨l, rfl⟩)
  cases o with
  | enter tag => cases ho
  | exit => cases ho
  | finalize => cases ho
  | label n v tag => simp only [step, hm] at h; exact key h
  | const n v tag => simp only [step, hm] at h; exact key h
  | global n tag => simp only [step, hm] at h; exact key h
  | «import» n tag => simp only [step, hm] at h; exact key h
  | «export» n tag => simp only [step, hm] at h; exact key h
  | use n tag => simp only [step, hm] at h; exact key h


/-! ## the end-of-file tasks -/

/-- what the tasks of a file (its own table: `C`) do when the file is left: the file's own table is not touched, the
includer's table is updated at `names` with `C`'s values, `global_tasks` only receives rescheduled `.du32`s -/
structure XRel (names : List Bytes) (C : Table) (s s' : State) : Prop where
  frames : s'.frames = s.frames
  depth : s'.depth = s.depth
  locals : s'.locals = s.locals
  upd : Upd names s.globals s'.globals C
  gt : ∃ add, s'.globalTasks = s.globalTasks ++ add ∧ ∀ x ∈ add, x.isGU

theorem XRel.refl (names : List Bytes) (C : Table) (s : State) : XRel names C s s :=
  ⟨rfl, rfl, rfl, Upd.refl _ _ _, [], by simp, by simp⟩

theorem XRel.trans {names : List Bytes} {C : Table} {a b c : State} (h1 : XRel names C a b)
    (h2 : XRel names C b c) : XRel names C a c := by
  obtain ⟨add1, ha1, hg1⟩ := h1.gt
  obtain ⟨add2, ha2, hg2⟩ := h2.gt
  refine ⟨h2.frames.trans h1.frames, h2.depth.trans h1.depth, h2.locals.trans h1.locals,
    h1.upd.trans h2.upd (Table.le_refl _), add1 ++ add2, by rw [ha2, ha1, List.append_assoc], ?_⟩
  intro x hx
  rcases List.mem_append.1 hx with hx | hx
  · exact hg1 x hx
  · exact hg2 x hx

theorem runTask_xrel {names : List Bytes} {C : Table} {s s' : State} {t : Task} {r : Option Level} (hv : Vis s)
    (hl : s.locals = some C) (ht : t.ok) (hfn : t.fromNames names) (h : runTask s t = .ok (s', r)) :
    XRel names C s s' ∧ Vis s' ∧ s'.localTasks = s.localTasks := by
  obtain ⟨s2, r2, h2, v2, e2, lt2, _, ga2⟩ := runTask_ok t hv (fun _ => by simp [hl])
    (fun hn => by rw [hl] at hn; cases hn) ht
  rw [h] at h2; cases h2
  refine ⟨⟨e2.frames, e2.depth, ?_, ?_, ga2⟩, v2, lt2⟩
  · cases t with
    | globalCopy n tag => exact (frame_global_task_lem hl h).1
    | use n c tag g => exact (runUse_tables h).1
  · cases t with
    | globalCopy n tag =>
      intro m
      rcases (frame_global_task_lem hl h).2 m with hx | ⟨rfl, hu, v, hv', hg⟩
      · exact .inl hx
      · exact .inr ⟨hfn, hu, .inl ⟨v, hv', hg⟩⟩
    | use n c tag g => rw [(runUse_tables h).2]; exact Upd.refl _ _ _

theorem drain_xrel {names : List Bytes} {C : Table} : ∀ (ts : List Task) {s s' : State} {r r' : Option Level},
    Vis s → s.locals = some C → (∀ t ∈ ts, t.ok) → (∀ t ∈ ts, t.fromNames names) →
    drain s r ts = .ok (s', r') → XRel names C s s' ∧ Vis s' ∧ s'.localTasks = s.localTasks
  | [], s, s', r, r', hv, _, _, _, h => by
    simp only [drain] at h; cases h; exact ⟨XRel.refl _ _ _, hv, rfl⟩
  | t :: ts, s, s', r, r', hv, hl, ht, hfn, h => by
    simp only [drain] at h
    split at h
    · cases h
    · rename_i s1 h1
      obtain ⟨x1, v1, lt1⟩ := runTask_xrel hv hl (ht t (by simp)) (hfn t (by simp)) h1
      obtain ⟨x2, v2, lt2⟩ := drain_xrel ts v1 (x1.locals.trans hl) (fun x hx => ht x (by simp [hx]))
        (fun x hx => hfn x (by simp [hx])) h
      exact ⟨x1.trans x2, v2, lt2.trans lt1⟩
    · rename_i s1 lvl h1
      obtain ⟨x1, v1, lt1⟩ := runTask_xrel hv hl (ht t (by simp)) (hfn t (by simp)) h1
      split at h
      · cases h; exact ⟨x1, v1, lt1⟩
      · obtain ⟨x2, v2, lt2⟩ := drain_xrel ts v1 (x1.locals.trans hl) (fun x hx => ht x (by simp [hx]))
          (fun x hx => hfn x (by simp [hx])) h
        exact ⟨x1.trans x2, v2, lt2.trans lt1⟩

/-- the task loop of `assemble`, started with an emptied `local_tasks` -/
theorem localLoop_xrel {names : List Bytes} {C : Table} (fuel : Nat) {s s' : State} {r r' : Option Level}
    (ts : List Task) (hv : Vis s) (hl : s.locals = some C) (hlt : s.localTasks = some [])
    (ht : ∀ t ∈ ts, t.ok) (hfn : ∀ t ∈ ts, t.fromNames names)
    (h : localLoop (fuel + 1) s r ts = .ok (s', r')) : XRel names C s s' ∧ s'.localTasks = some [] := by
  cases ts with
  | nil => simp only [localLoop] at h; cases h; exact ⟨XRel.refl _ _ _, hlt⟩
  | cons t ts =>
    simp only [localLoop] at h
    split at h
    · cases h
    · rename_i s1 r1 hd
      obtain ⟨x1, v1, lt1⟩ := drain_xrel (t :: ts) hv hl ht hfn hd
      have hn : s1.localTasks = some [] := lt1.trans hlt
      rw [hn] at h
      simp only at h
      have x2 : XRel names C s1 { s1 with localTasks := some [] } :=
        ⟨rfl, rfl, rfl, Upd.refl _ _ _, [], by simp, by simp⟩
      split at h
      · cases h; exact ⟨x1.trans x2, rfl⟩
      · cases fuel <;> (simp only [localLoop] at h; cases h; exact ⟨x1.trans x2, rfl⟩)


/-! ## leaving a file -/

/-- `assemble` after `do_assemble` returned: the file's tasks run (`XRel`), then `into_inner` pops the frame, then the
`.include` statement of the includer looks at the result -/
theorem exitFile_char {names : List Bytes} {C : Table} {t s' : State} {r : Option Level} {f : Saved}
    {fs : List Saved} (hi : Inv t) (hf : t.frames = f :: fs) (hl : t.locals = some C)
    (htn : ∀ lt, t.localTasks = some lt → ∀ x ∈ lt, x.fromNames names) (h : exitFile t r = .ok s') :
    ∃ mid s2, XRel names C t mid ∧ intoInner mid f fs = .ok s2 ∧
      ((fs ≠ [] ∧ s' = { (s2.err f.tag .asmFailed) with mode := .stopped .fatal 0 }) ∨
        s' = { s2 with mode := .running }) := by
  unfold exitFile at h
  rw [hf] at h
  simp only at h
  split at h
  · cases h
  · rename_i mid r' hloop
    have hx : XRel names C t mid := by
      split at hloop
      · cases hloop; exact XRel.refl _ _ _
      · split at hloop
        · cases hloop
        · rename_i tasks ht
          have x0 : XRel names C t { t with localTasks := some [], frames := f :: fs } :=
            ⟨hf.symm, rfl, rfl, Upd.refl _ _ _, [], by simp, by simp⟩
          have v0 : Vis ({ t with localTasks := some [], frames := f :: fs } : State) := by
            have := vis_clearLocal hi.vis
            rw [← hf]; exact this
          exact x0.trans (localLoop_xrel 1 tasks v0 hl rfl (hi.vis.tl tasks ht) (htn tasks ht) hloop).1
    refine ⟨mid, ?_⟩
    split at h
    · cases h
    · rename_i s2 hin
      refine ⟨s2, hx, hin, ?_⟩
      split at h <;> cases h
      · exact .inl ⟨by simp, rfl⟩
      · exact .inr rfl

/-- one complete `.include` from a running state, in terms of the state `t0` just after `enter`, the state `mid` just
before `exit`, the state `x` after the included file's tasks and the state `s2` after `into_inner` -/
theorem include_core (b : Body)
    (IH : ∀ {t t' : State}, Inv t → t.frames ≠ [] → (t.mode = .running ∨ ∃ l, t.mode = .stopped l 0) →
      run t b.flatten = .ok t' → BodyRel b.names t t')
    {s mid s' : State} {tag : Nat} {f0 : Saved} (hi : Inv s) (hm : s.mode = .running)
    (hf0 : (enterFile s tag).frames = f0 :: s.frames)
    (h1 : run s (.enter tag :: b.flatten) = .ok mid) (h2 : step mid .exit = .ok s') :
    ∃ C x s2, BodyRel b.names (enterFile s tag) mid ∧ mid.locals = some C ∧ XRel b.names C mid x ∧
      intoInner x f0 s.frames = .ok s2 ∧
      ((s.frames ≠ [] ∧ s' = { (s2.err f0.tag .asmFailed) with mode := .stopped .fatal 0 }) ∨
        s' = { s2 with mode := .running }) := by
  simp only [run, step, hm] at h1
  have i0 := inv_enterFile hi tag
  have hfne : (enterFile s tag).frames ≠ [] := by rw [hf0]; simp
  have hm0 : (enterFile s tag).mode = .running := hm
  have br := IH i0 hfne (.inl hm0) h1
  have im := inv_run i0 h1
  have hfm : mid.frames = f0 :: s.frames := by rw [br.frames, hf0]
  obtain ⟨C0, C, hC0, hC, _, _⟩ := br.tabs
  obtain ⟨lt, add, hlt, hadd, hfa⟩ := br.ltasks
  have hlt0 : lt = [] := by
    have : (enterFile s tag).localTasks = some [] := rfl
    rw [this] at hlt; cases hlt; rfl
  subst hlt0
  have htn : ∀ l, mid.localTasks = some l → ∀ x ∈ l, x.fromNames b.names := by
    intro l hl x hx
    rw [hadd] at hl; cases hl
    exact hfa x (by simpa using hx)
  have hex : ∃ r, exitFile mid r = .ok s' := by
    rcases br.mode with hmm | ⟨l, hmm⟩
    · simp only [step, hmm] at h2; exact ⟨_, h2⟩
    · simp only [step, hmm] at h2; exact ⟨_, h2⟩
  obtain ⟨r, hex⟩ := hex
  obtain ⟨x, s2, hx, hin, hs'⟩ := exitFile_char im hfm hC htn hex
  exact ⟨C, x, s2, br, hC, hx, hin, hs'⟩

/-- what a complete `.include` does, seen from the including file -/
structure IncRel (names : List Bytes) (C : Table) (s s' : State) : Prop where
  frames : s'.frames = s.frames
  depth : s'.depth = s.depth
  globals : s'.globals = s.globals
  gtasks : s'.globalTasks = s.globalTasks
  mode : s'.mode = .running ∨ s'.mode = .stopped .fatal 0
  tabs : ∃ L L', s.locals = some L ∧ s'.locals = some L' ∧ Upd names L L' C
  ltasks : ∃ lt add, s.localTasks = some lt ∧ s'.localTasks = some (lt ++ add) ∧ ∀ x ∈ add, x.isGU

/-- a nested include (the includer is itself a file) -/
theorem include_nested (b : Body)
    (IH : ∀ {t t' : State}, Inv t → t.frames ≠ [] → (t.mode = .running ∨ ∃ l, t.mode = .stopped l 0) →
      run t b.flatten = .ok t' → BodyRel b.names t t')
    {s mid s' : State} {tag : Nat} (hi : Inv s) (hf : s.frames ≠ []) (hm : s.mode = .running)
    (h1 : run s (.enter tag :: b.flatten) = .ok mid) (h2 : step mid .exit = .ok s') :
    ∃ C, mid.locals = some C ∧ IncRel b.names C s s' := by
  have hin := hi.inFile hf
  obtain ⟨L, hL⟩ := Option.isSome_iff_exists.1 hin.locals
  obtain ⟨lt, hlt⟩ := Option.isSome_iff_exists.1 hin.ltasks
  obtain ⟨C, x, s2, br, hC, hx, hinner, hs'⟩ := include_core b IH hi hm rfl h1 h2
  refine ⟨C, hC, ?_⟩
  -- the state after `into_inner`
  have hd : x.depth = s.depth + 1 := by rw [hx.depth, br.depth]; rfl
  have hs2 : s2 =
      { x with
        depth := s.depth, globals := s.globals, locals := some x.globals
        globalTasks := s.globalTasks, localTasks := some x.globalTasks, frames := s.frames } := by
    unfold intoInner at hinner
    simp only [hL, hlt, hd] at hinner
    split at hinner
    · cases hinner
    · cases hinner; rfl
  -- the includer's table and task list, through the body and the tasks of the included file
  obtain ⟨_, C', _, hC', _, hu1⟩ := br.tabs
  rw [hC] at hC'; cases hC'
  have hg0 : (enterFile s tag).globals = L := by simp [enterFile, hL]
  have hgt0 : (enterFile s tag).globalTasks = lt := by simp [enterFile, hlt]
  rw [hg0] at hu1
  have hu : Upd b.names L x.globals C := hu1.trans hx.upd (Table.le_refl _)
  obtain ⟨add, hadd, hgu⟩ := hx.gt
  rw [br.gtasks, hgt0] at hadd
  have core : IncRel b.names C s { s2 with mode := .running } := by
    subst hs2
    exact ⟨rfl, rfl, rfl, rfl, .inl rfl, ⟨L, x.globals, hL, rfl, hu⟩, ⟨lt, add, hlt, by simp [hadd], hgu⟩⟩
  rcases hs' with ⟨_, hs'⟩ | hs'
  · subst hs'
    exact ⟨core.frames, core.depth, core.globals, core.gtasks, .inr rfl, core.tabs, core.ltasks⟩
  · subst hs'; exact core


theorem IncRel.toBody {names : List Bytes} {C : Table} {s s' : State} (h : IncRel names C s s') :
    BodyRel [] s s' := by
  obtain ⟨L, L', hL, hL', hu⟩ := h.tabs
  obtain ⟨lt, add, hlt, hadd, hgu⟩ := h.ltasks
  refine ⟨h.frames, h.depth, h.gtasks, ?_, ⟨L, L', hL, hL', hu.le, by rw [h.globals]; exact Upd.refl _ _ _⟩,
    ⟨lt, add, hlt, hadd, fun x hx => Task.fromNames_of_isGU _ (hgu x hx)⟩⟩
  rcases h.mode with hm | hm
  · exact .inl hm
  · exact .inr ⟨_, hm⟩

/-- the body of a file — statements and complete, arbitrarily nested includes — run at that file's level -/
theorem body_rel : ∀ (b : Body), b.wf → ∀ {t t' : State}, Inv t → t.frames ≠ [] →
    (t.mode = .running ∨ ∃ l, t.mode = .stopped l 0) → run t b.flatten = .ok t' → BodyRel b.names t t'
  | .nil, _, t, t', hi, hf, hm, h => by
    simp only [Body.flatten, run] at h; cases h
    exact BodyRel.refl _ (hi.inFile hf) hm
  | .stmt o r, hw, t, t', hi, hf, hm, h => by
    rcases hm with hm | ⟨l, hm⟩
    · simp only [Body.flatten, run] at h
      split at h
      · cases h
      · rename_i t1 h1
        have r1 := step_stmt_rel (hi.inFile hf) hf hm hw.1 h1
        have i1 := inv_step hi h1
        have r2 := body_rel r hw.2 i1 (by rw [r1.frames]; exact hf) r1.mode h
        exact r1.trans r2
    · rw [skip_body (.stmt o r) hw hm] at h; cases h
      exact BodyRel.refl _ (hi.inFile hf) (.inr ⟨l, hm⟩)
  | .incl tag i r, hw, t, t', hi, hf, hm, h => by
    rcases hm with hm | ⟨l, hm⟩
    · have hfl : (Body.incl tag i r).flatten = (.enter tag :: i.flatten) ++ (.exit :: r.flatten) := by
        simp [Body.flatten]
      rw [hfl, run_append] at h
      obtain ⟨mid, h1, h2⟩ := h
      simp only [run] at h2
      split at h2
      · cases h2
      · rename_i t1 hx
        obtain ⟨C, _, ir⟩ := include_nested i (fun i' f' m' h' => body_rel i hw.1 i' f' m' h') hi hf hm h1 hx
        have i1 : Inv t1 := inv_step (inv_run hi h1) hx
        have r1 := ir.toBody
        have r2 := body_rel r hw.2 i1 (by rw [r1.frames]; exact hf) r1.mode h2
        exact r1.trans r2
    · rw [skip_body (.incl tag i r) hw hm] at h; cases h
      exact BodyRel.refl _ (hi.inFile hf) (.inr ⟨l, hm⟩)

/-- the root file: the "includer's table" is the global table -/
theorem include_root (b : Body) (hw : b.wf) {s mid s' : State} {tag : Nat} (hi : Inv s) (hf : s.frames = [])
    (hm : s.mode = .running) (h1 : run s (.enter tag :: b.flatten) = .ok mid) (h2 : step mid .exit = .ok s') :
    ∃ C, mid.locals = some C ∧ s'.frames = [] ∧ s'.depth = s.depth ∧ s'.locals = none ∧ s'.mode = .running ∧
      Upd b.names s.globals s'.globals C ∧
      ∃ add, s'.globalTasks = s.globalTasks ++ add ∧ ∀ x ∈ add, x.isGU := by
  have hL : s.locals = none := by
    cases hl : s.locals with
    | none => rfl
    | some l => have := hi.opn.locals.1 (by simp [hl]); exact absurd hf this
  have hlt : s.localTasks = none := by
    cases hl : s.localTasks with
    | none => rfl
    | some l => have := hi.lt.1 (by simp [hl]); exact absurd hf this
  obtain ⟨C, x, s2, br, hC, hx, hinner, hs'⟩ :=
    include_core b (fun i' f' m' h' => body_rel b hw i' f' m' h') hi hm rfl h1 h2
  refine ⟨C, hC, ?_⟩
  have hd : x.depth = s.depth + 1 := by rw [hx.depth, br.depth]; rfl
  have hs2 : s2 = { x with depth := s.depth, locals := none, localTasks := none, frames := [] } := by
    unfold intoInner at hinner
    simp only [hL, hlt, hd, hf] at hinner
    split at hinner
    · cases hinner
    · cases hinner; rfl
  obtain ⟨_, C', _, hC', _, hu1⟩ := br.tabs
  rw [hC] at hC'; cases hC'
  have hg0 : (enterFile s tag).globals = s.globals := by simp [enterFile, hL]
  have hgt0 : (enterFile s tag).globalTasks = s.globalTasks := by simp [enterFile, hlt]
  rw [hg0] at hu1
  have hu : Upd b.names s.globals x.globals C := hu1.trans hx.upd (Table.le_refl _)
  obtain ⟨add, hadd, hgu⟩ := hx.gt
  rw [br.gtasks, hgt0] at hadd
  have hs'' : s' = { s2 with mode := .running } := by
    rcases hs' with ⟨hne, _⟩ | hs'
    · exact absurd hf hne      -- the root file has no includer: the `.include` branch is not taken
    · exact hs'
  subst hs'' hs2
  exact ⟨rfl, rfl, rfl, rfl, hu, add, hadd, hgu⟩


/-! ## provenance of values -/

/-- the statement defines `n` with value `v` (`.const n, v` or a label `n:` at address `v`) -/
def Op.defines (n : Bytes) (v : Int) : Op → Prop
  | .const m w _ => m = n ∧ w = v
  | .label m w _ => m = n ∧ w = v
  | _ => False

def Op.imports (n : Bytes) : Op → Prop
  | .import m _ => m = n
  | _ => False

/-- the file itself (not a file it includes) has an `.import n` statement -/
def Body.imports (n : Bytes) : Body → Prop
  | .nil => False
  | .stmt o r => o.imports n ∨ r.imports n
  | .incl _ _ r => r.imports n

/-- `Up n v b`: a chain of `.export n`/`.global n` edges leads from the file with body `b` down through included files
to a file whose own body defines `n` with value `v` (the chain has length 0 if `b` defines it itself) -/
inductive Up (n : Bytes) (v : Int) : Body → Prop
  | here {o : Op} {r : Body} : o.defines n v → Up n v (.stmt o r)
  | later {o : Op} {r : Body} : Up n v r → Up n v (.stmt o r)
  | child {tag : Nat} {c r : Body} : n ∈ c.names → Up n v c → Up n v (.incl tag c r)
  | after {tag : Nat} {c r : Body} : Up n v r → Up n v (.incl tag c r)

/-- where a valued entry of the file's own table can come from, one statement -/
theorem stmt_prov {s s' : State} {op : Op} {r : Option Level} {C C' : Table} (hl : s.locals = some C)
    (hl' : s'.locals = some C') (h : stmt s op = .ok (s', r)) (m : Bytes) (v : Int)
    (hv : C'.find m = some (some v)) :
    C.find m = some (some v) ∨ (op.imports m ∧ s.globals.find m = some (some v)) ∨ op.defines m v := by
  have same : s'.locals = s.locals → C.find m = some (some v) := by
    intro e; rw [hl, hl'] at e; cases e; exact hv
  cases op with
  | enter tag => simp only [stmt] at h; cases h; exact .inl (same rfl)
  | exit => simp only [stmt] at h; cases h; exact .inl (same rfl)
  | finalize => simp only [stmt] at h; cases h; exact .inl (same rfl)
  | use n tag => exact .inl (same (doUse_tables h).1)
  | «export» n tag => exact .inl (same (frame_export_lem hl h).1)
  | global n tag =>
    obtain ⟨⟨l', hl2, hx⟩, _⟩ := frame_global_lem hl h
    rw [hl'] at hl2; cases hl2
    rcases hx m with hx | ⟨_, _, hx⟩
    · rw [hx] at hv; exact .inl hv
    · rw [hx] at hv; cases hv
  | «import» n tag =>
    obtain ⟨_, l', hl2, hx⟩ := isolation_import_lem hl h
    rw [hl'] at hl2; cases hl2
    rcases hx m with hx | ⟨rfl, hx⟩
    · rw [hx] at hv; exact .inl hv
    · rw [hx] at hv; exact .inr (.inl ⟨rfl, hv⟩)
  | const n w tag =>
    obtain ⟨_, l', hl2, hall⟩ := isolation_define_lem hl (.inl h)
    rw [hl'] at hl2; cases hl2
    rcases hall m with hx | ⟨hmn, hx⟩
    · rw [hx] at hv; exact .inl hv
    · rw [hx] at hv; cases hv; exact .inr (.inr ⟨hmn.symm, rfl⟩)
  | label n w tag =>
    obtain ⟨_, l', hl2, hall⟩ := isolation_define_lem hl (.inr h)
    rw [hl'] at hl2; cases hl2
    rcases hall m with hx | ⟨hmn, hx⟩
    · rw [hx] at hv; exact .inl hv
    · rw [hx] at hv; cases hv; exact .inr (.inr ⟨hmn.symm, rfl⟩)

/-- a valued entry `(m, v)` of the file's own table after (part of) its body: it was there before, or the file imports
`m` and the includer's table had `(m, v)` BEFORE this part of the body, or `Up m v b` -/
theorem body_prov : ∀ (b : Body), b.wf → ∀ {t t' : State}, Inv t → t.frames ≠ [] →
    (t.mode = .running ∨ ∃ l, t.mode = .stopped l 0) → run t b.flatten = .ok t' →
    ∀ {C C' : Table}, t.locals = some C → t'.locals = some C' → ∀ (m : Bytes) (v : Int),
    C'.find m = some (some v) →
    C.find m = some (some v) ∨ (b.imports m ∧ t.globals.find m = some (some v)) ∨ Up m v b
  | .nil, _, t, t', _, _, _, h, C, C', hC, hC', m, v, hv => by
    simp only [Body.flatten, run] at h; cases h
    rw [hC] at hC'; cases hC'; exact .inl hv
  | .stmt o r, hw, t, t', hi, hf, hm, h, C, C', hC, hC', m, v, hv => by
    rcases hm with hm | ⟨l, hm⟩
    · simp only [Body.flatten, run] at h
      split at h
      · cases h
      · rename_i t1 h1
        have r1 := step_stmt_rel (hi.inFile hf) hf hm hw.1 h1
        have i1 := inv_step hi h1
        obtain ⟨C0, C1, hC0, hC1, _, hu⟩ := r1.tabs
        rw [hC] at hC0; cases hC0
        -- one statement
        have one : C1.find m = some (some v) →
            C.find m = some (some v) ∨ ((Body.stmt o r).imports m ∧ t.globals.find m = some (some v)) ∨
              Up m v (.stmt o r) := by
          intro hv1
          -- recover the statement from the step
          have hs : ∃ s1 rr, stmt t o = .ok (s1, rr) ∧ s1.locals = t1.locals := by
            obtain ⟨f, fs, hff⟩ : ∃ f fs, t.frames = f :: fs := by
              cases hfr : t.frames with
              | nil => exact absurd hfr hf
              | cons f fs => exact ⟨f, fs, rfl⟩
            have hstep : step t o = (match stmt t o with
                | .error p => .error p
                | .ok (s, none) => .ok s
                | .ok (s, some l) => .ok { s with mode := .stopped l 0 }) := by
              have hst := hw.1
              cases o with
              | enter tag => exact absurd hst (by simp [Op.isStmt])
              | exit => exact absurd hst (by simp [Op.isStmt])
              | finalize => exact absurd hst (by simp [Op.isStmt])
              | label n v tag => simp only [step, hm, hff]; rfl
              | const n v tag => simp only [step, hm, hff]; rfl
              | global n tag => simp only [step, hm, hff]; rfl
              | «import» n tag => simp only [step, hm, hff]; rfl
              | «export» n tag => simp only [step, hm, hff]; rfl
              | use n tag => simp only [step, hm, hff]; rfl
            rw [hstep] at h1
            split at h1
            · cases h1
            · rename_i s1 hs1; cases h1; exact ⟨_, _, hs1, rfl⟩
            · rename_i s1 l hs1; cases h1; exact ⟨_, _, hs1, rfl⟩
          obtain ⟨s1, rr, hs1, hl1⟩ := hs
          rcases stmt_prov hC (hl1.trans hC1) hs1 m v hv1 with h' | ⟨hi', hg'⟩ | h'
          · exact .inl h'
          · exact .inr (.inl ⟨.inl hi', hg'⟩)
          · exact .inr (.inr (.here h'))
        rcases body_prov r hw.2 i1 (by rw [r1.frames]; exact hf) r1.mode h hC1 hC' m v hv with h' | ⟨hi', hg'⟩ | h'
        · exact one h'
        · rcases hu m with e | ⟨_, _, hc⟩
          · rw [e] at hg'; exact .inr (.inl ⟨.inr hi', hg'⟩)
          · rcases hc with ⟨v', hc1, hc2⟩ | ⟨_, hc2⟩
            · rw [hc2] at hg'; cases hg'; exact one hc1
            · rw [hc2] at hg'; cases hg'
        · exact .inr (.inr (.later h'))
    · rw [skip_body (.stmt o r) hw hm] at h; cases h
      rw [hC] at hC'; cases hC'; exact .inl hv
  | .incl tag c r, hw, t, t', hi, hf, hm, h, C, C', hC, hC', m, v, hv => by
    rcases hm with hm | ⟨l, hm⟩
    · have hfl : (Body.incl tag c r).flatten = (.enter tag :: c.flatten) ++ (.exit :: r.flatten) := by
        simp [Body.flatten]
      rw [hfl, run_append] at h
      obtain ⟨mid, h1, h2⟩ := h
      simp only [run] at h2
      split at h2
      · cases h2
      · rename_i t1 hx
        obtain ⟨Cc, hCc, ir⟩ := include_nested c (fun i' f' m' h' => body_rel c hw.1 i' f' m' h') hi hf hm h1 hx
        have i1 : Inv t1 := inv_step (inv_run hi h1) hx
        have r1 := ir.toBody
        obtain ⟨L, L', hL, hL', hu⟩ := ir.tabs
        rw [hC] at hL; cases hL
        -- the included file, from the empty table
        have h1' : run (enterFile t tag) c.flatten = .ok mid := by simpa only [run, step, hm] using h1
        have i0 := inv_enterFile hi tag
        have hg0 : (enterFile t tag).globals = C := by simp [enterFile, hC]
        have one : L'.find m = some (some v) →
            C.find m = some (some v) ∨ ((Body.incl tag c r).imports m ∧ t.globals.find m = some (some v)) ∨
              Up m v (.incl tag c r) := by
          intro hv1
          rcases hu m with e | ⟨hn, hun, hc⟩
          · rw [e] at hv1; exact .inl hv1
          · rcases hc with ⟨v', hc1, hc2⟩ | ⟨_, hc2⟩
            · rw [hc2] at hv1; cases hv1
              rcases body_prov c hw.1 i0 (by simp [enterFile]) (.inl hm) h1' (C := []) rfl hCc m v hc1
                with h' | ⟨_, hg'⟩ | h'
              · simp [Table.find] at h'
              · rw [hg0] at hg'; exact absurd hg' (hun v)
              · exact .inr (.inr (.child hn h'))
            · rw [hc2] at hv1; cases hv1
        rcases body_prov r hw.2 i1 (by rw [r1.frames]; exact hf) r1.mode h2 hL' hC' m v hv with h' | ⟨hi', hg'⟩ | h'
        · exact one h'
        · rw [ir.globals] at hg'; exact .inr (.inl ⟨hi', hg'⟩)
        · exact .inr (.inr (.after h'))
    · rw [skip_body (.incl tag c r) hw hm] at h; cases h
      rw [hC] at hC'; cases hC'; exact .inl hv


/-- the table the next `.include`d file would see as its includer's: the current file's, or the global table -/
def visible (s : State) : Table :=
  match s.locals with
  | some l => l
  | none => s.globals

theorem enterFile_globals (s : State) (tag : Nat) : (enterFile s tag).globals = visible s := by
  unfold enterFile visible
  cases s.locals <;> cases s.localTasks <;> rfl

/-- the included file's final table, from the empty table: every valued entry was imported from the includer (who had
it, with this value, before the include began) or is the end of an `Up` chain -/
theorem file_prov (b : Body) (hw : b.wf) {s mid : State} {tag : Nat} {C : Table} (hi : Inv s)
    (hm : s.mode = .running) (h1 : run s (.enter tag :: b.flatten) = .ok mid) (hC : mid.locals = some C)
    (m : Bytes) (v : Int) (hv : C.find m = some (some v)) :
    (b.imports m ∧ (visible s).find m = some (some v)) ∨ Up m v b := by
  have h1' : run (enterFile s tag) b.flatten = .ok mid := by simpa only [run, step, hm] using h1
  rcases body_prov b hw (inv_enterFile hi tag) (by simp [enterFile]) (.inl hm) h1' (C := []) rfl hC m v hv
    with h' | ⟨hi', hg'⟩ | h'
  · simp [Table.find] at h'
  · rw [enterFile_globals] at hg'; exact .inl ⟨hi', hg'⟩
  · exact .inr h'

/-! ## positions in a project: the open files with the part of their bodies run so far -/

/-- `Reach s0 ctx s`: from `s0` (outside any file) the files of `ctx` were entered one inside the other — innermost
first; each entry is the tag of the `.include` and the part of that file's body run so far, itself a sequence of
statements and complete includes — and `s` is the state now -/
def Reach (s0 : State) : List (Nat × Body) → State → Prop
  | [], s => s = s0
  | (tag, pre) :: outer, s =>
    ∃ so, Reach s0 outer so ∧ so.mode = .running ∧ run so (.enter tag :: pre.flatten) = .ok s

/-- `Lic n v G0 ctx`: the innermost file of `ctx` is entitled to `n = v`: an `Up` chain (`.export`/`.global` edges down
to a definition `n = v`) starts in the part of its body run so far, or it has an `.import n` and its includer was entitled
to `n = v` when the file was entered; outside any file: the global table `G0` had it at the start -/
def Lic (n : Bytes) (v : Int) (G0 : Table) : List (Nat × Body) → Prop
  | [] => G0.find n = some (some v)
  | (_, pre) :: outer => Up n v pre ∨ (pre.imports n ∧ Lic n v G0 outer)

theorem reach_inv {s0 : State} (h0 : Inv s0) : ∀ (ctx : List (Nat × Body)) {s : State}, Reach s0 ctx s → Inv s
  | [], s, h => by cases h; exact h0
  | (tag, pre) :: outer, s, ⟨so, hr, _, hrun⟩ => inv_run (reach_inv h0 outer hr) hrun

theorem reach_lic {s0 : State} (h0 : Inv s0) (hf0 : s0.frames = []) (n : Bytes) (v : Int) :
    ∀ (ctx : List (Nat × Body)), (∀ p ∈ ctx, p.2.wf) → ∀ {s : State}, Reach s0 ctx s →
    (ctx = [] ∨ s.frames ≠ []) ∧ ((visible s).find n = some (some v) → Lic n v s0.globals ctx)
  | [], _, s, h => by
    cases h
    refine ⟨.inl rfl, ?_⟩
    have hl : s0.locals = none := by
      cases hl : s0.locals with
      | none => rfl
      | some l => have := h0.opn.locals.1 (by simp [hl]); exact absurd hf0 this
    simp [visible, hl, Lic]
  | (tag, pre) :: outer, hw, s, ⟨so, hr, hm, hrun⟩ => by
    have io := reach_inv h0 outer hr
    have ih := reach_lic h0 hf0 n v outer (fun p hp => hw p (by simp [hp])) hr
    have hwp : pre.wf := hw (tag, pre) (by simp)
    have hrun' : run (enterFile so tag) pre.flatten = .ok s := by simpa only [run, step, hm] using hrun
    have br := body_rel pre hwp (inv_enterFile io tag) (by simp [enterFile]) (.inl hm) hrun'
    have hfs : s.frames ≠ [] := by rw [br.frames]; simp [enterFile]
    refine ⟨.inr hfs, ?_⟩
    intro hv
    obtain ⟨_, C, _, hC, _, _⟩ := br.tabs
    have hvis : visible s = C := by simp [visible, hC]
    rw [hvis] at hv
    rcases file_prov pre hwp io hm hrun hC n v hv with ⟨hi', hg'⟩ | h'
    · exact .inr ⟨hi', ih.2 hg'⟩
    · exact .inl h'


/-! ## what an immediate `.du32` reads -/

theorem addTask_log {s s' : State} {t : Task} {r : Realm} (h : addTask s t r = .ok s') : s'.log = s.log := by
  unfold addTask at h
  cases r with
  | global => cases h; rfl
  | loc => simp only at h; split at h <;> cases h; rfl

/-- `.du32 n` inside a file: the only value it can write at once is the current file's entry for `n` -/
theorem use_resolves {s s' : State} {l : Table} {n : Bytes} {tag : Nat} {r : Option Level}
    (hd : s.depth ≠ 0) (hl : s.locals = some l) (h : stmt s (.use n tag) = .ok (s', r)) :
    s'.log = s.log ∨ (∃ k, s'.log = .diag tag k :: s.log) ∨
      (∃ v, l.find n = some (some v) ∧ s'.log = .value tag v 0 :: s.log) := by
  simp only [stmt] at h
  unfold doUse at h
  have key : ∀ {s1 : State} {res : Except Level DataOp} {c : Option Int},
      applyUse s n none tag 0 true = .ok (s1, res, c) →
      s1.log = s.log ∨ (∃ k, s1.log = .diag tag k :: s.log) ∨
      (∃ v, l.find n = some (some v) ∧ s1.log = .value tag v 0 :: s.log) := by
    intro s1 res c ha
    unfold applyUse at ha
    simp only [State.hasCurrFile, hd, getConstant, hl, ne_eq, not_false_eq_true, decide_true, if_true] at ha
    split at ha
    · cases ha; exact .inr (.inl ⟨_, rfl⟩)
    · split at ha
      · cases ha
      · cases ha; exact .inl rfl
      · cases ha; exact .inl rfl
      · rename_i v hg
        have hf : l.find n = some (some v) := get_found (Except.ok.inj hg)
        unfold writeVal at ha
        split at ha <;> rename_i heq <;> cases ha <;> (split at heq <;> cases heq)
        all_goals first
          | exact .inr (.inr ⟨v, hf, rfl⟩)
          | exact .inr (.inl ⟨_, rfl⟩)
  split at h
  · cases h
  · rename_i ha; cases h; exact key ha
  · rename_i ha
    split at h
    · cases h
    · rename_i hadd; cases h
      rw [addTask_log hadd]; exact key ha


end Trion.Scope
