import TrionModel.Model.Asm
/-!
# `Trion.Asm`: diagnostics are only ever added, and every `Err` result comes with a new diagnostic
-/
namespace Trion.Asm
open Trion

def Res.isErr : Res → Bool
  | .ok => false
  | .err _ => true

def Op.isErr : Op → Bool
  | .err _ => true
  | _ => false

@[simp] theorem Res.isErr_ok : Res.isErr .ok = false := rfl
@[simp] theorem Res.isErr_err (l : Level) : Res.isErr (.err l) = true := rfl
@[simp] theorem Op.isErr_completed : Op.isErr .completed = false := rfl
@[simp] theorem Op.isErr_deferred (c : Bytes) : Op.isErr (.deferred c) = false := rfl
@[simp] theorem Op.isErr_err (l : Level) : Op.isErr (.err l) = true := rfl

/-- the diagnostics of `st'` are those of `st` plus at least `err.toNat` new ones -/
def Grew (st st' : St) (err : Bool) : Prop := st.errors.length + err.toNat ≤ st'.errors.length

@[simp] theorem pushIn_len (st : St) (f : Bytes) (l c : Nat) (k : Kind) :
    (st.pushIn f l c k).errors.length = st.errors.length + 1 := rfl
@[simp] theorem push_len (st : St) (env : Env) (l c : Nat) (k : Kind) :
    (st.push env l c k).errors.length = st.errors.length + 1 := rfl

/-- closing step: all facts are linear inequalities between lengths of `errors` -/
macro "grew_close" : tactic =>
  `(tactic| (simp_all [Grew] <;> (try omega)))

/-- split every `match`/`if` of the goal, reducing `let`s on the way -/
macro "splits" : tactic => `(tactic| repeat' (first | split | (simp only)))

theorem insertConstant_errs {st st' : St} {n : Bytes} {v : Int} {r : Realm} {x : Except CErr Bool}
    (h : insertConstant st n v r = .ok (st', x)) : st'.errors = st.errors := by
  unfold insertConstant at h
  repeat' split at h
  all_goals (first | (cases h; done) | (cases h; rfl))

theorem deferConstant_errs {st st' : St} {n : Bytes} {r : Realm} {x : Except CErr Unit}
    (h : deferConstant st n r = .ok (st', x)) : st'.errors = st.errors := by
  unfold deferConstant at h
  repeat' split at h
  all_goals (first | (cases h; done) | (cases h; rfl))

theorem addTask_errs {st st' : St} {t : Task} {r : Realm} (h : addTask st t r = .ok st') : st'.errors = st.errors := by
  unfold addTask at h
  repeat' split at h
  all_goals (first | (cases h; done) | (cases h; rfl))

theorem writeData_grew {d d' : DataExpr} {st st' : St} {bytes : Bytes} {r : Res}
    (h : d.writeData st bytes = .ok (d', st', r)) : Grew st st' r.isErr := by
  unfold DataExpr.writeData at h
  repeat' split at h
  all_goals (first | (cases h; done) | (cases h; simp [Grew]))

theorem writer_grew {d d' : DataExpr} {st st' : St} {r : Res}
    (h : d.writer st = .ok (d', st', r)) : Grew st st' r.isErr := by
  unfold DataExpr.writer at h
  repeat' split at h
  all_goals (first | exact writeData_grew h | (cases h; simp [Grew]))

theorem apply_grew {d d' : DataExpr} {env : Env} {st st' : St} {loc : Bool} {op : Op}
    (h : d.apply env st loc = .ok (d', st', op)) : Grew st st' op.isErr := by
  unfold DataExpr.apply at h
  repeat' split at h
  all_goals (first | (cases h; done) | skip)
  all_goals (try (have w := writer_grew ‹DataExpr.writer _ _ = _›))
  all_goals (cases h; grew_close)

theorem duDirective_grew {du : DU} {env : Env} {st : St} {line col : Nat} {args : List Arg} :
    ∀ st' r, duDirective du env st line col args = .ok (st', r) → Grew st st' r.isErr := by
  unfold duDirective
  splits
  all_goals (intro st' r h)
  all_goals (first | (cases h; done) | skip)
  all_goals (try (have w1 := apply_grew ‹DataExpr.apply _ _ _ _ = _›))
  all_goals (try (have w2 := writeData_grew ‹DataExpr.writeData _ _ _ = _›))
  all_goals (try (have w3 := addTask_errs ‹DataExpr.schedule _ _ _ = _›))
  all_goals (cases h; grew_close)

theorem runDataTask_grew {d : DataExpr} {g : Bool} {env : Env} {st : St} :
    ∀ st' r, runDataTask d g env st = .ok (st', r) → Grew st st' r.isErr := by
  unfold runDataTask
  splits
  all_goals (intro st' r h)
  all_goals (first | (cases h; done) | skip)
  all_goals (try (have w1 := apply_grew ‹DataExpr.apply _ _ _ _ = _›))
  all_goals (try (have w3 := addTask_errs ‹DataExpr.schedule _ _ _ = _›))
  all_goals (cases h; grew_close)

theorem assembleI_grew {i : ArmInstr} {env : Env} {st : St} {loc : Bool} :
    ∀ i' st' op, i.assemble env st loc = .ok (i', st', op) → Grew st st' op.isErr := by
  unfold ArmInstr.assemble
  splits
  all_goals (intro i' st' op h)
  all_goals (first | (cases h; done) | skip)
  all_goals (cases h; grew_close)

theorem writeInstr_grew {enc : Encoder} {i : ArmInstr} {st : St} {df : Bool} :
    ∀ i' st' r, i.writeInstr enc st df = .ok (i', st', r) → Grew st st' r.isErr := by
  unfold ArmInstr.writeInstr
  splits
  all_goals (intro i' st' r h)
  all_goals (first | (cases h; done) | skip)
  all_goals (cases h; grew_close)

theorem instruction_grew {enc : Encoder} {env : Env} {st : St} {line col : Nat} {name : Bytes} {args : List Arg} :
    ∀ st' r, instruction enc env st line col name args = .ok (st', r) → Grew st st' r.isErr := by
  unfold instruction
  splits
  all_goals (intro st' r h)
  all_goals (first | (cases h; done) | skip)
  all_goals (try (have w1 := assembleI_grew _ _ _ ‹ArmInstr.assemble _ _ _ _ = _›))
  all_goals (try (have w2 := writeInstr_grew _ _ _ ‹ArmInstr.writeInstr _ _ _ _ = _›))
  all_goals (try (have w3 := addTask_errs ‹ArmInstr.schedule _ _ _ = _›))
  all_goals (cases h; grew_close)

theorem runInstrTask_grew {enc : Encoder} {i : ArmInstr} {g : Bool} {env : Env} {st : St} :
    ∀ st' r, runInstrTask enc i g env st = .ok (st', r) → Grew st st' r.isErr := by
  unfold runInstrTask
  splits
  all_goals (intro st' r h)
  all_goals (first | (cases h; done) | skip)
  all_goals (try (have w1 := assembleI_grew _ _ _ ‹ArmInstr.assemble _ _ _ _ = _›))
  all_goals (try (have w2 := writeInstr_grew _ _ _ ‹ArmInstr.writeInstr _ _ _ _ = _›))
  all_goals (try (have w3 := addTask_errs ‹ArmInstr.schedule _ _ _ = _›))
  all_goals (cases h; grew_close)

theorem runGlobalCopy_grew {name : Bytes} {line col : Nat} {env : Env} {st : St} :
    ∀ st' r, runGlobalCopy name line col env st = .ok (st', r) → Grew st st' r.isErr := by
  unfold runGlobalCopy
  splits
  all_goals (intro st' r h)
  all_goals (first | (cases h; done) | skip)
  all_goals (try (have w1 := insertConstant_errs ‹insertConstant _ _ _ _ = _›))
  all_goals (cases h; grew_close)

theorem globalDirective_grew {g : GDir} {env : Env} {st : St} {line col : Nat} {args : List Arg} :
    ∀ st' r, globalDirective g env st line col args = .ok (st', r) → Grew st st' r.isErr := by
  unfold globalDirective
  splits
  all_goals (intro st' r h)
  all_goals (first | (cases h; done) | skip)
  all_goals (try (have w1 := insertConstant_errs ‹insertConstant _ _ _ _ = _›))
  all_goals (try (have w2 := deferConstant_errs ‹deferConstant _ _ Realm.global = _›))
  all_goals (try (have w3 := deferConstant_errs ‹deferConstant _ _ Realm.loc = _›))
  all_goals (try (have w5 := deferConstant_errs ‹deferConstant _ _ _ = _›))
  all_goals (try (have w4 := addTask_errs ‹addTask _ _ _ = _›))
  all_goals (cases h; grew_close)

theorem evalStrict_grew {dir : String} {env : Env} {st st' : St} {line col : Nat} {a : Arg} {r : Res}
    (h : evalStrict dir env st line col a = .ok (.error (st', r))) : Grew st st' true ∧ r.isErr = true := by
  unfold evalStrict at h
  repeat' split at h
  all_goals (first | (cases h; done) | skip)
  all_goals (cases h; grew_close)

theorem addrDirective_grew {env : Env} {st : St} {line col : Nat} {args : List Arg} :
    ∀ st' r, addrDirective env st line col args = .ok (st', r) → Grew st st' r.isErr := by
  unfold addrDirective
  splits
  all_goals (intro st' r h)
  all_goals (first | (cases h; done) | skip)
  all_goals (try (have w1 := evalStrict_grew ‹evalStrict _ _ _ _ _ _ = _›))
  all_goals (cases h; grew_close)

theorem alignDirective_grew {env : Env} {st : St} {line col : Nat} {args : List Arg} :
    ∀ st' r, alignDirective env st line col args = .ok (st', r) → Grew st st' r.isErr := by
  unfold alignDirective
  splits
  all_goals (intro st' r h)
  all_goals (first | (cases h; done) | skip)
  all_goals (try (have w1 := evalStrict_grew ‹evalStrict _ _ _ _ _ _ = _›))
  all_goals (cases h; grew_close)

theorem constDirective_grew {env : Env} {st : St} {line col : Nat} {args : List Arg} :
    ∀ st' r, constDirective env st line col args = .ok (st', r) → Grew st st' r.isErr := by
  unfold constDirective
  splits
  all_goals (intro st' r h)
  all_goals (first | (cases h; done) | skip)
  all_goals (try (have w1 := evalStrict_grew ‹evalStrict _ _ _ _ _ _ = _›))
  all_goals (try (have w2 := insertConstant_errs ‹insertConstant _ _ _ _ = _›))
  all_goals (cases h; grew_close)

theorem appendData_grew {dir : String} {env : Env} {st : St} {line col : Nat} {d : Bytes} :
    ∀ st' r, appendData dir env st line col d = .ok (st', r) → Grew st st' r.isErr := by
  unfold appendData
  splits
  all_goals (intro st' r h)
  all_goals (first | (cases h; done) | skip)
  all_goals (cases h; grew_close)

theorem stringDirective_grew {fs : Bytes → Option Bytes} {dir : String} {env : Env} {st : St} {line col : Nat}
    {args : List Arg} :
    ∀ st' r, stringDirective fs dir env st line col args = .ok (st', r) → Grew st st' r.isErr := by
  unfold stringDirective
  splits
  all_goals (first | exact appendData_grew | skip)
  all_goals (intro st' r h)
  all_goals (first | (cases h; done) | skip)
  all_goals (cases h; grew_close)

/-- what the recursive call of `.include` has to satisfy -/
def IncGrew (inc : Inc) : Prop := ∀ env st data path st' r, inc env st data path = .ok (st', r) → Grew st st' r.isErr

theorem includeDirective_grew {fs : Bytes → Option Bytes} {inc : Inc} (hinc : IncGrew inc) {env : Env} {st : St}
    {line col : Nat} {args : List Arg} :
    ∀ st' r, includeDirective fs inc env st line col args = .ok (st', r) → Grew st st' r.isErr := by
  unfold includeDirective
  splits
  all_goals (intro st' r h)
  all_goals (first | (cases h; done) | skip)
  all_goals (try (have w1 := hinc _ _ _ _ _ _ ‹inc _ _ _ _ = _›))
  all_goals (cases h; grew_close)

theorem directive_grew {fs : Bytes → Option Bytes} {inc : Inc} (hinc : IncGrew inc) {env : Env} {st : St}
    {line col : Nat} {name : Bytes} {args : List Arg} :
    ∀ st' r, directive fs inc env st line col name args = .ok (st', r) → Grew st st' r.isErr := by
  delta directive
  by_cases h0 : name = bytesOf "addr"
  · rw [if_pos h0]; exact addrDirective_grew
  rw [if_neg h0]
  by_cases h1 : name = bytesOf "align"
  · rw [if_pos h1]; exact alignDirective_grew
  rw [if_neg h1]
  by_cases h2 : name = bytesOf "const"
  · rw [if_pos h2]; exact constDirective_grew
  rw [if_neg h2]
  by_cases h3 : name = bytesOf "du8"
  · rw [if_pos h3]; exact duDirective_grew
  rw [if_neg h3]
  by_cases h4 : name = bytesOf "du16"
  · rw [if_pos h4]; exact duDirective_grew
  rw [if_neg h4]
  by_cases h5 : name = bytesOf "du32"
  · rw [if_pos h5]; exact duDirective_grew
  rw [if_neg h5]
  by_cases h6 : name = bytesOf "dhex"
  · rw [if_pos h6]; exact stringDirective_grew
  rw [if_neg h6]
  by_cases h7 : name = bytesOf "dstr"
  · rw [if_pos h7]; exact stringDirective_grew
  rw [if_neg h7]
  by_cases h8 : name = bytesOf "dfile"
  · rw [if_pos h8]; exact stringDirective_grew
  rw [if_neg h8]
  by_cases h9 : name = bytesOf "global"
  · rw [if_pos h9]; exact globalDirective_grew
  rw [if_neg h9]
  by_cases h10 : name = bytesOf "import"
  · rw [if_pos h10]; exact globalDirective_grew
  rw [if_neg h10]
  by_cases h11 : name = bytesOf "export"
  · rw [if_pos h11]; exact globalDirective_grew
  rw [if_neg h11]
  by_cases h12 : name = bytesOf "include"
  · rw [if_pos h12]; exact includeDirective_grew hinc
  rw [if_neg h12]
  intro st' r h; cases h; grew_close

theorem statement_grew {fs : Bytes → Option Bytes} {enc : Encoder} {inc : Inc} (hinc : IncGrew inc) {env : Env}
    {st : St} {el : Element} :
    ∀ st' r, statement fs enc inc env st el = .ok (st', r) → Grew st st' r.isErr := by
  unfold statement
  splits
  all_goals (first | exact directive_grew hinc | exact instruction_grew | skip)
  all_goals (intro st' r h)
  all_goals (first | (cases h; done) | skip)
  all_goals (try (have w1 := insertConstant_errs ‹insertConstant _ _ _ _ = _›))
  all_goals (cases h; grew_close)

theorem doAssemble_grew {fs : Bytes → Option Bytes} {enc : Encoder} {inc : Inc} (hinc : IncGrew inc) {env : Env}
    (err : Option ParseErr) : ∀ (els : List Element) (st st' : St) (r : Res),
      doAssemble fs enc inc env els err st = .ok (st', r) → Grew st st' r.isErr := by
  intro els
  induction els with
  | nil =>
    intro st st' r h
    cases err <;> simp only [doAssemble] at h <;> (cases h; grew_close)
  | cons el els ih =>
    intro st st' r h
    simp only [doAssemble] at h
    split at h
    · have w1 := statement_grew hinc _ _ ‹statement _ _ _ _ _ _ = _›
      have w2 := ih _ _ _ h
      simp only [Grew, Res.isErr_ok, Bool.toNat_false] at w1 w2 ⊢
      omega
    · have w1 := statement_grew hinc _ _ ‹statement _ _ _ _ _ _ = _›
      cases h; grew_close
    · cases h

/-! ## tasks, loops, files -/

theorem runTask_grew {enc : Encoder} {env : Env} {st : St} {t : Task} :
    ∀ st' r, runTask enc env st t = .ok (st', r) → Grew st st' r.isErr := by
  cases t with
  | data d g => exact runDataTask_grew
  | instr i g => exact runInstrTask_grew
  | globalCopy n l c => exact runGlobalCopy_grew

/-- `Res.join` is an error -/
@[simp] theorem join_isErr (r : Res) (l : Level) : (r.join l).isErr = true := by cases r <;> rfl

theorem localRound_grew {enc : Encoder} {env : Env} : ∀ (ts : List Task) (st : St) (res : Res) (st' : St) (r : Res),
    localRound enc env ts st res = .ok (st', r) →
      st.errors.length ≤ st'.errors.length ∧ (r.isErr = true → res.isErr = true ∨ st.errors.length < st'.errors.length) := by
  intro ts
  induction ts with
  | nil => intro st res st' r h; simp only [localRound] at h; cases h; simp
  | cons t ts ih =>
    intro st res st' r h
    simp only [localRound] at h
    split at h
    · have w1 := runTask_grew _ _ ‹runTask _ _ _ _ = _›
      have w2 := ih _ _ _ _ h
      simp only [Grew, Res.isErr_ok, Bool.toNat_false] at w1
      refine ⟨by omega, fun hr => ?_⟩
      rcases w2.2 hr with h' | h'
      · exact .inl h'
      · exact .inr (by omega)
    · have w1 := runTask_grew _ _ ‹runTask _ _ _ _ = _›
      simp only [Grew, Res.isErr_err, Bool.toNat_true] at w1
      split at h
      · cases h; exact ⟨by omega, fun _ => .inr (by omega)⟩
      · have w2 := ih _ _ _ _ h
        exact ⟨by omega, fun _ => .inr (by omega)⟩
    · cases h

theorem localLoop_grew {enc : Encoder} {env : Env} : ∀ (n : Nat) (ts : List Task) (st : St) (res : Res) (st' : St) (r : Res),
    localLoop enc env n ts st res = .ok (st', r) →
      st.errors.length ≤ st'.errors.length ∧ (r.isErr = true → res.isErr = true ∨ st.errors.length < st'.errors.length) := by
  intro n
  induction n with
  | zero => intro ts st res st' r h; simp [localLoop] at h
  | succ n ih =>
    intro ts st res st' r h
    simp only [localLoop] at h
    split at h
    · cases h; simp
    · split at h
      · rename_i st1 res1 hr
        have w1 := localRound_grew _ _ _ _ _ hr
        split at h
        · cases h
        · split at h
          · cases h; exact w1
          · have w2 := ih _ _ _ _ _ h
            refine ⟨by have := w2.1; simp only at this; omega, fun hr' => ?_⟩
            rcases w2.2 hr' with h' | h'
            · rcases w1.2 h' with h2 | h2
              · exact .inl h2
              · exact .inr (by have := w2.1; simp only at this; omega)
            · exact .inr (by simp only at h'; omega)
      · cases h

theorem fileBody_grew {fs : Bytes → Option Bytes} {enc : Encoder} {inc : Inc} (hinc : IncGrew inc) {env : Env}
    {data : Bytes} {st : St} : ∀ st' r, fileBody fs enc inc env data st = .ok (st', r) → Grew st st' r.isErr := by
  intro st' r h
  unfold fileBody at h
  split at h
  · split at h
    · rename_i st3 res hd
      have w1 := doAssemble_grew hinc _ _ _ _ _ hd
      split at h
      · cases h; exact w1
      · split at h
        · cases h
        · have w2 := localLoop_grew _ _ _ _ _ _ h
          simp only [Grew] at w1 ⊢
          have h1 := w2.1
          simp only at h1
          cases hr : r.isErr with
          | false => simp; cases hres : res.isErr <;> simp [hres] at w1 <;> omega
          | true =>
            rcases w2.2 hr with h' | h'
            · simp [h'] at w1; simp; omega
            · simp only at h'; simp; cases hres : res.isErr <;> simp [hres] at w1 <;> omega
    · cases h
  · cases h

theorem leaveFile_errs (c : Option Table) (t : Option (List Task)) (st : St) : (leaveFile c t st).errors = st.errors := by
  unfold leaveFile
  cases c <;> cases t <;> rfl

theorem enterFile_errs (st : St) : (enterFile st).2.2.errors = st.errors := by
  unfold enterFile
  cases st.locals <;> simp only <;> split <;> rfl

theorem assembleFile_grew (fs : Bytes → Option Bytes) (enc : Encoder) : ∀ fuel, IncGrew (assembleFile fs enc fuel) := by
  intro fuel
  induction fuel with
  | zero => intro env st data path st' r h; simp [assembleFile] at h
  | succ fuel ih =>
    intro env st data path st' r h
    simp only [assembleFile, List.length_cons, Nat.add_one_ne_zero, if_false, ne_eq, not_true_eq_false] at h
    have he := enterFile_errs st
    generalize enterFile st = ef at h he
    obtain ⟨c, t, st2⟩ := ef
    simp only at h he
    split at h
    · rename_i st4 res hf
      have w := fileBody_grew ih _ _ hf
      cases h
      simp only [Grew, leaveFile_errs] at w ⊢
      rw [← he]; exact w
    · cases h

theorem aborts_isErr {r : Res} (h : r.aborts = true) : r.isErr = true := by
  cases r with
  | ok => simp [Res.aborts] at h
  | err l => rfl

theorem globalRound_grew {enc : Encoder} {env : Env} : ∀ (ts : List Task) (st st' : St) (abort : Bool),
    globalRound enc env ts st = .ok (st', abort) → st.errors.length + abort.toNat ≤ st'.errors.length := by
  intro ts
  induction ts with
  | nil => intro st st' abort h; simp only [globalRound] at h; cases h; simp
  | cons t ts ih =>
    intro st st' abort h
    simp only [globalRound] at h
    split at h
    · rename_i st1 r hr
      have w1 := runTask_grew _ _ hr
      simp only [Grew] at w1
      split at h
      · rename_i ha
        cases h
        rw [aborts_isErr ha] at w1
        simpa using w1
      · have w2 := ih _ _ _ h
        omega
    · cases h

theorem globalLoop_grew {enc : Encoder} {env : Env} : ∀ (n : Nat) (ts : List Task) (st st' : St) (abort : Bool),
    globalLoop enc env n ts st = .ok (st', abort) → st.errors.length + abort.toNat ≤ st'.errors.length := by
  intro n
  induction n with
  | zero => intro ts st st' abort h; simp [globalLoop] at h
  | succ n ih =>
    intro ts st st' abort h
    simp only [globalLoop] at h
    split at h
    · cases h; simp
    · split at h
      · rename_i st1 ab hr
        have w1 := globalRound_grew _ _ _ _ hr
        split at h
        · rename_i hab
          cases h
          simpa [hab] using w1
        · have w2 := ih _ _ _ _ h
          simp only at w2
          omega
      · cases h

theorem finalize_grew {enc : Encoder} {env : Env} {st st' : St} {fin : Bool} (h : finalize enc env st = .ok (st', fin)) :
    st.errors.length ≤ st'.errors.length ∧ (fin = true ↔ st'.errors = []) := by
  unfold finalize at h
  split at h
  · rename_i st2 abort hl
    have w := globalLoop_grew _ _ _ _ _ hl
    simp only at w
    cases h
    refine ⟨by omega, ?_⟩
    cases abort with
    | false => simp [St.hasErrored]
    | true =>
      simp only [Bool.toNat_true] at w
      simp only [Bool.true_or, Bool.not_true, Bool.false_eq_true, false_iff]
      intro e
      rw [e] at w
      simp at w
  · cases h

end Trion.Asm
