import TrionModel.Lemmas.C06Mem
import TrionModel.Props.C08Asm
/-!
# C06: an undefined name in an instruction operand — the deferred first attempt and the end-of-file retry

First attempt (`local = true`): `NoSuchVariable n` defers the statement (`Deferred n`), a placeholder is written and a retry is
queued.  Retry (`local = false`, same table): the same name is still undefined, now an error.  `*_loc_false`: with an
evaluator that never answers `Deferred` (no `.import`-deferred entries), a run that stops with `Deferred n` under
`local = true` stops with the error `NoSuchVariable n` under `local = false`, in the same state.
-/
namespace Trion.C04
open Trion Trion.Front

theorem evalArg_loc_false {e : Arg → EvalOut} (hnd : ∀ a c a', e a ≠ .deferred c a') {pos done : Nat} {a a' : Arg} {n : Bytes}
    (h : Front.evalArg e true pos done a = .error (a', .deferred n)) :
    Front.evalArg e false pos done a = .error (a', .error (.noSuchVariable n)) := by
  unfold Front.evalArg at h ⊢
  split
  · rename_i hd
    simp only [hd, if_true] at h
    cases he : e a with
    | complete x => rw [he] at h; cases h
    | deferred c x => exact absurd he (hnd _ _ _)
    | noSuchVariable m x =>
      rw [he] at h
      simp only [if_true, Except.error.injEq, Prod.mk.injEq, Res.deferred.injEq] at h
      obtain ⟨rfl, rfl⟩ := h
      simp
    | error er x => rw [he] at h; cases h
  · rename_i hd
    simp only [hd, if_false] at h; cases h

theorem get_loc_false {k : Kind} {e : Arg → EvalOut} (hnd : ∀ a c a', e a ≠ .deferred c a') {pos done : Nat} {a a' : Arg}
    {d' : Nat} {n : Bytes} (h : Front.get k e true pos done a = .stop a' d' (.deferred n)) :
    Front.get k e false pos done a = .stop a' d' (.error (.noSuchVariable n)) := by
  cases hk : k.evals with
  | false => exact absurd h ((Front.get_nonevals hk).2 _ _ _)
  | true =>
    rw [Front.get_eq_post k hk] at h ⊢
    cases he : Front.evalArg e true pos done a with
    | error p =>
      obtain ⟨a1, r1⟩ := p
      rw [he] at h
      simp only [GetOut.stop.injEq] at h
      obtain ⟨rfl, rfl, rfl⟩ := h
      rw [evalArg_loc_false hnd he]
    | ok p =>
      rw [he] at h
      exact absurd h Front.post_not_deferred

theorem conv_loc_false (e : Arg → EvalOut) (hnd : ∀ a c a', e a ≠ .deferred c a') : ∀ (ks : List Kind) (pos : Nat)
    (pre rest : List Arg) (done : Nat) (instr : Instr) (vals : List Val) (A : List Arg) (D : Nat) (I : Instr) (n : Bytes),
    Front.conv e true ks pos pre rest done instr vals = .stop A D I (.deferred n) →
    Front.conv e false ks pos pre rest done instr vals = .stop A D I (.error (.noSuchVariable n)) := by
  intro ks
  induction ks with
  | nil => intro pos pre rest done instr vals A D I n h; simp [Front.conv] at h
  | cons k ks ih =>
    intro pos pre rest done instr vals A D I n h
    cases rest with
    | nil => simp only [Front.conv] at h; cases h
    | cons a rest =>
      simp only [Front.conv] at h ⊢
      cases hg : Front.get k e true pos done a with
      | ok v a' d' => rw [hg] at h; rw [Asm.get_ok_loc hg]; exact ih _ _ _ _ _ _ _ _ _ _ h
      | stop a' d' r =>
        rw [hg] at h
        simp only [ConvOut.stop.injEq] at h
        obtain ⟨rfl, rfl, rfl, rfl⟩ := h
        rw [get_loc_false hnd hg]

theorem assemble_loc_false (e : Arg → EvalOut) (hnd : ∀ a c a', e a ≠ .deferred c a') (st fs1 : Front.St) (n : Bytes)
    (h : Front.assemble st e true = (fs1, .deferred n)) :
    Front.assemble st e false = (fs1, .error (.noSuchVariable n)) := by
  unfold Front.assemble at h ⊢
  simp only at h ⊢
  by_cases c1 : st.args.length > (kinds st.instr).length
  · rw [if_pos c1] at h; cases h
  rw [if_neg c1] at h ⊢
  by_cases c2 : st.args.length < (kinds st.instr).length
  · rw [if_pos c2] at h; cases h
  rw [if_neg c2] at h ⊢
  cases hc : Front.conv e true (kinds st.instr) 0 [] st.args st.argsDone st.instr [] with
  | ok A D I vals =>
    rw [hc] at h
    simp only at h
    split at h <;> cases h
  | stop A D I r =>
    rw [hc] at h
    simp only [Prod.mk.injEq] at h
    obtain ⟨hfs, rfl⟩ := h
    rw [conv_loc_false e hnd _ _ _ _ _ _ _ _ _ _ _ hc]
    simp only [hfs]

end Trion.C04

namespace Trion.C04
open Trion Trion.Front Trion.Asm

/-- an instruction statement whose first attempt is deferred at an undefined name: either a diagnostic at once (the
placeholder does not fit / is not encodable), or `Ok` with exactly one queued retry holding the front-end state `fs1` -/
theorem instr_undef_stmt (env : Asm.Env) (st : Asm.St) (tbl : Asm.Table) (henv : env.paths ≠ [])
    (hl : st.locals = some tbl) (hlt : st.localTasks = some []) (map : Map.Segs) (seg : Seg.Active) (pending : List (Nat × Nat))
    (hs : st.seg = ⟨map, some seg, pending⟩) (l c : Nat) (name : Bytes) (args : List Arg) (t : Instr)
    (hm : mnemonic name = some t) (fs1 : Front.St) (n : Bytes)
    (hdef : Front.assemble ⟨seg.cur, t, 0, args⟩ (Asm.frontEval tbl) true = (fs1, .deferred n)) :
    ∀ st' r, Asm.instruction Asm.encoder env st l c name args = .ok (st', r) →
      st.errors.length + 1 ≤ st'.errors.length ∨
      (r = .ok ∧ st'.locals = some tbl ∧ st'.errors = st.errors ∧
        ∃ i' : Asm.ArmInstr, st'.localTasks = some [.instr i' false] ∧ i'.st = fs1) := by
  intro st' r h
  have hpaths : env.paths.isEmpty = false := by cases h : env.paths with | nil => exact absurd h henv | cons => rfl
  unfold Asm.instruction at h
  simp only [Asm.currAddr, hs, Option.map_some, hm, Asm.ArmInstr.assemble, Asm.evalTable, hpaths, hl, Asm.evalPanics_false,
    Bool.false_eq_true, if_false, hdef] at h
  cases hw : Asm.ArmInstr.writeInstr Asm.encoder ⟨env.curName, l, c, fs1, false⟩ st true with
  | stop s => rw [hw] at h; cases h
  | ok q =>
    obtain ⟨i2, st2, r2⟩ := q
    rw [hw] at h
    have hg := Asm.writeInstr_grew _ _ _ hw
    unfold Asm.ArmInstr.writeInstr at hw
    cases r2 with
    | err lv =>
      simp only at h; cases h
      left; simpa [Asm.Grew] using hg
    | ok =>
      simp only at h
      cases hsch : Asm.ArmInstr.schedule i2 st2 false with
      | stop s => rw [hsch] at h; cases h
      | ok st3 =>
        rw [hsch] at h
        cases h
        right
        split at hw
        · cases hw
        · simp only at hw
          split at hw
          · rename_i s' p' hws
            cases hw
            simp only [Asm.ArmInstr.schedule, Asm.addTask, Bool.false_eq_true, if_false, hlt] at hsch
            cases hsch
            exact ⟨rfl, hl, rfl, ⟨env.curName, l, c, fs1, p'⟩, by simp, rfl⟩
          · cases hw
          · cases hw

/-- the retry of that statement over the same table reports `NoSuchVariable` -/
theorem instr_undef_task (env : Asm.Env) (st : Asm.St) (tbl : Asm.Table) (hnd : Asm.Table.NoDef tbl) (henv : env.paths ≠ [])
    (hl : st.locals = some tbl) (addr : Nat) (t : Instr) (args : List Arg) (hp : ∀ a ∈ args, Asm.plainArg a = true)
    (fs1 : Front.St) (n : Bytes)
    (hdef : Front.assemble ⟨addr, t, 0, args⟩ (Asm.frontEval tbl) true = (fs1, .deferred n))
    (i' : Asm.ArmInstr) (hi : i'.st = fs1) :
    ∀ st' r, Asm.runTask Asm.encoder env st (.instr i' false) = .ok (st', r) → st.errors.length + 1 ≤ st'.errors.length := by
  intro st' r h
  have hpaths : env.paths.isEmpty = false := by cases h : env.paths with | nil => exact absurd h henv | cons => rfl
  have hre := Asm.assemble_retry_tables (Asm.Table.Sub.refl tbl) hnd addr t args hp fs1 n hdef false
  have hlf := assemble_loc_false (Asm.frontEval tbl) (fun a c a' => Asm.frontEval_never_deferred hnd a c a') _ fs1 n hdef
  rw [hlf] at hre
  simp only [Asm.runTask, Asm.runInstrTask, Asm.ArmInstr.assemble, Asm.evalTable, hpaths, hl, Asm.evalPanics_false,
    Bool.false_eq_true, if_false, hi, hre] at h
  cases h
  simp

end Trion.C04
