import TrionModel.Model.TriasPad
import TrionModel.Lemmas.TriasMap
import TrionModel.Lemmas.MapFind
import TrionModel.Lemmas.MapPut
/-!
The padding loop replayed on the `MemoryMap` model (`padMap`, Model/TriasPad.lean) computes exactly `padAll`,
without firing an `assert_eq!`, a `find` panic or the model's loop bound: `padMap_eq`.
-/
namespace Trion.Trias
open Trion.Uf2 Trion.Map

theorem ok_all_ge {lo : Nat} {ps : Segs} (ok : Ok lo ps) : ∀ t ∈ ps, lo ≤ t.1 := by
  induction ps generalizing lo with
  | nil => intro t ht; cases ht
  | cons s r ih =>
    obtain ⟨f, x⟩ := s
    intro t ht
    rcases List.mem_cons.mp ht with h | h
    · subst h; exact ok.1
    · have := ih ok.2.2.2 t h; have := ok.1; omega

/-- splitting a well-formed list at a segment -/
theorem ok_split {lo : Nat} (pre : Segs) (c : Nat) (cd : List UInt8) (rest : Segs)
    (ok : Ok lo (pre ++ (c, cd) :: rest)) :
    (∀ s ∈ pre, s.1 + s.2.length < c) ∧ cd ≠ [] ∧ c + cd.length ≤ 4294967296 ∧ Ok (c + cd.length + 1) rest := by
  induction pre generalizing lo with
  | nil =>
    have ok' : Ok lo ((c, cd) :: rest) := ok
    exact ⟨fun s hs => by simp at hs, ok'.2.1, ok'.2.2.1, ok'.2.2.2⟩
  | cons s r ih =>
    obtain ⟨f, x⟩ := s
    have ok' : Ok (f + x.length + 1) (r ++ (c, cd) :: rest) := ok.2.2.2
    obtain ⟨i1, i2⟩ := ih ok'
    refine ⟨fun s hs => ?_, i2⟩
    rcases List.mem_cons.mp hs with h | h
    · subst h
      have := ok_all_ge ok' (c, cd) (by simp)
      simp only at this ⊢; omega
    · exact i1 s h

theorem locLin_append (a : Nat) (m : Search) (pre rest : Segs) (i : Nat)
    (h : ∀ s ∈ pre, s.2 ≠ [] ∧ s.1 + s.2.length ≤ a) :
    locLin a m (pre ++ rest) i = locLin a m rest (i + pre.length) := by
  induction pre generalizing i with
  | nil => simp
  | cons s r ih =>
    obtain ⟨h1, h2⟩ := h s (by simp)
    have hl : 0 < s.2.length := List.length_pos_iff.mpr h1
    rw [List.cons_append, locLin_cons, if_neg (by omega), if_pos (by unfold segLast; omega),
      ih (i + 1) (fun t ht => h t (by simp [ht])), List.length_cons]
    congr 1; omega

theorem insertMerge_append (a : Nat) (z : List UInt8) (pre rest : List Seg)
    (h : ∀ s ∈ pre, s.1 + s.2.length < a) :
    insertMerge a z (pre ++ rest) = pre ++ insertMerge a z rest := by
  induction pre with
  | nil => rfl
  | cons s r ih =>
    obtain ⟨f, e⟩ := s
    have := h (f, e) (by simp)
    simp only at this
    rw [List.cons_append, insertMerge, if_pos this, ih (fun t ht => h t (by simp [ht])), List.cons_append]

theorem lookup_append_skip (pre rest : List Seg) (x : Nat) (h : ∀ s ∈ pre, s.1 + s.2.length ≤ x) :
    lookup (pre ++ rest) x = lookup rest x := by
  induction pre with
  | nil => rfl
  | cons s r ih =>
    obtain ⟨f, e⟩ := s
    have := h (f, e) (by simp)
    simp only at this
    rw [List.cons_append, lookup_cons, if_neg (by omega), ih (fun t ht => h t (by simp [ht]))]

/-- `find(prev + 1, Above)` in the loop is "the next list element" -/
theorem find_next (done : Segs) (c : Nat) (cd : List UInt8) (r : Segs) (ok : Ok 0 (done ++ (c, cd) :: r)) :
    Map.find (done ++ (c, cd) :: r) (c + cd.length) .above =
      match r with
      | [] => .ok none
      | (f, d) :: _ => .ok (some (f, f + d.length - 1)) := by
  obtain ⟨s1, s2, s3, s4⟩ := ok_split done c cd r ok
  have hcl : 0 < cd.length := List.length_pos_iff.mpr s2
  have hpre : ∀ s ∈ done ++ [(c, cd)], s.2 ≠ [] ∧ s.1 + s.2.length ≤ c + cd.length := by
    intro s hs
    rcases List.mem_append.mp hs with h | h
    · have := s1 s h
      refine ⟨?_, by omega⟩
      -- non-empty: from the invariant
      have : ∀ {lo : Nat} (ps : Segs), Ok lo ps → ∀ t ∈ ps, t.2 ≠ [] := by
        intro lo ps
        induction ps generalizing lo with
        | nil => intro _ t ht; cases ht
        | cons u q ih =>
          obtain ⟨g, y⟩ := u
          intro o t ht
          rcases List.mem_cons.mp ht with e | e
          · subst e; exact o.2.1
          · exact ih o.2.2.2 t e
      exact this _ ok s (by simp [h])
    · simp only [List.mem_singleton] at h; subst h; exact ⟨s2, Nat.le_refl _⟩
  unfold Map.find
  rw [locate_eq_locLin ok, List.append_cons, locLin_append _ _ _ _ _ hpre]
  cases r with
  | nil => rw [locLin_nil]
  | cons t r' =>
    obtain ⟨f, d⟩ := t
    have hf : c + cd.length + 1 ≤ f := s4.1
    rw [locLin_cons, if_pos (by simp only; omega)]
    simp only [Nat.zero_add]
    rw [List.getElem?_append_right (Nat.le_refl _), Nat.sub_self]
    rfl

/-- the gap fills of the loop are puts into free ranges: they return `Ok(n)` and produce `insertMerge` -/
theorem putAssert_gap (done : Segs) (c : Nat) (cd : List UInt8) (f : Nat) (d : List UInt8) (r : Segs)
    (ok : Ok 0 (done ++ (c, cd) :: (f, d) :: r)) (a n : Nat) (hn : 0 < n) (ha : c + cd.length ≤ a) (hb : a + n ≤ f) :
    putAssert (done ++ (c, cd) :: (f, d) :: r) a n =
      .ok (done ++ insertMerge a (zeros n) ((c, cd) :: (f, d) :: r)) ∧
    Ok 0 (done ++ insertMerge a (zeros n) ((c, cd) :: (f, d) :: r)) := by
  obtain ⟨s1, s2, s3, s4⟩ := ok_split done c cd _ ok
  have hz : zeros n ≠ [] := by
    intro h; have := congrArg List.length h; simp at this; omega
  have hfree : ∀ x, a ≤ x → x < a + (zeros n).length → lookup (done ++ (c, cd) :: (f, d) :: r) x = none := by
    intro x hx1 hx2
    rw [zeros_length] at hx2
    rw [lookup_append_skip _ _ _ (fun s hs => by have := s1 s hs; omega), lookup_cons, if_neg (by omega),
      lookup_cons, if_neg (by omega)]
    exact lookup_none_below (normAbove_of_ok s4.2.2.2) (by omega)
  have hbound : a + (zeros n).length ≤ 4294967296 := by
    rw [zeros_length]; have := s4.2.2.1; omega
  have hput := insertMerge_eq_put _ a (zeros n) ok hz hbound hfree
  have hinv := (put_refines_aux _ a (zeros n) ok hbound).2.1
  rw [hput] at hinv
  simp only at hinv
  have hskip := insertMerge_append a (zeros n) done ((c, cd) :: (f, d) :: r) (fun s hs => by have := s1 s hs; omega)
  refine ⟨?_, by rw [← hskip]; exact hinv⟩
  unfold putAssert
  rw [hput]
  simp only [zeros_length, if_true, hskip]

theorem padLoop_sim (r : Segs) : ∀ (fuel : Nat) (done : Segs) (c : Nat) (cd : List UInt8), r.length < fuel →
    Ok 0 (done ++ (c, cd) :: r) →
    padLoop fuel (done ++ (c, cd) :: r) (c + cd.length - 1) = .ok (done ++ padGo (c, cd) r) := by
  induction r with
  | nil =>
    intro fuel done c cd hfuel ok
    obtain ⟨_, s2, _, _⟩ := ok_split done c cd _ ok
    have hcl : 0 < cd.length := List.length_pos_iff.mpr s2
    cases fuel with
    | zero => simp at hfuel
    | succ fuel =>
      simp only [padLoop, padGo]
      split
      · rw [show c + cd.length - 1 + 1 = c + cd.length by omega, find_next done c cd [] ok]
      · rfl
  | cons t r ih =>
    obtain ⟨f, d⟩ := t
    intro fuel done c cd hfuel ok
    obtain ⟨s1, s2, s3, s4⟩ := ok_split done c cd _ ok
    have hcl : 0 < cd.length := List.length_pos_iff.mpr s2
    have hdl : 0 < d.length := List.length_pos_iff.mpr s4.2.1
    have hf : c + cd.length + 1 ≤ f := s4.1
    have hfb : f + d.length ≤ 4294967296 := s4.2.2.1
    have hfm : f % 256 ≤ f := Nat.mod_le _ _
    cases fuel with
    | zero => simp at hfuel
    | succ fuel =>
      have hfuel' : r.length < fuel := by simp only [List.length_cons] at hfuel; omega
      -- continuing after the current segment has been finished
      have next_far : ∀ (g : Nat) (e : List UInt8), Ok 0 ((done ++ [(c, cd)]) ++ (g, e) :: r) →
          g + e.length - 1 = f + d.length - 1 →
          padLoop fuel (done ++ (c, cd) :: (g, e) :: r) (f + d.length - 1) =
            .ok (done ++ (c, cd) :: padGo (g, e) r) := by
        intro g e ok' hl
        have := ih fuel (done ++ [(c, cd)]) g e hfuel' ok'
        rw [hl] at this
        simpa [List.append_assoc] using this
      have next_merged : ∀ (e : List UInt8), Ok 0 (done ++ (c, e) :: r) → c + e.length - 1 = f + d.length - 1 →
          padLoop fuel (done ++ (c, e) :: r) (f + d.length - 1) = .ok (done ++ padGo (c, e) r) := by
        intro e ok' hl
        have := ih fuel done c e hfuel' ok'
        rwa [hl] at this
      rw [padLoop, if_pos (by unfold u32Max; omega), show c + cd.length - 1 + 1 = c + cd.length by omega,
        find_next done c cd _ ok]
      simp only [padGo]
      by_cases h0 : f % 256 = 0
      · rw [if_neg (by omega), if_pos h0]
        exact next_far f d (by rw [← List.append_cons]; exact ok) rfl
      · rw [if_pos (by omega), if_neg h0]
        by_cases h1 : c + cd.length - 1 ≥ f - f % 256
        · rw [if_pos h1, if_pos h1]
          obtain ⟨p1, p2⟩ := putAssert_gap done c cd f d r ok (c + cd.length) (f - (c + cd.length - 1) - 1)
            (by omega) (Nat.le_refl _) (by omega)
          have hm : insertMerge (c + cd.length) (zeros (f - (c + cd.length - 1) - 1)) ((c, cd) :: (f, d) :: r) =
              (c, cd ++ zeros (f - (c + cd.length - 1) - 1) ++ d) :: r := by
            rw [insertMerge, if_neg (by omega), if_pos rfl, insertMerge, if_neg (by omega), if_neg (by omega),
              if_pos (by simp only [List.length_append, zeros_length]; omega)]
          rw [hm] at p1 p2
          rw [p1]
          exact next_merged _ p2 (by simp only [List.length_append, zeros_length]; omega)
        · rw [if_neg h1, if_neg h1]
          obtain ⟨p1, p2⟩ := putAssert_gap done c cd f d r ok (f - f % 256) (f % 256) (by omega) (by omega) (by omega)
          by_cases h2 : f - f % 256 = c + cd.length - 1 + 1
          · rw [if_pos h2]
            have hm : insertMerge (f - f % 256) (zeros (f % 256)) ((c, cd) :: (f, d) :: r) =
                (c, cd ++ zeros (f % 256) ++ d) :: r := by
              rw [insertMerge, if_neg (by omega), if_pos (by omega), insertMerge, if_neg (by omega),
                if_neg (by omega), if_pos (by simp only [List.length_append, zeros_length]; omega)]
            rw [hm] at p1 p2
            rw [p1]
            exact next_merged _ p2 (by simp only [List.length_append, zeros_length]; omega)
          · rw [if_neg h2]
            have hm : insertMerge (f - f % 256) (zeros (f % 256)) ((c, cd) :: (f, d) :: r) =
                (c, cd) :: (f - f % 256, zeros (f % 256) ++ d) :: r := by
              rw [insertMerge, if_pos (by omega), insertMerge, if_neg (by omega), if_neg (by omega),
                if_pos (by rw [zeros_length]; omega)]
            rw [hm] at p1 p2
            rw [p1]
            exact next_far _ _ (by rw [← List.append_cons]; exact p2)
              (by simp only [List.length_append, zeros_length]; omega)

/-- **The padding loop on the memory-map model is `padAll`** and none of its panic sites fires. -/
theorem padMap_eq (m : Segs) (inv : MInv m) : padMap m = .ok (padAll m) := by
  cases m with
  | nil => rfl
  | cons t r =>
    obtain ⟨f, d⟩ := t
    have ok : Ok 0 ([] ++ (f, d) :: r) := inv
    obtain ⟨_, s2, s3, s4⟩ := ok_split [] f d r ok
    have hdl : 0 < d.length := List.length_pos_iff.mpr s2
    have hfm : f % 256 ≤ f := Nat.mod_le _ _
    have hfind : Map.find ((f, d) :: r) 0 .above = .ok (some (f, f + d.length - 1)) := by
      unfold Map.find
      rw [locate_eq_locLin inv, locLin_cons]
      by_cases h : 0 < f
      · rw [if_pos h]; rfl
      · rw [if_neg h, if_neg (by unfold segLast; simp only; omega)]; rfl
    unfold padMap
    rw [hfind]
    simp only [padAll]
    by_cases h0 : f % 256 = 0
    · rw [if_neg (by omega)]
      have := padLoop_sim r (r.length + 1 + 1) [] f d (by omega) ok
      simp only [List.nil_append] at this
      rw [List.length_cons, this, h0]
      simp [zeros]
    · rw [if_pos (by omega)]
      -- the first page: `put(first - off, zeros off)` merges on the right
      have hz : zeros (f % 256) ≠ [] := by
        intro h; have := congrArg List.length h; simp at this; omega
      have hfree : ∀ x, f - f % 256 ≤ x → x < f - f % 256 + (zeros (f % 256)).length → lookup ((f, d) :: r) x = none := by
        intro x hx1 hx2
        rw [zeros_length] at hx2
        rw [lookup_cons, if_neg (by omega)]
        exact lookup_none_below (normAbove_of_ok s4) (by omega)
      have hbound : f - f % 256 + (zeros (f % 256)).length ≤ 4294967296 := by rw [zeros_length]; omega
      have hput := insertMerge_eq_put _ (f - f % 256) (zeros (f % 256)) inv hz hbound hfree
      have hinv := (put_refines_aux _ (f - f % 256) (zeros (f % 256)) inv hbound).2.1
      have hm : insertMerge (f - f % 256) (zeros (f % 256)) ((f, d) :: r) = (f - f % 256, zeros (f % 256) ++ d) :: r := by
        rw [insertMerge, if_neg (by omega), if_neg (by omega), if_pos (by rw [zeros_length]; omega)]
      rw [hput, hm] at hinv
      have hpa : putAssert ((f, d) :: r) (f - f % 256) (f % 256) = .ok ((f - f % 256, zeros (f % 256) ++ d) :: r) := by
        unfold putAssert
        rw [hput, hm]
        simp only [zeros_length, if_true]
      rw [hpa]
      have := padLoop_sim r (r.length + 1 + 1) [] (f - f % 256) (zeros (f % 256) ++ d) (by omega) hinv
      simp only [List.nil_append, List.length_append, zeros_length] at this
      rw [show f - f % 256 + (f % 256 + d.length) - 1 = f + d.length - 1 by omega] at this
      simp only [List.length_cons]
      exact this

end Trion.Trias
