import TrionModel.Lemmas.C04DiagRun
/-!
# C06, third clause: an invalid statement is reported — the generic run-level lemma

`run_single_diag`: the main file parses to `pre ++ el :: post` (and possibly a final parse error); the statements `pre`
run without an error result and leave no diagnostic and no queued task (state `S`); the statement `el` returns an error
result, its whole effect being ONE recorded diagnostic `k` at its own position.  Then `Asm.run` ends in an outcome that
is not a success and whose diagnostics are exactly that one: file `main`, line and column of `el`, kind `k`.
(`do_assemble` stops at the first error result, so `post` is never looked at.)
-/
namespace Trion.C04
open Trion Trion.Asm

theorem fileBody_eq' (fs : Bytes → Option Bytes) (inc : Asm.Inc) (env : Asm.Env) (data : Bytes) (st : Asm.St)
    (els : List Element) (perr : Option ParseErr) (hp : Asm.parseFile data = .ok (els, perr)) :
    Asm.fileBody fs Asm.encoder inc env data st =
      match Asm.doAssemble fs Asm.encoder inc env els perr st with
      | .ok (st3, res) =>
        if res = .err .fatal then .ok (st3, res)
        else
          match st3.localTasks with
          | none => .stop .panic
          | some tasks => Asm.localLoop Asm.encoder env Asm.rounds tasks { st3 with localTasks := some [] } res
      | .stop r => .stop r := by
  simp only [Asm.fileBody, hp] <;> rfl

/-- the prefix `pre` of the main file's statements runs without an error result and ends in `S` -/
def PrefixOk (fs : Bytes → Option Bytes) (main : Bytes) (pre : List Element) (S : Asm.St) : Prop :=
  ∀ (rest : List Element) (perr : Option ParseErr),
    Asm.doAssemble fs Asm.encoder (Asm.assembleFile fs Asm.encoder (Asm.maxDepth - 1)) ⟨[main], main⟩ (pre ++ rest) perr init2 =
    Asm.doAssemble fs Asm.encoder (Asm.assembleFile fs Asm.encoder (Asm.maxDepth - 1)) ⟨[main], main⟩ rest perr S

/-- no diagnostic recorded, no task queued -/
def QuietSt (S : Asm.St) : Prop := S.errors = [] ∧ S.globalTasks = [] ∧ S.localTasks = some []

theorem prefixOk_nil (fs : Bytes → Option Bytes) (main : Bytes) : PrefixOk fs main [] init2 := fun _ _ => rfl
theorem quiet_init2 : QuietSt init2 := ⟨rfl, rfl, rfl⟩

theorem run_single_diag (fs : Bytes → Option Bytes) (main data : Bytes) (hfs : fs main = some data)
    (els : List Element) (perr : Option ParseErr) (hp : Asm.parseFile data = .ok (els, perr))
    (pre post : List Element) (el : Element) (hels : els = pre ++ el :: post)
    (S : Asm.St) (hpre : PrefixOk fs main pre S) (hq : QuietSt S) (k : Asm.Kind) (lv : Asm.Level)
    (hel : Asm.statement fs Asm.encoder (Asm.assembleFile fs Asm.encoder (Asm.maxDepth - 1)) ⟨[main], main⟩ S el =
      .ok (S.push ⟨[main], main⟩ el.line el.col k, .err lv)) :
    ∃ o, Asm.run fs main = .done o ∧ o.success = false ∧ o.diags = [⟨main, el.line, el.col, k⟩] := by
  obtain ⟨he, hg, hl⟩ := hq
  subst hels
  have hdo : Asm.doAssemble fs Asm.encoder (Asm.assembleFile fs Asm.encoder (Asm.maxDepth - 1)) ⟨[main], main⟩
      (pre ++ el :: post) perr init2 = .ok (S.push ⟨[main], main⟩ el.line el.col k, .err lv) := by
    rw [hpre]; simp only [Asm.doAssemble, hel]
  have hfb := fileBody_eq' fs (Asm.assembleFile fs Asm.encoder (Asm.maxDepth - 1)) ⟨[main], main⟩ data init2 _ perr hp
  rw [hdo] at hfb
  have hbody : Asm.fileBody fs Asm.encoder (Asm.assembleFile fs Asm.encoder (Asm.maxDepth - 1)) ⟨[main], main⟩ data init2 =
      .ok (S.push ⟨[main], main⟩ el.line el.col k, .err lv) := by
    rw [hfb]
    simp only
    split
    · rfl
    · simp only [Asm.St.push, Asm.St.pushIn, hl, Asm.localLoop, Asm.rounds, List.isEmpty_nil, if_true]
  have hA := assembleFile_main_eq fs data main
  rw [hbody] at hA
  simp only at hA
  have hnp := Asm.run_no_panic fs main
  unfold Asm.run Asm.runWith at hnp ⊢
  simp only [hfs, hA] at hnp ⊢
  have hE : (Asm.leaveFile none none (S.push ⟨[main], main⟩ el.line el.col k)).errors = [⟨main, el.line, el.col, k⟩] := by
    simp [Asm.leaveFile, Asm.St.push, Asm.St.pushIn, he]
  have hG : (Asm.leaveFile none none (S.push ⟨[main], main⟩ el.line el.col k)).globalTasks = [] := by
    simp [Asm.leaveFile, Asm.St.push, Asm.St.pushIn, hg]
  cases hc : Seg.closeSegment (Asm.leaveFile none none (S.push ⟨[main], main⟩ el.line el.col k)).seg with
  | mk s' out =>
    rw [hc] at hnp
    cases out with
    | diag e => exact ⟨_, rfl, by simp [Asm.Outcome.success], by simp [hE]⟩
    | panic => simp at hnp
    | ok =>
      simp only [Asm.finalize, hG, Asm.globalLoop, Asm.rounds, List.isEmpty_nil, if_true]
      exact ⟨_, rfl, by simp [Asm.Outcome.success, Asm.St.hasErrored, hE], by simp [hE]⟩
    | placed a =>
      simp only [Asm.finalize, hG, Asm.globalLoop, Asm.rounds, List.isEmpty_nil, if_true]
      exact ⟨_, rfl, by simp [Asm.Outcome.success, Asm.St.hasErrored, hE], by simp [hE]⟩

theorem run_single_diag_image (fs : Bytes → Option Bytes) (main data : Bytes) (hfs : fs main = some data)
    (els : List Element) (perr : Option ParseErr) (hp : Asm.parseFile data = .ok (els, perr))
    (pre post : List Element) (el : Element) (hels : els = pre ++ el :: post)
    (S : Asm.St) (hpre : PrefixOk fs main pre S) (hq : QuietSt S) (k : Asm.Kind) (lv : Asm.Level)
    (hel : Asm.statement fs Asm.encoder (Asm.assembleFile fs Asm.encoder (Asm.maxDepth - 1)) ⟨[main], main⟩ S el =
      .ok (S.push ⟨[main], main⟩ el.line el.col k, .err lv)) :
    ∃ o, Asm.run fs main = .done o ∧ o.success = false ∧ o.diags = [⟨main, el.line, el.col, k⟩] ∧
      o.image = (Seg.closeSegment S.seg).1.map := by
  obtain ⟨he, hg, hl⟩ := hq
  subst hels
  have hdo : Asm.doAssemble fs Asm.encoder (Asm.assembleFile fs Asm.encoder (Asm.maxDepth - 1)) ⟨[main], main⟩
      (pre ++ el :: post) perr init2 = .ok (S.push ⟨[main], main⟩ el.line el.col k, .err lv) := by
    rw [hpre]; simp only [Asm.doAssemble, hel]
  have hfb := fileBody_eq' fs (Asm.assembleFile fs Asm.encoder (Asm.maxDepth - 1)) ⟨[main], main⟩ data init2 _ perr hp
  rw [hdo] at hfb
  have hbody : Asm.fileBody fs Asm.encoder (Asm.assembleFile fs Asm.encoder (Asm.maxDepth - 1)) ⟨[main], main⟩ data init2 =
      .ok (S.push ⟨[main], main⟩ el.line el.col k, .err lv) := by
    rw [hfb]
    simp only
    split
    · rfl
    · simp only [Asm.St.push, Asm.St.pushIn, hl, Asm.localLoop, Asm.rounds, List.isEmpty_nil, if_true]
  have hA := assembleFile_main_eq fs data main
  rw [hbody] at hA
  simp only at hA
  have hnp := Asm.run_no_panic fs main
  unfold Asm.run Asm.runWith at hnp ⊢
  simp only [hfs, hA] at hnp ⊢
  have hE : (Asm.leaveFile none none (S.push ⟨[main], main⟩ el.line el.col k)).errors = [⟨main, el.line, el.col, k⟩] := by
    simp [Asm.leaveFile, Asm.St.push, Asm.St.pushIn, he]
  have hG : (Asm.leaveFile none none (S.push ⟨[main], main⟩ el.line el.col k)).globalTasks = [] := by
    simp [Asm.leaveFile, Asm.St.push, Asm.St.pushIn, hg]
  have hSeg : (Asm.leaveFile none none (S.push ⟨[main], main⟩ el.line el.col k)).seg = S.seg := rfl
  rw [hSeg] at hnp ⊢
  cases hc : Seg.closeSegment S.seg with
  | mk s' out =>
    rw [hc] at hnp
    cases out with
    | diag e => exact ⟨_, rfl, by simp [Asm.Outcome.success], by simp [hE], rfl⟩
    | panic => simp at hnp
    | ok =>
      simp only [Asm.finalize, hG, Asm.globalLoop, Asm.rounds, List.isEmpty_nil, if_true]
      exact ⟨_, rfl, by simp [Asm.Outcome.success, Asm.St.hasErrored, hE], by simp [hE], rfl⟩
    | placed a =>
      simp only [Asm.finalize, hG, Asm.globalLoop, Asm.rounds, List.isEmpty_nil, if_true]
      exact ⟨_, rfl, by simp [Asm.Outcome.success, Asm.St.hasErrored, hE], by simp [hE], rfl⟩


end Trion.C04
