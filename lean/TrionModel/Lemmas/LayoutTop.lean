import TrionModel.Lemmas.LayoutCor
/-!
# C05 helper lemmas, part 8: the simulation WITHOUT side condition, below 2^32

`Rel2` is `Rel` with (a) image agreement restricted to addresses `< 2^32` and (b) a cursor correspondence that
tolerates the saturation corner: once the machine position is 2^32 the reference cursor may be anywhere at or
beyond 2^32 (a padding `.align` there moves only the reference). From then on the machine can only append
empty byte strings, and the reference only writes at addresses `≥ 2^32`.
-/
namespace Trion.Layout
open Ref

def CurOk (st : State) (c : Option Nat) : Prop :=
  pos st = c ∨ (pos st = some top ∧ ∃ y, c = some y ∧ top ≤ y)

structure Rel2 (st : State) (L : List Task) (c : Option Nat) (im : Img) : Prop where
  core : Core st
  tasks : ∀ t ∈ L, TaskOk st t
  cur : CurOk st c
  dom : ∀ a, a < top → (view st a).isSome = (im.get a).isSome
  agree : ∀ a, a < top → (∀ t ∈ L, ¬ (t.addr ≤ a ∧ a < t.addr + t.len)) → view st a = im.get a
  fin : ∀ t ∈ L, ∀ i, i < t.len → im.get (t.addr + i) = t.final[i]?

theorem rel2_init : Rel2 {} [] none [] :=
  ⟨inv_init.1, fun _ h => (by cases h), Or.inl rfl, fun _ _ => rfl, fun _ _ _ => rfl, fun _ h => (by cases h)⟩

theorem Rel2.congr {st st' : State} {L : List Task} {c : Option Nat} {im : Img}
    (h : Rel2 st L c im) (hc : st'.closed = st.closed) (ha : st'.active = st.active) : Rel2 st' L c im :=
  ⟨h.core.congr hc ha, fun t ht => (h.tasks t ht).congr hc ha, by
    have := h.cur; unfold CurOk at *; rw [pos_congr ha]; exact this,
   fun a hlt => by rw [view_congr hc ha]; exact h.dom a hlt,
   fun a hlt hx => by rw [view_congr hc ha]; exact h.agree a hlt hx, h.fin⟩

/-- everything emitted lies below 2^32 -/
theorem view_lt_top (st : State) (hc : Core st) (a : Nat) (h : (view st a).isSome = true) : a < top := by
  cases hact : st.active with
  | none => rw [view_closed_of_none st hact] at h; exact hc.1 a h
  | some s =>
    obtain ⟨g1, g2, g3⟩ := hc.2 s hact
    simp only [view, hact] at h
    by_cases hx : s.base ≤ a ∧ a < s.base + s.buf.length
    · omega
    · rw [if_neg hx] at h; exact hc.1 a h

theorem rel2_append (st : State) (L L' : List Task) (x y : Nat) (im : Img) (s : Active) (bs bytes : Bytes)
    (hr : Rel2 st L (some y) im) (hact : st.active = some s) (hx : x = s.base + s.buf.length)
    (hfit : s.buf.length + bs.length ≤ s.maxLen) (hlen : bytes.length = bs.length)
    (hsub : ∀ t ∈ L, t ∈ L')
    (hnew : ∀ t ∈ L', t ∈ L ∨
      (TaskOk { st with active := some { s with buf := s.buf ++ bs } } t ∧
       (t.len = 0 ∨ (t.addr = x ∧ t.len = bytes.length ∧ t.final = bytes))))
    (hag : bytes = bs ∨ (0 < bs.length → ∃ t ∈ L', t.addr = x ∧ t.len = bs.length)) :
    Rel2 { st with active := some { s with buf := s.buf ++ bs } } L' (some (y + bs.length)) (im.put y bytes) ∧
    (∀ a, (im.get a).isSome = true → (im.put y bytes).get a = im.get a) ∧
    (0 < bs.length → y + bs.length ≤ top) := by
  obtain ⟨g1, g2, g3⟩ := hr.core.2 s hact
  obtain ⟨e1, e2, e3⟩ := append_effects st s bs hr.core hact hfit
  have hpos : pos st = some x := by simp only [pos, hact, Option.map_some, hx]
  have hcur : x = y ∨ (x = top ∧ top ≤ y) := by
    rcases hr.cur with h | ⟨h1, y', h2, h3⟩
    · rw [hpos] at h; exact Or.inl (Option.some.inj h)
    · rw [hpos] at h1; cases h2; exact Or.inr ⟨Option.some.inj h1, h3⟩
  have htasks : ∀ t ∈ L', TaskOk { st with active := some { s with buf := s.buf ++ bs } } t := by
    intro t ht
    rcases hnew t ht with h | h
    · exact e2 t (hr.tasks t h)
    · exact h.1
  by_cases hz : bs.length = 0
  · -- nothing is appended on either side
    have hbs : bs = [] := List.eq_nil_of_length_eq_zero hz
    have hby : bytes = [] := List.eq_nil_of_length_eq_zero (by omega)
    subst hbs hby
    have hv : ∀ a, view { st with active := some { s with buf := s.buf ++ [] } } a = view st a := by
      intro a; rw [e3 a, if_neg (by simp only [List.length_nil]; omega)]
    refine ⟨⟨e1, htasks, ?_, fun a hlt => ?_, fun a hlt hno => ?_, fun t ht i hi => ?_⟩, fun _ _ => rfl,
      fun h0 => absurd h0 (by simp)⟩
    · have : pos { st with active := some { s with buf := s.buf ++ [] } } = some x := by
        simp only [pos, Option.map_some, List.append_nil, hx]
      unfold CurOk
      rw [this]
      rcases hcur with h | ⟨h1, h2⟩
      · left; rw [h]; rfl
      · right; exact ⟨by rw [h1], y + 0, rfl, by omega⟩
    · rw [hv a]; exact hr.dom a hlt
    · rw [hv a]; exact hr.agree a hlt (fun t ht => hno t (hsub t ht))
    · rcases hnew t ht with h | ⟨_, h | ⟨_, h2, _⟩⟩
      · exact hr.fin t h i hi
      · omega
      · simp only [List.length_nil] at h2; omega
  · -- a non-empty append happens below 2^32, where both cursors agree
    have hxy : x = y := by
      rcases hcur with h | ⟨h1, _⟩
      · exact h
      · omega
    subst hxy
    have hfree : ∀ a, x ≤ a → a < x + bs.length → im.get a = none := by
      intro a h1 h2
      have hv := view_fresh st s hr.core hact a (by omega) (by omega)
      have := hr.dom a (by omega)
      rw [hv] at this
      cases hg : im.get a with
      | none => rfl
      | some v => rw [hg] at this; cases this
    have hold : ∀ t ∈ L, ∀ i, i < t.len → ¬ (x ≤ t.addr + i ∧ t.addr + i < x + bs.length) := by
      intro t ht i hi hh
      have h1 := view_task st t hr.core (hr.tasks t ht) i hi
      have h2 := view_fresh st s hr.core hact (t.addr + i) (by omega) (by omega)
      rw [h2] at h1; cases h1
    have hmono : ∀ a, (im.get a).isSome = true → (im.put x bytes).get a = im.get a := by
      intro a ha
      apply get_put_outside
      intro hh
      rw [hfree a hh.1 (by omega)] at ha; cases ha
    refine ⟨⟨e1, htasks, ?_, fun a hlt => ?_, fun a hlt hno => ?_, fun t ht i hi => ?_⟩, hmono, fun _ => by omega⟩
    · left; simp only [pos, Option.map_some, List.length_append]; congr 1; omega
    · rw [e3 a, get_put, hlen, ← hx]
      by_cases ha : x ≤ a ∧ a < x + bs.length
      · rw [if_pos ha, if_pos ha, isSome_getElem?, isSome_getElem?, hlen]
      · rw [if_neg ha, if_neg ha]; exact hr.dom a hlt
    · rw [e3 a, get_put, hlen, ← hx]
      by_cases ha : x ≤ a ∧ a < x + bs.length
      · rw [if_pos ha, if_pos ha]
        rcases hag with h | h
        · rw [h]
        · obtain ⟨t, ht, h1, h2⟩ := h (by omega)
          exact absurd ⟨by omega, by omega⟩ (hno t ht)
      · rw [if_neg ha, if_neg ha]
        exact hr.agree a hlt (fun t ht => hno t (hsub t ht))
    · rcases hnew t ht with h | ⟨_, h | ⟨h1, h2, h3⟩⟩
      · rw [get_put_outside _ _ _ _ (by rw [hlen]; exact hold t h i hi)]
        exact hr.fin t h i hi
      · omega
      · rw [h1, h3, get_put_inside _ _ _ _ (by omega) (by omega)]
        congr 1; omega

/-- a machine with a selected region corresponds to a reference with a cursor -/
theorem Rel2.cursor {st : State} {L : List Task} {c : Option Nat} {im : Img} (hr : Rel2 st L c im)
    {s : Active} (hact : st.active = some s) :
    ∃ y, c = some y ∧ (s.base + s.buf.length = y ∨ (s.base + s.buf.length = top ∧ top ≤ y)) := by
  have hpos : pos st = some (s.base + s.buf.length) := by simp only [pos, hact, Option.map_some]
  rcases hr.cur with h | ⟨h1, y, h2, h3⟩
  · exact ⟨_, by rw [← h, hpos], Or.inl rfl⟩
  · rw [hpos] at h1
    exact ⟨y, h2, Or.inr ⟨Option.some.inj h1, h3⟩⟩

/-- statements that carry data bytes (not padding) -/
def Stmt.data : Stmt → Bool
  | .raw _ => true
  | .emit _ _ _ => true
  | _ => false

theorem step_rel2 (st st' : State) (s : Stmt) (c : Option Nat) (im : Img)
    (hr : Rel2 st st.tasks c im) (hwf : s.wf = true) (h : step st s = .ok st') :
    ∃ im', (∀ r, pass2 c im (s :: r) = pass2 (next c s) im' r) ∧ Rel2 st' st'.tasks (next c s) im' ∧
      (∀ a, a < top → (im.get a).isSome = true → im'.get a = im.get a) ∧
      (∀ y, c = some y → s.data = true → 0 < (bytes y s).length → y + (bytes y s).length ≤ top) := by
  cases s with
  | addr a =>
    obtain ⟨k1, k2, k3, k4, k5, k6⟩ := changeSeg_ok st st' a hr.core h
    refine ⟨im, fun r => rfl, ⟨k1, ?_, Or.inl k6, ?_, ?_, ?_⟩, fun _ _ _ => rfl, fun _ _ hd => by cases hd⟩
    · intro t ht; rw [k3] at ht; exact k5 t (hr.tasks t ht)
    · intro x hlt; rw [k4]; exact hr.dom x hlt
    · intro x hlt hx; rw [k4]; rw [k3] at hx; exact hr.agree x hlt hx
    · rw [k3]; exact hr.fin
  | label n =>
    unfold step at h
    cases hact : st.active with
    | none => rw [hact] at h; cases h
    | some s =>
      rw [hact] at h; simp only at h
      obtain ⟨_, rfl⟩ := insertConst_ok _ _ _ _ h
      exact ⟨im, fun r => rfl, hr.congr rfl rfl, fun _ _ _ => rfl, fun _ _ hd => by cases hd⟩
  | const n deps v =>
    simp only [step] at h
    split at h
    · obtain ⟨_, rfl⟩ := insertConst_ok _ _ _ _ h
      exact ⟨im, fun r => rfl, hr.congr rfl rfl, fun _ _ _ => rfl, fun _ _ hd => by cases hd⟩
    · cases h
  | raw bs =>
    obtain ⟨s, hact, hfit, rfl⟩ := append_ok st st' bs h
    obtain ⟨y, rfl, _⟩ := hr.cursor hact
    obtain ⟨r1, m1, b1⟩ := rel2_append st st.tasks st.tasks _ y im s bs bs hr hact rfl hfit rfl (fun t ht => ht)
        (fun t ht => Or.inl ht) (Or.inl rfl)
    exact ⟨im.put y bs, fun r => rfl, r1, fun a _ ha => m1 a ha,
      fun y' hy' _ hpos => by cases hy'; exact b1 hpos⟩
  | emit len deps final =>
    have hw : final.length = len := by simpa [Stmt.wf] using hwf
    unfold step at h
    cases hact : st.active with
    | none => rw [hact] at h; cases h
    | some s =>
      obtain ⟨y, rfl, _⟩ := hr.cursor hact
      rw [hact] at h; simp only at h
      split at h
      · obtain ⟨s', hact', hfit, rfl⟩ := append_ok st st' final h
        rw [hact] at hact'; cases hact'
        obtain ⟨r1, m1, b1⟩ := rel2_append st st.tasks st.tasks _ y im s final final hr hact rfl hfit rfl
          (fun t ht => ht) (fun t ht => Or.inl ht) (Or.inl rfl)
        refine ⟨im.put y final, fun r => ?_, ?_, fun a _ ha => m1 a ha,
          fun y' hy' _ hpos => by cases hy'; exact b1 hpos⟩
        · show pass2 (some (y + final.length)) _ r = _
          simp only [next, Option.map_some, hw]
        · simp only [next, Option.map_some, ← hw]; exact r1
      · cases happ : append st (placeholder len) with
        | error e => rw [happ] at h; cases h
        | ok st1 =>
          rw [happ] at h; simp only at h
          cases h
          obtain ⟨s', hact', hfit, rfl⟩ := append_ok st st1 _ happ
          rw [hact] at hact'; cases hact'
          have hfit' := hfit
          rw [length_placeholder] at hfit'
          obtain ⟨g1, g2, g3⟩ := hr.core.2 s hact
          obtain ⟨r1, m1, b1⟩ := rel2_append st st.tasks
            (st.tasks ++ [{ addr := s.curr, len := len, deps := deps, final := final }])
            _ y im s (placeholder len) final hr hact rfl hfit (by rw [length_placeholder]; exact hw)
            (fun t ht => List.mem_append_left _ ht)
            (fun t ht => by
              simp only [List.mem_append, List.mem_singleton] at ht
              rcases ht with ht | rfl
              · exact Or.inl ht
              · refine Or.inr ⟨new_task_ok st s len deps final hr.core hact hfit' hw, ?_⟩
                by_cases hl : len = 0
                · exact Or.inl hl
                · exact Or.inr ⟨curr_eq s (by omega), hw.symm, rfl⟩)
            (Or.inr fun hpos => ⟨_, List.mem_append_right _ (List.mem_singleton.mpr rfl),
              curr_eq s (by rw [length_placeholder] at hpos; omega), (length_placeholder len).symm⟩)
          refine ⟨im.put y final, fun r => ?_, ?_, fun a _ ha => m1 a ha, fun y' hy' _ hpos => ?_⟩
          · show pass2 (some (y + final.length)) _ r = _
            simp only [next, Option.map_some, hw]
          · simp only [next, Option.map_some]
            rw [length_placeholder] at r1
            exact r1.congr rfl rfl
          · cases hy'
            rw [length_placeholder] at b1
            have hb : (bytes y (.emit len deps final)).length = len := hw
            rw [hb] at hpos ⊢
            exact b1 hpos
  | align n =>
    unfold step at h
    cases hact : st.active with
    | none => rw [hact] at h; cases h
    | some s =>
      obtain ⟨y, rfl, hy⟩ := hr.cursor hact
      obtain ⟨g1, g2, g3⟩ := hr.core.2 s hact
      rw [hact] at h; simp only at h
      split at h
      · cases h
      · rename_i hn
        have hn0 : n ≠ 0 := fun h0 => hn (Or.inl h0)
        have hpass : ∀ r, pass2 (some y) im (.align n :: r) =
            pass2 (next (some y) (.align n)) (im.put y (placeholder (size y (.align n)))) r := by
          intro r
          show pass2 (some (y + (placeholder (size y (.align n))).length)) _ r = _
          simp only [next, Option.map_some, length_placeholder]
        split at h
        · rename_i hoff
          cases h
          by_cases hlt : s.base + s.buf.length < top
          · -- below 2^32: both sides see the same offset, no padding
            have hxy : s.base + s.buf.length = y := by omega
            rw [curr_eq s hlt, hxy] at hoff
            have hsz : size y (.align n) = 0 := by rw [size_align, if_neg hn0, if_pos hoff]
            refine ⟨im.put y (placeholder (size y (.align n))), hpass, ?_, ?_, fun _ _ hd => by cases hd⟩
            · have hnext : next (some y) (.align n) = some y := by
                simp only [next, Option.map_some, hsz, Nat.add_zero]
              rw [hnext, hsz]
              exact hr
            · rw [hsz]; exact fun _ _ _ => rfl
          · -- the machine stands at 2^32: the reference may pad, at addresses ≥ 2^32 only
            have hx : s.base + s.buf.length = top := by omega
            have hytop : top ≤ y := by omega
            refine ⟨im.put y (placeholder (size y (.align n))), hpass,
              ⟨hr.core, hr.tasks, ?_, fun a hlt' => ?_, fun a hlt' hno => ?_, fun t ht i hi => ?_⟩,
              fun a hlt' _ => get_put_outside _ _ _ _ (by omega), fun _ _ hd => by cases hd⟩
            · right
              refine ⟨by simp only [pos, hact, Option.map_some, hx], y + size y (.align n), rfl, by omega⟩
            · rw [get_put_outside _ _ _ _ (by omega)]; exact hr.dom a hlt'
            · rw [get_put_outside _ _ _ _ (by omega)]; exact hr.agree a hlt' hno
            · have := view_lt_top st hr.core _ (view_task st t hr.core (hr.tasks t ht) i hi)
              rw [get_put_outside _ _ _ _ (by omega)]; exact hr.fin t ht i hi
        · rename_i hoff
          obtain ⟨s', hact', hfit, rfl⟩ := append_ok st st' _ h
          rw [hact] at hact'; cases hact'
          rw [length_placeholder] at hfit
          have hmod : s.curr % n < n := Nat.mod_lt _ (by omega)
          have hlt : s.base + s.buf.length < top := by omega
          have hxy : s.base + s.buf.length = y := by omega
          have hcur := curr_eq s hlt
          rw [hcur, hxy] at hoff hmod
          have hsz : size y (.align n) = n - y % n := by rw [size_align, if_neg hn0, if_neg hoff]
          obtain ⟨r1, m1, _⟩ := rel2_append st st.tasks st.tasks _ y im s
            (placeholder (n - y % n)) (placeholder (n - y % n))
            hr hact rfl (by rw [length_placeholder, ← hxy, ← hcur]; exact hfit) rfl (fun t ht => ht)
            (fun t ht => Or.inl ht) (Or.inl rfl)
          rw [hcur, hxy]
          refine ⟨im.put y (placeholder (size y (.align n))), hpass, ?_, ?_, fun _ _ hd => by cases hd⟩
          · simp only [next, Option.map_some, hsz]
            rw [length_placeholder] at r1
            exact r1
          · rw [hsz]; exact fun a _ ha => m1 a ha

theorem steps_rel2 (p : List Stmt) (st st' : State) (c : Option Nat) (im : Img)
    (hr : Rel2 st st.tasks c im) (hwf : ∀ s ∈ p, s.wf = true) (h : steps st p = .ok st') :
    ∃ im', pass2 c im p = some im' ∧ Rel2 st' st'.tasks (cursorAfter c p) im' ∧
      (∀ a, a < top → (im.get a).isSome = true → im'.get a = im.get a) := by
  induction p generalizing st c im with
  | nil =>
    simp only [steps] at h; cases h
    exact ⟨im, rfl, hr, fun _ _ _ => rfl⟩
  | cons s r ih =>
    simp only [steps] at h
    cases hs : step st s with
    | error e => rw [hs] at h; cases h
    | ok st1 =>
      rw [hs] at h; simp only at h
      obtain ⟨im1, e1, r1, m1, _⟩ := step_rel2 st st1 s c im hr (hwf s List.mem_cons_self) hs
      obtain ⟨im2, e2, r2, m2⟩ := ih st1 (next c s) im1 r1 (fun x hx => hwf x (List.mem_cons_of_mem _ hx)) h
      refine ⟨im2, by rw [e1, e2], r2, fun a hlt ha => ?_⟩
      have h1 := m1 a hlt ha
      rw [m2 a hlt (by rw [h1]; exact ha), h1]

theorem runTasks_rel2 (l : List Task) (st st' : State) (c : Option Nat) (im : Img) (hr : Rel2 st l c im)
    (h : runTasks st l = .ok st') : Core st' ∧ ∀ a, a < top → view st' a = im.get a := by
  induction l generalizing st with
  | nil =>
    simp only [runTasks] at h; cases h
    exact ⟨hr.core, fun a hlt => hr.agree a hlt (fun t ht => by cases ht)⟩
  | cons t r ih =>
    unfold runTasks at h
    split at h
    · obtain ⟨st1, h1, hc1, _, _, hp, hk, hv⟩ := rewrite_spec st t hr.core (hr.tasks t List.mem_cons_self)
      rw [h1] at h; simp only at h
      have hin : ∀ x, t.addr ≤ x ∧ x < t.addr + t.len → view st1 x = im.get x := by
        intro x hx
        rw [hv x, if_pos hx]
        have := hr.fin t List.mem_cons_self (x - t.addr) (by omega)
        rw [show t.addr + (x - t.addr) = x by omega] at this
        exact this.symm
      refine ih st1 ⟨hc1, fun x hx => hk x (hr.tasks x (List.mem_cons_of_mem _ hx)), ?_,
        fun x hlt => ?_, fun x hlt hx => ?_, fun x hx => hr.fin x (List.mem_cons_of_mem _ hx)⟩ h
      · have := hr.cur; unfold CurOk at *; rw [hp]; exact this
      · by_cases hx : t.addr ≤ x ∧ x < t.addr + t.len
        · rw [hin x hx]
        · rw [hv x, if_neg hx]; exact hr.dom x hlt
      · by_cases hx' : t.addr ≤ x ∧ x < t.addr + t.len
        · exact hin x hx'
        · rw [hv x, if_neg hx']
          apply hr.agree x hlt
          intro t' ht'
          rcases List.mem_cons.mp ht' with rfl | ht'
          · exact hx'
          · exact hx t' ht'
    · cases h

/-- without any side condition: the image of a successful run is the `pass2` image restricted to the
address space -/
theorem run_pass2_below (p : List Stmt) (img : Img) (h : run p = .ok img) (hwf : ∀ s ∈ p, s.wf = true) :
    ∃ img', pass2 none [] p = some img' ∧ (∀ a, a < top → img.get a = img'.get a) ∧
      (∀ a, top ≤ a → img.get a = none) := by
  obtain ⟨st, st1, st2, hs, hr, hc, rfl⟩ := run_ok p img h
  obtain ⟨im', e1, r1, _⟩ := steps_rel2 p {} st none [] rel2_init hwf hs
  have r1' : Rel2 { st with tasks := [] } st.tasks (cursorAfter none p) im' := r1.congr rfl rfl
  obtain ⟨hc1, hv⟩ := runTasks_rel2 st.tasks _ st1 _ im' r1' hr
  obtain ⟨st2', h2, hc2, _, _, _, hg, _⟩ := closeSeg_spec st1 hc1
  rw [hc] at h2; cases h2
  refine ⟨im', e1, fun a hlt => by rw [hg a, hv a hlt], fun a hge => ?_⟩
  cases hga : st2.closed.get a with
  | none => rfl
  | some v =>
    have := hc2.1 a (by unfold Img.has; rw [hga]; rfl)
    omega


theorem tail_rel2 (st st1 st2 : State) (c : Option Nat) (im : Img) (hr : Rel2 st st.tasks c im)
    (h1 : runTasks { st with tasks := [] } st.tasks = .ok st1) (h2 : closeSeg st1 = .ok st2) :
    ∀ a, a < top → st2.closed.get a = im.get a := by
  have r1' : Rel2 { st with tasks := [] } st.tasks c im := hr.congr rfl rfl
  obtain ⟨hc1, hv⟩ := runTasks_rel2 st.tasks _ st1 _ im r1' h1
  obtain ⟨st2', h2', _, _, _, _, hg, _⟩ := closeSeg_spec st1 hc1
  rw [h2] at h2'; cases h2'
  exact fun a hlt => by rw [hg a, hv a hlt]

/-- without any side condition: every data statement's bytes stand at its reference address in the image -/
theorem data_in_image (p q r : List Stmt) (s : Stmt) (img : Img) (h : run p = .ok img)
    (hwf : ∀ s ∈ p, s.wf = true) (hp : p = q ++ s :: r) (hs : s.data = true) :
    ∃ c, cursorAfter none q = some c ∧ ∀ i, i < (bytes c s).length → img.get (c + i) = (bytes c s)[i]? := by
  subst hp
  obtain ⟨st, st1, st2, hst, hrt, hcs, rfl⟩ := run_ok _ img h
  obtain ⟨sa, ha, hb⟩ := steps_append q (s :: r) {} st hst
  simp only [steps] at hb
  cases hstep : step sa s with
  | error e => rw [hstep] at hb; cases hb
  | ok sb =>
    rw [hstep] at hb; simp only at hb
    obtain ⟨im1, e1, r1, _⟩ := steps_rel2 q {} sa none [] rel2_init
      (fun x hx => hwf x (List.mem_append_left _ hx)) ha
    have hsome : sa.active.isSome = true := by
      have := (step_shape sa sb s ⟨r1.core, r1.tasks⟩ hstep).1
      cases s <;> first | exact this | cases hs
    cases hc : cursorAfter none q with
    | none =>
      have hcur := r1.cur; rw [hc] at hcur
      rcases hcur with h0 | ⟨_, y, h0, _⟩
      · unfold pos at h0
        cases hact : sa.active with
        | none => rw [hact] at hsome; cases hsome
        | some a => rw [hact] at h0; cases h0
      · cases h0
    | some c =>
      rw [hc] at r1
      obtain ⟨im2, e2, r2, _, b2⟩ := step_rel2 sa sb s (some c) im1 r1
        (hwf s (List.mem_append_right _ List.mem_cons_self)) hstep
      obtain ⟨im3, e3, r3, m3⟩ := steps_rel2 r sb st (next (some c) s) im2 r2
        (fun x hx => hwf x (List.mem_append_right _ (List.mem_cons_of_mem _ hx))) hb
      have him2 : im2 = im1.put c (bytes c s) := by
        have := e2 []
        cases s with
        | raw bs => exact (Option.some.inj this).symm
        | emit len deps final => exact (Option.some.inj this).symm
        | align n => cases hs
        | addr a => cases hs
        | label n => cases hs
        | const n d v => cases hs
      refine ⟨c, rfl, fun i hi => ?_⟩
      have hb2 := b2 c rfl hs (by omega)
      have h2 : im2.get (c + i) = (bytes c s)[i]? := by
        rw [him2, get_put_inside _ _ _ _ (by omega) (by omega)]
        congr 1; omega
      rw [tail_rel2 st st1 st2 _ im3 r3 hrt hcs (c + i) (by omega),
        m3 (c + i) (by omega) (by rw [h2, isSome_getElem?]; simpa using hi), h2]


/-- the machine's symbol table is the reference's; only labels at 2^32 must be excluded -/
theorem steps_env2 (p : List Stmt) (st st' : State) (c : Option Nat) (im : Img)
    (hr : Rel2 st st.tasks c im) (hwf : ∀ s ∈ p, s.wf = true)
    (hl : ∀ x n, (some x, Stmt.label n) ∈ trace c p → x < top)
    (h : steps st p = .ok st') : pass1 c st.env p = some st'.env := by
  induction p generalizing st c im with
  | nil => simp only [steps] at h; cases h; rfl
  | cons s r ih =>
    simp only [steps] at h
    cases hs : step st s with
    | error err => rw [hs] at h; cases h
    | ok st1 =>
      rw [hs] at h; simp only at h
      obtain ⟨im1, _, r1, _⟩ := step_rel2 st st1 s c im hr (hwf s List.mem_cons_self) hs
      have ih' := ih st1 (next c s) im1 r1 (fun x hx => hwf x (List.mem_cons_of_mem _ hx))
        (fun x n hx => hl x n (List.mem_cons_of_mem _ hx)) h
      obtain ⟨sh1, _, sh3⟩ := step_shape st st1 s ⟨hr.core, hr.tasks⟩ hs
      have hcs : st.active.isSome = true → ∃ x, c = some x := by
        intro hsome
        cases hact : st.active with
        | none => rw [hact] at hsome; cases hsome
        | some a => obtain ⟨y, hy, _⟩ := hr.cursor hact; exact ⟨y, hy⟩
      cases s with
      | addr a => simp only at sh3; rw [← sh3]; exact ih'
      | label n =>
        simp only at sh3
        obtain ⟨a, hact, hn, he⟩ := sh3
        obtain ⟨y, hc, hy⟩ := hr.cursor hact
        have hx : y < top := hl _ n (by rw [hc]; exact List.mem_cons_self)
        have hxy : a.base + a.buf.length = y := by omega
        rw [he, curr_eq a (by omega), hxy] at ih'
        rw [hc]
        simp only [pass1, hn, if_pos hx]
        rw [hc] at ih'
        exact ih'
      | const n d v =>
        simp only at sh3
        obtain ⟨hn, he⟩ := sh3
        rw [he] at ih'
        simp only [pass1, hn]
        exact ih'
      | raw bs =>
        simp only at sh1 sh3
        obtain ⟨x, rfl⟩ := hcs sh1
        rw [sh3] at ih'; exact ih'
      | emit len deps final =>
        simp only at sh1 sh3
        obtain ⟨x, rfl⟩ := hcs sh1
        rw [sh3] at ih'; exact ih'
      | align n =>
        simp only at sh1 sh3
        obtain ⟨x, rfl⟩ := hcs sh1
        rw [sh3] at ih'; exact ih'

end Trion.Layout
