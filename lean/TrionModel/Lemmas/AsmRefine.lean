import TrionModel.Lemmas.AsmAbs
import TrionModel.Lemmas.LayoutCor
import TrionModel.Props.C08Asm
/-!
# Helper lemmas for the statement-by-statement simulation of `Asm` by the layout core
-/
namespace Trion.Asm
open Trion Trion.SegLayout

/-! ## the evaluator handed to the front end -/

theorem frontEval_complete_inv {t : Table} {a a' : Arg} (h : frontEval t a = .complete a') : evalIn t a = .ok (.complete a') := by
  obtain ⟨ev, hev⟩ := evalIn_ok t a
  rw [hev]
  simp only [frontEval, hev] at h
  cases ev with
  | complete x => cases h; rfl
  | deferred c x => cases h
  | noSuch n x => cases h
  | err e x => cases e <;> cases h

theorem evalIn_err_not_noSuch {t : Table} {a x : Arg} {n : Bytes} : evalIn t a ≠ .ok (.err (.noSuch n) x) := by
  unfold evalIn
  cases he : Simp.evaluateE (fun n => t.get n) Front.isRegister a with
  | ok ev y => simp only; split <;> simp
  | nosuch m y => simp
  | err e2 y => cases e2 <;> simp [evalE]
  | panic => simp

theorem frontEval_noSuch {t : Table} {a a₁ : Arg} {n : Bytes} (h : frontEval t a = .noSuchVariable n a₁) :
    evalIn t a = .ok (.noSuch n a₁) := by
  obtain ⟨ev, hev⟩ := evalIn_ok t a
  rw [hev]
  simp only [frontEval, hev] at h
  cases ev with
  | complete x => cases h
  | deferred c x => cases h
  | noSuch m x => cases h; rfl
  | err e x =>
    cases e with
    | noSuch m => exact absurd hev evalIn_err_not_noSuch
    | badType k o => cases h
    | overflow k => cases h

theorem frontEval_not_deferred {t : Table} (hn : Table.NoDef t) (a : Arg) (c : Bytes) (x : Arg) :
    frontEval t a ≠ .deferred c x := by
  intro h
  obtain ⟨ev, hev⟩ := evalIn_ok t a
  simp only [frontEval, hev] at h
  cases ev with
  | complete y => cases h
  | deferred c' y => exact evalIn_not_deferred hn a c' y hev
  | noSuch n y => cases h
  | err e y => cases e <;> cases h

/-! ## which operands an instruction statement has evaluated -/

theorem evalArg_ok_cases {e : Arg → Front.EvalOut} {l : Bool} {pos done : Nat} {a a' : Arg} {d' : Nat}
    (h : Front.evalArg e l pos done a = .ok (a', d')) (hd : done ≤ pos) : e a = .complete a' ∧ d' = pos + 1 := by
  unfold Front.evalArg at h
  simp only [hd, if_true] at h
  cases he : e a with
  | complete x => rw [he] at h; cases h; exact ⟨rfl, rfl⟩
  | deferred c x => rw [he] at h; cases h
  | noSuchVariable n x => rw [he] at h; simp only at h; split at h <;> cases h
  | error er x => rw [he] at h; cases h

/-- a completed conversion has found every identifier of the evaluated operands -/
theorem conv_ok_deps (t : Table) (l : Bool) : ∀ (ks : List Front.Kind) (pos : Nat) (pre rest : List Arg) (done : Nat)
    (instr : Instr) (vals : List Front.Val) (A : List Arg) (D : Nat) (I : Instr) (V : List Front.Val),
    Front.conv (frontEval t) l ks pos pre rest done instr vals = .ok A D I V → done ≤ pos →
    ∀ s ∈ instrDeps ks rest, t.find s ≠ none := by
  intro ks
  induction ks with
  | nil => intro pos pre rest done instr vals A D I V _ _ s hs; simp [instrDeps] at hs
  | cons k ks ih =>
    intro pos pre rest done instr vals A D I V h hd s hs
    cases rest with
    | nil => simp [instrDeps] at hs
    | cons a rest =>
      simp only [Front.conv] at h
      cases hg : Front.get k (frontEval t) l pos done a with
      | stop a' d' r => rw [hg] at h; cases h
      | ok v a' d' =>
        rw [hg] at h
        simp only at h
        simp only [instrDeps, List.mem_append] at hs
        cases hk : k.evals with
        | false =>
          obtain ⟨_, h2, _⟩ := (Front.get_nonevals hk).1 _ _ _ hg
          rcases hs with hs | hs
          · simp [hk] at hs
          · exact ih _ _ _ _ _ _ _ _ _ _ h (by omega) s hs
        | true =>
          rw [Front.get_eq_post k hk] at hg
          cases he : Front.evalArg (frontEval t) l pos done a with
          | error p => rw [he] at hg; cases hg
          | ok p =>
            obtain ⟨x, d⟩ := p
            rw [he] at hg
            simp only at hg
            obtain ⟨p1, p2, _⟩ := Front.post_ok hg
            subst p1; subst p2
            obtain ⟨q1, q2⟩ := evalArg_ok_cases he hd
            rcases hs with hs | hs
            · simp only [hk, if_true] at hs
              exact evalIn_complete_idents (frontEval_complete_inv q1) s hs
            · exact ih _ _ _ _ _ _ _ _ _ _ h (by omega) s hs

/-- a conversion that stops with `Deferred{cause}` has met `cause` in an evaluated operand, and the table lacks it -/
theorem conv_deferred_deps (t : Table) (hn : Table.NoDef t) : ∀ (ks : List Front.Kind) (pos : Nat) (pre rest : List Arg)
    (done : Nat) (instr : Instr) (vals : List Front.Val) (A : List Arg) (D : Nat) (I : Instr) (c : Bytes),
    Front.conv (frontEval t) true ks pos pre rest done instr vals = .stop A D I (.deferred c) →
    c ∈ instrDeps ks rest ∧ t.find c = none := by
  intro ks
  induction ks with
  | nil => intro pos pre rest done instr vals A D I c h; simp [Front.conv] at h
  | cons k ks ih =>
    intro pos pre rest done instr vals A D I c h
    cases rest with
    | nil => simp only [Front.conv] at h; cases h
    | cons a rest =>
      simp only [Front.conv] at h
      simp only [instrDeps, List.mem_append]
      cases hg : Front.get k (frontEval t) true pos done a with
      | ok v a' d' =>
        rw [hg] at h
        obtain ⟨h1, h2⟩ := ih _ _ _ _ _ _ _ _ _ _ h
        exact ⟨.inr h1, h2⟩
      | stop a' d' r =>
        rw [hg] at h
        simp only [Front.ConvOut.stop.injEq] at h
        obtain ⟨_, _, _, h4⟩ := h
        subst h4
        cases hk : k.evals with
        | false => exact absurd hg ((Front.get_nonevals hk).2 _ _ _)
        | true =>
          rw [Front.get_eq_post k hk] at hg
          cases he : Front.evalArg (frontEval t) true pos done a with
          | ok p => obtain ⟨x, d⟩ := p; rw [he] at hg; exact absurd hg Front.post_not_deferred
          | error p =>
            obtain ⟨x, r⟩ := p
            rw [he] at hg
            simp only [Front.GetOut.stop.injEq] at hg
            obtain ⟨_, _, h3⟩ := hg
            subst h3
            unfold Front.evalArg at he
            split at he
            · cases hf : frontEval t a with
              | complete y => rw [hf] at he; cases he
              | deferred c' y => exact absurd hf (frontEval_not_deferred hn a c' y)
              | noSuchVariable n y =>
                rw [hf] at he
                simp only [if_true, Except.error.injEq, Prod.mk.injEq, Front.Res.deferred.injEq] at he
                obtain ⟨_, he2⟩ := he
                subst he2
                obtain ⟨i1, i2⟩ := evalIn_noSuch_idents (frontEval_noSuch hf)
                exact ⟨.inl (by simp [hk, i1]), i2⟩
              | error er y => rw [hf] at he; cases he
            · cases he

/-- a completed first attempt gives the same instruction over every larger table -/
theorem conv_ok_grows (e₁ e₂ : Arg → Front.EvalOut) (loc : Bool) : ∀ (ks : List Front.Kind) (pos : Nat) (pre rest : List Arg)
    (done : Nat) (instr : Instr) (vals : List Front.Val) (A : List Arg) (D : Nat) (I : Instr) (V : List Front.Val),
    (∀ a ∈ rest, Front.Grows e₁ e₂ a) →
    Front.conv e₁ true ks pos pre rest done instr vals = .ok A D I V →
    Front.conv e₂ loc ks pos pre rest done instr vals = .ok A D I V := by
  intro ks
  induction ks with
  | nil => intro pos pre rest done instr vals A D I V _ h; simpa [Front.conv] using h
  | cons k ks ih =>
    intro pos pre rest done instr vals A D I V hgr h
    cases rest with
    | nil => simp [Front.conv] at h
    | cons a rest =>
      simp only [Front.conv] at h ⊢
      cases hg : Front.get k e₁ true pos done a with
      | ok v a' d' =>
        rw [hg] at h
        rw [(Front.get_ok_grows (hgr a List.mem_cons_self) hg loc).1]
        exact ih _ _ _ _ _ _ _ _ _ _ (fun x hx => hgr x (List.mem_cons_of_mem _ hx)) h
      | stop a' d' r => rw [hg] at h; cases h

theorem assemble_mono {e₁ e₂ : Arg → Front.EvalOut} {st fs2 : Front.St} (hgr : ∀ a ∈ st.args, Front.Grows e₁ e₂ a)
    (h : Front.assemble st e₁ true = (fs2, .completed)) (loc : Bool) : Front.assemble st e₂ loc = (fs2, .completed) := by
  unfold Front.assemble at h ⊢
  simp only at h ⊢
  split
  · rename_i c; rw [if_pos c] at h; cases h
  · rename_i c
    rw [if_neg c] at h
    split
    · rename_i c2; rw [if_pos c2] at h; cases h
    · rename_i c2
      rw [if_neg c2] at h
      cases hc : Front.conv e₁ true (Front.kinds st.instr) 0 [] st.args st.argsDone st.instr [] with
      | stop A D I r =>
        rw [hc] at h; simp only [Prod.mk.injEq] at h
        obtain ⟨_, h2⟩ := h
        subst h2
        exact absurd hc (conv_stop_not_completed e₁ true _ _ _ _ _ _ _ _ _ _)
      | ok A D I V => rw [hc] at h; rw [conv_ok_grows e₁ e₂ loc _ _ _ _ _ _ _ _ _ _ _ hgr hc]; exact h

/-! ## tables and the environment of the layout core -/

theorem val_set (t : Table) (n m : Bytes) (v : Int) :
    (t.set n (some v)).val m = if n = m then some v else t.val m := by
  unfold Table.val
  rw [find_set]
  by_cases h : n = m <;> simp [h]

theorem val_some_of_find {t : Table} (hn : Table.NoDef t) {n : Bytes} (h : t.find n ≠ none) : (t.val n).isSome = true := by
  unfold Table.val
  cases hf : t.find n with
  | none => exact absurd hf h
  | some o =>
    cases o with
    | none => exact absurd hf (hn n)
    | some v => rfl

theorem val_none_of_find {t : Table} {n : Bytes} (h : t.find n = none) : t.val n = none := by
  unfold Table.val; rw [h]

theorem hasAll_map {num : Bytes → Nat} {t : Table} {e : Layout.Env} (hr : EnvRel num t e) (deps : List Bytes) :
    e.hasAll (deps.map num) = deps.all fun n => (t.val n).isSome := by
  unfold Layout.Env.hasAll
  rw [List.all_map]
  congr 1
  funext n
  simp [hr n]

theorem hasAll_of_known {num : Bytes → Nat} {t : Table} {e : Layout.Env} (hr : EnvRel num t e) (hn : Table.NoDef t)
    {deps : List Bytes} (h : ∀ s ∈ deps, t.find s ≠ none) : e.hasAll (deps.map num) = true := by
  rw [hasAll_map hr, List.all_eq_true]
  exact fun s hs => val_some_of_find hn (h s hs)

theorem not_hasAll_of_unknown {num : Bytes → Nat} {t : Table} {e : Layout.Env} (hr : EnvRel num t e)
    {deps : List Bytes} {c : Bytes} (hc : c ∈ deps) (hf : t.find c = none) : e.hasAll (deps.map num) = false := by
  rw [hasAll_map hr, List.all_eq_false]
  exact ⟨c, hc, by simp [val_none_of_find hf]⟩

theorem Table.sub_set {t : Table} {n : Bytes} (h : t.find n = none) (v : Int) : Table.Sub t (t.set n (some v)) := by
  intro m w hm
  rw [find_set]
  by_cases e : n = m
  · subst e; rw [h] at hm; cases hm
  · rw [if_neg e]; exact hm

theorem Table.nodef_set {t : Table} (hn : Table.NoDef t) (n : Bytes) (v : Int) : Table.NoDef (t.set n (some v)) := by
  intro m
  rw [find_set]
  by_cases e : n = m
  · rw [if_pos e]; simp
  · rw [if_neg e]; exact hn m

theorem envRel_insert {num : Bytes → Nat} (hinj : Function.Injective num) {t : Table} {e : Layout.Env}
    (hr : EnvRel num t e) (n : Bytes) (v : Int) : EnvRel num (t.set n (some v)) ((num n, v) :: e) := by
  intro m
  rw [val_set]
  simp only [Layout.Env.get]
  by_cases h : n = m
  · subst h; simp
  · have : num n ≠ num m := fun hh => h (hinj hh)
    rw [if_neg this, if_neg h]
    exact hr m

/-! ## the region operations -/

theorem active_of_sim {s : Seg.State} {l : Layout.State} (r : R s l) {seg : Seg.Active} (ha : s.active = some seg) :
    l.active = some (toL seg) := by rw [r.2, ha]; rfl

theorem active_none_of_sim {s : Seg.State} {l : Layout.State} (r : R s l) (ha : s.active = none) :
    l.active = none := by rw [r.2, ha]; rfl

/-- an append / first write that did not end in a diagnostic, on both machines -/
theorem write_sim {s : Seg.State} {l : Layout.State} (inv : Seg.Inv s) (r : R s l) {seg : Seg.Active}
    (ha : s.active = some seg) (d : Bytes) (op : Seg.Op) (hop : op = .append d ∨ op = .place d) {s' : Seg.State}
    {o : Seg.Out} (h : segStep s op = .ok (s', o)) (hnd : ∀ e, o ≠ .diag e) :
    s'.active = some { seg with buf := seg.buf ++ d } ∧ seg.buf.length + d.length ≤ seg.maxLen ∧
    Layout.append l d = .ok { l with active := some (toL { seg with buf := seg.buf ++ d }) } ∧
    R s' { l with active := some (toL { seg with buf := seg.buf ++ d }) } := by
  have ok := inv.2.1 seg ha
  unfold segStep at h
  rcases Seg.write_spec ok d with ⟨f1, f2⟩ | ⟨_, f2⟩
  · obtain ⟨a1, a2⟩ := append_sim inv r d ha f1
    rcases hop with rfl | rfl
    · simp only [Seg.step, ha, f2] at h
      cases h
      exact ⟨rfl, f1, a1, a2⟩
    · simp only [Seg.step, ha, f2] at h
      cases h
      exact ⟨rfl, f1, a1, ⟨a2.1, rfl⟩⟩
  · rcases hop with rfl | rfl
    · simp only [Seg.step, ha, f2] at h
      cases h
      exact absurd rfl (hnd _)
    · simp only [Seg.step, ha, f2] at h
      cases h
      exact absurd rfl (hnd _)

/-- the saturated cursor is the true cursor whenever one more byte fits -/
theorem cur_true {m : Map.Segs} {seg : Seg.Active} (ok : Seg.ActiveOk m seg) {n : Nat} (hn : 0 < n)
    (hfit : seg.buf.length + n ≤ seg.maxLen) : seg.cur = seg.base + seg.buf.length := by
  obtain ⟨_, a2, _, _⟩ := ok
  unfold Seg.Active.cur Map.u32Max
  omega

/-! ## value statements of the layout core -/

theorem step_value_direct {l : Layout.State} {s : Layout.Active} (ha : l.active = some s) (num : Bytes → Nat)
    (len : Nat) (deps : List Bytes) (final : Bytes) (hall : l.env.hasAll (deps.map num) = true) :
    Layout.step l (valueStmt num len deps final) = Layout.append l final := by
  unfold valueStmt
  split
  · rfl
  · simp only [Layout.step, ha, hall, if_true]

theorem step_value_defer {l : Layout.State} {s : Layout.Active} (ha : l.active = some s) (num : Bytes → Nat)
    (len : Nat) (deps : List Bytes) (final : Bytes) (hall : l.env.hasAll (deps.map num) = false) :
    Layout.step l (valueStmt num len deps final) =
      match Layout.append l (Layout.placeholder len) with
      | .error e => .error e
      | .ok st' => .ok { st' with tasks := st'.tasks ++ [{ addr := s.curr, len := len, deps := deps.map num, final := final }] } := by
  unfold valueStmt
  split
  · rename_i he
    have : deps = [] := List.isEmpty_iff.mp he
    subst this
    simp [Layout.Env.hasAll] at hall
  · simp only [Layout.step, ha, hall, Bool.false_eq_true, if_false]
    rfl

theorem next_value (c : Option Nat) (num : Bytes → Nat) (len : Nat) (deps : List Bytes) (final : Bytes)
    (hl : final.length = len) : Layout.Ref.next c (valueStmt num len deps final) = c.map fun x => x + len := by
  unfold valueStmt
  split
  · simp [Layout.Ref.next, hl]
  · rfl

end Trion.Asm
