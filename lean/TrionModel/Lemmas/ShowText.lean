import TrionModel.Lemmas.Front
/-! # `Show.text i a = Show.render (Show.parts i a)` — the printed text is the concrete syntax of the denoted statement -/
namespace Trion.Show
open Trion.Front
set_option maxRecDepth 8000

theorem regSetLoop_render (bits : Nat) : ∀ (fuel i : Nat) (first : Bool),
    regSetLoop bits fuel i first = renderArgs (Args.ofList ((regSetList bits fuel i).map rA)) first := by
  intro fuel
  induction fuel with
  | zero => intro i first; simp [regSetLoop, regSetList, Args.ofList, renderArgs]
  | succ fuel ih =>
    intro i first
    unfold regSetLoop regSetList
    by_cases hb : bits / 2 ^ i % 2 ≠ 0
    · rw [if_pos hb, if_pos hb]
      simp [Args.ofList, renderArgs, renderArg, rA, ih]
    · rw [if_neg hb, if_neg hb]
      exact ih _ _

theorem immReg_render (r : ImmReg) : immRegText r = renderArg (irA r) := by
  cases r <;> simp [immRegText, irA, renderArg, rA]

theorem text_eq_render_proof (i : Instr) (a : Nat) : text i a = render (parts i a) := by
  have h0 : intDec 0 = bytesOf "0" := by decide
  cases i
  case cps e => cases e <;> (simp only [text, parts]; decide)
  case dmb => simp only [text, parts]; decide
  case dsb => simp only [text, parts]; decide
  case isb => simp only [text, parts]; decide
  case nop => simp only [text, parts]; decide
  case sev => simp only [text, parts]; decide
  case wfe => simp only [text, parts]; decide
  case wfi => simp only [text, parts]; decide
  case yield => simp only [text, parts]; decide
  case ldr d ad o =>
    cases o with
    | reg r => simp [text, parts, render, renderArgs, renderArg, Args.ofList, rA, irA, memA, immRegText, opText, mem, List.append_assoc]
    | imm v =>
      by_cases h15 : ad.val = 15
      · simp [text, parts, render, renderArgs, renderArg, Args.ofList, rA, lblA, h15, two, List.append_assoc]
      · simp [text, parts, render, renderArgs, renderArg, Args.ofList, rA, irA, memA, immRegText, opText, mem, h15, List.append_assoc]
  all_goals
    simp [text, parts, render, renderArgs, renderArg, Args.ofList, rA, irA, memA, lblA, rsA, immReg_render, opText,
      two, three, one, mem, regSetText, regSetLoop_render, h0, List.append_assoc]
end Trion.Show
