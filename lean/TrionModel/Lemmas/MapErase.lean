import TrionModel.Lemmas.MapFind
/-!
# Memory map: `remove` deletes exactly the maximal run containing the address
-/
namespace Trion.Map
open Trion.Dict

theorem eraseIdx_spec {lo : Nat} {ps : Segs} (ok : Ok lo ps) {j : Nat} {s : Seg} (h : ps[j]? = some s) :
    Ok lo (ps.eraseIdx j) ∧
    ∀ k, abs (ps.eraseIdx j) k = if s.1 ≤ k ∧ k < s.1 + s.2.length then none else abs ps k := by
  induction ps generalizing lo j with
  | nil => simp at h
  | cons t r ih =>
    obtain ⟨f, x⟩ := t
    obtain ⟨o1, o2, o3, o4⟩ := ok
    cases j with
    | zero =>
      simp only [List.getElem?_cons_zero, Option.some.injEq] at h
      subst h
      refine ⟨Ok_mono (by omega) o4, fun k => ?_⟩
      simp only [List.eraseIdx_zero, List.tail_cons]
      by_cases c : f ≤ k ∧ k < f + x.length
      · rw [if_pos c]; exact abs_none_of_lt o4 (by omega)
      · rw [if_neg c, abs_cons, if_neg c]
    | succ j =>
      simp only [List.getElem?_cons_succ] at h
      have hlb := Ok_lb o4 h
      obtain ⟨i1, i2⟩ := ih o4 h
      refine ⟨⟨o1, o2, o3, i1⟩, fun k => ?_⟩
      simp only [List.eraseIdx_cons_succ]
      rw [abs_cons, abs_cons, i2]
      by_cases c : f ≤ k ∧ k < f + x.length
      · rw [if_pos c, if_pos c, if_neg (by omega)]
      · rw [if_neg c, if_neg c]

theorem connected_iff (D : Dict) (a k : Nat) :
    connected D a k = true ↔ ∀ j, min a k ≤ j → j ≤ max a k → (D j).isSome = true := by
  unfold connected
  rw [List.all_eq_true]
  constructor
  · intro h j h1 h2
    have := h (j - min a k) (List.mem_range.mpr (by omega))
    rwa [show min a k + (j - min a k) = j by omega] at this
  · intro h x hx
    exact h _ (by omega) (by have := List.mem_range.mp hx; omega)

/-- inside a maximal run `[f, f+n)`, "connected to `a`" means "in the run" -/
theorem connected_run (D : Dict) (f n a : Nat) (ha : f ≤ a ∧ a < f + n)
    (hin : ∀ k, f ≤ k → k < f + n → (D k).isSome = true) (hend : D (f + n) = none)
    (hbeg : ∀ k, k + 1 = f → D k = none) (k : Nat) :
    connected D a k = true ↔ (f ≤ k ∧ k < f + n) := by
  rw [connected_iff]
  constructor
  · intro h
    refine ⟨?_, ?_⟩
    · apply Classical.byContradiction; intro c
      have := h (f - 1) (by omega) (by omega)
      rw [hbeg (f - 1) (by omega)] at this; simp at this
    · apply Classical.byContradiction; intro c
      have := h (f + n) (by omega) (by omega)
      rw [hend] at this; simp at this
  · intro h j h1 h2
    exact hin j (by omega) (by omega)

theorem connected_none (D : Dict) (a k : Nat) (h : D a = none) : connected D a k = false := by
  cases hc : connected D a k with
  | false => rfl
  | true =>
    have := (connected_iff D a k).mp hc a (by omega) (by omega)
    rw [h] at this; simp at this

theorem remove_spec {lo : Nat} {ps : Segs} (ok : Ok lo ps) (a : Nat) :
    Ok lo (remove ps a).2 ∧ abs (remove ps a).2 = Dict.remove (abs ps) a ∧
    (((remove ps a).1 = .ok none ∧ abs ps a = none) ∨
     (∃ f d, (remove ps a).1 = .ok (some ((f, f + d.length - 1), d)) ∧ d ≠ [] ∧ f ≤ a ∧ a < f + d.length ∧
        (∀ k, f ≤ k → k < f + d.length → abs ps k = d[k - f]?) ∧ abs ps (f + d.length) = none ∧
        (∀ k, k + 1 = f → abs ps k = none))) := by
  rcases find_exact_spec ok a with ⟨hl, _, h2⟩ | ⟨j, s, h1, h2, _, h4, h5⟩
  · unfold remove; rw [hl]
    refine ⟨ok, ?_, Or.inl ⟨rfl, h2⟩⟩
    funext k
    simp only [Dict.remove, connected_none _ a k h2, Bool.false_eq_true, if_false]
  · obtain ⟨a1, a2, a3, a4, a5⟩ := abs_of_idx ok h1
    obtain ⟨e1, e2⟩ := eraseIdx_spec ok h1
    unfold remove; rw [h2]; simp only [h1]
    refine ⟨e1, ?_, Or.inr ⟨s.1, s.2, rfl, a4, h4, h5, a1, a2, a3⟩⟩
    funext k
    rw [e2]
    have hc := connected_run (abs ps) s.1 s.2.length a ⟨h4, h5⟩
      (fun k h1 h2 => by rw [a1 k h1 h2, List.getElem?_eq_getElem (by omega)]; rfl) a2 a3 k
    simp only [Dict.remove]
    by_cases c : s.1 ≤ k ∧ k < s.1 + s.2.length
    · rw [if_pos c, if_pos (hc.mpr c)]
    · rw [if_neg c]
      have : connected (abs ps) a k = false := by
        cases hh : connected (abs ps) a k with
        | false => rfl
        | true => exact absurd (hc.mp hh) c
      rw [this]; simp

end Trion.Map
