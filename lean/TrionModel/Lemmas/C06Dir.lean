import TrionModel.Lemmas.C06Inv
/-!
# Directive dispatch and the statement-level facts behind `Props/C06Invalid.lean`
-/
namespace Trion.C04
open Trion Trion.Asm Trion.Front

theorem directive_addr (fs : Bytes → Option Bytes) (inc : Asm.Inc) (env : Asm.Env) (st : Asm.St) (l c : Nat) (args : List Arg) :
    Asm.directive fs inc env st l c (bytesOf "addr") args = Asm.addrDirective env st l c args := by
  simp only [Asm.directive, if_false, if_true]

theorem directive_align (fs : Bytes → Option Bytes) (inc : Asm.Inc) (env : Asm.Env) (st : Asm.St) (l c : Nat) (args : List Arg) :
    Asm.directive fs inc env st l c (bytesOf "align") args = Asm.alignDirective env st l c args := by
  simp only [Asm.directive, show ¬ (bytesOf "align" = bytesOf "addr") from by decide, if_false, if_true]

theorem directive_const (fs : Bytes → Option Bytes) (inc : Asm.Inc) (env : Asm.Env) (st : Asm.St) (l c : Nat) (args : List Arg) :
    Asm.directive fs inc env st l c (bytesOf "const") args = Asm.constDirective env st l c args := by
  simp only [Asm.directive, show ¬ (bytesOf "const" = bytesOf "addr") from by decide, show ¬ (bytesOf "const" = bytesOf "align") from by decide, if_false, if_true]

theorem directive_du8 (fs : Bytes → Option Bytes) (inc : Asm.Inc) (env : Asm.Env) (st : Asm.St) (l c : Nat) (args : List Arg) :
    Asm.directive fs inc env st l c (bytesOf "du8") args = Asm.duDirective .u8 env st l c args := by
  simp only [Asm.directive, show ¬ (bytesOf "du8" = bytesOf "addr") from by decide, show ¬ (bytesOf "du8" = bytesOf "align") from by decide, show ¬ (bytesOf "du8" = bytesOf "const") from by decide, if_false, if_true]

theorem directive_du16 (fs : Bytes → Option Bytes) (inc : Asm.Inc) (env : Asm.Env) (st : Asm.St) (l c : Nat) (args : List Arg) :
    Asm.directive fs inc env st l c (bytesOf "du16") args = Asm.duDirective .u16 env st l c args := by
  simp only [Asm.directive, show ¬ (bytesOf "du16" = bytesOf "addr") from by decide, show ¬ (bytesOf "du16" = bytesOf "align") from by decide, show ¬ (bytesOf "du16" = bytesOf "const") from by decide, show ¬ (bytesOf "du16" = bytesOf "du8") from by decide, if_false, if_true]

theorem directive_du32 (fs : Bytes → Option Bytes) (inc : Asm.Inc) (env : Asm.Env) (st : Asm.St) (l c : Nat) (args : List Arg) :
    Asm.directive fs inc env st l c (bytesOf "du32") args = Asm.duDirective .u32 env st l c args := by
  simp only [Asm.directive, show ¬ (bytesOf "du32" = bytesOf "addr") from by decide, show ¬ (bytesOf "du32" = bytesOf "align") from by decide, show ¬ (bytesOf "du32" = bytesOf "const") from by decide, show ¬ (bytesOf "du32" = bytesOf "du8") from by decide, show ¬ (bytesOf "du32" = bytesOf "du16") from by decide, if_false, if_true]

theorem directive_dhex (fs : Bytes → Option Bytes) (inc : Asm.Inc) (env : Asm.Env) (st : Asm.St) (l c : Nat) (args : List Arg) :
    Asm.directive fs inc env st l c (bytesOf "dhex") args = Asm.stringDirective fs "dhex" env st l c args := by
  simp only [Asm.directive, show ¬ (bytesOf "dhex" = bytesOf "addr") from by decide, show ¬ (bytesOf "dhex" = bytesOf "align") from by decide, show ¬ (bytesOf "dhex" = bytesOf "const") from by decide, show ¬ (bytesOf "dhex" = bytesOf "du8") from by decide, show ¬ (bytesOf "dhex" = bytesOf "du16") from by decide, show ¬ (bytesOf "dhex" = bytesOf "du32") from by decide, if_false, if_true]

theorem directive_dstr (fs : Bytes → Option Bytes) (inc : Asm.Inc) (env : Asm.Env) (st : Asm.St) (l c : Nat) (args : List Arg) :
    Asm.directive fs inc env st l c (bytesOf "dstr") args = Asm.stringDirective fs "dstr" env st l c args := by
  simp only [Asm.directive, show ¬ (bytesOf "dstr" = bytesOf "addr") from by decide, show ¬ (bytesOf "dstr" = bytesOf "align") from by decide, show ¬ (bytesOf "dstr" = bytesOf "const") from by decide, show ¬ (bytesOf "dstr" = bytesOf "du8") from by decide, show ¬ (bytesOf "dstr" = bytesOf "du16") from by decide, show ¬ (bytesOf "dstr" = bytesOf "du32") from by decide, show ¬ (bytesOf "dstr" = bytesOf "dhex") from by decide, if_false, if_true]

theorem directive_dfile (fs : Bytes → Option Bytes) (inc : Asm.Inc) (env : Asm.Env) (st : Asm.St) (l c : Nat) (args : List Arg) :
    Asm.directive fs inc env st l c (bytesOf "dfile") args = Asm.stringDirective fs "dfile" env st l c args := by
  simp only [Asm.directive, show ¬ (bytesOf "dfile" = bytesOf "addr") from by decide, show ¬ (bytesOf "dfile" = bytesOf "align") from by decide, show ¬ (bytesOf "dfile" = bytesOf "const") from by decide, show ¬ (bytesOf "dfile" = bytesOf "du8") from by decide, show ¬ (bytesOf "dfile" = bytesOf "du16") from by decide, show ¬ (bytesOf "dfile" = bytesOf "du32") from by decide, show ¬ (bytesOf "dfile" = bytesOf "dhex") from by decide, show ¬ (bytesOf "dfile" = bytesOf "dstr") from by decide, if_false, if_true]

theorem directive_global (fs : Bytes → Option Bytes) (inc : Asm.Inc) (env : Asm.Env) (st : Asm.St) (l c : Nat) (args : List Arg) :
    Asm.directive fs inc env st l c (bytesOf "global") args = Asm.globalDirective .global env st l c args := by
  simp only [Asm.directive, show ¬ (bytesOf "global" = bytesOf "addr") from by decide, show ¬ (bytesOf "global" = bytesOf "align") from by decide, show ¬ (bytesOf "global" = bytesOf "const") from by decide, show ¬ (bytesOf "global" = bytesOf "du8") from by decide, show ¬ (bytesOf "global" = bytesOf "du16") from by decide, show ¬ (bytesOf "global" = bytesOf "du32") from by decide, show ¬ (bytesOf "global" = bytesOf "dhex") from by decide, show ¬ (bytesOf "global" = bytesOf "dstr") from by decide, show ¬ (bytesOf "global" = bytesOf "dfile") from by decide, if_false, if_true]

theorem directive_import (fs : Bytes → Option Bytes) (inc : Asm.Inc) (env : Asm.Env) (st : Asm.St) (l c : Nat) (args : List Arg) :
    Asm.directive fs inc env st l c (bytesOf "import") args = Asm.globalDirective .import_ env st l c args := by
  simp only [Asm.directive, show ¬ (bytesOf "import" = bytesOf "addr") from by decide, show ¬ (bytesOf "import" = bytesOf "align") from by decide, show ¬ (bytesOf "import" = bytesOf "const") from by decide, show ¬ (bytesOf "import" = bytesOf "du8") from by decide, show ¬ (bytesOf "import" = bytesOf "du16") from by decide, show ¬ (bytesOf "import" = bytesOf "du32") from by decide, show ¬ (bytesOf "import" = bytesOf "dhex") from by decide, show ¬ (bytesOf "import" = bytesOf "dstr") from by decide, show ¬ (bytesOf "import" = bytesOf "dfile") from by decide, show ¬ (bytesOf "import" = bytesOf "global") from by decide, if_false, if_true]

theorem directive_export (fs : Bytes → Option Bytes) (inc : Asm.Inc) (env : Asm.Env) (st : Asm.St) (l c : Nat) (args : List Arg) :
    Asm.directive fs inc env st l c (bytesOf "export") args = Asm.globalDirective .export_ env st l c args := by
  simp only [Asm.directive, show ¬ (bytesOf "export" = bytesOf "addr") from by decide, show ¬ (bytesOf "export" = bytesOf "align") from by decide, show ¬ (bytesOf "export" = bytesOf "const") from by decide, show ¬ (bytesOf "export" = bytesOf "du8") from by decide, show ¬ (bytesOf "export" = bytesOf "du16") from by decide, show ¬ (bytesOf "export" = bytesOf "du32") from by decide, show ¬ (bytesOf "export" = bytesOf "dhex") from by decide, show ¬ (bytesOf "export" = bytesOf "dstr") from by decide, show ¬ (bytesOf "export" = bytesOf "dfile") from by decide, show ¬ (bytesOf "export" = bytesOf "global") from by decide, show ¬ (bytesOf "export" = bytesOf "import") from by decide, if_false, if_true]

theorem directive_include (fs : Bytes → Option Bytes) (inc : Asm.Inc) (env : Asm.Env) (st : Asm.St) (l c : Nat) (args : List Arg) :
    Asm.directive fs inc env st l c (bytesOf "include") args = Asm.includeDirective fs inc env st l c args := by
  simp only [Asm.directive, show ¬ (bytesOf "include" = bytesOf "addr") from by decide, show ¬ (bytesOf "include" = bytesOf "align") from by decide, show ¬ (bytesOf "include" = bytesOf "const") from by decide, show ¬ (bytesOf "include" = bytesOf "du8") from by decide, show ¬ (bytesOf "include" = bytesOf "du16") from by decide, show ¬ (bytesOf "include" = bytesOf "du32") from by decide, show ¬ (bytesOf "include" = bytesOf "dhex") from by decide, show ¬ (bytesOf "include" = bytesOf "dstr") from by decide, show ¬ (bytesOf "include" = bytesOf "dfile") from by decide, show ¬ (bytesOf "include" = bytesOf "global") from by decide, show ¬ (bytesOf "include" = bytesOf "import") from by decide, show ¬ (bytesOf "include" = bytesOf "export") from by decide, if_false, if_true]

/-- the directives, the name used in their diagnostics, their operand count, and whether they need an open region before
the operand count is looked at -/
def dirTable : List (Bytes × String × Nat × Bool) :=
  [(bytesOf "addr", "addr", 1, false), (bytesOf "align", "align", 1, true), (bytesOf "const", "const", 2, false),
   (bytesOf "du8", "du8", 1, true), (bytesOf "du16", "du16", 1, true), (bytesOf "du32", "du32", 1, true),
   (bytesOf "dhex", "dhex", 1, true), (bytesOf "dstr", "dstr", 1, true), (bytesOf "dfile", "dfile", 1, true),
   (bytesOf "global", "global", 1, false), (bytesOf "import", "import", 1, false), (bytesOf "export", "export", 1, false),
   (bytesOf "include", "include", 1, false)]

/-- the `DirectiveErrorKind` of a wrong operand count -/
def arityKind (dir : String) (need n : Nat) : Asm.Kind := if n < need then .dirNotEnough dir need n else .dirTooMany dir need n

theorem arity_ne {dir : String} {need n : Nat} (h : n ≠ need) : Asm.arity dir need n = some (arityKind dir need n) := by
  unfold Asm.arity arityKind
  rw [if_neg h]
  split <;> rfl

theorem active_some {st : Asm.St} (h : st.seg.active.isSome = true) : st.seg.active.isNone = false := by
  cases hh : st.seg.active <;> simp_all

/-- **wrong operand count, every directive** -/
theorem directive_arity (fs : Bytes → Option Bytes) (inc : Asm.Inc) (env : Asm.Env) (st : Asm.St) (l c : Nat)
    (name : Bytes) (dir : String) (need : Nat) (act : Bool) (hd : (name, dir, need, act) ∈ dirTable) (args : List Arg)
    (hn : args.length ≠ need) (ha : act = true → st.seg.active.isSome = true) :
    Asm.directive fs inc env st l c name args = .ok (st.push env l c (arityKind dir need args.length), .err .trivial) := by
  simp only [dirTable, List.mem_cons, Prod.mk.injEq, List.not_mem_nil, or_false] at hd
  rcases hd with ⟨rfl, rfl, rfl, rfl⟩ | ⟨rfl, rfl, rfl, rfl⟩ | ⟨rfl, rfl, rfl, rfl⟩ | ⟨rfl, rfl, rfl, rfl⟩ | ⟨rfl, rfl, rfl, rfl⟩ |
    ⟨rfl, rfl, rfl, rfl⟩ | ⟨rfl, rfl, rfl, rfl⟩ | ⟨rfl, rfl, rfl, rfl⟩ | ⟨rfl, rfl, rfl, rfl⟩ | ⟨rfl, rfl, rfl, rfl⟩ |
    ⟨rfl, rfl, rfl, rfl⟩ | ⟨rfl, rfl, rfl, rfl⟩ | ⟨rfl, rfl, rfl, rfl⟩
  · rw [directive_addr]; simp only [Asm.addrDirective, arity_ne hn]
  · rw [directive_align]; simp only [Asm.alignDirective, active_some (ha rfl), Bool.false_eq_true, if_false, arity_ne hn]
  · rw [directive_const]; simp only [Asm.constDirective, arity_ne hn]
  · rw [directive_du8]
    have := ha rfl
    cases hc : st.seg.active with
    | none => simp [hc] at this
    | some seg => simp only [Asm.duDirective, Asm.currAddr, hc, Option.map_some, Asm.DU.name, arity_ne hn]
  · rw [directive_du16]
    have := ha rfl
    cases hc : st.seg.active with
    | none => simp [hc] at this
    | some seg => simp only [Asm.duDirective, Asm.currAddr, hc, Option.map_some, Asm.DU.name, arity_ne hn]
  · rw [directive_du32]
    have := ha rfl
    cases hc : st.seg.active with
    | none => simp [hc] at this
    | some seg => simp only [Asm.duDirective, Asm.currAddr, hc, Option.map_some, Asm.DU.name, arity_ne hn]
  · rw [directive_dhex]; simp only [Asm.stringDirective, active_some (ha rfl), Bool.false_eq_true, if_false, arity_ne hn]
  · rw [directive_dstr]; simp only [Asm.stringDirective, active_some (ha rfl), Bool.false_eq_true, if_false, arity_ne hn]
  · rw [directive_dfile]; simp only [Asm.stringDirective, active_some (ha rfl), Bool.false_eq_true, if_false, arity_ne hn]
  · rw [directive_global]; simp only [Asm.globalDirective, Asm.GDir.name, arity_ne hn]
  · rw [directive_import]; simp only [Asm.globalDirective, Asm.GDir.name, arity_ne hn]
  · rw [directive_export]; simp only [Asm.globalDirective, Asm.GDir.name, arity_ne hn]
  · rw [directive_include]; simp only [Asm.includeDirective, arity_ne hn]

/-- **unknown directive** -/
theorem directive_unknown (fs : Bytes → Option Bytes) (inc : Asm.Inc) (env : Asm.Env) (st : Asm.St) (l c : Nat)
    (name : Bytes) (hn : ∀ p ∈ dirTable, p.1 ≠ name) (args : List Arg) :
    Asm.directive fs inc env st l c name args = .ok (st.push env l c (.dirNotFound name), .err .fatal) := by
  have h : ∀ (s : String) (n : Nat) (b : Bool), (bytesOf s, s, n, b) ∈ dirTable → ¬ name = bytesOf s :=
    fun s n b hs e => hn _ hs e.symm
  simp only [Asm.directive]
  rw [if_neg (h "addr" 1 false (by simp [dirTable])), if_neg (h "align" 1 true (by simp [dirTable])),
    if_neg (h "const" 2 false (by simp [dirTable])),
    if_neg (h "du8" 1 true (by simp [dirTable])), if_neg (h "du16" 1 true (by simp [dirTable])), if_neg (h "du32" 1 true (by simp [dirTable])),
    if_neg (h "dhex" 1 true (by simp [dirTable])), if_neg (h "dstr" 1 true (by simp [dirTable])), if_neg (h "dfile" 1 true (by simp [dirTable])),
    if_neg (h "global" 1 false (by simp [dirTable])), if_neg (h "import" 1 false (by simp [dirTable])),
    if_neg (h "export" 1 false (by simp [dirTable])), if_neg (h "include" 1 false (by simp [dirTable]))]

end Trion.C04
