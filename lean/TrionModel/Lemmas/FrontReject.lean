import TrionModel.Lemmas.Front
/-! # Rejections, panic freedom and letter case of the front end (C04) -/
namespace Trion.Front
set_option maxRecDepth 8000

theorem evalArg_no_panic {eval : Arg → EvalOut} {loc : Bool} {pos done : Nat} {a a' : Arg} {r : Res}
    (h : evalArg eval loc pos done a = .error (a', r)) : r ≠ .panic := by
  unfold evalArg at h
  split at h
  · split at h
    · cases h
    · cases h; simp
    · split at h <;> (cases h; simp)
    · cases h; simp
  · cases h

theorem get_no_panic {k : Kind} {eval : Arg → EvalOut} {loc : Bool} {pos done : Nat} {a a' : Arg} {d : Nat} {r : Res}
    (h : get k eval loc pos done a = .stop a' d r) : r ≠ .panic := by
  cases k <;> simp only [get] at h
  all_goals (repeat' split at h)
  all_goals (first | (cases h; simp; done) | (cases h; done) | skip)
  all_goals (rename_i he; cases h; exact evalArg_no_panic he)

def accepts : Kind → List ArgTy
  | .immediate | .offset => [.const]
  | .identifier | .register | .systemReg => [.ident]
  | .immReg => [.const, .ident]
  | .regSet => [.seq]
  | .address => [.addr]
  | .addrOffset => [.const, .addr]

theorem get_accepts {k : Kind} {eval : Arg → EvalOut} {loc : Bool} {pos done : Nat} {a a' : Arg} {d : Nat} {v : Val}
    (h : get k eval loc pos done a = .ok v a' d) : a'.ty ∈ accepts k := by
  cases k <;> simp only [get] at h
  all_goals (repeat' split at h)
  all_goals (first | (cases h; simp [accepts, Arg.ty]; done) | (cases h; done) | skip)

theorem conv_no_panic (eval : Arg → EvalOut) (loc : Bool) : ∀ (ks : List Kind) (pos : Nat) (pre rest : List Arg) (done : Nat)
    (instr : Instr) (vals : List Val) (args : List Arg) (d : Nat) (i : Instr) (r : Res),
    ks.length ≤ rest.length → conv eval loc ks pos pre rest done instr vals = .stop args d i r → r ≠ .panic := by
  intro ks
  induction ks with
  | nil => intro pos pre rest done instr vals args d i r _ h; simp [conv] at h
  | cons k ks ih =>
    intro pos pre rest done instr vals args d i r hl h
    cases rest with
    | nil => simp at hl
    | cons x rest =>
      simp only [conv] at h
      split at h
      · exact ih _ _ _ _ _ _ _ _ _ _ (by simpa using hl) h
      · rename_i hg
        cases h
        exact get_no_panic hg

/-- `assemble` never reaches the `self.args[arg_pos]` index panic -/
theorem assemble_no_panic_proof (st : St) (eval : Arg → EvalOut) (loc : Bool) : (assemble st eval loc).2 ≠ .panic := by
  unfold assemble
  simp only
  split
  · simp
  · split
    · simp
    · split
      · rename_i hc
        exact conv_no_panic eval loc _ _ _ _ _ _ _ _ _ _ _ (by omega) hc
      · split <;> simp

theorem arity_rejected_proof (a : Nat) (name : Bytes) (args : List Arg) (eval : Arg → EvalOut) (loc : Bool) (t : Instr)
    (hm : mnemonic name = some t) (h : args.length ≠ (kinds t).length) :
    build a name args eval loc =
      .error (if args.length > (kinds t).length then .tooMany (kinds t).length args.length
              else .notEnough (kinds t).length args.length)
        { addr := a, instr := t, argsDone := 0, args := args } := by
  unfold build assemble
  rw [hm]
  by_cases hg : args.length > (kinds t).length
  · simp [hg]
  · have hl : args.length < (kinds t).length := by omega
    simp [hg, hl]

/-! ## letter case -/

theorem upperByte_idem (b : UInt8) : upperByte (upperByte b) = upperByte b := by
  have h : ∀ n : Fin 256, upperByte (upperByte (UInt8.ofNat n.val)) = upperByte (UInt8.ofNat n.val) := by decide
  have := h ⟨b.toNat, b.toNat_lt⟩
  simpa using this
theorem upper_idem (s : Bytes) : upper (upper s) = upper s := by
  simp [upper, List.map_map, Function.comp_def, upperByte_idem]
theorem upper_length (s : Bytes) : (upper s).length = s.length := by simp [upper]
theorem regl_upper (s : Bytes) : regl (upper s) = regl s := by simp [regl, upper_idem, upper_length]
theorem sysl_upper (s : Bytes) : sysl (upper s) = sysl s := by simp [sysl, upper_idem, upper_length]
theorem isRegister_upper (s : Bytes) : isRegister (upper s) = isRegister s := by
  simp [isRegister, upper_idem, upper_length]
theorem mnemonic_upper (s : Bytes) : mnemonic (upper s) = mnemonic s := by
  simp [mnemonic, foldName, upper_idem, upper_length]
end Trion.Front
