import TrionModel.Lemmas.C04Prog
import TrionModel.Lemmas.C04NoFuel
import TrionModel.Lemmas.AsmScope
import TrionModel.Lemmas.AsmStmtPos
import TrionModel.Props.C04Closed
/-!
# C04 closed, diagnosed direction: a statement without an encodable meaning, through the pipeline model

`instr_diag`: the instruction statement records at least one diagnostic (front-end diagnostic at the first attempt, or
`EncodeError` from `write_instr`).  `PAt f l c st`: every recorded diagnostic and every queued task of `st` is at
`(f, l, c)` and no `.global` closure is queued; it is kept by the task loops and `finalize`.
-/
namespace Trion.C04
open Trion Trion.Front

theorem encoder_err {i : Instr} {e : Codec.EncErr} (h : Codec.encode i = .error e) : ∃ e', Asm.encoder i = .error e' := by
  cases e with
  | unrepresentable => exact ⟨.unrepresentable, by simp [Asm.encoder, Codec.encodeInto, h]⟩
  | overflow a b => exact ⟨.overflow, by simp [Asm.encoder, Codec.encodeInto, h]⟩

/-- every value of the table is an `i64` -/
def tblI64 (t : Asm.Table) : Prop := ∀ n v, t.find n = some (some v) → inI64 v = true

theorem tableOk_of_tblI64 {t : Asm.Table} (h : tblI64 t) : Simp.tableOk (fun n => t.get n) := by
  intro s v hs
  simp only [Asm.Table.get] at hs
  split at hs
  · cases hs
  · cases hs
  · rename_i w hf; cases hs; exact h s _ hf

/-- **the instruction statement records a diagnostic** when the statement has no encodable meaning -/
theorem instr_diag (env : Asm.Env) (st : Asm.St) (tbl : Asm.Table) (hnd : Asm.Table.NoDef tbl) (hT : tblI64 tbl)
    (henv : env.paths ≠ []) (hl : st.locals = some tbl) (map : Map.Segs) (seg : Seg.Active) (pending : List (Nat × Nat))
    (hs : st.seg = ⟨map, some seg, pending⟩) (l c : Nat) (name : Bytes) (args : List Arg) (t : Instr)
    (hm : mnemonic name = some t) (hw : wellFormed (tabOf tbl) (sig t) args)
    (hq : ∀ vs, denoteAll (tabOf tbl) (sig t) args = some vs → ¬ svQuirk t vs)
    (hno : ∀ i hws, ¬ (means (tabOf tbl) seg.cur name args = some i ∧ i.wf ∧ Codec.encode i = .ok hws)) :
    ∀ st' r, Asm.instruction Asm.encoder env st l c name args = .ok (st', r) → st.errors.length + 1 ≤ st'.errors.length := by
  intro st' r h
  have hpaths : env.paths.isEmpty = false := by cases h : env.paths with | nil => exact absurd h henv | cons => rfl
  have hn := Asm.Table.nodef_get hnd
  have hTk := tableOk_of_tblI64 hT
  have hE := evalSimp_frontEval tbl
  unfold Asm.instruction at h
  simp only [Asm.currAddr, hs, Option.map_some, hm] at h
  cases ha : Asm.ArmInstr.assemble ⟨env.curName, l, c, ⟨seg.cur, t, 0, args⟩, false⟩ env st true with
  | stop s => rw [ha] at h; cases h
  | ok p =>
    obtain ⟨i', st1, op⟩ := p
    rw [ha] at h
    have hg := Asm.assembleI_grew _ _ _ ha
    unfold Asm.ArmInstr.assemble at ha
    simp only [Asm.evalTable, hpaths, hl, Asm.evalPanics_false, Bool.false_eq_true, if_false] at ha
    cases hF : Front.assemble ⟨seg.cur, t, 0, args⟩ (Asm.frontEval tbl) true with
    | mk fs out =>
      rw [hF] at ha
      have hb : build seg.cur name args (Asm.frontEval tbl) true =
          (match out with
           | .completed => .completed fs.instr | .deferred c => .deferred c fs | .error d => .error d fs | .panic => .panic) := by
        unfold build; rw [hm]; simp only [hF]; cases out <;> rfl
      cases out with
      | completed =>
        simp only at ha
        cases ha
        simp only at hb h
        have henc : ∀ hws, Codec.encode fs.instr ≠ .ok hws := fun hws he =>
          hno _ hws ((stmt_iff hn hTk hE true seg.cur name args t hm hw hq fs.instr hws).1 ⟨hb, he⟩)
        cases hce : Codec.encode fs.instr with
        | ok hws => exact absurd hce (henc hws)
        | error e =>
          obtain ⟨e', he'⟩ := encoder_err hce
          simp only [Asm.ArmInstr.writeInstr, he'] at h
          cases h
          simp
      | deferred c' =>
        rcases stmt_total hn hTk hE true seg.cur name args t hm hw with ⟨j, hj⟩ | ⟨d, s2, hj⟩
        · rw [hb] at hj; cases hj
        · rw [hb] at hj; cases hj
      | error d =>
        simp only at ha
        cases ha
        simp only [Asm.Grew, Asm.Op.isErr_err, Bool.toNat_true] at hg
        simp only at h
        cases hwi : Asm.ArmInstr.writeInstr Asm.encoder
            ⟨env.curName, l, c, fs, false⟩ (st.pushIn env.curName l c (Asm.frontKind d)) true with
        | stop s => rw [hwi] at h; cases h
        | ok q =>
          obtain ⟨i2, st2, r2⟩ := q
          have hg2 := Asm.writeInstr_grew _ _ _ hwi
          rw [hwi] at h
          simp only [Asm.Grew] at hg2
          cases r2 with
          | ok =>
            simp only at h
            cases hsch : Asm.ArmInstr.schedule i2 st2 false with
            | stop s => rw [hsch] at h; cases h
            | ok st3 =>
              rw [hsch] at h
              cases h
              have := Asm.addTask_errs hsch
              rw [this]; omega
          | err lv => simp only at h; cases h; omega
      | panic => simp only at ha; cases ha

/-! ## positions -/

structure PAt (f : Bytes) (l c : Nat) (st : Asm.St) : Prop where
  errs : ∀ d ∈ st.errors, d.at f l c
  gt : ∀ t ∈ st.globalTasks, t.at f l c ∧ t.notCopy = true
  lt : ∀ q, st.localTasks = some q → ∀ t ∈ q, t.at f l c ∧ t.notCopy = true

theorem pat_of_eff {f : Bytes} {l c : Nat} {st st' : Asm.St} (hp : PAt f l c st) (he : Asm.Eff f l c st st')
    (hq : Asm.Quiet st st') : PAt f l c st' := by
  refine ⟨fun d hd => ?_, fun t ht => ?_, fun q hq' t ht => ?_⟩
  · rcases he.1 d hd with h | h
    · exact hp.errs d h
    · exact h
  · rcases he.2.1 t ht with h | h
    · exact hp.gt t h
    · rcases hq.gt t ht with h' | h'
      · exact hp.gt t h'
      · exact ⟨h, h'⟩
  · rcases he.2.2 q hq' t ht with ⟨q0, h0, h1⟩ | h
    · exact hp.lt q0 h0 t h1
    · rcases hq.lt q hq' t ht with ⟨q0, h0, h1⟩ | h'
      · exact hp.lt q0 h0 t h1
      · exact ⟨h, h'⟩

theorem runTask_pat {enc : Asm.Encoder} {env : Asm.Env} {f : Bytes} {l c : Nat} {st st' : Asm.St} {t : Asm.Task} {r : Asm.Res}
    (ht : t.at f l c ∧ t.notCopy = true) (hp : PAt f l c st) (h : Asm.runTask enc env st t = .ok (st', r)) : PAt f l c st' := by
  cases t with
  | data d g =>
    obtain ⟨⟨rfl, rfl, rfl⟩, _⟩ := ht
    exact pat_of_eff hp (Asm.runDataTask_eff _ _ h) (Asm.runDataTask_quiet _ _ h)
  | instr i g =>
    obtain ⟨⟨rfl, rfl, rfl⟩, _⟩ := ht
    exact pat_of_eff hp (Asm.runInstrTask_eff _ _ h) (Asm.runInstrTask_quiet _ _ h)
  | globalCopy n l' c' => simp [Asm.Task.notCopy] at ht

theorem localRound_pat {enc : Asm.Encoder} {env : Asm.Env} {f : Bytes} {l c : Nat} :
    ∀ (ts : List Asm.Task) (st : Asm.St) (res : Asm.Res), (∀ t ∈ ts, t.at f l c ∧ t.notCopy = true) → PAt f l c st →
      ∀ st' r, Asm.localRound enc env ts st res = .ok (st', r) → PAt f l c st' := by
  intro ts
  induction ts with
  | nil => intro st res _ hp st' r h; simp only [Asm.localRound] at h; cases h; exact hp
  | cons t ts ih =>
    intro st res hts hp st' r h
    simp only [Asm.localRound] at h
    have ht := hts t List.mem_cons_self
    have hts' : ∀ x ∈ ts, x.at f l c ∧ x.notCopy = true := fun x hx => hts x (List.mem_cons_of_mem _ hx)
    split at h
    · rename_i st1 hr
      exact ih st1 res hts' (runTask_pat ht hp hr) _ _ h
    · rename_i st1 lv hr
      have p1 := runTask_pat ht hp hr
      split at h
      · cases h; exact p1
      · exact ih st1 _ hts' p1 _ _ h
    · cases h

theorem localLoop_pat {enc : Asm.Encoder} {env : Asm.Env} {f : Bytes} {l c : Nat} :
    ∀ (n : Nat) (ts : List Asm.Task) (st : Asm.St) (res : Asm.Res), (∀ t ∈ ts, t.at f l c ∧ t.notCopy = true) → PAt f l c st →
      ∀ st' r, Asm.localLoop enc env n ts st res = .ok (st', r) → PAt f l c st' := by
  intro n
  induction n with
  | zero => intro ts st res _ _ st' r h; simp [Asm.localLoop] at h
  | succ n ih =>
    intro ts st res hts hp st' r h
    simp only [Asm.localLoop] at h
    split at h
    · cases h; exact hp
    · split at h
      · rename_i st1 res1 hr
        have p1 := localRound_pat ts st res hts hp _ _ hr
        split at h
        · cases h
        · rename_i new hnew
          have p2 : PAt f l c { st1 with localTasks := some [] } :=
            ⟨p1.errs, p1.gt, (fun q hq t ht => by cases hq; cases ht)⟩
          split at h
          · cases h; exact p2
          · exact ih new _ res1 (p1.lt new hnew) p2 _ _ h
      · cases h

theorem globalRound_pat {enc : Asm.Encoder} {env : Asm.Env} {f : Bytes} {l c : Nat} : ∀ (ts : List Asm.Task) (st : Asm.St),
    (∀ t ∈ ts, t.at f l c ∧ t.notCopy = true) → PAt f l c st →
    ∀ st' ab, Asm.globalRound enc env ts st = .ok (st', ab) → PAt f l c st' := by
  intro ts
  induction ts with
  | nil => intro st _ hp st' ab h; simp only [Asm.globalRound] at h; cases h; exact hp
  | cons t ts ih =>
    intro st hts hp st' ab h
    simp only [Asm.globalRound] at h
    split at h
    · rename_i st1 r1 hr
      have p1 := runTask_pat (hts t List.mem_cons_self) hp hr
      split at h
      · cases h; exact p1
      · exact ih st1 (fun x hx => hts x (List.mem_cons_of_mem _ hx)) p1 _ _ h
    · cases h

theorem globalLoop_pat {enc : Asm.Encoder} {env : Asm.Env} {f : Bytes} {l c : Nat} : ∀ (n : Nat) (ts : List Asm.Task) (st : Asm.St),
    (∀ t ∈ ts, t.at f l c ∧ t.notCopy = true) → PAt f l c st →
    ∀ st' ab, Asm.globalLoop enc env n ts st = .ok (st', ab) → PAt f l c st' := by
  intro n
  induction n with
  | zero => intro ts st _ _ st' ab h; simp [Asm.globalLoop] at h
  | succ n ih =>
    intro ts st hts hp st' ab h
    simp only [Asm.globalLoop] at h
    split at h
    · cases h; exact hp
    · split at h
      · rename_i st1 ab1 hr
        have p1 := globalRound_pat ts st hts hp _ _ hr
        have p2 : PAt f l c { st1 with globalTasks := [] } := ⟨p1.errs, (fun t ht => by cases ht), p1.lt⟩
        split at h
        · cases h; exact p2
        · exact ih st1.globalTasks _ p1.gt p2 _ _ h
      · cases h

theorem finalize_pat {enc : Asm.Encoder} {env : Asm.Env} {f : Bytes} {l c : Nat} {st st' : Asm.St} {ok : Bool}
    (hp : PAt f l c st) (h : Asm.finalize enc env st = .ok (st', ok)) : PAt f l c st' := by
  unfold Asm.finalize at h
  split at h
  · rename_i st2 ab hl
    cases h
    exact globalLoop_pat Asm.rounds st.globalTasks { st with globalTasks := [] } hp.gt
      ⟨hp.errs, (fun t ht => by cases ht), hp.lt⟩ _ _ hl
  · cases h

end Trion.C04
