import TrionModel.Lemmas.SimpSound4
/-!
# Soundness of the simplifier, part 5: `simplify_raw`, `simplify` and `evaluate` preserve the ideal value
-/
namespace Trion.Simp
open Trion

theorem foldBin_opZ {op : BinOp} {a b w v : Int} (hf : foldBin op a b = .ok w) (ho : opZ op a b = some v) :
    w = v := by
  cases op <;> simp only [foldBin] at hf <;> simp only [opZ] at ho
  case add =>
    cases h1 : checkedAdd a b with
    | none => simp [h1] at hf
    | some x => simp only [h1, Except.ok.injEq] at hf; subst hf; rw [(checked_eq_some.1 h1).2]; exact Option.some.inj ho
  case sub =>
    cases h1 : checkedSub a b with
    | none => simp [h1] at hf
    | some x => simp only [h1, Except.ok.injEq] at hf; subst hf; rw [(checked_eq_some.1 h1).2]; exact Option.some.inj ho
  case mul =>
    cases h1 : checkedMul a b with
    | none => simp [h1] at hf
    | some x => simp only [h1, Except.ok.injEq] at hf; subst hf; rw [(checked_eq_some.1 h1).2]; exact Option.some.inj ho
  case div =>
    by_cases h0 : b = 0
    · simp [h0] at hf
    · simp only [h0, if_false, checkedDiv] at hf ho
      cases h1 : checked (a.tdiv b) with
      | none => simp [h1] at hf
      | some x => simp only [h1, Except.ok.injEq] at hf; subst hf; rw [(checked_eq_some.1 h1).2]; exact Option.some.inj ho
  case mod =>
    by_cases h0 : b = 0
    · simp [h0] at hf
    · simp only [h0, if_false, checkedRem] at hf ho
      by_cases h1 : a = i64Min ∧ b = -1
      · simp [h1] at hf
      · simp only [h1, if_false, Except.ok.injEq] at hf; subst hf; exact Option.some.inj ho
  case band =>
    split at ho
    · simp only [Except.ok.injEq] at hf; subst hf; exact Option.some.inj ho
    · simp at ho
  case bor =>
    split at ho
    · simp only [Except.ok.injEq] at hf; subst hf; exact Option.some.inj ho
    · simp at ho
  case bxor =>
    split at ho
    · simp only [Except.ok.injEq] at hf; subst hf; exact Option.some.inj ho
    · simp at ho
  case shl =>
    split at ho
    · cases h1 : checkedShl a b with
      | none => simp [h1] at hf
      | some x => simp only [h1, Except.ok.injEq] at hf; subst hf; rw [h1] at ho; exact Option.some.inj ho
    · simp at ho
  case shr =>
    split at ho
    · cases h1 : checkedShr a b with
      | none => simp [h1] at hf
      | some x => simp only [h1, Except.ok.injEq] at hf; subst hf; rw [h1] at ho; exact Option.some.inj ho
    · simp at ho

theorem modCollapse_val (ρ : Env) {l r : Arg} (h : modCollapse l r = true) {v : Int}
    (hv : valZ ρ (.bin .mod l r) = some v) : valZ ρ l = some v := by
  unfold modCollapse at h
  cases hcr : cval r with
  | none => simp [hcr] at h
  | some z =>
    simp only [hcr] at h
    split at h
    · rename_i lx lr
      cases hcy : cval lr with
      | none => simp [hcy] at h
      | some y =>
        simp only [hcy, decide_eq_true_eq] at h
        obtain ⟨a, b, hl, hr, ho⟩ := valZ_bin hv
        have hb : b = z := by have := cval_valZ (ρ := ρ) hcr; rw [hr] at this; exact Option.some.inj this
        subst hb
        obtain ⟨x, y', hlx, hlr, ho2⟩ := valZ_bin hl
        have hy : y' = y := by have := cval_valZ (ρ := ρ) hcy; rw [hlr] at this; exact Option.some.inj this
        subst hy
        simp only [opZ] at ho ho2
        by_cases hy0 : y' = 0
        · simp [hy0] at ho2
        · by_cases hb0 : b = 0
          · simp [hb0] at ho
          · simp only [hy0, hb0, if_false, Option.some.injEq] at ho ho2
            subst ho2
            rw [hl, ← ho, tmod_tmod_of_natAbs_le hy0 h]
    · simp at h

theorem simplifyRaw_val (ρ : Env) (a : Arg) (c : Bool) (a' : Arg) (v : Int)
    (he : simplifyRaw a = .ok (c, a')) (hv : valZ ρ a = some v) : valZ ρ a' = some v := by
  cases a with
  | bin op l r =>
    by_cases hlr : isC l = true ∧ isC r = true
    · obtain ⟨h1, h2⟩ := hlr
      cases l <;> simp [isC, cval] at h1
      cases r <;> simp [isC, cval] at h2
      rename_i x y
      simp only [simplifyRaw, isBad, cval] at he
      cases hf : foldBin op x y with
      | error k => simp [hf] at he
      | ok w =>
        simp only [hf, Bool.false_eq_true, if_false, Res.ok.injEq, Prod.mk.injEq] at he
        obtain ⟨_, rfl⟩ := he
        have ho : opZ op x y = some v := by simpa [valZ, liftBin] using hv
        simp [valZ, foldBin_opZ hf ho]
    · rw [simplifyRaw_bin_rest op l r hlr] at he
      split at he
      · simp at he
      · split at he
        · simp at he
        · split at he
          · split at he
            · rename_i hm
              simp only [Res.ok.injEq, Prod.mk.injEq] at he
              obtain ⟨_, rfl⟩ := he
              exact modCollapse_val ρ hm hv
            · exact neutralizeRaw_val ρ he hv
          · exact neutralizeRaw_val ρ he hv
          · exact neutralizeRaw_val ρ he hv
          · rename_i h1 h2 h3
            exact merge_val ρ op l r hlr ⟨fun h => h1 h, fun h => h2 h, fun h => h3 h⟩ c a' v he hv
  | neg w =>
    obtain ⟨x, hx, rfl⟩ := valZ_neg hv
    simp only [simplifyRaw] at he
    split at he
    · rename_i l r
      obtain ⟨p, q, hl, hr, ho⟩ := valZ_bin hx
      simp only [opZ, Option.some.injEq] at ho
      have hsw : valZ ρ (.bin .sub r l) = some (-x) := by
        rw [valZ_bin_mk hr hl]; simp only [opZ, Option.some.injEq]; omega
      cases hn : neutralizeRaw (.bin .sub r l) with
      | ok pr =>
        obtain ⟨c1, y⟩ := pr
        simp only [hn, Res.ok.injEq, Prod.mk.injEq] at he
        obtain ⟨_, rfl⟩ := he
        exact neutralizeRaw_val ρ hn hsw
      | err e => simp [hn] at he
      | panic => simp [hn] at he
    · rename_i u
      cases hn : neutralizeRaw (.neg (.neg u)) with
      | ok pr =>
        obtain ⟨c1, y⟩ := pr
        simp only [hn, Res.ok.injEq, Prod.mk.injEq] at he
        obtain ⟨_, rfl⟩ := he
        exact neutralizeRaw_val ρ hn hv
      | err e => simp [hn] at he
      | panic => simp [hn] at he
    · split at he
      · simp at he
      · simp only [Res.ok.injEq, Prod.mk.injEq] at he
        obtain ⟨_, rfl⟩ := he
        simp only [valZ, Option.some.injEq] at hx ⊢; omega
    · simp at he
    · simp at he
    · simp at he
    · simp only [Res.ok.injEq, Prod.mk.injEq] at he
      obtain ⟨_, rfl⟩ := he; exact hv
  | not w =>
    simp only [simplifyRaw] at he
    split at he
    · simp only [Res.ok.injEq, Prod.mk.injEq] at he
      obtain ⟨_, rfl⟩ := he
      simpa [valZ] using hv
    · simp at he
    · simp at he
    · simp at he
    · simp only [Res.ok.injEq, Prod.mk.injEq] at he
      obtain ⟨_, rfl⟩ := he; exact hv
  | addr w => simp [valZ] at hv
  | const w => simp only [simplifyRaw, Res.ok.injEq, Prod.mk.injEq] at he; obtain ⟨_, rfl⟩ := he; exact hv
  | ident w => simp only [simplifyRaw, Res.ok.injEq, Prod.mk.injEq] at he; obtain ⟨_, rfl⟩ := he; exact hv
  | str w => simp [valZ] at hv
  | seq w => simp [valZ] at hv
  | func n w => simp [valZ] at hv

/-- `simplify` preserves the ideal value of every expression that has one -/
theorem simplify_val (ρ : Env) (a : Arg) : ∀ (c : Bool) (a' : Arg) (v : Int),
    simplify a = .ok (c, a') → valZ ρ a = some v → valZ ρ a' = some v := by
  induction a using Arg.ind with
  | const w => intro c a' v he h; simp only [simplify, Res.ok.injEq, Prod.mk.injEq] at he; obtain ⟨_, rfl⟩ := he; exact h
  | ident s => intro c a' v he h; simp only [simplify, Res.ok.injEq, Prod.mk.injEq] at he; obtain ⟨_, rfl⟩ := he; exact h
  | str s => intro c a' v he h; simp [valZ] at h
  | bin op l r ihl ihr =>
    intro c a' v he h
    obtain ⟨x, y, hl, hr, ho⟩ := valZ_bin h
    simp only [simplify] at he
    cases h1 : simplify l with
    | panic => simp [h1] at he
    | err e => simp [h1] at he
    | ok p =>
      obtain ⟨c1, l'⟩ := p
      cases h2 : simplify r with
      | panic => simp [h1, h2] at he
      | err e => simp [h1, h2] at he
      | ok q =>
        obtain ⟨c2, r'⟩ := q
        simp only [h1, h2] at he
        cases h3 : simplifyRaw (.bin op l' r') with
        | panic => simp [h3] at he
        | err e => simp [h3] at he
        | ok w =>
          obtain ⟨c3, a3⟩ := w
          simp only [h3, Res.ok.injEq, Prod.mk.injEq] at he
          obtain ⟨_, rfl⟩ := he
          refine simplifyRaw_val ρ _ c3 a3 v h3 ?_
          rw [valZ_bin_mk (ihl c1 l' x h1 hl) (ihr c2 r' y h2 hr)]; exact ho
  | neg a ih =>
    intro c a' v he h
    obtain ⟨w, hw, rfl⟩ := valZ_neg h
    simp only [simplify] at he
    cases h1 : simplify a with
    | panic => simp [h1] at he
    | err e => simp [h1] at he
    | ok p =>
      obtain ⟨c1, v'⟩ := p
      simp only [h1] at he
      cases h3 : simplifyRaw (.neg v') with
      | panic => simp [h3] at he
      | err e => simp [h3] at he
      | ok q =>
        obtain ⟨c3, a3⟩ := q
        simp only [h3, Res.ok.injEq, Prod.mk.injEq] at he
        obtain ⟨_, rfl⟩ := he
        exact simplifyRaw_val ρ _ c3 a3 _ h3 (valZ_neg_mk (ih c1 v' w h1 hw))
  | not a ih =>
    intro c a' v he h
    simp only [valZ] at h
    cases hw : valZ ρ a with
    | none => simp [hw] at h
    | some w =>
      simp only [simplify] at he
      cases h1 : simplify a with
      | panic => simp [h1] at he
      | err e => simp [h1] at he
      | ok p =>
        obtain ⟨c1, v'⟩ := p
        simp only [h1] at he
        cases h3 : simplifyRaw (.not v') with
        | panic => simp [h3] at he
        | err e => simp [h3] at he
        | ok q =>
          obtain ⟨c3, a3⟩ := q
          simp only [h3, Res.ok.injEq, Prod.mk.injEq] at he
          obtain ⟨_, rfl⟩ := he
          refine simplifyRaw_val ρ _ c3 a3 v h3 ?_
          simpa [valZ, ih c1 v' w h1 hw, hw] using h
  | addr a _ => intro c a' v he h; simp [valZ] at h
  | seq as => intro c a' v he h; simp [valZ] at h
  | func n as => intro c a' v he h; simp [valZ] at h

/-- the environment agrees with the constant table on every name the table holds a value for -/
def consistent (lk : Bytes → Lookup) (isReg : Bytes → Bool) (ρ : Env) : Prop :=
  ∀ s v, isReg s = false → lk s = .found v → ρ s = some v

theorem afterRaw_val (ρ : Env) {ev ev' : Ev} {a a' : Arg} {v : Int} (he : afterRaw ev a = .ok (ev', a'))
    (hv : valZ ρ a = some v) : valZ ρ a' = some v := by
  unfold afterRaw at he
  cases h3 : simplifyRaw a with
  | panic => simp [h3] at he
  | err e => simp [h3] at he
  | ok w =>
    obtain ⟨c3, a3⟩ := w
    simp only [h3, ERes.ok.injEq, Prod.mk.injEq] at he
    obtain ⟨_, rfl⟩ := he
    exact simplifyRaw_val ρ _ c3 a3 v h3 hv

/-- `evaluate` preserves the ideal value under every environment that agrees with the table -/
theorem evaluate_val (lk : Bytes → Lookup) (isReg : Bytes → Bool) (ρ : Env) (hρ : consistent lk isReg ρ)
    (a : Arg) : ∀ (ev : Ev) (a' : Arg) (v : Int),
    evaluate lk isReg a = .ok (ev, a') → valZ ρ a = some v → valZ ρ a' = some v := by
  induction a using Arg.ind with
  | const w => intro c a' v he h; simp only [evaluate, ERes.ok.injEq, Prod.mk.injEq] at he; obtain ⟨_, rfl⟩ := he; exact h
  | ident s =>
    intro c a' v he h
    simp only [evaluate] at he
    split at he
    · simp only [ERes.ok.injEq, Prod.mk.injEq] at he; obtain ⟨_, rfl⟩ := he; exact h
    · rename_i hr
      cases hl : lk s with
      | notFound => simp [hl] at he
      | deferred => simp only [hl, ERes.ok.injEq, Prod.mk.injEq] at he; obtain ⟨_, rfl⟩ := he; exact h
      | found w =>
        simp only [hl, ERes.ok.injEq, Prod.mk.injEq] at he
        obtain ⟨_, rfl⟩ := he
        have := hρ s w (by simpa using hr) hl
        simp only [valZ] at h ⊢
        rw [this] at h; exact h
  | str s => intro c a' v he h; simp [valZ] at h
  | bin op l r ihl ihr =>
    intro c a' v he h
    obtain ⟨x, y, hl, hr, ho⟩ := valZ_bin h
    simp only [evaluate] at he
    cases h1 : evaluate lk isReg l with
    | panic => simp [h1] at he
    | err e => simp [h1] at he
    | ok p =>
      obtain ⟨c1, l'⟩ := p
      cases h2 : evaluate lk isReg r with
      | panic => simp [h1, h2] at he
      | err e => simp [h1, h2] at he
      | ok q =>
        obtain ⟨c2, r'⟩ := q
        simp only [h1, h2] at he
        refine afterRaw_val ρ he ?_
        rw [valZ_bin_mk (ihl c1 l' x h1 hl) (ihr c2 r' y h2 hr)]; exact ho
  | neg a ih =>
    intro c a' v he h
    obtain ⟨w, hw, rfl⟩ := valZ_neg h
    simp only [evaluate] at he
    cases h1 : evaluate lk isReg a with
    | panic => simp [h1] at he
    | err e => simp [h1] at he
    | ok p =>
      obtain ⟨c1, v'⟩ := p
      simp only [h1] at he
      exact afterRaw_val ρ he (valZ_neg_mk (ih c1 v' w h1 hw))
  | not a ih =>
    intro c a' v he h
    simp only [valZ] at h
    cases hw : valZ ρ a with
    | none => simp [hw] at h
    | some w =>
      simp only [evaluate] at he
      cases h1 : evaluate lk isReg a with
      | panic => simp [h1] at he
      | err e => simp [h1] at he
      | ok p =>
        obtain ⟨c1, v'⟩ := p
        simp only [h1] at he
        refine afterRaw_val ρ he ?_
        simpa [valZ, ih c1 v' w h1 hw, hw] using h
  | addr a _ => intro c a' v he h; simp [valZ] at h
  | seq as => intro c a' v he h; simp [valZ] at h
  | func n as => intro c a' v he h; simp [valZ] at h

end Trion.Simp
