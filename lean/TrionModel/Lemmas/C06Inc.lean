import TrionModel.Lemmas.C06Then
/-!
# C06 invalid constructs inside an INCLUDED file

`fileBody_stmt`: in any file (any nesting), a statement that records a diagnostic satisfying `P` leaves such a diagnostic
in the state the file body ends in; `fileBody_stmt_err`: if that statement returns an error result, the body returns an
error result (so the includer reports `IncludeFailed`).
-/
namespace Trion.C04
open Trion Trion.Asm

theorem fileBody_eq'' (fs : Bytes → Option Bytes) (enc : Asm.Encoder) (inc : Asm.Inc) (env : Asm.Env) (data : Bytes) (st : Asm.St)
    (els : List Element) (perr : Option ParseErr) (hp : Asm.parseFile data = .ok (els, perr)) :
    Asm.fileBody fs enc inc env data st =
      match Asm.doAssemble fs enc inc env els perr st with
      | .ok (st3, res) =>
        if res = .err .fatal then .ok (st3, res)
        else
          match st3.localTasks with
          | none => .stop .panic
          | some tasks => Asm.localLoop enc env Asm.rounds tasks { st3 with localTasks := some [] } res
      | .stop r => .stop r := by
  simp only [Asm.fileBody, hp] <;> rfl

theorem localRound_err {enc : Asm.Encoder} {env : Asm.Env} : ∀ (ts : List Asm.Task) (st : Asm.St) (res : Asm.Res) (st' : Asm.St) (r : Asm.Res),
    Asm.localRound enc env ts st res = .ok (st', r) → res.isErr = true → r.isErr = true := by
  intro ts
  induction ts with
  | nil => intro st res st' r h he; simp only [Asm.localRound] at h; cases h; exact he
  | cons t ts ih =>
    intro st res st' r h he
    simp only [Asm.localRound] at h
    split at h
    · exact ih _ _ _ _ h he
    · split at h
      · cases h; simp
      · exact ih _ _ _ _ h (by simp)
    · cases h

theorem localLoop_err {enc : Asm.Encoder} {env : Asm.Env} : ∀ (n : Nat) (ts : List Asm.Task) (st : Asm.St) (res : Asm.Res) (st' : Asm.St) (r : Asm.Res),
    Asm.localLoop enc env n ts st res = .ok (st', r) → res.isErr = true → r.isErr = true := by
  intro n
  induction n with
  | zero => intro ts st res st' r h; simp [Asm.localLoop] at h
  | succ n ih =>
    intro ts st res st' r h he
    simp only [Asm.localLoop] at h
    split at h
    · cases h; exact he
    · split at h
      · rename_i st1 res1 hr
        have w1 := localRound_err _ _ _ _ _ hr he
        split at h
        · cases h
        · split at h
          · cases h; exact w1
          · exact ih _ _ _ _ _ h w1
      · cases h

section
variable (fs : Bytes → Option Bytes) (enc : Asm.Encoder) (inc : Asm.Inc) (env : Asm.Env) (data : Bytes) (st : Asm.St)
  (els : List Element) (perr : Option ParseErr) (hp : Asm.parseFile data = .ok (els, perr))
  (pre post : List Element) (el : Element) (hels : els = pre ++ el :: post) (S : Asm.St)
  (hpre : ∀ rest perr', Asm.doAssemble fs enc inc env (pre ++ rest) perr' st = Asm.doAssemble fs enc inc env rest perr' S)
include hp hels hpre

theorem fileBody_stmt (hinc : Asm.IncKeeps inc) (P : Asm.Diag → Prop)
    (hK : ∀ S1 r1, Asm.statement fs enc inc env S el = .ok (S1, r1) → ∃ d ∈ S1.errors, P d) :
    ∀ st4 r4, Asm.fileBody fs enc inc env data st = .ok (st4, r4) → ∃ d ∈ st4.errors, P d := by
  intro st4 r4 hB
  have hfb := fileBody_eq'' fs enc inc env data st els perr hp
  rw [hB, hels, hpre] at hfb
  simp only [Asm.doAssemble] at hfb
  cases hX : Asm.statement fs enc inc env S el with
  | stop s => rw [hX] at hfb; cases hfb
  | ok x =>
    obtain ⟨S1, r1⟩ := x
    obtain ⟨d, hd, hP⟩ := hK S1 r1 hX
    rw [hX] at hfb
    refine ⟨d, ?_, hP⟩
    cases r1 with
    | ok =>
      simp only at hfb
      cases hD : Asm.doAssemble fs enc inc env post perr S1 with
      | stop s => rw [hD] at hfb; cases hfb
      | ok y =>
        obtain ⟨st3, res3⟩ := y
        have hd3 := Asm.doAssemble_keeps hinc perr post S1 st3 res3 hD d hd
        rw [hD] at hfb
        simp only at hfb
        split at hfb
        · cases hfb; exact hd3
        · split at hfb
          · cases hfb
          · exact Asm.localLoop_keeps _ _ _ _ _ _ hfb.symm d hd3
    | err lv =>
      simp only at hfb
      split at hfb
      · cases hfb; exact hd
      · split at hfb
        · cases hfb
        · exact Asm.localLoop_keeps _ _ _ _ _ _ hfb.symm d hd

theorem fileBody_stmt_err
    (hK : ∀ S1 r1, Asm.statement fs enc inc env S el = .ok (S1, r1) → r1.isErr = true) :
    ∀ st4 r4, Asm.fileBody fs enc inc env data st = .ok (st4, r4) → r4.isErr = true := by
  intro st4 r4 hB
  have hfb := fileBody_eq'' fs enc inc env data st els perr hp
  rw [hB, hels, hpre] at hfb
  simp only [Asm.doAssemble] at hfb
  cases hX : Asm.statement fs enc inc env S el with
  | stop s => rw [hX] at hfb; cases hfb
  | ok x =>
    obtain ⟨S1, r1⟩ := x
    have he := hK S1 r1 hX
    rw [hX] at hfb
    cases r1 with
    | ok => simp at he
    | err lv =>
      simp only at hfb
      split at hfb
      · cases hfb; rfl
      · split at hfb
        · cases hfb
        · exact localLoop_err _ _ _ _ _ _ hfb.symm rfl

end

end Trion.C04

namespace Trion.C04
open Trion Trion.Asm

/-- `run_stmt_reported` for an arbitrary property of the recorded diagnostic -/
theorem run_stmt_reportedP (fs : Bytes → Option Bytes) (main data : Bytes) (hfs : fs main = some data)
    (els : List Element) (perr : Option ParseErr) (hp : Asm.parseFile data = .ok (els, perr))
    (pre post : List Element) (el : Element) (hels : els = pre ++ el :: post)
    (S : Asm.St) (hpre : PrefixOk fs main pre S) (P : Asm.Diag → Prop)
    (hK : ∀ S1 r1, Asm.statement fs Asm.encoder (Asm.assembleFile fs Asm.encoder (Asm.maxDepth - 1)) ⟨[main], main⟩ S el = .ok (S1, r1) →
      ∃ d ∈ S1.errors, P d) :
    ∀ o, Asm.run fs main = .done o → o.success = false ∧ ∃ d ∈ o.diags, P d := by
  intro o ho
  cases hA : Asm.assembleFile fs Asm.encoder Asm.maxDepth Asm.Env.init Asm.St.init data main with
  | stop s =>
    unfold Asm.run Asm.runWith at ho
    simp only [hfs, hA] at ho
    cases s <;> cases ho
  | ok p =>
    obtain ⟨st, res⟩ := p
    obtain ⟨hmem, hsucc⟩ := Asm.run_keeps fs main o ho data hfs st res hA
    have hAe := assembleFile_main_eq fs data main
    rw [hA] at hAe
    cases hB : Asm.fileBody fs Asm.encoder (Asm.assembleFile fs Asm.encoder (Asm.maxDepth - 1)) ⟨[main], main⟩ data init2 with
    | stop s => rw [hB] at hAe; cases hAe
    | ok q =>
      obtain ⟨st4, r4⟩ := q
      rw [hB] at hAe
      simp only [Asm.Out.ok.injEq, Prod.mk.injEq] at hAe
      obtain ⟨rfl, _⟩ := hAe
      obtain ⟨d, hd, hP⟩ := fileBody_stmt fs Asm.encoder _ _ data init2 els perr hp pre post el hels S hpre
        (Asm.assembleFile_keeps fs Asm.encoder _) P hK st4 r4 hB
      have hdo : d ∈ (Asm.leaveFile none none st4).errors := by rw [leaveFile_errors]; exact hd
      exact ⟨hsucc (by intro e; rw [e] at hdo; cases hdo), d, hmem d hdo, hP⟩

/-- the `.include "p";` statement of the main file, when the body of the included file ends with a diagnostic satisfying
`P` and an error result: the state after the statement holds that diagnostic and `IncludeFailed` at the statement -/
theorem include_stmt (fs : Bytes → Option Bytes) (main : Bytes) (S : Asm.St) (l c : Nat) (p data2 : Bytes)
    (hfs2 : fs (Asm.sibling main p) = some data2) (P : Asm.Diag → Prop)
    (hB : ∀ st4 r4, Asm.fileBody fs Asm.encoder (Asm.assembleFile fs Asm.encoder (Asm.maxDepth - 2))
        ⟨[Asm.sibling main p, main], Asm.sibling main p⟩ data2 (Asm.enterFile S).2.2 = .ok (st4, r4) →
        (∃ d ∈ st4.errors, P d) ∧ r4.isErr = true) :
    ∀ S1 r1, Asm.statement fs Asm.encoder (Asm.assembleFile fs Asm.encoder (Asm.maxDepth - 1)) ⟨[main], main⟩ S
        ⟨l, c, .directive (bytesOf "include") (Args.ofList [.str p])⟩ = .ok (S1, r1) →
      (∃ d ∈ S1.errors, P d) ∧
      (⟨main, l, c, .dirApply "include" (.includeFailed (Asm.sibling main p))⟩ : Asm.Diag) ∈ S1.errors := by
  intro S1 r1 h
  simp only [Asm.statement, Show.toList_ofList] at h
  rw [directive_include] at h
  simp only [Asm.includeDirective, Asm.arity, List.length_cons, List.length_nil, Nat.zero_add, if_true, hfs2] at h
  have hinc : Asm.assembleFile fs Asm.encoder (Asm.maxDepth - 1) ⟨[main], main⟩ S data2 (Asm.sibling main p) =
      match Asm.fileBody fs Asm.encoder (Asm.assembleFile fs Asm.encoder (Asm.maxDepth - 2))
          ⟨[Asm.sibling main p, main], Asm.sibling main p⟩ data2 (Asm.enterFile S).2.2 with
      | .ok (st4, r) => .ok (Asm.leaveFile (Asm.enterFile S).1 (Asm.enterFile S).2.1 st4, r)
      | .stop s => .stop s := by
    show Asm.assembleFile fs Asm.encoder (62 + 1) ⟨[main], main⟩ S data2 (Asm.sibling main p) = _
    unfold Asm.assembleFile
    simp only [List.length_cons, List.length_nil, Nat.zero_add, Nat.add_one_ne_zero, if_false, ne_eq, not_true_eq_false, Asm.maxDepth]
    generalize Asm.enterFile S = ef
    obtain ⟨cc, tt, st2⟩ := ef
    simp only
    cases Asm.fileBody fs Asm.encoder (Asm.assembleFile fs Asm.encoder 62) ⟨[Asm.sibling main p, main], Asm.sibling main p⟩ data2 st2 with
    | ok q => rfl
    | stop s => rfl
  rw [hinc] at h
  cases hF : Asm.fileBody fs Asm.encoder (Asm.assembleFile fs Asm.encoder (Asm.maxDepth - 2))
      ⟨[Asm.sibling main p, main], Asm.sibling main p⟩ data2 (Asm.enterFile S).2.2 with
  | stop s => rw [hF] at h; cases h
  | ok q =>
    obtain ⟨st4, r4⟩ := q
    obtain ⟨⟨d, hd, hP⟩, he⟩ := hB st4 r4 hF
    rw [hF] at h
    simp only at h
    cases r4 with
    | ok => simp at he
    | err lv =>
      simp only at h
      cases h
      refine ⟨⟨d, ?_, hP⟩, List.mem_cons_self⟩
      simp only [Asm.St.push, Asm.St.pushIn]
      exact List.mem_cons_of_mem _ (by rw [Asm.leaveFile_errs]; exact hd)

end Trion.C04
