import TrionModel.Lemmas.AsmLoud
import TrionModel.Lemmas.AsmPos
/-!
# `Trion.Asm`: every recorded diagnostic has a non-empty file name, line ≥ 1 and column ≥ 1
(invariant `Pok`: all recorded diagnostics and all queued tasks carry such positions)
-/
namespace Trion.Asm
open Trion

/-- a proper position -/
def Qok (f : Bytes) (l c : Nat) : Prop := f ≠ [] ∧ 1 ≤ l ∧ 1 ≤ c

def Dok (d : Diag) : Prop := Qok d.file d.line d.col

def Task.pok : Task → Prop
  | .data d _ => Qok d.file d.line d.col
  | .instr i _ => Qok i.file i.line i.col
  | .globalCopy _ l c => 1 ≤ l ∧ 1 ≤ c

def TsPok (ts : List Task) : Prop := ∀ t ∈ ts, t.pok

def LtPok : Option (List Task) → Prop
  | none => True
  | some l => TsPok l

def Pok (st : St) : Prop := (∀ d ∈ st.errors, Dok d) ∧ TsPok st.globalTasks ∧ LtPok st.localTasks

@[simp] theorem tsPok_append (a b : List Task) : TsPok (a ++ b) ↔ TsPok a ∧ TsPok b := by
  simp [TsPok, or_imp, forall_and]
@[simp] theorem tsPok_single (t : Task) : TsPok [t] ↔ t.pok := by simp [TsPok]
@[simp] theorem tsPok_nil : TsPok [] := by simp [TsPok]
@[simp] theorem ltPok_some (l : List Task) : LtPok (some l) ↔ TsPok l := Iff.rfl
@[simp] theorem ltPok_none : LtPok none := trivial

/-- closing step of the proofs below -/
macro "pok_close" : tactic =>
  `(tactic| (simp_all [Pok, St.push, St.pushIn, Dok, Qok, Task.pok]))

theorem insertConstant_pok {st st' : St} {n : Bytes} {v : Int} {r : Realm} {x : Except CErr Bool}
    (h : insertConstant st n v r = .ok (st', x)) (hp : Pok st) : Pok st' := by
  unfold insertConstant at h
  repeat' split at h
  all_goals (first | (cases h; done) | (cases h; exact hp))

theorem deferConstant_pok {st st' : St} {n : Bytes} {r : Realm} {x : Except CErr Unit}
    (h : deferConstant st n r = .ok (st', x)) (hp : Pok st) : Pok st' := by
  unfold deferConstant at h
  repeat' split at h
  all_goals (first | (cases h; done) | (cases h; exact hp))

theorem addTask_pok {st st' : St} {t : Task} {r : Realm} (h : addTask st t r = .ok st') (hp : Pok st) (ht : t.pok) :
    Pok st' := by
  unfold addTask at h
  repeat' split at h
  all_goals (first | (cases h; done) | (cases h; pok_close))

def DataExpr.pok (d : DataExpr) : Prop := Qok d.file d.line d.col
def ArmInstr.pok (i : ArmInstr) : Prop := Qok i.file i.line i.col

theorem writeData_pok {d : DataExpr} {st : St} {bytes : Bytes} (hp : Pok st) (hd : d.pok) :
    ∀ d' st' r, d.writeData st bytes = .ok (d', st', r) → Pok st' ∧ d'.pok := by
  unfold DataExpr.writeData
  splits
  all_goals (intro d' st' r h)
  all_goals (first | (cases h; done) | (cases h; simp_all [Pok, St.pushIn, Dok, DataExpr.pok]))

theorem writer_pok {d : DataExpr} {st : St} (hp : Pok st) (hd : d.pok) :
    ∀ d' st' r, d.writer st = .ok (d', st', r) → Pok st' ∧ d'.pok := by
  unfold DataExpr.writer
  splits
  all_goals (first | exact writeData_pok hp hd | skip)
  all_goals (intro d' st' r h)
  all_goals (first | (cases h; done) | (cases h; simp_all [Pok, St.pushIn, Dok, DataExpr.pok]))

theorem apply_pok {d : DataExpr} {env : Env} {st : St} {loc : Bool} (hp : Pok st) (hd : d.pok) :
    ∀ d' st' op, d.apply env st loc = .ok (d', st', op) → Pok st' ∧ d'.pok := by
  unfold DataExpr.apply
  splits
  all_goals (intro d' st' op h)
  all_goals (first | (cases h; done) | skip)
  all_goals (try (rename_i hw; have w := (fun hd' => writer_pok hp hd' _ _ _ hw) hd))
  all_goals (cases h; simp_all [Pok, St.pushIn, Dok, DataExpr.pok])

theorem duDirective_pok {du : DU} {env : Env} {st : St} {line col : Nat} {args : List Arg} (hp : Pok st)
    (hq : Qok env.curName line col) :
    ∀ st' r, duDirective du env st line col args = .ok (st', r) → Pok st' := by
  unfold duDirective
  splits
  all_goals (intro st' r h)
  all_goals (first | (cases h; done) | skip)
  all_goals (try (have w1 := apply_pok (d := ⟨du, env.curName, line, col, _, _, false⟩) hp hq _ _ _ ‹DataExpr.apply _ _ _ _ = _›))
  all_goals (try (have w2 := writeData_pok w1.1 w1.2 _ _ _ ‹DataExpr.writeData _ _ _ = _›))
  all_goals (try (have w3 := addTask_pok ‹DataExpr.schedule _ _ _ = _› w2.1 w2.2))
  all_goals (cases h; pok_close)

theorem runDataTask_pok {d : DataExpr} {g : Bool} {env : Env} {st : St} (hp : Pok st) (hd : d.pok) :
    ∀ st' r, runDataTask d g env st = .ok (st', r) → Pok st' := by
  unfold runDataTask
  splits
  all_goals (intro st' r h)
  all_goals (first | (cases h; done) | skip)
  all_goals (try (have w1 := apply_pok hp hd _ _ _ ‹DataExpr.apply _ _ _ _ = _›))
  all_goals (try (have w3 := addTask_pok ‹DataExpr.schedule _ _ _ = _› w1.1 w1.2))
  all_goals (cases h; simp_all [Pok, St.pushIn, Dok, DataExpr.pok])

theorem assembleI_pok {i : ArmInstr} {env : Env} {st : St} {loc : Bool} (hp : Pok st) (hi : i.pok) :
    ∀ i' st' op, i.assemble env st loc = .ok (i', st', op) → Pok st' ∧ i'.pok := by
  unfold ArmInstr.assemble
  splits
  all_goals (intro i' st' op h)
  all_goals (first | (cases h; done) | (cases h; simp_all [Pok, St.pushIn, Dok, ArmInstr.pok]))

theorem writeInstr_pok {enc : Encoder} {i : ArmInstr} {st : St} {df : Bool} (hp : Pok st) (hi : i.pok) :
    ∀ i' st' r, i.writeInstr enc st df = .ok (i', st', r) → Pok st' ∧ i'.pok := by
  unfold ArmInstr.writeInstr
  splits
  all_goals (intro i' st' r h)
  all_goals (first | (cases h; done) | (cases h; simp_all [Pok, St.pushIn, Dok, ArmInstr.pok]))

theorem instruction_pok {enc : Encoder} {env : Env} {st : St} {line col : Nat} {name : Bytes} {args : List Arg}
    (hp : Pok st) (hq : Qok env.curName line col) :
    ∀ st' r, instruction enc env st line col name args = .ok (st', r) → Pok st' := by
  unfold instruction
  splits
  all_goals (intro st' r h)
  all_goals (first | (cases h; done) | skip)
  all_goals (try (have w1 := assembleI_pok (i := ⟨env.curName, line, col, _, false⟩) hp hq _ _ _ ‹ArmInstr.assemble _ _ _ _ = _›))
  all_goals (try (have w2 := writeInstr_pok w1.1 w1.2 _ _ _ ‹ArmInstr.writeInstr _ _ _ _ = _›))
  all_goals (try (have w3 := addTask_pok ‹ArmInstr.schedule _ _ _ = _› w2.1 w2.2))
  all_goals (cases h; pok_close)

theorem runInstrTask_pok {enc : Encoder} {i : ArmInstr} {g : Bool} {env : Env} {st : St} (hp : Pok st) (hi : i.pok) :
    ∀ st' r, runInstrTask enc i g env st = .ok (st', r) → Pok st' := by
  unfold runInstrTask
  splits
  all_goals (intro st' r h)
  all_goals (first | (cases h; done) | skip)
  all_goals (try (have w1 := assembleI_pok hp hi _ _ _ ‹ArmInstr.assemble _ _ _ _ = _›))
  all_goals (try (have w2 := writeInstr_pok w1.1 w1.2 _ _ _ ‹ArmInstr.writeInstr _ _ _ _ = _›))
  all_goals (try (have w3 := addTask_pok ‹ArmInstr.schedule _ _ _ = _› w1.1 w1.2))
  all_goals (cases h; simp_all [Pok, St.pushIn, Dok, ArmInstr.pok])

theorem runGlobalCopy_pok {name : Bytes} {line col : Nat} {env : Env} {st : St} (hp : Pok st)
    (hq : Qok env.curName line col) :
    ∀ st' r, runGlobalCopy name line col env st = .ok (st', r) → Pok st' := by
  unfold runGlobalCopy
  splits
  all_goals (intro st' r h)
  all_goals (first | (cases h; done) | skip)
  all_goals (try (have w1 := insertConstant_pok ‹insertConstant _ _ _ _ = _› hp))
  all_goals (cases h; pok_close)

theorem globalDirective_pok {g : GDir} {env : Env} {st : St} {line col : Nat} {args : List Arg} (hp : Pok st)
    (hq : Qok env.curName line col) :
    ∀ st' r, globalDirective g env st line col args = .ok (st', r) → Pok st' := by
  unfold globalDirective
  splits
  all_goals (intro st' r h)
  all_goals (first | (cases h; done) | skip)
  all_goals (try (have w2 := deferConstant_pok ‹deferConstant st _ Realm.global = _› hp))
  all_goals (try (have w1 := insertConstant_pok ‹insertConstant st _ _ _ = _› hp))
  all_goals (try (have w5 := deferConstant_pok ‹deferConstant st _ Realm.loc = _› hp))
  all_goals (try (have w1' := insertConstant_pok ‹insertConstant _ _ _ Realm.global = _› w2))
  all_goals (try (have w3 := deferConstant_pok ‹deferConstant _ _ Realm.loc = _› w2))
  all_goals (try (have w4 := addTask_pok (t := .globalCopy _ line col) ‹addTask _ _ _ = _› w3 ⟨hq.2.1, hq.2.2⟩))
  all_goals (try (have w4' := addTask_pok (t := .globalCopy _ line col) ‹addTask _ _ _ = _› w2 ⟨hq.2.1, hq.2.2⟩))
  all_goals (cases h; pok_close)

theorem evalStrict_pok {dir : String} {env : Env} {st st' : St} {line col : Nat} {a : Arg} {r : Res} (hp : Pok st)
    (hq : Qok env.curName line col)
    (h : evalStrict dir env st line col a = .ok (.error (st', r))) : Pok st' := by
  unfold evalStrict at h
  repeat' split at h
  all_goals (first | (cases h; done) | skip)
  all_goals (cases h; pok_close)

theorem addrDirective_pok {env : Env} {st : St} {line col : Nat} {args : List Arg} (hp : Pok st)
    (hq : Qok env.curName line col) :
    ∀ st' r, addrDirective env st line col args = .ok (st', r) → Pok st' := by
  unfold addrDirective
  splits
  all_goals (intro st' r h)
  all_goals (first | (cases h; done) | skip)
  all_goals (try (have w1 := evalStrict_pok hp hq ‹evalStrict _ _ _ _ _ _ = _›))
  all_goals (cases h; pok_close)

theorem alignDirective_pok {env : Env} {st : St} {line col : Nat} {args : List Arg} (hp : Pok st)
    (hq : Qok env.curName line col) :
    ∀ st' r, alignDirective env st line col args = .ok (st', r) → Pok st' := by
  unfold alignDirective
  splits
  all_goals (intro st' r h)
  all_goals (first | (cases h; done) | skip)
  all_goals (try (have w1 := evalStrict_pok hp hq ‹evalStrict _ _ _ _ _ _ = _›))
  all_goals (cases h; pok_close)

theorem constDirective_pok {env : Env} {st : St} {line col : Nat} {args : List Arg} (hp : Pok st)
    (hq : Qok env.curName line col) :
    ∀ st' r, constDirective env st line col args = .ok (st', r) → Pok st' := by
  unfold constDirective
  splits
  all_goals (intro st' r h)
  all_goals (first | (cases h; done) | skip)
  all_goals (try (have w1 := evalStrict_pok hp hq ‹evalStrict _ _ _ _ _ _ = _›))
  all_goals (try (have w2 := insertConstant_pok ‹insertConstant _ _ _ _ = _› hp))
  all_goals (cases h; pok_close)

theorem appendData_pok {dir : String} {env : Env} {st : St} {line col : Nat} {d : Bytes} (hp : Pok st)
    (hq : Qok env.curName line col) :
    ∀ st' r, appendData dir env st line col d = .ok (st', r) → Pok st' := by
  unfold appendData
  splits
  all_goals (intro st' r h)
  all_goals (first | (cases h; done) | skip)
  all_goals (cases h; pok_close)

theorem stringDirective_pok {fs : Bytes → Option Bytes} {dir : String} {env : Env} {st : St} {line col : Nat}
    {args : List Arg} (hp : Pok st) (hq : Qok env.curName line col) :
    ∀ st' r, stringDirective fs dir env st line col args = .ok (st', r) → Pok st' := by
  unfold stringDirective
  splits
  all_goals (first | exact appendData_pok hp hq | skip)
  all_goals (intro st' r h)
  all_goals (first | (cases h; done) | skip)
  all_goals (cases h; pok_close)

/-- what the recursive call of `.include` has to satisfy -/
def IncPok (fs : Bytes → Option Bytes) (inc : Inc) : Prop :=
  ∀ env st data path st' r, fs path = some data → Pok st → inc env st data path = .ok (st', r) → Pok st'

theorem includeDirective_pok {fs : Bytes → Option Bytes} (hfs : fs [] = none) {inc : Inc} (hinc : IncPok fs inc) {env : Env}
    {st : St} {line col : Nat} {args : List Arg} (hp : Pok st) (hq : Qok env.curName line col) :
    ∀ st' r, includeDirective fs inc env st line col args = .ok (st', r) → Pok st' := by
  unfold includeDirective
  splits
  all_goals (intro st' r h)
  all_goals (first | (cases h; done) | skip)
  all_goals (try (have w1 := hinc _ _ _ _ _ _ ‹fs _ = some _› hp ‹inc _ _ _ _ = _›))
  all_goals (cases h; pok_close)

theorem directive_pok {fs : Bytes → Option Bytes} (hfs : fs [] = none) {inc : Inc} (hinc : IncPok fs inc) {env : Env}
    {st : St} {line col : Nat} {name : Bytes} {args : List Arg} (hp : Pok st) (hq : Qok env.curName line col) :
    ∀ st' r, directive fs inc env st line col name args = .ok (st', r) → Pok st' := by
  delta directive
  by_cases h0 : name = bytesOf "addr"
  · rw [if_pos h0]; exact addrDirective_pok hp hq
  rw [if_neg h0]
  by_cases h1 : name = bytesOf "align"
  · rw [if_pos h1]; exact alignDirective_pok hp hq
  rw [if_neg h1]
  by_cases h2 : name = bytesOf "const"
  · rw [if_pos h2]; exact constDirective_pok hp hq
  rw [if_neg h2]
  by_cases h3 : name = bytesOf "du8"
  · rw [if_pos h3]; exact duDirective_pok hp hq
  rw [if_neg h3]
  by_cases h4 : name = bytesOf "du16"
  · rw [if_pos h4]; exact duDirective_pok hp hq
  rw [if_neg h4]
  by_cases h5 : name = bytesOf "du32"
  · rw [if_pos h5]; exact duDirective_pok hp hq
  rw [if_neg h5]
  by_cases h6 : name = bytesOf "dhex"
  · rw [if_pos h6]; exact stringDirective_pok hp hq
  rw [if_neg h6]
  by_cases h7 : name = bytesOf "dstr"
  · rw [if_pos h7]; exact stringDirective_pok hp hq
  rw [if_neg h7]
  by_cases h8 : name = bytesOf "dfile"
  · rw [if_pos h8]; exact stringDirective_pok hp hq
  rw [if_neg h8]
  by_cases h9 : name = bytesOf "global"
  · rw [if_pos h9]; exact globalDirective_pok hp hq
  rw [if_neg h9]
  by_cases h10 : name = bytesOf "import"
  · rw [if_pos h10]; exact globalDirective_pok hp hq
  rw [if_neg h10]
  by_cases h11 : name = bytesOf "export"
  · rw [if_pos h11]; exact globalDirective_pok hp hq
  rw [if_neg h11]
  by_cases h12 : name = bytesOf "include"
  · rw [if_pos h12]; exact includeDirective_pok hfs hinc hp hq
  rw [if_neg h12]
  intro st' r h; cases h; pok_close

theorem statement_pok {fs : Bytes → Option Bytes} (hfs : fs [] = none) {enc : Encoder} {inc : Inc} (hinc : IncPok fs inc)
    {env : Env} {st : St} {el : Element} (hp : Pok st) (hq : Qok env.curName el.line el.col) :
    ∀ st' r, statement fs enc inc env st el = .ok (st', r) → Pok st' := by
  unfold statement
  splits
  all_goals (first | exact directive_pok hfs hinc hp hq | exact instruction_pok hp hq | skip)
  all_goals (intro st' r h)
  all_goals (first | (cases h; done) | skip)
  all_goals (try (have w1 := insertConstant_pok ‹insertConstant _ _ _ _ = _› hp))
  all_goals (cases h; pok_close)

theorem doAssemble_pok {fs : Bytes → Option Bytes} (hfs : fs [] = none) {enc : Encoder} {inc : Inc} (hinc : IncPok fs inc)
    {env : Env} (hn : env.curName ≠ []) (err : Option ParseErr) (herr : ∀ e, err = some e → Lex.P1 e.line e.col) :
    ∀ (els : List Element) (st st' : St) (r : Res), (∀ el ∈ els, Lex.P1 el.line el.col) → Pok st →
      doAssemble fs enc inc env els err st = .ok (st', r) → Pok st' := by
  intro els
  induction els with
  | nil =>
    intro st st' r _ hp h
    cases err with
    | none => simp only [doAssemble] at h; cases h; exact hp
    | some e =>
      simp only [doAssemble] at h
      cases h
      have := herr e rfl
      unfold Lex.P1 at this
      pok_close
  | cons el els ih =>
    intro st st' r hels hp h
    simp only [doAssemble] at h
    have hq : Qok env.curName el.line el.col := ⟨hn, (hels el List.mem_cons_self).1, (hels el List.mem_cons_self).2⟩
    split at h
    · have w1 := statement_pok hfs hinc hp hq _ _ ‹statement _ _ _ _ _ _ = _›
      exact ih _ _ _ (fun x hx => hels x (List.mem_cons_of_mem _ hx)) w1 h
    · have w1 := statement_pok hfs hinc hp hq _ _ ‹statement _ _ _ _ _ _ = _›
      cases h; exact w1
    · cases h

theorem runTask_pok {enc : Encoder} {env : Env} (hn : env.curName ≠ []) {st : St} {t : Task} (hp : Pok st) (ht : t.pok) :
    ∀ st' r, runTask enc env st t = .ok (st', r) → Pok st' := by
  cases t with
  | data d g => exact runDataTask_pok hp ht
  | instr i g => exact runInstrTask_pok hp ht
  | globalCopy n l c => exact runGlobalCopy_pok hp ⟨hn, ht.1, ht.2⟩

theorem localRound_pok {enc : Encoder} {env : Env} (hn : env.curName ≠ []) : ∀ (ts : List Task) (st : St) (res : Res)
    (st' : St) (r : Res), Pok st → TsPok ts → localRound enc env ts st res = .ok (st', r) → Pok st' := by
  intro ts
  induction ts with
  | nil => intro st res st' r hp _ h; simp only [localRound] at h; cases h; exact hp
  | cons t ts ih =>
    intro st res st' r hp hts h
    simp only [localRound] at h
    have ht : t.pok := hts t List.mem_cons_self
    have hts' : TsPok ts := fun x hx => hts x (List.mem_cons_of_mem _ hx)
    split at h
    · exact ih _ _ _ _ (runTask_pok hn hp ht _ _ ‹runTask _ _ _ _ = _›) hts' h
    · have w := runTask_pok hn hp ht _ _ ‹runTask _ _ _ _ = _›
      split at h
      · cases h; exact w
      · exact ih _ _ _ _ w hts' h
    · cases h

theorem localLoop_pok {enc : Encoder} {env : Env} (hn : env.curName ≠ []) : ∀ (n : Nat) (ts : List Task) (st : St)
    (res : Res) (st' : St) (r : Res), Pok st → TsPok ts → localLoop enc env n ts st res = .ok (st', r) → Pok st' := by
  intro n
  induction n with
  | zero => intro ts st res st' r _ _ h; simp [localLoop] at h
  | succ n ih =>
    intro ts st res st' r hp hts h
    simp only [localLoop] at h
    split at h
    · cases h; exact hp
    · split at h
      · rename_i st1 res1 hr
        have w1 := localRound_pok hn _ _ _ _ _ hp hts hr
        split at h
        · cases h
        · rename_i new hnew
          have hnewok : TsPok new := by have := w1.2.2; rw [hnew] at this; exact this
          have w2 : Pok { st1 with localTasks := some [] } := ⟨w1.1, w1.2.1, tsPok_nil⟩
          split at h
          · cases h; exact w2
          · exact ih _ _ _ _ _ w2 hnewok h
      · cases h

theorem parseFile_p1 {data : Bytes} {els : List Element} {err : Option ParseErr} (h : parseFile data = .ok (els, err)) :
    (∀ el ∈ els, Lex.P1 el.line el.col) ∧ (∀ e, err = some e → Lex.P1 e.line e.col) := by
  unfold parseFile at h
  split at h
  · rename_i lo hl
    split at h
    · rename_i els' err' hp
      cases h
      exact Parse.all_p1 hl hp
    · cases h
    · cases h
  · cases h
  · cases h

theorem fileBody_pok {fs : Bytes → Option Bytes} (hfs : fs [] = none) {enc : Encoder} {inc : Inc} (hinc : IncPok fs inc)
    {env : Env} (hn : env.curName ≠ []) {data : Bytes} {st : St} (hp : Pok st) :
    ∀ st' r, fileBody fs enc inc env data st = .ok (st', r) → Pok st' := by
  intro st' r h
  unfold fileBody at h
  split at h
  · rename_i els perr hpf
    have hpos := parseFile_p1 hpf
    split at h
    · rename_i st3 res hd
      have w1 := doAssemble_pok hfs hinc hn perr hpos.2 _ _ _ _ hpos.1 hp hd
      split at h
      · cases h; exact w1
      · split at h
        · cases h
        · rename_i tasks ht
          have htok : TsPok tasks := by have := w1.2.2; rw [ht] at this; exact this
          exact localLoop_pok hn _ _ _ _ _ _ (show Pok { st3 with localTasks := some [] } from ⟨w1.1, w1.2.1, tsPok_nil⟩) htok h
    · cases h
  · cases h

theorem enter_leave_pok {st : St} (hp : Pok st) :
    Pok (enterFile st).2.2 ∧ ∀ st4, Pok st4 → Pok (leaveFile (enterFile st).1 (enterFile st).2.1 st4) := by
  unfold enterFile leaveFile
  obtain ⟨he, hg, hl⟩ := hp
  cases hloc : st.locals <;> cases hlt : st.localTasks <;> simp only [hlt] <;>
    (refine ⟨?_, fun st4 h4 => ?_⟩) <;> (first | (simp_all [Pok]; done) | skip)
  all_goals (obtain ⟨h41, h42, h43⟩ := h4; simp_all [Pok])

theorem assembleFile_pok (fs : Bytes → Option Bytes) (hfs : fs [] = none) (enc : Encoder) :
    ∀ fuel, IncPok fs (assembleFile fs enc fuel) := by
  intro fuel
  induction fuel with
  | zero => intro env st data path st' r _ _ h; simp [assembleFile] at h
  | succ fuel ih =>
    intro env st data path st' r hdata hp h
    have hpath : path ≠ [] := fun e => by rw [e, hfs] at hdata; cases hdata
    simp only [assembleFile, List.length_cons, Nat.add_one_ne_zero, if_false, ne_eq, not_true_eq_false] at h
    have hel := enter_leave_pok hp
    generalize enterFile st = ef at h hel
    obtain ⟨c, t, st2⟩ := ef
    simp only at h hel
    split at h
    · rename_i st4 res hf
      have w := fileBody_pok hfs ih (env := { paths := path :: env.paths, curName := path }) hpath hel.1 _ _ hf
      cases h
      exact hel.2 _ w
    · cases h

theorem globalRound_pok {enc : Encoder} {env : Env} (hn : env.curName ≠ []) : ∀ (ts : List Task) (st st' : St) (ab : Bool),
    Pok st → TsPok ts → globalRound enc env ts st = .ok (st', ab) → Pok st' := by
  intro ts
  induction ts with
  | nil => intro st st' ab hp _ h; simp only [globalRound] at h; cases h; exact hp
  | cons t ts ih =>
    intro st st' ab hp hts h
    simp only [globalRound] at h
    split at h
    · have w := runTask_pok hn hp (hts t List.mem_cons_self) _ _ ‹runTask _ _ _ _ = _›
      split at h
      · cases h; exact w
      · exact ih _ _ _ w (fun x hx => hts x (List.mem_cons_of_mem _ hx)) h
    · cases h

theorem globalLoop_pok {enc : Encoder} {env : Env} (hn : env.curName ≠ []) : ∀ (n : Nat) (ts : List Task) (st st' : St)
    (ab : Bool), Pok st → TsPok ts → globalLoop enc env n ts st = .ok (st', ab) → Pok st' := by
  intro n
  induction n with
  | zero => intro ts st st' ab _ _ h; simp [globalLoop] at h
  | succ n ih =>
    intro ts st st' ab hp hts h
    simp only [globalLoop] at h
    split at h
    · cases h; exact hp
    · split at h
      · rename_i st1 ab1 hr
        have w1 := globalRound_pok hn _ _ _ _ hp hts hr
        have w2 : Pok { st1 with globalTasks := [] } := ⟨w1.1, tsPok_nil, w1.2.2⟩
        split at h
        · cases h; exact w2
        · exact ih _ _ _ _ w2 w1.2.1 h
      · cases h

theorem finalize_pok {enc : Encoder} {st st' : St} {fin : Bool} (hp : Pok st)
    (h : finalize enc Env.init st = .ok (st', fin)) : Pok st' := by
  unfold finalize at h
  split at h
  · rename_i st2 ab hl
    cases h
    exact globalLoop_pok (env := Env.init) (by simp [Env.init, bytesOf]) _ _ _ _ _ (show Pok { st with globalTasks := [] } from ⟨hp.1, tsPok_nil, hp.2.2⟩) hp.2.1 hl
  · cases h

end Trion.Asm
