import TrionModel.Lemmas.AsmMultiTasks
/-!
# Running a queued `.du*` task against the layout core, whatever the provenance of its tree

`Multi.runTask_sim'` (Lemmas/AsmMultiTasks.lean) ties the tree a `.du*` task carries to the source operand through
`TaskRel`: the first attempt stopped at an unknown name over a table without Deferred entries, and the retry theorem makes the
re-evaluation the fresh evaluation.  `runTask_sim_data` is the same simulation step with that link as a HYPOTHESIS
(`hagree`: whatever number the carried tree evaluates to over the final table, the source operand evaluates to it as well):
the form needed for a statement whose first attempt met a `Deferred` name (`deferred_du_task_bytes_direct`, Props/C05Multi4.lean,
discharges `hagree` under `DirectOk`) and for a task handed up to the includer.
-/
namespace Trion.Asm.Multi
open Trion Trion.SegLayout Trion.Asm

section
variable {num : Bytes → Nat} {enc : Encoder} {t₂ : Table} {G : List Task} {Gt : Table}

theorem runTask_sim_data (henc : EncLen enc) {st st' : St} {l : Layout.State} (ts : TSim num t₂ G Gt st l) (env : Env)
    (henv : env.paths.isEmpty = false) (d : DataExpr) (lt : Layout.Task) (a : Arg)
    (hpl : d.placed = true) (haddr : lt.addr = d.addr) (hlen : lt.len = d.du.size)
    (hdeps : lt.deps = (idents a).map num) (hfinal : lt.final = duFinal t₂ d.du a)
    (hagree : ∀ v, evalIn t₂ d.arg = .ok (.complete (.const v)) → evalIn t₂ a = .ok (.complete (.const v)))
    (hok : TaskOk st.seg.pending (.data d false)) (h : runTask enc env st (.data d false) = .ok (st', .ok)) :
    ∃ l', l.env.hasAll lt.deps = true ∧ Layout.rewrite l lt.addr lt.final = .ok l' ∧ TSim num t₂ G Gt st' l' ∧
      st'.seg.pending = st.seg.pending ∧ cursor st' = cursor st := by
  have hsafe := (runTask_safe henc ts.good (by simpa using henv) (.data d false) hok (fun hh => by cases hh)).2 _ _ h
  obtain ⟨_, hpend⟩ := hok
  simp only [runTask, runDataTask] at h
  cases hap : d.apply env st false with
  | stop r => rw [hap] at h; cases h
  | ok p =>
    obtain ⟨d1, st1, op⟩ := p
    rw [hap] at h
    unfold DataExpr.apply at hap
    rw [evalArg_eq henv ts.loc] at hap
    obtain ⟨ev, hev⟩ := evalIn_ok t₂ d.arg
    rw [hev] at hap
    cases ev with
    | deferred c x => exact absurd hev (evalIn_not_deferred ts.nodef _ _ _)
    | err e x =>
      simp only [Out.ok.injEq, Prod.mk.injEq] at hap
      obtain ⟨_, _, hop⟩ := hap
      subst hop
      simp at h
    | noSuch m x =>
      simp only [Bool.false_eq_true, if_false, Out.ok.injEq, Prod.mk.injEq] at hap
      obtain ⟨_, _, hop⟩ := hap
      subst hop
      simp at h
    | complete x =>
      simp only at hap
      cases hw : ({ d with arg := x } : DataExpr).writer st with
      | stop r => rw [hw] at hap; cases hap
      | ok q2 =>
        obtain ⟨d2, st2, r⟩ := q2
        rw [hw] at hap
        cases r with
        | err lv =>
          simp only [Out.ok.injEq, Prod.mk.injEq] at hap
          obtain ⟨_, _, hop⟩ := hap
          subst hop
          simp at h
        | ok =>
          simp only [Out.ok.injEq, Prod.mk.injEq] at hap
          obtain ⟨_, hst1, hop⟩ := hap
          subst hst1; subst hop
          simp only [Out.ok.injEq, Prod.mk.injEq, and_true] at h
          subst h
          unfold DataExpr.writer at hw
          cases x with
          | const v =>
            simp only at hw
            by_cases hv : 0 ≤ v ∧ v ≤ d.du.max
            · rw [if_pos hv] at hw
              unfold DataExpr.writeData at hw
              simp only [hpl] at hw
              have hbl : (leBytes d.du.size v.toNat).length = d.du.size := leBytes_length _ _
              cases hws : writeStmt st.seg true d.addr (leBytes d.du.size v.toNat) with
              | stop r => rw [hws] at hw; cases hw
              | ok q3 =>
                obtain ⟨s', p', e⟩ := q3
                rw [hws] at hw
                obtain ⟨he', l', q1, q2, q3', q4⟩ := rewrite_step_sim ts.good ts.r (by rw [hbl]; exact hpend) hws
                subst he'
                simp only [Out.ok.injEq, Prod.mk.injEq, and_true] at hw
                obtain ⟨_, hst2⟩ := hw
                subst hst2
                have hev' : evalIn t₂ a = .ok (.complete (.const v)) := hagree v hev
                have hfin : lt.final = leBytes d.du.size v.toNat := by
                  rw [hfinal]; simp only [duFinal, constVal, hev', hv, and_self, if_true]
                have hall : l.env.hasAll lt.deps = true := by
                  rw [hdeps]; exact hasAll_of_known ts.env ts.nodef (evalIn_complete_idents hev')
                have hpend' : s'.pending = st.seg.pending := by
                  obtain ⟨_, hsr⟩ := segStep_rewrite ts.good.inv d.addr (leBytes d.du.size v.toNat) (by rw [hbl]; exact hpend)
                  unfold writeStmt at hws
                  simp only [Bool.not_true, Bool.false_and, Bool.false_eq_true, if_false] at hws
                  cases hs : segStep st.seg (.rewrite d.addr (leBytes d.du.size v.toNat)) with
                  | stop x => rw [hs] at hws; cases hws
                  | ok p =>
                    obtain ⟨s1, o⟩ := p
                    rw [hs] at hws
                    obtain ⟨ho, _, hp3, _⟩ := hsr _ _ hs
                    subst ho
                    simp only [Out.ok.injEq, Prod.mk.injEq] at hws
                    rw [← hws.1]; exact hp3
                have hcurW := writeStmt_cursor ts.good.inv (by rw [hbl]; exact hpend) hws
                refine ⟨l', hall, by rw [haddr, hfin]; exact q1,
                  ⟨hsafe.1, q2, ts.loc, ts.nodef, by rw [q3']; exact ts.env, ts.lq, ts.gl⟩, hpend', hcurW⟩
            · rw [if_neg hv] at hw; simp at hw
          | _ => simp at hw


/-- the same for an instruction task: `hagree` — whenever the re-run from the queued state completes over the final table, the
fresh assembly of the source statement completes with the same instruction -/
theorem runTask_sim_instr (henc : EncLen enc) {st st' : St} {l : Layout.State} (ts : TSim num t₂ G Gt st l) (env : Env)
    (henv : env.paths.isEmpty = false) (i : ArmInstr) (lt : Layout.Task) (tpl : Instr) (args : List Arg)
    (hpl : i.placed = true) (haddr : lt.addr = i.st.addr) (hlen : lt.len = ilen i.st.instr)
    (hdeps : lt.deps = (instrDeps (Front.kinds tpl) args).map num)
    (hfinal : lt.final = instrFinal enc t₂ i.st.addr tpl args)
    (hagree : ∀ fs2, Front.assemble i.st (frontEval t₂) false = (fs2, .completed) →
      ∃ fs', Front.assemble ⟨i.st.addr, tpl, 0, args⟩ (frontEval t₂) true = (fs', .completed) ∧ fs'.instr = fs2.instr)
    (hok : TaskOk st.seg.pending (.instr i false)) (h : runTask enc env st (.instr i false) = .ok (st', .ok)) :
    ∃ l', l.env.hasAll lt.deps = true ∧ Layout.rewrite l lt.addr lt.final = .ok l' ∧ TSim num t₂ G Gt st' l' ∧
      st'.seg.pending = st.seg.pending ∧ cursor st' = cursor st := by
  have hsafe := (runTask_safe henc ts.good (by simpa using henv) (.instr i false) hok (fun hh => by cases hh)).2 _ _ h
  obtain ⟨_, hpend⟩ := hok
  simp only [runTask, runInstrTask] at h
  cases has : i.assemble env st false with
  | stop r => rw [has] at h; cases h
  | ok p =>
    obtain ⟨i1, st1, op⟩ := p
    rw [has] at h
    simp only [ArmInstr.assemble, evalTable, henv, ts.loc, evalPanics_false, Bool.false_eq_true, if_false] at has
    cases hfa : Front.assemble i.st (frontEval t₂) false with
    | mk fs2 r =>
      rw [hfa] at has
      have hkeep := Front.assemble_keeps i.st (frontEval t₂) false
      rw [hfa] at hkeep
      simp only at hkeep
      obtain ⟨hka, hkl⟩ := hkeep
      cases r with
      | panic => cases has
      | deferred c' => exact absurd hfa (assemble_not_deferred ts.nodef _ _ _)
      | error dg =>
        simp only [Out.ok.injEq, Prod.mk.injEq] at has
        obtain ⟨_, _, hop⟩ := has
        subst hop
        simp at h
      | completed =>
        simp only [Out.ok.injEq, Prod.mk.injEq] at has
        obtain ⟨hi1, hst1, hop⟩ := has
        subst hi1; subst hst1; subst hop
        simp only at h
        cases hw : ArmInstr.writeInstr enc { i with st := fs2 } st false with
        | stop r => rw [hw] at h; cases h
        | ok q2 =>
          obtain ⟨i2, st2, r⟩ := q2
          rw [hw] at h
          simp only [Out.ok.injEq, Prod.mk.injEq] at h
          obtain ⟨h1, h2⟩ := h
          subst h1; subst h2
          unfold ArmInstr.writeInstr at hw
          cases he : enc fs2.instr with
          | error e => simp only [he] at hw; simp at hw
          | ok bytes =>
            simp only [he, Bool.false_eq_true, if_false, hpl] at hw
            have hbl : bytes.length = ilen i.st.instr := by rw [henc _ _ he, hkl]
            cases hws : writeStmt st.seg true fs2.addr bytes with
            | stop r => rw [hws] at hw; cases hw
            | ok q3 =>
              obtain ⟨s', p', e⟩ := q3
              rw [hws] at hw
              rw [hka] at hws
              obtain ⟨he', l', q1, q2, q3', q4⟩ := rewrite_step_sim ts.good ts.r (by rw [hbl]; exact hpend) hws
              subst he'
              simp only [Out.ok.injEq, Prod.mk.injEq, and_true] at hw
              obtain ⟨_, hst2⟩ := hw
              subst hst2
              -- the retry theorem: the re-run is the fresh run over the final table
              obtain ⟨fs', hfresh, hfi⟩ := hagree fs2 hfa
              have hfin : lt.final = bytes := by
                rw [hfinal]; simp only [instrFinal, hfresh, hfi, he]
              have hall : l.env.hasAll lt.deps = true := by
                rw [hdeps]; exact hasAll_of_known ts.env ts.nodef (assemble_completed_deps hfresh)
              have hpend' : s'.pending = st.seg.pending := by
                obtain ⟨_, hsr⟩ := segStep_rewrite ts.good.inv i.st.addr bytes (by rw [hbl]; exact hpend)
                unfold writeStmt at hws
                simp only [Bool.not_true, Bool.false_and, Bool.false_eq_true, if_false] at hws
                cases hs : segStep st.seg (.rewrite i.st.addr bytes) with
                | stop x => rw [hs] at hws; cases hws
                | ok p =>
                  obtain ⟨s1, o⟩ := p
                  rw [hs] at hws
                  obtain ⟨ho, _, hp3, _⟩ := hsr _ _ hs
                  subst ho
                  simp only [Out.ok.injEq, Prod.mk.injEq] at hws
                  rw [← hws.1]; exact hp3
              have hcurW := writeStmt_cursor ts.good.inv (by rw [hbl]; exact hpend) hws
              refine ⟨l', hall, by rw [haddr, hfin]; exact q1,
                ⟨hsafe.1, q2, ts.loc, ts.nodef, by rw [q3']; exact ts.env, ts.lq, ts.gl⟩, hpend', hcurW⟩

end

end Trion.Asm.Multi
