import TrionModel.Lemmas.ArmTac
/-! Agreement of the ARMv6-M table with the decoder model on 16-bit patterns, group by group:
`decodeIn table16 h 16 = toOpt (decode16 h)`.  The decoder side is split into its branches (`dec_split`),
in every branch the few rows of the group are walked (`spec_leaf`). -/
set_option linter.unusedSimpArgs false
namespace Trion.Codec
open Trion Trion.Arm

theorem spec16_24 (h : Nat) (hlt : h < 65536) (hk : h / 2048 = 24) : decodeIn table16 h 16 = toOpt (decode16 h) := by
  rw [table16_at_24 h hlt hk]
  generalize hres : decode16 h = res
  unfold g24
  dec_split at hres
  all_goals (subst hres; spec_leaf)

theorem spec16_25 (h : Nat) (hlt : h < 65536) (hk : h / 2048 = 25) : decodeIn table16 h 16 = toOpt (decode16 h) := by
  rw [table16_at_25 h hlt hk]
  generalize hres : decode16 h = res
  unfold g25
  dec_split at hres
  all_goals (subst hres; spec_leaf)

theorem spec16_26 (h : Nat) (hlt : h < 65536) (hk : h / 2048 = 26) : decodeIn table16 h 16 = toOpt (decode16 h) := by
  rw [table16_at_26 h hlt hk]
  generalize hres : decode16 h = res
  unfold g26
  dec_split at hres
  all_goals (subst hres; spec_leaf)

theorem spec16_27 (h : Nat) (hlt : h < 65536) (hk : h / 2048 = 27) : decodeIn table16 h 16 = toOpt (decode16 h) := by
  rw [table16_at_27 h hlt hk]
  generalize hres : decode16 h = res
  unfold g26
  dec_split at hres
  all_goals (subst hres; spec_leaf)

theorem spec16_28 (h : Nat) (hlt : h < 65536) (hk : h / 2048 = 28) : decodeIn table16 h 16 = toOpt (decode16 h) := by
  rw [table16_at_28 h hlt hk]
  generalize hres : decode16 h = res
  unfold g28
  dec_split at hres
  all_goals (subst hres; spec_leaf)

end Trion.Codec
