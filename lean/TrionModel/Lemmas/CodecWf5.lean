import TrionModel.Lemmas.CodecWf
namespace Trion.Codec
theorem wfBlock5 : wfBlock 5 32 := by decide +kernel
end Trion.Codec
