import TrionModel.Lemmas.MapCount
import TrionModel.Model.MapOps
/-!
# Operational memory map: list surgery, the shape of a well-formed map around a range, `locate` on shapes
-/
namespace Trion.Map
open Trion.Dict

@[simp] theorem Out.bind_ok {α β : Type} (a : α) (f : α → Out β) : (Out.ok a).bind f = f a := rfl

/-! ## list surgery around a distinguished element -/

theorem getElem?_mid (A : Segs) (x : Seg) (R : Segs) : (A ++ x :: R)[A.length]? = some x := by simp

theorem set_mid (A : Segs) (x y : Seg) (R : Segs) : (A ++ x :: R).set A.length y = A ++ y :: R := by
  induction A with
  | nil => rfl
  | cons a A ih => simp only [List.cons_append, List.length_cons, List.set_cons_succ, ih]

theorem take_mid (A R : Segs) : (A ++ R).take A.length = A := List.take_left' rfl

theorem drop_mid (A R : Segs) : (A ++ R).drop A.length = R := List.drop_left' rfl

theorem take_mid_succ (A : Segs) (x : Seg) (R : Segs) : (A ++ x :: R).take (A.length + 1) = A ++ [x] := by
  have : A ++ x :: R = (A ++ [x]) ++ R := by simp
  rw [this]; exact List.take_left' (by simp)

theorem drop_mid_succ (A : Segs) (x : Seg) (R : Segs) : (A ++ x :: R).drop (A.length + 1) = R := by
  have : A ++ x :: R = (A ++ [x]) ++ R := by simp
  rw [this]; exact List.drop_left' (by simp)

theorem eraseIdx_mid (A : Segs) (x : Seg) (R : Segs) : (A ++ x :: R).eraseIdx A.length = A ++ R := by
  induction A with
  | nil => rfl
  | cons a A ih => simp only [List.cons_append, List.length_cons, List.eraseIdx_cons_succ, ih]

/-! ## `Ok` on pieces -/

theorem Ok_append_right {l : Nat} {A q : Segs} (ok : Ok l (A ++ q)) : Ok l q := by
  induction A generalizing l with
  | nil => exact ok
  | cons s A ih =>
    obtain ⟨f, x⟩ := s
    obtain ⟨o1, _, _, o4⟩ := ok
    exact Ok_mono (by omega) (ih o4)

/-- every member of an `Ok` list: lower bound, non-empty, below 2^32 -/
theorem Ok_mem_bounds {l : Nat} {ps : Segs} (ok : Ok l ps) {t : Seg} (h : t ∈ ps) :
    l ≤ t.1 ∧ t.2 ≠ [] ∧ t.1 + t.2.length ≤ 4294967296 := by
  induction ps generalizing l with
  | nil => simp at h
  | cons s r ih =>
    obtain ⟨f, x⟩ := s
    obtain ⟨o1, o2, o3, o4⟩ := ok
    rcases List.mem_cons.mp h with rfl | h
    · exact ⟨o1, o2, o3⟩
    · have := ih o4 h; exact ⟨by omega, this.2⟩

/-- in `M ++ s :: R` every member of `M` ends (with a gap) before `s` starts -/
theorem Ok_append_lt {l : Nat} {M : Segs} {s : Seg} {R : Segs} (ok : Ok l (M ++ s :: R)) {m : Seg}
    (h : m ∈ M) : m.1 + m.2.length < s.1 := by
  induction M generalizing l with
  | nil => simp at h
  | cons u M ih =>
    obtain ⟨f, x⟩ := u
    obtain ⟨o1, o2, o3, o4⟩ := ok
    rcases List.mem_cons.mp h with rfl | h
    · have := Ok_mem o4 (show s ∈ M ++ s :: R by simp)
      simp only; omega
    · exact ih o4 h

/-- the part after the head lies above the head (with a gap) -/
theorem Ok_tail {l f : Nat} {x : List UInt8} {r : Segs} (ok : Ok l ((f, x) :: r)) :
    Ok (f + x.length + 1) r := ok.2.2.2

/-- replacing a segment by a non-empty sub-segment keeps the list well formed -/
theorem Ok_replace {l : Nat} {A : Segs} {f : Nat} {x : List UInt8} {R : Segs} (ok : Ok l (A ++ (f, x) :: R))
    {f' : Nat} {x' : List UInt8} (h1 : f ≤ f') (h2 : x' ≠ []) (h3 : f' + x'.length ≤ f + x.length) :
    Ok l (A ++ (f', x') :: R) := by
  induction A generalizing l with
  | nil =>
    obtain ⟨o1, o2, o3, o4⟩ := ok
    exact ⟨by omega, h2, by omega, Ok_mono (by omega) o4⟩
  | cons s A ih =>
    obtain ⟨g, y⟩ := s
    obtain ⟨o1, o2, o3, o4⟩ := ok
    exact ⟨o1, o2, o3, ih o4⟩

/-- a list all of whose members start above `t` is well formed from `t + 1` on -/
theorem Ok_above {l : Nat} {R : Segs} (ok : Ok l R) {t : Nat} (h : ∀ s ∈ R, t < s.1) : Ok (t + 1) R := by
  cases R with
  | nil => trivial
  | cons s r =>
    obtain ⟨f, x⟩ := s
    have := h (f, x) (List.mem_cons_self ..)
    exact ⟨by simp only at this; omega, ok.2⟩

/-! ## counting the leading segments that start at or below `t` -/

/-- number of leading segments whose first address is `≤ t` -/
def cntLE (t : Nat) : Segs → Nat
  | [] => 0
  | s :: r => if t < s.1 then 0 else cntLE t r + 1

theorem cntLE_zero {l : Nat} {ps : Segs} (ok : Ok l ps) {t : Nat} (h : t < l) : cntLE t ps = 0 := by
  cases ps with
  | nil => rfl
  | cons s r =>
    obtain ⟨f, x⟩ := s
    have := ok.1
    simp only [cntLE]; rw [if_pos (by omega)]

theorem locLin_below_cnt {l : Nat} {ps : Segs} (ok : Ok l ps) (a i : Nat) :
    locLin a .below ps i = if i + cntLE a ps > 0 then .idx (i + cntLE a ps - 1) else .none := by
  induction ps generalizing l i with
  | nil => simp [locLin_nil, cntLE]
  | cons s r ih =>
    obtain ⟨f, x⟩ := s
    obtain ⟨o1, o2, o3, o4⟩ := ok
    have hx : 0 < x.length := List.length_pos_iff.mpr o2
    rw [locLin_cons]
    by_cases c1 : a < f
    · have e : cntLE a ((f, x) :: r) = 0 := by simp [cntLE, c1]
      rw [if_pos c1, e]; rfl
    · have e : cntLE a ((f, x) :: r) = cntLE a r + 1 := by simp [cntLE, c1]
      rw [if_neg c1, e]
      by_cases c2 : a > segLast (f, x)
      · rw [if_pos c2, ih o4, if_pos (by omega), if_pos (by omega)]
        congr 1; omega
      · rw [if_neg c2]
        have : cntLE a r = 0 := cntLE_zero o4 (by unfold segLast at c2; simp only at c2; omega)
        rw [this, if_pos (by omega)]
        congr 1

theorem cntLE_shape (t : Nat) (P R : Segs) (hP : ∀ s ∈ P, s.1 ≤ t) (hR : ∀ s ∈ R, t < s.1) :
    cntLE t (P ++ R) = P.length := by
  induction P with
  | nil =>
    cases R with
    | nil => rfl
    | cons s r =>
      have := hR s (List.mem_cons_self ..)
      simp [cntLE, this]
  | cons s P ih =>
    have h1 := hP s (List.mem_cons_self ..)
    have := ih (fun u hu => hP u (List.mem_cons_of_mem _ hu))
    simp only [List.cons_append, cntLE, List.length_cons]
    rw [if_neg (by omega), this]

theorem skipBelow_shape (t : Nat) (A Q : Segs) (hA : ∀ s ∈ A, segLast s < t) (hQ : ∀ s ∈ Q, t ≤ segLast s) :
    skipBelow t (A ++ Q) = A.length := by
  induction A with
  | nil =>
    cases Q with
    | nil => rfl
    | cons s r =>
      have := hQ s (List.mem_cons_self ..)
      simp only [List.nil_append, skipBelow, List.length_nil]
      rw [if_neg (by omega)]
  | cons s A ih =>
    have h1 := hA s (List.mem_cons_self ..)
    have := ih (fun u hu => hA u (List.mem_cons_of_mem _ hu))
    simp only [List.cons_append, skipBelow, List.length_cons]
    rw [if_pos h1, this]

/-- `locate(t, Below)` on `P ++ R` where `P` are the segments starting at or below `t` -/
theorem locate_below_shape {l : Nat} {qs P R : Segs} (ok : Ok l qs) (e : qs = P ++ R) {t : Nat}
    (hP : ∀ s ∈ P, s.1 ≤ t) (hR : ∀ s ∈ R, t < s.1) :
    locate qs t .below = if P.length > 0 then .idx (P.length - 1) else .none := by
  rw [locate_eq_locLin ok, locLin_below_cnt ok, e, cntLE_shape t P R hP hR]
  simp

/-- `locate(t, Above)` on `A ++ Q` where `A` are the segments ending below `t` -/
theorem locate_above_shape {l : Nat} {qs A Q : Segs} (ok : Ok l qs) (e : qs = A ++ Q) {t : Nat}
    (hA : ∀ s ∈ A, segLast s < t) (hQ : ∀ s ∈ Q, t ≤ segLast s) :
    locate qs t .above = if Q.length > 0 then .idx A.length else .none := by
  rw [locate_eq_locLin ok, locLin_above_skip, e, skipBelow_shape t A Q hA hQ]
  simp only [Nat.zero_add, List.length_append]
  by_cases c : Q.length > 0
  · rw [if_pos c, if_pos (by omega)]
  · rw [if_neg c, if_neg (by omega)]

theorem firstIdx_shape {l : Nat} {qs A Q : Segs} (ok : Ok l qs) (e : qs = A ++ Q) {t : Nat}
    (hA : ∀ s ∈ A, segLast s < t) (hQ : ∀ s ∈ Q, t ≤ segLast s) :
    firstIdx qs t = .ok A.length := by
  rw [firstIdx_eq ok, e, skipBelow_shape t A Q hA hQ]

/-! ## the shape of a well-formed map around the window `t1 … t2` -/

/-- `ps = A ++ B ++ R`: `A` ends below `t1`, `B` ends at or above `t1` and starts at or below `t2`, `R` starts
above `t2` -/
structure Shape (ps : Segs) (t1 t2 : Nat) (A B R : Segs) : Prop where
  eq : ps = A ++ (B ++ R)
  hA : ∀ s ∈ A, segLast s < t1
  hB : ∀ s ∈ B, t1 ≤ segLast s ∧ s.1 ≤ t2
  hR : ∀ s ∈ R, t1 ≤ segLast s ∧ t2 < s.1

theorem shape_exists {l : Nat} {ps : Segs} (ok : Ok l ps) (t1 t2 : Nat) :
    ∃ A B R, Shape ps t1 t2 A B R := by
  induction ps generalizing l with
  | nil => exact ⟨[], [], [], rfl, by simp, by simp, by simp⟩
  | cons s r ih =>
    obtain ⟨f, x⟩ := s
    obtain ⟨o1, o2, o3, o4⟩ := ok
    have hx : 0 < x.length := List.length_pos_iff.mpr o2
    obtain ⟨A, B, R, e, hA, hB, hR⟩ := ih o4
    have hsl : segLast (f, x) = f + x.length - 1 := rfl
    by_cases c : segLast (f, x) < t1
    · refine ⟨(f, x) :: A, B, R, by rw [e]; rfl, ?_, hB, hR⟩
      intro s hs
      rcases List.mem_cons.mp hs with rfl | hs
      · exact c
      · exact hA s hs
    · -- everything in `r` ends above `t1`
      have hr : ∀ s ∈ r, t1 ≤ segLast s ∧ f + x.length < s.1 := by
        intro s hs
        have := Ok_mem_bounds o4 hs
        have hs0 : 0 < s.2.length := List.length_pos_iff.mpr this.2.1
        unfold segLast; omega
      have hAnil : A = [] := by
        cases A with
        | nil => rfl
        | cons u A' =>
          have h1 := hA u (List.mem_cons_self ..)
          have h2 := (hr u (by rw [e]; simp)).1
          omega
      subst hAnil
      by_cases c2 : f ≤ t2
      · refine ⟨[], (f, x) :: B, R, by rw [e]; rfl, by simp, ?_, hR⟩
        intro s hs
        rcases List.mem_cons.mp hs with rfl | hs
        · exact ⟨by omega, c2⟩
        · exact hB s hs
      · refine ⟨[], [], (f, x) :: r, rfl, by simp, by simp, ?_⟩
        intro s hs
        rcases List.mem_cons.mp hs with rfl | hs
        · exact ⟨by omega, by simp only; omega⟩
        · have := hr s hs; exact ⟨this.1, by omega⟩

/-! ## sums of data lengths and the covered-address count -/

/-- total number of data bytes of a segment list -/
def sumLen : Segs → Nat
  | [] => 0
  | s :: r => s.2.length + sumLen r

theorem occSegs_append (P Q : Segs) (a e : Nat) : occSegs (P ++ Q) a e = occSegs P a e + occSegs Q a e := by
  induction P with
  | nil => simp [occSegs]
  | cons s P ih => obtain ⟨f, x⟩ := s; simp only [List.cons_append, occSegs, ih]; omega

theorem occSegs_below (A : Segs) (a e : Nat) (h : ∀ s ∈ A, s.1 + s.2.length ≤ a) : occSegs A a e = 0 := by
  induction A with
  | nil => rfl
  | cons s A ih =>
    obtain ⟨f, x⟩ := s
    have h1 := h (f, x) (List.mem_cons_self ..)
    simp only [occSegs, ih (fun u hu => h u (List.mem_cons_of_mem _ hu))]
    simp only at h1; omega

theorem occSegs_above (R : Segs) (a e : Nat) (h : ∀ s ∈ R, e ≤ s.1) : occSegs R a e = 0 := by
  induction R with
  | nil => rfl
  | cons s R ih =>
    obtain ⟨f, x⟩ := s
    have h1 := h (f, x) (List.mem_cons_self ..)
    simp only [occSegs, ih (fun u hu => h u (List.mem_cons_of_mem _ hu))]
    simp only at h1; omega

theorem occSegs_inside (M : Segs) (a e : Nat) (h : ∀ s ∈ M, a ≤ s.1 ∧ s.1 + s.2.length ≤ e) :
    occSegs M a e = sumLen M := by
  induction M with
  | nil => rfl
  | cons s M ih =>
    obtain ⟨f, x⟩ := s
    have h1 := h (f, x) (List.mem_cons_self ..)
    simp only [occSegs, sumLen, ih (fun u hu => h u (List.mem_cons_of_mem _ hu))]
    simp only at h1; omega

theorem occSegs_le {l : Nat} {ps : Segs} (ok : Ok l ps) (a n : Nat) : occSegs ps a (a + n) ≤ n := by
  rw [occSegs_eq_occupied ok]; exact occupied_le _ _ _

end Trion.Map
