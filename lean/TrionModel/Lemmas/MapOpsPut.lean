import TrionModel.Lemmas.MapOpsBase
/-!
# Operational `put` = recursive `put` on every well-formed map
-/
namespace Trion.Map
open Trion.Dict

/-! ## closed form of the recursive merge walk on a shape -/

theorem putGo_cons (f : Nat) (x : List UInt8) (r : Segs) (a : Nat) (d : List UInt8) :
    putGo ((f, x) :: r) a d =
      if f + x.length < a then ((putGo r a d).1, (f, x) :: (putGo r a d).2)
      else if a + d.length < f then (0, (a, d) :: (f, x) :: r)
      else (x.length - (x.take (a - f)).length - (x.drop (a + d.length - f)).length
              + (putGo r (min a f) (x.take (a - f) ++ d ++ x.drop (a + d.length - f))).1,
            (putGo r (min a f) (x.take (a - f) ++ d ++ x.drop (a + d.length - f))).2) := by
  rw [putGo]

theorem putGo_skipA (A q : Segs) (a : Nat) (d : List UInt8) (h : ∀ s ∈ A, s.1 + s.2.length < a) :
    (putGo (A ++ q) a d).2 = A ++ (putGo q a d).2 := by
  induction A with
  | nil => rfl
  | cons s A ih =>
    obtain ⟨f, x⟩ := s
    have h1 := h (f, x) (List.mem_cons_self ..)
    simp only at h1
    rw [List.cons_append, putGo_cons, if_pos h1]
    simp only [ih (fun u hu => h u (List.mem_cons_of_mem _ hu)), List.cons_append]

theorem putGo_above (R : Segs) (a : Nat) (d : List UInt8) (h : ∀ s ∈ R, a + d.length < s.1) :
    putGo R a d = (0, (a, d) :: R) := by
  cases R with
  | nil => rfl
  | cons s r =>
    obtain ⟨f, x⟩ := s
    have h1 := h (f, x) (List.mem_cons_self ..)
    simp only at h1
    rw [putGo_cons, if_neg (by omega), if_pos h1]

theorem putGo_inside (M rest : Segs) (a : Nat) (d : List UInt8)
    (h : ∀ s ∈ M, a ≤ s.1 ∧ s.1 + s.2.length ≤ a + d.length) :
    (putGo (M ++ rest) a d).2 = (putGo rest a d).2 := by
  induction M with
  | nil => rfl
  | cons s M ih =>
    obtain ⟨f, x⟩ := s
    have h1 := h (f, x) (List.mem_cons_self ..)
    simp only at h1
    have hx : 0 < x.length ∨ x.length = 0 := by omega
    rw [List.cons_append, putGo_cons]
    by_cases c0 : f + x.length < a
    · -- only possible for an empty segment sitting at `a`: excluded by the arithmetic
      omega
    · rw [if_neg c0]
      by_cases c1 : a + d.length < f
      · omega
      · rw [if_neg c1]
        have e1 : a - f = 0 := by omega
        have e2 : x.drop (a + d.length - f) = [] := List.drop_eq_nil_of_le (by omega)
        have e3 : min a f = a := by omega
        simp only [e1, e2, e3, List.take_zero, List.nil_append, List.append_nil]
        exact ih (fun u hu => h u (List.mem_cons_of_mem _ hu))

/-- one touching segment -/
theorem putGo_shape_single (A R : Segs) (f1 : Nat) (x1 : List UInt8) (a : Nat) (d : List UInt8)
    (hA : ∀ s ∈ A, s.1 + s.2.length < a) (h1 : a ≤ f1 + x1.length) (h2 : f1 ≤ a + d.length)
    (hR : ∀ s ∈ R, a + d.length < s.1 ∧ f1 + x1.length < s.1) :
    (putGo (A ++ (f1, x1) :: R) a d).2 =
      A ++ (min a f1, x1.take (a - f1) ++ d ++ x1.drop (a + d.length - f1)) :: R := by
  rw [putGo_skipA A _ a d hA, putGo_cons, if_neg (by omega), if_neg (by omega)]
  simp only
  rw [putGo_above]
  intro s hs
  have := hR s hs
  simp only [List.length_append, List.length_take, List.length_drop]
  omega

/-- several touching segments: the first contributes its prefix, the last its suffix, the ones in between vanish -/
theorem putGo_shape_multi (A M R : Segs) (f1 : Nat) (x1 : List UInt8) (fk : Nat) (xk : List UInt8) (a : Nat)
    (d : List UInt8) (hA : ∀ s ∈ A, s.1 + s.2.length < a) (h1 : a ≤ f1 + x1.length) (h12 : f1 + x1.length < fk)
    (hk : fk ≤ a + d.length) (hM : ∀ s ∈ M, f1 + x1.length < s.1 ∧ s.1 + s.2.length < fk)
    (hR : ∀ s ∈ R, a + d.length < s.1 ∧ fk + xk.length < s.1) :
    (putGo (A ++ (f1, x1) :: (M ++ (fk, xk) :: R)) a d).2 =
      A ++ (min a f1, x1.take (a - f1) ++ d ++ xk.drop (a + d.length - fk)) :: R := by
  rw [putGo_skipA A _ a d hA, putGo_cons, if_neg (by omega), if_neg (by omega)]
  simp only
  have e0 : x1.drop (a + d.length - f1) = [] := List.drop_eq_nil_of_le (by omega)
  rw [e0, List.append_nil]
  have hl : min a f1 + (x1.take (a - f1) ++ d).length = a + d.length := by
    simp only [List.length_append, List.length_take]; omega
  rw [putGo_inside M _ (min a f1) (x1.take (a - f1) ++ d) (by
    intro s hs; have := hM s hs; rw [hl]; omega)]
  rw [putGo_cons, if_neg (by omega), if_neg (by rw [hl]; omega)]
  simp only
  have e1 : min a f1 - fk = 0 := by omega
  have e3 : min (min a f1) fk = min a f1 := by omega
  rw [hl, e1, e3, List.take_zero, List.nil_append, putGo_above]
  intro s hs
  have := hR s hs
  simp only [List.length_append, List.length_take, List.length_drop]
  omega

/-! ## the pieces of the operational `put` -/

theorem putMid_zero (ps : Segs) (idx added : Nat) : putMid ps idx 0 added = .ok added := by
  rw [putMid]

theorem putMid_succ (ps : Segs) (idx n added : Nat) :
    putMid ps idx (n + 1) added =
      match ps[idx]? with
      | none => .panic "put: self.parts[idx] (middle)"
      | some s =>
        if added < s.2.length then .panic "put: added -= self.parts[idx].data.len()"
        else putMid ps (idx + 1) n (added - s.2.length) := by
  rw [putMid]; rfl

theorem putMid_spec (M : Segs) : ∀ (P Q : Segs) (added : Nat), sumLen M ≤ added →
    putMid (P ++ (M ++ Q)) P.length M.length added = .ok (added - sumLen M) := by
  induction M with
  | nil => intro P Q added _; simp [putMid_zero, sumLen]
  | cons m M ih =>
    intro P Q added h
    simp only [sumLen] at h
    rw [List.length_cons, putMid_succ, List.cons_append, getElem?_mid]
    simp only
    rw [if_neg (by omega)]
    have e : P ++ m :: (M ++ Q) = (P ++ [m]) ++ (M ++ Q) := by simp
    have e2 : P.length + 1 = (P ++ [m]).length := by simp
    rw [e, e2, ih (P ++ [m]) Q _ (by omega)]
    simp only [sumLen]
    congr 1; omega

theorem put_eq_putGo (ps : Segs) (a : Nat) (b : UInt8) (t : List UInt8)
    (h : ¬ (b :: t).length - 1 > u32Max - a) :
    put ps a (b :: t) = (.ok ((b :: t).length - (putGo ps a (b :: t)).1), (putGo ps a (b :: t)).2) := by
  unfold put
  simp only [List.isEmpty_cons, Bool.false_eq_true, if_false]
  rw [if_neg h]

/-- the first block of the merge arm on a touching first segment: the merged prefix and the count -/
theorem putFirst_eq (f1 : Nat) (x1 : List UInt8) (a al : Nat) (d : List UInt8) (hal : al + 1 = a + d.length)
    (hx : 0 < x1.length) (h1 : a ≤ f1 + x1.length) (h2 : f1 ≤ a + d.length) :
    putFirst (f1, x1) a al d =
      .ok (x1.take (a - f1) ++ d ++ x1.drop (a + d.length - f1),
           d.length - (min (a + d.length) (f1 + x1.length) - max a f1)) := by
  have hsl : segLast (f1, x1) = f1 + x1.length - 1 := rfl
  unfold putFirst
  simp only [hsl]
  by_cases c1 : a ≤ f1
  · rw [if_pos c1]
    by_cases c2 : al ≥ f1 + x1.length - 1
    · rw [if_pos c2, if_neg (by omega)]
      have e1 : a - f1 = 0 := by omega
      have e2 : x1.drop (a + d.length - f1) = [] := List.drop_eq_nil_of_le (by omega)
      rw [e1, e2, List.take_zero, List.nil_append, List.append_nil]
      congr 2; omega
    · rw [if_neg c2, if_neg (by omega), if_neg (by omega), if_neg (by omega)]
      have e1 : a - f1 = 0 := by omega
      have e2 : d.length - (f1 - a) = a + d.length - f1 := by omega
      rw [e1, e2, List.take_zero, List.nil_append]
      congr 2; omega
  · rw [if_neg c1]
    by_cases c2 : al > f1 + x1.length - 1
    · rw [if_pos c2, if_neg (by omega), if_neg (by omega)]
      have e2 : x1.drop (a + d.length - f1) = [] := List.drop_eq_nil_of_le (by omega)
      rw [e2, List.append_nil]
      congr 2; omega
    · rw [if_neg c2, if_neg (by omega)]
      have e2 : a - f1 + d.length = a + d.length - f1 := by omega
      rw [e2]
      congr 2; omega

/-- the block on the last merged segment -/
theorem putLastSeg_eq (fk : Nat) (xk : List UInt8) (al e : Nat) (fdata : List UInt8) (added : Nat)
    (hal : al + 1 = e) (hk : fk ≤ e) (hx : 0 < xk.length) (hadd : min e (fk + xk.length) - fk ≤ added) :
    putLastSeg (fk, xk) al fdata added =
      .ok (fdata ++ xk.drop (e - fk), max al (fk + xk.length - 1), added - (min e (fk + xk.length) - fk)) := by
  have hsl : segLast (fk, xk) = fk + xk.length - 1 := rfl
  unfold putLastSeg
  simp only [hsl]
  by_cases c : al < fk + xk.length - 1
  · rw [if_pos c, if_neg (by omega), if_neg (by omega)]
    have e1 : xk.length - (fk + xk.length - 1 - al) = e - fk := by omega
    rw [e1]
    congr 3 <;> omega
  · rw [if_neg c, if_neg (by omega)]
    have e2 : xk.drop (e - fk) = [] := List.drop_eq_nil_of_le (by omega)
    rw [e2, List.append_nil]
    congr 3 <;> omega

/-- facts about the shape of `ps` around a pending write `[a, a + |d|)` -/
theorem put_shape_facts {ps A B R : Segs} (ok : Ok 0 ps) {a al n : Nat} (ha : a ≤ u32Max) (hal : al + 1 = a + n)
    (hal2 : al ≤ u32Max) (sh : Shape ps (a - 1) (min (al + 1) u32Max) A B R) :
    (∀ s ∈ A, s.1 + s.2.length < a ∧ s.1 ≤ min (al + 1) u32Max) ∧
    (∀ s ∈ B, 0 < s.2.length ∧ a ≤ s.1 + s.2.length ∧ s.1 ≤ a + n) ∧
    (∀ s ∈ R, a + n < s.1) := by
  have hu : u32Max = 4294967295 := rfl
  obtain ⟨e, hA, hB, hR⟩ := sh
  refine ⟨fun s hs => ?_, fun s hs => ?_, fun s hs => ?_⟩
  · have hb := Ok_mem_bounds ok (show s ∈ ps by rw [e]; simp [hs])
    have h0 : 0 < s.2.length := List.length_pos_iff.mpr hb.2.1
    have := hA s hs
    unfold segLast at this; omega
  · have hb := Ok_mem_bounds ok (show s ∈ ps by rw [e]; simp [hs])
    have h0 : 0 < s.2.length := List.length_pos_iff.mpr hb.2.1
    have := hB s hs
    unfold segLast at this; omega
  · have hb := Ok_mem_bounds ok (show s ∈ ps by rw [e]; simp [hs])
    have h0 : 0 < s.2.length := List.length_pos_iff.mpr hb.2.1
    have := hR s hs
    omega

/-- the operational `put` never panics / desyncs on a well-formed map and computes exactly the recursive `put` -/
theorem putOps_eq {ps : Segs} (inv : MInv ps) {a : Nat} (ha : a ≤ u32Max) (d : List UInt8) :
    putOps ps a d = .ok (put ps a d) := by
  have hu : u32Max = 4294967295 := rfl
  have ok : Ok 0 ps := inv
  cases d with
  | nil => rfl
  | cons b t =>
    by_cases hov : (b :: t).length - 1 > u32Max - a
    · unfold putOps put
      simp only [List.isEmpty_cons, Bool.false_eq_true, if_false]
      rw [if_pos hov, if_pos hov]
    · rw [put_eq_putGo ps a b t hov, putGo_fst ps 0 a (b :: t) ok (by simp)]
      have hne : (b :: t) ≠ [] := by simp
      have hlen : 0 < (b :: t).length := by simp
      unfold putOps
      simp only [List.isEmpty_cons, Bool.false_eq_true, if_false]
      rw [if_neg hov]
      generalize b :: t = d at *
      have hal : a + (d.length - 1) % 4294967296 = a + d.length - 1 := by
        rw [Nat.mod_eq_of_lt (by omega)]; omega
      rw [hal, if_neg (by omega)]
      generalize hale : a + d.length - 1 = al
      have hal1 : al + 1 = a + d.length := by omega
      have hal2 : al ≤ u32Max := by omega
      have hle := occSegs_le ok a d.length
      obtain ⟨A, B, R, sh⟩ := shape_exists ok (a - 1) (min (al + 1) u32Max)
      obtain ⟨fA, fB, fR⟩ := put_shape_facts ok ha hal1 hal2 sh
      obtain ⟨hps, hA, hB, hR⟩ := sh
      have hQ : ∀ s ∈ B ++ R, a - 1 ≤ segLast s := by
        intro s hs; rcases List.mem_append.mp hs with h | h
        · exact (hB s h).1
        · exact (hR s h).1
      rw [firstIdx_shape ok hps hA hQ]
      simp only
      have hps2 : ps = (A ++ B) ++ R := by rw [hps, List.append_assoc]
      have hP : ∀ s ∈ A ++ B, s.1 ≤ min (al + 1) u32Max := by
        intro s hs; rcases List.mem_append.mp hs with h | h
        · exact (fA s h).2
        · exact (hB s h).2
      have hloc := locate_below_shape ok hps2 hP (fun s hs => (hR s hs).2)
      have hAb : ∀ s ∈ A, s.1 + s.2.length ≤ a := fun s hs => by have := (fA s hs).1; omega
      have hAb' : ∀ s ∈ A, s.1 + s.2.length < a := fun s hs => (fA s hs).1
      have hRa : ∀ s ∈ R, a + d.length ≤ s.1 := fun s hs => by have := fR s hs; omega
      cases B with
      | nil =>
        simp only [List.append_nil, List.nil_append] at hps hloc
        have hil : putIdxLast ps a al = .ok none := by
          unfold putIdxLast
          rw [hloc]
          rcases List.eq_nil_or_concat A with rfl | ⟨A', u, rfl⟩
          · simp
          · simp only [List.concat_eq_append] at *
            have hu1 := hA u (by simp)
            have hidx : ps[(A' ++ [u]).length - 1]? = some u := by
              rw [hps]; simp
            rw [if_pos (by simp)]
            simp only [hidx]
            rw [if_neg (by omega)]
        rw [hil]
        simp only [Out.bind_ok]
        unfold mkSeg
        rw [if_neg (by unfold segLast; simp only; omega)]
        simp only [Out.bind_ok]
        unfold vecInsert
        rw [if_neg (by rw [hps]; simp)]
        simp only [Out.bind_ok]
        rw [hps, take_mid, drop_mid, putGo_skipA A R a d hAb', putGo_above R a d fR, occSegs_append,
          occSegs_below A _ _ hAb, occSegs_above R _ _ hRa]
        rfl
      | cons first B' =>
        obtain ⟨f1, x1⟩ := first
        obtain ⟨hx1, h1a, h1b⟩ := fB (f1, x1) (List.mem_cons_self ..)
        simp only at hx1 h1a h1b
        have hsl1 : segLast (f1, x1) = f1 + x1.length - 1 := rfl
        rcases List.eq_nil_or_concat B' with rfl | ⟨M, last, rfl⟩
        · -- exactly one touching segment
          have hps' : ps = A ++ (f1, x1) :: R := by rw [hps]; simp
          have hgf : ps[A.length]? = some (f1, x1) := by rw [hps']; exact getElem?_mid _ _ _
          have hR1 : ∀ s ∈ R, f1 + x1.length < s.1 := by
            intro s hs
            have := Ok_mem (Ok_tail (Ok_append_right (hps' ▸ ok))) hs
            omega
          have hil : putIdxLast ps a al = .ok (some A.length) := by
            unfold putIdxLast
            rw [hloc, if_pos (by simp)]
            have : (A ++ [(f1, x1)]).length - 1 = A.length := by simp
            rw [this]
            simp only [hgf]
            rw [if_pos (by omega)]
          rw [hil]
          simp only [Out.bind_ok]
          unfold putMerge
          simp only [hgf]
          rw [putFirst_eq f1 x1 a al d hal1 hx1 h1a h1b]
          simp only [Out.bind_ok]
          rw [if_neg (by omega)]
          unfold mkSeg
          rw [if_neg (by
            unfold segLast
            simp only [List.length_append, List.length_take, List.length_drop]
            omega)]
          simp only [Out.bind_ok]
          have hocc : occSegs ps a (a + d.length) = min (a + d.length) (f1 + x1.length) - max a f1 := by
            rw [hps', occSegs_append, occSegs_below A _ _ hAb]
            simp only [occSegs]
            rw [occSegs_above R _ _ hRa]; omega
          rw [hocc, hps', set_mid, putGo_shape_single A R f1 x1 a d hAb' h1a h1b
            (fun s hs => ⟨fR s hs, hR1 s hs⟩), Nat.min_comm f1 a]
        · -- several touching segments: first, M, last
          simp only [List.concat_eq_append] at *
          obtain ⟨fk, xk⟩ := last
          obtain ⟨hxk, hka, hkb⟩ := fB (fk, xk) (by simp)
          simp only at hxk hka hkb
          have hslk : segLast (fk, xk) = fk + xk.length - 1 := rfl
          have hps' : ps = A ++ (f1, x1) :: (M ++ (fk, xk) :: R) := by rw [hps]; simp
          have hgf : ps[A.length]? = some (f1, x1) := by rw [hps']; exact getElem?_mid _ _ _
          have hL : (A ++ (f1, x1) :: M).length = A.length + 1 + M.length := by
            simp only [List.length_append, List.length_cons]; omega
          have hps3 : ps = (A ++ (f1, x1) :: M) ++ (fk, xk) :: R := by rw [hps']; simp
          have hgl : ps[A.length + 1 + M.length]? = some (fk, xk) := by
            rw [hps3, ← hL]; exact getElem?_mid _ _ _
          have hpl : ps.length = A.length + 1 + M.length + 1 + R.length := by
            rw [hps']; simp only [List.length_append, List.length_cons]; omega
          have okT : Ok (f1 + x1.length + 1) (M ++ (fk, xk) :: R) := Ok_tail (Ok_append_right (hps' ▸ ok))
          have h1k : f1 + x1.length < fk := by
            have := Ok_mem okT (show (fk, xk) ∈ M ++ (fk, xk) :: R by simp); simp only at this; omega
          have hM : ∀ s ∈ M, f1 + x1.length < s.1 ∧ s.1 + s.2.length < fk := by
            intro s hs
            have h1 := Ok_mem okT (show s ∈ M ++ (fk, xk) :: R by simp [hs])
            have h2 := Ok_append_lt okT hs
            simp only at h2
            exact ⟨by omega, h2⟩
          have hRk : ∀ s ∈ R, fk + xk.length < s.1 := by
            intro s hs
            have := Ok_mem (Ok_tail (Ok_append_right okT)) hs
            omega
          have hocc : occSegs ps a (a + d.length) =
              (min (a + d.length) (f1 + x1.length) - max a f1) + (sumLen M +
                (min (a + d.length) (fk + xk.length) - fk)) := by
            rw [hps', occSegs_append, occSegs_below A _ _ hAb]
            simp only [occSegs]
            rw [occSegs_append, occSegs_inside M _ _ (fun s hs => by have := hM s hs; omega)]
            simp only [occSegs]
            rw [occSegs_above R _ _ hRa]; omega
          have hil : putIdxLast ps a al = .ok (some (A.length + 1 + M.length)) := by
            unfold putIdxLast
            rw [hloc, if_pos (by simp only [List.length_append, List.length_cons, List.length_nil]; omega)]
            have : (A ++ (f1, x1) :: (M ++ [(fk, xk)])).length - 1 = A.length + 1 + M.length := by
              simp only [List.length_append, List.length_cons, List.length_nil]; omega
            rw [this]
            simp only [hgl]
            rw [if_pos (by omega)]
          rw [hil]
          simp only [Out.bind_ok]
          unfold putMerge
          simp only [hgf]
          rw [putFirst_eq f1 x1 a al d hal1 hx1 h1a h1b]
          simp only [Out.bind_ok]
          rw [if_pos (by omega)]
          have hcnt : A.length + 1 + M.length - (A.length + 1) = M.length := by omega
          have hmid : ∀ added, sumLen M ≤ added →
              putMid ps (A.length + 1) M.length added = .ok (added - sumLen M) := by
            intro added h
            have e1 : ps = (A ++ [(f1, x1)]) ++ (M ++ (fk, xk) :: R) := by rw [hps']; simp
            have e2 : A.length + 1 = (A ++ [(f1, x1)]).length := by simp
            rw [e1, e2]; exact putMid_spec M _ _ added h
          rw [hcnt, hmid _ (by omega)]
          simp only [Out.bind_ok]
          rw [if_neg (by omega)]
          simp only [hgl]
          rw [putLastSeg_eq fk xk al (a + d.length) _ _ hal1 hkb hxk (by omega)]
          simp only [Out.bind_ok]
          have e0 : x1.drop (a + d.length - f1) = [] := List.drop_eq_nil_of_le (by omega)
          unfold mkSeg
          rw [if_neg (by
            unfold segLast
            simp only [List.length_append, List.length_take, List.length_drop]
            omega)]
          simp only [Out.bind_ok]
          unfold vecDrain
          rw [if_neg (by omega), if_neg (by simp only [List.length_set]; omega)]
          simp only [Out.bind_ok]
          rw [hocc]
          conv => lhs; rw [hps', set_mid, take_mid_succ]
          have e5 : ∀ seg : Seg, (A ++ seg :: (M ++ (fk, xk) :: R)).drop (A.length + 1 + M.length + 1) = R := by
            intro seg
            have e6 : A ++ seg :: (M ++ (fk, xk) :: R) = (A ++ seg :: M) ++ (fk, xk) :: R := by simp
            have e7 : A.length + 1 + M.length = (A ++ seg :: M).length := by
              simp only [List.length_append, List.length_cons]; omega
            rw [e6, e7]; exact drop_mid_succ _ _ _
          rw [e5]
          conv => rhs; rw [hps', putGo_shape_multi A M R f1 x1 fk xk a d hAb' h1a h1k hkb hM
            (fun s hs => ⟨fR s hs, hRk s hs⟩)]
          rw [e0, List.append_nil, Nat.min_comm f1 a]
          simp only [List.append_assoc, List.singleton_append]
          congr 3
          omega

end Trion.Map
