import TrionModel.Lemmas.ShowAsm
/-! # the concrete evaluator satisfies what C19 assumes of the evaluator (`EvalOK`) -/
namespace Trion.Show
open Trion.Front

theorem isRegister_regName : ∀ r : Reg, isRegister (regName r) = true := by decide

theorem isRegister_label (t : Nat) : isRegister (label t) = false := by
  have : (label t).length = 10 := by simp [label, hex8, bytesOf]
  simp [isRegister, this]

theorem evalT_const (lk : Bytes → Simp.Lookup) (v : Int) :
    Simp.evaluateT lk isRegister (.const v) = .ok ⟨false, none⟩ (.const v) := by
  simp [Simp.evaluateT]

theorem evalT_reg (lk : Bytes → Simp.Lookup) (r : Reg) :
    Simp.evaluateT lk isRegister (.ident (regName r)) = .ok ⟨false, none⟩ (.ident (regName r)) := by
  simp [Simp.evaluateT, isRegister_regName]

theorem evalT_label (lk : Bytes → Simp.Lookup) (t : Nat) (h : lk (label t) = .found t) :
    Simp.evaluateT lk isRegister (.ident (label t)) = .ok ⟨true, none⟩ (.const t) := by
  simp [Simp.evaluateT, isRegister_label, h]

/-- `[R + R']` is left as it is -/
theorem evalT_mem_reg (lk : Bytes → Simp.Lookup) (ad r : Reg) :
    Simp.evaluateT lk isRegister (memA ad (rA r)) =
      .ok ⟨false, none⟩ (.addr (.bin .add (.ident (regName ad)) (.ident (regName r)))) := by
  simp [memA, rA, Simp.evaluateT, isRegister_regName, Simp.afterRawT, Simp.simplifyRaw, Simp.isBad, Simp.cval,
    Simp.merge, Simp.mergeL, Simp.mergeR, Simp.findC, Simp.preInv, Simp.neutralizeRaw, Simp.neutralizeBin, Simp.normAddSub, Simp.stripNeg,
    Simp.neutralTail, Simp.neutralMain, Simp.Ev.or]

/-- `[R + v]` with `v ≥ 0` is left as it is, except that `[R + 0]` becomes `[R]` -/
theorem evalT_mem_imm (lk : Bytes → Simp.Lookup) (ad : Reg) (v : Int) (hv : 0 ≤ v) :
    Simp.evaluateT lk isRegister (memA ad (.const v)) =
      .ok ⟨false, none⟩ (.addr (if v = 0 then .ident (regName ad) else .bin .add (.ident (regName ad)) (.const v))) := by
  have hneg : ¬ v < 0 := by omega
  by_cases h0 : v = 0
  · subst h0
    simp [memA, rA, Simp.evaluateT, isRegister_regName, Simp.afterRawT, Simp.simplifyRaw, Simp.isBad, Simp.cval,
      Simp.merge, Simp.mergeL, Simp.mergeR, Simp.findC, Simp.preInv, Simp.neutralizeRaw, Simp.neutralizeBin, Simp.normAddSub, Simp.stripNeg,
      Simp.neutralTail, Simp.neutralMain, Simp.neutralR, Simp.Ev.or]
  · simp [memA, rA, Simp.evaluateT, isRegister_regName, Simp.afterRawT, Simp.simplifyRaw, Simp.isBad, Simp.cval,
      Simp.merge, Simp.mergeL, Simp.mergeR, Simp.findC, Simp.preInv, Simp.neutralizeRaw, Simp.neutralizeBin, Simp.normAddSub, Simp.stripNeg,
      Simp.neutralTail, Simp.neutralMain, Simp.neutralR, Simp.Ev.or, hneg, h0]

/-- **`EvalOK` discharged.** The concrete evaluator over a symbol table in which the label the text mentions
is defined as the address it names satisfies `EvalOK` for every instruction whose `[R + imm]` offset is not
negative. -/
theorem evalOK_simp (eval : Arg → EvalOut) (lk : Bytes → Simp.Lookup) (hE : EvalIsSimp eval lk) (i : Instr) (a : Nat)
    (hl : ∀ t, targetOf i a = some t → lk (label t) = .found (t : Int)) (hm : MemNonneg i) : EvalOK eval i a := by
  refine ⟨fun v => hE _ _ _ (evalT_const lk v), fun r => hE _ _ _ (evalT_reg lk r),
    fun t ht => hE _ _ _ (evalT_label lk t (hl t ht)), ?_⟩
  intro ad o hmo
  cases o with
  | reg r =>
    refine ⟨_, hE _ _ _ (evalT_mem_reg lk ad r), fun idx => rfl⟩
  | imm v =>
    have hv := hm ad v hmo
    refine ⟨_, hE _ _ _ (evalT_mem_imm lk ad v hv), fun idx => ?_⟩
    by_cases h0 : v = 0
    · subst h0
      simp only [if_true, irA, rA, addrOff, narrowI32]
      cases regl (regName ad) <;> simp
    · simp only [h0, if_false, irA, rA]

theorem evalIsSimp_simpEval (lk : Bytes → Simp.Lookup) : EvalIsSimp (simpEval lk) lk := by
  intro x ch a' h
  simp [simpEval, h]

end Trion.Show
