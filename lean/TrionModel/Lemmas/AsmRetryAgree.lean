import TrionModel.Lemmas.SimpStableAll
import TrionModel.Lemmas.SimpArithFwd
/-!
# The retry of `Front.assemble` when the first table has `Deferred` names: both routes complete ⇒ same instruction

With a `Deferred` name in the table the first attempt is deferred either because `evaluate` stopped at an unknown name or
because it completed AROUND a Deferred name (`EvalOut.deferred`).  Acceptance of the two routes may then differ (overflow;
for register operands also K6), so the relation carried through `convert!` is one-directional agreement: if both getters
(both `convert!` runs, both `assemble` runs) succeed, they deliver the same value (`GetAgree`, `ConvAgree`, `AsmAgree`).

* `evaluateE_mono_complete`: an evaluation that completes with no Deferred cause gives the same result over a larger table;
* `evaluateE_undefer`: on an operand that mentions no Deferred name the Deferred entries of the table are irrelevant;
* `conv_retry_agree`, `assemble_retry_agree`: the retry theorem for this relation;
* `growsA_number` (operand positions that need a number: no condition), `growsA_noDeferred` (other evaluated positions: the
  operand mentions no Deferred name of `t₁`).
-/
namespace Trion.Simp
open Trion

/-- an evaluation that completes without a `Deferred` cause completes, with the same tree, over every larger table -/
theorem evaluateE_mono_complete_both (lk₁ lk₂ : Bytes → Lookup) (isReg : Bytes → Bool) (hs : Sub lk₁ lk₂) :
    (∀ a ev a', evaluateE lk₁ isReg a = .ok ev a' → ev.cause = none → evaluateE lk₂ isReg a = .ok ev a') ∧
    (∀ as ev as', evaluateArgsE lk₁ isReg as = .ok ev as' → ev.cause = none → evaluateArgsE lk₂ isReg as = .ok ev as') := by
  apply Arg.ind2
  case const => intro v ev a' h _; exact h
  case ident =>
    intro s ev a' h hc
    simp only [evaluateE] at h ⊢
    split
    · rename_i hr; simp only [hr, if_true] at h; exact h
    · rename_i hr
      simp only [hr] at h
      cases hl : lk₁ s with
      | notFound => rw [hl] at h; cases h
      | deferred => rw [hl] at h; simp only [EvE.ok.injEq] at h; obtain ⟨rfl, _⟩ := h; cases hc
      | found v => rw [hl] at h; rw [hs s v hl]; exact h
  case str => intro v ev a' h _; exact h
  case bin =>
    intro op l r ihl ihr ev a' h hc
    simp only [evaluateE] at h ⊢
    cases h1 : evaluateE lk₁ isReg l with
    | ok e1 l' =>
      rw [h1] at h
      cases h2 : evaluateE lk₁ isReg r with
      | ok e2 r' =>
        rw [h2] at h
        have hc12 : (e1.or e2).cause = none := by rw [← afterRawE_cause _ _ _ _ h]; exact hc
        obtain ⟨c1, c2⟩ := Ev.or_cause_none hc12
        rw [ihl _ _ h1 c1, ihr _ _ h2 c2]; exact h
      | nosuch n r' => rw [h2] at h; cases h
      | err e t => rw [h2] at h; cases h
      | panic => rw [h2] at h; cases h
    | nosuch n l' => rw [h1] at h; cases h
    | err e t => rw [h1] at h; cases h
    | panic => rw [h1] at h; cases h
  case neg =>
    intro v ih ev a' h hc
    simp only [evaluateE] at h ⊢
    cases h1 : evaluateE lk₁ isReg v with
    | ok e1 l' =>
      rw [h1] at h
      have c1 : e1.cause = none := by rw [← afterRawE_cause _ _ _ _ h]; exact hc
      rw [ih _ _ h1 c1]; exact h
    | nosuch n l' => rw [h1] at h; cases h
    | err e t => rw [h1] at h; cases h
    | panic => rw [h1] at h; cases h
  case not =>
    intro v ih ev a' h hc
    simp only [evaluateE] at h ⊢
    cases h1 : evaluateE lk₁ isReg v with
    | ok e1 l' =>
      rw [h1] at h
      have c1 : e1.cause = none := by rw [← afterRawE_cause _ _ _ _ h]; exact hc
      rw [ih _ _ h1 c1]; exact h
    | nosuch n l' => rw [h1] at h; cases h
    | err e t => rw [h1] at h; cases h
    | panic => rw [h1] at h; cases h
  case addr =>
    intro v ih ev a' h hc
    simp only [evaluateE] at h ⊢
    cases h1 : evaluateE lk₁ isReg v with
    | ok e1 l' =>
      rw [h1] at h
      have c1 : e1.cause = none := by rw [← afterRawE_cause _ _ _ _ h]; exact hc
      rw [ih _ _ h1 c1]; exact h
    | nosuch n l' => rw [h1] at h; cases h
    | err e t => rw [h1] at h; cases h
    | panic => rw [h1] at h; cases h
  case seq =>
    intro as ih ev a' h hc
    simp only [evaluateE] at h ⊢
    cases h1 : evaluateArgsE lk₁ isReg as with
    | ok e1 l' =>
      rw [h1] at h
      simp only [EvE.ok.injEq] at h
      obtain ⟨rfl, rfl⟩ := h
      rw [ih _ _ h1 hc]
    | nosuch n l' => rw [h1] at h; cases h
    | err e t => rw [h1] at h; cases h
    | panic => rw [h1] at h; cases h
  case func =>
    intro f as ih ev a' h hc
    simp only [evaluateE] at h ⊢
    cases h1 : evaluateArgsE lk₁ isReg as with
    | ok e1 l' =>
      rw [h1] at h
      simp only [EvE.ok.injEq] at h
      obtain ⟨rfl, rfl⟩ := h
      rw [ih _ _ h1 hc]
    | nosuch n l' => rw [h1] at h; cases h
    | err e t => rw [h1] at h; cases h
    | panic => rw [h1] at h; cases h
  case nil => intro ev as' h _; exact h
  case cons =>
    intro a as iha ihas ev as' h hc
    simp only [evaluateArgsE] at h ⊢
    cases h1 : evaluateE lk₁ isReg a with
    | ok e1 l' =>
      rw [h1] at h
      cases h2 : evaluateArgsE lk₁ isReg as with
      | ok e2 r' =>
        rw [h2] at h
        simp only [EvE.ok.injEq] at h
        obtain ⟨rfl, rfl⟩ := h
        obtain ⟨c1, c2⟩ := Ev.or_cause_none hc
        rw [iha _ _ h1 c1, ihas _ _ h2 c2]
      | nosuch n r' => rw [h2] at h; cases h
      | err e t => rw [h2] at h; cases h
      | panic => rw [h2] at h; cases h
    | nosuch n l' => rw [h1] at h; cases h
    | err e t => rw [h1] at h; cases h
    | panic => rw [h1] at h; cases h

theorem evaluateE_mono_complete {lk₁ lk₂ : Bytes → Lookup} {isReg : Bytes → Bool} (hs : Sub lk₁ lk₂) {a : Arg} {ev : Ev}
    {a' : Arg} (h : evaluateE lk₁ isReg a = .ok ev a') (hc : ev.cause = none) : evaluateE lk₂ isReg a = .ok ev a' :=
  (evaluateE_mono_complete_both lk₁ lk₂ isReg hs).1 a ev a' h hc

/-! ## operands that mention no `Deferred` name -/

mutual
/-- no identifier of the operand is `Deferred` in `lk` -/
def noDefIn (lk : Bytes → Lookup) : Arg → Bool
  | .ident s => decide (lk s ≠ .deferred)
  | .bin _ l r => noDefIn lk l && noDefIn lk r
  | .neg a => noDefIn lk a
  | .not a => noDefIn lk a
  | .addr a => noDefIn lk a
  | .seq as => noDefInArgs lk as
  | .func _ as => noDefInArgs lk as
  | _ => true
def noDefInArgs (lk : Bytes → Lookup) : Args → Bool
  | .nil => true
  | .cons a as => noDefIn lk a && noDefInArgs lk as
end

/-- the table with its `Deferred` entries forgotten -/
def undefer (lk : Bytes → Lookup) (s : Bytes) : Lookup :=
  match lk s with
  | .deferred => .notFound
  | x => x

theorem undefer_noDef (lk : Bytes → Lookup) : NoDef (undefer lk) := by
  intro s h
  unfold undefer at h
  cases hl : lk s <;> simp [hl] at h

theorem undefer_sub {lk₁ lk₂ : Bytes → Lookup} (hs : Sub lk₁ lk₂) : Sub (undefer lk₁) lk₂ := by
  intro s v h
  unfold undefer at h
  cases hl : lk₁ s with
  | notFound => simp [hl] at h
  | deferred => simp [hl] at h
  | found w => simp only [hl, Lookup.found.injEq] at h; subst h; exact hs s w hl

theorem evaluateE_undefer_both (lk : Bytes → Lookup) (isReg : Bytes → Bool) :
    (∀ a, noDefIn lk a = true → evaluateE lk isReg a = evaluateE (undefer lk) isReg a) ∧
    (∀ as, noDefInArgs lk as = true → evaluateArgsE lk isReg as = evaluateArgsE (undefer lk) isReg as) := by
  apply Arg.ind2
  case const => intro v _; rfl
  case ident =>
    intro s h
    simp only [noDefIn, decide_eq_true_eq] at h
    cases hl : lk s with
    | deferred => exact absurd hl h
    | notFound => simp only [evaluateE, undefer, hl]
    | found v => simp only [evaluateE, undefer, hl]
  case str => intro v _; rfl
  case bin =>
    intro op l r ihl ihr h
    simp only [noDefIn, Bool.and_eq_true] at h
    simp only [evaluateE, ihl h.1, ihr h.2]
  case neg => intro v ih h; simp only [noDefIn] at h; simp only [evaluateE, ih h]
  case not => intro v ih h; simp only [noDefIn] at h; simp only [evaluateE, ih h]
  case addr => intro v ih h; simp only [noDefIn] at h; simp only [evaluateE, ih h]
  case seq => intro as ih h; simp only [noDefIn] at h; simp only [evaluateE, ih h]
  case func => intro f as ih h; simp only [noDefIn] at h; simp only [evaluateE, ih h]
  case nil => intro _; rfl
  case cons =>
    intro a as iha ihas h
    simp only [noDefInArgs, Bool.and_eq_true] at h
    simp only [evaluateArgsE, iha h.1, ihas h.2]

/-- on an operand that mentions no Deferred name, the Deferred entries of the table are irrelevant -/
theorem evaluateE_undefer {lk : Bytes → Lookup} (isReg : Bytes → Bool) {a : Arg} (h : noDefIn lk a = true) :
    evaluateE lk isReg a = evaluateE (undefer lk) isReg a := (evaluateE_undefer_both lk isReg).1 a h

/-- the tree-level retry theorem for an operand that mentions no Deferred name of the first table -/
theorem resumes_noDefIn {lk₁ lk₂ : Bytes → Lookup} {isReg : Bytes → Bool} (hs : Sub lk₁ lk₂) {a : Arg}
    (ha : noDefIn lk₁ a = true) : Resumes lk₁ lk₂ isReg a := by
  intro n a₁ h
  rw [evaluateE_undefer isReg ha] at h
  exact resumes_all (undefer_sub hs) (undefer_noDef lk₁) a n a₁ h

end Trion.Simp

namespace Trion.Front
open Trion

/-- if both getters succeed they deliver the same value (and `args_done`) -/
def GetAgree (g g' : GetOut) : Prop :=
  ∀ v x d v' x' d', g = .ok v x d → g' = .ok v' x' d' → v = v' ∧ d = d'

theorem GetSim.agree {g g' : GetOut} (h : GetSim g g') : GetAgree g g' := by
  intro v x d v' x' d' h1 h2
  obtain ⟨y, h3⟩ := h.1 v x d h1
  rw [h3] at h2
  simp only [GetOut.ok.injEq] at h2
  exact ⟨h2.1, h2.2.2⟩

/-- if both `convert!` runs succeed they deliver the same instruction and values -/
def ConvAgree (c c' : ConvOut) : Prop :=
  ∀ A D I V A' D' I' V', c = .ok A D I V → c' = .ok A' D' I' V' → I = I' ∧ V = V'

theorem conv_step_agree (e : Arg → EvalOut) (loc : Bool) (k : Kind) (ks : List Kind) (pos : Nat) (pre rest : List Arg)
    (done : Nat) (instr : Instr) (vals : List Val) (a a' : Arg)
    (hg : GetAgree (get k e loc pos done a) (get k e loc pos done a')) :
    ConvAgree (conv e loc (k :: ks) pos pre (a :: rest) done instr vals)
      (conv e loc (k :: ks) pos pre (a' :: rest) done instr vals) := by
  intro A D I V A' D' I' V' h1 h2
  simp only [conv] at h1 h2
  cases g1 : get k e loc pos done a with
  | stop x d r => rw [g1] at h1; cases h1
  | ok v x d =>
    cases g2 : get k e loc pos done a' with
    | stop x' d' r => rw [g2] at h2; cases h2
    | ok v' x' d' =>
      rw [g1] at h1; rw [g2] at h2
      simp only at h1 h2
      obtain ⟨rfl, rfl⟩ := hg v x d v' x' d' g1 g2
      obtain ⟨A2, D2, h3⟩ := (conv_pre_irrel e loc ks (pos + 1) (x :: pre) (x' :: pre) rest d (setOp instr pos v)
        (v :: vals)).1 A D I V h1
      rw [h3] at h2
      simp only [ConvOut.ok.injEq] at h2
      exact ⟨h2.2.2.1, h2.2.2.2⟩

/-- what `e₂` has to satisfy relative to `e₁` on the operand of a getter of kind `k`, when the first attempt may have been
deferred by a `Deferred` name as well -/
structure GrowsA (k : Kind) (e₁ e₂ : Arg → EvalOut) (a : Arg) : Prop where
  complete : ∀ a', e₁ a = .complete a' → e₂ a = .complete a'
  stop : k.evals = true → ∀ a₁, ((∃ n, e₁ a = .noSuchVariable n a₁) ∨ (∃ c, e₁ a = .deferred c a₁)) →
    ∀ loc pos done, done ≤ pos → GetAgree (get k e₂ loc pos done a₁) (get k e₂ loc pos done a)

/-- the getter at which the first attempt stopped with `Deferred` (unknown name, or Deferred name) -/
theorem get_stop_growsA {k : Kind} {e₁ e₂ : Arg → EvalOut} {a : Arg} (hg : GrowsA k e₁ e₂ a) {pos done : Nat}
    {a' : Arg} {d' : Nat} {c : Bytes} (h : get k e₁ true pos done a = .stop a' d' (.deferred c)) (loc : Bool) :
    d' = done ∧ GetAgree (get k e₂ loc pos done a') (get k e₂ loc pos done a) := by
  cases hk : k.evals with
  | false => exact absurd h ((get_nonevals hk).2 _ _ _)
  | true =>
    rw [get_eq_post k hk] at h
    cases he : evalArg e₁ true pos done a with
    | error p =>
      obtain ⟨x, r⟩ := p
      rw [he] at h
      simp only [GetOut.stop.injEq] at h
      obtain ⟨h1, h2, h3⟩ := h
      subst h1; subst h2; subst h3
      refine ⟨rfl, ?_⟩
      unfold evalArg at he
      by_cases hd : done ≤ pos
      · simp only [hd, if_true] at he
        cases hx : e₁ a with
        | complete y => rw [hx] at he; cases he
        | deferred c' y =>
          rw [hx] at he
          simp only [Except.error.injEq, Prod.mk.injEq] at he
          obtain ⟨h1, _⟩ := he
          subst h1
          exact hg.stop hk _ (.inr ⟨c', hx⟩) loc pos done hd
        | noSuchVariable n y =>
          rw [hx] at he
          simp only [Except.error.injEq, Prod.mk.injEq] at he
          obtain ⟨h1, _⟩ := he
          subst h1
          exact hg.stop hk _ (.inl ⟨n, hx⟩) loc pos done hd
        | error er y => rw [hx] at he; cases he
      · simp only [hd, if_false] at he; cases he
    | ok p =>
      obtain ⟨x, d⟩ := p
      rw [he] at h
      exact absurd h post_not_deferred

/-- **the retry, getter by getter, up to agreement** -/
theorem conv_retry_agree (e₁ e₂ : Arg → EvalOut) (loc : Bool) : ∀ (ks : List Kind) (pos : Nat) (pre rest : List Arg) (done : Nat)
    (instr : Instr) (vals : List Val) (A : List Arg) (D : Nat) (I : Instr) (c : Bytes),
    (∀ p ∈ List.zip ks rest, GrowsA p.1 e₁ e₂ p.2) → pos + ks.length ≤ 3 →
    conv e₁ true ks pos pre rest done instr vals = .stop A D I (.deferred c) →
    ∃ restA, A = pre.reverse ++ restA ∧ restA.length = rest.length ∧ done ≤ D ∧
      I = replay (stores e₁ ks pos rest done) instr ∧
      ConvAgree (conv e₂ loc ks pos pre restA D I vals) (conv e₂ loc ks pos pre rest done instr vals) := by
  intro ks
  induction ks with
  | nil => intro pos pre rest done instr vals A D I c _ _ h; simp [conv] at h
  | cons k ks ih =>
    intro pos pre rest done instr vals A D I c hgr hlen h
    cases rest with
    | nil => simp only [conv] at h; cases h
    | cons a rest =>
      have hga : GrowsA k e₁ e₂ a := hgr (k, a) (by simp)
      simp only [conv] at h
      cases hg : get k e₁ true pos done a with
      | ok v a' d' =>
        rw [hg] at h
        simp only at h
        obtain ⟨g1, g2, g3⟩ := get_ok_growsS hga.complete hg loc
        have hlen' : pos + 1 + ks.length ≤ 3 := by simp only [List.length_cons] at hlen; omega
        obtain ⟨restA, r1, r2, r3, r4, r5⟩ :=
          ih (pos + 1) (a' :: pre) rest d' (setOp instr pos v) (v :: vals) A D I c
            (fun x hx => hgr x (by simp only [List.zip_cons_cons]; exact List.mem_cons_of_mem _ hx)) hlen' h
        obtain ⟨s1, s2⟩ := stores_shape e₁ ks (pos + 1) (a' :: pre) rest d' (setOp instr pos v) (v :: vals) A D I c h
        have hσ : stores e₁ ks (pos + 1) rest d' = [] ∨ (pos = 0 ∧ ∃ w, stores e₁ ks (pos + 1) rest d' = [(1, w)]) := by
          cases hs : stores e₁ ks (pos + 1) rest d' with
          | nil => exact .inl rfl
          | cons p σ =>
            rw [hs] at s1 s2
            simp only [List.length_cons] at s1
            have hp0 : pos = 0 := by omega
            have hσ' : σ = [] := by
              cases σ with
              | nil => rfl
              | cons _ _ => simp only [List.length_cons] at s1; omega
            have hp1 := s2 p (by simp)
            subst hσ'
            subst hp0
            exact .inr ⟨rfl, p.2, by cases p; simp only at hp1; subst hp1; rfl⟩
        refine ⟨a' :: restA, by rw [r1]; simp, by simp [r2], Nat.le_trans g2 r3, ?_, ?_⟩
        · simp only [stores, hg, replay, List.foldl_cons]; exact r4
        · simp only [conv, g1, g3 D r3]
          rw [r4, replay_absorb _ _ _ _ hσ, ← r4]
          exact r5
      | stop a' d' r =>
        rw [hg] at h
        simp only [ConvOut.stop.injEq] at h
        obtain ⟨h1, h2, h3, h4⟩ := h
        subst h4
        obtain ⟨q1, q2⟩ := get_stop_growsA hga hg loc
        subst q1
        subst h2
        subst h3
        refine ⟨a' :: rest, h1.symm, rfl, Nat.le_refl _, by simp [stores, hg, replay], ?_⟩
        exact conv_step_agree e₂ loc k ks pos pre rest d' instr vals a' a q2

/-- if both runs of `assemble` complete, they end with the same instruction -/
def AsmAgree (x y : St × Res) : Prop := x.2 = .completed → y.2 = .completed → x.1.instr = y.1.instr

/-- **the retry theorem for `Front.assemble`, agreement form**: the first attempt (over `e₁`, `local`) was deferred — by an
unknown or by a Deferred name — and left `fs1`; if the re-run from `fs1` over `e₂` and the fresh run over `e₂` both complete,
they end with the same instruction -/
theorem assemble_retry_agree (e₁ e₂ : Arg → EvalOut) (addr : Nat) (t : Instr) (args : List Arg)
    (hgr : ∀ p ∈ List.zip (kinds t) args, GrowsA p.1 e₁ e₂ p.2) (fs1 : St) (c : Bytes)
    (h1 : assemble ⟨addr, t, 0, args⟩ e₁ true = (fs1, .deferred c)) (loc : Bool) :
    AsmAgree (assemble fs1 e₂ loc) (assemble ⟨addr, t, 0, args⟩ e₂ loc) := by
  unfold assemble at h1
  simp only at h1
  by_cases c1 : args.length > (kinds t).length
  · rw [if_pos c1] at h1; cases h1
  rw [if_neg c1] at h1
  by_cases c2 : args.length < (kinds t).length
  · rw [if_pos c2] at h1; cases h1
  rw [if_neg c2] at h1
  cases hc : conv e₁ true (kinds t) 0 [] args 0 t [] with
  | ok A D I vals =>
    rw [hc] at h1
    simp only at h1
    split at h1 <;> cases h1
  | stop A D I r =>
    rw [hc] at h1
    simp only [Prod.mk.injEq] at h1
    obtain ⟨hfs, hr⟩ := h1
    subst hr
    have hk3 := kinds_le_three t
    obtain ⟨restA, r1, r2, _, r4, r5⟩ := conv_retry_agree e₁ e₂ loc (kinds t) 0 [] args 0 t [] A D I c hgr (by omega) hc
    simp only [List.reverse_nil, List.nil_append] at r1
    subst r1
    subst hfs
    have hkI : kinds I = kinds t := by rw [r4, kinds_replay]
    unfold AsmAgree assemble
    simp only [hkI, r2, c1, c2, if_false]
    intro hx hy
    cases ha : conv e₂ loc (kinds t) 0 [] A D I [] with
    | stop A1 D1 I1 r1 =>
      rw [ha] at hx
      simp only at hx
      exact absurd (hx ▸ ha) (Asm.conv_stop_not_completed e₂ loc _ _ _ _ _ _ _ _ _ _)
    | ok A1 D1 I1 V1 =>
      cases hb : conv e₂ loc (kinds t) 0 [] args 0 t [] with
      | stop A2 D2 I2 r2 =>
        rw [hb] at hy
        simp only at hy
        exact absurd (hy ▸ hb) (Asm.conv_stop_not_completed e₂ loc _ _ _ _ _ _ _ _ _ _)
      | ok A2 D2 I2 V2 =>
        obtain ⟨rfl, rfl⟩ := r5 _ _ _ _ _ _ _ _ ha hb
        simp only
        cases finish addr I1 V1 (kinds t).length <;> rfl

end Trion.Front

namespace Trion.Front
open Trion

/-- the number a number getter reads -/
def numVal : Kind → Int → Option Val
  | .immediate, c => (narrowI32 c).map .imm
  | .offset, c => (narrowU32 c).map .off
  | _, _ => none

/-- a number getter succeeds exactly on an operand that evaluates completely to a constant in range -/
theorem get_number_ok {k : Kind} (hk : k.number = true) {e : Arg → EvalOut} {loc : Bool} {pos done : Nat} (hd : done ≤ pos)
    {x : Arg} {v : Val} {y : Arg} {d : Nat} (h : get k e loc pos done x = .ok v y d) :
    ∃ c, e x = .complete (.const c) ∧ numVal k c = some v ∧ d = pos + 1 := by
  cases k <;> simp [Kind.number] at hk
  all_goals
    simp only [get, evalArg, hd, if_true] at h
    cases hx : e x with
    | complete t =>
      cases t with
      | const c =>
        rw [hx] at h
        simp only at h
        refine ⟨c, rfl, ?_⟩
        simp only [numVal]
        split at h
        · rename_i w hw
          simp only [GetOut.ok.injEq] at h
          obtain ⟨rfl, _, rfl⟩ := h
          exact ⟨by rw [hw]; rfl, rfl⟩
        · cases h
      | _ => rw [hx] at h; cases h
    | deferred c t => rw [hx] at h; cases h
    | noSuchVariable n t => rw [hx] at h; cases loc <;> cases h
    | error er t => rw [hx] at h; cases h

end Trion.Front

namespace Trion.Asm
open Trion

theorem frontEval_complete_iff (t : Table) (x a' : Arg) :
    frontEval t x = .complete a' ↔
      ∃ ev, Simp.evaluateE (fun n => t.get n) Front.isRegister x = .ok ev a' ∧ ev.cause = none := by
  unfold frontEval evalIn
  cases he : Simp.evaluateE (fun n => t.get n) Front.isRegister x with
  | ok ev y =>
    cases hcz : ev.cause with
    | none =>
      simp only [hcz]
      constructor
      · intro h; cases h; exact ⟨ev, rfl, hcz⟩
      · rintro ⟨ev', h, _⟩; cases h; rfl
    | some cc =>
      simp only [hcz]
      constructor
      · intro h; cases h
      · rintro ⟨ev', h, h'⟩; cases h; rw [hcz] at h'; cases h'
  | nosuch n y =>
    simp only
    constructor
    · intro h; cases h
    · rintro ⟨ev', h, _⟩; cases h
  | err e y =>
    simp only
    constructor
    · intro h; cases e <;> cases h
    · rintro ⟨ev', h, _⟩; cases h
  | panic =>
    simp only
    constructor
    · intro h; cases h
    · rintro ⟨ev', h, _⟩; cases h

theorem frontEval_deferred_eval {t : Table} {a : Arg} {c : Bytes} {a₁ : Arg} (h : frontEval t a = .deferred c a₁) :
    ∃ ev, Simp.evaluateE (fun n => t.get n) Front.isRegister a = .ok ev a₁ := by
  unfold frontEval evalIn at h
  cases he : Simp.evaluateE (fun n => t.get n) Front.isRegister a with
  | ok ev x =>
    rw [he] at h
    cases hc : ev.cause with
    | none => simp [hc] at h
    | some cc => simp only [hc, Front.EvalOut.deferred.injEq] at h; obtain ⟨_, rfl⟩ := h; exact ⟨ev, rfl⟩
  | nosuch m x => rw [he] at h; cases h
  | err e x => rw [he] at h; cases e <;> cases h
  | panic => rw [he] at h; cases h

/-- what the first attempt (deferred by an unknown or by a Deferred name) left is `LeftBy` -/
theorem leftBy_of_frontEval {t : Table} {a a₁ : Arg}
    (h : (∃ n, frontEval t a = .noSuchVariable n a₁) ∨ (∃ c, frontEval t a = .deferred c a₁)) :
    Simp.LeftBy (fun n => t.get n) Front.isRegister a a₁ := by
  rcases h with ⟨n, h⟩ | ⟨c, h⟩
  · exact .inr ⟨n, frontEval_noSuch_eval h⟩
  · exact .inl (frontEval_deferred_eval h)

theorem frontEval_complete_mono' {t₁ t₂ : Table} (hs : Table.Sub t₁ t₂) {a a' : Arg}
    (h : frontEval t₁ a = .complete a') : frontEval t₂ a = .complete a' := by
  obtain ⟨ev, he, hc⟩ := (frontEval_complete_iff t₁ a a').1 h
  exact (frontEval_complete_iff t₂ a a').2 ⟨ev, Simp.evaluateE_mono_complete (Table.sub_get hs) he hc, hc⟩

/-- `GrowsA` at a NUMBER position: no condition on the operand tree, Deferred names allowed -/
theorem growsA_number {t₁ t₂ : Table} (hs : Table.Sub t₁ t₂) (hT : Simp.tableOk (fun n => t₂.get n)) {k : Front.Kind}
    (hk : k.number = true) (a : Arg) (hlit : Simp.litsOk a = true) :
    Front.GrowsA k (frontEval t₁) (frontEval t₂) a := by
  refine ⟨fun a' h => frontEval_complete_mono' hs h, fun _ a₁ hl loc pos done hd => ?_⟩
  intro v x d v' x' d' g1 g2
  obtain ⟨c1, e1, n1, rfl⟩ := Front.get_number_ok hk hd g1
  obtain ⟨c2, e2, n2, rfl⟩ := Front.get_number_ok hk hd g2
  obtain ⟨ev1, f1, _⟩ := (frontEval_complete_const t₂ a₁ c1).1 e1
  obtain ⟨ev2, f2, _⟩ := (frontEval_complete_const t₂ a c2).1 e2
  have := Simp.number_order_independent (Table.sub_get hs) hT hlit (leftBy_of_frontEval hl) f1 f2
  subst this
  rw [n1] at n2
  exact ⟨Option.some.inj n2, rfl⟩

/-- no identifier of the operand is Deferred in `t` -/
def noDeferredIn (t : Table) (a : Arg) : Bool := Simp.noDefIn (fun n => t.get n) a

/-- `GrowsA` at any position for an operand that mentions no Deferred name of `t₁` (tree-level retry) -/
theorem growsA_noDeferred {t₁ t₂ : Table} (hs : Table.Sub t₁ t₂) (k : Front.Kind) {a : Arg}
    (ha : noDeferredIn t₁ a = true) : Front.GrowsA k (frontEval t₁) (frontEval t₂) a := by
  refine ⟨fun a' h => frontEval_complete_mono' hs h, fun hk a₁ hl loc pos done hd => ?_⟩
  have hcause : ∀ ev y, Simp.evaluateE (fun n => t₁.get n) Front.isRegister a = .ok ev y → ev.cause = none := by
    intro ev y h
    rw [Simp.evaluateE_undefer Front.isRegister ha] at h
    exact Simp.evaluateE_cause_none (Simp.undefer_noDef _) h
  rcases hl with ⟨n, h⟩ | ⟨c, h⟩
  · have h' := frontEval_noSuch_eval h
    have hres := Simp.resumes_noDefIn (isReg := Front.isRegister) (Table.sub_get hs) ha n a₁ h'
    have : frontEval t₂ a₁ = frontEval t₂ a := frontEval_congr t₂ _ _ (evalIn_forget t₂ _ _ hres)
    apply Front.GetSim.agree
    apply Front.GetSim.of_eq
    rw [Front.get_eq_post k hk, Front.get_eq_post k hk, Front.evalArg_congr this loc hd]
  · exfalso
    unfold frontEval evalIn at h
    cases he : Simp.evaluateE (fun n => t₁.get n) Front.isRegister a with
    | ok ev x =>
      rw [he] at h
      simp [hcause ev x he] at h
    | nosuch m x => rw [he] at h; cases h
    | err e x => rw [he] at h; cases e <;> cases h
    | panic => rw [he] at h; cases h

/-- `GrowsA` at every getter: numbers need only `litsOk`, the other evaluated kinds an operand free of Deferred names -/
theorem growsA_any {t₁ t₂ : Table} (hs : Table.Sub t₁ t₂) (hT : Simp.tableOk (fun n => t₂.get n)) (k : Front.Kind) (a : Arg)
    (hlit : Simp.litsOk a = true) (hp : k.shape = true → noDeferredIn t₁ a = true) :
    Front.GrowsA k (frontEval t₁) (frontEval t₂) a := by
  cases hsh : k.shape with
  | true => exact growsA_noDeferred hs k (hp hsh)
  | false =>
    cases hnum : k.number with
    | true => exact growsA_number hs hT hnum a hlit
    | false =>
      have hk : k.evals = false := by
        cases k <;> simp_all [Front.Kind.shape, Front.Kind.number, Front.Kind.evals]
      exact ⟨fun a' h => frontEval_complete_mono' hs h, fun h => by rw [hk] at h; cases h⟩

end Trion.Asm

/-! ## acceptance up to an arithmetic overflow (number operands) -/

namespace Trion.Front
open Trion

/-- the result is an `EvalError::Overflow` diagnostic -/
def Res.isOverflow : Res → Prop
  | .error (.evalErr (.overflow _)) => True
  | _ => False

/-- whenever `g'` succeeds, `g` succeeds with the same value or stops with an arithmetic overflow -/
def GetLe (g g' : GetOut) : Prop :=
  ∀ v x' d, g' = .ok v x' d → (∃ x, g = .ok v x d) ∨ (∃ x d₂ r, g = .stop x d₂ r ∧ r.isOverflow)

def ConvLe (c c' : ConvOut) : Prop :=
  ∀ A' D' I V, c' = .ok A' D' I V → (∃ A D, c = .ok A D I V) ∨ (∃ A D I₂ r, c = .stop A D I₂ r ∧ r.isOverflow)

theorem GetLe.refl (g : GetOut) : GetLe g g := fun _ x' _ h => .inl ⟨x', h⟩

theorem ConvLe.of_sim {c c' : ConvOut} (h : ConvSim c c') : ConvLe c c' := by
  intro A' D' I V h'
  obtain ⟨A, D, h2⟩ := h.2 A' D' I V h'
  exact .inl ⟨A, D, h2⟩

theorem conv_step_le (e : Arg → EvalOut) (loc : Bool) (k : Kind) (ks : List Kind) (pos : Nat) (pre rest : List Arg)
    (done : Nat) (instr : Instr) (vals : List Val) (a a' : Arg)
    (hg : GetLe (get k e loc pos done a) (get k e loc pos done a')) :
    ConvLe (conv e loc (k :: ks) pos pre (a :: rest) done instr vals)
      (conv e loc (k :: ks) pos pre (a' :: rest) done instr vals) := by
  intro A' D' I V h'
  simp only [conv] at h' ⊢
  cases g2 : get k e loc pos done a' with
  | stop x d r => rw [g2] at h'; cases h'
  | ok v x' d =>
    rw [g2] at h'
    rcases hg v x' d g2 with ⟨x, g1⟩ | ⟨x, d₂, r, g1, hr⟩
    · rw [g1]
      simp only at h' ⊢
      obtain ⟨A, D, h3⟩ := (conv_pre_irrel e loc ks (pos + 1) (x :: pre) (x' :: pre) rest d (setOp instr pos v)
        (v :: vals)).2 A' D' I V h'
      exact .inl ⟨A, D, h3⟩
    · rw [g1]
      exact .inr ⟨_, _, _, r, rfl, hr⟩

/-- both directions -/
structure GrowsO (k : Kind) (e₁ e₂ : Arg → EvalOut) (a : Arg) : Prop where
  complete : ∀ a', e₁ a = .complete a' → e₂ a = .complete a'
  stop : k.evals = true → ∀ a₁, ((∃ n, e₁ a = .noSuchVariable n a₁) ∨ (∃ c, e₁ a = .deferred c a₁)) →
    ∀ loc pos done, done ≤ pos →
      GetLe (get k e₂ loc pos done a₁) (get k e₂ loc pos done a) ∧ GetLe (get k e₂ loc pos done a) (get k e₂ loc pos done a₁)

theorem get_stop_growsO {k : Kind} {e₁ e₂ : Arg → EvalOut} {a : Arg} (hg : GrowsO k e₁ e₂ a) {pos done : Nat}
    {a' : Arg} {d' : Nat} {c : Bytes} (h : get k e₁ true pos done a = .stop a' d' (.deferred c)) (loc : Bool) :
    d' = done ∧ GetLe (get k e₂ loc pos done a') (get k e₂ loc pos done a) ∧
      GetLe (get k e₂ loc pos done a) (get k e₂ loc pos done a') := by
  cases hk : k.evals with
  | false => exact absurd h ((get_nonevals hk).2 _ _ _)
  | true =>
    rw [get_eq_post k hk] at h
    cases he : evalArg e₁ true pos done a with
    | error p =>
      obtain ⟨x, r⟩ := p
      rw [he] at h
      simp only [GetOut.stop.injEq] at h
      obtain ⟨h1, h2, h3⟩ := h
      subst h1; subst h2; subst h3
      refine ⟨rfl, ?_⟩
      unfold evalArg at he
      by_cases hd : done ≤ pos
      · simp only [hd, if_true] at he
        cases hx : e₁ a with
        | complete y => rw [hx] at he; cases he
        | deferred c' y =>
          rw [hx] at he
          simp only [Except.error.injEq, Prod.mk.injEq] at he
          obtain ⟨h1, _⟩ := he
          subst h1
          exact hg.stop hk _ (.inr ⟨c', hx⟩) loc pos done hd
        | noSuchVariable n y =>
          rw [hx] at he
          simp only [Except.error.injEq, Prod.mk.injEq] at he
          obtain ⟨h1, _⟩ := he
          subst h1
          exact hg.stop hk _ (.inl ⟨n, hx⟩) loc pos done hd
        | error er y => rw [hx] at he; cases he
      · simp only [hd, if_false] at he; cases he
    | ok p =>
      obtain ⟨x, d⟩ := p
      rw [he] at h
      exact absurd h post_not_deferred

theorem conv_retry_ov (e₁ e₂ : Arg → EvalOut) (loc : Bool) : ∀ (ks : List Kind) (pos : Nat) (pre rest : List Arg) (done : Nat)
    (instr : Instr) (vals : List Val) (A : List Arg) (D : Nat) (I : Instr) (c : Bytes),
    (∀ p ∈ List.zip ks rest, GrowsO p.1 e₁ e₂ p.2) → pos + ks.length ≤ 3 →
    conv e₁ true ks pos pre rest done instr vals = .stop A D I (.deferred c) →
    ∃ restA, A = pre.reverse ++ restA ∧ restA.length = rest.length ∧ done ≤ D ∧
      I = replay (stores e₁ ks pos rest done) instr ∧
      ConvLe (conv e₂ loc ks pos pre restA D I vals) (conv e₂ loc ks pos pre rest done instr vals) ∧
      ConvLe (conv e₂ loc ks pos pre rest done instr vals) (conv e₂ loc ks pos pre restA D I vals) := by
  intro ks
  induction ks with
  | nil => intro pos pre rest done instr vals A D I c _ _ h; simp [conv] at h
  | cons k ks ih =>
    intro pos pre rest done instr vals A D I c hgr hlen h
    cases rest with
    | nil => simp only [conv] at h; cases h
    | cons a rest =>
      have hga : GrowsO k e₁ e₂ a := hgr (k, a) (by simp)
      simp only [conv] at h
      cases hg : get k e₁ true pos done a with
      | ok v a' d' =>
        rw [hg] at h
        simp only at h
        obtain ⟨g1, g2, g3⟩ := get_ok_growsS hga.complete hg loc
        have hlen' : pos + 1 + ks.length ≤ 3 := by simp only [List.length_cons] at hlen; omega
        obtain ⟨restA, r1, r2, r3, r4, r5, r6⟩ :=
          ih (pos + 1) (a' :: pre) rest d' (setOp instr pos v) (v :: vals) A D I c
            (fun x hx => hgr x (by simp only [List.zip_cons_cons]; exact List.mem_cons_of_mem _ hx)) hlen' h
        obtain ⟨s1, s2⟩ := stores_shape e₁ ks (pos + 1) (a' :: pre) rest d' (setOp instr pos v) (v :: vals) A D I c h
        have hσ : stores e₁ ks (pos + 1) rest d' = [] ∨ (pos = 0 ∧ ∃ w, stores e₁ ks (pos + 1) rest d' = [(1, w)]) := by
          cases hs : stores e₁ ks (pos + 1) rest d' with
          | nil => exact .inl rfl
          | cons p σ =>
            rw [hs] at s1 s2
            simp only [List.length_cons] at s1
            have hp0 : pos = 0 := by omega
            have hσ' : σ = [] := by
              cases σ with
              | nil => rfl
              | cons _ _ => simp only [List.length_cons] at s1; omega
            have hp1 := s2 p (by simp)
            subst hσ'
            subst hp0
            exact .inr ⟨rfl, p.2, by cases p; simp only at hp1; subst hp1; rfl⟩
        refine ⟨a' :: restA, by rw [r1]; simp, by simp [r2], Nat.le_trans g2 r3, ?_, ?_, ?_⟩
        · simp only [stores, hg, replay, List.foldl_cons]; exact r4
        · simp only [conv, g1, g3 D r3]
          rw [r4, replay_absorb _ _ _ _ hσ, ← r4]
          exact r5
        · simp only [conv, g1, g3 D r3]
          rw [r4, replay_absorb _ _ _ _ hσ, ← r4]
          exact r6
      | stop a' d' r =>
        rw [hg] at h
        simp only [ConvOut.stop.injEq] at h
        obtain ⟨h1, h2, h3, h4⟩ := h
        subst h4
        obtain ⟨q1, q2, q3⟩ := get_stop_growsO hga hg loc
        subst q1
        subst h2
        subst h3
        refine ⟨a' :: rest, h1.symm, rfl, Nat.le_refl _, by simp [stores, hg, replay], ?_, ?_⟩
        · exact conv_step_le e₂ loc k ks pos pre rest d' instr vals a' a q2
        · exact conv_step_le e₂ loc k ks pos pre rest d' instr vals a a' q3

/-- whenever `y` completes, `x` completes with the same instruction or ends with an arithmetic overflow diagnostic -/
def AsmLe (x y : St × Res) : Prop :=
  y.2 = .completed → (x.2 = .completed ∧ x.1.instr = y.1.instr) ∨ x.2.isOverflow

/-- the code of `assemble` after `convert!` -/
def assembleTail (addr n : Nat) : ConvOut → St × Res
  | .stop args done instr r => (⟨addr, instr, done, args⟩, r)
  | .ok args done instr vals =>
    match finish addr instr vals n with
    | .ok i => (⟨addr, i, done, args⟩, .completed)
    | .error d => (⟨addr, instr, done, args⟩, .error d)

theorem asmLe_of_convLe {addr n : Nat} {c c' : ConvOut} (h : ConvLe c c')
    (hs : ∀ A D I, c' ≠ .stop A D I .completed) : AsmLe (assembleTail addr n c) (assembleTail addr n c') := by
  intro hy
  cases hc' : c' with
  | stop A D I r =>
    rw [hc'] at hy
    simp only [assembleTail] at hy
    subst hy
    exact absurd hc' (hs A D I)
  | ok A' D' I V =>
    rcases h A' D' I V hc' with ⟨A, D, h1⟩ | ⟨A, D, I₂, r, h1, hr⟩
    · rw [h1]
      rw [hc'] at hy
      simp only [assembleTail] at hy ⊢
      cases hf : finish addr I V n with
      | ok i => exact .inl ⟨rfl, rfl⟩
      | error d => rw [hf] at hy; cases hy
    · rw [h1]; exact .inr hr

theorem assemble_eq_tail (st : St) (e : Arg → EvalOut) (loc : Bool)
    (c1 : ¬ st.args.length > (kinds st.instr).length) (c2 : ¬ st.args.length < (kinds st.instr).length) :
    assemble st e loc =
      assembleTail st.addr (kinds st.instr).length (conv e loc (kinds st.instr) 0 [] st.args st.argsDone st.instr []) := by
  unfold assemble assembleTail
  simp only [c1, c2, if_false]
  cases conv e loc (kinds st.instr) 0 [] st.args st.argsDone st.instr [] with
  | stop A D I r => rfl
  | ok A D I V => cases finish st.addr I V (kinds st.instr).length <;> rfl

/-- **the retry theorem for `Front.assemble`, acceptance up to overflow**: first attempt deferred (by an unknown or a
Deferred name); whenever one of the two runs over `e₂` completes, the other completes with the same instruction or ends
with an arithmetic-overflow diagnostic -/
theorem assemble_retry_ov (e₁ e₂ : Arg → EvalOut) (addr : Nat) (t : Instr) (args : List Arg)
    (hgr : ∀ p ∈ List.zip (kinds t) args, GrowsO p.1 e₁ e₂ p.2) (fs1 : St) (c : Bytes)
    (h1 : assemble ⟨addr, t, 0, args⟩ e₁ true = (fs1, .deferred c)) (loc : Bool) :
    AsmLe (assemble fs1 e₂ loc) (assemble ⟨addr, t, 0, args⟩ e₂ loc) ∧
    AsmLe (assemble ⟨addr, t, 0, args⟩ e₂ loc) (assemble fs1 e₂ loc) := by
  have h1' := h1
  unfold assemble at h1
  simp only at h1
  by_cases c1 : args.length > (kinds t).length
  · rw [if_pos c1] at h1; cases h1
  rw [if_neg c1] at h1
  by_cases c2 : args.length < (kinds t).length
  · rw [if_pos c2] at h1; cases h1
  rw [if_neg c2] at h1
  cases hc : conv e₁ true (kinds t) 0 [] args 0 t [] with
  | ok A D I vals =>
    rw [hc] at h1
    simp only at h1
    split at h1 <;> cases h1
  | stop A D I r =>
    rw [hc] at h1
    simp only [Prod.mk.injEq] at h1
    obtain ⟨hfs, hr⟩ := h1
    subst hr
    have hk3 := kinds_le_three t
    obtain ⟨restA, r1, r2, _, r4, r5, r6⟩ := conv_retry_ov e₁ e₂ loc (kinds t) 0 [] args 0 t [] A D I c hgr (by omega) hc
    simp only [List.reverse_nil, List.nil_append] at r1
    subst r1
    subst hfs
    have hkI : kinds I = kinds t := by rw [r4, kinds_replay]
    rw [assemble_eq_tail ⟨addr, I, D, A⟩ e₂ loc (by simpa [hkI, r2] using c1) (by simpa [hkI, r2] using c2),
      assemble_eq_tail ⟨addr, t, 0, args⟩ e₂ loc c1 c2]
    simp only [hkI]
    exact ⟨asmLe_of_convLe r5 (fun A D I => Asm.conv_stop_not_completed e₂ loc _ _ _ _ _ _ _ _ _ _),
      asmLe_of_convLe r6 (fun A D I => Asm.conv_stop_not_completed e₂ loc _ _ _ _ _ _ _ _ _ _)⟩

end Trion.Front

namespace Trion.Front
open Trion

theorem get_number_intro {k : Kind} (hk : k.number = true) {e : Arg → EvalOut} (loc : Bool) {pos done : Nat} (hd : done ≤ pos)
    {x : Arg} {c : Int} {v : Val} (he : e x = .complete (.const c)) (hv : numVal k c = some v) :
    get k e loc pos done x = .ok v (.const c) (pos + 1) := by
  cases k <;> simp [Kind.number] at hk
  all_goals
    simp only [get, evalArg, hd, if_true, he]
    simp only [numVal] at hv
    split
    · rename_i w hw
      rw [hw] at hv
      simp only [Option.map_some, Option.some.injEq] at hv
      rw [← hv]
    · rename_i hw
      rw [hw] at hv
      cases hv

theorem get_eval_error {k : Kind} (hk : k.evals = true) {e : Arg → EvalOut} (loc : Bool) {pos done : Nat} (hd : done ≤ pos)
    {x y : Arg} {er : EvalErr} (he : e x = .error er y) :
    get k e loc pos done x = .stop y done (.error (.evalErr er)) := by
  rw [get_eq_post k hk]
  simp only [evalArg, hd, if_true, he]

theorem number_evals {k : Kind} (hk : k.number = true) : k.evals = true := by
  cases k <;> simp [Kind.number] at hk <;> rfl

end Trion.Front

namespace Trion.Asm
open Trion

theorem frontEval_overflow {t : Table} {x y : Arg} {k : Simp.OvKind}
    (h : Simp.evaluateE (fun n => t.get n) Front.isRegister x = .err (.overflow k) y) :
    frontEval t x = .error (.overflow (ovName k)) y := by
  unfold frontEval evalIn
  rw [h]
  rfl

/-- `GrowsO` at a NUMBER position: acceptance of the two routes differs at most by an arithmetic overflow -/
theorem growsO_number {t₁ t₂ : Table} (hs : Table.Sub t₁ t₂) (hT : Simp.tableOk (fun n => t₂.get n)) {k : Front.Kind}
    (hk : k.number = true) (a : Arg) (hlit : Simp.litsOk a = true) :
    Front.GrowsO k (frontEval t₁) (frontEval t₂) a := by
  refine ⟨fun a' h => frontEval_complete_mono' hs h, fun _ a₁ hl loc pos done hd => ⟨?_, ?_⟩⟩
  · intro v x' d g
    obtain ⟨c, e, n, rfl⟩ := Front.get_number_ok hk hd g
    obtain ⟨ev, f, hc⟩ := (frontEval_complete_const t₂ a c).1 e
    rcases Simp.retry_of_fresh_number (Table.sub_get hs) hT hlit (leftBy_of_frontEval hl) f hc with
      ⟨ev₂, f₂, c₂⟩ | ⟨ko, y, f₂⟩
    · exact .inl ⟨_, Front.get_number_intro hk loc hd ((frontEval_complete_const t₂ a₁ c).2 ⟨ev₂, f₂, c₂⟩) n⟩
    · exact .inr ⟨y, done, _, Front.get_eval_error (Front.number_evals hk) loc hd (frontEval_overflow f₂), trivial⟩
  · intro v x' d g
    obtain ⟨c, e, n, rfl⟩ := Front.get_number_ok hk hd g
    obtain ⟨ev, f, hc⟩ := (frontEval_complete_const t₂ a₁ c).1 e
    rcases Simp.fresh_of_retry_number (Table.sub_get hs) hT hlit (leftBy_of_frontEval hl) f hc with
      ⟨ev₂, f₂, c₂⟩ | ⟨ko, y, f₂⟩
    · exact .inl ⟨_, Front.get_number_intro hk loc hd ((frontEval_complete_const t₂ a c).2 ⟨ev₂, f₂, c₂⟩) n⟩
    · exact .inr ⟨y, done, _, Front.get_eval_error (Front.number_evals hk) loc hd (frontEval_overflow f₂), trivial⟩

/-- `GrowsO` at a position that is not evaluated -/
theorem growsO_nonevals {t₁ t₂ : Table} (hs : Table.Sub t₁ t₂) {k : Front.Kind} (hk : k.evals = false) (a : Arg) :
    Front.GrowsO k (frontEval t₁) (frontEval t₂) a :=
  ⟨fun a' h => frontEval_complete_mono' hs h, fun h => by rw [hk] at h; cases h⟩

end Trion.Asm
