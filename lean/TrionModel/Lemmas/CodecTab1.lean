import TrionModel.Lemmas.CodecTab
namespace Trion.Codec
/-- halfwords 0x2000 … 0x3fff, evaluated by the kernel -/
theorem chkBlock1 : chkBlock 1 32 := by decide +kernel
end Trion.Codec
