import TrionModel.Lemmas.LexStep2
/-!
# Helper lemmas for the tokenizer model, part 5: the skip loop, `next_token`, iteration
-/
namespace Trion.Lex
open Trion.Pos (isCont adv countLF)

/-! ### white space and comments -/

theorem isSpace_ascii {b : UInt8} (h : isSpace b = true) : b.toNat < 128 := by
  simp [isSpace] at h
  omega

theorem skipSpaces_spec (s : State) (hu : Utf8 s.data) :
    ∃ pre s1, skipSpaces s = some s1 ∧ s.data = pre ++ s1.data ∧ Utf8 s1.data ∧ s1.pos = adv s.pos pre ∧
      s1.utfErr = s.utfErr := by
  unfold skipSpaces
  cases hp : position (fun b => !isSpace b) s.data with
  | none =>
    simp only
    by_cases hl : s.data.length > 0
    · simp only [hl, if_true]
      have h1 : sliceTo s.data s.data.length = some s.data := by simp [sliceTo, isBoundary_length]
      have h2 : sliceFrom s.data s.data.length = some [] := by simp [sliceFrom, isBoundary_length]
      rw [h1, h2]
      simp only
      rw [updatePos_eq (good_of_utf8 hu)]
      exact ⟨s.data, _, rfl, by simp, Utf8.nil, rfl, rfl⟩
    · simp only [hl, if_false]
      exact ⟨[], s, rfl, by simp, hu, rfl, rfl⟩
  | some i =>
    simp only
    obtain ⟨pre, b, post, hsplit, hlen, hb, hall⟩ := position_some hp
    by_cases hi : i > 0
    · simp only [hi, if_true]
      have hr : Utf8 (b :: post) := utf8_drop_ascii (hsplit ▸ hu) (fun x hx => by
        have := hall x hx; simp at this; exact isSpace_ascii this)
      subst hlen
      rw [hsplit, sliceTo_split pre _ (utf8_head? hr), sliceFrom_split pre _ (utf8_head? hr)]
      simp only
      rw [updatePos_eq (good_of_utf8_prefix (hsplit ▸ hu))]
      exact ⟨pre, _, rfl, rfl, hr, rfl, rfl⟩
    · simp only [hi, if_false]
      exact ⟨[], s, rfl, by simp, hu, rfl, rfl⟩

/-- what the `while` loop of `next_token` guarantees -/
def SkipSpec (s : State) : SkipRes → Prop
  | .go s' => ∃ pre, s.data = pre ++ s'.data ∧ Utf8 s'.data ∧ s'.pos = adv s.pos pre ∧ s'.utfErr = s.utfErr
  | .err e s' => s'.data = [] ∧ s'.utfErr = false ∧ s'.pos = (e.line, e.col)
  | .panic => False
  | .fuel => False

theorem skipSpec_trans {s s2 : State} {p : Bytes} {r : SkipRes} (hd : s.data = p ++ s2.data)
    (hpos : s2.pos = adv s.pos p) (hue : s2.utfErr = s.utfErr) (h : SkipSpec s2 r) : SkipSpec s r := by
  cases r with
  | go s' =>
    obtain ⟨pre, h1, h2, h3, h4⟩ := h
    refine ⟨p ++ pre, by rw [hd, h1]; simp, h2, ?_, by rw [h4, hue]⟩
    rw [h3, hpos, Pos.adv_append]
  | err e s' => exact h
  | panic => exact h
  | fuel => exact h

theorem countLF_eq_zero {d : Bytes} (h : ∀ x ∈ d, x.toNat ≠ 10) : countLF d = 0 := by
  induction d with
  | nil => rfl
  | cons b d ih =>
    rw [Pos.countLF_cons, ih (fun x hx => h x (by simp [hx]))]
    simp [h b (by simp)]

theorem adv_line_comment (p : Nat × Nat) (cpre : Bytes) (lf : UInt8) (hno : ∀ x ∈ cpre, x.toNat ≠ 10)
    (hlf : lf.toNat = 10) : adv p (cpre ++ [lf]) = (p.1 + 1, 1) := by
  rw [Pos.adv_append, Pos.adv_closed p cpre, countLF_eq_zero hno]
  simp [adv, Pos.step, hlf]

theorem scanStep_zero {b c : UInt8} {p start depth : Nat} (hdep : depth ≥ 1)
    (h : (scanStep b c p start depth).2 = 0) : c.toNat = 47 := by
  unfold scanStep at h
  simp only at h
  split at h
  · omega
  · split at h
    · rename_i hclose
      simp at hclose
      exact hclose.2
    · omega

theorem scanBlock_some {l : Bytes} {k start depth k' : Nat} (hdep : depth ≥ 1)
    (h : scanBlock l k start depth = some k') :
    ∃ j c, k' = k + j ∧ l[j + 1]? = some c ∧ c.toNat = 47 := by
  induction l generalizing k start depth with
  | nil => simp [scanBlock] at h
  | cons b tl ih =>
    cases tl with
    | nil => simp [scanBlock] at h
    | cons c tl' =>
      rw [scanBlock] at h
      by_cases hz : (scanStep b c (k + 2) start depth).2 = 0
      · simp only [hz, beq_self_eq_true, if_true] at h
        cases h
        exact ⟨0, c, rfl, rfl, scanStep_zero hdep hz⟩
      · have : ((scanStep b c (k + 2) start depth).2 == 0) = false := by simpa using hz
        simp only [this, Bool.false_eq_true, if_false] at h
        obtain ⟨j, c', hk, hc1, hc2⟩ := ih (by omega) h
        exact ⟨j + 1, c', by omega, by simpa using hc1, hc2⟩

theorem split_at_index {d : Bytes} {i : Nat} {c : UInt8} (h : d[i]? = some c) :
    ∃ pre post, d = pre ++ c :: post ∧ pre.length = i := by
  induction d generalizing i with
  | nil => simp at h
  | cons b d ih =>
    cases i with
    | zero => simp at h; subst h; exact ⟨[], d, rfl, rfl⟩
    | succ i =>
      simp at h
      obtain ⟨pre, post, hd, hl⟩ := ih h
      exact ⟨b :: pre, post, by rw [hd]; rfl, by simp [hl]⟩

theorem skipLoop_spec (f : Nat) (s : State) (hu : Utf8 s.data) (hf : s.data.length < f) :
    SkipSpec s (skipLoop f s) := by
  induction f generalizing s with
  | zero => omega
  | succ f ih =>
    unfold skipLoop
    by_cases hz : s.data.length = 0
    · simp only [hz, beq_self_eq_true, if_true]
      exact ⟨[], by simp, hu, rfl, rfl⟩
    · have : (s.data.length == 0) = false := by simpa using hz
      simp only [this, Bool.false_eq_true, if_false]
      obtain ⟨pre, s1, hs, hd, hu1, hpos, hue⟩ := skipSpaces_spec s hu
      rw [hs]
      simp only
      have hlen1 : s1.data.length ≤ s.data.length := by rw [hd]; simp
      apply skipSpec_trans hd hpos hue
      by_cases hlc : startsWith2 s1.data 47 47 = true
      · rw [if_pos hlc]
        cases hp : position (fun b => b.toNat == 10) s1.data with
        | none =>
          simp only
          rw [updatePos_eq (good_of_utf8 hu1)]
          simp only
          split
          · simp [SkipSpec, State.pos]
          · rename_i hne
            refine ⟨s1.data, by simp, Utf8.nil, rfl, ?_⟩
            simp at hne; simp [hne]
        | some lineLen =>
          simp only
          obtain ⟨cpre, lf, post, hsplit, hl, hlf, hall⟩ := position_some hp
          simp at hlf
          have hpost : Utf8 post := utf8_split_after_ascii (hsplit ▸ hu1) (by omega)
          have hsl : sliceFrom s1.data (lineLen + 1) = some post := by
            have := sliceFrom_split (cpre ++ [lf]) post (utf8_head? hpost)
            rw [hsplit, ← hl]; simpa using this
          rw [hsl]
          simp only
          have hplen : post.length < s1.data.length := by rw [hsplit]; simp; omega
          have h2 := ih ⟨post, s1.utfErr, s1.line + 1, 1⟩ hpost (by simp; omega)
          refine skipSpec_trans (s := s1) (s2 := ⟨post, s1.utfErr, s1.line + 1, 1⟩) (p := cpre ++ [lf])
            (by rw [hsplit]; simp) ?_ rfl h2
          rw [adv_line_comment s1.pos cpre lf (fun x hx => by have := hall x hx; simpa using this) hlf]
          rfl
      · rw [if_neg hlc]
        by_cases hbc : startsWith2 s1.data 47 42 = true
        · rw [if_pos hbc]
          obtain ⟨a0, a1, tl, hd1, _, _⟩ := (startsWith2_iff _ _ _).mp hbc
          cases hsc : scanBlock (s1.data.drop 2) 0 2 1 with
          | some k =>
            simp only
            obtain ⟨j, c, hk, hc1, hc2⟩ := scanBlock_some (by omega) hsc
            have hidx : s1.data[j + 3]? = some c := by
              rw [hd1] at hc1 ⊢
              simpa using hc1
            obtain ⟨cpre, post, hsplit, hl⟩ := split_at_index hidx
            have hpost : Utf8 post := utf8_split_after_ascii (hsplit ▸ hu1) (by omega)
            have hkk : 4 + k = (cpre ++ [c]).length := by simp; omega
            have hd2 : s1.data = (cpre ++ [c]) ++ post := by rw [hsplit]; simp
            rw [hkk]
            have e1 : sliceTo s1.data (cpre ++ [c]).length = some (cpre ++ [c]) := by
              rw [hd2]; exact sliceTo_split _ post (utf8_head? hpost)
            have e2 : sliceFrom s1.data (cpre ++ [c]).length = some post := by
              rw [hd2]; exact sliceFrom_split _ post (utf8_head? hpost)
            rw [e1, e2]
            simp only
            rw [updatePos_eq (good_of_utf8_prefix (hd2 ▸ hu1))]
            simp only
            have hplen : post.length < s1.data.length := by rw [hd2]; simp; omega
            have h2 := ih ⟨post, s1.utfErr, (adv (s1.line, s1.col) (cpre ++ [c])).1, (adv (s1.line, s1.col) (cpre ++ [c])).2⟩
              hpost (by simp; omega)
            exact skipSpec_trans (s := s1)
              (s2 := ⟨post, s1.utfErr, (adv (s1.line, s1.col) (cpre ++ [c])).1, (adv (s1.line, s1.col) (cpre ++ [c])).2⟩)
              (p := cpre ++ [c]) hd2 rfl rfl h2
          | none =>
            simp only
            rw [updatePos_eq (good_of_utf8 hu1)]
            simp [SkipSpec, State.pos]
        · rw [if_neg hbc]
          exact ⟨[], by simp, hu1, rfl, rfl⟩

/-! ### `next_token` -/

/-- what one call of `next()` guarantees on a state whose text is well-formed UTF-8 -/
def StepSpec (s : State) : Step → Prop
  | .tok t s' => ∃ pre mid, s.data = pre ++ mid ++ s'.data ∧ Utf8 s'.data ∧ s'.utfErr = s.utfErr ∧
      (t.line, t.col) = adv s.pos pre ∧ s'.pos = adv s.pos (pre ++ mid) ∧
      ∃ b, mid.head? = some b ∧ startsTok t.val b = true
  | .err e s' => s'.data = [] ∧ s'.utfErr = false ∧ s'.pos = (e.line, e.col)
  | .done s' => s'.data = [] ∧ s'.utfErr = false ∧ s.utfErr = false ∧ s'.pos = adv s.pos s.data
  | .panic => False
  | .fuel => False

theorem nextToken_spec (s : State) (hu : Utf8 s.data) : StepSpec s (nextToken s) := by
  unfold nextToken
  have hsk := skipLoop_spec (s.data.length + 1) s hu (by omega)
  cases hr : skipLoop (s.data.length + 1) s with
  | fuel => rw [hr] at hsk; exact hsk
  | panic => rw [hr] at hsk; exact hsk
  | err e s1 => rw [hr] at hsk; exact hsk
  | go s1 =>
    rw [hr] at hsk
    obtain ⟨pre, hd, hu1, hpos, hue⟩ := hsk
    simp only
    by_cases hne : s1.data = []
    · have : (!s1.data.isEmpty) = false := by simp [hne]
      simp only [this, Bool.false_eq_true, if_false]
      split
      · simp [StepSpec, hne, State.pos]
      · rename_i hu0
        simp at hu0
        refine ⟨hne, hu0, by rw [← hue, hu0], ?_⟩
        rw [hpos, hd, hne]; simp
    · have : (!s1.data.isEmpty) = true := by simp [hne]
      simp only [this, if_true]
      have hdo := doSpec_doNext s1 hu1 hne
      cases hdn : doNext s1 with
      | tok t s2 =>
        rw [hdn] at hdo
        obtain ⟨mid, h1, h2, h3, h4, h5, h6, h7⟩ := hdo
        refine ⟨pre, mid, by rw [hd, h1]; simp, h2, by rw [h3, hue], ?_, ?_, h7⟩
        · rw [h4, h5]; exact hpos
        · rw [h6, hpos, Pos.adv_append]
      | err e s2 =>
        rw [hdn] at hdo
        obtain ⟨h1, h2, h3⟩ := hdo
        exact ⟨rfl, rfl, h3⟩
      | done s2 => rw [hdn] at hdo; exact hdo.elim
      | panic => rw [hdn] at hdo; exact hdo.elim
      | fuel => rw [hdn] at hdo; exact hdo.elim

/-! ### iteration -/

/-- tokens sit at increasing byte offsets of the text, each at the position the specification assigns
to its offset, and the byte there is one a token of that kind begins with -/
inductive Placed (txt : Bytes) : Nat → List Token → Prop
  | nil (start : Nat) : Placed txt start []
  | cons (start o e : Nat) (t : Token) (ts : List Token) :
      start ≤ o → o < e → e ≤ txt.length →
      (t.line, t.col) = Pos.of (txt.take o) →
      (∃ b, txt[o]? = some b ∧ startsTok t.val b = true) →
      Placed txt e ts → Placed txt start (t :: ts)

theorem run_spec (full : Bytes) (f : Nat) (s : State) (consumed : Bytes) (hu : Utf8 s.data)
    (hfull : full = consumed ++ s.data) (hpos : s.pos = Pos.of consumed) (hf : s.data.length + 1 ≤ f) :
    ∃ o, run f s = .ok o ∧ Placed full consumed.length o.toks ∧
      (o.err = none → (o.endLine, o.endCol) = Pos.of full ∧ s.utfErr = false) ∧
      (∀ e, o.err = some e → (o.endLine, o.endCol) = (e.line, e.col)) := by
  induction f generalizing s consumed with
  | zero => omega
  | succ f ih =>
    unfold run
    have hst := nextToken_spec s hu
    cases hn : nextToken s with
    | panic => rw [hn] at hst; exact hst.elim
    | fuel => rw [hn] at hst; exact hst.elim
    | err e s1 =>
      rw [hn] at hst
      obtain ⟨_, _, h3⟩ := hst
      refine ⟨_, rfl, Placed.nil _, by simp, ?_⟩
      intro e' he
      simp at he; subst he
      exact h3
    | done s1 =>
      rw [hn] at hst
      obtain ⟨_, _, h3, h4⟩ := hst
      refine ⟨_, rfl, Placed.nil _, ?_, by simp⟩
      intro _
      refine ⟨?_, h3⟩
      show s1.pos = _
      rw [h4, hpos, hfull, Pos.of_append]
    | tok t s1 =>
      rw [hn] at hst
      obtain ⟨pre, mid, hd, hu1, hue, htp, hsp, b, hb, hbt⟩ := hst
      have hmne : mid ≠ [] := by intro h; subst h; simp at hb
      have hmlen : 0 < mid.length := List.length_pos_iff.mpr hmne
      have hfull' : full = (consumed ++ pre ++ mid) ++ s1.data := by rw [hfull, hd]; simp
      have hlen : s.data.length = pre.length + mid.length + s1.data.length := by rw [hd]; simp; omega
      obtain ⟨o, hrun, hpl, hend, herr⟩ := ih s1 (consumed ++ pre ++ mid) hu1 hfull'
        (by rw [hsp, hpos, List.append_assoc, Pos.of_append]) (by omega)
      simp only
      rw [hrun]
      refine ⟨_, rfl, ?_, ?_, herr⟩
      · refine Placed.cons _ (consumed ++ pre).length (consumed ++ pre ++ mid).length t o.toks
          (by simp) (by simp; omega) (by rw [hfull']; simp) ?_ ?_ hpl
        · have : full.take (consumed ++ pre).length = consumed ++ pre := by
            rw [hfull', List.append_assoc (consumed ++ pre)]
            exact List.take_left' rfl
          rw [this, htp, hpos, Pos.of_append]
        · refine ⟨b, ?_, hbt⟩
          obtain ⟨m', rfl⟩ : ∃ m', mid = b :: m' := by
            cases mid with
            | nil => simp at hb
            | cons x y => simp at hb; subst hb; exact ⟨y, rfl⟩
          rw [hfull']
          have : consumed ++ pre ++ b :: m' ++ s1.data = (consumed ++ pre) ++ b :: (m' ++ s1.data) := by simp
          rw [this]
          exact getElem?_append_length _ _ _
      · intro hnone
        obtain ⟨h1, h2⟩ := hend hnone
        exact ⟨h1, by rw [← hue]; exact h2⟩

/-- the results of `k` successive calls of `Iterator::next` (`none` = `None`); `none` overall if one of
them panics -/
def calls : Nat → State → Option (List (Option (Except LexErr Token)))
  | 0, _ => some []
  | k+1, s =>
    match nextToken s with
    | .tok t s' => (calls k s').map (some (.ok t) :: ·)
    | .err e s' => (calls k s').map (some (.error e) :: ·)
    | .done s' => (calls k s').map (none :: ·)
    | .panic => none
    | .fuel => none

theorem nextToken_ended (l c : Nat) : nextToken ⟨[], false, l, c⟩ = .done ⟨[], false, l, c⟩ := by
  simp [nextToken, skipLoop]

theorem calls_ended (k : Nat) (s : State) (hd : s.data = []) (hu : s.utfErr = false) :
    calls k s = some (List.replicate k none) := by
  obtain ⟨d, u, l, c⟩ := s
  simp at hd hu; subst hd; subst hu
  induction k with
  | zero => rfl
  | succ k ih => simp [calls, nextToken_ended, ih, List.replicate_succ]

theorem calls_run (f : Nat) (s : State) (hu : Utf8 s.data) (o : LexOut) (h : run f s = .ok o) (k : Nat) :
    calls (o.toks.length + 1 + k) s =
      some (o.toks.map (fun t => some (.ok t)) ++ [o.err.map .error] ++ List.replicate k none) := by
  induction f generalizing s o with
  | zero => simp [run] at h
  | succ f ih =>
    unfold run at h
    have hst := nextToken_spec s hu
    cases hn : nextToken s with
    | panic => rw [hn] at hst; exact hst.elim
    | fuel => rw [hn] at hst; exact hst.elim
    | err e s1 =>
      rw [hn] at hst h
      obtain ⟨h1, h2, _⟩ := hst
      simp at h; subst h
      simp only [List.length_nil, Nat.zero_add]
      rw [show 1 + k = k + 1 by omega, calls, hn]
      simp [calls_ended k s1 h1 h2]
    | done s1 =>
      rw [hn] at hst h
      obtain ⟨h1, h2, _⟩ := hst
      simp at h; subst h
      simp only [List.length_nil, Nat.zero_add]
      rw [show 1 + k = k + 1 by omega, calls, hn]
      simp [calls_ended k s1 h1 h2]
    | tok t s1 =>
      rw [hn] at hst h
      obtain ⟨pre, mid, hd, hu1, _⟩ := hst
      simp only at h
      cases hr : run f s1 with
      | panic => rw [hr] at h; simp [Out.push] at h
      | fuel => rw [hr] at h; simp [Out.push] at h
      | ok o1 =>
        rw [hr] at h
        simp [Out.push] at h; subst h
        have := ih s1 hu1 o1 hr
        simp only [List.length_cons]
        have e : o1.toks.length + 1 + 1 + k = (o1.toks.length + 1 + k) + 1 := by omega
        rw [e, calls, hn]
        simp only
        rw [this]
        simp

end Trion.Lex
