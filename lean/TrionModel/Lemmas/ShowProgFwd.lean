import TrionModel.Lemmas.ShowProg
import TrionModel.Lemmas.ShowDefer
import TrionModel.Lemmas.ShowDec
import TrionModel.Lemmas.AsmDefer
/-!
# The one-statement program with the label defined AFTER the statement, through the whole pipeline (C19)

`progTextFwd i a` is `.addr <a>;` ⏎ `<Show.text i a>` ⏎ `.const l_XXXXXXXX, <target>;`: the statement meets an
unknown label, is placed as a 0xBE placeholder and queued; the label is defined; at the end of the file the task
re-runs `Front.assemble` over the complete table and rewrites the placeholder with the final bytes.
-/
namespace Trion.Show
open Trion.Front Trion.Lex Trion.Codec
set_option maxRecDepth 8000

def addrStmt (a : Nat) : Bytes × List Arg := (bytesOf "addr", [.const a])
def constStmt (t : Nat) : Bytes × List Arg := (bytesOf "const", [.ident (label t), .const t])

def progPiecesFwd (i : Instr) (a t : Nat) : List Piece :=
  dirPieces (addrStmt a) ++ ([nl] ++ (stmtPieces (parts i a) ++ (nl :: dirPieces (constStmt t))))

/-- the program text with the definition after the use -/
def progTextFwd (i : Instr) (a t : Nat) : Bytes :=
  bytesOf "." ++ render (addrStmt a) ++ [10] ++ (text i a ++ ([10] ++ (bytesOf "." ++ render (constStmt t))))

def progValsFwd (i : Instr) (a t : Nat) : List ElemVal :=
  [.directive (bytesOf "addr") (Args.ofList [.const a]),
   .instruction (parts i a).1 (Args.ofList (parts i a).2),
   .directive (bytesOf "const") (Args.ofList [.ident (label t), .const t])]

theorem addrStmt_ok (a : Nat) (ha : a < 4294967296) : identOk (addrStmt a).1 = true ∧ ∀ x ∈ (addrStmt a).2, Opnd x := by
  refine ⟨by show identOk (bytesOf "addr") = true; decide, ?_⟩
  intro x hx; simp [addrStmt] at hx; subst hx
  exact opnd_const _ ⟨by omega, by simp [i64Max]; omega⟩

theorem constStmt_ok (t : Nat) (ht : t < 4294967296) : identOk (constStmt t).1 = true ∧ ∀ x ∈ (constStmt t).2, Opnd x := by
  refine ⟨by show identOk (bytesOf "const") = true; decide, ?_⟩
  intro x hx; simp [constStmt] at hx
  rcases hx with rfl | rfl
  · exact opnd_lblA t
  · exact opnd_const _ ⟨by omega, by simp [i64Max]; omega⟩

/-- the tokenizer and the parser on the forward program: exactly the three statements, no error -/
theorem parseFile_progFwd (i : Instr) (a t : Nat) (hl : LitOk i) (ha : a < 4294967296) (ht : t < 4294967296) :
    ∃ els, Asm.parseFile (progTextFwd i a t) = .ok (els, none) ∧ els.map (·.val) = progValsFwd i a t := by
  have hA := addrStmt_ok a ha
  have hC := constStmt_ok t ht
  have hargs := args_ok i a hl
  have v3 : Valid (dirPieces (constStmt t)) none := valid_dir _ hC.1 hC.2 none
  have v2 : Valid (nl :: dirPieces (constStmt t)) none := ⟨by decide, v3⟩
  have v1 : Valid (stmtPieces (parts i a) ++ (nl :: dirPieces (constStmt t))) none :=
    valid_append (valid_stmt _ (name_ok i a) hargs _) v2
  have v0 : Valid ([nl] ++ (stmtPieces (parts i a) ++ (nl :: dirPieces (constStmt t)))) none := ⟨by decide, v1⟩
  have hv : Valid (progPiecesFwd i a t) none := valid_append (valid_dir _ hA.1 hA.2 _) v0
  have hb : pbytes (progPiecesFwd i a t) = progTextFwd i a t := by
    have e1 : pbytes (nl :: dirPieces (constStmt t)) = [10] ++ pbytes (dirPieces (constStmt t)) := by
      simp [pbytes, Piece.bytes, nl]
    have e2 : pbytes [nl] = [10] := by simp [pbytes, Piece.bytes, nl]
    simp only [progPiecesFwd, progTextFwd, pbytes_append, e1, e2, pbytes_dir _ hA.2, pbytes_dir _ hC.2,
      pbytes_stmt _ hargs, text_eq_render_proof, List.append_assoc]
  have hvals : (lexed (1, 1) (progPiecesFwd i a t)).map (·.val) = ((progValsFwd i a t).map Render.elemVal).flatten := by
    rw [lexed_vals]
    have e1 : tokVals (nl :: dirPieces (constStmt t)) = tokVals (dirPieces (constStmt t)) := by simp [tokVals, nl]
    have e2 : tokVals [nl] = [] := by simp [tokVals, nl]
    have h1 := tokVals_dir _ hA.2
    have h2 := tokVals_dir _ hC.2
    simp only [progPiecesFwd, progValsFwd, tokVals_append, tokVals_stmt _ hargs, e1, e2, h1, h2]
    simp [addrStmt, constStmt]
  have hwf : ∀ ev ∈ progValsFwd i a t, ev.wf := by
    intro ev hev
    simp only [progValsFwd, List.mem_cons, List.mem_nil_iff, or_false] at hev
    rcases hev with rfl | rfl | rfl
    · exact dir_wf _ hA.1 hA.2
    · exact stmt_wf _ (name_ok i a) hargs
    · exact dir_wf _ hC.1 hC.2
  have hlex := tokens_pieces _ hv
  rw [hb] at hlex
  obtain ⟨els, hall, hels⟩ := Parse.all_of_vals (progValsFwd i a t) hwf _ hvals
    (Pos.adv (1, 1) (progTextFwd i a t)).1 (Pos.adv (1, 1) (progTextFwd i a t)).2
  exact ⟨els, by simp [Asm.parseFile, hlex, hall], hels⟩

/-- the placeholder has the length of the final encoding: the partly filled instruction of the first pass is
encodable, with as many halfwords -/
theorem encode_pre (i : Instr) (a t : Nat) (hws : List Nat) (he : encode i = .ok hws) (ht : targetOf i a = some t) :
    ∃ hws', encode (preInstr i) = .ok hws' ∧ hws'.length = hws.length := by
  cases i <;> simp only [targetOf] at ht <;> try cases ht
  case adr d off =>
    encsplit he
    rename_i hc
    have hd : ¬ (8 ≤ d.val) := by omega
    exact ⟨[0xA000 + d.val * 256 + 0], by simp [preInstr, encode, hd], rfl⟩
  case b c off =>
    encsplit he
    all_goals (simp [preInstr, template, encode, *])
  case bl off =>
    encsplit he
    all_goals (simp [preInstr, template, encode])
  case ldr d ad o =>
    cases o with
    | reg r => simp at ht
    | imm off =>
      by_cases h15 : ad.val = 15
      · encsplit he
        all_goals (first | omega | skip)
        rename_i hc
        have hd : ¬ (8 ≤ d.val) := by omega
        simp [preInstr, encode, hd]
      · simp [h15] at ht

theorem find_nil (a : Nat) : Map.find [] a .exact = .ok none := by simp [Map.find, Map.locate]

/-- the evaluator over a table that does not know the label: `NoSuchVariable`, tree untouched -/
theorem frontEval_unknown (t : Nat) : Asm.frontEval [] (.ident (label t)) = .noSuchVariable (label t) (.ident (label t)) := by
  simp [Asm.frontEval, Asm.evalIn, Simp.evaluateE, isRegister_label, Asm.Table.get, Asm.Table.find]

/-- **The forward-reference program through the whole pipeline model**: placeholder, queued task, definition,
end-of-file rewrite — the image is exactly the encoding of `i` at `a`, no diagnostic. -/
theorem run_progFwd (i : Instr) (a t : Nat) (ht : targetOf i a = some t) (hl : LitOk i) (hws : List Nat)
    (he : Codec.encode i = .ok hws) (hlen : hws.length = 1 ∨ hws.length = 2) (hfit : a + 2 * hws.length ≤ 4294967296)
    (hp : Printable i a) (hev : EvalOK (Asm.frontEval [(label t, some (t : Int))]) i a)
    (fs : Bytes → Option Bytes) (main : Bytes) (hfs : fs main = some (progTextFwd i a t)) :
    Asm.run fs main = .done ⟨true, none, true, [], [(a, (Codec.toBytes hws).map (·.toUInt8))]⟩ := by
  have ha : a < 4294967296 := by omega
  have ht32 := targetOf_lt i a t ht
  obtain ⟨els, hparse, hels⟩ := parseFile_progFwd i a t hl ha (by omega)
  obtain ⟨hwsP, heP, hlenP⟩ := encode_pre i a t hws he ht
  have hencP := Asm.encoder_ok (preInstr i) hwsP heP (by omega)
  have henc := Asm.encoder_ok i hws he (by omega)
  have hblen : ((Codec.toBytes hws).map (·.toUInt8)).length = 2 * hws.length := by simp [Asm.toBytes_length]
  have hplen : ((Codec.toBytes hwsP).map (·.toUInt8)).length = 2 * hws.length := by simp [Asm.toBytes_length, hlenP]
  -- the three elements
  simp only [progValsFwd] at hels
  obtain ⟨e1, r1, rfl, h1, hr1⟩ := List.map_eq_cons_iff.mp hels
  obtain ⟨e2, r2, rfl, h2, hr2⟩ := List.map_eq_cons_iff.mp hr1
  obtain ⟨e3, r3, rfl, h3, hr3⟩ := List.map_eq_cons_iff.mp hr2
  have : r3 = [] := by simpa using hr3
  subst this
  obtain ⟨l1, c1, v1⟩ := e1
  obtain ⟨l2, c2, v2⟩ := e2
  obtain ⟨l3, c3, v3⟩ := e3
  simp only at h1 h2 h3
  subst h1 h2 h3
  let inc := Asm.assembleFile fs Asm.encoder (Asm.maxDepth - 1)
  let env : Asm.Env := ⟨[main], main⟩
  let M := Map.u32Max - a + 1
  let n := 2 * hws.length
  let task : Asm.Task := .instr ⟨main, l2, c2, deferSt i a, true⟩ false
  -- `.addr a`
  have haddr : Asm.statement fs Asm.encoder inc env ⟨Seg.init, [], some [], [], some [], []⟩
      ⟨l1, c1, .directive (bytesOf "addr") (Args.ofList [.const a])⟩ =
      .ok (⟨⟨[], some ⟨a, [], M⟩, []⟩, [], some [], [], some [], []⟩, .ok) := by
    have := Asm.addr_ok fs inc env ⟨Seg.init, [], some [], [], some [], []⟩ [] (by simp [env]) rfl rfl l1 c1 (a : Int)
      (by omega) (by omega)
    simp only [Asm.statement, toList_ofList, this]
    simp [M]
  -- the instruction: deferred
  have hinstr : Asm.statement fs Asm.encoder inc env ⟨⟨[], some ⟨a, [], M⟩, []⟩, [], some [], [], some [], []⟩
      ⟨l2, c2, .instruction (parts i a).1 (Args.ofList (parts i a).2)⟩ =
      .ok (⟨⟨[], some ⟨a, List.replicate n 0xBE, M⟩, [(a, n)]⟩, [], some [], [], some [task], []⟩, .ok) := by
    have hcur := cur_empty a M ha
    have := Asm.instr_deferred fs Asm.encoder inc env ⟨⟨[], some ⟨a, [], M⟩, []⟩, [], some [], [], some [], []⟩ [] []
      (by simp [env]) rfl rfl l2 c2 (parts i a).1 (Args.ofList (parts i a).2) [] ⟨a, [], M⟩ [] rfl (template i)
      (mnemonic_parts i a) (deferSt i a) (label t)
      (by rw [hcur, toList_ofList]; exact show_defers i a t ht _ (frontEval_unknown t))
      _ (by simpa [deferSt] using hencP) (by simp only [hplen, List.length_nil, M, Map.u32Max]; omega)
    rw [this, hcur]
    simp [hplen, n, task, env]
  -- `.const l_t, t`
  have hconst : Asm.statement fs Asm.encoder inc env
      ⟨⟨[], some ⟨a, List.replicate n 0xBE, M⟩, [(a, n)]⟩, [], some [], [], some [task], []⟩
      ⟨l3, c3, .directive (bytesOf "const") (Args.ofList [.ident (label t), .const t])⟩ =
      .ok (⟨⟨[], some ⟨a, List.replicate n 0xBE, M⟩, [(a, n)]⟩, [], some [(label t, some (t : Int))], [], some [task], []⟩, .ok) := by
    have := Asm.const_ok fs inc env
      ⟨⟨[], some ⟨a, List.replicate n 0xBE, M⟩, [(a, n)]⟩, [], some [], [], some [task], []⟩ [] (by simp [env]) rfl l3 c3
      (label t) (t : Int) (isRegister_label t) rfl
    simp only [Asm.statement, toList_ofList, this]
    simp [Asm.Table.set]
  have key : Asm.doAssemble fs Asm.encoder inc env
      [⟨l1, c1, .directive (bytesOf "addr") (Args.ofList [.const a])⟩,
       ⟨l2, c2, .instruction (parts i a).1 (Args.ofList (parts i a).2)⟩,
       ⟨l3, c3, .directive (bytesOf "const") (Args.ofList [.ident (label t), .const t])⟩] none
      ⟨Seg.init, [], some [], [], some [], []⟩ =
      .ok (⟨⟨[], some ⟨a, List.replicate n 0xBE, M⟩, [(a, n)]⟩, [], some [(label t, some (t : Int))], [], some [task], []⟩, .ok) := by
    simp only [Asm.doAssemble, haddr, hinstr, hconst]
  -- the task at the end of the file
  obtain ⟨fs2, hretry, hfs2⟩ := show_retry i a t ht (Asm.frontEval [(label t, some (t : Int))]) false hp hev
  have htask : Asm.runTask Asm.encoder env
      ⟨⟨[], some ⟨a, List.replicate n 0xBE, M⟩, [(a, n)]⟩, [], some [(label t, some (t : Int))], [], some [], []⟩ task =
      .ok (⟨⟨[], some ⟨a, (Codec.toBytes hws).map (·.toUInt8), M⟩, [(a, n)]⟩, [], some [(label t, some (t : Int))], [], some [], []⟩, .ok) := by
    have := Asm.instr_task_active Asm.encoder env
      ⟨⟨[], some ⟨a, List.replicate n 0xBE, M⟩, [(a, n)]⟩, [], some [(label t, some (t : Int))], [], some [], []⟩
      [(label t, some (t : Int))] (by simp [env]) rfl main l2 c2 (deferSt i a) fs2 false [] ⟨a, List.replicate n 0xBE, M⟩ [(a, n)]
      rfl hretry _ (by rw [hfs2]; exact henc) (find_nil _) (by simp [deferSt]) (by rw [hblen]; omega)
      (by simp only [deferSt, hblen, List.length_replicate, n]; omega)
      (by simp only [List.length_replicate, n]; omega)
    rw [this]
    have hb : (List.replicate n (0xBE : UInt8)).take ((deferSt i a).addr - a) ++ (Codec.toBytes hws).map (·.toUInt8) ++
        (List.replicate n (0xBE : UInt8)).drop ((deferSt i a).addr - a + ((Codec.toBytes hws).map (·.toUInt8)).length) =
        (Codec.toBytes hws).map (·.toUInt8) := by
      simp [deferSt, hblen, n]
    simp only [hb]
  have hchain : Asm.TaskChain Asm.encoder env [task]
      ⟨⟨[], some ⟨a, List.replicate n 0xBE, M⟩, [(a, n)]⟩, [], some [(label t, some (t : Int))], [], some [], []⟩
      ⟨⟨[], some ⟨a, (Codec.toBytes hws).map (·.toUInt8), M⟩, [(a, n)]⟩, [], some [(label t, some (t : Int))], [], some [], []⟩ :=
    .cons htask (.nil _)
  have hrun := Asm.run_of_statements_tasks fs main (progTextFwd i a t) hfs _ hparse [(label t, some (t : Int))]
    ⟨a, List.replicate n 0xBE, M⟩ ⟨a, (Codec.toBytes hws).map (·.toUInt8), M⟩ [(a, n)] [(a, n)] [task] key hchain
    (by
      intro e
      have := congrArg List.length e
      simp only [hblen, List.length_nil] at this
      omega)
    (by simp only [hblen]; exact hfit)
  exact hrun

end Trion.Show
