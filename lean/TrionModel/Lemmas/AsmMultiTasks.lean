import TrionModel.Lemmas.AsmMultiStmt
import TrionModel.Lemmas.AsmRefineRun
/-!
# The local task loop of a file at any include depth against the layout core

`runTask_sim`, `localRound_sim`, `localLoop_sim` of Lemmas/AsmRefineRun.lean with the includer's task list `G` and table
`Gt` as parameters (see Lemmas/AsmMultiStmt.lean).  In a file without `.global/.import/.export` the table has no deferred
entry, so no task is ever handed to the includer: `G` and `Gt` are left alone.
-/
namespace Trion.Asm.Multi
open Trion Trion.SegLayout Trion.Asm

section
variable {num : Bytes → Nat} {enc : Encoder} {t₂ : Table} {G : List Task} {Gt : Table}

/-- the state of `Asm` while the local tasks run, against the layout core -/
structure TSim (num : Bytes → Nat) (t₂ : Table) (G : List Task) (Gt : Table) (st : St) (l : Layout.State) : Prop where
  good : Good true st
  r : R st.seg l
  loc : st.locals = some t₂
  nodef : Table.NoDef t₂
  env : EnvRel num t₂ l.env
  lq : st.localTasks = some []
  gl : st.globalTasks = G ∧ st.globals = Gt

theorem rewrite_step_sim {st : St} {l : Layout.State} (good : Good true st) (r : R st.seg l) {addr : Nat} {d : Bytes}
    (hp : (addr, d.length) ∈ st.seg.pending) {s' : Seg.State} {p' : Bool} {e : Option Seg.Diag}
    (h : writeStmt st.seg true addr d = .ok (s', p', e)) :
    e = none ∧ ∃ l', Layout.rewrite l addr d = .ok l' ∧ R s' l' ∧ l'.env = l.env ∧ l'.tasks = l.tasks := by
  unfold writeStmt at h
  simp only [Bool.not_true, Bool.false_and, Bool.false_eq_true, if_false] at h
  obtain ⟨_, hsr⟩ := segStep_rewrite good.inv addr d hp
  cases hs : segStep st.seg (.rewrite addr d) with
  | stop x => rw [hs] at h; cases h
  | ok p =>
    obtain ⟨s1, o⟩ := p
    rw [hs] at h
    obtain ⟨ho, _, _, hstep⟩ := hsr _ _ hs
    subst ho
    simp only [Out.ok.injEq, Prod.mk.injEq] at h
    obtain ⟨h1, _, h3⟩ := h
    subst h1
    obtain ⟨_, l', q1, q2, q3, q4⟩ := rewrite_sim good.inv r addr d hp
    have : (Seg.rewrite st.seg addr d).1 = s1 := by
      have : Seg.rewrite st.seg addr d = (s1, .ok) := hstep
      rw [this]
    rw [this] at q2
    exact ⟨h3.symm, l', q1, q2, q3, q4⟩

/-- the rewrite of a placed statement leaves the cursor of the active region where it is -/
theorem writeStmt_cursor {s : Seg.State} (inv : Seg.Inv s) {addr : Nat} {d : Bytes} (hp : (addr, d.length) ∈ s.pending)
    {s' : Seg.State} {p' : Bool} {e : Option Seg.Diag} (h : writeStmt s true addr d = .ok (s', p', e)) :
    (s'.active.map fun a => a.base + a.buf.length) = s.active.map fun a => a.base + a.buf.length := by
  unfold writeStmt at h
  simp only [Bool.not_true, Bool.false_and, Bool.false_eq_true, if_false] at h
  obtain ⟨_, hsr⟩ := segStep_rewrite inv addr d hp
  cases hs : segStep s (.rewrite addr d) with
  | stop x => rw [hs] at h; cases h
  | ok p =>
    obtain ⟨s1, o⟩ := p
    rw [hs] at h
    obtain ⟨ho, _, _, hstep⟩ := hsr _ _ hs
    subst ho
    simp only [Out.ok.injEq, Prod.mk.injEq] at h
    obtain ⟨h1, _, _⟩ := h
    subst h1
    have hstep' : Seg.rewrite s addr d = (s1, .ok) := hstep
    rcases rewrite_shape inv addr d hp with ⟨seg, buf', ha, _, _, _, _, hrw, hlen, _⟩ | ⟨_, _, m', hrw, _⟩
    · rw [hrw] at hstep'
      simp only [Prod.mk.injEq, and_true] at hstep'
      subst hstep'
      simp only [ha, Option.map_some, hlen]
    · rw [hrw] at hstep'
      simp only [Prod.mk.injEq, and_true] at hstep'
      subst hstep'
      rfl

theorem runTask_sim' (henc : EncLen enc) {st st' : St} {l : Layout.State} (ts : TSim num t₂ G Gt st l) (env : Env)
    (henv : env.paths.isEmpty = false) (task : Task) (lt : Layout.Task) (hrel : TaskRel num enc t₂ task lt)
    (hok : TaskOk st.seg.pending task) (h : runTask enc env st task = .ok (st', .ok)) :
    ∃ l', l.env.hasAll lt.deps = true ∧ Layout.rewrite l lt.addr lt.final = .ok l' ∧ TSim num t₂ G Gt st' l' ∧
      st'.seg.pending = st.seg.pending ∧ cursor st' = cursor st ∧ GenTask enc t₂ task := by
  have hsafe := (runTask_safe henc ts.good (by simpa using henv) task hok (fun hh => by cases hh)).2 _ _ h
  cases task with
  | globalCopy n l c => exact hrel.elim
  | instr i g =>
    obtain ⟨hg, hpl, haddr, hlen, tpl, args, t₁, c, hsub, hnd₁, hfirst, hdeps, hfinal⟩ := hrel
    subst hg
    obtain ⟨_, hpend⟩ := hok
    simp only [runTask, runInstrTask] at h
    cases has : i.assemble env st false with
    | stop r => rw [has] at h; cases h
    | ok p =>
      obtain ⟨i1, st1, op⟩ := p
      rw [has] at h
      simp only [ArmInstr.assemble, evalTable, henv, ts.loc, evalPanics_false, Bool.false_eq_true, if_false] at has
      cases hfa : Front.assemble i.st (frontEval t₂) false with
      | mk fs2 r =>
        rw [hfa] at has
        have hkeep := Front.assemble_keeps i.st (frontEval t₂) false
        rw [hfa] at hkeep
        simp only at hkeep
        obtain ⟨hka, hkl⟩ := hkeep
        cases r with
        | panic => cases has
        | deferred c' => exact absurd hfa (assemble_not_deferred ts.nodef _ _ _)
        | error dg =>
          simp only [Out.ok.injEq, Prod.mk.injEq] at has
          obtain ⟨_, _, hop⟩ := has
          subst hop
          simp at h
        | completed =>
          simp only [Out.ok.injEq, Prod.mk.injEq] at has
          obtain ⟨hi1, hst1, hop⟩ := has
          subst hi1; subst hst1; subst hop
          simp only at h
          cases hw : ArmInstr.writeInstr enc { i with st := fs2 } st false with
          | stop r => rw [hw] at h; cases h
          | ok q2 =>
            obtain ⟨i2, st2, r⟩ := q2
            rw [hw] at h
            simp only [Out.ok.injEq, Prod.mk.injEq] at h
            obtain ⟨h1, h2⟩ := h
            subst h1; subst h2
            unfold ArmInstr.writeInstr at hw
            cases he : enc fs2.instr with
            | error e => simp only [he] at hw; simp at hw
            | ok bytes =>
              simp only [he, Bool.false_eq_true, if_false, hpl] at hw
              have hbl : bytes.length = ilen i.st.instr := by rw [henc _ _ he, hkl]
              cases hws : writeStmt st.seg true fs2.addr bytes with
              | stop r => rw [hws] at hw; cases hw
              | ok q3 =>
                obtain ⟨s', p', e⟩ := q3
                rw [hws] at hw
                rw [hka] at hws
                obtain ⟨he', l', q1, q2, q3', q4⟩ := rewrite_step_sim ts.good ts.r (by rw [hbl]; exact hpend) hws
                subst he'
                simp only [Out.ok.injEq, Prod.mk.injEq, and_true] at hw
                obtain ⟨_, hst2⟩ := hw
                subst hst2
                -- the retry theorem: the re-run is the fresh run over the final table
                have hretry := assemble_retry_tables_all hsub hnd₁ i.st.addr tpl args i.st c hfirst false
                rw [hfa] at hretry
                have hfresh := assemble_completed_loc true hretry.symm
                have hfin : lt.final = bytes := by
                  rw [hfinal]; simp only [instrFinal, hfresh, he]
                have hall : l.env.hasAll lt.deps = true := by
                  rw [hdeps]; exact hasAll_of_known ts.env ts.nodef (assemble_completed_deps hfresh)
                have hpend' : s'.pending = st.seg.pending := by
                  obtain ⟨_, hsr⟩ := segStep_rewrite ts.good.inv i.st.addr bytes (by rw [hbl]; exact hpend)
                  unfold writeStmt at hws
                  simp only [Bool.not_true, Bool.false_and, Bool.false_eq_true, if_false] at hws
                  cases hs : segStep st.seg (.rewrite i.st.addr bytes) with
                  | stop x => rw [hs] at hws; cases hws
                  | ok p =>
                    obtain ⟨s1, o⟩ := p
                    rw [hs] at hws
                    obtain ⟨ho, _, hp3, _⟩ := hsr _ _ hs
                    subst ho
                    simp only [Out.ok.injEq, Prod.mk.injEq] at hws
                    rw [← hws.1]; exact hp3
                have hcurW := writeStmt_cursor ts.good.inv (by rw [hbl]; exact hpend) hws
                have hgenT : GenTask enc t₂ (.instr i false) := fun tpl' args' t₁' c' hs' hn' hf' => by
                  have hr := assemble_retry_tables_all hs' hn' i.st.addr tpl' args' i.st c' hf' false
                  rw [hfa] at hr
                  exact ⟨fs2, bytes, assemble_completed_loc true hr.symm, he⟩
                refine ⟨l', hall, by rw [haddr, hfin]; exact q1,
                  ⟨hsafe.1, q2, ts.loc, ts.nodef, by rw [q3']; exact ts.env, ts.lq, ts.gl⟩, hpend', hcurW, hgenT⟩
  | data d g =>
    obtain ⟨hg, hpl, haddr, hlen, a, t₁, n, hsub, hnd₁, hfirst, hdeps, hfinal⟩ := hrel
    subst hg
    obtain ⟨_, hpend⟩ := hok
    simp only [runTask, runDataTask] at h
    cases hap : d.apply env st false with
    | stop r => rw [hap] at h; cases h
    | ok p =>
      obtain ⟨d1, st1, op⟩ := p
      rw [hap] at h
      unfold DataExpr.apply at hap
      rw [evalArg_eq henv ts.loc] at hap
      have hretry := data_retry_all hsub hnd₁ hfirst
      obtain ⟨ev, hev⟩ := evalIn_ok t₂ d.arg
      rw [hev] at hap
      cases ev with
      | deferred c x => exact absurd hev (evalIn_not_deferred ts.nodef _ _ _)
      | err e x =>
        simp only [Out.ok.injEq, Prod.mk.injEq] at hap
        obtain ⟨_, _, hop⟩ := hap
        subst hop
        simp at h
      | noSuch m x =>
        simp only [Bool.false_eq_true, if_false, Out.ok.injEq, Prod.mk.injEq] at hap
        obtain ⟨_, _, hop⟩ := hap
        subst hop
        simp at h
      | complete x =>
        simp only at hap
        cases hw : ({ d with arg := x } : DataExpr).writer st with
        | stop r => rw [hw] at hap; cases hap
        | ok q2 =>
          obtain ⟨d2, st2, r⟩ := q2
          rw [hw] at hap
          cases r with
          | err lv =>
            simp only [Out.ok.injEq, Prod.mk.injEq] at hap
            obtain ⟨_, _, hop⟩ := hap
            subst hop
            simp at h
          | ok =>
            simp only [Out.ok.injEq, Prod.mk.injEq] at hap
            obtain ⟨_, hst1, hop⟩ := hap
            subst hst1; subst hop
            simp only [Out.ok.injEq, Prod.mk.injEq, and_true] at h
            subst h
            unfold DataExpr.writer at hw
            cases x with
            | const v =>
              simp only at hw
              by_cases hv : 0 ≤ v ∧ v ≤ d.du.max
              · rw [if_pos hv] at hw
                unfold DataExpr.writeData at hw
                simp only [hpl] at hw
                have hbl : (leBytes d.du.size v.toNat).length = d.du.size := leBytes_length _ _
                cases hws : writeStmt st.seg true d.addr (leBytes d.du.size v.toNat) with
                | stop r => rw [hws] at hw; cases hw
                | ok q3 =>
                  obtain ⟨s', p', e⟩ := q3
                  rw [hws] at hw
                  obtain ⟨he', l', q1, q2, q3', q4⟩ := rewrite_step_sim ts.good ts.r (by rw [hbl]; exact hpend) hws
                  subst he'
                  simp only [Out.ok.injEq, Prod.mk.injEq, and_true] at hw
                  obtain ⟨_, hst2⟩ := hw
                  subst hst2
                  have hev' : evalIn t₂ a = .ok (.complete (.const v)) := by rw [← hretry]; exact hev
                  have hfin : lt.final = leBytes d.du.size v.toNat := by
                    rw [hfinal]; simp only [duFinal, constVal, hev', hv, and_self, if_true]
                  have hall : l.env.hasAll lt.deps = true := by
                    rw [hdeps]; exact hasAll_of_known ts.env ts.nodef (evalIn_complete_idents hev')
                  have hpend' : s'.pending = st.seg.pending := by
                    obtain ⟨_, hsr⟩ := segStep_rewrite ts.good.inv d.addr (leBytes d.du.size v.toNat) (by rw [hbl]; exact hpend)
                    unfold writeStmt at hws
                    simp only [Bool.not_true, Bool.false_and, Bool.false_eq_true, if_false] at hws
                    cases hs : segStep st.seg (.rewrite d.addr (leBytes d.du.size v.toNat)) with
                    | stop x => rw [hs] at hws; cases hws
                    | ok p =>
                      obtain ⟨s1, o⟩ := p
                      rw [hs] at hws
                      obtain ⟨ho, _, hp3, _⟩ := hsr _ _ hs
                      subst ho
                      simp only [Out.ok.injEq, Prod.mk.injEq] at hws
                      rw [← hws.1]; exact hp3
                  have hcurW := writeStmt_cursor ts.good.inv (by rw [hbl]; exact hpend) hws
                  have hgenT : GenTask enc t₂ (.data d false) := fun a' t₁' n' hs' hn' hf' => by
                    have hr := data_retry_all hs' hn' hf'
                    have hev'' : evalIn t₂ a' = .ok (.complete (.const v)) := by rw [← hr]; exact hev
                    exact ⟨v, by simp only [constVal, hev''], hv.1, hv.2⟩
                  refine ⟨l', hall, by rw [haddr, hfin]; exact q1,
                    ⟨hsafe.1, q2, ts.loc, ts.nodef, by rw [q3']; exact ts.env, ts.lq, ts.gl⟩, hpend', hcurW, hgenT⟩
              · rw [if_neg hv] at hw; simp at hw
            | _ => simp at hw

theorem runTask_sim (henc : EncLen enc) {st st' : St} {l : Layout.State} (ts : TSim num t₂ G Gt st l) (env : Env)
    (henv : env.paths.isEmpty = false) (task : Task) (lt : Layout.Task) (hrel : TaskRel num enc t₂ task lt)
    (hok : TaskOk st.seg.pending task) (h : runTask enc env st task = .ok (st', .ok)) :
    ∃ l', l.env.hasAll lt.deps = true ∧ Layout.rewrite l lt.addr lt.final = .ok l' ∧ TSim num t₂ G Gt st' l' ∧
      st'.seg.pending = st.seg.pending ∧ cursor st' = cursor st := by
  obtain ⟨l', h1, h2, h3, h4, h5, _⟩ := runTask_sim' henc ts env henv task lt hrel hok h
  exact ⟨l', h1, h2, h3, h4, h5⟩

/-! ## the local task loop -/

theorem localRound_sim' (henc : EncLen enc) (env : Env) (henv : env.paths.isEmpty = false) :
    ∀ (ts : List Task) (lts : List Layout.Task) (st st' : St) (l : Layout.State) (res res' : Res),
      TSim num t₂ G Gt st l → TasksRel num enc t₂ ts lts → (∀ t ∈ ts, TaskOk st.seg.pending t) →
      localRound enc env ts st res = .ok (st', res') → st'.errors = [] →
      ∃ l', Layout.runTasks l lts = .ok l' ∧ TSim num t₂ G Gt st' l' ∧ res' = res ∧ cursor st' = cursor st ∧
        ∀ t ∈ ts, GenTask enc t₂ t := by
  intro ts
  induction ts with
  | nil =>
    intro lts st st' l res res' tsim hrel _ h _
    cases lts with
    | nil => simp only [localRound] at h; cases h; exact ⟨l, rfl, tsim, rfl, rfl, fun _ hx => (by cases hx)⟩
    | cons u us => exact hrel.elim
  | cons t ts ih =>
    intro lts st st' l res res' tsim hrel hok h herr
    cases lts with
    | nil => exact hrel.elim
    | cons u us =>
      obtain ⟨hr1, hr2⟩ := hrel
      simp only [localRound] at h
      cases hrt : runTask enc env st t with
      | stop r => rw [hrt] at h; cases h
      | ok p =>
        obtain ⟨st1, r⟩ := p
        rw [hrt] at h
        cases r with
        | ok =>
          simp only at h
          have g := (localRound_grew ts st1 res st' res' h).1
          have herr1 : st1.errors = [] := by
            rw [herr] at g; exact List.eq_nil_of_length_eq_zero (by simpa using g)
          obtain ⟨l1, h1, h2, h3, h4, h5, h6⟩ := runTask_sim' henc tsim env henv t u hr1 (hok t List.mem_cons_self) hrt
          obtain ⟨l', f1, f2, f3, f4, f5⟩ := ih us st1 st' l1 res res' h3 hr2
            (fun x hx => by rw [h4]; exact hok x (List.mem_cons_of_mem _ hx)) h herr
          exact ⟨l', by simp only [Layout.runTasks, h1, if_true, h2]; exact f1, f2, f3, f4.trans h5,
            fun x hx => by
              rcases List.mem_cons.mp hx with rfl | hx
              · exact h6
              · exact f5 x hx⟩
        | err lv =>
          exfalso
          have g1 := runTask_grew _ _ hrt
          simp only at h
          split at h
          · cases h
            exact absurd (grew_nil g1 herr).2 (by simp)
          · have g := (localRound_grew ts st1 _ st' res' h).1
            have herr1 : st1.errors = [] := by
              rw [herr] at g; exact List.eq_nil_of_length_eq_zero (by simpa using g)
            exact absurd (grew_nil g1 herr1).2 (by simp)

theorem localLoop_sim' (henc : EncLen enc) (env : Env) (henv : env.paths.isEmpty = false) (n : Nat) (ts : List Task)
    (lts : List Layout.Task) (st st' : St) (l : Layout.State) (res' : Res) (tsim : TSim num t₂ G Gt st l)
    (hrel : TasksRel num enc t₂ ts lts) (hok : ∀ t ∈ ts, TaskOk st.seg.pending t)
    (h : localLoop enc env (n + 2) ts st .ok = .ok (st', res')) (herr : st'.errors = []) :
    ∃ l', Layout.runTasks l lts = .ok l' ∧ TSim num t₂ G Gt st' l' ∧ cursor st' = cursor st ∧
      ∀ t ∈ ts, GenTask enc t₂ t := by
  rw [show n + 2 = (n + 1) + 1 from rfl, localLoop] at h
  split at h
  · rename_i hemp
    cases h
    have : ts = [] := List.isEmpty_iff.mp hemp
    subst this
    cases lts with
    | nil => exact ⟨l, rfl, tsim, rfl, fun _ hx => (by cases hx)⟩
    | cons u us => exact hrel.elim
  · cases hlr : localRound enc env ts st .ok with
    | stop r => rw [hlr] at h; cases h
    | ok p =>
      obtain ⟨st1, res1⟩ := p
      rw [hlr] at h
      simp only at h
      cases hnew : st1.localTasks with
      | none => rw [hnew] at h; cases h
      | some new =>
        rw [hnew] at h
        simp only at h
        have herr1 : st1.errors = [] := by
          split at h
          · cases h; exact herr
          · have g := (localLoop_grew _ _ _ _ _ _ h).1
            rw [herr] at g
            exact List.eq_nil_of_length_eq_zero (by simpa using g)
        obtain ⟨l', f1, f2, f3, f4, f5⟩ := localRound_sim' henc env henv ts lts st st1 l .ok res1 tsim hrel hok hlr herr1
        have hn : new = [] := by have := f2.lq; rw [hnew] at this; cases this; rfl
        subst hn
        have heta : ({ st1 with localTasks := some [] } : St) = st1 := by
          cases st1; simp only at hnew; subst hnew; rfl
        rw [heta] at h
        subst f3
        simp only [Res.aborts, Bool.false_eq_true, if_false, localLoop, List.isEmpty_nil, if_true] at h
        cases h
        exact ⟨l', f1, f2, f4, f5⟩

theorem localLoop_sim (henc : EncLen enc) (env : Env) (henv : env.paths.isEmpty = false) (n : Nat) (ts : List Task)
    (lts : List Layout.Task) (st st' : St) (l : Layout.State) (res' : Res) (tsim : TSim num t₂ G Gt st l)
    (hrel : TasksRel num enc t₂ ts lts) (hok : ∀ t ∈ ts, TaskOk st.seg.pending t)
    (h : localLoop enc env (n + 2) ts st .ok = .ok (st', res')) (herr : st'.errors = []) :
    ∃ l', Layout.runTasks l lts = .ok l' ∧ TSim num t₂ G Gt st' l' ∧ cursor st' = cursor st := by
  obtain ⟨l', h1, h2, h3, _⟩ := localLoop_sim' henc env henv n ts lts st st' l res' tsim hrel hok h herr
  exact ⟨l', h1, h2, h3⟩

end

end Trion.Asm.Multi
