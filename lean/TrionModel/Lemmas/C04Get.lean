import TrionModel.Lemmas.C04Addr
import TrionModel.Lemmas.AsmRetry
/-!
# C04 closed: the operand getters of `convert!` with the concrete evaluator, against `C04.denote`

For an evaluator that IS `Simp.evaluate` over a table without deferred entries (`EvalSimp`, `NoDef`, `tableOk`):

* `get_sound`: a getter that yields a value yields the operand's meaning (`denote`), inside its Rust type (`okVal`);
* `get_complete`: an operand with a meaning inside the type (`okValC`) makes the getter yield it;
* `get_total`: a getter yields a value or ends `assemble` with a diagnostic — no deferral, no panic.
-/
namespace Trion.C04
open Trion Trion.Front Trion.Simp

theorem evaluated_eq (k : Kind) : evaluated k = k.evals := by cases k <;> rfl

/-- the value fits the Rust type the getter narrows to -/
def okVal : Val → Prop
  | .imm v => inI32 v
  | .off v => 0 ≤ v ∧ v ≤ 4294967295
  | .immReg x => immOk x
  | .address _ (some o) => immOk o
  | _ => True

/-- … and an immediate offset inside `[…]` is not negative (`[Rn + -4]` is rewritten to `[Rn - 4]` and refused) -/
def okValC : Val → Prop
  | .imm v => inI32 v
  | .off v => 0 ≤ v ∧ v ≤ 4294967295
  | .immReg x => immOk x
  | .address _ (some o) => immOkNonneg o
  | _ => True

/-! ## `regset` -/

theorem regset_spec (idx : Nat) : ∀ (items : List Arg) (acc : RegSet),
    (∀ rs, regset idx items acc = .ok rs ↔ regList items acc = some rs) := by
  intro items
  induction items with
  | nil => intro acc rs; simp [regset, regList]
  | cons a rest ih =>
    intro acc rs
    cases a with
    | ident s =>
      simp only [regset, regList]
      cases regl s with
      | none => simp
      | some r => exact ih _ rs
    | _ => simp [regset, regList]

/-! ## what the evaluator returns, by the shape of the operand -/

theorem eval_shape {lk : Bytes → Lookup} (hn : NoDef lk) {a a1 : Arg} {ev : Ev}
    (hd : doc a = true) (hv : valued (tab lk) a = true) (he : evaluate lk isRegister a = .ok (ev, a1)) :
    match a with
    | .const c => a1 = .const c
    | .ident s => (isRegister s = true ∧ a1 = .ident s) ∨ (isRegister s = false ∧ ∃ c, a1 = .const c)
    | .str s => a1 = .str s
    | .bin .. | .neg _ | .not _ => ∃ c, a1 = .const c
    | .addr x => ∃ e1 x1, evaluate lk isRegister x = .ok (e1, x1) ∧ a1 = .addr x1
    | .seq _ => ∃ as', a1 = .seq as'
    | .func n _ => ∃ as', a1 = .func n as' := by
  cases a with
  | const c => simp only [evaluate] at he; cases he; rfl
  | ident s =>
    by_cases hr : isRegister s = true
    · simp only [evaluate, hr, if_true] at he; cases he; exact .inl ⟨hr, rfl⟩
    · have hr' : isRegister s = false := by simpa using hr
      obtain ⟨c, hl⟩ := valued_lookup hv hr'
      simp only [evaluate, hr', Bool.false_eq_true, if_false, hl] at he; cases he
      exact .inr ⟨hr', c, rfl⟩
  | str s => simp only [evaluate] at he; cases he; rfl
  | bin op l r => exact expr_const hn hd he
  | neg x => exact expr_const hn hd he
  | not x => exact expr_const hn hd he
  | addr x =>
    rw [evaluate_addr] at he
    cases h1 : evaluate lk isRegister x with
    | ok p =>
      obtain ⟨e1, x1⟩ := p
      rw [h1] at he
      simp only at he
      split at he
      · cases he
      · cases he; exact ⟨e1, x1, h1, rfl⟩
    | err e => rw [h1] at he; cases he
    | panic => rw [h1] at he; cases he
  | seq as =>
    simp only [evaluate] at he
    cases h1 : evaluateArgs lk isRegister as with
    | ok p => rw [h1] at he; cases he; exact ⟨_, rfl⟩
    | err e => rw [h1] at he; cases he
    | panic => rw [h1] at he; cases he
  | func n as =>
    simp only [evaluate] at he
    cases h1 : evaluateArgs lk isRegister as with
    | ok p => rw [h1] at he; cases he; exact ⟨_, rfl⟩
    | err e => rw [h1] at he; cases he
    | panic => rw [h1] at he; cases he

theorem narrowI32_eq {v w : Int} (h : narrowI32 v = some w) : w = v ∧ inI32 v := by
  unfold narrowI32 at h
  split at h
  · cases h; exact ⟨rfl, by assumption⟩
  · cases h

theorem narrowU32_eq {v w : Int} (h : narrowU32 v = some w) : w = v ∧ 0 ≤ v ∧ v ≤ 4294967295 := by
  unfold narrowU32 at h
  split at h
  · cases h; exact ⟨rfl, by assumption⟩
  · cases h

/-! ## the evaluating getters after the evaluation -/

section
variable {lk : Bytes → Lookup} (hn : NoDef lk) (hT : Simp.tableOk lk)
include hn hT

theorem denote_value_of_const {k : Kind} {a : Arg} {ev : Ev} {c : Int} (hl : lits a = true)
    (he : evaluate lk isRegister a = .ok (ev, .const c)) : value (tab lk) a = some c := evaluate_value hT hl he

theorem post_sound {k : Kind} (hk : k.evals = true) {a a1 : Arg} {ev : Ev}
    (hd : doc a = true) (hl : lits a = true) (hv : valued (tab lk) a = true)
    (he : evaluate lk isRegister a = .ok (ev, a1)) {pos d : Nat} {v : Val} {a2 : Arg} {d2 : Nat}
    (hp : post k pos a1 d = .ok v a2 d2) : denote (tab lk) k a = some v ∧ okVal v := by
  have hsh := eval_shape hn hd hv he
  cases k <;> simp [Kind.evals] at hk
  case immediate =>
    simp only [post] at hp
    split at hp
    · rename_i c
      split at hp
      · rename_i w hw
        cases hp
        obtain ⟨rfl, hin⟩ := narrowI32_eq hw
        simp [denote, evaluate_value hT hl he, okVal, hin]
      · cases hp
    · cases hp
  case offset =>
    simp only [post] at hp
    split at hp
    · rename_i c
      split at hp
      · rename_i w hw
        cases hp
        obtain ⟨rfl, hin⟩ := narrowU32_eq hw
        simp [denote, evaluate_value hT hl he, okVal, hin]
      · cases hp
    · cases hp
  case immReg =>
    simp only [post] at hp
    split at hp
    · rename_i c
      split at hp
      · rename_i w hw
        cases hp
        obtain ⟨rfl, hin⟩ := narrowI32_eq hw
        have hval := evaluate_value hT hl he
        refine ⟨?_, by simpa [okVal, immOk] using hin⟩
        cases a with
        | ident s =>
          rcases hsh with ⟨_, h⟩ | ⟨hr, _⟩
          · cases h
          · simp [denote, hr, hval]
        | _ => simp [denote, hval]
      · cases hp
    · rename_i s
      split at hp
      · rename_i r hr
        cases hp
        refine ⟨?_, by simp [okVal, immOk]⟩
        cases a with
        | ident s0 =>
          rcases hsh with ⟨hreg, h⟩ | ⟨_, c, h⟩
          · cases h; simp [denote, hreg, hr]
          · cases h
        | const c => cases hsh
        | str s0 => cases hsh
        | bin op l r' => obtain ⟨c, h⟩ := hsh; cases h
        | neg x => obtain ⟨c, h⟩ := hsh; cases h
        | not x => obtain ⟨c, h⟩ := hsh; cases h
        | addr x => obtain ⟨_, _, _, h⟩ := hsh; cases h
        | seq as => obtain ⟨_, h⟩ := hsh; cases h
        | func n as => obtain ⟨_, h⟩ := hsh; cases h
      · cases hp
    · cases hp
  case address =>
    simp only [post] at hp
    split at hp
    · rename_i x1
      split at hp
      · rename_i r o hao
        cases hp
        cases a with
        | addr x =>
          obtain ⟨e1, x1', hx, h⟩ := hsh
          cases h
          simp only [doc] at hd
          simp only [lits] at hl
          obtain ⟨o', rfl, hm, hok⟩ := mem_sound hn hT hd hl hx hao
          simp [denote, hm, okVal, hok]
        | const c => cases hsh
        | ident s0 => rcases hsh with ⟨_, h⟩ | ⟨_, c, h⟩ <;> cases h
        | str s0 => cases hsh
        | bin op l r' => obtain ⟨c, h⟩ := hsh; cases h
        | neg x => obtain ⟨c, h⟩ := hsh; cases h
        | not x => obtain ⟨c, h⟩ := hsh; cases h
        | seq as => obtain ⟨_, h⟩ := hsh; cases h
        | func n as => obtain ⟨_, h⟩ := hsh; cases h
      · cases hp
    · cases hp
  case addrOffset =>
    simp only [post] at hp
    split at hp
    · rename_i c
      split at hp
      · rename_i w hw
        cases hp
        obtain ⟨rfl, hin⟩ := narrowU32_eq hw
        have hval := evaluate_value hT hl he
        refine ⟨?_, by simpa [okVal] using hin⟩
        cases a with
        | addr x => obtain ⟨_, _, _, h⟩ := hsh; cases h
        | _ => simp [denote, hval]
      · cases hp
    · rename_i x1
      split at hp
      · rename_i r o hao
        cases hp
        cases a with
        | addr x =>
          obtain ⟨e1, x1', hx, h⟩ := hsh
          cases h
          simp only [doc] at hd
          simp only [lits] at hl
          obtain ⟨o', rfl, hm, hok⟩ := mem_sound hn hT hd hl hx hao
          simp [denote, hm, okVal, hok]
        | const c => cases hsh
        | ident s0 => rcases hsh with ⟨_, h⟩ | ⟨_, c, h⟩ <;> cases h
        | str s0 => cases hsh
        | bin op l r' => obtain ⟨c, h⟩ := hsh; cases h
        | neg x => obtain ⟨c, h⟩ := hsh; cases h
        | not x => obtain ⟨c, h⟩ := hsh; cases h
        | seq as => obtain ⟨_, h⟩ := hsh; cases h
        | func n as => obtain ⟨_, h⟩ := hsh; cases h
      · cases hp
    · cases hp

omit hT in
theorem post_complete {k : Kind} (hk : k.evals = true) {a : Arg} {v : Val}
    (hden : denote (tab lk) k a = some v) (hok : okValC v) (pos : Nat) :
    ∃ ev a1, evaluate lk isRegister a = .ok (ev, a1) ∧ ∀ d, post k pos a1 d = .ok v a1 d := by
  have hmemcase : ∀ x r o, a = .addr x → mem (tab lk) x = some (r, o) → immOkNonneg o →
      ∃ ev x1, evaluate lk isRegister a = .ok (ev, .addr x1) ∧ ∀ idx, addrOff idx x1 = .ok (r, some o) := by
    intro x r o ha hm ho
    subst ha
    obtain ⟨e1, x1, hx, hb, hao⟩ := mem_complete lk hm ho
    exact ⟨e1.or ⟨false, none⟩, x1, by rw [evaluate_addr, hx]; simp [hb], hao⟩
  cases k <;> simp [Kind.evals] at hk
  case immediate =>
    simp only [denote, Option.map_eq_some_iff] at hden
    obtain ⟨c, hc, rfl⟩ := hden
    obtain ⟨ev, he⟩ := value_evaluate lk a c hc
    exact ⟨ev, _, he, fun d => by simp [post, narrowI32_ok (show inI32 c from hok)]⟩
  case offset =>
    simp only [denote, Option.map_eq_some_iff] at hden
    obtain ⟨c, hc, rfl⟩ := hden
    obtain ⟨ev, he⟩ := value_evaluate lk a c hc
    exact ⟨ev, _, he, fun d => by simp [post, narrowU32_some (show 0 ≤ c ∧ c ≤ 4294967295 from hok)]⟩
  case immReg =>
    have hvalcase : ∀ c, value (tab lk) a = some c → v = .immReg (.imm c) →
        ∃ ev a1, evaluate lk isRegister a = .ok (ev, a1) ∧ ∀ d, post .immReg pos a1 d = .ok v a1 d := by
      intro c hc hv
      subst hv
      obtain ⟨ev, he⟩ := value_evaluate lk a c hc
      exact ⟨ev, _, he, fun d => by simp [post, narrowI32_ok (show inI32 c from hok)]⟩
    cases a with
    | ident s =>
      by_cases hr : isRegister s = true
      · simp only [denote, hr, if_true, Option.map_eq_some_iff] at hden
        obtain ⟨r, hreg, rfl⟩ := hden
        exact ⟨_, _, evaluate_regIdent lk (show regIdent (.ident s) = true from hr), fun d => by simp [post, hreg]⟩
      · simp only [denote, hr, Bool.false_eq_true, if_false, Option.map_eq_some_iff] at hden
        obtain ⟨c, hc, rfl⟩ := hden
        exact hvalcase c hc rfl
    | const c0 =>
      simp only [denote, Option.map_eq_some_iff] at hden; obtain ⟨c, hc, rfl⟩ := hden; exact hvalcase c hc rfl
    | str s =>
      simp only [denote, Option.map_eq_some_iff] at hden; obtain ⟨c, hc, rfl⟩ := hden; exact hvalcase c hc rfl
    | bin op l r =>
      simp only [denote, Option.map_eq_some_iff] at hden; obtain ⟨c, hc, rfl⟩ := hden; exact hvalcase c hc rfl
    | neg x =>
      simp only [denote, Option.map_eq_some_iff] at hden; obtain ⟨c, hc, rfl⟩ := hden; exact hvalcase c hc rfl
    | not x =>
      simp only [denote, Option.map_eq_some_iff] at hden; obtain ⟨c, hc, rfl⟩ := hden; exact hvalcase c hc rfl
    | addr x =>
      simp only [denote, Option.map_eq_some_iff] at hden; obtain ⟨c, hc, rfl⟩ := hden; exact hvalcase c hc rfl
    | seq as =>
      simp only [denote, Option.map_eq_some_iff] at hden; obtain ⟨c, hc, rfl⟩ := hden; exact hvalcase c hc rfl
    | func n as =>
      simp only [denote, Option.map_eq_some_iff] at hden; obtain ⟨c, hc, rfl⟩ := hden; exact hvalcase c hc rfl
  case address =>
    cases a with
    | addr x =>
      simp only [denote, Option.map_eq_some_iff] at hden
      obtain ⟨⟨r, o⟩, hm, rfl⟩ := hden
      obtain ⟨ev, x1, he, hao⟩ := hmemcase x r o rfl hm hok
      exact ⟨ev, _, he, fun d => by simp [post, hao]⟩
    | _ => simp [denote] at hden
  case addrOffset =>
    have hvalcase : ∀ c, value (tab lk) a = some c → v = .off c →
        ∃ ev a1, evaluate lk isRegister a = .ok (ev, a1) ∧ ∀ d, post .addrOffset pos a1 d = .ok v a1 d := by
      intro c hc hv
      subst hv
      obtain ⟨ev, he⟩ := value_evaluate lk a c hc
      exact ⟨ev, _, he, fun d => by simp [post, narrowU32_some (show 0 ≤ c ∧ c ≤ 4294967295 from hok)]⟩
    cases a with
    | addr x =>
      simp only [denote, Option.map_eq_some_iff] at hden
      obtain ⟨⟨r, o⟩, hm, rfl⟩ := hden
      obtain ⟨ev, x1, he, hao⟩ := hmemcase x r o rfl hm hok
      exact ⟨ev, _, he, fun d => by simp [post, hao]⟩
    | const c0 =>
      simp only [denote, Option.map_eq_some_iff] at hden; obtain ⟨c, hc, rfl⟩ := hden; exact hvalcase c hc rfl
    | ident s =>
      simp only [denote, Option.map_eq_some_iff] at hden; obtain ⟨c, hc, rfl⟩ := hden; exact hvalcase c hc rfl
    | str s =>
      simp only [denote, Option.map_eq_some_iff] at hden; obtain ⟨c, hc, rfl⟩ := hden; exact hvalcase c hc rfl
    | bin op l r =>
      simp only [denote, Option.map_eq_some_iff] at hden; obtain ⟨c, hc, rfl⟩ := hden; exact hvalcase c hc rfl
    | neg x =>
      simp only [denote, Option.map_eq_some_iff] at hden; obtain ⟨c, hc, rfl⟩ := hden; exact hvalcase c hc rfl
    | not x =>
      simp only [denote, Option.map_eq_some_iff] at hden; obtain ⟨c, hc, rfl⟩ := hden; exact hvalcase c hc rfl
    | seq as =>
      simp only [denote, Option.map_eq_some_iff] at hden; obtain ⟨c, hc, rfl⟩ := hden; exact hvalcase c hc rfl
    | func n as =>
      simp only [denote, Option.map_eq_some_iff] at hden; obtain ⟨c, hc, rfl⟩ := hden; exact hvalcase c hc rfl

/-! ## the getters -/

variable {eval : Arg → EvalOut} (hE : EvalSimp eval lk)
include hE

/-- the operand condition of the theorem for one slot -/
def slotOk (T : SymTable) (k : Kind) (a : Arg) : Prop :=
  evaluated k = true → valued T a = true ∧ lits a = true ∧ doc a = true

omit hT in
theorem evalArg_cases {loc : Bool} {pos done : Nat} (hdn : done ≤ pos) {a : Arg} (hv : valued (tab lk) a = true) :
    (∃ ev a1, evaluate lk isRegister a = .ok (ev, a1) ∧ evalArg eval loc pos done a = .ok (a1, pos + 1)) ∨
    (∃ e a1, evalArg eval loc pos done a = .error (a1, .error (.evalErr e))) := by
  rcases eval_cases hE hn a hv with ⟨ev, a1, he, hc⟩ | ⟨e, a1, hc⟩
  · exact .inl ⟨ev, a1, he, by simp [evalArg, hdn, hc]⟩
  · exact .inr ⟨e, a1, by simp [evalArg, hdn, hc]⟩

theorem get_sound {k : Kind} {loc : Bool} {pos done : Nat} (hdn : done ≤ pos) {a : Arg} (hs : slotOk (tab lk) k a)
    {v : Val} {a' : Arg} {d' : Nat} (hg : get k eval loc pos done a = .ok v a' d') :
    denote (tab lk) k a = some v ∧ okVal v ∧ d' ≤ pos + 1 := by
  by_cases hk : k.evals = true
  · obtain ⟨hv, hl, hd⟩ := hs (by rw [evaluated_eq]; exact hk)
    rw [get_eq_post k hk] at hg
    rcases evalArg_cases hn hE (loc := loc) hdn hv with ⟨ev, a1, he, hea⟩ | ⟨e, a1, hea⟩
    · rw [hea] at hg
      simp only at hg
      obtain ⟨_, hd2, _⟩ := post_ok hg
      obtain ⟨h1, h2⟩ := post_sound hn hT hk hd hl hv he hg
      exact ⟨h1, h2, by omega⟩
    · rw [hea] at hg; cases hg
  · have hk' : k.evals = false := by simpa using hk
    cases k <;> simp [Kind.evals] at hk'
    case identifier =>
      simp only [Front.get] at hg
      split at hg
      · cases hg; exact ⟨rfl, trivial, by omega⟩
      · cases hg
    case register =>
      simp only [Front.get] at hg
      split at hg
      · split at hg
        · rename_i s r hr; cases hg; exact ⟨by simp [denote, hr], trivial, by omega⟩
        · cases hg
      · cases hg
    case systemReg =>
      simp only [Front.get] at hg
      split at hg
      · split at hg
        · rename_i s r hr; cases hg; exact ⟨by simp [denote, hr], trivial, by omega⟩
        · cases hg
      · cases hg
    case regSet =>
      simp only [Front.get] at hg
      split at hg
      · split at hg
        · rename_i rs hr
          cases hg
          exact ⟨by simp [denote, (regset_spec pos _ 0 rs).1 hr], trivial, by omega⟩
        · cases hg
      · cases hg

omit hT in
theorem get_complete {k : Kind} {loc : Bool} {pos done : Nat} (hdn : done ≤ pos) {a : Arg} {v : Val}
    (hden : denote (tab lk) k a = some v) (hok : okValC v) :
    ∃ a' d', get k eval loc pos done a = .ok v a' d' ∧ d' ≤ pos + 1 := by
  by_cases hk : k.evals = true
  · obtain ⟨ev, a1, he, hp⟩ := post_complete hn hk hden hok pos
    rw [get_eq_post k hk]
    have hc := (hE.ok a ev a1 he).1 (cause_none hn he)
    refine ⟨a1, pos + 1, ?_, Nat.le_refl _⟩
    simp only [evalArg, hdn, if_true, hc]
    exact hp _
  · have hk' : k.evals = false := by simpa using hk
    cases k <;> simp [Kind.evals] at hk'
    case identifier =>
      cases a with
      | ident s =>
        simp only [denote, Option.some.injEq] at hden
        subst hden
        exact ⟨.ident s, done, by simp [Front.get], by omega⟩
      | _ => simp [denote] at hden
    case register =>
      cases a with
      | ident s =>
        simp only [denote, Option.map_eq_some_iff] at hden
        obtain ⟨r, hr, rfl⟩ := hden
        exact ⟨.ident s, done, by simp [Front.get, hr], by omega⟩
      | _ => simp [denote] at hden
    case systemReg =>
      cases a with
      | ident s =>
        simp only [denote, Option.map_eq_some_iff] at hden
        obtain ⟨r, hr, rfl⟩ := hden
        exact ⟨.ident s, done, by simp [Front.get, hr], by omega⟩
      | _ => simp [denote] at hden
    case regSet =>
      cases a with
      | seq items =>
        simp only [denote, Option.map_eq_some_iff] at hden
        obtain ⟨rs, hr, rfl⟩ := hden
        exact ⟨.seq items, done, by simp [Front.get, (regset_spec pos items.toList 0 rs).2 hr], by omega⟩
      | _ => simp [denote] at hden

omit hT in
theorem get_total {k : Kind} {loc : Bool} {pos done : Nat} (hdn : done ≤ pos) {a : Arg} (hs : slotOk (tab lk) k a) :
    (∃ v a' d', get k eval loc pos done a = .ok v a' d') ∨ (∃ a' d' e, get k eval loc pos done a = .stop a' d' (.error e)) := by
  by_cases hk : k.evals = true
  · obtain ⟨hv, _, _⟩ := hs (by rw [evaluated_eq]; exact hk)
    rw [get_eq_post k hk]
    rcases evalArg_cases hn hE (loc := loc) hdn hv with ⟨ev, a1, he, hea⟩ | ⟨e, a1, hea⟩
    · rw [hea]
      simp only
      cases k <;> simp [Kind.evals] at hk <;> simp only [post] <;> (repeat' split) <;> simp
    · rw [hea]; exact .inr ⟨_, _, _, rfl⟩
  · have hk' : k.evals = false := by simpa using hk
    cases k <;> simp [Kind.evals] at hk' <;> simp only [Front.get] <;> (repeat' split) <;> simp

end

end Trion.C04
