import TrionModel.Lemmas.LayoutInv
/-!
# C05 helper lemmas, part 3: the invariant along `step`, `steps`, `runTasks`; no panic
-/
namespace Trion.Layout

theorem append_inv (st st' : State) (bs : Bytes) (hi : Inv st) (h : append st bs = .ok st') :
    Inv st' ∧ st'.tasks = st.tasks ∧ st'.env = st.env := by
  obtain ⟨s, hact, hfit, rfl⟩ := append_ok st st' bs h
  obtain ⟨e1, e2, _⟩ := append_effects st s bs hi.1 hact hfit
  exact ⟨⟨e1, fun t ht => e2 t (hi.2 t ht)⟩, rfl, rfl⟩

theorem env_update_inv (st : State) (e : Env) (hi : Inv st) : Inv { st with env := e } := hi

theorem step_no_panic (st : State) (s : Stmt) (hi : Inv st) : step st s ≠ .error .panic := by
  cases s with
  | addr a => exact changeSeg_no_panic st a hi.1
  | align n =>
    rw [step_align]
    cases hact : st.active with
    | none => simp
    | some s =>
      simp only
      split
      · simp
      · split
        · simp
        · exact append_no_panic _ _ hi.1
  | label n =>
    unfold step
    cases hact : st.active with
    | none => simp
    | some s => exact insertConst_no_panic _ _ _
  | const n deps v =>
    simp only [step]
    split
    · exact insertConst_no_panic _ _ _
    · simp
  | raw bs => exact append_no_panic _ _ hi.1
  | emit len deps final =>
    unfold step
    cases hact : st.active with
    | none => simp
    | some s =>
      simp only
      split
      · exact append_no_panic _ _ hi.1
      · have := append_no_panic st (placeholder len) hi.1
        cases happ : append st (placeholder len) with
        | error e => rw [happ] at this; intro hh; cases hh; exact this rfl
        | ok st1 => simp

theorem length_placeholder (n : Nat) : (placeholder n).length = n := by
  simp [placeholder]

/-- the task pushed by a deferred `emit` is `TaskOk` in the successor state -/
theorem new_task_ok (st : State) (s : Active) (len : Nat) (deps : List Nat) (final : Bytes) (hc : Core st)
    (hact : st.active = some s) (hfit : s.buf.length + len ≤ s.maxLen) (hwf : final.length = len) :
    TaskOk { st with active := some { s with buf := s.buf ++ placeholder len } }
      { addr := s.curr, len := len, deps := deps, final := final } := by
  obtain ⟨h1, h2, h3⟩ := hc.2 s hact
  refine ⟨hwf, ?_⟩
  have hcurr : s.curr = min (s.base + s.buf.length) (top - 1) := rfl
  by_cases hl : len = 0
  · left; intro i hi; simp only at hi; omega
  · right
    refine ⟨_, rfl, ?_, ?_⟩
    · simp only; unfold top at h2 hcurr; omega
    · simp only [List.length_append, length_placeholder]; unfold top at h2 hcurr; omega

theorem step_inv (st st' : State) (s : Stmt) (hi : Inv st) (hwf : s.wf = true) (h : step st s = .ok st') :
    Inv st' := by
  cases s with
  | addr a =>
    obtain ⟨k1, _, k3, _, k5, _⟩ := changeSeg_ok st st' a hi.1 h
    exact ⟨k1, fun t ht => k5 t (hi.2 t (by rwa [k3] at ht))⟩
  | align n =>
    rw [step_align] at h
    cases hact : st.active with
    | none => rw [hact] at h; cases h
    | some s =>
      rw [hact] at h; simp only at h
      split at h
      · cases h
      · split at h
        · cases h; exact hi
        · exact (append_inv _ _ _ hi h).1
  | label n =>
    unfold step at h
    cases hact : st.active with
    | none => rw [hact] at h; cases h
    | some s =>
      rw [hact] at h; simp only at h
      obtain ⟨_, rfl⟩ := insertConst_ok _ _ _ _ h
      exact hi
  | const n deps v =>
    simp only [step] at h
    split at h
    · obtain ⟨_, rfl⟩ := insertConst_ok _ _ _ _ h
      exact hi
    · cases h
  | raw bs => exact (append_inv _ _ _ hi h).1
  | emit len deps final =>
    unfold step at h
    cases hact : st.active with
    | none => rw [hact] at h; cases h
    | some s =>
      rw [hact] at h; simp only at h
      split at h
      · exact (append_inv _ _ _ hi h).1
      · cases happ : append st (placeholder len) with
        | error e => rw [happ] at h; cases h
        | ok st1 =>
          rw [happ] at h; simp only at h
          cases h
          obtain ⟨s', hact', hfit, rfl⟩ := append_ok st st1 _ happ
          rw [hact] at hact'; cases hact'
          rw [length_placeholder] at hfit
          obtain ⟨e1, e2, _⟩ := append_effects st s (placeholder len) hi.1 hact
            (by rw [length_placeholder]; exact hfit)
          refine ⟨e1, fun t ht => ?_⟩
          simp only [List.mem_append, List.mem_singleton] at ht
          rcases ht with ht | rfl
          · exact e2 t (hi.2 t ht)
          · have hw : final.length = len := by simpa [Stmt.wf] using hwf
            exact new_task_ok st s len deps final hi.1 hact hfit hw

theorem steps_no_panic (p : List Stmt) (st : State) (hi : Inv st) (hwf : ∀ s ∈ p, s.wf = true) :
    steps st p ≠ .error .panic := by
  induction p generalizing st with
  | nil => simp [steps]
  | cons s r ih =>
    unfold steps
    cases hs : step st s with
    | error e =>
      simp only
      have := step_no_panic st s hi
      rw [hs] at this
      exact this
    | ok st1 =>
      simp only
      exact ih st1 (step_inv st st1 s hi (hwf s (List.mem_cons_self)) hs)
        (fun x hx => hwf x (List.mem_cons_of_mem _ hx))

theorem steps_inv (p : List Stmt) (st st' : State) (hi : Inv st) (hwf : ∀ s ∈ p, s.wf = true)
    (h : steps st p = .ok st') : Inv st' := by
  induction p generalizing st with
  | nil => simp only [steps] at h; cases h; exact hi
  | cons s r ih =>
    unfold steps at h
    cases hs : step st s with
    | error e => rw [hs] at h; cases h
    | ok st1 =>
      rw [hs] at h; simp only at h
      exact ih st1 (step_inv st st1 s hi (hwf s (List.mem_cons_self)) hs)
        (fun x hx => hwf x (List.mem_cons_of_mem _ hx)) h

theorem runTasks_no_panic (l : List Task) (st : State) (hc : Core st) (ht : ∀ t ∈ l, TaskOk st t) :
    runTasks st l ≠ .error .panic := by
  induction l generalizing st with
  | nil => simp [runTasks]
  | cons t r ih =>
    unfold runTasks
    split
    · obtain ⟨st1, h1, hc1, _, _, _, hk, _⟩ := rewrite_spec st t hc (ht t List.mem_cons_self)
      rw [h1]; simp only
      exact ih st1 hc1 (fun x hx => hk x (ht x (List.mem_cons_of_mem _ hx)))
    · simp

theorem runTasks_core (l : List Task) (st st' : State) (hc : Core st) (ht : ∀ t ∈ l, TaskOk st t)
    (h : runTasks st l = .ok st') : Core st' := by
  induction l generalizing st with
  | nil => simp only [runTasks] at h; cases h; exact hc
  | cons t r ih =>
    unfold runTasks at h
    split at h
    · obtain ⟨st1, h1, hc1, _, _, _, hk, _⟩ := rewrite_spec st t hc (ht t List.mem_cons_self)
      rw [h1] at h; simp only at h
      exact ih st1 hc1 (fun x hx => hk x (ht x (List.mem_cons_of_mem _ hx))) h
    · cases h

/-- C06 for the layout core: no `assert!` of `close_segment`, `ActiveSegment::write`, `write_at`, or the
put-count checks of the deferred rewrite can fire, for any program. -/
theorem run_no_panic' (p : List Stmt) (hwf : ∀ s ∈ p, s.wf = true) : run p ≠ .error .panic := by
  unfold run
  cases hs : steps {} p with
  | error e =>
    simp only
    have := steps_no_panic p {} inv_init hwf
    rw [hs] at this; intro hh; cases hh; exact this rfl
  | ok st =>
    simp only
    have hi := steps_inv p {} st inv_init hwf hs
    have hc : Core { st with tasks := [] } := hi.1
    have ht : ∀ t ∈ st.tasks, TaskOk { st with tasks := [] } t := hi.2
    cases hr : runTasks { st with tasks := [] } st.tasks with
    | error e =>
      simp only
      have := runTasks_no_panic st.tasks _ hc ht
      rw [hr] at this; intro hh; cases hh; exact this rfl
    | ok st1 =>
      simp only
      have hc1 := runTasks_core st.tasks _ st1 hc ht hr
      obtain ⟨st2, h2, _⟩ := closeSeg_spec st1 hc1
      rw [h2]; simp

end Trion.Layout
