import TrionModel.Lemmas.C06Inv
import TrionModel.Lemmas.C04Diag
/-!
# C06 invalid constructs, placeholder-and-retry path: the generic lemma for the LAST statement of the main file

A statement that goes through `assemble → placeholder → task` returns `Ok` even when it has recorded a diagnostic, and an
undefined name is only reported when the queued task runs.  `run_last_diag`: the main file is `pre ++ [el]` (no parse
error), `pre` ran quietly to `S`; whatever `el` does keeps all diagnostics and tasks at its position (`PAt`), and either it
records a diagnostic at once or the task loop of the file does.  Then `Asm.run` is not a success, has a diagnostic, and
every diagnostic is at `el`.
-/
namespace Trion.C04
open Trion Trion.Asm

theorem run_last_diag (fs : Bytes → Option Bytes) (main data : Bytes) (hfs : fs main = some data)
    (pre : List Element) (el : Element) (hp : Asm.parseFile data = .ok (pre ++ [el], none))
    (S : Asm.St) (hpre : PrefixOk fs main pre S)
    (hnf : Asm.statement fs Asm.encoder (Asm.assembleFile fs Asm.encoder (Asm.maxDepth - 1)) ⟨[main], main⟩ S el ≠ .stop .fuel)
    (hK : ∀ S1 r1, Asm.statement fs Asm.encoder (Asm.assembleFile fs Asm.encoder (Asm.maxDepth - 1)) ⟨[main], main⟩ S el = .ok (S1, r1) →
      PAt main el.line el.col S1 ∧
      (1 ≤ S1.errors.length ∨
       (r1 = .ok ∧ ∀ tasks S2 r2, S1.localTasks = some tasks →
          Asm.localLoop Asm.encoder ⟨[main], main⟩ Asm.rounds tasks { S1 with localTasks := some [] } r1 = .ok (S2, r2) →
          1 ≤ S2.errors.length))) :
    ∃ o, Asm.run fs main = .done o ∧ o.success = false ∧ o.diags ≠ [] ∧
      ∀ d ∈ o.diags, d.file = main ∧ d.line = el.line ∧ d.col = el.col := by
  let inc := Asm.assembleFile fs Asm.encoder (Asm.maxDepth - 1)
  let env : Asm.Env := ⟨[main], main⟩
  have hdo : Asm.doAssemble fs Asm.encoder inc env (pre ++ [el]) none init2 =
      match Asm.statement fs Asm.encoder inc env S el with
      | .ok (st', .ok) => .ok (st', .ok)
      | .ok (st', .err lv) => .ok (st', .err lv)
      | .stop s => .stop s := by
    rw [hpre]
    simp only [Asm.doAssemble]
    cases Asm.statement fs Asm.encoder inc env S el with
    | ok p => obtain ⟨st', r⟩ := p; cases r <;> rfl
    | stop s => rfl
  have hfb := fileBody_eq' fs inc env data init2 _ none hp
  rw [hdo] at hfb
  cases hX : Asm.statement fs Asm.encoder inc env S el with
  | stop s =>
    rw [hX] at hfb
    simp only at hfb
    have := body_stop_fuel fs main data hfs s hfb
    subst this
    exact absurd hX hnf
  | ok p =>
    obtain ⟨st1, r1⟩ := p
    obtain ⟨hp1, hE⟩ := hK st1 r1 hX
    rw [hX] at hfb
    have hfin : ∀ (st4 : Asm.St) (r : Asm.Res), Asm.fileBody fs Asm.encoder inc env data init2 = .ok (st4, r) →
        1 ≤ st4.errors.length → PAt main el.line el.col st4 → _ := fun st4 r hb he hpt =>
      run_of_body fs main data hfs el.line el.col st4 r hb he hpt
    have hgoal : ∃ o, Asm.run fs main = .done o ∧ o.success = false ∧ o.diags ≠ [] ∧ ∀ d ∈ o.diags, d.at main el.line el.col := by
      by_cases hfat : r1 = .err .fatal
      · subst hfat
        simp only [if_true] at hfb
        rcases hE with hE | ⟨hE, _⟩
        · exact hfin st1 _ hfb hE hp1
        · cases hE
      · have hr1 : (if r1 = Asm.Res.err Asm.Level.fatal then (Asm.Out.ok (st1, r1) : Asm.Out (Asm.St × Asm.Res)) else
              match st1.localTasks with
              | none => .stop .panic
              | some tasks => Asm.localLoop Asm.encoder env Asm.rounds tasks { st1 with localTasks := some [] } r1) =
            (match st1.localTasks with
              | none => .stop .panic
              | some tasks => Asm.localLoop Asm.encoder env Asm.rounds tasks { st1 with localTasks := some [] } r1) := if_neg hfat
        have hfb1 : Asm.fileBody fs Asm.encoder inc env data init2 =
            (match st1.localTasks with
              | none => .stop .panic
              | some tasks => Asm.localLoop Asm.encoder env Asm.rounds tasks { st1 with localTasks := some [] } r1) := by
          rw [hfb, ← hr1]; cases r1 <;> rfl
        cases hlt : st1.localTasks with
        | none =>
          rw [hlt] at hfb1
          have := body_stop_fuel fs main data hfs _ hfb1
          cases this
        | some tasks =>
          rw [hlt] at hfb1
          simp only at hfb1
          cases hY : Asm.localLoop Asm.encoder env Asm.rounds tasks { st1 with localTasks := some [] } r1 with
          | stop s =>
            rw [hY] at hfb1
            have := body_stop_fuel fs main data hfs s hfb1
            subst this
            exact absurd hY (Asm.localLoop_nf _ _ _ _ _ _)
          | ok q =>
            obtain ⟨st2, r2⟩ := q
            rw [hY] at hfb1
            have hg := (Asm.localLoop_grew _ _ _ _ _ _ hY).1
            have hp2 : PAt main el.line el.col st2 := localLoop_pat Asm.rounds tasks _ r1 (hp1.lt tasks hlt)
              (show PAt main el.line el.col ({ st1 with localTasks := some [] } : Asm.St) from ⟨hp1.errs, hp1.gt, fun q hq t ht => by
                have hq' : (some ([] : List Asm.Task)) = some q := hq
                cases hq'; cases ht⟩) _ _ hY
            have he2 : 1 ≤ st2.errors.length := by
              rcases hE with hE | ⟨_, hE⟩
              · simp only at hg; omega
              · exact hE tasks st2 r2 hlt hY
            exact hfin st2 r2 hfb1 he2 hp2
    obtain ⟨o, h1, h2, h3, h4⟩ := hgoal
    exact ⟨o, h1, h2, h3, fun d hd => h4 d hd⟩

theorem pat_quiet {S : Asm.St} (hq : QuietSt S) (f : Bytes) (l c : Nat) : PAt f l c S := by
  obtain ⟨h1, h2, h3⟩ := hq
  refine ⟨fun d hd => ?_, fun t ht => ?_, fun q hq t ht => ?_⟩
  · rw [h1] at hd; cases hd
  · rw [h2] at ht; cases ht
  · rw [h3] at hq; cases hq; cases ht

end Trion.C04

namespace Trion.Asm
open Trion

theorem duDirective_nf (du : DU) (env : Env) (st : St) (l c : Nat) (args : List Arg) : NF (duDirective du env st l c args) := by
  intro h
  unfold duDirective at h
  splitsAt h
  all_goals first
    | (cases h; done)
    | (cases h; exact absurd ‹_› (apply_nf _ _ _ _))
    | (cases h; exact absurd ‹_› (writeData_nf _ _ _))
    | (cases h; exact absurd ‹_› (scheduleD_nf _ _ _))

end Trion.Asm

namespace Trion.C04
open Trion Trion.Asm

/-- a `.du*` statement whose operand evaluates to something that is not a number of the type records a diagnostic -/
theorem du_diag (du : Asm.DU) (env : Asm.Env) (st : Asm.St) (l c : Nat) (b a' : Arg)
    (hact : st.seg.active.isSome = true) (hev : Asm.evalArg env st b = .ok (.complete a'))
    (hbad : ∀ v, a' = .const v → ¬ (0 ≤ v ∧ v ≤ du.max)) :
    ∀ st' r, Asm.duDirective du env st l c [b] = .ok (st', r) → st.errors.length + 1 ≤ st'.errors.length := by
  intro st' r h
  cases hc : st.seg.active with
  | none => simp [hc] at hact
  | some seg =>
    unfold Asm.duDirective at h
    simp only [Asm.currAddr, hc, Option.map_some, Asm.arity, List.length_cons, List.length_nil, Nat.zero_add, if_true] at h
    have happ : ∃ k, Asm.DataExpr.apply ⟨du, env.curName, l, c, seg.cur, b, false⟩ env st true =
        .ok (⟨du, env.curName, l, c, seg.cur, a', false⟩, st.pushIn env.curName l c k, .err .trivial) := by
      cases a' with
      | const v =>
        exact ⟨.dirApply du.name (.dataRange 0 du.max v), by
          simp [Asm.DataExpr.apply, hev, Asm.DataExpr.writer, hbad v rfl, Asm.DataExpr.kindApply]⟩
      | ident x => exact ⟨.dirArgType du.name 0 .const .ident, by simp [Asm.DataExpr.apply, hev, Asm.DataExpr.writer, Arg.ty]⟩
      | str x => exact ⟨.dirArgType du.name 0 .const .str, by simp [Asm.DataExpr.apply, hev, Asm.DataExpr.writer, Arg.ty]⟩
      | bin op x y => exact ⟨.dirArgType du.name 0 .const op.argTy, by simp [Asm.DataExpr.apply, hev, Asm.DataExpr.writer, Arg.ty]⟩
      | neg x => exact ⟨.dirArgType du.name 0 .const .neg, by simp [Asm.DataExpr.apply, hev, Asm.DataExpr.writer, Arg.ty]⟩
      | not x => exact ⟨.dirArgType du.name 0 .const .not, by simp [Asm.DataExpr.apply, hev, Asm.DataExpr.writer, Arg.ty]⟩
      | addr x => exact ⟨.dirArgType du.name 0 .const .addr, by simp [Asm.DataExpr.apply, hev, Asm.DataExpr.writer, Arg.ty]⟩
      | seq x => exact ⟨.dirArgType du.name 0 .const .seq, by simp [Asm.DataExpr.apply, hev, Asm.DataExpr.writer, Arg.ty]⟩
      | func n x => exact ⟨.dirArgType du.name 0 .const .func, by simp [Asm.DataExpr.apply, hev, Asm.DataExpr.writer, Arg.ty]⟩
    obtain ⟨k, happ⟩ := happ
    rw [happ] at h
    simp only at h
    cases hw : Asm.DataExpr.writeData ⟨du, env.curName, l, c, seg.cur, a', false⟩ (st.pushIn env.curName l c k)
        (List.replicate du.size 0xBE) with
    | stop s => rw [hw] at h; cases h
    | ok q =>
      obtain ⟨d2, st2, r2⟩ := q
      have hg := Asm.writeData_grew hw
      simp only [Asm.Grew, Asm.pushIn_len] at hg
      rw [hw] at h
      cases r2 with
      | ok =>
        simp only at h
        cases hs : Asm.DataExpr.schedule d2 st2 false with
        | stop s => rw [hs] at h; cases h
        | ok st3 =>
          rw [hs] at h
          cases h
          have := Asm.addTask_errs hs
          rw [this]; omega
      | err lv => simp only at h; cases h; omega

end Trion.C04

namespace Trion.C04
open Trion Trion.Asm Trion.Front

/-- `.du* name` with an undefined name: either a diagnostic at once (no room for the placeholder), or the statement
returns `Ok` having queued exactly one retry of itself, with the name still unevaluated -/
theorem du_undef_stmt (du : Asm.DU) (env : Asm.Env) (st : Asm.St) (tbl : Asm.Table) (henv : env.paths ≠ [])
    (hl : st.locals = some tbl) (hlt : st.localTasks = some []) (l c : Nat) (n : Bytes)
    (hr : isRegister n = false) (hf : tbl.find n = none) :
    ∀ st' r, Asm.duDirective du env st l c [.ident n] = .ok (st', r) →
      st.errors.length + 1 ≤ st'.errors.length ∨
      (r = .ok ∧ st'.locals = some tbl ∧ st'.errors = st.errors ∧
        ∃ d, st'.localTasks = some [.data d false] ∧ d.arg = .ident n ∧ d.du = du) := by
  intro st' r h
  have hp : env.paths.isEmpty = false := by cases h : env.paths with | nil => exact absurd h henv | cons => rfl
  have hev : Asm.evalArg env st (.ident n) = .ok (.noSuch n (.ident n)) := by
    simp [Asm.evalArg, Asm.evalTable, hp, hl, Asm.evalIn, Simp.evaluateE, hr, Asm.Table.get, hf]
  unfold Asm.duDirective at h
  cases hc : Asm.currAddr st with
  | none => rw [hc] at h; simp only at h; cases h; left; simp
  | some addr =>
    rw [hc] at h
    simp only [Asm.arity, List.length_cons, List.length_nil, Nat.zero_add, if_true, Asm.DataExpr.apply, hev] at h
    cases hw : Asm.DataExpr.writeData ⟨du, env.curName, l, c, addr, .ident n, false⟩ st (List.replicate du.size 0xBE) with
    | stop s => rw [hw] at h; cases h
    | ok q =>
      obtain ⟨d2, st2, r2⟩ := q
      rw [hw] at h
      have hg := Asm.writeData_grew hw
      unfold Asm.DataExpr.writeData at hw
      cases r2 with
      | err lv =>
        simp only at h; cases h
        left; simpa [Asm.Grew] using hg
      | ok =>
        simp only at h
        cases hs : Asm.DataExpr.schedule d2 st2 false with
        | stop s => rw [hs] at h; cases h
        | ok st3 =>
          rw [hs] at h
          cases h
          right
          -- `write_data` changed the regions and `placed` only
          split at hw
          · rename_i s' p' hws
            cases hw
            simp only [Asm.DataExpr.schedule, Asm.addTask, Bool.false_eq_true, if_false, hlt] at hs
            cases hs
            exact ⟨rfl, hl, rfl, ⟨du, env.curName, l, c, addr, .ident n, p'⟩, by simp, rfl, rfl⟩
          · cases hw
          · cases hw

/-- the retry of `.du* name` with the name still undefined reports `NoSuchVariable` -/
theorem du_undef_task (d : Asm.DataExpr) (env : Asm.Env) (st : Asm.St) (tbl : Asm.Table) (henv : env.paths ≠ [])
    (hl : st.locals = some tbl) (n : Bytes) (ha : d.arg = .ident n) (hr : isRegister n = false) (hf : tbl.find n = none) :
    ∀ st' r, Asm.runTask Asm.encoder env st (.data d false) = .ok (st', r) → st.errors.length + 1 ≤ st'.errors.length := by
  intro st' r h
  have hp : env.paths.isEmpty = false := by cases h : env.paths with | nil => exact absurd h henv | cons => rfl
  have hev : Asm.evalArg env st (.ident n) = .ok (.noSuch n (.ident n)) := by
    simp [Asm.evalArg, Asm.evalTable, hp, hl, Asm.evalIn, Simp.evaluateE, hr, Asm.Table.get, hf]
  simp only [Asm.runTask, Asm.runDataTask, Asm.DataExpr.apply, ha, hev, Bool.false_eq_true, if_false] at h
  cases h
  simp

end Trion.C04
