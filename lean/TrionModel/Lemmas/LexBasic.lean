import TrionModel.Model.Lex
/-!
# Helper lemmas for the tokenizer model, part 1: byte searches, UTF-8, positions

No Mathlib; core `List` lemmas, `simp`, `omega`, `grind`.
-/
namespace Trion.Lex
open Trion.Pos (isCont countLF scalars lastLine adv step)

/-! ## `position` -/

theorem position_some {p : UInt8 → Bool} {l : Bytes} {i : Nat} (h : position p l = some i) :
    ∃ pre b post, l = pre ++ b :: post ∧ pre.length = i ∧ p b = true ∧ ∀ x ∈ pre, p x = false := by
  induction l generalizing i with
  | nil => simp [position] at h
  | cons a l ih =>
    simp only [position] at h
    by_cases ha : p a = true
    · simp [ha] at h
      exact ⟨[], a, l, by simp, by simp [h], ha, by simp⟩
    · simp [ha] at h
      cases hp : position p l with
      | none => simp [hp] at h
      | some j =>
        simp [hp] at h
        obtain ⟨pre, b, post, rfl, hl, hb, hall⟩ := ih hp
        refine ⟨a :: pre, b, post, by simp, by simp [hl, h], hb, ?_⟩
        intro x hx
        simp at hx
        rcases hx with rfl | hx
        · simpa using ha
        · exact hall x hx

theorem position_none {p : UInt8 → Bool} {l : Bytes} (h : position p l = none) : ∀ x ∈ l, p x = false := by
  induction l with
  | nil => simp
  | cons a l ih =>
    simp only [position] at h
    by_cases ha : p a = true
    · simp [ha] at h
    · simp [ha] at h
      cases hp : position p l with
      | none =>
        intro x hx
        simp at hx
        rcases hx with rfl | hx
        · simpa using ha
        · exact ih hp x hx
      | some j => simp [hp] at h

theorem position_append_of_all {p : UInt8 → Bool} (pre : Bytes) (b : UInt8) (post : Bytes)
    (hall : ∀ x ∈ pre, p x = false) (hb : p b = true) : position p (pre ++ b :: post) = some pre.length := by
  induction pre with
  | nil => simp [position, hb]
  | cons a pre ih =>
    have ha : p a = false := hall a (by simp)
    have := ih (fun x hx => hall x (by simp [hx]))
    simp [position, ha, this]

theorem position_none_of_all {p : UInt8 → Bool} (l : Bytes) (hall : ∀ x ∈ l, p x = false) : position p l = none := by
  induction l with
  | nil => rfl
  | cons a l ih =>
    have ha : p a = false := hall a (by simp)
    simp [position, ha, ih (fun x hx => hall x (by simp [hx]))]

/-! ## boundaries -/

theorem isBoundary_zero (d : Bytes) : isBoundary d 0 = true := by simp [isBoundary]

theorem isBoundary_length (d : Bytes) : isBoundary d d.length = true := by
  simp [isBoundary]

theorem isBoundary_append_cons (pre : Bytes) (b : UInt8) (post : Bytes) (h : isCont b = false) :
    isBoundary (pre ++ b :: post) pre.length = true := by
  simp [isBoundary, h]

theorem isBoundary_split (pre post : Bytes) (h : ∀ b, post.head? = some b → isCont b = false) :
    isBoundary (pre ++ post) pre.length = true := by
  cases post with
  | nil => simpa using isBoundary_length pre
  | cons b post => exact isBoundary_append_cons pre b post (h b rfl)

theorem sliceFrom_split (pre post : Bytes) (h : ∀ b, post.head? = some b → isCont b = false) :
    sliceFrom (pre ++ post) pre.length = some post := by
  simp [sliceFrom, isBoundary_split pre post h]

theorem sliceTo_split (pre post : Bytes) (h : ∀ b, post.head? = some b → isCont b = false) :
    sliceTo (pre ++ post) pre.length = some pre := by
  simp [sliceTo, isBoundary_split pre post h]

/-! ## UTF-8 -/

/-- well-formed UTF-8 made of whole characters -/
inductive Utf8 : Bytes → Prop
  | nil : Utf8 []
  | cons (d : Bytes) (c n : Nat) : decodeChar d = some (c, n) → Utf8 (d.drop n) → Utf8 d

theorem isCont_iff (b : UInt8) : isCont b = true ↔ 128 ≤ b.toNat ∧ b.toNat < 192 := by
  simp [isCont]

theorem isCont_false_iff (b : UInt8) : isCont b = false ↔ b.toNat < 128 ∨ 192 ≤ b.toNat := by
  simp [isCont]; omega

/-- what a successful `decodeChar` says about the bytes -/
theorem decodeChar_some {d : Bytes} {c n : Nat} (h : decodeChar d = some (c, n)) :
    1 ≤ n ∧ n ≤ d.length ∧
    (∃ b0, d[0]? = some b0 ∧ isCont b0 = false ∧ (b0.toNat < 128 → n = 1 ∧ c = b0.toNat) ∧ (n = 1 → b0.toNat < 128) ∧
      (128 ≤ b0.toNat → 128 ≤ c)) ∧
    (∀ j, 1 ≤ j → j < n → ∃ b, d[j]? = some b ∧ isCont b = true) := by
  unfold decodeChar at h
  cases h0 : d[0]? with
  | none => simp [h0] at h
  | some b0 =>
    have hlen0 : 0 < d.length := by
      rcases List.getElem?_eq_some_iff.mp h0 with ⟨hl, _⟩; exact hl
    simp only [h0] at h
    by_cases h1 : b0.toNat < 128
    · simp [h1] at h
      obtain ⟨rfl, rfl⟩ := h
      refine ⟨by omega, by omega, ⟨b0, rfl, ?_, ?_, ?_, ?_⟩, ?_⟩
      · rw [isCont_false_iff]; omega
      · intro _; exact ⟨rfl, rfl⟩
      · intro _; exact h1
      · intro h'; omega
      · intro j hj1 hj2; omega
    · simp only [h1, if_false] at h
      by_cases h2 : b0.toNat < 194
      · simp [h2] at h
      · simp only [h2, if_false] at h
        have hnc : isCont b0 = false := by rw [isCont_false_iff]; omega
        by_cases h3 : b0.toNat < 224
        · simp only [h3, if_true] at h
          cases hb1 : d[1]? with
          | none => simp [hb1] at h
          | some b1 =>
            simp only [hb1] at h
            by_cases hc1 : isCont b1 = true
            · simp [hc1] at h
              obtain ⟨rfl, rfl⟩ := h
              have hl1 : 1 < d.length := (List.getElem?_eq_some_iff.mp hb1).1
              refine ⟨by omega, by omega, ⟨b0, rfl, hnc, ?_, ?_, ?_⟩, ?_⟩
              · intro h'; omega
              · intro h'; omega
              · intro _; have := (isCont_iff b1).mp hc1; omega
              · intro j hj1 hj2
                have : j = 1 := by omega
                subst this; exact ⟨b1, hb1, hc1⟩
            · simp [hc1] at h
        · simp only [h3, if_false] at h
          by_cases h4 : b0.toNat < 240
          · simp only [h4, if_true] at h
            cases hb1 : d[1]? with
            | none => simp [hb1] at h
            | some b1 =>
              cases hb2 : d[2]? with
              | none => simp [hb1, hb2] at h
              | some b2 =>
                simp only [hb1, hb2] at h
                split at h
                · rename_i hcond
                  simp at h
                  obtain ⟨rfl, rfl⟩ := h
                  simp only [Bool.and_eq_true] at hcond
                  obtain ⟨⟨⟨hc1, hc2⟩, ho1⟩, _⟩ := hcond
                  have hl2 : 2 < d.length := (List.getElem?_eq_some_iff.mp hb2).1
                  refine ⟨by omega, by omega, ⟨b0, rfl, hnc, ?_, ?_, ?_⟩, ?_⟩
                  · intro h'; omega
                  · intro h'; omega
                  · intro _
                    have := (isCont_iff b1).mp hc1
                    have := (isCont_iff b2).mp hc2
                    simp at ho1
                    omega
                  · intro j hj1 hj2
                    have : j = 1 ∨ j = 2 := by omega
                    rcases this with rfl | rfl
                    · exact ⟨b1, hb1, hc1⟩
                    · exact ⟨b2, hb2, hc2⟩
                · simp at h
          · simp only [h4, if_false] at h
            by_cases h5 : b0.toNat < 245
            · simp only [h5, if_true] at h
              cases hb1 : d[1]? with
              | none => simp [hb1] at h
              | some b1 =>
                cases hb2 : d[2]? with
                | none => simp [hb1, hb2] at h
                | some b2 =>
                  cases hb3 : d[3]? with
                  | none => simp [hb1, hb2, hb3] at h
                  | some b3 =>
                    simp only [hb1, hb2, hb3] at h
                    split at h
                    · rename_i hcond
                      simp at h
                      obtain ⟨rfl, rfl⟩ := h
                      simp only [Bool.and_eq_true] at hcond
                      obtain ⟨⟨⟨⟨hc1, hc2⟩, hc3⟩, ho1⟩, _⟩ := hcond
                      have hl3 : 3 < d.length := (List.getElem?_eq_some_iff.mp hb3).1
                      refine ⟨by omega, by omega, ⟨b0, rfl, hnc, ?_, ?_, ?_⟩, ?_⟩
                      · intro h'; omega
                      · intro h'; omega
                      · intro _
                        have := (isCont_iff b1).mp hc1
                        have := (isCont_iff b2).mp hc2
                        have := (isCont_iff b3).mp hc3
                        simp at ho1
                        omega
                      · intro j hj1 hj2
                        have : j = 1 ∨ j = 2 ∨ j = 3 := by omega
                        rcases this with rfl | rfl | rfl
                        · exact ⟨b1, hb1, hc1⟩
                        · exact ⟨b2, hb2, hc2⟩
                        · exact ⟨b3, hb3, hc3⟩
                    · simp at h
            · simp [h5] at h

/-- `decodeChar` only looks at the bytes of the character it returns -/
theorem decodeChar_take {d : Bytes} {c n : Nat} (h : decodeChar d = some (c, n)) (k : Nat) (hk : n ≤ k) :
    decodeChar (d.take k) = some (c, n) := by
  have hn := (decodeChar_some h).1
  have key : ∀ j, j < n → (d.take k)[j]? = d[j]? := by
    intro j hj
    rw [List.getElem?_take]; simp; omega
  by_cases h4 : 4 ≤ k
  · have k0 : (d.take k)[0]? = d[0]? := by rw [List.getElem?_take]; simp; omega
    have k1 : (d.take k)[1]? = d[1]? := by rw [List.getElem?_take]; simp; omega
    have k2 : (d.take k)[2]? = d[2]? := by rw [List.getElem?_take]; simp; omega
    have k3 : (d.take k)[3]? = d[3]? := by rw [List.getElem?_take]; simp; omega
    rw [← h]; unfold decodeChar; rw [k0, k1, k2, k3]
  · -- k < 4, hence n < 4: the lead byte decides
    have k0 : (d.take k)[0]? = d[0]? := key 0 (by omega)
    unfold decodeChar at h ⊢
    rw [k0]
    cases h0 : d[0]? with
    | none => simp [h0] at h
    | some b0 =>
      simp only [h0] at h ⊢
      by_cases h1 : b0.toNat < 128
      · simpa [h1] using h
      · simp only [h1, if_false] at h ⊢
        by_cases h2 : b0.toNat < 194
        · simp [h2] at h
        · simp only [h2, if_false] at h ⊢
          by_cases h3 : b0.toNat < 224
          · simp only [h3, if_true] at h ⊢
            cases hb1 : d[1]? with
            | none => simp [hb1] at h
            | some b1 =>
              simp only [hb1] at h
              by_cases hc1 : isCont b1 = true
              · simp [hc1] at h
                have : (d.take k)[1]? = some b1 := by rw [key 1 (by omega), hb1]
                simp [this, hc1, h]
              · simp [hc1] at h
          · simp only [h3, if_false] at h ⊢
            by_cases h4' : b0.toNat < 240
            · simp only [h4', if_true] at h ⊢
              cases hb1 : d[1]? with
              | none => simp [hb1] at h
              | some b1 =>
                cases hb2 : d[2]? with
                | none => simp [hb1, hb2] at h
                | some b2 =>
                  simp only [hb1, hb2] at h
                  split at h
                  · simp at h
                    have e1 : (d.take k)[1]? = some b1 := by rw [key 1 (by omega), hb1]
                    have e2 : (d.take k)[2]? = some b2 := by rw [key 2 (by omega), hb2]
                    rename_i hcond
                    simp only [e1, e2, hcond, if_true]
                    simp [h]
                  · simp at h
            · simp only [h4', if_false] at h ⊢
              by_cases h5 : b0.toNat < 245
              · simp only [h5, if_true] at h
                cases hb1 : d[1]? with
                | none => simp [hb1] at h
                | some b1 =>
                  cases hb2 : d[2]? with
                  | none => simp [hb1, hb2] at h
                  | some b2 =>
                    cases hb3 : d[3]? with
                    | none => simp [hb1, hb2, hb3] at h
                    | some b3 =>
                      simp only [hb1, hb2, hb3] at h
                      split at h
                      · simp at h; omega
                      · simp at h
              · simp [h5] at h

theorem utf8_head_noncont {b : UInt8} {r : Bytes} (h : Utf8 (b :: r)) : isCont b = false := by
  cases h with
  | cons _ c n hd _ =>
    obtain ⟨_, _, ⟨b0, hb0, hnc, _⟩, _⟩ := decodeChar_some hd
    simp at hb0; subst hb0; exact hnc

theorem utf8_head? {d : Bytes} (h : Utf8 d) : ∀ b, d.head? = some b → isCont b = false := by
  intro b hb
  cases d with
  | nil => simp at hb
  | cons a r => simp at hb; subst hb; exact utf8_head_noncont h

/-- dropping up to a character boundary keeps well-formedness -/
theorem utf8_drop {d : Bytes} (h : Utf8 d) : ∀ i, i ≤ d.length → (∀ b, d[i]? = some b → isCont b = false) → Utf8 (d.drop i) := by
  induction h with
  | nil => intro i _ _; simpa using Utf8.nil
  | cons d c n hd hrest ih =>
    intro i hi hb
    obtain ⟨hn1, hnl, _, hcont⟩ := decodeChar_some hd
    by_cases h0 : i = 0
    · subst h0; simpa using Utf8.cons d c n hd hrest
    · by_cases hin : i < n
      · exfalso
        obtain ⟨b, hb1, hb2⟩ := hcont i (by omega) hin
        have := hb b hb1
        simp [hb2] at this
      · have : d.drop i = (d.drop n).drop (i - n) := by
          rw [List.drop_drop]; congr 1; omega
        rw [this]
        apply ih
        · simp; omega
        · intro b hb'
          apply hb
          rw [List.getElem?_drop] at hb'
          have e : n + (i - n) = i := by omega
          rwa [e] at hb'

theorem utf8_tail_of_ascii {b : UInt8} {r : Bytes} (h : Utf8 (b :: r)) (hb : b.toNat < 128) : Utf8 r := by
  cases h with
  | cons _ c n hd hrest =>
    obtain ⟨_, _, ⟨b0, hb0, _, h1, _⟩, _⟩ := decodeChar_some hd
    simp at hb0; subst hb0
    obtain ⟨rfl, _⟩ := h1 hb
    simpa using hrest

/-- split at a non-continuation byte -/
theorem utf8_split_noncont {pre : Bytes} {b : UInt8} {post : Bytes} (h : Utf8 (pre ++ b :: post))
    (hb : isCont b = false) : Utf8 (b :: post) := by
  have := utf8_drop h pre.length (by simp) (by simp [hb])
  simpa using this

/-- split one past an ASCII byte -/
theorem utf8_split_after_ascii {pre : Bytes} {b : UInt8} {post : Bytes} (h : Utf8 (pre ++ b :: post))
    (hb : b.toNat < 128) : Utf8 post :=
  utf8_tail_of_ascii (utf8_split_noncont h (by rw [isCont_false_iff]; omega)) hb

theorem utf8_validUpToF (f : Nat) (d : Bytes) : Utf8 (d.take (validUpToF f d)) := by
  induction f generalizing d with
  | zero => simpa [validUpToF] using Utf8.nil
  | succ f ih =>
    unfold validUpToF
    cases hd : decodeChar d with
    | none => simpa using Utf8.nil
    | some cn =>
      obtain ⟨c, n⟩ := cn
      simp only
      refine Utf8.cons _ c n (decodeChar_take hd _ (by omega)) ?_
      have : (d.take (n + validUpToF f (d.drop n))).drop n = (d.drop n).take (validUpToF f (d.drop n)) := by
        rw [List.drop_take]; congr 1; omega
      rw [this]
      exact ih _

theorem utf8_new (bs : Bytes) : Utf8 (State.new bs).data := by
  simp only [State.new]
  exact utf8_validUpToF _ _

/-- a non-empty well-formed text decodes -/
theorem utf8_decode {d : Bytes} (h : Utf8 d) (hne : d ≠ []) : ∃ c n, decodeChar d = some (c, n) := by
  cases h with
  | nil => exact absurd rfl hne
  | cons _ c n hd _ => exact ⟨c, n, hd⟩

end Trion.Lex
