import TrionModel.Lemmas.ParseStmt
/-!
# A rendered program, given by its token VALUES, is read back statement by statement

`program_roundtrip` (C09) takes the program as (statement, first token, remaining tokens) triples; here the token
list is arbitrary except that its values are the concatenated renderings of the statements — which is what the
tokenizer theorems (`Lex.tokens_pieces` + `Lex.lexed_vals`) provide.
-/
namespace Trion.Parse

theorem elemVal_ne_nil (ev : ElemVal) : Render.elemVal ev ≠ [] := by
  cases ev <;> simp [Render.elemVal]

theorem prog_of_vals : ∀ (evs : List ElemVal) (ts : List Token),
    (∀ ev ∈ evs, ev.wf) → ts.map (·.val) = (evs.map Render.elemVal).flatten →
    ∃ prog : List (ElemVal × Token × List Token), progToks prog = ts ∧ prog.map (·.1) = evs ∧
      ∀ x ∈ prog, x.1.wf ∧ (x.2.1 :: x.2.2).map (·.val) = Render.elemVal x.1
  | [], ts, _, h => by
    have : ts = [] := map_eq_nil' (by simpa using h)
    subst this
    exact ⟨[], rfl, rfl, by simp⟩
  | ev :: evs, ts, hwf, h => by
    simp only [List.map_cons, List.flatten_cons] at h
    obtain ⟨ta, tb, rfl, ha, hb⟩ := exists_of_map_eq_append h
    obtain ⟨prog, hp1, hp2, hp3⟩ := prog_of_vals evs tb (fun e he => hwf e (by simp [he])) hb
    cases ta with
    | nil => exact absurd ha.symm (elemVal_ne_nil ev)
    | cons first body =>
      refine ⟨(ev, first, body) :: prog, ?_, by simp [hp2], ?_⟩
      · simp [progToks] at hp1 ⊢
        exact hp1
      · intro x hx
        simp at hx
        rcases hx with rfl | hx
        · exact ⟨hwf _ (by simp), ha⟩
        · exact hp3 x hx

/-- the parser on a token list whose values are the renderings of `evs`: exactly those statements, no error -/
theorem all_of_vals (evs : List ElemVal) (hwf : ∀ ev ∈ evs, ev.wf) (ts : List Token)
    (h : ts.map (·.val) = (evs.map Render.elemVal).flatten) (endLine endCol : Nat) :
    ∃ els, all ⟨ts, none, endLine, endCol⟩ = .done els none ∧ els.map (·.val) = evs := by
  obtain ⟨prog, hp1, hp2, hp3⟩ := prog_of_vals evs ts hwf h
  refine ⟨progElems prog, ?_, ?_⟩
  · rw [← hp1]
    exact allLoop_render _ rfl prog hp3 _ (Nat.lt_succ_self _)
  · rw [← hp2]; simp [progElems]

end Trion.Parse
