import TrionModel.Model.Crc
/-! Helper lemmas for C17 (core Lean only). -/
namespace Trion.Crc
open Spec

theorem xor_cancel (a b p : W) : a ^^^ p ^^^ (b ^^^ p) = a ^^^ b := by
  have : a ^^^ p ^^^ (b ^^^ p) = a ^^^ b ^^^ (p ^^^ p) := by ac_rfl
  rw [this, BitVec.xor_self, BitVec.xor_zero]

/-- one register step is linear over XOR -/
theorem step1_xor (x y : W) : step1 (x ^^^ y) = step1 x ^^^ step1 y := by
  unfold step1
  rw [BitVec.msb_xor]
  cases hx : x.msb <;> cases hy : y.msb <;> simp [BitVec.shiftLeft_xor_distrib]
  · ac_rfl
  · ac_rfl
  · exact (xor_cancel _ _ _).symm

theorem stepN_xor (n : Nat) (x y : W) : stepN n (x ^^^ y) = stepN n x ^^^ stepN n y := by
  induction n generalizing x y with
  | zero => rfl
  | succ n ih => simp [stepN, step1_xor, ih]

/-- every table entry is the bit-serial register run on the index byte (256 cases, kernel-evaluated) -/
theorem table_entries : ∀ i : Fin 256, table[i.val]! = stepN 8 (BitVec.ofNat 32 i.val <<< 24) := by
  decide +kernel

/-- while the top bits are clear the register only shifts -/
theorem stepN_low (n : Nat) (x : W) (h : x.toNat < 2 ^ (32 - n)) (hn : n ≤ 32) : stepN n x = x <<< n := by
  induction n generalizing x with
  | zero => simp [stepN]
  | succ n ih =>
    have hm : x.msb = false := by
      rw [BitVec.msb_eq_decide]; simp; 
      have : 2 ^ (32 - (n+1)) ≤ 2 ^ 31 := Nat.pow_le_pow_right (by omega) (by omega)
      omega
    have hs : step1 x = x <<< 1 := by simp [step1, hm]
    rw [stepN, hs, ih]
    · rw [← BitVec.shiftLeft_add]; congr 1; omega
    · rw [BitVec.toNat_shiftLeft, Nat.shiftLeft_eq]
      have h2 : 2 ^ (32 - n) = 2 * 2 ^ (32 - (n+1)) := by
        rw [← Nat.pow_succ']; congr 1; omega
      have : x.toNat * 2 ^ 1 < 2 ^ (32 - n) := by omega
      exact Nat.lt_of_le_of_lt (Nat.mod_le _ _) this
    · omega

theorem split_hi_lo (x : W) : x = (x &&& 0x00FFFFFF#32) ^^^ ((x >>> 24) <<< 24) := by
  ext i hi
  simp only [BitVec.getElem_xor, BitVec.getElem_and, BitVec.getElem_shiftLeft, BitVec.getElem_ushiftRight]
  by_cases h : i < 24
  · have : (0x00FFFFFF#32)[i] = true := by
      have : i ∈ List.range 24 := List.mem_range.mpr h
      revert i; decide
    simp [h, this]
  · have : (0x00FFFFFF#32)[i] = false := by
      have h1 : 24 ≤ i := by omega
      revert i; decide
    simp [h, this]
    congr 1; omega

theorem lo_lt (x : W) : (x &&& 0x00FFFFFF#32).toNat < 2 ^ (32 - 8) := by
  rw [BitVec.toNat_and]
  exact Nat.lt_of_le_of_lt Nat.and_le_right (by decide)

theorem mask_lsb (j : Nat) : (0x00FFFFFF#32).getLsbD j = decide (j < 24) := by
  by_cases h : j < 32
  · have : j ∈ List.range 32 := List.mem_range.mpr h
    revert j; decide
  · have h1 : 32 ≤ j := by omega
    rw [BitVec.getLsbD_of_ge _ _ h1]; simp; omega

theorem lo_shift (x : W) : (x &&& 0x00FFFFFF#32) <<< 8 = x <<< 8 := by
  apply BitVec.eq_of_getLsbD_eq
  intro i hi
  simp only [BitVec.getLsbD_shiftLeft, BitVec.getLsbD_and, mask_lsb]
  by_cases h : i < 8
  · simp [h]
  · have : i - 8 < 24 := by omega
    simp [h, this]

theorem hi_ofNat (x : W) : BitVec.ofNat 32 (x >>> 24).toNat = x >>> 24 := BitVec.ofNat_toNat ..

theorem hi_lt (x : W) : (x >>> 24).toNat < 256 := by
  rw [BitVec.toNat_ushiftRight, Nat.shiftRight_eq_div_pow]; omega

/-- the table-driven step equals eight bit-serial steps, on the whole 32-bit register -/
theorem stepN8_eq (x : W) : stepN 8 x = (x <<< 8) ^^^ table[(x >>> 24).toNat]! := by
  conv => lhs; rw [split_hi_lo x]
  rw [stepN_xor, stepN_low 8 _ (lo_lt x) (by omega), lo_shift]
  have := table_entries ⟨(x >>> 24).toNat, hi_lt x⟩
  simp only [hi_ofNat] at this
  rw [this]

theorem top_byte (crc : W) (b : BitVec 8) :
    ((crc ^^^ (b.zeroExtend 32 <<< 24)) >>> 24).toNat = (b ^^^ (crc >>> 24).truncate 8).toNat := by
  have : ((crc ^^^ (b.zeroExtend 32 <<< 24)) >>> 24).truncate 8 = (b ^^^ (crc >>> 24).truncate 8) := by
    apply BitVec.eq_of_getLsbD_eq
    intro i hi
    simp only [BitVec.getLsbD_xor, BitVec.getLsbD_ushiftRight, BitVec.getLsbD_shiftLeft, BitVec.getLsbD_setWidth]
    have h1 : 24 + i < 32 := by omega
    have h2 : ¬ (24 + i < 24) := by omega
    have h3 : 24 + i - 24 = i := by omega
    simp [hi, h1, h2, h3, Bool.xor_comm]
    intro _; omega
  rw [← this]
  simp only [BitVec.toNat_setWidth]
  have : ((crc ^^^ (b.zeroExtend 32 <<< 24)) >>> 24).toNat < 256 := by
    rw [BitVec.toNat_ushiftRight, Nat.shiftRight_eq_div_pow]; omega
  omega

theorem shl8 (crc : W) (b : BitVec 8) : (crc ^^^ (b.zeroExtend 32 <<< 24)) <<< 8 = crc <<< 8 := by
  apply BitVec.eq_of_getLsbD_eq
  intro i hi
  simp only [BitVec.getLsbD_shiftLeft, BitVec.getLsbD_xor, BitVec.getLsbD_setWidth]
  by_cases h : i < 8
  · simp [h]
  · have h1 : i - 8 < 24 := by omega
    simp [h, h1]

end Trion.Crc
