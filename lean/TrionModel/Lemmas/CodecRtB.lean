import TrionModel.Lemmas.CodecTac
/-! Round trip `RT` of the 16-bit encoder arms (second half); generated pattern: operand bounds, then `rt16`. -/
namespace Trion.Codec
open Trion

theorem rt_mul (a b : Reg) : RT (.mul a b) := by
  have := a.isLt; have := b.isLt; rt16

theorem rt_mvn (a b : Reg) : RT (.mvn a b) := by
  have := a.isLt; have := b.isLt; rt16

theorem rt_orr (a b : Reg) : RT (.orr a b) := by
  have := a.isLt; have := b.isLt; rt16

theorem rt_rev (a b : Reg) : RT (.rev a b) := by
  have := a.isLt; have := b.isLt; rt16

theorem rt_rev16 (a b : Reg) : RT (.rev16 a b) := by
  have := a.isLt; have := b.isLt; rt16

theorem rt_revsh (a b : Reg) : RT (.revsh a b) := by
  have := a.isLt; have := b.isLt; rt16

theorem rt_ror (a b : Reg) : RT (.ror a b) := by
  have := a.isLt; have := b.isLt; rt16

theorem rt_rsb (a b : Reg) : RT (.rsb a b) := by
  have := a.isLt; have := b.isLt; rt16

theorem rt_sbc (a b : Reg) : RT (.sbc a b) := by
  have := a.isLt; have := b.isLt; rt16

theorem rt_sxtb (a b : Reg) : RT (.sxtb a b) := by
  have := a.isLt; have := b.isLt; rt16

theorem rt_sxth (a b : Reg) : RT (.sxth a b) := by
  have := a.isLt; have := b.isLt; rt16

theorem rt_tst (a b : Reg) : RT (.tst a b) := by
  have := a.isLt; have := b.isLt; rt16

theorem rt_uxtb (a b : Reg) : RT (.uxtb a b) := by
  have := a.isLt; have := b.isLt; rt16

theorem rt_uxth (a b : Reg) : RT (.uxth a b) := by
  have := a.isLt; have := b.isLt; rt16

theorem rt_str_imm (a b : Reg) (v : Int) : RT (.str a b (.imm v)) := by
  have := a.isLt; have := b.isLt; rt16

theorem rt_str_reg (a b c : Reg) : RT (.str a b (.reg c)) := by
  have := a.isLt; have := b.isLt; have := c.isLt; rt16

theorem rt_strb_imm (a b : Reg) (v : Int) : RT (.strb a b (.imm v)) := by
  have := a.isLt; have := b.isLt; rt16

theorem rt_strb_reg (a b c : Reg) : RT (.strb a b (.reg c)) := by
  have := a.isLt; have := b.isLt; have := c.isLt; rt16

theorem rt_strh_imm (a b : Reg) (v : Int) : RT (.strh a b (.imm v)) := by
  have := a.isLt; have := b.isLt; rt16

theorem rt_strh_reg (a b c : Reg) : RT (.strh a b (.reg c)) := by
  have := a.isLt; have := b.isLt; have := c.isLt; rt16

theorem rt_sub_imm (f : Bool) (a b : Reg) (v : Int) : RT (.sub f a b (.imm v)) := by
  have := a.isLt; have := b.isLt; cases f <;> rt16

theorem rt_sub_reg (f : Bool) (a b c : Reg) : RT (.sub f a b (.reg c)) := by
  have := a.isLt; have := b.isLt; have := c.isLt; cases f <;> rt16

theorem rt_mov_imm (f : Bool) (a : Reg) (v : Int) : RT (.mov f a (.imm v)) := by
  have := a.isLt; cases f <;> rt16

theorem rt_mov_reg (f : Bool) (a c : Reg) : RT (.mov f a (.reg c)) := by
  have := a.isLt; have := c.isLt; rcases (show a.val / 8 = 0 ∨ a.val / 8 = 1 by omega) with e | e <;> cases f <;> rt16

theorem rt_svc (v : Int) : RT (.svc v) := by
  rt16

theorem rt_udf (v : Int) : RT (.udf v) := by
  rt16

theorem rt_stm (a : Reg) (m : RegSet) : RT (.stm a m) := by
  have := a.isLt; have := m.isLt; rt16

theorem rt_pop (m : RegSet) : RT (.pop m) := by
  have := m.isLt; rt16

theorem rt_push (m : RegSet) : RT (.push m) := by
  have := m.isLt; rt16

theorem rt_nop  : RT (.nop) := by
  rt16

theorem rt_sev  : RT (.sev) := by
  rt16

theorem rt_wfe  : RT (.wfe) := by
  rt16

theorem rt_wfi  : RT (.wfi) := by
  rt16

theorem rt_yield  : RT (.yield) := by
  rt16

end Trion.Codec
