import TrionModel.Lemmas.SegRewrite
import TrionModel.Lemmas.LayoutInv
/-!
# The region machine of C13 (`Seg`, over the `MemoryMap` model) refines the layout core of C05 (`Layout`)

`R s l`: the closed map of `s` denotes the closed image of `l`, and the active regions coincide
(`base`, `buf`, `maxLen`).  Under the region invariant every operation of `Seg` that succeeds is matched by the
corresponding operation of `Layout`, which succeeds too and re-establishes `R`.
-/
namespace Trion.SegLayout
open Trion Trion.Map Trion.Dict

def toL (a : Seg.Active) : Layout.Active := ⟨a.base, a.buf, a.maxLen⟩

/-- the regions of the two machines agree -/
def R (s : Seg.State) (l : Layout.State) : Prop :=
  (∀ k, abs s.map k = l.closed.get k) ∧ l.active = s.active.map toL

theorem has_eq {s : Seg.State} {l : Layout.State} (r : R s l) (k : Nat) : l.closed.has k = (abs s.map k).isSome := by
  unfold Layout.Img.has; rw [r.1]

/-- the two cursors agree on a region inside the address space -/
theorem cur_eq (seg : Seg.Active) (h : seg.base + seg.buf.length ≤ 4294967296) : (toL seg).curr = seg.cur := by
  unfold Layout.Active.curr Seg.Active.cur toL Layout.top u32Max
  simp only
  omega

/-! ## `close_segment` -/

theorem close_sim {s : Seg.State} {l : Layout.State} (inv : Seg.Inv s) (r : R s l) :
    ∃ l', Layout.closeSeg l = .ok l' ∧ R (Seg.closeSegment s).1 l' ∧ l'.env = l.env ∧ l'.tasks = l.tasks := by
  cases ha : s.active with
  | none =>
    have hl : l.active = none := by rw [r.2, ha]; rfl
    refine ⟨l, by simp [Layout.closeSeg, hl], ?_, rfl, rfl⟩
    have : Seg.closeSegment s = (s, .ok) := by unfold Seg.closeSegment; rw [ha]
    rw [this]; exact r
  | some seg =>
    obtain ⟨c1, _, c3⟩ := Seg.close_ok inv ha
    have hl : l.active = some (toL seg) := by rw [r.2, ha]; rfl
    obtain ⟨a1, _, _, a4⟩ := inv.2.1 seg ha
    have hf : l.closed.freeRange seg.base seg.buf.length = true := by
      rw [Layout.freeRange_iff]
      intro k k1 k2
      rw [has_eq r, a4 k k1 (by omega)]; rfl
    refine ⟨{ l with closed := l.closed.put seg.base seg.buf, active := none }, ?_, ?_, rfl, rfl⟩
    · simp only [Layout.closeSeg, hl, toL, hf, if_true]
    · rw [c1]
      refine ⟨fun k => ?_, rfl⟩
      show abs (Map.put s.map seg.base seg.buf).2 k = _
      rw [c3, put_apply, Layout.get_put, r.1]

/-! ## `change_segment` -/

theorem open_sim {s : Seg.State} {l : Layout.State} (inv : Seg.Inv s) (r : R s l) (hn : s.active = none) (a : Nat)
    (ha : a ≤ u32Max) {s' : Seg.State} (h : Seg.openSegment s a = (s', .ok)) :
    ∃ l', Layout.changeSeg.openAt l a = .ok l' ∧ R s' l' ∧ l'.env = l.env ∧ l'.tasks = l.tasks := by
  unfold u32Max at ha
  unfold Seg.openSegment at h
  rcases find_above_spec inv.1 a with ⟨h1, h2⟩ | ⟨j, sg, h0, h1, h2⟩
  · rw [h1] at h
    simp only at h
    cases h
    have hna : l.closed.nextAbove a = none := by
      cases hx : l.closed.nextAbove a with
      | none => rfl
      | some n =>
        obtain ⟨n1, n2, _⟩ := Layout.nextAbove_some _ _ _ hx
        rw [has_eq r, h2 n n1] at n2; cases n2
    refine ⟨{ l with active := some ⟨a, [], Layout.top - a⟩ }, by simp [Layout.changeSeg.openAt, hna], ⟨r.1, ?_⟩, rfl, rfl⟩
    show some _ = some _
    simp only [toL, Seg.maxLenFor, Layout.top, u32Max, Option.some.injEq, Layout.Active.mk.injEq, true_and]
    omega
  · rw [h1] at h
    simp only at h
    obtain ⟨a1, _, _, a4, _⟩ := abs_of_idx inv.1 h0
    have hx : 0 < sg.2.length := List.length_pos_iff.mpr a4
    rcases h2 with ⟨h3, h4⟩ | ⟨h3, h4⟩
    · simp only [h3, if_true] at h; cases h
    · simp only [show ¬ (sg.1 ≤ a) by omega, if_false] at h
      cases h
      have hocc : l.closed.has sg.1 = true := by
        rw [has_eq r, a1 sg.1 (Nat.le_refl _) (by omega), List.getElem?_eq_getElem (by omega)]; rfl
      have hna : l.closed.nextAbove a = some sg.1 := by
        cases hx' : l.closed.nextAbove a with
        | none =>
          have := Layout.nextAbove_none _ _ hx' sg.1 (by omega)
          rw [hocc] at this; cases this
        | some n =>
          obtain ⟨n1, n2, n3⟩ := Layout.nextAbove_some _ _ _ hx'
          by_cases c : n = sg.1
          · rw [c]
          · exfalso
            by_cases c2 : n < sg.1
            · rw [has_eq r, h4 n n1 c2] at n2; cases n2
            · have := n3 sg.1 (by omega) (by omega)
              rw [hocc] at this; cases this
      refine ⟨{ l with active := some ⟨a, [], sg.1 - a⟩ }, ?_, ⟨r.1, ?_⟩, rfl, rfl⟩
      · simp only [Layout.changeSeg.openAt, hna, show ¬ (sg.1 ≤ a) by omega, if_false]
      · show some _ = some _
        simp [toL, Seg.maxLenFor]

theorem select_sim {s : Seg.State} {l : Layout.State} (inv : Seg.Inv s) (r : R s l) (a : Nat) (ha : a ≤ u32Max)
    {s' : Seg.State} (h : Seg.changeSegment s a = (s', .ok)) :
    ∃ l', Layout.changeSeg l a = .ok l' ∧ R s' l' ∧ l'.env = l.env ∧ l'.tasks = l.tasks := by
  have hat : ¬ Layout.top ≤ a := by unfold Layout.top; unfold u32Max at ha; omega
  unfold Seg.changeSegment at h
  unfold Layout.changeSeg
  rw [if_neg hat]
  cases hact : s.active with
  | none =>
    rw [hact] at h
    simp only at h
    have hl : l.active = none := by rw [r.2, hact]; rfl
    rw [hl]
    exact open_sim inv r hact a ha h
  | some seg =>
    rw [hact] at h
    simp only at h
    have hl : l.active = some (toL seg) := by rw [r.2, hact]; rfl
    rw [hl]
    simp only
    by_cases c : a = seg.base ∧ seg.buf.isEmpty = true
    · rw [if_pos c] at h
      cases h
      have c' : a = (toL seg).base ∧ (toL seg).buf = [] := ⟨c.1, by simpa [toL] using c.2⟩
      rw [if_pos c']
      exact ⟨l, rfl, r, rfl, rfl⟩
    · rw [if_neg c] at h
      have c' : ¬ (a = (toL seg).base ∧ (toL seg).buf = []) := by
        intro hc; apply c; exact ⟨hc.1, by simpa [toL] using hc.2⟩
      rw [if_neg c']
      obtain ⟨l1, hc1, r1, e1, t1⟩ := close_sim inv r
      obtain ⟨cs1, cs2, cs3, _, _⟩ := Seg.close_spec inv
      rw [hc1]
      simp only
      cases hcs : Seg.closeSegment s with
      | mk s1 o1 =>
        rw [hcs] at h cs1 cs2 cs3 r1
        simp only at cs1 cs2 cs3 r1
        subst cs1
        simp only at h
        obtain ⟨l', h1, r', e', t'⟩ := open_sim cs2 r1 cs3 a ha h
        exact ⟨l', h1, r', e'.trans e1, t'.trans t1⟩

/-! ## appending (`write`) -/

theorem append_sim {s : Seg.State} {l : Layout.State} (inv : Seg.Inv s) (r : R s l) (d : Bytes) {seg : Seg.Active}
    (ha : s.active = some seg) (hfit : seg.buf.length + d.length ≤ seg.maxLen) :
    Layout.append l d = .ok { l with active := some (toL { seg with buf := seg.buf ++ d }) } ∧
    R { s with active := some { seg with buf := seg.buf ++ d } } { l with active := some (toL { seg with buf := seg.buf ++ d }) } := by
  have hl : l.active = some (toL seg) := by rw [r.2, ha]; rfl
  obtain ⟨a1, _, _, _⟩ := inv.2.1 seg ha
  refine ⟨?_, r.1, rfl⟩
  have h1 : ¬ (toL seg).maxLen < (toL seg).buf.length := by simp only [toL]; omega
  have h2 : d.length ≤ (toL seg).remaining := by simp only [toL, Layout.Active.remaining]; omega
  simp only [Layout.append, hl, h1, h2, if_true, if_false]
  rfl

/-! ## rewriting a placed statement -/

/-- what `Seg.rewrite` does to a placed statement, state by state -/
theorem rewrite_shape {s : Seg.State} (inv : Seg.Inv s) (addr : Nat) (d : Bytes) (hp : (addr, d.length) ∈ s.pending) :
    (∃ seg buf', s.active = some seg ∧ abs s.map addr = none ∧ seg.base ≤ addr ∧ addr ≤ seg.cur ∧
        addr + d.length ≤ seg.base + seg.buf.length ∧
        Seg.rewrite s addr d = ({ s with active := some { seg with buf := buf' } }, .ok) ∧ buf'.length = seg.buf.length ∧
        ∀ j, buf'[j]? = if addr - seg.base ≤ j ∧ j < addr - seg.base + d.length then d[j - (addr - seg.base)]?
          else seg.buf[j]?) ∨
    ((∀ k, addr ≤ k → k < addr + d.length → (abs s.map k).isSome = true) ∧
      (∀ seg, s.active = some seg → ¬ (abs s.map addr = none ∧ seg.base ≤ addr ∧ addr ≤ seg.cur)) ∧
      ∃ m', Seg.rewrite s addr d = ({ s with map := m' }, .ok) ∧ abs m' = Dict.put (abs s.map) addr d) := by
  have P : Seg.Placed s (addr, d.length) := inv.2.2 (addr, d.length) hp
  have hfind : ∃ hit, Map.find s.map addr .exact = .ok hit ∧ (hit.isNone = true ↔ abs s.map addr = none) := by
    rcases find_exact_spec inv.1 addr with ⟨_, hf, hn⟩ | ⟨j, sg, hj, _, hf, h1, h2⟩
    · exact ⟨none, hf, by simp [hn]⟩
    · refine ⟨_, hf, ?_⟩
      obtain ⟨a1, _⟩ := abs_of_idx inv.1 hj
      rw [a1 addr h1 h2, List.getElem?_eq_getElem (by omega)]
      simp
  obtain ⟨hit, hf, hhit⟩ := hfind
  by_cases hbr : ∃ seg, s.active = some seg ∧ (hit.isNone ∧ addr ≥ seg.base ∧ addr ≤ seg.cur)
  · left
    obtain ⟨seg, ha, hc⟩ := hbr
    obtain ⟨a1, a2, a3, a4⟩ := inv.2.1 seg ha
    have hrange : seg.base ≤ addr ∧ addr + d.length ≤ seg.base + seg.buf.length := by
      rcases P with h | ⟨sg, hs, h1, h2⟩
      · by_cases hd : d.length = 0
        · have hbase : seg.base ≤ u32Max := by unfold u32Max; omega
          have hcb := Seg.cur_bounds seg hbase
          have := hc.2.1; have := hc.2.2; omega
        · exfalso
          have h1 := h addr (Nat.le_refl _) (by show addr < addr + d.length; omega)
          rw [hhit.mp hc.1] at h1
          simp at h1
      · rw [ha] at hs; cases hs
        exact ⟨h1, h2⟩
    obtain ⟨buf', hw, hl, hg⟩ := Seg.writeAt_inplace seg addr d hrange.1 hrange.2 hc.2.2
    exact ⟨seg, buf', ha, hhit.mp hc.1, hrange.1, hc.2.2, hrange.2, Seg.rewrite_writeAt hf ha hc hw, hl, hg⟩
  · right
    have hn : ∀ seg, s.active = some seg → ¬ (hit.isNone ∧ addr ≥ seg.base ∧ addr ≤ seg.cur) :=
      fun seg ha hc => hbr ⟨seg, ha, hc⟩
    have H : ∀ k, addr ≤ k → k < addr + d.length → (abs s.map k).isSome = true := by
      rcases P with h | ⟨seg, ha, h1, h2⟩
      · exact h
      · intro k k1 k2
        exfalso
        apply hn seg ha
        obtain ⟨a1, a2, a3, a4⟩ := inv.2.1 seg ha
        have h1 : seg.base ≤ addr := h1
        have h2 : addr + d.length ≤ seg.base + seg.buf.length := h2
        refine ⟨hhit.mpr (a4 addr h1 (by omega)), h1, ?_⟩
        unfold Seg.Active.cur u32Max
        omega
    obtain ⟨m', hput, _, habs⟩ := Seg.put_zero inv addr d H
    refine ⟨H, fun seg ha hc => hn seg ha ⟨hhit.mpr hc.1, hc.2.1, hc.2.2⟩, m', Seg.rewrite_viaMap hf hn hput, habs⟩

/-- a rewrite of a placed statement on both machines -/
theorem rewrite_sim {s : Seg.State} {l : Layout.State} (inv : Seg.Inv s) (r : R s l) (addr : Nat) (d : Bytes)
    (hp : (addr, d.length) ∈ s.pending) :
    (Seg.rewrite s addr d).2 = .ok ∧
    ∃ l', Layout.rewrite l addr d = .ok l' ∧ R (Seg.rewrite s addr d).1 l' ∧ l'.env = l.env ∧ l'.tasks = l.tasks := by
  rcases rewrite_shape inv addr d hp with ⟨seg, buf', ha, hnone, hb, hc, hfit, hrw, hlen, hg⟩ | ⟨H, hnot, m', hrw, habs⟩
  · -- in place, in the active buffer
    rw [hrw]
    refine ⟨rfl, ?_⟩
    obtain ⟨a1, a2, _, _⟩ := inv.2.1 seg ha
    have hl : l.active = some (toL seg) := by rw [r.2, ha]; rfl
    have hhas : l.closed.has addr = false := by rw [has_eq r, hnone]; rfl
    have hcur : (toL seg).curr = seg.cur := cur_eq seg (by omega)
    have hbuf : Layout.overwrite seg.buf (addr - seg.base) d = buf' := by
      apply List.ext_getElem?
      intro j
      rw [Layout.getElem?_overwrite _ _ _ (by omega), hg]
    refine ⟨{ l with active := some { toL seg with buf := buf' } }, ?_, ⟨r.1, rfl⟩, rfl, rfl⟩
    unfold Layout.rewrite
    rw [hhas, hl]
    simp only [Bool.false_eq_true, if_false]
    have c1 : (toL seg).base ≤ addr ∧ addr ≤ (toL seg).curr := ⟨hb, by rw [hcur]; exact hc⟩
    rw [if_pos c1]
    have c2 : ¬ (toL seg).buf.length < addr - (toL seg).base := by simp only [toL]; omega
    have c3 : ¬ (toL seg).buf.length - (addr - (toL seg).base) < d.length := by simp only [toL]; omega
    simp only [c2, c3, if_false]
    simp only [toL, hbuf]
  · -- through the closed map
    rw [hrw]
    refine ⟨rfl, ?_⟩
    have rmap : ∀ c : Layout.Img, (∀ k, c.get k = (l.closed.put addr d).get k) →
        ∀ k, abs m' k = c.get k := by
      intro c hc k
      rw [habs, put_apply, hc, Layout.get_put, r.1]
    by_cases hd : d = []
    · subst hd
      have rsame : ∀ k, abs m' k = l.closed.get k := rmap l.closed (fun k => by rw [Layout.put_nil])
      unfold Layout.rewrite
      by_cases hh : l.closed.has addr = true
      · rw [if_pos hh]
        simp only [List.length_nil, Layout.Img.hasRange, if_true]
        exact ⟨_, rfl, ⟨fun k => by rw [Layout.put_nil]; exact rsame k, r.2⟩, rfl, rfl⟩
      · rw [if_neg hh]
        cases hact : s.active with
        | none =>
          have hl : l.active = none := by rw [r.2, hact]; rfl
          rw [hl]
          simp only [List.length_nil, if_true]
          exact ⟨l, rfl, ⟨rsame, by rw [hl]; rfl⟩, rfl, rfl⟩
        | some seg =>
          obtain ⟨a1, a2, _, _⟩ := inv.2.1 seg hact
          have hl : l.active = some (toL seg) := by rw [r.2, hact]; rfl
          rw [hl]
          simp only
          by_cases c1 : (toL seg).base ≤ addr ∧ addr ≤ (toL seg).curr
          · rw [if_pos c1]
            have hcur : (toL seg).curr = seg.cur := cur_eq seg (by omega)
            have hbase : seg.base ≤ u32Max := by unfold u32Max; omega
            have hcb := Seg.cur_bounds seg hbase
            have c2 : ¬ (toL seg).buf.length < addr - (toL seg).base := by
              have := c1.2; rw [hcur] at this; simp only [toL] at c1 ⊢; omega
            simp only [c2, List.length_nil, Nat.not_lt_zero, if_false, Layout.overwrite_nil]
            exact ⟨_, rfl, ⟨rsame, rfl⟩, rfl, rfl⟩
          · rw [if_neg c1]
            simp only [List.length_nil, if_true]
            exact ⟨l, rfl, ⟨rsame, by rw [hl]; rfl⟩, rfl, rfl⟩
    · have hpos : 0 < d.length := List.length_pos_iff.mpr hd
      have hh : l.closed.has addr = true := by rw [has_eq r]; exact H addr (Nat.le_refl _) (by omega)
      have hr : l.closed.hasRange addr d.length = true := by
        rw [Layout.hasRange_iff]; intro k k1 k2; rw [has_eq r]; exact H k k1 k2
      refine ⟨{ l with closed := l.closed.put addr d }, ?_, ⟨rmap _ (fun _ => rfl), r.2⟩, rfl, rfl⟩
      unfold Layout.rewrite
      rw [if_pos hh, if_pos hr]

/-! ## whole histories of region operations

`step_sim`: one operation of `Seg` that does not end in a diagnostic, against the operation of `Layout` that the
statement kinds of C05 perform (`.addr` / append of bytes / the rewrite of a task / `close_segment`). -/

/-- the region operations of the layout core, by the `Seg` operation they match -/
def lstep (l : Layout.State) : Seg.Op → Except Layout.Fail Layout.State
  | .select a => Layout.changeSeg l a
  | .append d => Layout.append l d
  | .place d => Layout.append l d
  | .align n =>
    match l.active with
    | none => .error .inactive
    | some a =>
      let off := (a.base + a.buf.length) % n
      if off = 0 then .ok l else Layout.append l (Layout.placeholder (n - off))
  | .rewrite addr d => Layout.rewrite l addr d
  | .close => Layout.closeSeg l

theorem step_sim {s : Seg.State} {l : Layout.State} (inv : Seg.Inv s) (r : R s l) (op : Seg.Op) (wf : Seg.Op.wf s op)
    {s' : Seg.State} {o : Seg.Out} (h : Seg.step s op = (s', o)) (hok : ∀ e, o ≠ .diag e) :
    ∃ l', lstep l op = .ok l' ∧ R s' l' ∧ l'.env = l.env ∧ l'.tasks = l.tasks := by
  cases op with
  | select a =>
    have hnp : o ≠ .panic := by
      have := (Trion.Seg.step_nonrewrite inv (.select a) wf (fun _ _ e => by cases e)).1
      rw [h] at this; exact this
    have : o = .ok := by
      cases o with
      | ok => rfl
      | placed x =>
        exfalso
        have hs := Seg.select_spec inv a wf
        have e : Seg.changeSegment s a = (s', .placed x) := h
        rw [e] at hs
        rcases hs.2.2.2 with ⟨_, h2⟩ | ⟨_, h2, _⟩ <;> cases h2
      | diag e => exact absurd rfl (hok e)
      | panic => exact absurd rfl hnp
    subst this
    exact select_sim inv r a wf h
  | close =>
    have e : Seg.closeSegment s = (s', o) := h
    have := close_sim inv r
    rw [e] at this
    exact this
  | rewrite addr d =>
    have e : Seg.rewrite s addr d = (s', o) := h
    have := (rewrite_sim inv r addr d wf).2
    rw [e] at this
    exact this
  | append d =>
    cases ha : s.active with
    | none => simp only [Seg.step, ha] at h; cases h; exact absurd rfl (hok _)
    | some seg =>
      rcases Seg.write_spec (inv.2.1 seg ha) d with ⟨f1, f2⟩ | ⟨_, f2⟩
      · simp only [Seg.step, ha, f2] at h
        cases h
        exact ⟨_, (append_sim inv r d ha f1).1, (append_sim inv r d ha f1).2, rfl, rfl⟩
      · simp only [Seg.step, ha, f2] at h; cases h; exact absurd rfl (hok _)
  | place d =>
    cases ha : s.active with
    | none => simp only [Seg.step, ha] at h; cases h; exact absurd rfl (hok _)
    | some seg =>
      rcases Seg.write_spec (inv.2.1 seg ha) d with ⟨f1, f2⟩ | ⟨_, f2⟩
      · simp only [Seg.step, ha, f2] at h
        cases h
        exact ⟨_, (append_sim inv r d ha f1).1, ⟨(append_sim inv r d ha f1).2.1, rfl⟩, rfl, rfl⟩
      · simp only [Seg.step, ha, f2] at h; cases h; exact absurd rfl (hok _)
  | align n =>
    cases ha : s.active with
    | none => simp only [Seg.step, ha] at h; cases h; exact absurd rfl (hok _)
    | some seg =>
      have hl : l.active = some (toL seg) := by rw [r.2, ha]; rfl
      simp only [Seg.step, ha] at h
      simp only [lstep, hl, toL]
      by_cases c : (seg.base + seg.buf.length) % n = 0
      · simp only [c, if_true] at h ⊢
        cases h
        exact ⟨l, rfl, r, rfl, rfl⟩
      · simp only [c, if_false] at h ⊢
        have hrem : seg.remaining = some (seg.maxLen - seg.buf.length) := by
          unfold Seg.Active.remaining; rw [if_pos (inv.2.1 seg ha).1]
        rw [hrem] at h
        simp only at h
        by_cases c2 : n - (seg.base + seg.buf.length) % n ≤ seg.maxLen - seg.buf.length
        · rw [if_pos c2] at h
          have hfit : seg.buf.length + (List.replicate (n - (seg.base + seg.buf.length) % n) (0xBE : UInt8)).length ≤ seg.maxLen := by
            have := (inv.2.1 seg ha).1
            simp only [List.length_replicate]; omega
          rcases Seg.write_spec (inv.2.1 seg ha) (List.replicate (n - (seg.base + seg.buf.length) % n) 0xBE) with ⟨_, f2⟩ | ⟨f1, _⟩
          · rw [f2] at h
            cases h
            exact ⟨_, (append_sim inv r _ ha hfit).1, (append_sim inv r _ ha hfit).2, rfl, rfl⟩
          · omega
        · rw [if_neg c2] at h; cases h; exact absurd rfl (hok _)

end Trion.SegLayout
