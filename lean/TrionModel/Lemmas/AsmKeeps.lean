import TrionModel.Lemmas.AsmLoud
/-!
# `Trion.Asm`: a recorded diagnostic is never removed (membership form of `AsmLoud`)

`Keeps st st'`: every diagnostic of `st` is still a diagnostic of `st'`.  Ported lemma by lemma from `AsmLoud.lean`
(`Grew` counts; `Keeps` tracks membership), through statements, `.include`, tasks, both task loops and `finalize`.
-/
namespace Trion.Asm
open Trion

def Keeps (st st' : St) : Prop := ∀ d ∈ st.errors, d ∈ st'.errors

theorem Keeps.refl (st : St) : Keeps st st := fun _ h => h
theorem Keeps.trans {a b c : St} (h1 : Keeps a b) (h2 : Keeps b c) : Keeps a c := fun d h => h2 d (h1 d h)
theorem keeps_of_eq {st st' : St} (h : st'.errors = st.errors) : Keeps st st' := fun d hd => by rw [h]; exact hd
theorem keeps_pushIn (st : St) (f : Bytes) (l c : Nat) (k : Kind) : Keeps st (st.pushIn f l c k) :=
  fun d hd => List.mem_cons_of_mem _ hd
theorem keeps_push (st : St) (env : Env) (l c : Nat) (k : Kind) : Keeps st (st.push env l c k) :=
  keeps_pushIn st env.curName l c k

macro "keeps_close" : tactic =>
  `(tactic| first
    | (intro d hd; simp_all [Keeps, St.push, St.pushIn]; done)
    | (simp_all [Keeps, St.push, St.pushIn]; done))

theorem writeData_keeps {d d' : DataExpr} {st st' : St} {bytes : Bytes} {r : Res}
    (h : d.writeData st bytes = .ok (d', st', r)) : Keeps st st' := by
  unfold DataExpr.writeData at h
  repeat' split at h
  all_goals (first | (cases h; done) | (cases h; keeps_close))

theorem writer_keeps {d d' : DataExpr} {st st' : St} {r : Res}
    (h : d.writer st = .ok (d', st', r)) : Keeps st st' := by
  unfold DataExpr.writer at h
  repeat' split at h
  all_goals (first | exact writeData_keeps h | (cases h; keeps_close))

theorem apply_keeps {d d' : DataExpr} {env : Env} {st st' : St} {loc : Bool} {op : Op}
    (h : d.apply env st loc = .ok (d', st', op)) : Keeps st st' := by
  unfold DataExpr.apply at h
  repeat' split at h
  all_goals (first | (cases h; done) | skip)
  all_goals (try (have w := writer_keeps ‹DataExpr.writer _ _ = _›))
  all_goals (cases h; keeps_close)

theorem duDirective_keeps {du : DU} {env : Env} {st : St} {line col : Nat} {args : List Arg} :
    ∀ st' r, duDirective du env st line col args = .ok (st', r) → Keeps st st' := by
  unfold duDirective
  splits
  all_goals (intro st' r h)
  all_goals (first | (cases h; done) | skip)
  all_goals (try (have w1 := apply_keeps ‹DataExpr.apply _ _ _ _ = _›))
  all_goals (try (have w2 := writeData_keeps ‹DataExpr.writeData _ _ _ = _›))
  all_goals (try (have w3 := addTask_errs ‹DataExpr.schedule _ _ _ = _›))
  all_goals (cases h; keeps_close)

theorem runDataTask_keeps {d : DataExpr} {g : Bool} {env : Env} {st : St} :
    ∀ st' r, runDataTask d g env st = .ok (st', r) → Keeps st st' := by
  unfold runDataTask
  splits
  all_goals (intro st' r h)
  all_goals (first | (cases h; done) | skip)
  all_goals (try (have w1 := apply_keeps ‹DataExpr.apply _ _ _ _ = _›))
  all_goals (try (have w3 := addTask_errs ‹DataExpr.schedule _ _ _ = _›))
  all_goals (cases h; keeps_close)

theorem assembleI_keeps {i : ArmInstr} {env : Env} {st : St} {loc : Bool} :
    ∀ i' st' op, i.assemble env st loc = .ok (i', st', op) → Keeps st st' := by
  unfold ArmInstr.assemble
  splits
  all_goals (intro i' st' op h)
  all_goals (first | (cases h; done) | skip)
  all_goals (cases h; keeps_close)

theorem writeInstr_keeps {enc : Encoder} {i : ArmInstr} {st : St} {df : Bool} :
    ∀ i' st' r, i.writeInstr enc st df = .ok (i', st', r) → Keeps st st' := by
  unfold ArmInstr.writeInstr
  splits
  all_goals (intro i' st' r h)
  all_goals (first | (cases h; done) | skip)
  all_goals (cases h; keeps_close)

theorem instruction_keeps {enc : Encoder} {env : Env} {st : St} {line col : Nat} {name : Bytes} {args : List Arg} :
    ∀ st' r, instruction enc env st line col name args = .ok (st', r) → Keeps st st' := by
  unfold instruction
  splits
  all_goals (intro st' r h)
  all_goals (first | (cases h; done) | skip)
  all_goals (try (have w1 := assembleI_keeps _ _ _ ‹ArmInstr.assemble _ _ _ _ = _›))
  all_goals (try (have w2 := writeInstr_keeps _ _ _ ‹ArmInstr.writeInstr _ _ _ _ = _›))
  all_goals (try (have w3 := addTask_errs ‹ArmInstr.schedule _ _ _ = _›))
  all_goals (cases h; keeps_close)

theorem runInstrTask_keeps {enc : Encoder} {i : ArmInstr} {g : Bool} {env : Env} {st : St} :
    ∀ st' r, runInstrTask enc i g env st = .ok (st', r) → Keeps st st' := by
  unfold runInstrTask
  splits
  all_goals (intro st' r h)
  all_goals (first | (cases h; done) | skip)
  all_goals (try (have w1 := assembleI_keeps _ _ _ ‹ArmInstr.assemble _ _ _ _ = _›))
  all_goals (try (have w2 := writeInstr_keeps _ _ _ ‹ArmInstr.writeInstr _ _ _ _ = _›))
  all_goals (try (have w3 := addTask_errs ‹ArmInstr.schedule _ _ _ = _›))
  all_goals (cases h; keeps_close)

theorem runGlobalCopy_keeps {name : Bytes} {line col : Nat} {env : Env} {st : St} :
    ∀ st' r, runGlobalCopy name line col env st = .ok (st', r) → Keeps st st' := by
  unfold runGlobalCopy
  splits
  all_goals (intro st' r h)
  all_goals (first | (cases h; done) | skip)
  all_goals (try (have w1 := insertConstant_errs ‹insertConstant _ _ _ _ = _›))
  all_goals (cases h; keeps_close)

theorem globalDirective_keeps {g : GDir} {env : Env} {st : St} {line col : Nat} {args : List Arg} :
    ∀ st' r, globalDirective g env st line col args = .ok (st', r) → Keeps st st' := by
  unfold globalDirective
  splits
  all_goals (intro st' r h)
  all_goals (first | (cases h; done) | skip)
  all_goals (try (have w1 := insertConstant_errs ‹insertConstant _ _ _ _ = _›))
  all_goals (try (have w2 := deferConstant_errs ‹deferConstant _ _ Realm.global = _›))
  all_goals (try (have w3 := deferConstant_errs ‹deferConstant _ _ Realm.loc = _›))
  all_goals (try (have w5 := deferConstant_errs ‹deferConstant _ _ _ = _›))
  all_goals (try (have w4 := addTask_errs ‹addTask _ _ _ = _›))
  all_goals (cases h; keeps_close)

theorem evalStrict_keeps {dir : String} {env : Env} {st st' : St} {line col : Nat} {a : Arg} {r : Res}
    (h : evalStrict dir env st line col a = .ok (.error (st', r))) : Keeps st st' := by
  unfold evalStrict at h
  repeat' split at h
  all_goals (first | (cases h; done) | skip)
  all_goals (cases h; keeps_close)

theorem addrDirective_keeps {env : Env} {st : St} {line col : Nat} {args : List Arg} :
    ∀ st' r, addrDirective env st line col args = .ok (st', r) → Keeps st st' := by
  unfold addrDirective
  splits
  all_goals (intro st' r h)
  all_goals (first | (cases h; done) | skip)
  all_goals (try (have w1 := evalStrict_keeps ‹evalStrict _ _ _ _ _ _ = _›))
  all_goals (cases h; keeps_close)

theorem alignDirective_keeps {env : Env} {st : St} {line col : Nat} {args : List Arg} :
    ∀ st' r, alignDirective env st line col args = .ok (st', r) → Keeps st st' := by
  unfold alignDirective
  splits
  all_goals (intro st' r h)
  all_goals (first | (cases h; done) | skip)
  all_goals (try (have w1 := evalStrict_keeps ‹evalStrict _ _ _ _ _ _ = _›))
  all_goals (cases h; keeps_close)

theorem constDirective_keeps {env : Env} {st : St} {line col : Nat} {args : List Arg} :
    ∀ st' r, constDirective env st line col args = .ok (st', r) → Keeps st st' := by
  unfold constDirective
  splits
  all_goals (intro st' r h)
  all_goals (first | (cases h; done) | skip)
  all_goals (try (have w1 := evalStrict_keeps ‹evalStrict _ _ _ _ _ _ = _›))
  all_goals (try (have w2 := insertConstant_errs ‹insertConstant _ _ _ _ = _›))
  all_goals (cases h; keeps_close)

theorem appendData_keeps {dir : String} {env : Env} {st : St} {line col : Nat} {d : Bytes} :
    ∀ st' r, appendData dir env st line col d = .ok (st', r) → Keeps st st' := by
  unfold appendData
  splits
  all_goals (intro st' r h)
  all_goals (first | (cases h; done) | skip)
  all_goals (cases h; keeps_close)

theorem stringDirective_keeps {fs : Bytes → Option Bytes} {dir : String} {env : Env} {st : St} {line col : Nat}
    {args : List Arg} :
    ∀ st' r, stringDirective fs dir env st line col args = .ok (st', r) → Keeps st st' := by
  unfold stringDirective
  splits
  all_goals (first | exact appendData_keeps | skip)
  all_goals (intro st' r h)
  all_goals (first | (cases h; done) | skip)
  all_goals (cases h; keeps_close)

/-- what the recursive call of `.include` has to satisfy -/
def IncKeeps (inc : Inc) : Prop := ∀ env st data path st' r, inc env st data path = .ok (st', r) → Keeps st st'

theorem includeDirective_keeps {fs : Bytes → Option Bytes} {inc : Inc} (hinc : IncKeeps inc) {env : Env} {st : St}
    {line col : Nat} {args : List Arg} :
    ∀ st' r, includeDirective fs inc env st line col args = .ok (st', r) → Keeps st st' := by
  unfold includeDirective
  splits
  all_goals (intro st' r h)
  all_goals (first | (cases h; done) | skip)
  all_goals (try (have w1 := hinc _ _ _ _ _ _ ‹inc _ _ _ _ = _›))
  all_goals (cases h; keeps_close)

theorem directive_keeps {fs : Bytes → Option Bytes} {inc : Inc} (hinc : IncKeeps inc) {env : Env} {st : St}
    {line col : Nat} {name : Bytes} {args : List Arg} :
    ∀ st' r, directive fs inc env st line col name args = .ok (st', r) → Keeps st st' := by
  delta directive
  by_cases h0 : name = bytesOf "addr"
  · rw [if_pos h0]; exact addrDirective_keeps
  rw [if_neg h0]
  by_cases h1 : name = bytesOf "align"
  · rw [if_pos h1]; exact alignDirective_keeps
  rw [if_neg h1]
  by_cases h2 : name = bytesOf "const"
  · rw [if_pos h2]; exact constDirective_keeps
  rw [if_neg h2]
  by_cases h3 : name = bytesOf "du8"
  · rw [if_pos h3]; exact duDirective_keeps
  rw [if_neg h3]
  by_cases h4 : name = bytesOf "du16"
  · rw [if_pos h4]; exact duDirective_keeps
  rw [if_neg h4]
  by_cases h5 : name = bytesOf "du32"
  · rw [if_pos h5]; exact duDirective_keeps
  rw [if_neg h5]
  by_cases h6 : name = bytesOf "dhex"
  · rw [if_pos h6]; exact stringDirective_keeps
  rw [if_neg h6]
  by_cases h7 : name = bytesOf "dstr"
  · rw [if_pos h7]; exact stringDirective_keeps
  rw [if_neg h7]
  by_cases h8 : name = bytesOf "dfile"
  · rw [if_pos h8]; exact stringDirective_keeps
  rw [if_neg h8]
  by_cases h9 : name = bytesOf "global"
  · rw [if_pos h9]; exact globalDirective_keeps
  rw [if_neg h9]
  by_cases h10 : name = bytesOf "import"
  · rw [if_pos h10]; exact globalDirective_keeps
  rw [if_neg h10]
  by_cases h11 : name = bytesOf "export"
  · rw [if_pos h11]; exact globalDirective_keeps
  rw [if_neg h11]
  by_cases h12 : name = bytesOf "include"
  · rw [if_pos h12]; exact includeDirective_keeps hinc
  rw [if_neg h12]
  intro st' r h; cases h; keeps_close

theorem statement_keeps {fs : Bytes → Option Bytes} {enc : Encoder} {inc : Inc} (hinc : IncKeeps inc) {env : Env}
    {st : St} {el : Element} :
    ∀ st' r, statement fs enc inc env st el = .ok (st', r) → Keeps st st' := by
  unfold statement
  splits
  all_goals (first | exact directive_keeps hinc | exact instruction_keeps | skip)
  all_goals (intro st' r h)
  all_goals (first | (cases h; done) | skip)
  all_goals (try (have w1 := insertConstant_errs ‹insertConstant _ _ _ _ = _›))
  all_goals (cases h; keeps_close)

theorem doAssemble_keeps {fs : Bytes → Option Bytes} {enc : Encoder} {inc : Inc} (hinc : IncKeeps inc) {env : Env}
    (err : Option ParseErr) : ∀ (els : List Element) (st st' : St) (r : Res),
      doAssemble fs enc inc env els err st = .ok (st', r) → Keeps st st' := by
  intro els
  induction els with
  | nil =>
    intro st st' r h
    cases err <;> simp only [doAssemble] at h <;> (cases h; keeps_close)
  | cons el els ih =>
    intro st st' r h
    simp only [doAssemble] at h
    split at h
    · exact (statement_keeps hinc _ _ ‹statement _ _ _ _ _ _ = _›).trans (ih _ _ _ h)
    · have w1 := statement_keeps hinc _ _ ‹statement _ _ _ _ _ _ = _›
      cases h; exact w1
    · cases h

theorem runTask_keeps {enc : Encoder} {env : Env} {st : St} {t : Task} :
    ∀ st' r, runTask enc env st t = .ok (st', r) → Keeps st st' := by
  cases t with
  | data d g => exact runDataTask_keeps
  | instr i g => exact runInstrTask_keeps
  | globalCopy n l c => exact runGlobalCopy_keeps

theorem localRound_keeps {enc : Encoder} {env : Env} : ∀ (ts : List Task) (st : St) (res : Res) (st' : St) (r : Res),
    localRound enc env ts st res = .ok (st', r) → Keeps st st' := by
  intro ts
  induction ts with
  | nil => intro st res st' r h; simp only [localRound] at h; cases h; exact Keeps.refl _
  | cons t ts ih =>
    intro st res st' r h
    simp only [localRound] at h
    split at h
    · exact (runTask_keeps _ _ ‹runTask _ _ _ _ = _›).trans (ih _ _ _ _ h)
    · have w1 := runTask_keeps _ _ ‹runTask _ _ _ _ = _›
      split at h
      · cases h; exact w1
      · exact w1.trans (ih _ _ _ _ h)
    · cases h

theorem localLoop_keeps {enc : Encoder} {env : Env} : ∀ (n : Nat) (ts : List Task) (st : St) (res : Res) (st' : St) (r : Res),
    localLoop enc env n ts st res = .ok (st', r) → Keeps st st' := by
  intro n
  induction n with
  | zero => intro ts st res st' r h; simp [localLoop] at h
  | succ n ih =>
    intro ts st res st' r h
    simp only [localLoop] at h
    split at h
    · cases h; exact Keeps.refl _
    · split at h
      · rename_i st1 res1 hr
        have w1 := localRound_keeps _ _ _ _ _ hr
        split at h
        · cases h
        · split at h
          · cases h; exact w1
          · exact fun d hd => (ih _ _ _ _ _ h) d (w1 d hd)
      · cases h

theorem fileBody_keeps {fs : Bytes → Option Bytes} {enc : Encoder} {inc : Inc} (hinc : IncKeeps inc) {env : Env}
    {data : Bytes} {st : St} : ∀ st' r, fileBody fs enc inc env data st = .ok (st', r) → Keeps st st' := by
  intro st' r h
  unfold fileBody at h
  split at h
  · split at h
    · rename_i st3 res hd
      have w1 := doAssemble_keeps hinc _ _ _ _ _ hd
      split at h
      · cases h; exact w1
      · split at h
        · cases h
        · exact fun d hd => (localLoop_keeps _ _ _ _ _ _ h) d (w1 d hd)
    · cases h
  · cases h

theorem assembleFile_keeps (fs : Bytes → Option Bytes) (enc : Encoder) : ∀ fuel, IncKeeps (assembleFile fs enc fuel) := by
  intro fuel
  induction fuel with
  | zero => intro env st data path st' r h; simp [assembleFile] at h
  | succ fuel ih =>
    intro env st data path st' r h
    simp only [assembleFile, List.length_cons, Nat.add_one_ne_zero, if_false, ne_eq, not_true_eq_false] at h
    have he := enterFile_errs st
    generalize enterFile st = ef at h he
    obtain ⟨c, t, st2⟩ := ef
    simp only at h he
    split at h
    · rename_i st4 res hf
      have w := fileBody_keeps ih _ _ hf
      cases h
      intro d hd
      rw [leaveFile_errs]
      exact w d (by rw [he]; exact hd)
    · cases h

theorem globalRound_keeps {enc : Encoder} {env : Env} : ∀ (ts : List Task) (st st' : St) (abort : Bool),
    globalRound enc env ts st = .ok (st', abort) → Keeps st st' := by
  intro ts
  induction ts with
  | nil => intro st st' abort h; simp only [globalRound] at h; cases h; exact Keeps.refl _
  | cons t ts ih =>
    intro st st' abort h
    simp only [globalRound] at h
    split at h
    · rename_i st1 r hr
      have w1 := runTask_keeps _ _ hr
      split at h
      · cases h; exact w1
      · exact w1.trans (ih _ _ _ h)
    · cases h

theorem globalLoop_keeps {enc : Encoder} {env : Env} : ∀ (n : Nat) (ts : List Task) (st st' : St) (abort : Bool),
    globalLoop enc env n ts st = .ok (st', abort) → Keeps st st' := by
  intro n
  induction n with
  | zero => intro ts st st' abort h; simp [globalLoop] at h
  | succ n ih =>
    intro ts st st' abort h
    simp only [globalLoop] at h
    split at h
    · cases h; exact Keeps.refl _
    · split at h
      · rename_i st1 ab hr
        have w1 := globalRound_keeps _ _ _ _ hr
        split at h
        · cases h; exact w1
        · exact fun d hd => (ih _ _ _ _ h) d (w1 d hd)
      · cases h

theorem finalize_keeps {enc : Encoder} {env : Env} {st st' : St} {fin : Bool} (h : finalize enc env st = .ok (st', fin)) :
    Keeps st st' := by
  unfold finalize at h
  split at h
  · rename_i st2 abort hl
    cases h
    exact fun d hd => (globalLoop_keeps _ _ _ _ _ hl) d hd
  · cases h

/-- **a diagnostic recorded while the main file is processed is a diagnostic of the outcome**: if the body of the main
file ends in `st4`, every diagnostic of `st4` is in `o.diags`, and the run is not a success if there is one -/
theorem run_keeps (fs : Bytes → Option Bytes) (main : Bytes) (o : Outcome) (h : run fs main = .done o) :
    ∀ (data : Bytes), fs main = some data → ∀ st res, assembleFile fs encoder maxDepth Env.init St.init data main = .ok (st, res) →
      (∀ d ∈ st.errors, d ∈ o.diags) ∧ (st.errors ≠ [] → o.success = false) := by
  intro data hdata st res ha
  unfold run runWith at h
  simp only [hdata, ha] at h
  split at h
  · cases h
    exact ⟨fun d hd => by simpa using hd, fun _ => by simp [Outcome.success]⟩
  · cases h
  · split at h
    · rename_i st' fin hf
      cases h
      have w := finalize_keeps hf
      refine ⟨fun d hd => by simpa using w d hd, fun hne => ?_⟩
      have hfin := (finalize_grew hf).2
      have : st'.errors ≠ [] := by
        intro e
        cases hs : st.errors with
        | nil => exact hne hs
        | cons d0 tl =>
          have := w d0 (by simp [hs])
          rw [e] at this; cases this
      cases fin with
      | false => simp [Outcome.success]
      | true => exact absurd (hfin.mp rfl) this
    all_goals cases h

end Trion.Asm
