import TrionModel.Props.C12
/-!
# `Pos.of` separates offsets: a later offset has a different position when a character starts at the earlier one
-/
namespace Trion.Pos

/-- lexicographic order on (line, column) -/
def le (p q : Nat × Nat) : Prop := p.1 < q.1 ∨ (p.1 = q.1 ∧ p.2 ≤ q.2)

theorem le_refl (p : Nat × Nat) : le p p := .inr ⟨rfl, Nat.le_refl _⟩

theorem le_trans {p q r : Nat × Nat} (h1 : le p q) (h2 : le q r) : le p r := by
  unfold le at *
  omega

theorem le_step (p : Nat × Nat) (b : UInt8) : le p (step p b) := by
  unfold step le
  split
  · left; simp
  · split
    · right; exact ⟨rfl, Nat.le_refl _⟩
    · right; simp

theorem le_adv (p : Nat × Nat) (d : Bytes) : le p (adv p d) := by
  induction d generalizing p with
  | nil => exact le_refl p
  | cons b d ih => exact le_trans (le_step p b) (by simpa [adv] using ih (step p b))

/-- **positions separate offsets**: if a character that is not a line feed starts at offset `o` (the byte there is neither a
line feed nor a UTF-8 continuation byte), every later offset has a different (line, column) -/
theorem of_take_ne (text : Bytes) (o o' : Nat) (h : o < o') (ho' : o' ≤ text.length) (b : UInt8) (hb : text[o]? = some b)
    (hlf : (b.toNat == 10) = false) (hc : isCont b = false) : Pos.of (text.take o) ≠ Pos.of (text.take o') := by
  have hsplit : text.take o' = text.take o ++ b :: (text.take o').drop (o + 1) := by
    have h1 : (text.take o').take o = text.take o := by rw [List.take_take]; congr 1; omega
    have hlen : o < (text.take o').length := by simp only [List.length_take]; omega
    have h2 : (text.take o')[o]? = some b := by rw [List.getElem?_take]; simp [h, hb]
    have hbe : (text.take o')[o] = b := by
      rw [List.getElem?_eq_getElem hlen] at h2; exact Option.some.inj h2
    have h3 := List.take_append_drop o (text.take o')
    rw [List.drop_eq_getElem_cons hlen, hbe, h1] at h3
    exact h3.symm
  rw [hsplit, of_compose]
  have hst : step (Pos.of (text.take o)) b = ((Pos.of (text.take o)).1, (Pos.of (text.take o)).2 + 1) := by
    simp [step, hlf, hc]
  have hle := le_adv (step (Pos.of (text.take o)) b) ((text.take o').drop (o + 1))
  simp only [adv, List.foldl_cons] at hle ⊢
  rw [hst] at hle ⊢
  intro e
  rw [← e] at hle
  unfold le at hle
  simp at hle
  omega

end Trion.Pos
