import TrionModel.Lemmas.TriasPad
import TrionModel.Lemmas.MapCount
/-!
The boot2 checksum step replayed on the `MemoryMap` model (`bootMap`, Model/TriasPad.lean) is `bootCrc`:
`bootMap_eq`.
-/
namespace Trion.Trias
open Trion.Uf2 Trion.Map

/-- the clipping `iter_range` applies to a segment meeting 0x10000000..=0x100000FF -/
def clipBoot (s : Seg) : (Nat × Nat) × List UInt8 :=
  ((max s.1 0x10000000, min (segLast s) 0x100000FF),
    (s.2.take (min (segLast s) 0x100000FF + 1 - s.1)).drop (max s.1 0x10000000 - s.1))

def crcOcc (q : List Seg) : Bool := (List.range 4).any fun i => (lookup q (0x100000FC + i)).isSome

theorem crcOcc_true_iff (q : List Seg) :
    crcOcc q = true ↔ ∃ x, 0x100000FC ≤ x ∧ x ≤ 0x100000FF ∧ (lookup q x).isSome = true := by
  unfold crcOcc
  simp only [List.any_eq_true, List.mem_range]
  constructor
  · rintro ⟨i, hi, h⟩; exact ⟨0x100000FC + i, by omega, by omega, h⟩
  · rintro ⟨x, h1, h2, h⟩
    exact ⟨x - 0x100000FC, by omega, by rw [show 0x100000FC + (x - 0x100000FC) = x by omega]; exact h⟩

theorem boot_idx_d (f B i tl dl : Nat) (h1 : f ≤ B + i) (h3 : i < tl) :
    max f B - f + (i - min (max f B - B) tl) = B + i - f := by omega

theorem boot_idx_t (f B i tl dl : Nat) (h1 : f + dl ≤ B + i) (h2 : B ≤ f + dl - 1) (h3 : 0 < dl) (h4 : f + dl - 1 - B < tl) :
    f + dl - 1 - B + 1 + (i - (min (max f B - B) tl + (dl - (max f B - f)))) = i := by omega

set_option maxRecDepth 4000 in
theorem bootFill_spec (q : Segs) : ∀ (l : Nat) (temp : List UInt8), Ok l q → temp.length = 252 →
    if crcOcc q = true then bootFill ((q.filter (meets 0x10000000 0x100000FF)).map clipBoot) temp = .error .refuse
    else ∃ temp', bootFill ((q.filter (meets 0x10000000 0x100000FF)).map clipBoot) temp = .ok temp' ∧
      temp'.length = 252 ∧ ∀ i, i < 252 → temp'[i]? =
        match lookup q (0x10000000 + i) with
        | some v => some v
        | none => temp[i]? := by
  induction q with
  | nil =>
    intro l temp _ hl
    rw [if_neg (by decide)]
    exact ⟨temp, rfl, hl, fun i _ => rfl⟩
  | cons s r ih =>
    obtain ⟨f, d⟩ := s
    intro l temp ok hl
    have hdl : 0 < d.length := List.length_pos_iff.mpr ok.2.1
    have okr := ok.2.2.2
    have hbelow : ∀ x, x < f + d.length + 1 → lookup r x = none :=
      fun x hx => lookup_none_below (normAbove_of_ok okr) hx
    by_cases hm : meets 0x10000000 0x100000FF (f, d) = true
    · have hm' : f ≤ 0x100000FF ∧ 0x10000000 ≤ f + d.length - 1 := by
        unfold meets at hm
        exact of_decide_eq_true hm
      rw [List.filter_cons_of_pos hm, List.map_cons]
      by_cases hc : f + d.length - 1 ≥ 0x100000FC
      · -- this segment reaches the checksum word
        have hocc : crcOcc ((f, d) :: r) = true := by
          rw [crcOcc_true_iff]
          refine ⟨max f 0x100000FC, by omega, by omega, ?_⟩
          rw [lookup_in f d r _ (by omega)]; rfl
        rw [if_pos hocc]
        show bootFill (((max f 0x10000000, min (f + d.length - 1) 0x100000FF), _) :: _) temp = _
        rw [bootFill, if_pos (by omega)]
      · -- entirely below the checksum word: copied into `temp`
        have hsame' : crcOcc ((f, d) :: r) = crcOcc r := by
          apply Bool.eq_iff_iff.mpr
          rw [crcOcc_true_iff, crcOcc_true_iff]
          constructor
          · rintro ⟨x, h1, h2, h⟩
            rw [lookup_cons, if_neg (by omega)] at h
            exact ⟨x, h1, h2, h⟩
          · rintro ⟨x, h1, h2, h⟩
            refine ⟨x, h1, h2, ?_⟩
            rw [lookup_cons, if_neg (by omega)]; exact h
        have hdata : (d.take (min (f + d.length - 1) 0x100000FF + 1 - f)).drop (max f 0x10000000 - f) =
            d.drop (max f 0x10000000 - f) := by
          rw [List.take_of_length_le (by omega)]
        have hstep : bootFill (clipBoot (f, d) :: (r.filter (meets 0x10000000 0x100000FF)).map clipBoot) temp =
            bootFill ((r.filter (meets 0x10000000 0x100000FF)).map clipBoot)
              (temp.take (max f 0x10000000 - 0x10000000) ++ d.drop (max f 0x10000000 - f) ++
                temp.drop (f + d.length - 1 - 0x10000000 + 1)) := by
          show bootFill (((max f 0x10000000, min (f + d.length - 1) 0x100000FF),
            (d.take (min (f + d.length - 1) 0x100000FF + 1 - f)).drop (max f 0x10000000 - f)) :: _) temp = _
          rw [hdata, bootFill, if_neg (by omega), if_neg (by omega)]
          simp only
          rw [if_neg (by omega), if_neg (by rw [List.length_drop]; omega),
            show min (f + d.length - 1) 0x100000FF = f + d.length - 1 by omega]
        rw [hstep, hsame']
        have hl1 : (temp.take (max f 0x10000000 - 0x10000000) ++ d.drop (max f 0x10000000 - f) ++
            temp.drop (f + d.length - 1 - 0x10000000 + 1)).length = 252 := by
          simp only [List.length_append, List.length_take, List.length_drop]; omega
        have := ih _ _ okr hl1
        by_cases ho : crcOcc r = true
        · rw [if_pos ho] at this ⊢; exact this
        · rw [if_neg ho] at this ⊢
          obtain ⟨temp', h1, h2, h3⟩ := this
          refine ⟨temp', h1, h2, fun i hi => ?_⟩
          rw [h3 i hi, lookup_cons]
          by_cases hin : f ≤ 0x10000000 + i ∧ 0x10000000 + i < f + d.length
          · have hd : d[0x10000000 + i - f]? = some (d[0x10000000 + i - f]'(by omega)) :=
              List.getElem?_eq_getElem (by omega)
            rw [if_pos hin, hbelow _ (by omega)]
            simp only
            rw [hd]
            simp only
            rw [List.getElem?_append_left (by simp only [List.length_append, List.length_take, List.length_drop]; omega),
              List.getElem?_append_right (by simp only [List.length_take]; omega), List.getElem?_drop, ← hd]
            refine congrArg (fun k => d[k]?) ?_
            simp only [List.length_take]
            exact boot_idx_d f 0x10000000 i temp.length d.length hin.1 (by omega)
          · rw [if_neg hin]
            cases lookup r (0x10000000 + i) with
            | some v => rfl
            | none =>
              simp only
              by_cases hlt : 0x10000000 + i < f
              · rw [List.append_assoc, List.getElem?_append_left (by simp only [List.length_take]; omega),
                  List.getElem?_take_of_lt (by omega)]
              · rw [List.getElem?_append_right (by simp only [List.length_append, List.length_take, List.length_drop]; omega),
                  List.getElem?_drop]
                refine congrArg (fun k => temp[k]?) ?_
                simp only [List.length_append, List.length_take, List.length_drop]
                exact boot_idx_t f 0x10000000 i temp.length d.length (by omega) hm'.2 hdl (by omega)
    · -- the segment does not meet the boot page
      have hm' : ¬ (f ≤ 0x100000FF ∧ 0x10000000 ≤ f + d.length - 1) := by
        unfold meets at hm
        exact of_decide_eq_false (Bool.eq_false_iff.mpr hm)
      rw [List.filter_cons_of_neg hm]
      have hl' : ∀ x, 0x10000000 ≤ x → x ≤ 0x100000FF → lookup ((f, d) :: r) x = lookup r x := by
        intro x h1 h2
        rw [lookup_cons, if_neg (by omega)]
      have hsame : crcOcc ((f, d) :: r) = crcOcc r := by
        apply Bool.eq_iff_iff.mpr
        rw [crcOcc_true_iff, crcOcc_true_iff]
        constructor
        · rintro ⟨x, h1, h2, h⟩
          rw [hl' x (by omega) h2] at h
          exact ⟨x, h1, h2, h⟩
        · rintro ⟨x, h1, h2, h⟩
          exact ⟨x, h1, h2, by rw [hl' x (by omega) h2]; exact h⟩
      rw [hsame]
      have := ih _ temp okr hl
      by_cases ho : crcOcc r = true
      · rw [if_pos ho] at this ⊢; exact this
      · rw [if_neg ho] at this ⊢
        obtain ⟨temp', h1, h2, h3⟩ := this
        exact ⟨temp', h1, h2, fun i hi => by rw [h3 i hi, hl' _ (by omega) (by omega)]⟩

/-- **The checksum step on the memory-map model is `bootCrc`**: same refusal, same resulting segment list, and
neither a panic site nor "Checksum write failed" is reachable. -/
theorem bootMap_eq (m : Segs) (inv : MInv m) :
    bootMap m = match bootCrc m with
      | .ok m1 => .ok m1
      | .error _ => .error .refuse := by
  have hfind : (Map.find m 0x10000000 .exact = .ok none ∧ (lookup m 0x10000000).isSome = false) ∨
      (∃ r, Map.find m 0x10000000 .exact = .ok (some r) ∧ (lookup m 0x10000000).isSome = true) := by
    rw [lookup_eq_abs]
    rcases find_exact_spec inv 0x10000000 with ⟨_, h1, h2⟩ | ⟨j, s, h1, _, h3, h4, h5⟩
    · exact Or.inl ⟨h1, by rw [h2]; rfl⟩
    · refine Or.inr ⟨_, h3, ?_⟩
      obtain ⟨a1, _⟩ := abs_of_idx inv h1
      rw [a1 _ h4 h5, List.getElem?_eq_getElem (by omega)]; rfl
  unfold bootMap bootCrc
  rcases hfind with ⟨hf, h0⟩ | ⟨r, hf, h0⟩
  · rw [hf, if_neg (by rw [h0]; decide)]
  · rw [hf, if_pos h0]
    simp only
    rw [iterRange_spec inv 0x10000000 0x100000FF (by decide) (by decide)]
    simp only
    have hspec := bootFill_spec m 0 (zeros 252) inv (by simp)
    change (if crcOcc m = true then bootFill ((m.filter (meets 0x10000000 0x100000FF)).map clipBoot) (zeros 252) = _ else _) at hspec
    by_cases ho : crcOcc m = true
    · rw [if_pos ho] at hspec
      have ho' : ((List.range 4).any fun i => (lookup m (0x100000FC + i)).isSome) = true := ho
      rw [if_pos ho']
      show (match bootFill ((m.filter (meets 0x10000000 0x100000FF)).map clipBoot) (zeros 252) with
        | .error e => _ | .ok temp => _) = _
      rw [hspec]
    · rw [if_neg ho] at hspec
      obtain ⟨temp', h1, h2, h3⟩ := hspec
      have ho' : ¬ ((List.range 4).any fun i => (lookup m (0x100000FC + i)).isSome) = true := ho
      rw [if_neg ho']
      show (match bootFill ((m.filter (meets 0x10000000 0x100000FF)).map clipBoot) (zeros 252) with
        | .error e => _ | .ok temp => _) = _
      rw [h1]
      simp only
      have htemp : temp' = bootBytes m := by
        apply List.ext_getElem?
        intro i
        by_cases hi : i < 252
        · rw [h3 i hi]
          unfold bootBytes
          rw [List.getElem?_map, List.getElem?_range hi]
          simp only [Option.map_some]
          cases lookup m (0x10000000 + i) with
          | some v => rfl
          | none =>
            simp only [zeros, Option.getD_none]
            rw [List.getElem?_replicate, if_pos hi]
        · rw [List.getElem?_eq_none (by omega), List.getElem?_eq_none (by simp [bootBytes]; omega)]
      rw [htemp]
      have hfree : ∀ x, 0x100000FC ≤ x → x < 0x100000FC + (le32 (crc32 (bootBytes m))).length → lookup m x = none := by
        intro x hx1 hx2
        rw [le32_length] at hx2
        cases hl : lookup m x with
        | none => rfl
        | some v =>
          exfalso; apply ho
          rw [crcOcc_true_iff]
          exact ⟨x, hx1, by omega, by rw [hl]; rfl⟩
      rw [insertMerge_eq_put m _ _ inv (by simp [le32]) (by rw [le32_length]; decide) hfree]

end Trion.Trias
