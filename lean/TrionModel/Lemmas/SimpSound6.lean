import TrionModel.Lemmas.SimpSound5
/-!
# Soundness of the simplifier, part 6: a constant result of `evaluate` is the checked value of the
expression (the converse direction needed by `eval_commutes`)
-/
namespace Trion.Simp
open Trion

/-- every literal of the tree is an `i64` -/
def litsOk : Arg → Bool
  | .const v => inI64 v
  | .bin _ l r => litsOk l && litsOk r
  | .neg a => litsOk a
  | .not a => litsOk a
  | _ => true

/-- every value in the constant table is an `i64` -/
def tableOk (lk : Bytes → Lookup) : Prop := ∀ s v, lk s = .found v → inI64 v = true

theorem mergeTree_not_const (op : BinOp) (l r : Arg) (c : Int) (hl : nb l = true)
    (hlr : ¬ (isC l = true ∧ isC r = true)) : isC (mergeTree op l r c) = false := by
  rw [mergeTree_eq]
  cases hcr : cval r with
  | none => rfl
  | some cr =>
    simp only [lTree]
    cases hcl : cval l with
    | some cl => exact (hlr ⟨cval_some_isC hcl, cval_some_isC hcr⟩).elim
    | none => simp only; rw [(setC_nb op c l hl).2]; exact cval_none_iff.1 hcl

theorem merge_not_const (op : BinOp) (l r : Arg) (hl : nb l = true) (hr : nb r = true)
    (hlr : ¬ (isC l = true ∧ isC r = true)) (c : Bool) (a' : Arg) (he : merge op l r = .ok (c, a')) :
    isC a' = false := by
  have hb : nb (.bin op l r) = true := nb_bin.2 ⟨hl, hr, hlr⟩
  unfold merge at he
  cases hL : mergeL op l with
  | panic => simp [hL] at he
  | none =>
    cases hR : mergeR op r with
    | panic => simp [hL, hR] at he
    | none => simp only [hL, hR] at he; exact (neutralizeRaw_nb hb he).2
    | found c s => simp only [hL, hR] at he; exact (neutralizeRaw_nb hb he).2
  | found c1 s1 =>
    cases hR : mergeR op r with
    | panic => simp [hL, hR] at he
    | none => simp only [hL, hR] at he; exact (neutralizeRaw_nb hb he).2
    | found c2 s2 =>
      simp only [hL, hR] at he
      cases hc : combine op s1 s2 c1 c2 with
      | error k => simp [hc] at he
      | ok cc =>
        simp only [hc] at he
        cases hn : neutralize (mergeTree op l r cc) with
        | panic => simp [hn] at he
        | err e => simp [hn] at he
        | ok p =>
          obtain ⟨c3, a3⟩ := p
          simp only [hn, Res.ok.injEq, Prod.mk.injEq] at he
          obtain ⟨_, rfl⟩ := he
          have h1 := (neutralize_nb_both.1 _ (mergeTree_nb op l r cc hl hr hlr c2 s2 hR) c3 a3 hn).2
          have h2 := mergeTree_not_const op l r cc hl hlr
          cases h : isC a3
          · rfl
          · rw [h1 h] at h2; exact absurd h2 (by simp)

/-- K: a binary node over `nb` operands folds to a constant only by direct folding of two constants -/
theorem simplifyRaw_bin_const (op : BinOp) (l r : Arg) (hl : nb l = true) (hr : nb r = true)
    (c : Bool) (w : Int) (he : simplifyRaw (.bin op l r) = .ok (c, .const w)) :
    ∃ x y, l = .const x ∧ r = .const y ∧ foldBin op x y = .ok w := by
  by_cases hlr : isC l = true ∧ isC r = true
  · obtain ⟨h1, h2⟩ := hlr
    cases l <;> simp [isC, cval] at h1
    cases r <;> simp [isC, cval] at h2
    rename_i x y
    simp only [simplifyRaw, isBad, cval] at he
    cases hf : foldBin op x y with
    | error k => simp [hf] at he
    | ok w' =>
      simp only [hf, Bool.false_eq_true, if_false, Res.ok.injEq, Prod.mk.injEq, Arg.const.injEq] at he
      exact ⟨x, y, rfl, rfl, by rw [← he.2]; exact hf⟩
  · exfalso
    have hb : nb (.bin op l r) = true := nb_bin.2 ⟨hl, hr, hlr⟩
    rw [simplifyRaw_bin_rest op l r hlr] at he
    split at he
    · simp at he
    · split at he
      · simp at he
      · split at he
        · split at he
          · rename_i hm
            simp only [Res.ok.injEq, Prod.mk.injEq] at he
            unfold modCollapse at hm
            rw [he.2] at hm
            cases hcr : cval r <;> simp [hcr] at hm
          · have := (neutralizeRaw_nb hb he).2; simp at this
        · have := (neutralizeRaw_nb hb he).2; simp at this
        · have := (neutralizeRaw_nb hb he).2; simp at this
        · have := merge_not_const op l r hl hr hlr c _ he; simp at this

theorem afterRaw_ok {ev ev' : Ev} {a a' : Arg} (he : afterRaw ev a = .ok (ev', a')) :
    ∃ c, simplifyRaw a = .ok (c, a') := by
  unfold afterRaw at he
  cases h3 : simplifyRaw a with
  | panic => simp [h3] at he
  | err e => simp [h3] at he
  | ok w =>
    obtain ⟨c3, a3⟩ := w
    simp only [h3, ERes.ok.injEq, Prod.mk.injEq] at he
    exact ⟨c3, by rw [he.2]⟩

/-- F: if `evaluate` delivers a constant, that constant is the checked value of the expression under
every environment agreeing with the table -/
theorem evaluate_const_valC (lk : Bytes → Lookup) (isReg : Bytes → Bool) (ρ : Env)
    (hρ : consistent lk isReg ρ) (hT : tableOk lk) (a : Arg) : ∀ (ev : Ev) (w : Int),
    litsOk a = true → evaluate lk isReg a = .ok (ev, .const w) → valC ρ a = some w := by
  induction a using Arg.ind with
  | const v =>
    intro ev w hlit he
    simp only [evaluate, ERes.ok.injEq, Prod.mk.injEq, Arg.const.injEq] at he
    simp only [litsOk] at hlit
    obtain ⟨_, rfl⟩ := he
    simp [valC, checked, hlit]
  | ident s =>
    intro ev w _ he
    simp only [evaluate] at he
    split at he
    · simp at he
    · rename_i hr
      cases hl : lk s with
      | notFound => simp [hl] at he
      | deferred => simp [hl] at he
      | found x =>
        simp only [hl, ERes.ok.injEq, Prod.mk.injEq, Arg.const.injEq] at he
        obtain ⟨_, rfl⟩ := he
        have h1 := hρ s x (by simpa using hr) hl
        have h2 := hT s x hl
        simp [valC, h1, checked, h2]
  | str s => intro ev w _ he; simp [evaluate] at he
  | bin op l r ihl ihr =>
    intro ev w hlit he
    simp only [litsOk, Bool.and_eq_true] at hlit
    simp only [evaluate] at he
    cases h1 : evaluate lk isReg l with
    | panic => simp [h1] at he
    | err e => simp [h1] at he
    | ok p =>
      obtain ⟨e1, l'⟩ := p
      cases h2 : evaluate lk isReg r with
      | panic => simp [h1, h2] at he
      | err e => simp [h1, h2] at he
      | ok q =>
        obtain ⟨e2, r'⟩ := q
        simp only [h1, h2] at he
        obtain ⟨c, hc⟩ := afterRaw_ok he
        have hl' := ((evaluate_inv_both lk isReg).1 l).2 e1 l' h1
        have hr' := ((evaluate_inv_both lk isReg).1 r).2 e2 r' h2
        obtain ⟨x, y, rfl, rfl, hf⟩ := simplifyRaw_bin_const op l' r' hl' hr' c w hc
        simp [valC, ihl e1 x hlit.1 h1, ihr e2 y hlit.2 h2, liftBin, opC, hf]
  | neg a ih =>
    intro ev w hlit he
    simp only [litsOk] at hlit
    simp only [evaluate] at he
    cases h1 : evaluate lk isReg a with
    | panic => simp [h1] at he
    | err e => simp [h1] at he
    | ok p =>
      obtain ⟨e1, v'⟩ := p
      simp only [h1] at he
      obtain ⟨c, hc⟩ := afterRaw_ok he
      simp only [simplifyRaw] at hc
      split at hc
      · rename_i l r
        have hv' := ((evaluate_inv_both lk isReg).1 a).2 e1 _ h1
        obtain ⟨n1, n2, n3⟩ := nb_bin.1 hv'
        have hb : nb (.bin .sub r l) = true := nb_bin.2 ⟨n2, n1, fun ⟨x, y⟩ => n3 ⟨y, x⟩⟩
        cases hn : neutralizeRaw (.bin .sub r l) with
        | ok pr =>
          obtain ⟨c1, y⟩ := pr
          simp only [hn, Res.ok.injEq, Prod.mk.injEq] at hc
          obtain ⟨_, rfl⟩ := hc
          have := (neutralizeRaw_nb hb hn).2
          simp [isC, cval] at this
        | err e => simp [hn] at hc
        | panic => simp [hn] at hc
      · rename_i u
        have hv' := ((evaluate_inv_both lk isReg).1 a).2 e1 _ h1
        cases hn : neutralizeRaw (.neg (.neg u)) with
        | ok pr =>
          obtain ⟨c1, y⟩ := pr
          simp only [hn, Res.ok.injEq, Prod.mk.injEq] at hc
          obtain ⟨_, rfl⟩ := hc
          have := (neutralizeRaw_nb_all _ (nb_neg.2 ⟨hv', rfl⟩) rfl _ _ hn).2
          simp [isC, cval] at this
        | err e => simp [hn] at hc
        | panic => simp [hn] at hc
      · rename_i x
        split at hc
        · simp at hc
        · rename_i hmin
          simp only [Res.ok.injEq, Prod.mk.injEq, Arg.const.injEq] at hc
          have hx := ih e1 x hlit h1
          have hrange := (inI64_iff x).1 (valC_range ρ a hx)
          have : inI64 (-x) = true := by
            rw [inI64_iff]; simp only [i64Min] at hmin; omega
          obtain ⟨_, rfl⟩ := hc
          simp [valC, hx, checkedNeg, checked, this]
      · simp at hc
      · simp at hc
      · simp at hc
      · simp at hc
  | not a ih =>
    intro ev w hlit he
    simp only [litsOk] at hlit
    simp only [evaluate] at he
    cases h1 : evaluate lk isReg a with
    | panic => simp [h1] at he
    | err e => simp [h1] at he
    | ok p =>
      obtain ⟨e1, v'⟩ := p
      simp only [h1] at he
      obtain ⟨c, hc⟩ := afterRaw_ok he
      simp only [simplifyRaw] at hc
      split at hc
      · rename_i x
        simp only [Res.ok.injEq, Prod.mk.injEq, Arg.const.injEq] at hc
        simp [valC, ih e1 x hlit h1, hc.2]
      · simp at hc
      · simp at hc
      · simp at hc
      · simp at hc
  | addr a _ =>
    intro ev w _ he
    simp only [evaluate] at he
    cases h1 : evaluate lk isReg a with
    | panic => simp [h1] at he
    | err e => simp [h1] at he
    | ok p =>
      simp only [h1] at he
      obtain ⟨c, hc⟩ := afterRaw_ok he
      simp only [simplifyRaw] at hc
      split at hc <;> simp at hc
  | seq as =>
    intro ev w _ he
    simp only [evaluate] at he
    cases h1 : evaluateArgs lk isReg as <;> simp [h1] at he
  | func n as =>
    intro ev w _ he
    simp only [evaluate] at he
    cases h1 : evaluateArgs lk isReg as <;> simp [h1] at he

/-- the environment a constant table denotes -/
def envOf (lk : Bytes → Lookup) : Env := fun s => match lk s with | .found v => some v | _ => none

theorem consistent_of_sub {lk lk' : Bytes → Lookup} (isReg : Bytes → Bool)
    (h : ∀ s v, lk s = .found v → lk' s = .found v) : consistent lk isReg (envOf lk') := by
  intro s v _ hs
  simp [envOf, h s v hs]

end Trion.Simp
