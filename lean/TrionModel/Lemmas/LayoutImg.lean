import TrionModel.Model.Layout
/-!
# C05 helper lemmas, part 1: the byte image `Img` as a dictionary

`get` of `put`, `has`, the ∀-characterisations of `freeRange` / `hasRange`, the specification of
`nextAbove`, and `overwrite` on lists. Core Lean only.
-/
namespace Trion.Layout

theorem get_entries_append (bs : Bytes) (a : Nat) (m : Img) (k : Nat) :
    Img.get (entries a bs ++ m) k = if a ≤ k ∧ k < a + bs.length then bs[k - a]? else Img.get m k := by
  induction bs generalizing a with
  | nil =>
    have h : ¬ (a ≤ k ∧ k < a + 0) := by omega
    simp only [entries, List.nil_append, List.length_nil, if_neg h]
  | cons b bs ih =>
    simp only [entries, List.cons_append, Img.get, List.length_cons]
    by_cases h : a = k
    · subst h
      have h3 : a ≤ a ∧ a < a + (bs.length + 1) := by omega
      simp [h3]
    · rw [if_neg h, ih]
      by_cases h2 : a + 1 ≤ k ∧ k < a + 1 + bs.length
      · have h3 : a ≤ k ∧ k < a + (bs.length + 1) := by omega
        rw [if_pos h2, if_pos h3]
        have h4 : k - a = (k - (a + 1)) + 1 := by omega
        rw [h4, List.getElem?_cons_succ]
      · have h3 : ¬ (a ≤ k ∧ k < a + (bs.length + 1)) := by omega
        rw [if_neg h2, if_neg h3]

theorem get_put (m : Img) (a : Nat) (bs : Bytes) (k : Nat) :
    (m.put a bs).get k = if a ≤ k ∧ k < a + bs.length then bs[k - a]? else m.get k :=
  get_entries_append bs a m k

theorem get_put_inside (m : Img) (a : Nat) (bs : Bytes) (k : Nat) (h1 : a ≤ k) (h2 : k < a + bs.length) :
    (m.put a bs).get k = bs[k - a]? := by
  rw [get_put, if_pos ⟨h1, h2⟩]

theorem get_put_outside (m : Img) (a : Nat) (bs : Bytes) (k : Nat) (h : ¬ (a ≤ k ∧ k < a + bs.length)) :
    (m.put a bs).get k = m.get k := by
  rw [get_put, if_neg h]

theorem has_put (m : Img) (a : Nat) (bs : Bytes) (k : Nat) :
    (m.put a bs).has k = (decide (a ≤ k ∧ k < a + bs.length) || m.has k) := by
  unfold Img.has
  rw [get_put]
  by_cases h : a ≤ k ∧ k < a + bs.length
  · have h5 : k - a < bs.length := by omega
    simp [h, h5]
  · simp [h]

theorem has_put_mono (m : Img) (a : Nat) (bs : Bytes) (k : Nat) (h : m.has k = true) :
    (m.put a bs).has k = true := by
  rw [has_put, h, Bool.or_true]

theorem put_nil (m : Img) (a : Nat) : m.put a [] = m := rfl

theorem freeRange_iff (m : Img) (a n : Nat) :
    m.freeRange a n = true ↔ ∀ k, a ≤ k → k < a + n → m.has k = false := by
  induction n generalizing a with
  | zero => simp only [Img.freeRange, true_iff]; intro k h1 h2; omega
  | succ n ih =>
    simp only [Img.freeRange, Bool.and_eq_true, Bool.not_eq_true', ih]
    constructor
    · rintro ⟨h1, h2⟩ k h3 h4
      by_cases h : k = a
      · subst h; exact h1
      · exact h2 k (by omega) (by omega)
    · intro h
      exact ⟨h a (by omega) (by omega), fun k h1 h2 => h k (by omega) (by omega)⟩

theorem hasRange_iff (m : Img) (a n : Nat) :
    m.hasRange a n = true ↔ ∀ k, a ≤ k → k < a + n → m.has k = true := by
  induction n generalizing a with
  | zero => simp only [Img.hasRange, true_iff]; intro k h1 h2; omega
  | succ n ih =>
    simp only [Img.hasRange, Bool.and_eq_true, ih]
    constructor
    · rintro ⟨h1, h2⟩ k h3 h4
      by_cases h : k = a
      · subst h; exact h1
      · exact h2 k (by omega) (by omega)
    · intro h
      exact ⟨h a (by omega) (by omega), fun k h1 h2 => h k (by omega) (by omega)⟩

/-! ### `nextAbove` -/

/-- the fold of `nextAbove` with an explicit accumulator -/
def nextAboveAcc (a : Nat) (acc : Option Nat) (m : Img) : Option Nat :=
  m.foldl (fun acc (k, _) => if a ≤ k then (match acc with | none => some k | some x => some (min x k)) else acc) acc

theorem nextAbove_eq (m : Img) (a : Nat) : m.nextAbove a = nextAboveAcc a none m := rfl

theorem has_cons (k : Nat) (v : UInt8) (r : Img) (x : Nat) :
    Img.has ((k, v) :: r) x = (decide (k = x) || Img.has r x) := by
  unfold Img.has
  simp only [Img.get]
  by_cases h : k = x <;> simp [h]

theorem nextAboveAcc_none (a : Nat) (m : Img) (acc : Option Nat) (h : nextAboveAcc a acc m = none) :
    acc = none ∧ ∀ k, a ≤ k → m.has k = false := by
  induction m generalizing acc with
  | nil =>
    simp only [nextAboveAcc, List.foldl_nil] at h
    exact ⟨h, fun k _ => rfl⟩
  | cons e r ih =>
    obtain ⟨k, v⟩ := e
    simp only [nextAboveAcc, List.foldl_cons] at h
    have h' := ih _ h
    by_cases hk : a ≤ k
    · rw [if_pos hk] at h'
      cases acc <;> simp at h'
    · rw [if_neg hk] at h'
      refine ⟨h'.1, fun x hx => ?_⟩
      rw [has_cons, h'.2 x hx]
      have : k ≠ x := by omega
      simp [this]

theorem nextAboveAcc_some (a : Nat) (m : Img) (acc : Option Nat) (n : Nat) (h : nextAboveAcc a acc m = some n) :
    (acc = some n ∨ (a ≤ n ∧ m.has n = true)) ∧ (∀ x, acc = some x → n ≤ x) ∧
    ∀ k, a ≤ k → k < n → m.has k = false := by
  induction m generalizing acc with
  | nil =>
    simp only [nextAboveAcc, List.foldl_nil] at h
    exact ⟨Or.inl h, fun x hx => (by rw [h] at hx; cases hx; omega), fun k _ _ => rfl⟩
  | cons e r ih =>
    obtain ⟨k, v⟩ := e
    simp only [nextAboveAcc, List.foldl_cons] at h
    have h' := ih _ h
    by_cases hk : a ≤ k
    · rw [if_pos hk] at h'
      obtain ⟨h1, h2, h3⟩ := h'
      cases acc with
      | none =>
        simp only at h1 h2
        have hn : n ≤ k := h2 k rfl
        refine ⟨Or.inr ?_, fun x hx => (by cases hx), fun x hx1 hx2 => ?_⟩
        · rcases h1 with h1 | h1
          · cases h1; exact ⟨hk, by rw [has_cons]; simp⟩
          · exact ⟨h1.1, by rw [has_cons, h1.2]; simp⟩
        · rw [has_cons, h3 x hx1 hx2]
          have : k ≠ x := by omega
          simp [this]
      | some y =>
        simp only at h1 h2
        have hn : n ≤ min y k := h2 _ rfl
        refine ⟨?_, fun x hx => (by cases hx; omega), fun x hx1 hx2 => ?_⟩
        · rcases h1 with h1 | h1
          · cases h1
            by_cases hyk : y ≤ k
            · left; congr 1; omega
            · right; refine ⟨by omega, ?_⟩
              have : min y k = k := by omega
              rw [this, has_cons]; simp
          · right; exact ⟨h1.1, by rw [has_cons, h1.2]; simp⟩
        · rw [has_cons, h3 x hx1 hx2]
          have : k ≠ x := by omega
          simp [this]
    · rw [if_neg hk] at h'
      obtain ⟨h1, h2, h3⟩ := h'
      refine ⟨?_, h2, fun x hx1 hx2 => ?_⟩
      · rcases h1 with h1 | h1
        · exact Or.inl h1
        · right; exact ⟨h1.1, by rw [has_cons, h1.2]; simp⟩
      · rw [has_cons, h3 x hx1 hx2]
        have : k ≠ x := by omega
        simp [this]

theorem nextAbove_none (m : Img) (a : Nat) (h : m.nextAbove a = none) : ∀ k, a ≤ k → m.has k = false :=
  (nextAboveAcc_none a m none h).2

theorem nextAbove_some (m : Img) (a n : Nat) (h : m.nextAbove a = some n) :
    a ≤ n ∧ m.has n = true ∧ ∀ k, a ≤ k → k < n → m.has k = false := by
  obtain ⟨h1, _, h3⟩ := nextAboveAcc_some a m none n h
  rcases h1 with h1 | h1
  · cases h1
  · exact ⟨h1.1, h1.2, h3⟩

/-! ### `overwrite` -/

theorem length_overwrite (buf : Bytes) (start : Nat) (bs : Bytes) (h : start + bs.length ≤ buf.length) :
    (overwrite buf start bs).length = buf.length := by
  simp only [overwrite, List.length_append, List.length_take, List.length_drop]
  omega

theorem getElem?_overwrite (buf : Bytes) (start : Nat) (bs : Bytes) (h : start + bs.length ≤ buf.length) (j : Nat) :
    (overwrite buf start bs)[j]? = if start ≤ j ∧ j < start + bs.length then bs[j - start]? else buf[j]? := by
  have hl : (buf.take start).length = start := by rw [List.length_take]; omega
  unfold overwrite
  rw [List.append_assoc]
  by_cases h1 : j < start
  · have hn : ¬ (start ≤ j ∧ j < start + bs.length) := by omega
    rw [if_neg hn, List.getElem?_append_left (by omega), List.getElem?_take_of_lt h1]
  · rw [List.getElem?_append_right (by omega), hl]
    by_cases h2 : j < start + bs.length
    · rw [if_pos ⟨by omega, h2⟩, List.getElem?_append_left (by omega)]
    · rw [if_neg (by omega), List.getElem?_append_right (by omega), List.getElem?_drop]
      congr 1; omega

theorem overwrite_nil (buf : Bytes) (start : Nat) : overwrite buf start [] = buf := by
  simp [overwrite]

/-- `.align`: the capacity test on the number `n - off` is the test `append` makes on the padding -/
theorem step_align (st : State) (n : Nat) :
    step st (.align n) =
      match st.active with
      | none => .error .inactive
      | some s =>
        if n = 0 ∨ top ≤ n then .error .range else
        if (s.base + s.buf.length) % n = 0 then .ok st else append st (placeholder (n - (s.base + s.buf.length) % n)) := by
  unfold step
  cases hact : st.active with
  | none => rfl
  | some s =>
    simp only
    split
    · rfl
    · split
      · rfl
      · have hl : (placeholder (n - (s.base + s.buf.length) % n)).length = n - (s.base + s.buf.length) % n := by
          simp [placeholder]
        unfold append
        rw [hact]
        simp only [hl]
        split
        · rfl
        · split <;> rfl

end Trion.Layout
