import TrionModel.Lemmas.LexPos
/-!
# Helper lemmas for the tokenizer model, part 3: what one `do_next` does on well-formed text
-/
namespace Trion.Lex
open Trion.Pos (isCont adv)

/-- `(get_line(), get_column())` -/
def State.pos (s : State) : Nat × Nat := (s.line, s.col)

/-- the byte a token of this kind begins with -/
def startsTok (t : Tok) (b : UInt8) : Bool :=
  punct b.toNat == some t ||
  match t with
  | .num _ => (decide (48 ≤ b.toNat) && decide (b.toNat ≤ 57)) || b.toNat == 39
  | .ident s => s.head? == some b
  | .str _ => b.toNat == 34
  | .shl => b.toNat == 60
  | .shr => b.toNat == 62
  | _ => false

/-- what `do_next` guarantees on a state whose text is well-formed UTF-8 -/
def DoSpec (s : State) : Step → Prop
  | .tok t s' => ∃ mid, s.data = mid ++ s'.data ∧ Utf8 s'.data ∧ s'.utfErr = s.utfErr ∧
      t.line = s.line ∧ t.col = s.col ∧ s'.pos = adv s.pos mid ∧
      ∃ b, mid.head? = some b ∧ startsTok t.val b = true
  | .err e s' => s'.data = [] ∧ s'.utfErr = false ∧ s'.pos = (e.line, e.col)
  | .done _ => False
  | .panic => False
  | .fuel => False

theorem utf8_drop_ascii {mid rest : Bytes} (h : Utf8 (mid ++ rest)) (ha : ∀ b ∈ mid, b.toNat < 128) : Utf8 rest := by
  induction mid with
  | nil => simpa using h
  | cons b mid ih =>
    apply ih
    · exact utf8_tail_of_ascii (by simpa using h) (ha b (by simp))
    · intro x hx; exact ha x (by simp [hx])

theorem head?_append_of_ne_nil {mid rest : Bytes} (h : mid ≠ []) : (mid ++ rest).head? = mid.head? := by
  cases mid with
  | nil => exact absurd rfl h
  | cons b m => rfl

theorem slice_split (x y z : Bytes) (hy : ∀ b, (y ++ z).head? = some b → isCont b = false)
    (hz : ∀ b, z.head? = some b → isCont b = false) :
    slice (x ++ y ++ z) x.length (x.length + y.length) = some y := by
  unfold slice
  have b1 : isBoundary (x ++ y ++ z) x.length = true := by
    rw [List.append_assoc]; exact isBoundary_split x (y ++ z) hy
  have b2 : isBoundary (x ++ y ++ z) (x.length + y.length) = true := by
    have := isBoundary_split (x ++ y) z hz
    simpa using this
  have e : ((x ++ y ++ z).take (x.length + y.length)).drop x.length = y := by
    have : (x ++ y ++ z).take (x.length + y.length) = x ++ y := by
      apply List.take_left'; simp
    rw [this]; exact List.drop_left' rfl
  have hle : decide (x.length ≤ x.length + y.length) = true := by simp
  simp only [hle, b1, b2, Bool.and_self, if_true, e]

/-! ### the error exits -/

theorem doSpec_fail (s : State) (k : LexErrKind) : DoSpec s (fail s k) := by
  simp [fail, DoSpec, State.clear, State.pos]

theorem doSpec_failRun (s : State) : DoSpec s (failRun s) := by
  simp [failRun, DoSpec, State.pos]

theorem doSpec_failEof (s : State) (k : LexErrKind) (hu : Utf8 s.data) : DoSpec s (failEof s k) := by
  unfold failEof
  split
  · rw [updatePos_eq (good_of_utf8 hu)]
    simp [DoSpec, State.pos]
  · exact doSpec_fail s k

/-! ### the token exit -/

theorem emit_eq (s : State) (mid rest : Bytes) (t : Tok) (asciiLn : Bool)
    (hd : s.data = mid ++ rest) (hu : Utf8 s.data) (hr : Utf8 rest)
    (ha : asciiLn = true → ∀ b ∈ mid, b.toNat < 128 ∧ b.toNat ≠ 10) :
    emit s mid.length asciiLn t =
      .tok ⟨s.line, s.col, t⟩ ⟨rest, s.utfErr, (adv s.pos mid).1, (adv s.pos mid).2⟩ := by
  unfold emit
  rw [hd, sliceFrom_split mid rest (utf8_head? hr)]
  cases asciiLn with
  | true =>
    simp only [if_true]
    rw [Pos.adv_ascii s.pos mid (ha rfl)]
    rfl
  | false =>
    simp only [Bool.false_eq_true, if_false]
    rw [sliceTo_split mid rest (utf8_head? hr)]
    simp only
    rw [updatePos_eq (good_of_utf8_prefix (hd ▸ hu))]
    rfl

theorem doSpec_emit (s : State) (mid rest : Bytes) (t : Tok) (asciiLn : Bool)
    (hd : s.data = mid ++ rest) (hu : Utf8 s.data) (hr : Utf8 rest)
    (ha : asciiLn = true → ∀ b ∈ mid, b.toNat < 128 ∧ b.toNat ≠ 10)
    (hb : ∃ b, mid.head? = some b ∧ startsTok t b = true) :
    DoSpec s (emit s mid.length asciiLn t) := by
  rw [emit_eq s mid rest t asciiLn hd hu hr ha]
  exact ⟨mid, hd, hr, rfl, rfl, rfl, rfl, hb⟩

/-! ### punctuation -/

theorem punct_table : ∀ c, c < 256 → (punct c).isSome = true → c < 128 ∧ c ≠ 10 ∧ c ≠ 60 ∧ c ≠ 62 := by
  decide +kernel

theorem punct_some {c : UInt8} {t : Tok} (h : punct c.toNat = some t) :
    c.toNat < 128 ∧ c.toNat ≠ 10 ∧ c.toNat ≠ 60 ∧ c.toNat ≠ 62 :=
  punct_table c.toNat (UInt8.toNat_lt c) (by simp [h])

theorem startsTok_punct {c : UInt8} {t : Tok} (h : punct c.toNat = some t) : startsTok t c = true := by
  simp [startsTok, h]

theorem doSpec_punct (s : State) (b0 : UInt8) (tl : Bytes) (t : Tok) (hd : s.data = b0 :: tl) (hu : Utf8 s.data)
    (hp : punct b0.toNat = some t) : DoSpec s (emit s 1 true t) := by
  have hc := punct_some hp
  have hr : Utf8 tl := utf8_tail_of_ascii (hd ▸ hu) hc.1
  exact doSpec_emit s [b0] tl t true (by simpa using hd) hu hr
    (by intro _ b hb; simp at hb; subst hb; exact ⟨hc.1, hc.2.1⟩)
    ⟨b0, rfl, startsTok_punct hp⟩

theorem doSpec_two (s : State) (b0 b1 : UInt8) (tl : Bytes) (t : Tok) (hd : s.data = b0 :: b1 :: tl) (hu : Utf8 s.data)
    (h0 : b0.toNat < 128 ∧ b0.toNat ≠ 10) (h1 : b1.toNat < 128 ∧ b1.toNat ≠ 10) (hs : startsTok t b0 = true) :
    DoSpec s (emit s 2 true t) := by
  have hr : Utf8 tl := utf8_tail_of_ascii (utf8_tail_of_ascii (hd ▸ hu) h0.1) h1.1
  exact doSpec_emit s [b0, b1] tl t true (by simpa using hd) hu hr
    (by intro _ b hb; simp at hb; rcases hb with rfl | rfl <;> assumption)
    ⟨b0, rfl, hs⟩

/-! ### identifiers -/

theorem isIdentByte_ascii {b : UInt8} (h : isIdentByte b = true) : b.toNat < 128 ∧ b.toNat ≠ 10 := by
  simp [isIdentByte] at h
  omega

theorem doSpec_ident (s : State) (b0 : UInt8) (tl : Bytes) (hd : s.data = b0 :: tl) (hu : Utf8 s.data)
    (h0 : isIdentByte b0 = true) : DoSpec s (lexIdent s) := by
  unfold lexIdent
  cases hp : position (fun b => !isIdentByte b) s.data with
  | none =>
    have hall := position_none hp
    have hall' : ∀ b ∈ s.data, b.toNat < 128 ∧ b.toNat ≠ 10 := by
      intro b hb; have := hall b hb; simp at this; exact isIdentByte_ascii this
    simp only
    split
    · exact doSpec_failRun s
    · have : sliceTo s.data s.data.length = some s.data := by simp [sliceTo, isBoundary_length]
      rw [this]
      simp only
      have := doSpec_emit s s.data [] (.ident s.data) true (by simp) hu Utf8.nil (fun _ => hall')
        ⟨b0, by simp [hd], by simp [startsTok, hd]⟩
      exact this
  | some len =>
    obtain ⟨pre, b, post, hsplit, hlen, hb, hall⟩ := position_some hp
    have hall' : ∀ x ∈ pre, x.toNat < 128 ∧ x.toNat ≠ 10 := by
      intro x hx; have := hall x hx; simp at this; exact isIdentByte_ascii this
    have hr : Utf8 (b :: post) := utf8_drop_ascii (hsplit ▸ hu) (fun x hx => (hall' x hx).1)
    have hpre : pre ≠ [] := by
      intro hnil; subst hnil
      simp at hsplit; rw [hd] at hsplit
      simp at hsplit; obtain ⟨rfl, _⟩ := hsplit
      simp [h0] at hb
    have hhead : pre.head? = some b0 := by
      rw [← head?_append_of_ne_nil (rest := b :: post) hpre, ← hsplit, hd]; rfl
    simp only
    subst hlen
    rw [hsplit, sliceTo_split pre (b :: post) (utf8_head? hr)]
    simp only
    exact doSpec_emit s pre (b :: post) (.ident pre) true hsplit hu hr (fun _ => hall')
      ⟨b0, hhead, by simp [startsTok, hhead]⟩

/-! ### numbers -/

theorem isDigit_ascii {radix : Nat} {b : UInt8} (h : isDigit radix b = true) : b.toNat < 128 ∧ b.toNat ≠ 10 := by
  unfold isDigit digitVal at h
  simp only at h
  split at h
  · rename_i v hv
    split at hv
    · omega
    · split at hv
      · omega
      · split at hv
        · omega
        · simp at hv
  · simp at h

theorem doSpec_numberTail (s : State) (pfx digs rest : Bytes) (radix : Nat) (b0 : UInt8)
    (hd : s.data = pfx ++ digs ++ rest) (hu : Utf8 s.data)
    (hp : ∀ b ∈ pfx, b.toNat < 128 ∧ b.toNat ≠ 10) (hdg : ∀ b ∈ digs, b.toNat < 128 ∧ b.toNat ≠ 10)
    (hh : s.data.head? = some b0) (h0 : 48 ≤ b0.toNat ∧ b0.toNat ≤ 57) :
    DoSpec s (lexNumberTail s pfx.length radix digs.length) := by
  unfold lexNumberTail
  have hmid : ∀ b ∈ pfx ++ digs, b.toNat < 128 ∧ b.toNat ≠ 10 := by
    intro b hb; simp at hb; rcases hb with hb | hb
    · exact hp b hb
    · exact hdg b hb
  have hr : Utf8 rest := utf8_drop_ascii (hd ▸ hu) (fun b hb => (hmid b hb).1)
  have hr2 : Utf8 (digs ++ rest) := by
    apply utf8_drop_ascii (mid := pfx) _ (fun b hb => (hp b hb).1)
    rw [← List.append_assoc, ← hd]; exact hu
  rw [hd, slice_split pfx digs rest (utf8_head? hr2) (utf8_head? hr)]
  simp only
  cases hv : i64FromStrRadix digs radix with
  | none => exact doSpec_fail s _
  | some v =>
    simp only
    have hne : digs ≠ [] := by
      intro hnil; subst hnil; simp [i64FromStrRadix] at hv
    have hne' : pfx ++ digs ≠ [] := by simp [hne]
    rw [← List.length_append]
    refine doSpec_emit s (pfx ++ digs) rest (.num v) true hd hu hr (fun _ => hmid) ⟨b0, ?_, ?_⟩
    · rw [← head?_append_of_ne_nil (rest := rest) hne', ← hd]; exact hh
    · simp [startsTok]; omega

theorem doSpec_numberCore (s : State) (pfx rest' : Bytes) (radix : Nat) (b0 : UInt8)
    (hd : s.data = pfx ++ rest') (hu : Utf8 s.data)
    (hp : ∀ b ∈ pfx, b.toNat < 128 ∧ b.toNat ≠ 10)
    (hh : s.data.head? = some b0) (h0 : 48 ≤ b0.toNat ∧ b0.toNat ≤ 57) :
    DoSpec s (match position (fun b => !isDigit radix b) rest' with
      | none =>
        if s.utfErr then failRun s
        else if s.data.length < pfx.length then .panic
        else lexNumberTail s pfx.length radix (s.data.length - pfx.length)
      | some len => lexNumberTail s pfx.length radix len) := by
  cases hpos : position (fun b => !isDigit radix b) rest' with
  | none =>
    simp only
    split
    · exact doSpec_failRun s
    · have hlen : s.data.length = pfx.length + rest'.length := by rw [hd]; simp
      have : ¬ s.data.length < pfx.length := by omega
      simp only [this, if_false]
      have hall := position_none hpos
      have : s.data.length - pfx.length = rest'.length := by omega
      rw [this]
      exact doSpec_numberTail s pfx rest' [] radix b0 (by simpa using hd) hu hp
        (by intro b hb; have := hall b hb; simp at this; exact isDigit_ascii this) hh h0
  | some len =>
    obtain ⟨digs, b, post, hsplit, hlen, hb, hall⟩ := position_some hpos
    simp only
    subst hlen
    exact doSpec_numberTail s pfx digs (b :: post) radix b0 (by rw [hd, hsplit]; simp) hu hp
      (by intro x hx; have := hall x hx; simp at this; exact isDigit_ascii this) hh h0

theorem startsWith2_iff (d : Bytes) (x y : Nat) :
    startsWith2 d x y = true ↔ ∃ a b tl, d = a :: b :: tl ∧ a.toNat = x ∧ b.toNat = y := by
  unfold startsWith2
  split
  · rename_i a b tl
    simp
    constructor
    · intro ⟨h1, h2⟩; exact ⟨a, b, ⟨rfl, rfl⟩, h1, h2⟩
    · rintro ⟨_, _, ⟨rfl, rfl⟩, h1, h2⟩; exact ⟨h1, h2⟩
  · rename_i hne
    simp
    intro a b tl h
    exact absurd h (hne a b tl)

theorem doSpec_number (s : State) (b0 : UInt8) (tl : Bytes) (hd : s.data = b0 :: tl) (hu : Utf8 s.data)
    (h0 : 48 ≤ b0.toNat ∧ b0.toNat ≤ 57) : DoSpec s (lexNumber s) := by
  unfold lexNumber
  have hh : s.data.head? = some b0 := by rw [hd]; rfl
  by_cases hpre : (startsWith2 s.data 48 98 || startsWith2 s.data 48 111 || startsWith2 s.data 48 120) = true
  · have : ∃ a b tl', s.data = a :: b :: tl' ∧ a.toNat = 48 ∧ (b.toNat = 98 ∨ b.toNat = 111 ∨ b.toNat = 120) := by
      simp only [Bool.or_eq_true, startsWith2_iff] at hpre
      rcases hpre with (⟨a, b, t, h, ha, hb⟩ | ⟨a, b, t, h, ha, hb⟩) | ⟨a, b, t, h, ha, hb⟩
      · exact ⟨a, b, t, h, ha, Or.inl hb⟩
      · exact ⟨a, b, t, h, ha, Or.inr (Or.inl hb)⟩
      · exact ⟨a, b, t, h, ha, Or.inr (Or.inr hb)⟩
    obtain ⟨a, b, tl', hd2, ha, hb⟩ := this
    have hp : ∀ x ∈ [a, b], x.toNat < 128 ∧ x.toNat ≠ 10 := by
      intro x hx; simp at hx; rcases hx with rfl | rfl <;> omega
    have hr : Utf8 tl' := utf8_drop_ascii (mid := [a, b]) (by simpa [hd2] using hu) (fun x hx => (hp x hx).1)
    simp only [hpre, if_true]
    have hsl : sliceFrom s.data 2 = some tl' := by
      have := sliceFrom_split [a, b] tl' (utf8_head? hr)
      simpa [hd2] using this
    rw [hsl]
    simp only
    exact doSpec_numberCore s [a, b] tl' _ b0 (by simpa using hd2) hu hp hh h0
  · simp only [hpre]
    simp only [Bool.false_eq_true, if_false]
    have hsl : sliceFrom s.data 0 = some s.data := by simp [sliceFrom, isBoundary_zero]
    rw [hsl]
    simp only
    exact doSpec_numberCore s [] s.data _ b0 (by simp) hu (by simp) hh h0

end Trion.Lex
