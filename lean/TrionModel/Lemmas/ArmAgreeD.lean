import TrionModel.Lemmas.ArmTac
/-! Agreement of the ARMv6-M table with the decoder model on 16-bit patterns, group by group:
`decodeIn table16 h 16 = toOpt (decode16 h)`.  The decoder side is split into its branches (`dec_split`),
in every branch the few rows of the group are walked (`spec_leaf`). -/
set_option linter.unusedSimpArgs false
namespace Trion.Codec
open Trion Trion.Arm

theorem spec16_22 (h : Nat) (hlt : h < 65536) (hk : h / 2048 = 22) : decodeIn table16 h 16 = toOpt (decode16 h) := by
  rw [table16_at_22 h hlt hk]
  generalize hres : decode16 h = res
  unfold g22
  dec_split at hres
  all_goals (subst hres; spec_leaf)

theorem spec16_23 (h : Nat) (hlt : h < 65536) (hk : h / 2048 = 23) : decodeIn table16 h 16 = toOpt (decode16 h) := by
  rw [table16_at_23 h hlt hk]
  generalize hres : decode16 h = res
  unfold g23
  dec_split at hres
  all_goals (subst hres; spec_leaf)

end Trion.Codec
