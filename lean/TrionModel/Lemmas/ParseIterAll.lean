import TrionModel.Lemmas.ParseIter
/-!
# `Parser::next` call by call: `do_next`, the drain loop, and the run as a whole
-/
namespace Trion.Parse

/-- size of a state that stands for `ts` -/
theorem rel_size {lo : LexOut} {s : TState} {ts : List Token} (h : Rel lo s ts) :
    s.size = ts.length + (if lo.err.isSome then 1 else 0) := by
  obtain ⟨q, te, src, se, el, ec⟩ := s
  obtain ⟨ht, he, hk, hso, _, _⟩ := h
  simp only at ht hk hso
  subst ht
  rw [← he]
  cases te with
  | some e =>
    have := hk rfl
    have := hso rfl
    subst_vars
    simp [TState.size, TState.pendErr]
  | none => cases se <;> simp [TState.size, TState.pendErr]

theorem rel_finished {lo : LexOut} {s : TState} (h : Rel lo s []) (hn : lo.err = none) : s.finished := by
  obtain ⟨q, te, src, se, el, ec⟩ := s
  obtain ⟨ht, he, _, _, _, _⟩ := h
  simp only at ht
  obtain ⟨rfl, rfl⟩ := List.append_eq_nil_iff.1 ht
  rw [hn] at he
  cases te with
  | some e => simp [TState.pendErr] at he
  | none =>
    simp only [TState.pendErr] at he
    subst he
    exact ⟨rfl, rfl, rfl, rfl⟩

/-- `next_inner("';'")?` with the token discarded -/
theorem nextInnerDiscard_sim {lo : LexOut} {α : Type} {s : TState} {ts : List Token} (h : Rel lo s ts) (x : α) :
    Sim lo ((nextInnerS "';'" s).bind fun _ s3 => SRes.ok x s3)
      ((nextInner lo "';'" ts).bind fun r3 => Res.ok (x, r3)) := by
  cases ts with
  | nil =>
    obtain ⟨s', hs⟩ := nextInner_nil h "';'"
    simp only [hs, SRes.bind, nextInner, Res.bind]
    exact ⟨s', rfl⟩
  | cons t r =>
    obtain ⟨s', hs, hr⟩ := nextInner_cons h "';'"
    simp only [hs, SRes.bind, nextInner, Res.bind]
    exact ⟨s', rfl, hr⟩

theorem stmtTail_sim {lo : LexOut} {s : TState} {ts : List Token} (h : Rel lo s ts) (mk : Args → Element) :
    Sim lo (stmtTailS s mk)
      ((args lo ts).bind fun p => (nextInner lo "';'" p.2).bind fun r3 => .ok (mk p.1, r3)) := by
  unfold stmtTailS args
  have : s.stream = ts := h.toks
  rw [this]
  exact sim_bind ((refAt lo _).args s ts h) (fun as r' s' hr' => nextInnerDiscard_sim hr' _)

/-- `do_next(Ok(t))` on the state is `element` on the list -/
theorem doNext_sim {lo : LexOut} {s : TState} (t : Token) {r : List Token} (h : Rel lo s r) :
    Sim lo (doNextS (.ok t) s) (element lo t r) := by
  obtain ⟨l, c, v⟩ := t
  unfold doNextS element
  cases v <;> simp only [] <;> try exact sim_err _ _
  · -- directive
    cases r with
    | nil =>
      cases hn : lo.err with
      | none =>
        obtain ⟨_, s1, hp, hr1⟩ := end_none h hn
        simp only [hp, endErr, hn, eofErrS_eq hr1]
        exact sim_err _ _
      | some e =>
        obtain ⟨⟨s1, hp⟩, _⟩ := end_err h hn
        simp only [hp, endErr, hn]
        exact sim_err _ _
    | cons t1 r1 =>
      obtain ⟨s1, hp, hr1⟩ := pop_cons h
      obtain ⟨l1, c1, v1⟩ := t1
      simp only [hp]
      cases v1 <;> simp only [] <;> try exact sim_err _ _
      exact stmtTail_sim hr1 _
  · -- identifier: label or instruction
    cases r with
    | nil =>
      cases hn : lo.err with
      | none =>
        obtain ⟨⟨s1, hp, hr1⟩, _⟩ := end_none h hn
        simp only [hp, eofErrS_eq hr1]
        exact sim_err _ _
      | some e =>
        obtain ⟨_, s1, hp, _, hpop⟩ := end_err h hn
        simp only [hp]
        exact takeErr_sim _ hpop
    | cons t1 r1 =>
      obtain ⟨s1, hp, hr1⟩ := peek_cons h
      obtain ⟨s2, hp2, hr2⟩ := pop_cons hr1
      simp only [hp]
      by_cases hlm : t1.val = .labelMark
      · simp only [if_pos hlm, hp2]; exact sim_ok hr2
      · simp only [if_neg hlm]; exact stmtTail_sim hr1 _

/-! ## the drain loop -/

theorem drain_finishes : ∀ n (s : TState), s.size < n →
    ∃ s', drainF n s = some s' ∧ s'.finished ∧ s'.endLine = s.endLine ∧ s'.endCol = s.endCol := by
  intro n
  induction n with
  | zero => intro s h; omega
  | succ n ih =>
    intro s h
    obtain ⟨q, te, src, se, el, ec⟩ := s
    cases q with
    | cons t q =>
      obtain ⟨s', h1, h2, h3, h4⟩ := ih ⟨q, te, src, se, el, ec⟩ (by simp [TState.size] at h ⊢; omega)
      exact ⟨s', by simpa [drainF, TState.pop] using h1, h2, h3, h4⟩
    | nil =>
      cases te with
      | some e =>
        obtain ⟨s', h1, h2, h3, h4⟩ := ih ⟨[], none, src, se, el, ec⟩ (by simp [TState.size] at h ⊢; omega)
        exact ⟨s', by simpa [drainF, TState.pop] using h1, h2, h3, h4⟩
      | none =>
        cases src with
        | cons t r =>
          obtain ⟨s', h1, h2, h3, h4⟩ := ih ⟨[], none, r, se, el, ec⟩ (by simp [TState.size] at h ⊢; omega)
          exact ⟨s', by simpa [drainF, TState.pop, TState.nextToken] using h1, h2, h3, h4⟩
        | nil =>
          cases se with
          | some e =>
            obtain ⟨s', h1, h2, h3, h4⟩ := ih ⟨[], none, [], none, el, ec⟩ (by simp [TState.size] at h ⊢ <;> omega)
            exact ⟨s', by simpa [drainF, TState.pop, TState.nextToken] using h1, h2, h3, h4⟩
          | none =>
            exact ⟨⟨[], none, [], none, el, ec⟩, by simp [drainF, TState.pop, TState.nextToken], ⟨rfl, rfl, rfl, rfl⟩, rfl, rfl⟩

/-- `clear(); while next().is_some() {}` leaves nothing, whatever the look-ahead held -/
theorem clear_drain (s : TState) : ∃ s', drainF (s.clear.size + 1) s.clear = some s' ∧ s'.finished := by
  obtain ⟨s', h, hf, _, _⟩ := drain_finishes (s.clear.size + 1) s.clear (Nat.lt_succ_self _)
  exact ⟨s', h, hf⟩

/-! ## one call -/

theorem pop_finished {s : TState} (h : s.finished) : s.pop = (none, s) := by
  obtain ⟨q, te, src, se, el, ec⟩ := s
  obtain ⟨rfl, rfl, rfl, rfl⟩ := h
  rfl

theorem pop_none_finished {s s1 : TState} (h : s.pop = (none, s1)) : s1 = s ∧ s.finished := by
  obtain ⟨q, te, src, se, el, ec⟩ := s
  cases q with
  | cons t q => simp [TState.pop] at h
  | nil =>
    cases te with
    | some e => simp [TState.pop] at h
    | none =>
      cases src with
      | cons t r => simp [TState.pop, TState.nextToken] at h
      | nil =>
        cases se with
        | some e => simp [TState.pop, TState.nextToken] at h
        | none =>
          simp only [TState.pop, TState.nextToken, Prod.mk.injEq, true_and] at h
          exact ⟨h.symm, rfl, rfl, rfl, rfl⟩

theorem next_finished {s : TState} (h : s.finished) : next s = .done s := by
  unfold next
  rw [pop_finished h]

theorem calls_finished (k : Nat) {s : TState} (h : s.finished) : calls k s = some (List.replicate k none, s) := by
  induction k with
  | zero => rfl
  | succ k ih => simp [calls, next_finished h, ih, List.replicate_succ]

/-- what one call does on a state that stands for a token list (no panic, no fuel), related to
`allLoop`'s step -/
theorem next_spec {lo : LexOut} {s : TState} {ts : List Token} (h : Rel lo s ts) :
    match ts with
    | [] =>
      match lo.err with
      | none => next s = .done s ∧ s.finished
      | some e => ∃ s', next s = .item (.error (tokErr e)) s' ∧ s'.finished
    | t :: r =>
      match element lo t r with
      | .ok (el, r') => ∃ s', next s = .item (.ok el) s' ∧ Rel lo s' r'
      | .err e => ∃ s', next s = .item (.error e) s' ∧ s'.finished
      | .panic => False
      | .fuel => False := by
  cases ts with
  | nil =>
    cases hn : lo.err with
    | none =>
      have hf := rel_finished h hn
      exact ⟨next_finished hf, hf⟩
    | some e =>
      obtain ⟨⟨s1, hp⟩, _⟩ := end_err h hn
      obtain ⟨s', hd, hf⟩ := clear_drain s1
      refine ⟨s', ?_, hf⟩
      simp only [next, hp, doNextS, hd]
  | cons t r =>
    obtain ⟨s1, hp, hr1⟩ := pop_cons h
    have hsim := doNext_sim t hr1
    simp only []
    cases he : element lo t r with
    | ok p =>
      rw [he] at hsim
      obtain ⟨s2, hx, hr2⟩ := hsim
      exact ⟨s2, by simp only [next, hp, hx], hr2⟩
    | err e =>
      rw [he] at hsim
      obtain ⟨s2, hx⟩ := hsim
      obtain ⟨s', hd, hf⟩ := clear_drain s2
      exact ⟨s', by simp only [next, hp, hx, hd], hf⟩
    | panic => exact absurd he (element_ne_panic lo t r)
    | fuel => exact absurd he (element_ne_fuel lo t r)

/-- iterating `next` reproduces `allLoop`: the elements, then the error (or `None`), then `None` for ever -/
theorem calls_allLoop (lo : LexOut) (k : Nat) : ∀ n ts s els err, Rel lo s ts → allLoop lo n ts = .done els err →
    ∃ sf, sf.finished ∧ calls (els.length + 1 + k) s =
      some (els.map (fun e => some (.ok e)) ++ [err.map .error] ++ List.replicate k none, sf) := by
  intro n
  induction n with
  | zero => intro ts s els err _ h; simp [allLoop] at h
  | succ n ih =>
    intro ts s els err hr h
    have hspec := next_spec hr
    cases ts with
    | nil =>
      simp only [allLoop] at h
      simp only [] at hspec
      cases hn : lo.err with
      | none =>
        rw [hn] at h hspec
        simp only [Outcome.done.injEq] at h
        obtain ⟨rfl, rfl⟩ := h
        obtain ⟨hnext, hf⟩ := hspec
        refine ⟨s, hf, ?_⟩
        rw [show ([] : List Element).length + 1 + k = k + 1 from by simp [Nat.add_comm]]
        simp [calls, hnext, calls_finished k hf]
      | some e =>
        rw [hn] at h hspec
        simp only [Outcome.done.injEq] at h
        obtain ⟨rfl, rfl⟩ := h
        obtain ⟨s', hnext, hf⟩ := hspec
        refine ⟨s', hf, ?_⟩
        rw [show ([] : List Element).length + 1 + k = k + 1 from by simp [Nat.add_comm]]
        simp [calls, hnext, calls_finished k hf]
    | cons t r =>
      simp only [allLoop] at h
      simp only [] at hspec
      cases he : element lo t r with
      | ok p =>
        obtain ⟨el, r'⟩ := p
        rw [he] at h hspec
        simp only [] at h hspec
        obtain ⟨s', hnext, hr'⟩ := hspec
        cases hrec : allLoop lo n r' with
        | done els' e' =>
          rw [hrec] at h
          simp only [Outcome.done.injEq] at h
          obtain ⟨rfl, rfl⟩ := h
          obtain ⟨sf, hf, hc⟩ := ih r' s' els' e' hr' hrec
          refine ⟨sf, hf, ?_⟩
          have : (el :: els').length + 1 + k = (els'.length + 1 + k) + 1 := by simp only [List.length_cons]; omega
          rw [this]
          simp [calls, hnext, hc]
        | panic => rw [hrec] at h; cases h
        | fuel => rw [hrec] at h; cases h
      | err e =>
        rw [he] at h hspec
        simp only [Outcome.done.injEq] at h hspec
        obtain ⟨rfl, rfl⟩ := h
        obtain ⟨s', hnext, hf⟩ := hspec
        refine ⟨s', hf, ?_⟩
        rw [show ([] : List Element).length + 1 + k = k + 1 from by simp [Nat.add_comm]]
        simp [calls, hnext, calls_finished k hf]
      | panic => rw [he] at hspec; exact hspec.elim
      | fuel => rw [he] at hspec; exact hspec.elim

/-- `calls` composes -/
theorem calls_add (a b : Nat) (s : TState) :
    calls (a + b) s = (calls a s).bind fun p => (calls b p.2).map fun q => (p.1 ++ q.1, q.2) := by
  induction a generalizing s with
  | zero =>
    simp only [Nat.zero_add, calls, Option.bind_some, List.nil_append]
    cases calls b s <;> rfl
  | succ a ih =>
    rw [Nat.succ_add]
    simp only [calls]
    cases next s with
    | item x s1 =>
      simp only [ih s1]
      cases calls a s1 with
      | none => rfl
      | some p =>
        simp only [Option.bind_some, Option.map_some]
        cases calls b p.2 <;> rfl
    | done s1 =>
      simp only [ih s1]
      cases calls a s1 with
      | none => rfl
      | some p =>
        simp only [Option.bind_some, Option.map_some]
        cases calls b p.2 <;> rfl
    | panic => rfl
    | fuel => rfl

theorem calls_length : ∀ (a : Nat) (s : TState) (p : List (Option (Except ParseErr Element)) × TState),
    calls a s = some p → p.1.length = a := by
  intro a
  induction a with
  | zero => intro s p h; simp only [calls, Option.some.injEq] at h; rw [← h]; rfl
  | succ a ih =>
    intro s p h
    simp only [calls] at h
    cases hn : next s with
    | item x s1 =>
      rw [hn] at h
      simp only [] at h
      cases hc : calls a s1 with
      | none => rw [hc] at h; cases h
      | some p' =>
        rw [hc] at h
        simp only [Option.map_some, Option.some.injEq] at h
        rw [← h]
        simp [ih s1 p' hc]
    | done s1 =>
      rw [hn] at h
      simp only [] at h
      cases hc : calls a s1 with
      | none => rw [hc] at h; cases h
      | some p' =>
        rw [hc] at h
        simp only [Option.map_some, Option.some.injEq] at h
        rw [← h]
        simp [ih s1 p' hc]
    | panic => rw [hn] at h; cases h
    | fuel => rw [hn] at h; cases h

theorem calls_prefix {a b : Nat} {s : TState} {l : List (Option (Except ParseErr Element))} {sf : TState}
    (h : calls (a + b) s = some (l, sf)) : ∃ s', calls a s = some (l.take a, s') := by
  rw [calls_add] at h
  cases ha : calls a s with
  | none => rw [ha] at h; cases h
  | some p =>
    rw [ha] at h
    simp only [Option.bind_some] at h
    cases hb : calls b p.2 with
    | none => rw [hb] at h; cases h
    | some q =>
      rw [hb] at h
      simp only [Option.map_some, Option.some.injEq, Prod.mk.injEq] at h
      have hlen := calls_length a s p ha
      refine ⟨p.2, ?_⟩
      rw [← h.1, List.take_left' hlen]

end Trion.Parse

namespace Trion.Parse

/-- the states a parser run can be in: standing for a remaining token list of the batch model, or finished -/
def Reach (lo : LexOut) (s : TState) : Prop := (∃ ts, Rel lo s ts) ∨ s.finished

theorem reach_init (lo : LexOut) : Reach lo (TState.init lo) := Or.inl ⟨lo.toks, rel_init lo⟩

theorem finished_size {s : TState} (h : s.finished) : s.size = 0 := by
  obtain ⟨q, te, src, se, el, ec⟩ := s
  obtain ⟨rfl, rfl, rfl, rfl⟩ := h
  rfl

/-- one call from a reachable state: no panic, and it either yields an item and strictly shrinks what the
tokenizer can still produce, or yields `None` on a finished tokenizer and changes nothing -/
theorem next_progress {lo : LexOut} {s : TState} (h : Reach lo s) :
    match next s with
    | .item _ s' => Reach lo s' ∧ s'.size < s.size
    | .done s' => s' = s ∧ s.finished
    | .panic => False
    | .fuel => False := by
  rcases h with ⟨ts, hr⟩ | hf
  · have hspec := next_spec hr
    have hsz := rel_size hr
    cases ts with
    | nil =>
      simp only [] at hspec
      cases hn : lo.err with
      | none =>
        rw [hn] at hspec
        rw [hspec.1]
        exact ⟨rfl, hspec.2⟩
      | some e =>
        rw [hn] at hspec
        obtain ⟨s', hnext, hf⟩ := hspec
        rw [hnext]
        refine ⟨Or.inr hf, ?_⟩
        rw [finished_size hf, hsz, hn]
        simp
    | cons t r =>
      simp only [] at hspec
      cases he : element lo t r with
      | ok p =>
        rw [he] at hspec
        obtain ⟨s', hnext, hr'⟩ := hspec
        rw [hnext]
        refine ⟨Or.inl ⟨_, hr'⟩, ?_⟩
        have := (element_ok (el := p.1) (r' := p.2) he).1
        rw [rel_size hr', hsz]
        simp only [List.length_cons]
        omega
      | err e =>
        rw [he] at hspec
        obtain ⟨s', hnext, hf⟩ := hspec
        rw [hnext]
        refine ⟨Or.inr hf, ?_⟩
        rw [finished_size hf, hsz]
        simp only [List.length_cons]
        omega
      | panic => rw [he] at hspec; exact hspec.elim
      | fuel => rw [he] at hspec; exact hspec.elim
  · rw [next_finished hf]
    exact ⟨rfl, hf⟩

end Trion.Parse
