import TrionModel.Model.Simp
/-! Arithmetic facts about the checked `i64` helpers of `Model/Simp.lean` (core Lean only). -/
namespace Trion.Simp
open Trion

theorem inI64_iff (v : Int) : inI64 v = true ↔ (-9223372036854775808 ≤ v ∧ v ≤ 9223372036854775807) := by
  unfold inI64 i64Min i64Max
  rw [Bool.and_eq_true, decide_eq_true_iff, decide_eq_true_iff]

theorem checked_eq_some {v w : Int} : checked v = some w ↔ (inI64 v = true ∧ w = v) := by
  unfold checked
  by_cases h : inI64 v = true
  · simp [h, eq_comm]
  · simp [h]

theorem checked_eq_none {v : Int} : checked v = none ↔ inI64 v = false := by
  unfold checked
  cases inI64 v <;> simp

/-! ### bit patterns -/

theorem toU_lt (v : Int) : toU v < 18446744073709551616 := by
  unfold toU two64
  have := Int.emod_lt_of_pos v (b := 18446744073709551616) (by decide)
  have := Int.emod_nonneg v (b := 18446744073709551616) (by decide)
  omega

theorem ofU_range {n : Nat} (h : n < 18446744073709551616) : inI64 (ofU n) = true := by
  rw [inI64_iff]; unfold ofU two64; split <;> omega

theorem toU_ofU {n : Nat} (h : n < 18446744073709551616) : toU (ofU n) = n := by
  unfold toU ofU two64; split <;> omega

theorem ofU_toU {v : Int} (h : inI64 v = true) : ofU (toU v) = v := by
  rw [inI64_iff] at h; unfold toU ofU two64; split <;> omega

theorem and_lt (a b : Int) : toU a &&& toU b < 18446744073709551616 :=
  Nat.and_lt_two_pow (n := 64) _ (toU_lt b)
theorem or_lt (a b : Int) : toU a ||| toU b < 18446744073709551616 :=
  Nat.or_lt_two_pow (n := 64) (toU_lt a) (toU_lt b)
theorem xor_lt (a b : Int) : toU a ^^^ toU b < 18446744073709551616 :=
  Nat.xor_lt_two_pow (n := 64) (toU_lt a) (toU_lt b)

theorem band_range (a b : Int) : inI64 (band a b) = true := ofU_range (and_lt a b)
theorem bor_range (a b : Int) : inI64 (bor a b) = true := ofU_range (or_lt a b)
theorem bxor_range (a b : Int) : inI64 (bxor a b) = true := ofU_range (xor_lt a b)

theorem band_comm (a b : Int) : band a b = band b a := by unfold band; rw [Nat.and_comm]
theorem bor_comm (a b : Int) : bor a b = bor b a := by unfold bor; rw [Nat.or_comm]
theorem bxor_comm (a b : Int) : bxor a b = bxor b a := by unfold bxor; rw [Nat.xor_comm]

theorem band_assoc (a b c : Int) : band (band a b) c = band a (band b c) := by
  unfold band; rw [toU_ofU (and_lt a b), toU_ofU (and_lt b c), Nat.and_assoc]
theorem bor_assoc (a b c : Int) : bor (bor a b) c = bor a (bor b c) := by
  unfold bor; rw [toU_ofU (or_lt a b), toU_ofU (or_lt b c), Nat.or_assoc]
theorem bxor_assoc (a b c : Int) : bxor (bxor a b) c = bxor a (bxor b c) := by
  unfold bxor; rw [toU_ofU (xor_lt a b), toU_ofU (xor_lt b c), Nat.xor_assoc]

theorem toU_neg_one : toU (-1) = 18446744073709551615 := by decide
theorem toU_zero : toU 0 = 0 := by decide

theorem band_neg_one {a : Int} (h : inI64 a = true) : band a (-1) = a := by
  unfold band
  rw [toU_neg_one, show (18446744073709551615 : Nat) = 2 ^ 64 - 1 by decide, Nat.and_two_pow_sub_one_eq_mod,
    Nat.mod_eq_of_lt (toU_lt a), ofU_toU h]
theorem bor_zero {a : Int} (h : inI64 a = true) : bor a 0 = a := by
  unfold bor; rw [toU_zero, Nat.or_zero, ofU_toU h]
theorem bxor_zero {a : Int} (h : inI64 a = true) : bxor a 0 = a := by
  unfold bxor; rw [toU_zero, Nat.xor_zero, ofU_toU h]

/-! ### shifts -/

theorem wrap_range (v : Int) : inI64 (wrap v) = true := by
  rw [inI64_iff]; unfold wrap two63 two64; omega

theorem wrap_of_range {v : Int} (h : inI64 v = true) : wrap v = v := by
  rw [inI64_iff] at h; unfold wrap two63 two64; omega

theorem shr_range {a : Int} (h : inI64 a = true) (n : Nat) : inI64 (a / 2 ^ n) = true := by
  rw [inI64_iff] at h ⊢
  have hp : (0 : Int) < 2 ^ n := Int.pow_pos (by decide)
  have h1 : (1 : Int) ≤ 2 ^ n := hp
  constructor
  · rw [Int.le_ediv_iff_mul_le hp]
    have : (-9223372036854775808 : Int) * 2 ^ n ≤ -9223372036854775808 * 1 :=
      Int.mul_le_mul_of_nonpos_left (by decide) h1
    omega
  · have : a / 2 ^ n < 9223372036854775808 := by
      rw [Int.ediv_lt_iff_lt_mul hp]
      have : (9223372036854775808 : Int) * 1 ≤ 9223372036854775808 * 2 ^ n :=
        Int.mul_le_mul_of_nonneg_left h1 (by decide)
      omega
    omega

/-! ### truncating division and remainder -/

theorem natAbs_le_of_inI64 {a : Int} (h : inI64 a = true) : a.natAbs ≤ 9223372036854775808 := by
  rw [inI64_iff] at h; omega

theorem tmod_range {a b : Int} (_ha : inI64 a = true) (hb : inI64 b = true) (h0 : b ≠ 0) :
    inI64 (Int.tmod a b) = true := by
  have h1 := Int.natAbs_tmod a b
  have h2 : a.natAbs % b.natAbs < b.natAbs := Nat.mod_lt _ (by omega)
  have h3 := natAbs_le_of_inI64 hb
  rw [inI64_iff]; omega

/-- `checked_rem` never returns a value outside `i64` -/
theorem checkedRem_range {a b v : Int} (ha : inI64 a = true) (hb : inI64 b = true)
    (h : checkedRem a b = some v) : inI64 v = true := by
  unfold checkedRem at h
  by_cases h0 : b = 0
  · simp [h0] at h
  · by_cases h1 : a = i64Min ∧ b = -1
    · simp [h1] at h
    · simp only [h0, h1, if_false, Option.some.injEq] at h
      subst h; exact tmod_range ha hb h0

theorem foldBin_range {op : BinOp} {a b v : Int} (ha : inI64 a = true) (hb : inI64 b = true)
    (h : foldBin op a b = .ok v) : inI64 v = true := by
  cases op with
  | add =>
    simp only [foldBin, checkedAdd] at h
    cases hc : checked (a + b) with
    | none => simp [hc] at h
    | some w => simp only [hc, Except.ok.injEq] at h; subst h; exact (checked_eq_some.1 hc).2 ▸ (checked_eq_some.1 hc).1
  | sub =>
    simp only [foldBin, checkedSub] at h
    cases hc : checked (a - b) with
    | none => simp [hc] at h
    | some w => simp only [hc, Except.ok.injEq] at h; subst h; exact (checked_eq_some.1 hc).2 ▸ (checked_eq_some.1 hc).1
  | mul =>
    simp only [foldBin, checkedMul] at h
    cases hc : checked (a * b) with
    | none => simp [hc] at h
    | some w => simp only [hc, Except.ok.injEq] at h; subst h; exact (checked_eq_some.1 hc).2 ▸ (checked_eq_some.1 hc).1
  | div =>
    simp only [foldBin, checkedDiv] at h
    by_cases h0 : b = 0
    · simp [h0] at h
    · simp only [h0, if_false] at h
      cases hc : checked (Int.tdiv a b) with
      | none => simp [hc] at h
      | some w => simp only [hc, Except.ok.injEq] at h; subst h; exact (checked_eq_some.1 hc).2 ▸ (checked_eq_some.1 hc).1
  | mod =>
    simp only [foldBin] at h
    by_cases h0 : b = 0
    · simp [h0] at h
    · simp only [h0, if_false] at h
      cases hc : checkedRem a b with
      | none => simp [hc] at h
      | some w => simp only [hc, Except.ok.injEq] at h; subst h; exact checkedRem_range ha hb hc
  | band => simp only [foldBin, Except.ok.injEq] at h; subst h; exact band_range a b
  | bor => simp only [foldBin, Except.ok.injEq] at h; subst h; exact bor_range a b
  | bxor => simp only [foldBin, Except.ok.injEq] at h; subst h; exact bxor_range a b
  | shl =>
    simp only [foldBin, checkedShl] at h
    by_cases hk : 0 ≤ b ∧ b < 64
    · simp only [hk, and_self, if_true, Except.ok.injEq] at h; subst h; exact wrap_range _
    · simp [hk] at h
  | shr =>
    simp only [foldBin, checkedShr] at h
    by_cases hk : 0 ≤ b ∧ b < 64
    · simp only [hk, and_self, if_true, Except.ok.injEq] at h; subst h; exact shr_range ha _
    · simp [hk] at h

end Trion.Simp
