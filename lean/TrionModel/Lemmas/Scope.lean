import TrionModel.Model.Scope
/-! Helper lemmas for C14 (core Lean only). -/
namespace Trion.Scope

/-! ## association lists -/

theorem Table.find_set_same (t : Table) (n : Bytes) (v : Option Int) : (t.set n v).find n = some v := by
  induction t with
  | nil => simp [Table.set, Table.find]
  | cons e t ih =>
    obtain ⟨k, w⟩ := e
    by_cases h : k = n
    · simp [Table.set, Table.find, h]
    · simp [Table.set, Table.find, h, ih]

theorem Table.find_set_other (t : Table) (n m : Bytes) (v : Option Int) (h : n ≠ m) :
    (t.set n v).find m = t.find m := by
  induction t with
  | nil => simp [Table.set, Table.find, h]
  | cons e t ih =>
    obtain ⟨k, w⟩ := e
    by_cases hk : k = n
    · subst hk; simp [Table.set, Table.find, h]
    · by_cases hm : k = m
      · subst hm; simp [Table.set, Table.find, hk]
      · simp [Table.set, Table.find, hk, hm, ih]

theorem Table.find_set (t : Table) (n m : Bytes) (v : Option Int) :
    (t.set n v).find m = if n = m then some v else t.find m := by
  by_cases h : n = m
  · subst h; simp [Table.find_set_same]
  · simp [h, Table.find_set_other]

/-- keys of a table -/
def Table.keys (t : Table) : List Bytes := t.map (·.1)

theorem Table.find_none_iff (t : Table) (n : Bytes) : t.find n = none ↔ n ∉ t.keys := by
  induction t with
  | nil => simp [Table.find, Table.keys]
  | cons e t ih =>
    obtain ⟨k, w⟩ := e
    have hk : Table.keys ((k, w) :: t) = k :: Table.keys t := rfl
    rw [hk, List.mem_cons]
    by_cases h : k = n
    · subst h; simp [Table.find]
    · have h' : ¬ n = k := fun e => h e.symm
      simp only [Table.find, h, if_false, h', false_or]; exact ih

/-- `set` keeps the no-duplicate-key invariant of the `HashMap` -/
theorem Table.set_keys_nodup (t : Table) (n : Bytes) (v : Option Int) (h : t.keys.Nodup) :
    (t.set n v).keys.Nodup := by
  induction t with
  | nil => simp [Table.set, Table.keys]
  | cons e t ih =>
    obtain ⟨k, w⟩ := e
    simp only [Table.keys, List.map_cons, List.nodup_cons] at h
    by_cases hk : k = n
    · simp only [Table.set, hk, if_true, Table.keys, List.map_cons, List.nodup_cons]
      subst hk; exact h
    · simp only [Table.set, hk, if_false, Table.keys, List.map_cons, List.nodup_cons]
      refine ⟨?_, ih h.2⟩
      intro hmem
      have : Table.find (Table.set t n v) k ≠ none := by
        intro hn
        exact ((Table.find_none_iff _ _).1 hn) hmem
      rw [Table.find_set_other _ _ _ _ (fun e => hk e.symm)] at this
      exact this ((Table.find_none_iff _ _).2 h.1)

/-- a valued entry is kept with its value -/
def Table.le (t t' : Table) : Prop := ∀ n v, t.find n = some (some v) → t'.find n = some (some v)

theorem Table.le_refl (t : Table) : t.le t := fun _ _ h => h

theorem Table.le_trans {a b c : Table} (h1 : a.le b) (h2 : b.le c) : a.le c :=
  fun n v h => h2 n v (h1 n v h)

theorem Table.le_set (t : Table) (n : Bytes) (v : Option Int) (h : ∀ w, t.find n ≠ some (some w)) :
    t.le (t.set n v) := by
  intro m w hm
  by_cases e : n = m
  · subst e; exact absurd hm (h w)
  · rw [Table.find_set_other _ _ _ _ e]; exact hm

/-! ## the stack of tables behind the literal state -/

/-- the tables from the innermost scope outwards: the current file's, its includer's, …, the global table -/
def tables (s : State) : List Table :=
  s.locals.toList ++ s.globals :: s.frames.filterMap (·.constants)

/-- the task lists, in the same order -/
def taskStack (s : State) : List (List Task) :=
  s.localTasks.toList ++ s.globalTasks :: s.frames.filterMap (·.tasks)

theorem tables_enterFile (s : State) (tag : Nat) : tables (enterFile s tag) = [] :: tables s := by
  unfold tables enterFile
  cases h : s.locals <;> cases h2 : s.localTasks <;> simp

theorem taskStack_enterFile (s : State) (tag : Nat) : taskStack (enterFile s tag) = [] :: taskStack s := by
  unfold taskStack enterFile
  cases h : s.locals <;> cases h2 : s.localTasks <;> simp

theorem tables_intoInner {s s' : State} {f : Saved} {fs : List Saved} (hf : s.frames = f :: fs)
    (hl : s.locals.isSome) (h : intoInner s f fs = .ok s') : tables s' = (tables s).tail := by
  unfold intoInner at h
  split at h
  · cases h
  · split at h
    · cases h
    · cases h
      obtain ⟨l, hl'⟩ := Option.isSome_iff_exists.1 hl
      unfold tables
      cases hc : f.constants <;> cases ht : f.tasks <;> simp [hf, hl', hc]

theorem taskStack_intoInner {s s' : State} {f : Saved} {fs : List Saved} (hf : s.frames = f :: fs)
    (hl : s.localTasks.isSome) (h : intoInner s f fs = .ok s') : taskStack s' = (taskStack s).tail := by
  unfold intoInner at h
  split at h
  · cases h
  · split at h
    · cases h
    · cases h
      obtain ⟨l, hl'⟩ := Option.isSome_iff_exists.1 hl
      unfold taskStack
      cases hc : f.constants <;> cases ht : f.tasks <;> simp [hf, hl', ht]

end Trion.Scope

namespace Trion.Scope

/-! ## what statements and tasks may change: `Eff` -/

def optLe : Option Table → Option Table → Prop
  | none, none => True
  | some a, some b => a.le b
  | _, _ => False

theorem optLe_refl (a : Option Table) : optLe a a := by
  cases a <;> simp [optLe, Table.le_refl]

theorem optLe_trans {a b c : Option Table} (h1 : optLe a b) (h2 : optLe b c) : optLe a c := by
  cases a <;> cases b <;> cases c <;> simp_all [optLe]
  exact Table.le_trans h1 h2

/-- statements and tasks keep the frame stack, the depth and the mode, and only ever add entries or give a value
to an unvalued entry of the two visible tables -/
structure Eff (s s' : State) : Prop where
  depth : s'.depth = s.depth
  frames : s'.frames = s.frames
  mode : s'.mode = s.mode
  locals : optLe s.locals s'.locals
  globals : s.globals.le s'.globals
  ltasks : s'.localTasks.isSome = s.localTasks.isSome

theorem Eff.refl (s : State) : Eff s s :=
  ⟨rfl, rfl, rfl, optLe_refl _, Table.le_refl _, rfl⟩

theorem Eff.trans {a b c : State} (h1 : Eff a b) (h2 : Eff b c) : Eff a c :=
  ⟨h2.depth.trans h1.depth, h2.frames.trans h1.frames, h2.mode.trans h1.mode, optLe_trans h1.locals h2.locals,
   Table.le_trans h1.globals h2.globals, h2.ltasks.trans h1.ltasks⟩

theorem eff_err (s : State) (tag : Nat) (k : Kind) : Eff s (s.err tag k) :=
  ⟨rfl, rfl, rfl, optLe_refl _, Table.le_refl _, rfl⟩

theorem eff_log (s : State) (l : List Ev) : Eff s { s with log := l } :=
  ⟨rfl, rfl, rfl, optLe_refl _, Table.le_refl _, rfl⟩

theorem eff_insertConstant {s s' : State} {n : Bytes} {v : Int} {r : Realm} {res : Except CErr Bool}
    (h : insertConstant s n v r = .ok (s', res)) : Eff s s' := by
  unfold insertConstant at h
  split at h
  · cases h; exact Eff.refl _
  · cases r with
    | global =>
      simp only at h
      split at h <;> cases h
      · rename_i hf
        exact ⟨rfl, rfl, rfl, optLe_refl _, Table.le_set _ _ _ (by simp [hf]), rfl⟩
      · rename_i hf
        exact ⟨rfl, rfl, rfl, optLe_refl _, Table.le_set _ _ _ (by simp [hf]), rfl⟩
      · exact Eff.refl _
    | loc =>
      simp only at h
      split at h
      · cases h
      · rename_i l hl
        split at h <;> cases h
        · rename_i hf
          refine ⟨rfl, rfl, rfl, ?_, Table.le_refl _, rfl⟩
          rw [hl]; exact Table.le_set _ _ _ (by simp [hf])
        · rename_i hf
          refine ⟨rfl, rfl, rfl, ?_, Table.le_refl _, rfl⟩
          rw [hl]; exact Table.le_set _ _ _ (by simp [hf])
        · exact Eff.refl _

theorem eff_deferConstant {s s' : State} {n : Bytes} {r : Realm} {res : Except CErr Unit}
    (h : deferConstant s n r = .ok (s', res)) : Eff s s' := by
  unfold deferConstant at h
  split at h
  · cases h; exact Eff.refl _
  · cases r with
    | global =>
      simp only at h
      split at h <;> cases h
      · exact Eff.refl _
      · rename_i hf
        exact ⟨rfl, rfl, rfl, optLe_refl _, Table.le_set _ _ _ (by simp [hf]), rfl⟩
    | loc =>
      simp only at h
      split at h
      · cases h
      · rename_i l hl
        split at h <;> cases h
        · exact Eff.refl _
        · rename_i hf
          refine ⟨rfl, rfl, rfl, ?_, Table.le_refl _, rfl⟩
          rw [hl]; exact Table.le_set _ _ _ (by simp [hf])

theorem eff_addTask {s s' : State} {t : Task} {r : Realm} (h : addTask s t r = .ok s') : Eff s s' := by
  unfold addTask at h
  cases r with
  | global => cases h; exact ⟨rfl, rfl, rfl, optLe_refl _, Table.le_refl _, rfl⟩
  | loc =>
    simp only at h
    split at h
    · cases h
    · rename_i l hl
      cases h
      exact ⟨rfl, rfl, rfl, optLe_refl _, Table.le_refl _, by simp [hl]⟩

end Trion.Scope

namespace Trion.Scope

theorem eff_doLabel {s s' : State} {n : Bytes} {v : Int} {tag : Nat} {r : Option Level}
    (h : doLabel s n v tag = .ok (s', r)) : Eff s s' := by
  unfold doLabel at h
  split at h
  · cases h
  all_goals
    rename_i hi; cases h
    first | exact eff_insertConstant hi | exact (eff_insertConstant hi).trans (eff_err _ _ _)

theorem eff_doConst {s s' : State} {n : Bytes} {v : Int} {tag : Nat} {r : Option Level}
    (h : doConst s n v tag = .ok (s', r)) : Eff s s' := by
  unfold doConst at h
  split at h
  · cases h
  all_goals
    rename_i hi; cases h
    first | exact eff_insertConstant hi | exact (eff_insertConstant hi).trans (eff_err _ _ _)

theorem eff_runGlobalCopy {s s' : State} {n : Bytes} {tag : Nat} {r : Option Level}
    (h : runGlobalCopy s n tag = .ok (s', r)) : Eff s s' := by
  unfold runGlobalCopy at h
  split at h
  · cases h
  · cases h; exact eff_err _ _ _
  · cases h; exact eff_err _ _ _
  · split at h
    · cases h
    · rename_i hi; cases h; exact eff_insertConstant hi
    · rename_i hi; cases h; exact (eff_insertConstant hi).trans (eff_err _ _ _)
    · cases h

theorem eff_doGlobal {s s' : State} {n : Bytes} {tag : Nat} {r : Option Level}
    (h : doGlobal s n tag = .ok (s', r)) : Eff s s' := by
  unfold doGlobal at h
  split at h
  · cases h
  · rename_i hd; cases h; exact (eff_deferConstant hd).trans (eff_err _ _ _)
  · rename_i hd; cases h; exact (eff_deferConstant hd).trans (eff_err _ _ _)
  · rename_i s1 hd
    have e1 := eff_deferConstant hd
    split at h
    · cases h
    · split at h
      · cases h
      · cases h
      · cases h
      · rename_i hi; cases h; exact e1.trans (eff_insertConstant hi)
    · split at h
      · cases h
      · cases h
      · rename_i s2 hd2
        split at h
        · cases h
        · rename_i ha; cases h; exact e1.trans ((eff_deferConstant hd2).trans (eff_addTask ha))
    · split at h
      · cases h
      · rename_i ha; cases h; exact e1.trans (eff_addTask ha)

theorem eff_doImport {s s' : State} {n : Bytes} {tag : Nat} {r : Option Level}
    (h : doImport s n tag = .ok (s', r)) : Eff s s' := by
  unfold doImport at h
  split at h
  · cases h
  · cases h; exact eff_err _ _ _
  · split at h
    · cases h
    · rename_i hd; cases h; exact eff_deferConstant hd
    · rename_i hd; cases h; exact (eff_deferConstant hd).trans (eff_err _ _ _)
    · cases h
  · split at h
    · cases h
    · rename_i hi; cases h; exact eff_insertConstant hi
    · rename_i hi; cases h; exact (eff_insertConstant hi).trans (eff_err _ _ _)
    · cases h

theorem eff_doExport {s s' : State} {n : Bytes} {tag : Nat} {r : Option Level}
    (h : doExport s n tag = .ok (s', r)) : Eff s s' := by
  unfold doExport at h
  split at h
  · cases h
  · cases h; exact eff_err _ _ _
  · cases h; exact eff_err _ _ _
  · split at h
    · cases h
    · rename_i hi; cases h; exact eff_insertConstant hi
    · rename_i hi; cases h; exact (eff_insertConstant hi).trans (eff_err _ _ _)
    · cases h

theorem eff_writeVal (s : State) (tag : Nat) (v : Int) (stage : Nat) : Eff s (writeVal s tag v stage).1 := by
  unfold writeVal
  split
  · exact eff_log _ _
  · exact eff_err _ _ _

theorem eff_applyUse {s s' : State} {n : Bytes} {c c' : Option Int} {tag stage : Nat} {b : Bool}
    {r : Except Level DataOp} (h : applyUse s n c tag stage b = .ok (s', r, c')) : Eff s s' := by
  unfold applyUse at h
  split at h
  · rename_i v
    have e := eff_writeVal s tag v stage
    split at h <;> (rename_i hw; cases h; rw [hw] at e; exact e)
  · split at h
    · cases h; exact eff_err _ _ _
    · split at h
      · cases h
      · split at h <;> cases h
        · exact Eff.refl _
        · exact eff_err _ _ _
      · cases h; exact Eff.refl _
      · rename_i v _
        have e := eff_writeVal s tag v stage
        split at h <;> (rename_i hw; cases h; rw [hw] at e; exact e)

theorem eff_runUse {s s' : State} {n : Bytes} {c : Option Int} {tag : Nat} {g : Bool} {r : Option Level}
    (h : runUse s n c tag g = .ok (s', r)) : Eff s s' := by
  unfold runUse at h
  split at h
  · cases h
  · rename_i ha; cases h; exact eff_applyUse ha
  · rename_i ha
    split at h
    · cases h; exact (eff_applyUse ha).trans (eff_err _ _ _)
    · split at h
      · cases h
      · rename_i hadd; cases h; exact (eff_applyUse ha).trans (eff_addTask hadd)
  · rename_i ha; cases h; exact eff_applyUse ha

theorem eff_doUse {s s' : State} {n : Bytes} {tag : Nat} {r : Option Level}
    (h : doUse s n tag = .ok (s', r)) : Eff s s' := by
  unfold doUse at h
  split at h
  · cases h
  · rename_i ha; cases h; exact eff_applyUse ha
  · rename_i ha
    split at h
    · cases h
    · rename_i hadd; cases h; exact (eff_applyUse ha).trans (eff_addTask hadd)

theorem eff_runTask {s s' : State} {t : Task} {r : Option Level} (h : runTask s t = .ok (s', r)) : Eff s s' := by
  cases t with
  | globalCopy n tag => exact eff_runGlobalCopy h
  | use n c tag g => exact eff_runUse h

theorem eff_stmt {s s' : State} {op : Op} {r : Option Level} (h : stmt s op = .ok (s', r)) : Eff s s' := by
  cases op <;> simp only [stmt] at h
  case label => exact eff_doLabel h
  case const => exact eff_doConst h
  case global => exact eff_doGlobal h
  case «import» => exact eff_doImport h
  case «export» => exact eff_doExport h
  case use => exact eff_doUse h
  all_goals (cases h; exact Eff.refl _)

theorem eff_drain {ts : List Task} : ∀ {s s' : State} {r r' : Option Level},
    drain s r ts = .ok (s', r') → Eff s s' := by
  induction ts with
  | nil => intro s s' r r' h; simp only [drain] at h; cases h; exact Eff.refl _
  | cons t ts ih =>
    intro s s' r r' h
    simp only [drain] at h
    split at h
    · cases h
    · rename_i ht; exact (eff_runTask ht).trans (ih h)
    · rename_i ht
      split at h
      · cases h; exact eff_runTask ht
      · exact (eff_runTask ht).trans (ih h)

end Trion.Scope

namespace Trion.Scope

theorem eff_localLoop : ∀ (fuel : Nat) {s s' : State} {r r' : Option Level} (ts : List Task),
    localLoop fuel s r ts = .ok (s', r') → Eff s s' := by
  intro fuel
  induction fuel with
  | zero =>
    intro s s' r r' ts h
    cases ts with
    | nil => simp only [localLoop] at h; cases h; exact Eff.refl _
    | cons t ts => simp only [localLoop] at h; cases h
  | succ fuel ih =>
    intro s s' r r' ts h
    cases ts with
    | nil => simp only [localLoop] at h; cases h; exact Eff.refl _
    | cons t ts =>
      simp only [localLoop] at h
      split at h
      · cases h
      · rename_i s1 r1 hd
        have e1 := eff_drain hd
        split at h
        · cases h
        · rename_i next hn
          have e2 : Eff s1 { s1 with localTasks := some [] } :=
            ⟨rfl, rfl, rfl, optLe_refl _, Table.le_refl _, by simp [hn]⟩
          split at h
          · cases h; exact e1.trans e2
          · exact e1.trans (e2.trans (ih _ h))

/-- pointwise `Table.le` on two stacks of the same height -/
def stackLe : List Table → List Table → Prop
  | [], [] => True
  | a :: as, b :: bs => a.le b ∧ stackLe as bs
  | _, _ => False

theorem stackLe_refl : ∀ (a : List Table), stackLe a a
  | [] => trivial
  | t :: ts => ⟨Table.le_refl t, stackLe_refl ts⟩

theorem stackLe_trans : ∀ {a b c : List Table}, stackLe a b → stackLe b c → stackLe a c
  | [], [], [], _, _ => trivial
  | _ :: _, _ :: _, _ :: _, h1, h2 => ⟨Table.le_trans h1.1 h2.1, stackLe_trans h1.2 h2.2⟩
  | [], [], _ :: _, _, h2 => h2.elim
  | [], _ :: _, _, h1, _ => h1.elim
  | _ :: _, [], _, h1, _ => h1.elim
  | _ :: _, _ :: _, [], _, h2 => h2.elim

theorem stackLe_length : ∀ {a b : List Table}, stackLe a b → a.length = b.length
  | [], [], _ => rfl
  | _ :: _, _ :: _, h => by simp [stackLe_length h.2]
  | [], _ :: _, h => h.elim
  | _ :: _, [], h => h.elim

theorem stackLe_get : ∀ {a b : List Table}, stackLe a b → ∀ (j : Nat) (t t' : Table),
    a[j]? = some t → b[j]? = some t' → t.le t'
  | [], [], _, j, t, t', h1, _ => by simp at h1
  | x :: xs, y :: ys, h, 0, t, t', h1, h2 => by
    simp at h1 h2; subst h1; subst h2; exact h.1
  | x :: xs, y :: ys, h, j + 1, t, t', h1, h2 => by
    simp at h1 h2; exact stackLe_get h.2 j t t' h1 h2
  | [], _ :: _, h, _, _, _, _, _ => h.elim
  | _ :: _, [], h, _, _, _, _, _ => h.elim

/-- the tables of two `Eff`-related states -/
theorem stackLe_of_eff {s s' : State} (h : Eff s s') : stackLe (tables s) (tables s') := by
  unfold tables
  rw [h.frames]
  have hl := h.locals
  cases h1 : s.locals <;> cases h2 : s'.locals <;> simp [h1, h2, optLe] at hl ⊢
  · exact ⟨h.globals, stackLe_refl _⟩
  · exact ⟨hl, h.globals, stackLe_refl _⟩

end Trion.Scope

namespace Trion.Scope

theorem optLe_isSome {a b : Option Table} (h : optLe a b) : b.isSome = a.isSome := by
  cases a <;> cases b <;> simp_all [optLe]

theorem intoInner_depth {s s' : State} {f : Saved} {fs : List Saved} (h : intoInner s f fs = .ok s') :
    s'.depth + 1 = s.depth ∧ s'.frames = fs ∧ s'.mode = s.mode ∧ s'.log = s.log := by
  unfold intoInner at h
  split at h
  · cases h
  · split at h
    · cases h
    · rename_i d hd; cases h; simp [hd]

/-- leaving a file: the tasks of the file run (changing only the two visible tables, monotonically), then exactly the
innermost table is popped and one frame is removed — whatever the result of the file was -/
theorem exitFile_stack {s s' : State} {r : Option Level} {f : Saved} {fs : List Saved}
    (hl : s.locals.isSome) (hf : s.frames = f :: fs) (h : exitFile s r = .ok s') :
    ∃ mid, Eff s mid ∧ tables s' = (tables mid).tail ∧ s'.depth + 1 = s.depth ∧ s'.frames = fs := by
  unfold exitFile at h
  rw [hf] at h
  simp only at h
  split at h
  · cases h
  · rename_i mid r' hloop
    have hmid : Eff s mid := by
      split at hloop
      · cases hloop; exact Eff.refl _
      · split at hloop
        · cases hloop
        · rename_i tasks ht
          have e1 : Eff s { s with localTasks := some [], frames := f :: fs } :=
            ⟨rfl, hf.symm, rfl, optLe_refl _, Table.le_refl _, by simp [ht]⟩
          exact e1.trans (eff_localLoop _ _ hloop)
    refine ⟨mid, hmid, ?_⟩
    split at h
    · cases h
    · rename_i s2 hin
      have hfm : mid.frames = f :: fs := by rw [hmid.frames, hf]
      have hlm : mid.locals.isSome := by rw [optLe_isSome hmid.locals]; exact hl
      have ht := tables_intoInner hfm hlm hin
      have hd := intoInner_depth hin
      split at h <;> cases h
      · refine ⟨?_, ?_, ?_⟩
        · rw [← ht]; rfl
        · have := hd.1; rw [hmid.depth] at this; exact this
        · exact hd.2.1
      · refine ⟨?_, ?_, ?_⟩
        · rw [← ht]; rfl
        · have := hd.1; rw [hmid.depth] at this; exact this
        · exact hd.2.1

end Trion.Scope

namespace Trion.Scope

theorem stackLe_append : ∀ {a b c d : List Table}, stackLe a b → stackLe c d → stackLe (a ++ c) (b ++ d)
  | [], [], _, _, _, h2 => h2
  | _ :: _, _ :: _, _, _, h1, h2 => ⟨h1.1, stackLe_append h1.2 h2⟩
  | [], _ :: _, _, _, h1, _ => h1.elim
  | _ :: _, [], _, _, h1, _ => h1.elim

theorem stackLe_reverse : ∀ {a b : List Table}, stackLe a b → stackLe a.reverse b.reverse
  | [], [], _ => trivial
  | x :: xs, y :: ys, h => by
    rw [List.reverse_cons, List.reverse_cons]
    exact stackLe_append (stackLe_reverse h.2) ⟨h.1, trivial⟩
  | [], _ :: _, h => h.elim
  | _ :: _, [], h => h.elim

theorem stackLe_get_rev {a b : List Table} (h : stackLe a b) (i : Nat) (t t' : Table)
    (hi : a.reverse[i]? = some t) (hi' : b.reverse[i]? = some t') : t.le t' :=
  stackLe_get (stackLe_reverse h) i t t' hi hi'

theorem eff_drainFinal {ts : List Task} : ∀ {s s' : State} {b : Bool},
    drainFinal s ts = .ok (s', b) → Eff s s' := by
  induction ts with
  | nil => intro s s' b h; simp only [drainFinal] at h; cases h; exact Eff.refl _
  | cons t ts ih =>
    intro s s' b h
    simp only [drainFinal] at h
    split at h
    · cases h
    · rename_i ht; cases h; exact eff_runTask ht
    · rename_i ht; exact (eff_runTask ht).trans (ih h)

theorem eff_finalLoop : ∀ (fuel : Nat) {s s' : State} {b : Bool} (ts : List Task),
    finalLoop fuel s ts = .ok (s', b) → Eff s s' := by
  intro fuel
  induction fuel with
  | zero =>
    intro s s' b ts h
    cases ts with
    | nil => simp only [finalLoop] at h; cases h; exact Eff.refl _
    | cons t ts => simp only [finalLoop] at h; cases h
  | succ fuel ih =>
    intro s s' b ts h
    cases ts with
    | nil => simp only [finalLoop] at h; cases h; exact Eff.refl _
    | cons t ts =>
      simp only [finalLoop] at h
      split at h
      · cases h
      · rename_i s1 abort hd
        have e1 := eff_drainFinal hd
        have e2 : Eff s1 { s1 with globalTasks := [] } := ⟨rfl, rfl, rfl, optLe_refl _, Table.le_refl _, rfl⟩
        split at h
        · cases h; exact e1.trans e2
        · exact e1.trans (e2.trans (ih _ h))

theorem eff_finalize {s s' : State} (h : finalize s = .ok s') : Eff s s' := by
  unfold finalize at h
  split at h
  · cases h
  · rename_i s1 abort hl
    cases h
    have e0 : Eff s { s with globalTasks := [] } := ⟨rfl, rfl, rfl, optLe_refl _, Table.le_refl _, rfl⟩
    exact e0.trans ((eff_finalLoop _ _ hl).trans (eff_log _ _))

/-- a statement op in `running` mode: `Eff` up to the mode -/
theorem stackLe_step_stmt {s s' : State} {op : Op} (hm : s.mode = .running)
    (h1 : ∀ tag, op ≠ .enter tag) (h2 : op ≠ .exit) (h3 : op ≠ .finalize) (h : step s op = .ok s') :
    stackLe (tables s) (tables s') ∧ s'.frames = s.frames ∧ s'.depth = s.depth := by
  have key : ∀ (h' : (match s.frames with
      | [] => Except.ok s
      | _ :: _ =>
        match stmt s op with
        | .error p => .error p
        | .ok (s, none) => .ok s
        | .ok (s, some l) => .ok { s with mode := .stopped l 0 }) = Except.ok s'),
      stackLe (tables s) (tables s') ∧ s'.frames = s.frames ∧ s'.depth = s.depth := by
    intro h'
    split at h'
    · cases h'; exact ⟨stackLe_refl _, rfl, rfl⟩
    · split at h'
      · cases h'
      · rename_i hs; cases h'
        have e := eff_stmt hs
        exact ⟨stackLe_of_eff e, e.frames, e.depth⟩
      · rename_i hs; cases h'
        have e := eff_stmt hs
        exact ⟨(stackLe_of_eff e : stackLe (tables s) (tables _)), e.frames, e.depth⟩
  cases op with
  | enter tag => exact absurd rfl (h1 tag)
  | exit => exact absurd rfl h2
  | finalize => exact absurd rfl h3
  | label n v tag => simp only [step, hm] at h; exact key h
  | const n v tag => simp only [step, hm] at h; exact key h
  | global n tag => simp only [step, hm] at h; exact key h
  | «import» n tag => simp only [step, hm] at h; exact key h
  | «export» n tag => simp only [step, hm] at h; exact key h
  | use n tag => simp only [step, hm] at h; exact key h

end Trion.Scope

namespace Trion.Scope

/-! ## exact effect of the table primitives -/

theorem insertConstant_loc_char {s s' : State} {n : Bytes} {v : Int} {r : Except CErr Bool}
    (h : insertConstant s n v .loc = .ok (s', r)) :
    s'.globals = s.globals ∧ (s'.locals = s.locals ∨
      ∃ l, s.locals = some l ∧ (∀ w, l.find n ≠ some (some w)) ∧ s'.locals = some (l.set n (some v))) := by
  unfold insertConstant at h
  split at h
  · cases h; exact ⟨rfl, .inl rfl⟩
  · simp only at h
    split at h
    · cases h
    · rename_i l hl
      split at h <;> cases h
      · rename_i hf; exact ⟨rfl, .inr ⟨l, hl, by simp [hf], rfl⟩⟩
      · rename_i hf; exact ⟨rfl, .inr ⟨l, hl, by simp [hf], rfl⟩⟩
      · exact ⟨rfl, .inl rfl⟩

theorem insertConstant_glob_char {s s' : State} {n : Bytes} {v : Int} {r : Except CErr Bool}
    (h : insertConstant s n v .global = .ok (s', r)) :
    s'.locals = s.locals ∧ (s'.globals = s.globals ∨
      ((∀ w, s.globals.find n ≠ some (some w)) ∧ s'.globals = s.globals.set n (some v))) := by
  unfold insertConstant at h
  split at h
  · cases h; exact ⟨rfl, .inl rfl⟩
  · simp only at h
    split at h <;> cases h
    · rename_i hf; exact ⟨rfl, .inr ⟨by simp [hf], rfl⟩⟩
    · rename_i hf; exact ⟨rfl, .inr ⟨by simp [hf], rfl⟩⟩
    · exact ⟨rfl, .inl rfl⟩

theorem deferConstant_loc_char {s s' : State} {n : Bytes} {r : Except CErr Unit}
    (h : deferConstant s n .loc = .ok (s', r)) :
    s'.globals = s.globals ∧ (s'.locals = s.locals ∨
      ∃ l, s.locals = some l ∧ l.find n = none ∧ s'.locals = some (l.set n none)) := by
  unfold deferConstant at h
  split at h
  · cases h; exact ⟨rfl, .inl rfl⟩
  · simp only at h
    split at h
    · cases h
    · rename_i l hl
      split at h <;> cases h
      · exact ⟨rfl, .inl rfl⟩
      · rename_i hf; exact ⟨rfl, .inr ⟨l, hl, hf, rfl⟩⟩

theorem deferConstant_glob_char {s s' : State} {n : Bytes} {r : Except CErr Unit}
    (h : deferConstant s n .global = .ok (s', r)) :
    s'.locals = s.locals ∧ (s'.globals = s.globals ∨
      (s.globals.find n = none ∧ s'.globals = s.globals.set n none)) := by
  unfold deferConstant at h
  split at h
  · cases h; exact ⟨rfl, .inl rfl⟩
  · simp only at h
    split at h <;> cases h
    · exact ⟨rfl, .inl rfl⟩
    · rename_i hf; exact ⟨rfl, .inr ⟨hf, rfl⟩⟩

theorem addTask_tables {s s' : State} {t : Task} {r : Realm} (h : addTask s t r = .ok s') :
    s'.locals = s.locals ∧ s'.globals = s.globals := by
  unfold addTask at h
  cases r with
  | global => cases h; exact ⟨rfl, rfl⟩
  | loc =>
    simp only at h
    split at h
    · cases h
    · cases h; exact ⟨rfl, rfl⟩

theorem getConstant_loc {s : State} {n : Bytes} {l : Table} (hl : s.locals = some l) :
    getConstant s n .loc = .ok (l.get n) := by
  simp [getConstant, hl]

theorem get_found {t : Table} {n : Bytes} {v : Int} (h : t.get n = .found v) : t.find n = some (some v) := by
  unfold Table.get at h
  split at h <;> simp_all

theorem get_notFound {t : Table} {n : Bytes} (h : t.get n = .notFound) : t.find n = none := by
  unfold Table.get at h
  split at h <;> simp_all

theorem get_deferred {t : Table} {n : Bytes} (h : t.get n = .deferred) : t.find n = some none := by
  unfold Table.get at h
  split at h <;> simp_all

/-- `applyUse` never touches a table -/
theorem applyUse_tables {s s' : State} {n : Bytes} {c c' : Option Int} {tag stage : Nat} {b : Bool}
    {r : Except Level DataOp} (h : applyUse s n c tag stage b = .ok (s', r, c')) :
    s'.locals = s.locals ∧ s'.globals = s.globals := by
  have wv : ∀ v, (writeVal s tag v stage).1.locals = s.locals ∧ (writeVal s tag v stage).1.globals = s.globals := by
    intro v; unfold writeVal; split <;> exact ⟨rfl, rfl⟩
  unfold applyUse at h
  split at h
  · rename_i v
    split at h <;> (rename_i hw; cases h; have := wv v; rw [hw] at this; exact this)
  · split at h
    · cases h; exact ⟨rfl, rfl⟩
    · split at h
      · cases h
      · split at h <;> cases h <;> exact ⟨rfl, rfl⟩
      · cases h; exact ⟨rfl, rfl⟩
      · rename_i v _
        split at h <;> (rename_i hw; cases h; have := wv v; rw [hw] at this; exact this)

theorem runUse_tables {s s' : State} {n : Bytes} {c : Option Int} {tag : Nat} {g : Bool} {r : Option Level}
    (h : runUse s n c tag g = .ok (s', r)) : s'.locals = s.locals ∧ s'.globals = s.globals := by
  unfold runUse at h
  split at h
  · cases h
  · rename_i ha; cases h; exact applyUse_tables ha
  · rename_i ha
    have e := applyUse_tables ha
    split at h
    · cases h; exact e
    · split at h
      · cases h
      · rename_i hadd; cases h
        have e2 := addTask_tables hadd
        exact ⟨e2.1.trans e.1, e2.2.trans e.2⟩
  · rename_i ha; cases h; exact applyUse_tables ha

theorem doUse_tables {s s' : State} {n : Bytes} {tag : Nat} {r : Option Level}
    (h : doUse s n tag = .ok (s', r)) : s'.locals = s.locals ∧ s'.globals = s.globals := by
  unfold doUse at h
  split at h
  · cases h
  · rename_i ha; cases h; exact applyUse_tables ha
  · rename_i ha
    have e := applyUse_tables ha
    split at h
    · cases h
    · rename_i hadd; cases h
      have e2 := addTask_tables hadd
      exact ⟨e2.1.trans e.1, e2.2.trans e.2⟩

end Trion.Scope

namespace Trion.Scope

theorem deferConstant_error {s s' : State} {n : Bytes} {r : Realm} {e : CErr}
    (h : deferConstant s n r = .ok (s', .error e)) : s' = s := by
  unfold deferConstant at h
  split at h
  · cases h; rfl
  · cases r with
    | global => simp only at h; split at h <;> cases h; rfl
    | loc =>
      simp only at h
      split at h
      · cases h
      · split at h <;> cases h; rfl

end Trion.Scope

namespace Trion.Scope

/-! ## a reachable-state invariant: `locals` is `Some` exactly while a file is open -/

def framesOk : List Saved → Prop
  | [] => True
  | f :: fs => (f.constants.isSome ↔ fs ≠ []) ∧ framesOk fs

/-- `locals.is_some()` iff an `assemble` call is active, and each saved table is `Some` iff there is an outer frame -/
structure Open (s : State) : Prop where
  locals : s.locals.isSome ↔ s.frames ≠ []
  frames : framesOk s.frames

theorem open_init : Open init := ⟨by simp [init], trivial⟩

theorem open_enterFile {s : State} (h : Open s) (tag : Nat) : Open (enterFile s tag) := by
  unfold enterFile
  constructor
  · simp
  · cases hl : s.locals with
    | none =>
      have : s.frames = [] := by
        by_cases hf : s.frames = []
        · exact hf
        · have := h.locals.2 hf; rw [hl] at this; cases this
      cases ht : s.localTasks <;> simp [framesOk, this]
    | some c =>
      have : s.frames ≠ [] := h.locals.1 (by rw [hl]; rfl)
      cases ht : s.localTasks <;> simp [framesOk, this, h.frames]

theorem open_of_eff {s s' : State} (h : Open s) (e : Eff s s') : Open s' :=
  ⟨by rw [optLe_isSome e.locals, e.frames]; exact h.locals, by rw [e.frames]; exact h.frames⟩

theorem open_intoInner {s s' : State} {f : Saved} {fs : List Saved} (hf : s.frames = f :: fs) (h : Open s)
    (hi : intoInner s f fs = .ok s') : Open s' := by
  have hfo := h.frames
  rw [hf] at hfo
  unfold intoInner at hi
  split at hi
  · cases hi
  · split at hi
    · cases hi
    · have h1 := hfo.1
      cases hc : f.constants <;> cases ht : f.tasks <;> simp only [hc, ht] at hi h1 <;> cases hi <;>
        exact ⟨by simpa using h1, hfo.2⟩

theorem open_exitFile {s s' : State} {r : Option Level} (h : Open s) (he : exitFile s r = .ok s') : Open s' := by
  unfold exitFile at he
  split at he
  · cases he; exact h
  · rename_i f fs hf
    simp only at he
    split at he
    · cases he
    · rename_i mid r' hloop
      have hmid : Eff s mid := by
        split at hloop
        · cases hloop; exact Eff.refl _
        · split at hloop
          · cases hloop
          · rename_i tasks ht
            have e1 : Eff s { s with localTasks := some [] } :=
              ⟨rfl, rfl, rfl, optLe_refl _, Table.le_refl _, by simp [ht]⟩
            exact e1.trans (eff_localLoop _ _ hloop)
      have hom := open_of_eff h hmid
      split at he
      · cases he
      · rename_i s2 hin
        have ho2 := open_intoInner (by rw [hmid.frames, hf]) hom hin
        split at he <;> cases he
        · exact ⟨ho2.locals, ho2.frames⟩
        · exact ⟨ho2.locals, ho2.frames⟩

theorem open_step {s s' : State} {op : Op} (h : Open s) (hs : step s op = .ok s') : Open s' := by
  cases hm : s.mode with
  | stopped l k =>
    cases op <;> cases k <;> simp only [step, hm] at hs
    all_goals first
      | (cases hs; exact ⟨h.locals, h.frames⟩)
      | exact open_exitFile h hs
  | running =>
    have stmtCase : ∀ (h' : (match s.frames with
        | [] => Except.ok s
        | _ :: _ =>
          match stmt s op with
          | .error p => .error p
          | .ok (s, none) => .ok s
          | .ok (s, some l) => .ok { s with mode := .stopped l 0 }) = Except.ok s'), Open s' := by
      intro h'
      split at h'
      · cases h'; exact h
      · split at h'
        · cases h'
        · rename_i hst; cases h'; exact open_of_eff h (eff_stmt hst)
        · rename_i hst; cases h'
          have := open_of_eff h (eff_stmt hst)
          exact ⟨this.locals, this.frames⟩
    cases op with
    | enter tag => simp only [step, hm] at hs; cases hs; exact open_enterFile h tag
    | exit => simp only [step, hm] at hs; exact open_exitFile h hs
    | finalize => simp only [step, hm] at hs; exact open_of_eff h (eff_finalize hs)
    | label n v tag => simp only [step, hm] at hs; exact stmtCase hs
    | const n v tag => simp only [step, hm] at hs; exact stmtCase hs
    | global n tag => simp only [step, hm] at hs; exact stmtCase hs
    | «import» n tag => simp only [step, hm] at hs; exact stmtCase hs
    | «export» n tag => simp only [step, hm] at hs; exact stmtCase hs
    | use n tag => simp only [step, hm] at hs; exact stmtCase hs

theorem open_run : ∀ (ops : List Op) {s s' : State}, Open s → run s ops = .ok s' → Open s'
  | [], s, s', h, hr => by simp only [run] at hr; cases hr; exact h
  | op :: ops, s, s', h, hr => by
    simp only [run] at hr
    split at hr
    · cases hr
    · rename_i s1 hs
      exact open_run ops (open_step h hs) hr

end Trion.Scope
