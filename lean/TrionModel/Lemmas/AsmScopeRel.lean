import TrionModel.Lemmas.AsmScope
/-!
# `Trion.Asm`: what a file does to its own table and to its includer's (C14 on the whole-pipeline model)

`Rel N st st'` — inside a file, between two of its states: the file's own table (`locals`) only grew
(`Table.le`: valued entries keep their value), the includer's table (`globals`) changed only at the names `N`, where an
absent or unvalued entry received the file's own value (`Upd`), every closure of `.global` that is new in the file's
queue captured a name of `N`, and nothing but retries of statements is new in the includer's queue.

Proved for every statement (`statement_rel`, with `N` = the name the statement itself exports or declares global),
`do_assemble` (`doAssemble_rel`), every task and both task loops, a whole file (`fileBody_rel`) and — by induction on
the include depth — for `.include` (`assembleFile_rel`: `N = []` for the includer, whose `globals` is literally restored).
-/
namespace Trion.Asm
open Trion

/-- the closure came from a `.global` of a name in `N` (retries of statements are unconstrained) -/
def Task.fromN (N : List Bytes) : Task → Prop
  | .globalCopy n _ _ => n ∈ N
  | _ => True

theorem Task.fromN_of_notCopy {t : Task} (N : List Bytes) (h : t.notCopy = true) : t.fromN N := by
  cases t <;> simp_all [Task.notCopy, Task.fromN]

theorem Task.fromN_mono {t : Task} {N N' : List Bytes} (h : t.fromN N) (hn : ∀ m ∈ N, m ∈ N') : t.fromN N' := by
  cases t with
  | globalCopy n l c => exact hn n h
  | data => trivial
  | instr => trivial

structure Rel (N : List Bytes) (st st' : St) : Prop where
  tabs : ∃ C C', st.locals = some C ∧ st'.locals = some C' ∧ C.le C' ∧ Upd N st.globals st'.globals C'
  lt : ∀ q', st'.localTasks = some q' → ∀ t ∈ q', (∃ q, st.localTasks = some q ∧ t ∈ q) ∨ t.fromN N
  gt : ∀ t ∈ st'.globalTasks, t ∈ st.globalTasks ∨ t.notCopy = true

theorem Rel.refl (N : List Bytes) {st : St} {C : Table} (h : st.locals = some C) : Rel N st st :=
  ⟨⟨C, C, h, h, Table.le_refl _, Upd.refl _ _ _⟩, fun q hq _ ht => .inl ⟨q, hq, ht⟩, fun _ h => .inl h⟩

theorem Rel.trans {N : List Bytes} {a b c : St} (h1 : Rel N a b) (h2 : Rel N b c) : Rel N a c := by
  obtain ⟨C, C1, hC, hC1, le1, u1⟩ := h1.tabs
  obtain ⟨C1', C2, hC1', hC2, le2, u2⟩ := h2.tabs
  rw [hC1] at hC1'; cases hC1'
  refine ⟨⟨C, C2, hC, hC2, Table.le_trans le1 le2, u1.trans u2 le2⟩, fun q hq t ht => ?_, fun t ht => ?_⟩
  · rcases h2.lt q hq t ht with ⟨q1, hq1, ht1⟩ | h
    · exact h1.lt q1 hq1 t ht1
    · exact .inr h
  · rcases h2.gt t ht with h | h
    · exact h1.gt t h
    · exact .inr h

theorem Rel.mono {N N' : List Bytes} {a b : St} (h : Rel N a b) (hn : ∀ m ∈ N, m ∈ N') : Rel N' a b := by
  obtain ⟨C, C', hC, hC', le, u⟩ := h.tabs
  refine ⟨⟨C, C', hC, hC', le, u.mono hn (Table.le_refl _)⟩, fun q hq t ht => ?_, h.gt⟩
  rcases h.lt q hq t ht with h1 | h1
  · exact .inl h1
  · exact .inr (Task.fromN_mono h1 hn)

theorem Rel.of_quiet (N : List Bytes) {st st' : St} {C : Table} (hC : st.locals = some C) (h : Quiet st st') :
    Rel N st st' := by
  refine ⟨⟨C, C, hC, h.locals.trans hC, Table.le_refl _, ?_⟩, fun q hq t ht => ?_, h.gt⟩
  · rw [h.globals]; exact Upd.refl _ _ _
  · rcases h.lt q hq t ht with h1 | h1
    · exact .inl h1
    · exact .inr (Task.fromN_of_notCopy N h1)

theorem Rel.locals_some {N : List Bytes} {a b : St} (h : Rel N a b) : ∃ C', b.locals = some C' := by
  obtain ⟨_, C', _, hC', _⟩ := h.tabs
  exact ⟨C', hC'⟩

theorem Rel.then_quiet {N : List Bytes} {a b c : St} (h1 : Rel N a b) (h2 : Quiet b c) : Rel N a c := by
  obtain ⟨C', hC'⟩ := h1.locals_some
  exact h1.trans (.of_quiet N hC' h2)

/-- a state that differs at most in the two tables -/
theorem rel_of_tabs {N : List Bytes} {st st' : St} {C C' : Table} (hC : st.locals = some C) (hC' : st'.locals = some C')
    (le : C.le C') (u : Upd N st.globals st'.globals C') (hr : st'.rest = st.rest) : Rel N st st' := by
  simp only [St.rest, Prod.mk.injEq] at hr
  obtain ⟨_, hg, hl, _⟩ := hr
  exact ⟨⟨C, C', hC, hC', le, u⟩, fun q hq _ ht => .inl ⟨q, hl ▸ hq, ht⟩, fun _ h => .inl (hg ▸ h)⟩

/-! ## the table primitives -/

theorem insertConstant_loc_rel {N : List Bytes} {st st' : St} {C : Table} {n : Bytes} {v : Int} {x : Except CErr Bool}
    (hC : st.locals = some C) (h : insertConstant st n v .loc = .ok (st', x)) : Rel N st st' := by
  rcases insertConstant_char h with ⟨rfl, _⟩ | ⟨t, b, _, ht, hn, ht', ho, hr, _, _⟩
  · exact .refl N hC
  · simp only [St.tab, Realm.other, Option.some.injEq] at ht ht' ho
    rw [hC] at ht; cases ht
    refine rel_of_tabs hC ht' (Table.le_set _ _ _ hn) ?_ hr
    rw [ho]; exact Upd.refl _ _ _

theorem deferConstant_loc_rel {N : List Bytes} {st st' : St} {C : Table} {n : Bytes} {x : Except CErr Unit}
    (hC : st.locals = some C) (h : deferConstant st n .loc = .ok (st', x)) : Rel N st st' := by
  rcases deferConstant_char h with ⟨rfl, _⟩ | ⟨t, _, ht, hn, ht', ho, hr, _⟩
  · exact .refl N hC
  · simp only [St.tab, Realm.other, Option.some.injEq] at ht ht' ho
    rw [hC] at ht; cases ht
    refine rel_of_tabs hC ht' (Table.le_set _ _ _ (by simp [hn])) ?_ hr
    rw [ho]; exact Upd.refl _ _ _

/-- `insert_constant(n, v, Global)` with `v` the file's own value of `n` -/
theorem insertConstant_global_rel {st st' : St} {C : Table} {n : Bytes} {v : Int} {x : Except CErr Bool}
    (hC : st.locals = some C) (hv : C.find n = some (some v)) (h : insertConstant st n v .global = .ok (st', x)) :
    Rel [n] st st' := by
  rcases insertConstant_char h with ⟨rfl, _⟩ | ⟨t, b, _, ht, hn, ht', ho, hr, _, _⟩
  · exact .refl _ hC
  · simp only [St.tab, Realm.other, Option.some.injEq] at ht ht' ho
    subst ht
    refine rel_of_tabs hC (ho.trans hC) (Table.le_refl _) ?_ hr
    intro m
    rw [ht', find_set]
    by_cases e : n = m
    · subst e
      rw [if_pos rfl]
      exact .inr ⟨by simp, hn, .inl ⟨v, hv, rfl⟩⟩
    · rw [if_neg e]; exact .inl rfl

theorem deferConstant_global_rel {st st' : St} {C : Table} {n : Bytes} {x : Except CErr Unit}
    (hC : st.locals = some C) (h : deferConstant st n .global = .ok (st', x)) : Rel [n] st st' := by
  rcases deferConstant_char h with ⟨rfl, _⟩ | ⟨t, _, ht, hn, ht', ho, hr, _⟩
  · exact .refl _ hC
  · simp only [St.tab, Realm.other, Option.some.injEq] at ht ht' ho
    subst ht
    refine rel_of_tabs hC (ho.trans hC) (Table.le_refl _) ?_ hr
    intro m
    rw [ht', find_set]
    by_cases e : n = m
    · subst e
      rw [if_pos rfl]
      exact .inr ⟨by simp, by simp [hn], .inr ⟨hn, rfl⟩⟩
    · rw [if_neg e]; exact .inl rfl

theorem addTask_loc_rel {N : List Bytes} {st st' : St} {C : Table} {t : Task} (hC : st.locals = some C)
    (ht : t.fromN N) (h : addTask st t .loc = .ok st') : Rel N st st' := by
  simp only [addTask] at h
  split at h
  · cases h
  · rename_i q0 hq0
    cases h
    refine ⟨⟨C, C, hC, hC, Table.le_refl _, Upd.refl _ _ _⟩, fun q hq x hx => ?_, fun _ h => .inl h⟩
    cases hq
    simp only [List.mem_append, List.mem_singleton] at hx
    rcases hx with hx | rfl
    · exact .inl ⟨q0, hq0, hx⟩
    · exact .inr ht

theorem getConstant_loc_found {st : St} {C : Table} {n : Bytes} {v : Int} (hC : st.locals = some C)
    (h : getConstant st n .loc = .ok (.found v)) : C.find n = some (some v) := by
  simp only [getConstant, hC, Out.ok.injEq] at h
  exact get_found h

/-! ## the scope-relevant statements and the closure of `.global` -/

/-- the name a `.global` / `.export` statement with these arguments sends upwards -/
def argName : List Arg → List Bytes
  | [.ident n] => [n]
  | _ => []

theorem runGlobalCopy_rel {name : Bytes} {line col : Nat} {env : Env} {st : St} {C : Table} (hC : st.locals = some C) :
    ∀ st' r, runGlobalCopy name line col env st = .ok (st', r) → Rel [name] st st' := by
  unfold runGlobalCopy
  splits
  all_goals (intro st' r h)
  all_goals (first | (cases h; done) | (cases h; exact .of_quiet _ hC (quiet_push ..)) | skip)
  all_goals (have hv := getConstant_loc_found hC ‹getConstant st name .loc = _›)
  all_goals (have w := insertConstant_global_rel hC hv ‹insertConstant st name _ .global = _›)
  all_goals (cases h; first | exact w | exact w.then_quiet (quiet_push ..))

theorem exportDirective_rel {env : Env} {st : St} {C : Table} {line col : Nat} {args : List Arg} (hC : st.locals = some C) :
    ∀ st' r, globalDirective .export_ env st line col args = .ok (st', r) → Rel (argName args) st st' := by
  unfold globalDirective
  splits
  all_goals (intro st' r h)
  all_goals (first | (cases h; done) | (cases h; exact .of_quiet _ hC (quiet_push ..)) | skip)
  all_goals (first | exact absurd trivial ‹¬True› | exact absurd ‹GDir.export_ = GDir.global› (by decide) | exact absurd ‹GDir.import_ = GDir.global› (by decide) | exact absurd ‹GDir.export_ = GDir.import_› (by decide) | exact absurd ‹GDir.import_ = GDir.export_› (by decide) | exact absurd rfl ‹¬GDir.export_ = GDir.export_› | exact absurd rfl ‹¬GDir.import_ = GDir.import_› | skip)
  all_goals (have hv := getConstant_loc_found hC ‹getConstant st _ .loc = _›)
  all_goals (have w := insertConstant_global_rel hC hv ‹insertConstant st _ _ .global = _›)
  all_goals (cases h; first | exact w | exact w.then_quiet (quiet_push ..))

theorem importDirective_rel {env : Env} {st : St} {C : Table} {line col : Nat} {args : List Arg} (hC : st.locals = some C) :
    ∀ st' r, globalDirective .import_ env st line col args = .ok (st', r) → Rel [] st st' := by
  unfold globalDirective
  splits
  all_goals (intro st' r h)
  all_goals (first | (cases h; done) | (cases h; exact .of_quiet _ hC (quiet_push ..)) | skip)
  all_goals (first | exact absurd trivial ‹¬True› | exact absurd ‹GDir.export_ = GDir.global› (by decide) | exact absurd ‹GDir.import_ = GDir.global› (by decide) | exact absurd ‹GDir.export_ = GDir.import_› (by decide) | exact absurd ‹GDir.import_ = GDir.export_› (by decide) | exact absurd rfl ‹¬GDir.export_ = GDir.export_› | exact absurd rfl ‹¬GDir.import_ = GDir.import_› | skip)
  all_goals (try (have w : Rel [] st _ := insertConstant_loc_rel hC ‹insertConstant st _ _ .loc = _›))
  all_goals (try (have w : Rel [] st _ := deferConstant_loc_rel hC ‹deferConstant st _ .loc = _›))
  all_goals (cases h; first | exact w | exact w.then_quiet (quiet_push ..))

theorem globalDirective_rel {env : Env} {st : St} {C : Table} {line col : Nat} {args : List Arg} (hC : st.locals = some C) :
    ∀ st' r, globalDirective .global env st line col args = .ok (st', r) → Rel (argName args) st st' := by
  unfold globalDirective
  splits
  all_goals (intro st' r h)
  all_goals (first | (cases h; done) | (cases h; exact .of_quiet _ hC (quiet_push ..)) | skip)
  all_goals (first | exact absurd rfl ‹GDir.global = GDir.global → False› | skip)
  -- `defer_constant(Global)` …
  all_goals (have w2 := deferConstant_global_rel hC ‹deferConstant st _ Realm.global = _›)
  all_goals (obtain ⟨C1, hC1⟩ := w2.locals_some)
  all_goals (first | (cases h; exact w2.then_quiet (quiet_push ..)) | skip)
  -- … then fill at once, or announce locally, then queue the closure
  all_goals (try (have hv := getConstant_loc_found hC1 ‹getConstant _ _ .loc = .ok (.found _)›))
  all_goals (try (have w1 := insertConstant_global_rel hC1 hv ‹insertConstant _ _ _ Realm.global = _›))
  all_goals (first | (cases h; exact w2.trans w1) | skip)
  all_goals (try (have w3 : ∀ N, Rel N _ _ := fun N => deferConstant_loc_rel (N := N) hC1 ‹deferConstant _ _ Realm.loc = _›))
  all_goals (try (obtain ⟨C3, hC3⟩ := (w3 []).locals_some))
  all_goals (try (have w4 : ∀ N, Task.fromN N (.globalCopy _ line col) → Rel N _ _ :=
    fun N hN => addTask_loc_rel (N := N) hC3 hN ‹addTask _ _ _ = _›))
  all_goals (try (have w4' : ∀ N, Task.fromN N (.globalCopy _ line col) → Rel N _ _ :=
    fun N hN => addTask_loc_rel (N := N) hC1 hN ‹addTask _ _ _ = _›))
  all_goals (cases h; first
    | exact (w2.trans (w3 _)).trans (w4 _ (by simp [Task.fromN]))
    | exact w2.trans (w4' _ (by simp [Task.fromN])))

theorem constDirective_rel {env : Env} {st : St} {C : Table} {line col : Nat} {args : List Arg} (hC : st.locals = some C) :
    ∀ st' r, constDirective env st line col args = .ok (st', r) → Rel [] st st' := by
  unfold constDirective
  splits
  all_goals (intro st' r h)
  all_goals (first | (cases h; done) | (cases h; exact .of_quiet _ hC (quiet_push ..)) | (cases h; exact .of_quiet _ hC (evalStrict_quiet ‹evalStrict _ _ _ _ _ _ = _›)) | skip)
  all_goals (have w : Rel [] st _ := insertConstant_loc_rel hC ‹insertConstant st _ _ .loc = _›)
  all_goals (cases h; first | exact w | exact w.then_quiet (quiet_push ..))

/-! ## `.include`, statements, `do_assemble` -/

/-- what the recursive call of `.include` has to satisfy: for the includer nothing but its own table changes, and that
only grows -/
def IncRel (inc : Inc) : Prop :=
  ∀ env st data path st' r C, st.locals = some C → inc env st data path = .ok (st', r) →
    Rel [] st st' ∧ st'.globals = st.globals

theorem includeDirective_rel {fs : Bytes → Option Bytes} {inc : Inc} (hinc : IncRel inc) {env : Env} {st : St} {C : Table}
    {line col : Nat} {args : List Arg} (hC : st.locals = some C) :
    ∀ st' r, includeDirective fs inc env st line col args = .ok (st', r) → Rel [] st st' ∧ st'.globals = st.globals := by
  unfold includeDirective
  splits
  all_goals (intro st' r h)
  all_goals (first | (cases h; done) | (cases h; exact ⟨.of_quiet _ hC (quiet_push ..), rfl⟩) | skip)
  all_goals (have w := hinc _ _ _ _ _ _ _ hC ‹inc _ _ _ _ = _›)
  all_goals (cases h; first | exact w | exact ⟨w.1.then_quiet (quiet_push ..), w.2⟩)

/-- the shapes of `Include::apply`: one diagnostic and nothing else, or the recursive call — followed, if the included
file failed, by the `AssemblyFailed` diagnostic -/
theorem includeDirective_cases {fs : Bytes → Option Bytes} {inc : Inc} {env : Env} {st : St} {line col : Nat}
    {args : List Arg} :
    ∀ st' r, includeDirective fs inc env st line col args = .ok (st', r) →
      (∃ k, st' = st.push env line col k) ∨
      ∃ data path st1 r1, fs path = some data ∧ inc env st data path = .ok (st1, r1) ∧
        (st' = st1 ∨ ∃ k, st' = st1.push env line col k) := by
  unfold includeDirective
  splits
  all_goals (intro st' r h)
  all_goals (first | (cases h; done) | (cases h; exact .inl ⟨_, rfl⟩) | skip)
  all_goals (cases h; first
    | exact .inr ⟨_, _, _, _, ‹fs _ = some _›, ‹inc _ _ _ _ = _›, .inl rfl⟩
    | exact .inr ⟨_, _, _, _, ‹fs _ = some _›, ‹inc _ _ _ _ = _›, .inr ⟨_, rfl⟩⟩)

/-- the name the statement itself exports or declares global -/
def upNames (el : Element) : List Bytes :=
  match el.val with
  | .directive name args =>
    if name = bytesOf "global" ∨ name = bytesOf "export" then argName args.toList else []
  | _ => []

/-- the names a file itself — not the files it includes — exports or declares global -/
def fileNames (els : List Element) : List Bytes := els.flatMap upNames

theorem directive_rel {fs : Bytes → Option Bytes} {inc : Inc} (hinc : IncRel inc) {env : Env} {st : St} {C : Table}
    {line col : Nat} {name : Bytes} {args : List Arg} (hC : st.locals = some C) :
    ∀ st' r, directive fs inc env st line col name args = .ok (st', r) →
      Rel (if name = bytesOf "global" ∨ name = bytesOf "export" then argName args else []) st st' := by
  have q : ∀ {st' : St}, Quiet st st' → Rel (if name = bytesOf "global" ∨ name = bytesOf "export" then argName args else []) st st' :=
    fun h => .of_quiet _ hC h
  have z : ∀ {st' : St}, Rel [] st st' → Rel (if name = bytesOf "global" ∨ name = bytesOf "export" then argName args else []) st st' :=
    fun h => h.mono (fun _ hm => by cases hm)
  by_cases h9 : name = bytesOf "global"
  · subst h9
    rw [directive_global]
    simp only [true_or, if_true]
    exact globalDirective_rel hC
  by_cases h11 : name = bytesOf "export"
  · subst h11
    rw [directive_export]
    simp only [or_true, if_true]
    exact exportDirective_rel hC
  by_cases h10 : name = bytesOf "import"
  · subst h10
    rw [directive_import]
    exact fun st' r h => z (importDirective_rel hC st' r h)
  by_cases h2 : name = bytesOf "const"
  · subst h2
    rw [directive_const]
    exact fun st' r h => z (constDirective_rel hC st' r h)
  by_cases h12 : name = bytesOf "include"
  · subst h12
    rw [directive_include]
    exact fun st' r h => z (includeDirective_rel hinc hC st' r h).1
  delta directive
  by_cases h0 : name = bytesOf "addr"
  · rw [if_pos h0]; exact fun st' r h => q (addrDirective_quiet st' r h)
  rw [if_neg h0]
  by_cases h1 : name = bytesOf "align"
  · rw [if_pos h1]; exact fun st' r h => q (alignDirective_quiet st' r h)
  rw [if_neg h1, if_neg h2]
  by_cases h3 : name = bytesOf "du8"
  · rw [if_pos h3]; exact fun st' r h => q (duDirective_quiet st' r h)
  rw [if_neg h3]
  by_cases h4 : name = bytesOf "du16"
  · rw [if_pos h4]; exact fun st' r h => q (duDirective_quiet st' r h)
  rw [if_neg h4]
  by_cases h5 : name = bytesOf "du32"
  · rw [if_pos h5]; exact fun st' r h => q (duDirective_quiet st' r h)
  rw [if_neg h5]
  by_cases h6 : name = bytesOf "dhex"
  · rw [if_pos h6]; exact fun st' r h => q (stringDirective_quiet st' r h)
  rw [if_neg h6]
  by_cases h7 : name = bytesOf "dstr"
  · rw [if_pos h7]; exact fun st' r h => q (stringDirective_quiet st' r h)
  rw [if_neg h7]
  by_cases h8 : name = bytesOf "dfile"
  · rw [if_pos h8]; exact fun st' r h => q (stringDirective_quiet st' r h)
  rw [if_neg h8, if_neg h9, if_neg h10, if_neg h11, if_neg h12]
  intro st' r h; cases h; exact q (quiet_push ..)

theorem statement_rel {fs : Bytes → Option Bytes} {enc : Encoder} {inc : Inc} (hinc : IncRel inc) {env : Env} {st : St}
    {C : Table} {el : Element} (hC : st.locals = some C) :
    ∀ st' r, statement fs enc inc env st el = .ok (st', r) → Rel (upNames el) st st' := by
  intro st' r h
  unfold statement at h
  unfold upNames
  cases hv : el.val with
  | directive name args =>
    rw [hv] at h
    exact directive_rel hinc hC _ _ h
  | label name =>
    rw [hv] at h
    simp only at h
    repeat' split at h
    all_goals (first | (cases h; done) | (cases h; exact .of_quiet _ hC (quiet_push ..)) | skip)
    all_goals (have w : Rel [] st _ := insertConstant_loc_rel hC ‹insertConstant st _ _ .loc = _›)
    all_goals (cases h; first | exact w | exact w.then_quiet (quiet_push ..))
  | instruction name args =>
    rw [hv] at h
    simp only at h
    split at h
    · cases h; exact .of_quiet _ hC (quiet_push ..)
    · exact .of_quiet _ hC (instruction_quiet _ _ h)

theorem fileNames_cons (el : Element) (els : List Element) : fileNames (el :: els) = upNames el ++ fileNames els := by
  simp [fileNames]

theorem doAssemble_rel {fs : Bytes → Option Bytes} {enc : Encoder} {inc : Inc} (hinc : IncRel inc) {env : Env}
    (err : Option ParseErr) : ∀ (els : List Element) (st : St) (C : Table), st.locals = some C →
      ∀ st' r, doAssemble fs enc inc env els err st = .ok (st', r) → Rel (fileNames els) st st' := by
  intro els
  induction els with
  | nil =>
    intro st C hC st' r h
    cases err with
    | none => simp only [doAssemble] at h; cases h; exact .refl _ hC
    | some e => simp only [doAssemble] at h; cases h; exact .of_quiet _ hC (quiet_push ..)
  | cons el els ih =>
    intro st C hC st' r h
    simp only [doAssemble] at h
    rw [fileNames_cons]
    split at h
    · rename_i st1 hs
      have w1 := (statement_rel hinc hC _ _ hs).mono (N' := upNames el ++ fileNames els) (fun _ hm => by simp [hm])
      obtain ⟨C1, hC1⟩ := w1.locals_some
      exact w1.trans ((ih st1 C1 hC1 _ _ h).mono (fun _ hm => by simp [hm]))
    · rename_i st1 l hs
      cases h
      exact (statement_rel hinc hC _ _ hs).mono (fun _ hm => by simp [hm])
    · cases h

/-! ## tasks and the local task loop -/

theorem runTask_rel {enc : Encoder} {env : Env} {st : St} {C : Table} {N : List Bytes} {t : Task} (hC : st.locals = some C)
    (ht : t.fromN N) : ∀ st' r, runTask enc env st t = .ok (st', r) → Rel N st st' := by
  cases t with
  | data d g => exact fun st' r h => .of_quiet _ hC (runDataTask_quiet st' r h)
  | instr i g => exact fun st' r h => .of_quiet _ hC (runInstrTask_quiet st' r h)
  | globalCopy n l c =>
    exact fun st' r h => (runGlobalCopy_rel hC st' r h).mono (fun m hm => by
      simp only [List.mem_singleton] at hm; subst hm; exact ht)

theorem localRound_rel {enc : Encoder} {env : Env} {N : List Bytes} : ∀ (ts : List Task) (st : St) (res : Res) (C : Table),
    st.locals = some C → (∀ t ∈ ts, t.fromN N) →
    ∀ st' r, localRound enc env ts st res = .ok (st', r) → Rel N st st' := by
  intro ts
  induction ts with
  | nil => intro st res C hC _ st' r h; simp only [localRound] at h; cases h; exact .refl _ hC
  | cons t ts ih =>
    intro st res C hC hts st' r h
    simp only [localRound] at h
    have ht := hts t List.mem_cons_self
    have hts' : ∀ x ∈ ts, x.fromN N := fun x hx => hts x (List.mem_cons_of_mem _ hx)
    split at h
    · rename_i st1 hr
      have w1 := runTask_rel hC ht _ _ hr
      obtain ⟨C1, hC1⟩ := w1.locals_some
      exact w1.trans (ih st1 res C1 hC1 hts' _ _ h)
    · rename_i st1 l hr
      have w1 := runTask_rel hC ht _ _ hr
      obtain ⟨C1, hC1⟩ := w1.locals_some
      split at h
      · cases h; exact w1
      · exact w1.trans (ih st1 _ C1 hC1 hts' _ _ h)
    · cases h

theorem localLoop_rel {enc : Encoder} {env : Env} {N : List Bytes} : ∀ (n : Nat) (ts : List Task) (st : St) (res : Res)
    (C : Table), st.locals = some C → (∀ t ∈ ts, t.fromN N) → (∀ q, st.localTasks = some q → ∀ t ∈ q, t.fromN N) →
    ∀ st' r, localLoop enc env n ts st res = .ok (st', r) → Rel N st st' := by
  intro n
  induction n with
  | zero => intro ts st res C _ _ _ st' r h; simp [localLoop] at h
  | succ n ih =>
    intro ts st res C hC hts hq st' r h
    simp only [localLoop] at h
    split at h
    · cases h; exact .refl _ hC
    · split at h
      · rename_i st1 res1 hr
        have w1 := localRound_rel ts st res C hC hts _ _ hr
        obtain ⟨C1, hC1⟩ := w1.locals_some
        split at h
        · cases h
        · rename_i new hnew
          have hnewN : ∀ t ∈ new, t.fromN N := by
            intro t ht
            rcases w1.lt new hnew t ht with ⟨q, hq0, hm⟩ | hf
            · exact hq q hq0 t hm
            · exact hf
          have w2 : Rel N st1 { st1 with localTasks := some [] } :=
            ⟨⟨C1, C1, hC1, hC1, Table.le_refl _, Upd.refl _ _ _⟩, (fun q hq t ht => by cases hq; cases ht),
              fun _ h => .inl h⟩
          split at h
          · cases h; exact w1.trans w2
          · exact (w1.trans w2).trans (ih new { st1 with localTasks := some [] } res1 C1 hC1 hnewN (fun q hq t ht => by cases hq; cases ht) _ _ h)
      · cases h

/-! ## a whole file, and `.include` -/

theorem parseFile_eq {data : Bytes} {els : List Element} {err : Option ParseErr}
    (h : parseFile data = .ok (els, err)) : ∃ lo, Lex.tokens data = .ok lo ∧ Parse.all lo = .done els err := by
  unfold parseFile at h
  split at h
  · rename_i lo hl
    split at h
    · rename_i els' err' hp; cases h; exact ⟨lo, hl, hp⟩
    · cases h
    · cases h
  · cases h
  · cases h

/-- a whole file — `do_assemble`, then the local task loop — entered with an empty queue of its own -/
theorem fileBody_rel {fs : Bytes → Option Bytes} {enc : Encoder} {inc : Inc} (hinc : IncRel inc) {env : Env} {data : Bytes}
    {st : St} {C : Table} (hC : st.locals = some C) (hq : st.localTasks = some []) :
    ∀ st' r, fileBody fs enc inc env data st = .ok (st', r) →
      ∃ els perr, parseFile data = .ok (els, perr) ∧ Rel (fileNames els) st st' := by
  intro st' r h
  unfold fileBody at h
  split at h
  · rename_i els perr hpf
    refine ⟨els, perr, hpf, ?_⟩
    split at h
    · rename_i st3 res hd
      have w1 := doAssemble_rel hinc perr els st C hC _ _ hd
      obtain ⟨C3, hC3⟩ := w1.locals_some
      split at h
      · cases h; exact w1
      · split at h
        · cases h
        · rename_i tasks ht
          have htN : ∀ t ∈ tasks, t.fromN (fileNames els) := by
            intro t hm
            rcases w1.lt tasks ht t hm with ⟨q, hq0, hm0⟩ | hf
            · rw [hq] at hq0; cases hq0; cases hm0
            · exact hf
          have w2 : Rel (fileNames els) st3 { st3 with localTasks := some [] } :=
            ⟨⟨C3, C3, hC3, hC3, Table.le_refl _, Upd.refl _ _ _⟩, (fun q hq t ht => by cases hq; cases ht),
              fun _ h => .inl h⟩
          exact (w1.trans w2).trans
            (localLoop_rel rounds tasks { st3 with localTasks := some [] } res C3 hC3 htN (fun q hq t ht => by cases hq; cases ht) _ _ h)
    · cases h
  · cases h

/-- `Context::assemble` called from inside a file (`.include`), with everything the frame theorem needs: the child
starts from the empty table with the includer's table as its `globals`; it ends in `st4` with its own table `C`; the
includer's new table is the child's final `globals`, which is the old one updated at the child's names with `C`'s
values; the includer's `globals` is restored literally -/
theorem assembleFile_inside {fs : Bytes → Option Bytes} {enc : Encoder} {fuel : Nat} (hinc : IncRel (assembleFile fs enc fuel))
    {env : Env} {st st' : St} {data path : Bytes} {r : Res} {L : Table} (hL : st.locals = some L)
    (h : assembleFile fs enc (fuel + 1) env st data path = .ok (st', r)) :
    ∃ st2 st4 els perr C, st2.locals = some [] ∧ st2.globals = L ∧ st2.localTasks = some [] ∧
      fileBody fs enc (assembleFile fs enc fuel) ⟨path :: env.paths, path⟩ data st2 = .ok (st4, r) ∧
      parseFile data = .ok (els, perr) ∧ Rel (fileNames els) st2 st4 ∧ st4.locals = some C ∧
      st'.locals = some st4.globals ∧ Upd (fileNames els) L st4.globals C ∧ st'.globals = st.globals ∧
      Rel [] st st' := by
  simp only [assembleFile, List.length_cons, Nat.add_one_ne_zero, if_false, ne_eq, not_true_eq_false] at h
  -- the two shapes of `enterFile`
  cases hlt : st.localTasks with
  | none =>
    have he : enterFile st = (some st.globals, none, { st with locals := some [], globals := L, localTasks := some [] }) := by
      simp [enterFile, hL, hlt]
    rw [he] at h
    simp only at h
    split at h
    · rename_i st4 res hf
      cases h
      obtain ⟨els, perr, hp, w⟩ := fileBody_rel hinc (C := []) rfl rfl _ _ hf
      obtain ⟨C0, C, hC0, hC, _, u⟩ := w.tabs
      refine ⟨_, st4, els, perr, C, rfl, rfl, rfl, hf, hp, w, hC, rfl, u, rfl, ?_⟩
      refine ⟨⟨L, st4.globals, hL, rfl, u.le, Upd.refl _ _ _⟩, (fun q hq => by cases hq), fun t ht => ?_⟩
      exact w.gt t ht
    · cases h
  | some q0 =>
    have he : enterFile st = (some st.globals, some st.globalTasks,
        { st with locals := some [], globals := L, localTasks := some [], globalTasks := q0 }) := by
      simp [enterFile, hL, hlt]
    rw [he] at h
    simp only at h
    split at h
    · rename_i st4 res hf
      cases h
      obtain ⟨els, perr, hp, w⟩ := fileBody_rel hinc (C := []) rfl rfl _ _ hf
      obtain ⟨C0, C, hC0, hC, _, u⟩ := w.tabs
      refine ⟨_, st4, els, perr, C, rfl, rfl, rfl, hf, hp, w, hC, rfl, u, rfl, ?_⟩
      refine ⟨⟨L, st4.globals, hL, rfl, u.le, Upd.refl _ _ _⟩, fun q hq t ht => ?_, fun t ht => .inl ht⟩
      cases hq
      rcases w.gt t ht with hm | hn
      · exact .inl ⟨q0, hlt, hm⟩
      · exact .inr (Task.fromN_of_notCopy _ hn)
    · cases h

/-- every include depth: for the includer, `.include` changes nothing but its own table, which only grows -/
theorem assembleFile_rel (fs : Bytes → Option Bytes) (enc : Encoder) : ∀ fuel, IncRel (assembleFile fs enc fuel) := by
  intro fuel
  induction fuel with
  | zero => intro env st data path st' r C _ h; simp [assembleFile] at h
  | succ fuel ih =>
    intro env st data path st' r C hC h
    obtain ⟨_, _, _, _, _, _, _, _, _, _, _, _, _, _, hg, w⟩ := assembleFile_inside ih hC h
    exact ⟨w, hg⟩

/-! ## outside any file: the main file and `finalize` -/

/-- `Context::assemble` of the main file: the child's `globals` is the real global table -/
theorem assembleFile_outside {fs : Bytes → Option Bytes} {enc : Encoder} {fuel : Nat} {env : Env} {st st' : St}
    {data path : Bytes} {r : Res} (hl : st.locals = none) (hlt : st.localTasks = none)
    (h : assembleFile fs enc (fuel + 1) env st data path = .ok (st', r)) :
    ∃ st4 els perr C,
      fileBody fs enc (assembleFile fs enc fuel) ⟨path :: env.paths, path⟩ data
        { st with locals := some [], localTasks := some [] } = .ok (st4, r) ∧
      parseFile data = .ok (els, perr) ∧ Rel (fileNames els) { st with locals := some [], localTasks := some [] } st4 ∧
      st4.locals = some C ∧ st'.locals = none ∧ st'.localTasks = none ∧ st'.globals = st4.globals ∧
      Upd (fileNames els) st.globals st'.globals C ∧
      (∀ t ∈ st'.globalTasks, t ∈ st.globalTasks ∨ t.notCopy = true) := by
  simp only [assembleFile, List.length_cons, Nat.add_one_ne_zero, if_false, ne_eq, not_true_eq_false] at h
  have he : enterFile st = (none, none, { st with locals := some [], localTasks := some [] }) := by
    simp [enterFile, hl, hlt]
  rw [he] at h
  simp only at h
  split at h
  · rename_i st4 res hf
    cases h
    obtain ⟨els, perr, hp, w⟩ := fileBody_rel (assembleFile_rel fs enc fuel) (C := []) rfl rfl _ _ hf
    obtain ⟨C0, C, hC0, hC, _, u⟩ := w.tabs
    exact ⟨st4, els, perr, C, hf, hp, w, hC, rfl, rfl, rfl, u, w.gt⟩
  · cases h

theorem globalRound_quiet {enc : Encoder} {env : Env} : ∀ (ts : List Task) (st : St), (∀ t ∈ ts, t.notCopy = true) →
    ∀ st' ab, globalRound enc env ts st = .ok (st', ab) → Quiet st st' := by
  intro ts
  induction ts with
  | nil => intro st _ st' ab h; simp only [globalRound] at h; cases h; exact .refl _
  | cons t ts ih =>
    intro st hts st' ab h
    simp only [globalRound] at h
    have w1 : ∀ st1 r1, runTask enc env st t = .ok (st1, r1) → Quiet st st1 := by
      have := hts t List.mem_cons_self
      cases t with
      | data d g => exact runDataTask_quiet
      | instr i g => exact runInstrTask_quiet
      | globalCopy n l c => simp [Task.notCopy] at this
    split at h
    · rename_i st1 r1 hr
      split at h
      · cases h; exact w1 _ _ hr
      · exact (w1 _ _ hr).trans (ih st1 (fun x hx => hts x (List.mem_cons_of_mem _ hx)) _ _ h)
    · cases h

/-- `finalize` (the real global list holds retries of statements only): no table changes -/
theorem globalLoop_quiet {enc : Encoder} {env : Env} : ∀ (n : Nat) (ts : List Task) (st : St),
    (∀ t ∈ ts, t.notCopy = true) → (∀ t ∈ st.globalTasks, t.notCopy = true) →
    ∀ st' ab, globalLoop enc env n ts st = .ok (st', ab) → st'.globals = st.globals ∧ st'.locals = st.locals := by
  intro n
  induction n with
  | zero => intro ts st _ _ st' ab h; simp [globalLoop] at h
  | succ n ih =>
    intro ts st hts hg st' ab h
    simp only [globalLoop] at h
    split at h
    · cases h; exact ⟨rfl, rfl⟩
    · split at h
      · rename_i st1 ab1 hr
        have w1 := globalRound_quiet ts st hts _ _ hr
        have hnew : ∀ t ∈ st1.globalTasks, t.notCopy = true := by
          intro t ht
          rcases w1.gt t ht with hm | hn
          · exact hg t hm
          · exact hn
        split at h
        · cases h; exact ⟨w1.globals, w1.locals⟩
        · have w2 := ih st1.globalTasks { st1 with globalTasks := [] } hnew (fun t ht => by cases ht) _ _ h
          exact ⟨w2.1.trans w1.globals, w2.2.trans w1.locals⟩
      · cases h

end Trion.Asm
