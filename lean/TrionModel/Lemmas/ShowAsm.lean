import TrionModel.Lemmas.Front
/-! # `Front.build (Show.parts i a) = i` — the proof behind C19 `show_assembles` -/
namespace Trion.Show
open Trion.Front
set_option maxRecDepth 8000
theorem wrapAdd_lt (a : Nat) (off : Int) : ((wrapAdd a off : Nat) : Int) < 4294967296 := by
  unfold wrapAdd
  have : ((a : Int) + off).emod 4294967296 = ((a : Int) + off) % 4294967296 := rfl
  rw [this]; omega
theorem wrapAdd_eq (a : Nat) (off : Int) (h0 : 0 ≤ (a : Int) + off) (h1 : (a : Int) + off < 4294967296) :
    ((wrapAdd a off : Nat) : Int) = a + off := by
  unfold wrapAdd
  have : ((a : Int) + off).emod 4294967296 = ((a : Int) + off) % 4294967296 := rfl
  rw [this]; omega

/-- the label printed with wrapping arithmetic is the unwrapped sum whenever that is an address -/
theorem wrapAdd_alPc (a : Nat) (off : Int) (h0 : 0 ≤ (Front.alPc a : Int) + off) (h1 : (Front.alPc a : Int) + off < 4294967296) :
    ((wrapAdd (Show.alPc a) off : Nat) : Int) = (Front.alPc a : Int) + off := by
  unfold wrapAdd Show.alPc
  unfold Front.alPc at h0 h1 ⊢
  have : ((((a / 4 * 4 + 4) % 4294967296 : Nat) : Int) + off).emod 4294967296 =
      ((((a / 4 * 4 + 4) % 4294967296 : Nat) : Int) + off) % 4294967296 := rfl
  rw [this]; omega
theorem wrapAdd_pcOf (a : Nat) (off : Int) (h0 : 0 ≤ (Front.pcOf a : Int) + off) (h1 : (Front.pcOf a : Int) + off < 4294967296) :
    ((wrapAdd (Show.pcOf a) off : Nat) : Int) = (Front.pcOf a : Int) + off := by
  unfold wrapAdd Show.pcOf
  unfold Front.pcOf at h0 h1 ⊢
  have : ((((a + 4) % 4294967296 : Nat) : Int) + off).emod 4294967296 =
      ((((a + 4) % 4294967296 : Nat) : Int) + off) % 4294967296 := rfl
  rw [this]; omega

theorem literal_target (a : Nat) (off : Int) (h0 : 0 ≤ off) (h1 : off ≤ 1020) (h4 : off % 4 = 0)
    (ht : (Front.alPc a : Int) + off < 4294967296) :
    literal a ((wrapAdd (Show.alPc a) off : Nat) : Int) = .ok off := by
  rw [wrapAdd_alPc _ _ (by omega) ht]
  unfold literal
  have e : (↑(Front.alPc a) + off - ↑(Front.alPc a) : Int) = off := by omega
  simp only [e]
  rw [if_neg (by omega), if_neg (by omega)]

theorem branch_target (a : Nat) (off lo hi : Int) (hlo : lo ≤ off) (hhi : off ≤ hi) (h2 : off % 2 = 0)
    (h0 : 0 ≤ (Front.pcOf a : Int) + off) (ht : (Front.pcOf a : Int) + off < 4294967296) :
    branch a ((wrapAdd (Show.pcOf a) off : Nat) : Int) lo hi = .ok off := by
  rw [wrapAdd_pcOf _ _ h0 ht]
  unfold branch
  have e : (↑(Front.pcOf a) + off - ↑(Front.pcOf a) : Int) = off := by omega
  simp only [e]
  rw [if_neg (by omega), if_neg (by omega)]

theorem narrowU32_wrapAdd (a : Nat) (off : Int) :
    narrowU32 ((wrapAdd a off : Nat) : Int) = some ((wrapAdd a off : Nat) : Int) := by
  have := wrapAdd_lt a off
  simp [narrowU32]; omega

theorem narrowI32_wf {v : Int} (h : inI32 v) : narrowI32 v = some v := by
  unfold inI32 at h; simp [narrowI32, h]

@[simp] theorem Args.toList_ofList (l : List Arg) : (Args.ofList l).toList = l := by
  induction l with
  | nil => rfl
  | cons x xs ih => simp [Args.ofList, Args.toList, ih]

macro "asm_simp" : tactic => `(tactic|
  simp [parts, template, assemble, kinds, conv, Front.get, evalArg, rA, regl_regName, sysl_sysName, setOp, finish,
    Args.toList_ofList, regset_roundtrip, rsA])

theorem show_assembles_proof (i : Instr) (a : Nat) (eval : Arg → EvalOut) (loc : Bool)
    (hp : Printable i a) (he : EvalOK eval i a) :
    build a (parts i a).1 (parts i a).2 eval loc = .completed i := by
  unfold build
  rw [mnemonic_parts]
  cases i
  case adc => asm_simp
  case and => asm_simp
  case bic => asm_simp
  case cmn => asm_simp
  case eor => asm_simp
  case mul => asm_simp
  case mvn => asm_simp
  case orr => asm_simp
  case rev => asm_simp
  case rev16 => asm_simp
  case revsh => asm_simp
  case ror => asm_simp
  case sbc => asm_simp
  case sxtb => asm_simp
  case sxth => asm_simp
  case tst => asm_simp
  case uxtb => asm_simp
  case uxth => asm_simp
  case blx => asm_simp
  case bx => asm_simp
  case mrs => asm_simp
  case msr => asm_simp
  case nop => asm_simp
  case sev => asm_simp
  case wfe => asm_simp
  case wfi => asm_simp
  case yield => asm_simp
  case pop => asm_simp
  case push => asm_simp
  case ldm => asm_simp
  case stm => asm_simp
  case cps e =>
    have h : upper (bytesOf "i") = bytesOf "I" := by decide
    cases e <;> (asm_simp; simp [h])
  case dmb =>
    have h : upper (bytesOf "SY") = bytesOf "SY" := by decide
    asm_simp; simp [h]
  case dsb =>
    have h : upper (bytesOf "SY") = bytesOf "SY" := by decide
    asm_simp; simp [h]
  case isb =>
    have h : upper (bytesOf "SY") = bytesOf "SY" := by decide
    asm_simp; simp [h]
  case add f d l r =>
    cases r with
    | imm v =>
      have hn := narrowI32_wf (v := v) hp
      have hc := he.const v
      cases f <;> (simp only [parts, irA]; asm_simp; simp [hc, hn])
    | reg x =>
      have hr := he.reg x
      cases f <;> (simp only [parts, irA]; asm_simp; simp [hr, regl_regName])
  case sub f d l r =>
    cases r with
    | imm v =>
      have hn := narrowI32_wf (v := v) hp
      have hc := he.const v
      cases f <;> (simp only [parts, irA]; asm_simp; simp [hc, hn])
    | reg x =>
      have hr := he.reg x
      cases f <;> (simp only [parts, irA]; asm_simp; simp [hr, regl_regName])
  case asr d l r =>
    cases r with
    | imm v =>
      have hn := narrowI32_wf (v := v) hp
      have hc := he.const v
      (simp only [parts, irA]; asm_simp; simp [hc, hn])
    | reg x =>
      have hr := he.reg x
      (simp only [parts, irA]; asm_simp; simp [hr, regl_regName])
  case lsl d l r =>
    cases r with
    | imm v =>
      have hn := narrowI32_wf (v := v) hp
      have hc := he.const v
      (simp only [parts, irA]; asm_simp; simp [hc, hn])
    | reg x =>
      have hr := he.reg x
      (simp only [parts, irA]; asm_simp; simp [hr, regl_regName])
  case lsr d l r =>
    cases r with
    | imm v =>
      have hn := narrowI32_wf (v := v) hp
      have hc := he.const v
      (simp only [parts, irA]; asm_simp; simp [hc, hn])
    | reg x =>
      have hr := he.reg x
      (simp only [parts, irA]; asm_simp; simp [hr, regl_regName])
  case cmp d r =>
    cases r with
    | imm v =>
      have hn := narrowI32_wf (v := v) hp
      have hc := he.const v
      (simp only [parts, irA]; asm_simp; simp [hc, hn])
    | reg x =>
      have hr := he.reg x
      (simp only [parts, irA]; asm_simp; simp [hr, regl_regName])
  case mov f d r =>
    cases r with
    | imm v =>
      have hn := narrowI32_wf (v := v) hp
      have hc := he.const v
      (simp only [parts, irA]; asm_simp; simp [hc, hn])
    | reg x =>
      have hr := he.reg x
      (simp only [parts, irA]; asm_simp; simp [hr, regl_regName])
  case rsb d l =>
    have hc := he.const 0
    have hn : narrowI32 0 = some 0 := by decide
    asm_simp; simp [hc, hn]
  case svc v =>
    have hc := he.const v
    obtain ⟨h0, h1⟩ := hp
    have hn : narrowI32 v = some v := narrowI32_wf ⟨by omega, by omega⟩
    have h8 : narrowU8 v = some v := by simp [narrowU8]; omega
    asm_simp; simp [hc, hn, h8]
  case udf v =>
    have hc := he.const v
    obtain ⟨h0, h1⟩ := hp
    have hn : narrowI32 v = some v := narrowI32_wf ⟨by omega, by omega⟩
    have h8 : narrowU8 v = some v := by simp [narrowU8]; omega
    asm_simp; simp [hc, hn, h8]
  case udfw v =>
    have hc := he.const v
    obtain ⟨h0, h1⟩ := hp
    have hn : narrowI32 v = some v := narrowI32_wf ⟨by omega, by omega⟩
    have h8 : narrowU16 v = some v := by simp [narrowU16]; omega
    asm_simp; simp [hc, hn, h8]
  case bkpt v =>
    have hc := he.const v
    obtain ⟨h0, h1⟩ := hp
    have hn : narrowU32 v = some v := by simp [narrowU32]; omega
    have h8 : narrowU8 v = some v := by simp [narrowU8]; omega
    asm_simp; simp [hc, hn, h8]
  case adr d off =>
    obtain ⟨h0, h1, h4, ht⟩ := hp
    have hl := he.label _ rfl
    have hn := narrowU32_wrapAdd (alPc a) off
    have hlit := literal_target a off h0 h1 h4 ht
    asm_simp; simp [lblA, hl, hn, hlit]
  case b c off =>
    obtain ⟨hlo, hhi, h2, h0, ht⟩ := hp
    have hl := he.label _ rfl
    have hn := narrowU32_wrapAdd (pcOf a) off
    by_cases hc : c.val = 14
    · have hb := branch_target a off (-2048) 2046 (by simpa [bLo, hc] using hlo) (by simpa [bHi, hc] using hhi) h2 h0 ht
      asm_simp; simp [lblA, hl, hn, hb, hc]
    · have hb := branch_target a off (-256) 254 (by simpa [bLo, hc] using hlo) (by simpa [bHi, hc] using hhi) h2 h0 ht
      asm_simp; simp [lblA, hl, hn, hb, hc]
  case bl off =>
    obtain ⟨hlo, hhi, h2, h0, ht⟩ := hp
    have hl := he.label _ rfl
    have hn := narrowU32_wrapAdd (pcOf a) off
    have hb := branch_target a off (-16777216) 16777215 hlo hhi h2 h0 ht
    asm_simp; simp [lblA, hl, hn, hb]
  case ldrb d ad o =>
    obtain ⟨x, hx, hax⟩ := he.mem ad o rfl
    cases o with
    | imm v =>
      have hn := narrowI32_wf (v := v) hp
      simp only [irA, rA] at hx hax
      simp only [parts, irA]
      asm_simp; simp [hx, hax]; simp [addrOff, regl_regName, hn, unwrapOff]
    | reg r =>
      simp only [irA, rA] at hx hax
      simp only [parts, irA]
      asm_simp; simp [hx, hax]; simp [addrOff, regl_regName, unwrapOff]
  case ldrh d ad o =>
    obtain ⟨x, hx, hax⟩ := he.mem ad o rfl
    cases o with
    | imm v =>
      have hn := narrowI32_wf (v := v) hp
      simp only [irA, rA] at hx hax
      simp only [parts, irA]
      asm_simp; simp [hx, hax]; simp [addrOff, regl_regName, hn, unwrapOff]
    | reg r =>
      simp only [irA, rA] at hx hax
      simp only [parts, irA]
      asm_simp; simp [hx, hax]; simp [addrOff, regl_regName, unwrapOff]
  case str d ad o =>
    obtain ⟨x, hx, hax⟩ := he.mem ad o rfl
    cases o with
    | imm v =>
      have hn := narrowI32_wf (v := v) hp
      simp only [irA, rA] at hx hax
      simp only [parts, irA]
      asm_simp; simp [hx, hax]; simp [addrOff, regl_regName, hn, unwrapOff]
    | reg r =>
      simp only [irA, rA] at hx hax
      simp only [parts, irA]
      asm_simp; simp [hx, hax]; simp [addrOff, regl_regName, unwrapOff]
  case strb d ad o =>
    obtain ⟨x, hx, hax⟩ := he.mem ad o rfl
    cases o with
    | imm v =>
      have hn := narrowI32_wf (v := v) hp
      simp only [irA, rA] at hx hax
      simp only [parts, irA]
      asm_simp; simp [hx, hax]; simp [addrOff, regl_regName, hn, unwrapOff]
    | reg r =>
      simp only [irA, rA] at hx hax
      simp only [parts, irA]
      asm_simp; simp [hx, hax]; simp [addrOff, regl_regName, unwrapOff]
  case strh d ad o =>
    obtain ⟨x, hx, hax⟩ := he.mem ad o rfl
    cases o with
    | imm v =>
      have hn := narrowI32_wf (v := v) hp
      simp only [irA, rA] at hx hax
      simp only [parts, irA]
      asm_simp; simp [hx, hax]; simp [addrOff, regl_regName, hn, unwrapOff]
    | reg r =>
      simp only [irA, rA] at hx hax
      simp only [parts, irA]
      asm_simp; simp [hx, hax]; simp [addrOff, regl_regName, unwrapOff]
  case ldrsb d ad o =>
    obtain ⟨x, hx, hax⟩ := he.mem ad (.reg o) rfl
    simp only [irA, rA] at hx hax
    asm_simp; simp [hx, hax]; simp [addrOff, regl_regName]
  case ldrsh d ad o =>
    obtain ⟨x, hx, hax⟩ := he.mem ad (.reg o) rfl
    simp only [irA, rA] at hx hax
    asm_simp; simp [hx, hax]; simp [addrOff, regl_regName]
  case ldr d ad o =>
    cases o with
    | reg r =>
      obtain ⟨x, hx, hax⟩ := he.mem ad (.reg r) rfl
      simp only [irA, rA] at hx hax
      simp only [parts, irA]
      asm_simp; simp [hx, hax]; simp [addrOff, regl_regName, unwrapOff]
    | imm v =>
      by_cases h15 : ad.val = 15
      · simp only [Printable, h15, if_true] at hp
        obtain ⟨h0, h1, h4, ht⟩ := hp
        have hl := he.label (wrapAdd (alPc a) v) (by simp [targetOf, h15])
        have hn := narrowU32_wrapAdd (alPc a) v
        have hlit := literal_target a v h0 h1 h4 ht
        have hpc : ad = Reg.pc := Fin.ext h15
        simp only [parts, h15, if_true]
        asm_simp; simp [lblA, hl, hn, hlit, hpc]
      · simp only [Printable, h15, if_false] at hp
        obtain ⟨x, hx, hax⟩ := he.mem ad (.imm v) (by simp [memOf, h15])
        have hn := narrowI32_wf (v := v) hp
        simp only [irA, rA] at hx hax
        simp only [parts, h15, if_false, irA]
        asm_simp; simp [hx, hax]; simp [addrOff, regl_regName, hn, unwrapOff]
end Trion.Show
