import TrionModel.Lemmas.LexLayout
/-!
# Exact placement of tokens in a text (`Exact`), equivalent to a layout
-/
namespace Trion.Lex
open Trion.Pos (adv isCont)

/-- `Exact text start ts`: from byte offset `start` on, the text is `gap₁ spelling₁ gap₂ spelling₂ … trail` where
every gap is separator text (`IsSep`), `spellingᵢ = text[oᵢ, eᵢ)` is a spelling (`Spell`) of the value of the
`i`-th token of `ts` given the byte that follows it, that token carries the specified position of offset `oᵢ`
(`Pos.of (text.take oᵢ)`), and the trail after the last spelling is separator text up to the end. -/
inductive Exact (text : Bytes) : Nat → List Token → Prop
  | nil (start : Nat) : start ≤ text.length → IsSepEnd (text.drop start) → Exact text start []
  | cons (start o e : Nat) (t : Token) (ts : List Token) :
      start ≤ o → o < e → e ≤ text.length →
      IsSep ((text.take o).drop start) →
      Spell ((text.take e).drop o) t.val text[e]? →
      (t.line, t.col) = Pos.of (text.take o) →
      Exact text e ts → Exact text start (t :: ts)

theorem take_glue (l : Bytes) (a b : Nat) (h : a ≤ b) : l.take a ++ (l.take b).drop a = l.take b := by
  have : (l.take b).take a = l.take a := by rw [List.take_take]; congr 1; omega
  rw [← this]; exact List.take_append_drop a (l.take b)

theorem drop_glue (l : Bytes) (a b : Nat) (h : a ≤ b) : (l.take b).drop a ++ l.drop b = l.drop a := by
  by_cases ha : a ≤ (l.take b).length
  · have h1 : l.drop a = (l.take b ++ l.drop b).drop a := by rw [List.take_append_drop]
    rw [h1, List.drop_append_of_le_length ha]
  · have hl : l.length < a := by simp at ha; omega
    rw [List.drop_eq_nil_of_le (by simp; omega), List.drop_eq_nil_of_le (show l.length ≤ b by omega),
      List.drop_eq_nil_of_le (show l.length ≤ a by omega)]
    rfl

theorem head?_drop (l : Bytes) (e : Nat) : (l.drop e).head? = l[e]? := by
  rw [List.head?_drop]

/-- a placement gives a layout with the same text and the same tokens -/
theorem exact_layout {text : Bytes} {start : Nat} {ts : List Token} (h : Exact text start ts) :
    ∃ L trail, LOk L trail ∧ ltext L trail = text.drop start ∧ ltoks (text.take start) L = ts := by
  induction h with
  | nil start _ hs => exact ⟨[], text.drop start, hs, rfl, rfl⟩
  | cons start o e t ts h1 h2 h3 hsep hsp hpos _ ih =>
    obtain ⟨L, trail, hok, htext, htoks⟩ := ih
    refine ⟨⟨(text.take o).drop start, (text.take e).drop o, t.val⟩ :: L, trail, ⟨hsep, ?_, hok⟩, ?_, ?_⟩
    · show Spell _ _ (ltext L trail).head?
      rw [htext, head?_drop]; exact hsp
    · simp only [ltext]
      rw [htext, List.append_assoc, drop_glue text o e (by omega), drop_glue text start o h1]
    · simp only [ltoks]
      rw [take_glue text start o h1, take_glue text o e (by omega), htoks]
      have : t = ⟨(Pos.of (text.take o)).1, (Pos.of (text.take o)).2, t.val⟩ := by
        cases t; simp at hpos ⊢; rw [← hpos]; simp
      rw [← this]

/-- **a placement determines the tokenizer's output**: if the tokens `ts` can be placed in `text` so that the
gaps are separator text and the extents are spellings, then `ts` (with exactly these positions) is what the
tokenizer yields, without error, ending at the specified position of the end of the text -/
theorem tokens_of_exact (text : Bytes) (ts : List Token) (h : Exact text 0 ts) :
    tokens text = .ok ⟨ts, none, (Pos.of text).1, (Pos.of text).2⟩ := by
  obtain ⟨L, trail, hok, htext, htoks⟩ := exact_layout h
  simp only [List.drop_zero, List.take_zero] at htext htoks
  rw [← htext, tokens_layout L trail hok, htoks]

/-- a layout is placed exactly -/
theorem layout_exact (L : List LTok) (trail : Bytes) (h : LOk L trail) (pre : Bytes) :
    Exact (pre ++ ltext L trail) pre.length (ltoks pre L) := by
  induction L generalizing pre with
  | nil =>
    refine Exact.nil _ (by simp) ?_
    have : (pre ++ trail).drop pre.length = trail := List.drop_left' rfl
    simp only [ltext]
    rw [this]
    exact h
  | cons x r ih =>
    obtain ⟨h1, h2, h3⟩ := h
    have hne := spell_ne_nil h2
    have hpos : 0 < x.spell.length := List.length_pos_iff.mpr hne
    simp only [ltext, ltoks]
    have htxt : pre ++ (x.sep ++ x.spell ++ ltext r trail) = (pre ++ x.sep ++ x.spell) ++ ltext r trail := by simp
    have hto : (pre ++ (x.sep ++ x.spell ++ ltext r trail)).take (pre ++ x.sep).length = pre ++ x.sep := by
      rw [show pre ++ (x.sep ++ x.spell ++ ltext r trail) = (pre ++ x.sep) ++ (x.spell ++ ltext r trail) by simp]
      exact List.take_left' rfl
    have hte : (pre ++ (x.sep ++ x.spell ++ ltext r trail)).take (pre ++ x.sep ++ x.spell).length = pre ++ x.sep ++ x.spell := by
      rw [htxt]; exact List.take_left' rfl
    refine Exact.cons pre.length (pre ++ x.sep).length (pre ++ x.sep ++ x.spell).length _ _
      (by simp) (by simp; omega) (by simp) ?_ ?_ ?_ ?_
    · rw [hto]; simpa using h1
    · rw [hte]
      have hd : (pre ++ x.sep ++ x.spell).drop (pre ++ x.sep).length = x.spell := List.drop_left' rfl
      rw [hd]
      have hidx : (pre ++ (x.sep ++ x.spell ++ ltext r trail))[(pre ++ x.sep ++ x.spell).length]? = (ltext r trail).head? := by
        rw [htxt, List.getElem?_append_right (Nat.le_refl _)]
        simp
        cases ltext r trail <;> rfl
      rw [hidx]; exact h2
    · rw [hto]
    · rw [htxt]; exact ih h3 (pre ++ x.sep ++ x.spell)

/-- every token of a placement, with its extent -/
theorem exact_mem {text : Bytes} {start : Nat} {ts : List Token} (h : Exact text start ts) :
    ∀ t ∈ ts, ∃ o e, start ≤ o ∧ o < e ∧ e ≤ text.length ∧ Spell ((text.take e).drop o) t.val text[e]? ∧
      (t.line, t.col) = Pos.of (text.take o) := by
  induction h with
  | nil => simp
  | cons start o e t ts h1 h2 h3 _ hsp hpos _ ih =>
    intro t' ht'
    rcases List.mem_cons.mp ht' with rfl | ht'
    · exact ⟨o, e, h1, h2, h3, hsp, hpos⟩
    · obtain ⟨o', e', h1', rest⟩ := ih t' ht'
      exact ⟨o', e', by omega, rest⟩

theorem ltoks_vals (pre : Bytes) (L : List LTok) : (ltoks pre L).map (·.val) = L.map (·.tok) := by
  induction L generalizing pre with
  | nil => rfl
  | cons x r ih => simp [ltoks, ih]

/-! ### building separator text -/

theorem isSep_append {a b : Bytes} (ha : IsSep a) (hb : IsSep b) : IsSep (a ++ b) := by
  induction ha with
  | nil => simpa using hb
  | space x d hx _ ih => exact IsSep.space x _ hx ih
  | line body d h1 h2 _ ih =>
    have : (47 :: 47 :: body ++ 10 :: d) ++ b = 47 :: 47 :: body ++ 10 :: (d ++ b) := by simp
    rw [this]; exact IsSep.line body _ h1 h2 ih
  | block body d h1 h2 _ ih =>
    have : (47 :: 42 :: body ++ d) ++ b = 47 :: 42 :: body ++ (d ++ b) := by simp
    rw [this]; exact IsSep.block body _ h1 h2 ih

theorem isSep_ws (w : Bytes) (h : ∀ x ∈ w, isSpace x = true) : IsSep w := by
  induction w with
  | nil => exact IsSep.nil
  | cons x w ih => exact IsSep.space x w (h x (by simp)) (ih (fun y hy => h y (by simp [hy])))

theorem isSep_line (body : Bytes) (h1 : ∀ b ∈ body, b.toNat ≠ 10) (h2 : Utf8 body) : IsSep (47 :: 47 :: body ++ [10]) :=
  IsSep.line body [] h1 h2 IsSep.nil

theorem isSep_block (body : Bytes) (h1 : Inside 0 body) (h2 : Utf8 body) : IsSep (47 :: 42 :: body) := by
  have := IsSep.block body [] h1 h2 IsSep.nil
  simpa using this

/-- a checker for `Inside` -/
def insideB : Nat → Bytes → Bool
  | _, [] => false
  | _, [_] => false
  | n, b :: c :: d =>
    if b.toNat = 42 ∧ c.toNat = 47 then (match n with | 0 => d.isEmpty | m + 1 => insideB m d)
    else if b.toNat = 47 ∧ c.toNat = 42 then insideB (n + 1) d
    else insideB n (c :: d)

theorem uint8_ext {a b : UInt8} (h : a.toNat = b.toNat) : a = b := by
  rw [← toUInt8_toNat a, ← toUInt8_toNat b, h]

theorem inside_of_insideB : ∀ (d : Bytes) (n : Nat), insideB n d = true → Inside n d := by
  -- strong induction on the length (the checker skips two bytes at a time)
  suffices H : ∀ (k : Nat) (d : Bytes), d.length ≤ k → ∀ n, insideB n d = true → Inside n d from
    fun d n h => H d.length d (Nat.le_refl _) n h
  intro k
  induction k with
  | zero =>
    intro d hd n h
    have : d = [] := List.length_eq_zero_iff.mp (by omega)
    subst this; simp [insideB] at h
  | succ k ih =>
    intro d hd n h
    match d, hd, h with
    | [], _, h => simp [insideB] at h
    | [x], _, h => simp [insideB] at h
    | x :: c :: r, hd, h =>
      simp only [insideB] at h
      by_cases h1 : x.toNat = 42 ∧ c.toNat = 47
      · rw [if_pos h1] at h
        have hx : x = 42 := uint8_ext h1.1
        have hc : c = 47 := uint8_ext h1.2
        subst hx; subst hc
        cases n with
        | zero =>
          simp at h; subst h; exact Inside.close0
        | succ m => exact Inside.close m r (ih r (by simp at hd; omega) m h)
      · rw [if_neg h1] at h
        by_cases h2 : x.toNat = 47 ∧ c.toNat = 42
        · rw [if_pos h2] at h
          have hx : x = 47 := uint8_ext h2.1
          have hc : c = 42 := uint8_ext h2.2
          subst hx; subst hc
          exact Inside.open n r (ih r (by simp at hd; omega) (n + 1) h)
        · rw [if_neg h2] at h
          refine Inside.byte n x (c :: r) (ih (c :: r) (by simp at hd ⊢; omega) n h) ?_
          intro y hy
          simp at hy; subst hy
          exact ⟨fun hh => h2 hh, fun hh => h1 hh⟩

end Trion.Lex
