import TrionModel.Lemmas.MapOpsBase
/-!
# Operational `remove_range` = recursive `removeRange` on every well-formed map
-/
namespace Trion.Map
open Trion.Dict

/-! ## the recursive form on pieces -/

/-- what survives of a segment below `lo` -/
def preP (f : Nat) (x : List UInt8) (lo : Nat) : Segs :=
  if (x.take (lo - f)).isEmpty then [] else [(f, x.take (lo - f))]

/-- what survives of a segment above `hi` -/
def postP (f : Nat) (x : List UInt8) (hi : Nat) : Segs :=
  if (x.drop (hi + 1 - f)).isEmpty then [] else [(max f (hi + 1), x.drop (hi + 1 - f))]

theorem removeRange_cons (f : Nat) (x : List UInt8) (r : Segs) (lo hi : Nat) :
    removeRange ((f, x) :: r) lo hi = preP f x lo ++ postP f x hi ++ removeRange r lo hi := by
  rw [removeRange]; rfl

theorem removeRange_append (P Q : Segs) (lo hi : Nat) :
    removeRange (P ++ Q) lo hi = removeRange P lo hi ++ removeRange Q lo hi := by
  induction P with
  | nil => rfl
  | cons s P ih =>
    obtain ⟨f, x⟩ := s
    simp only [List.cons_append, removeRange_cons, ih, List.append_assoc]

theorem isEmpty_false_of_pos {x : List UInt8} (h : 0 < x.length) : x.isEmpty = false := by
  cases x with
  | nil => simp at h
  | cons _ _ => rfl

theorem preP_nil {f : Nat} {x : List UInt8} {lo : Nat} (h : lo ≤ f) : preP f x lo = [] := by
  unfold preP
  rw [show lo - f = 0 by omega, List.take_zero]; rfl

theorem preP_some {f : Nat} {x : List UInt8} {lo : Nat} (h : f < lo) (hx : 0 < x.length) :
    preP f x lo = [(f, x.take (lo - f))] := by
  unfold preP
  rw [isEmpty_false_of_pos (by rw [List.length_take]; omega)]; rfl

theorem postP_nil {f : Nat} {x : List UInt8} {hi : Nat} (h : f + x.length ≤ hi + 1) : postP f x hi = [] := by
  unfold postP
  rw [List.drop_eq_nil_of_le (by omega)]; rfl

theorem postP_some {f : Nat} {x : List UInt8} {hi : Nat} (h : hi + 1 < f + x.length) (h2 : f ≤ hi + 1) :
    postP f x hi = [(hi + 1, x.drop (hi + 1 - f))] := by
  unfold postP
  rw [isEmpty_false_of_pos (by rw [List.length_drop]; omega), show max f (hi + 1) = hi + 1 by omega]; rfl

theorem postP_all {f : Nat} {x : List UInt8} {hi : Nat} (h : hi < f) (hx : 0 < x.length) :
    postP f x hi = [(f, x)] := by
  unfold postP
  rw [show hi + 1 - f = 0 by omega, List.drop_zero, isEmpty_false_of_pos hx, show max f (hi + 1) = f by omega]; rfl

theorem preP_all {f : Nat} {x : List UInt8} {lo : Nat} (h : f + x.length ≤ lo) (hx : 0 < x.length) :
    preP f x lo = [(f, x)] := by
  unfold preP
  rw [List.take_of_length_le (by omega), isEmpty_false_of_pos hx]; rfl

theorem removeRange_below (A : Segs) (lo hi : Nat) (h : lo ≤ hi)
    (hA : ∀ s ∈ A, 0 < s.2.length ∧ s.1 + s.2.length ≤ lo) : removeRange A lo hi = A := by
  induction A with
  | nil => rfl
  | cons s A ih =>
    obtain ⟨f, x⟩ := s
    have h1 := hA (f, x) (List.mem_cons_self ..)
    simp only at h1
    rw [removeRange_cons, preP_all h1.2 h1.1, postP_nil (by omega),
      ih (fun u hu => hA u (List.mem_cons_of_mem _ hu))]
    rfl

theorem removeRange_above (R : Segs) (lo hi : Nat) (h : lo ≤ hi)
    (hR : ∀ s ∈ R, 0 < s.2.length ∧ hi < s.1) : removeRange R lo hi = R := by
  induction R with
  | nil => rfl
  | cons s R ih =>
    obtain ⟨f, x⟩ := s
    have h1 := hR (f, x) (List.mem_cons_self ..)
    simp only at h1
    rw [removeRange_cons, preP_nil (by omega), postP_all h1.2 h1.1,
      ih (fun u hu => hR u (List.mem_cons_of_mem _ hu))]
    rfl

theorem removeRange_inside (M : Segs) (lo hi : Nat)
    (hM : ∀ s ∈ M, lo ≤ s.1 ∧ s.1 + s.2.length ≤ hi + 1) : removeRange M lo hi = [] := by
  induction M with
  | nil => rfl
  | cons s M ih =>
    obtain ⟨f, x⟩ := s
    have h1 := hM (f, x) (List.mem_cons_self ..)
    simp only at h1
    rw [removeRange_cons, preP_nil h1.1, postP_nil h1.2,
      ih (fun u hu => hM u (List.mem_cons_of_mem _ hu))]
    rfl

/-! ## the tail of the operational `remove_range` on explicit shapes -/

theorem removeRangeTail_def (ps1 : Segs) (hi firstIdx : Nat) (rf : Bool) (loc : Loc) :
    locate ps1 hi .below = loc →
    removeRangeTail ps1 hi firstIdx rf =
      match loc with
      | .panic => .panic "locate"
      | .none => if rf then .panic "remove_range: assert!(!remove_first)" else .ok ps1
      | .idx lastIdx =>
        if lastIdx > firstIdx then
          match ps1[lastIdx]? with
          | none => .panic "remove_range: self.parts[last_idx]"
          | some last =>
            (if hi < segLast last then (cutFront last hi).bind fun s => .ok (ps1.set lastIdx s, false)
             else .ok (ps1, true)).bind fun (ps2, removeLast) =>
            vecDrain ps2 (firstIdx + (if rf then 0 else 1)) (lastIdx + (if removeLast then 1 else 0))
        else
          if rf then vecRemove ps1 firstIdx else .ok ps1 := by
  intro h; subst h; rfl

/-- the first segment was cut from the beginning: nothing at or after it starts at or below `hi` -/
theorem rrTail_low {l : Nat} {A R : Segs} {u : Seg} (ok : Ok l (A ++ u :: R)) {hi : Nat}
    (hA : ∀ s ∈ A, s.1 ≤ hi) (hu : hi < u.1) (hR : ∀ s ∈ R, hi < s.1) :
    removeRangeTail (A ++ u :: R) hi A.length false = .ok (A ++ u :: R) := by
  have hloc := locate_below_shape ok rfl hA (show ∀ s ∈ u :: R, hi < s.1 by
    intro s hs; rcases List.mem_cons.mp hs with rfl | hs
    · exact hu
    · exact hR s hs)
  rw [removeRangeTail_def _ _ _ _ _ hloc]
  by_cases c : A.length > 0
  · rw [if_pos c]; simp only
    rw [if_neg (by omega)]; rfl
  · rw [if_neg c]; rfl

/-- the last segment starting at or below `hi` is the first one -/
theorem rrTail_first {l : Nat} {A R : Segs} {u : Seg} (ok : Ok l (A ++ u :: R)) {hi : Nat}
    (hA : ∀ s ∈ A, s.1 ≤ hi) (hu : u.1 ≤ hi) (hR : ∀ s ∈ R, hi < s.1) (rf : Bool) :
    removeRangeTail (A ++ u :: R) hi A.length rf = .ok (if rf then A ++ R else A ++ u :: R) := by
  have e : A ++ u :: R = (A ++ [u]) ++ R := by simp
  have hloc := locate_below_shape ok e (show ∀ s ∈ A ++ [u], s.1 ≤ hi by
    intro s hs; rcases List.mem_append.mp hs with hs | hs
    · exact hA s hs
    · simp only [List.mem_singleton] at hs; subst hs; exact hu) hR
  rw [removeRangeTail_def _ _ _ _ _ hloc, if_pos (by simp)]
  simp only [List.length_append, List.length_cons, List.length_nil, Nat.zero_add, Nat.add_sub_cancel]
  rw [if_neg (by omega)]
  cases rf with
  | false => rfl
  | true =>
    simp only [if_true]
    unfold vecRemove
    rw [if_neg (by simp), eraseIdx_mid]

/-- several segments start at or below `hi`: `u`, then `M` (dropped), then `last` (cut or dropped) -/
theorem rrTail_multi {l : Nat} {A M R : Segs} {u : Seg} {fk : Nat} {xk : List UInt8}
    (ok : Ok l (A ++ u :: (M ++ (fk, xk) :: R))) {hi : Nat}
    (hA : ∀ s ∈ A, s.1 ≤ hi) (hu : u.1 ≤ hi) (hM : ∀ s ∈ M, s.1 ≤ hi) (hl : fk ≤ hi)
    (hR : ∀ s ∈ R, hi < s.1) (rf : Bool) :
    removeRangeTail (A ++ u :: (M ++ (fk, xk) :: R)) hi A.length rf =
      .ok (A ++ ((if rf then [] else [u]) ++ (postP fk xk hi ++ R))) := by
  have hu32 : u32Max = 4294967295 := rfl
  have hb := Ok_mem_bounds ok (show (fk, xk) ∈ A ++ u :: (M ++ (fk, xk) :: R) by simp)
  have hxk : 0 < xk.length := List.length_pos_iff.mpr hb.2.1
  have hbk : fk + xk.length ≤ 4294967296 := hb.2.2
  have e : A ++ u :: (M ++ (fk, xk) :: R) = (A ++ u :: (M ++ [(fk, xk)])) ++ R := by simp
  have hloc := locate_below_shape ok e (show ∀ s ∈ A ++ u :: (M ++ [(fk, xk)]), s.1 ≤ hi by
    intro s hs
    simp only [List.mem_append, List.mem_cons, List.not_mem_nil, or_false] at hs
    rcases hs with hs | rfl | hs | rfl
    · exact hA s hs
    · exact hu
    · exact hM s hs
    · exact hl) hR
  have hL : (A ++ u :: (M ++ [(fk, xk)])).length - 1 = A.length + 1 + M.length := by
    simp only [List.length_append, List.length_cons, List.length_nil]; omega
  have hL2 : (A ++ u :: M).length = A.length + 1 + M.length := by
    simp only [List.length_append, List.length_cons]; omega
  have e3 : A ++ u :: (M ++ (fk, xk) :: R) = (A ++ u :: M) ++ (fk, xk) :: R := by simp
  have hgl : (A ++ u :: (M ++ (fk, xk) :: R))[A.length + 1 + M.length]? = some (fk, xk) := by
    rw [e3, ← hL2]; exact getElem?_mid _ _ _
  have hlen : (A ++ u :: (M ++ (fk, xk) :: R)).length = A.length + 1 + M.length + 1 + R.length := by
    simp only [List.length_append, List.length_cons]; omega
  rw [removeRangeTail_def _ _ _ _ _ hloc,
    if_pos (by simp only [List.length_append, List.length_cons, List.length_nil]; omega), hL]
  simp only
  rw [if_pos (by omega)]
  simp only [hgl]
  have hsl : segLast (fk, xk) = fk + xk.length - 1 := rfl
  rw [hsl]
  have htakeA : ∀ (v : Seg) (T : Segs), (A ++ v :: T).take A.length = A := fun v T => take_mid A _
  by_cases c : hi < fk + xk.length - 1
  · rw [if_pos c]
    unfold cutFront
    rw [if_neg (by omega), if_neg (by omega)]
    simp only
    rw [if_neg (by omega)]
    unfold mkSeg
    rw [if_neg (by unfold segLast; simp only [List.length_drop]; omega)]
    simp only [Out.bind_ok]
    unfold vecDrain
    rw [postP_some (by omega) (by omega)]
    have eset : (A ++ u :: (M ++ (fk, xk) :: R)).set (A.length + 1 + M.length) (hi + 1, xk.drop (hi + 1 - fk))
        = (A ++ u :: M) ++ (hi + 1, xk.drop (hi + 1 - fk)) :: R := by
      rw [e3, ← hL2]; exact set_mid _ _ _ _
    rw [eset]
    have edrop : ((A ++ u :: M) ++ (hi + 1, xk.drop (hi + 1 - fk)) :: R).drop (A.length + 1 + M.length + 0)
        = (hi + 1, xk.drop (hi + 1 - fk)) :: R := by
      rw [Nat.add_zero, ← hL2]; exact drop_mid _ _
    cases rf with
    | false =>
      simp only [Bool.false_eq_true, if_false]
      rw [if_neg (by omega), if_neg (by
        simp only [List.length_append, List.length_cons]; omega)]
      rw [edrop]
      have : (A ++ u :: M) ++ (hi + 1, xk.drop (hi + 1 - fk)) :: R
          = A ++ u :: (M ++ (hi + 1, xk.drop (hi + 1 - fk)) :: R) := by simp
      rw [this, take_mid_succ]
      simp
    | true =>
      simp only [Bool.false_eq_true, if_false, if_true]
      rw [if_neg (by omega), if_neg (by
        simp only [List.length_append, List.length_cons]; omega)]
      rw [edrop]
      have : (A ++ u :: M) ++ (hi + 1, xk.drop (hi + 1 - fk)) :: R
          = A ++ u :: (M ++ (hi + 1, xk.drop (hi + 1 - fk)) :: R) := by simp
      rw [this, Nat.add_zero, take_mid]
      simp
  · rw [if_neg c]
    simp only [Out.bind_ok]
    unfold vecDrain
    rw [postP_nil (by omega)]
    have edrop : (A ++ u :: (M ++ (fk, xk) :: R)).drop (A.length + 1 + M.length + 1) = R := by
      rw [e3, ← hL2]; exact drop_mid_succ _ _ _
    cases rf with
    | false =>
      simp only [Bool.false_eq_true, if_false, if_true]
      rw [if_neg (by omega), if_neg (by omega), edrop, take_mid_succ]
      simp
    | true =>
      simp only [if_true]
      rw [if_neg (by omega), if_neg (by omega), edrop, Nat.add_zero, take_mid]
      simp

/-! ## the theorem -/

theorem removeRange_nil (lo hi : Nat) : removeRange [] lo hi = [] := by rw [removeRange]

/-- the operational `remove_range` never panics / desyncs on a well-formed map and computes exactly the
recursive `removeRange` -/
theorem removeRangeOps_eq {ps : Segs} (inv : MInv ps) {lo hi : Nat} (h : lo ≤ hi) (hh : hi ≤ u32Max) :
    removeRangeOps ps lo hi = .ok (removeRange ps lo hi) := by
  have hu : u32Max = 4294967295 := rfl
  have ok : Ok 0 ps := inv
  obtain ⟨A, B, R, hps, hA, hB, hR⟩ := shape_exists ok lo hi
  have hpos : ∀ s ∈ ps, 0 < s.2.length ∧ s.1 + s.2.length ≤ 4294967296 := fun s hs => by
    have := Ok_mem_bounds ok hs; exact ⟨List.length_pos_iff.mpr this.2.1, this.2.2⟩
  have memA : ∀ s ∈ A, s ∈ ps := by rw [hps]; intro s hs; simp [hs]
  have memB : ∀ s ∈ B, s ∈ ps := by rw [hps]; intro s hs; simp [hs]
  have memR : ∀ s ∈ R, s ∈ ps := by rw [hps]; intro s hs; simp [hs]
  have fA : ∀ s ∈ A, 0 < s.2.length ∧ s.1 + s.2.length ≤ lo := fun s hs => by
    have h1 := hpos s (memA s hs); have h2 := hA s hs; unfold segLast at h2; omega
  have fA2 : ∀ s ∈ A, s.1 ≤ hi := fun s hs => by have := fA s hs; omega
  have fR : ∀ s ∈ R, 0 < s.2.length ∧ hi < s.1 := fun s hs => ⟨(hpos s (memR s hs)).1, (hR s hs).2⟩
  have fR2 : ∀ s ∈ R, hi < s.1 := fun s hs => (hR s hs).2
  have hQ : ∀ s ∈ B ++ R, lo ≤ segLast s := by
    intro s hs; rcases List.mem_append.mp hs with h | h
    · exact (hB s h).1
    · exact (hR s h).1
  have hloc := locate_above_shape ok hps hA hQ
  have hrhs : removeRange ps lo hi = A ++ (removeRange B lo hi ++ R) := by
    rw [hps, removeRange_append, removeRange_append, removeRange_below A lo hi h fA,
      removeRange_above R lo hi h fR]
  rw [hrhs]
  unfold removeRangeOps
  rw [hloc]
  subst hps
  cases B with
  | nil =>
    simp only [List.nil_append, removeRange_nil]
    cases R with
    | nil => simp
    | cons r0 R' =>
      rw [if_pos (by simp)]
      simp only [getElem?_mid]
      rw [if_pos (fR2 r0 (List.mem_cons_self ..))]
  | cons first B' =>
    obtain ⟨f1, x1⟩ := first
    obtain ⟨hx1, hb1⟩ := hpos (f1, x1) (memB _ (List.mem_cons_self ..))
    obtain ⟨hl1, hf1⟩ := hB (f1, x1) (List.mem_cons_self ..)
    have hsl1 : segLast (f1, x1) = f1 + x1.length - 1 := rfl
    simp only at hx1 hb1 hf1
    rw [hsl1] at hl1
    rw [if_pos (by simp)]
    simp only [List.cons_append, getElem?_mid]
    rw [if_neg (by omega)]
    simp only [hsl1]
    rcases List.eq_nil_or_concat B' with rfl | ⟨M, last, rfl⟩
    · -- exactly one segment meets the range
      have ok : Ok 0 (A ++ (f1, x1) :: R) := ok
      simp only [List.nil_append]
      rw [removeRange_cons, removeRange_nil, List.append_nil]
      by_cases cS : lo > f1 ∧ hi < f1 + x1.length - 1
      · -- split into two
        rw [if_pos cS, if_neg (by omega), if_neg (by omega)]
        unfold mkSeg
        rw [if_neg (by unfold segLast; simp only [List.length_drop]; omega)]
        simp only [Out.bind_ok]
        rw [if_neg (by omega), if_neg (by unfold segLast; simp only [List.length_take]; omega)]
        simp only [Out.bind_ok]
        unfold vecInsert
        rw [if_neg (by simp only [List.length_set, List.length_append, List.length_cons]; omega),
          set_mid, take_mid_succ, drop_mid_succ, preP_some (by omega) hx1, postP_some (by omega) (by omega)]
        have e1 : x1.length - (f1 + x1.length - 1 - hi) = hi + 1 - f1 := by omega
        rw [e1]
        simp
      · rw [if_neg cS]
        by_cases c1 : lo ≤ f1
        · rw [if_pos c1]
          by_cases c2 : hi < f1 + x1.length - 1
          · -- cut from the beginning
            rw [if_pos c2]
            unfold cutFront
            rw [if_neg (by omega), if_neg (by simp only; omega)]
            simp only
            rw [if_neg (by omega)]
            unfold mkSeg
            rw [if_neg (by unfold segLast; simp only [List.length_drop]; omega)]
            simp only [Out.bind_ok]
            rw [set_mid, rrTail_low (Ok_replace ok (by omega) (List.ne_nil_of_length_pos (by
                rw [List.length_drop]; omega)) (by rw [List.length_drop]; omega)) fA2 (by simp only; omega) fR2,
              preP_nil c1, postP_some (by omega) (by omega)]
            simp
          · -- the whole first segment goes
            rw [if_neg c2]
            simp only [Out.bind_ok]
            rw [rrTail_first ok fA2 hf1 fR2 true, preP_nil c1, postP_nil (by omega)]
            simp
        · -- truncate
          rw [if_neg c1, if_neg (by omega)]
          unfold mkSeg
          rw [if_neg (by unfold segLast; simp only [List.length_take]; omega)]
          simp only [Out.bind_ok]
          rw [set_mid, rrTail_first (Ok_replace ok (Nat.le_refl _) (List.ne_nil_of_length_pos (by
              rw [List.length_take]; omega)) (by rw [List.length_take]; omega)) fA2 hf1 fR2 false,
            preP_some (by omega) hx1, postP_nil (by omega)]
          simp
    · -- several segments meet the range: first, M, last
      simp only [List.concat_eq_append] at *
      obtain ⟨fk, xk⟩ := last
      have e9 : A ++ ((f1, x1) :: (M ++ [(fk, xk)]) ++ R) = A ++ (f1, x1) :: (M ++ (fk, xk) :: R) := by simp
      have ok : Ok 0 (A ++ (f1, x1) :: (M ++ (fk, xk) :: R)) := e9 ▸ ok
      have e8 : M ++ [(fk, xk)] ++ R = M ++ (fk, xk) :: R := by simp
      rw [e8]
      obtain ⟨hlk, hfk⟩ := hB (fk, xk) (by simp)
      simp only at hfk
      have okT : Ok (f1 + x1.length + 1) (M ++ (fk, xk) :: R) := Ok_tail (Ok_append_right ok)
      have h1k : f1 + x1.length < fk := by
        have := Ok_mem okT (show (fk, xk) ∈ M ++ (fk, xk) :: R by simp); simp only at this; omega
      have hM : ∀ s ∈ M, f1 + x1.length < s.1 ∧ s.1 + s.2.length < fk := by
        intro s hs
        have h1 := Ok_mem okT (show s ∈ M ++ (fk, xk) :: R by simp [hs])
        have h2 := Ok_append_lt okT hs
        simp only at h2
        exact ⟨by omega, h2⟩
      have hM2 : ∀ s ∈ M, s.1 ≤ hi := fun s hs => by have := hM s hs; omega
      have hrr : removeRange ((f1, x1) :: (M ++ [(fk, xk)])) lo hi = preP f1 x1 lo ++ postP fk xk hi := by
        rw [removeRange_cons, removeRange_append, removeRange_inside M lo hi (fun s hs => by
          have := hM s hs; omega), removeRange_cons, removeRange_nil, postP_nil (by omega),
          preP_nil (show lo ≤ fk by omega)]
        simp
      rw [hrr, if_neg (by omega)]
      by_cases c1 : lo ≤ f1
      · rw [if_pos c1, if_neg (by omega)]
        simp only [Out.bind_ok]
        rw [rrTail_multi ok fA2 hf1 hM2 hfk fR2 true, preP_nil c1]
        simp
      · rw [if_neg c1, if_neg (by omega)]
        unfold mkSeg
        rw [if_neg (by unfold segLast; simp only [List.length_take]; omega)]
        simp only [Out.bind_ok]
        rw [set_mid, rrTail_multi (Ok_replace ok (Nat.le_refl _) (List.ne_nil_of_length_pos (by
            rw [List.length_take]; omega)) (by rw [List.length_take]; omega)) fA2 hf1 hM2 hfk fR2 false,
          preP_some (by omega) hx1]
        simp

end Trion.Map
